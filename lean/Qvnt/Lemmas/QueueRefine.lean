/-
LEMMAS — the interpreter against the reference semantics (`Spec.stepNode`), for Props/C11:
(i) the masks `get_q_idx` / `get_c_idx` compute are the reference masks `Spec.argMask`,
(ii) what every statement contributes to the event list, (iii) running the events one by one
is `Spec.stepNode`.
-/
import Qvnt.Lemmas.Queue

set_option linter.unusedSectionVars false

namespace Qvnt
open Interp Spec

/-! ### (i) masks -/

/-- the step of `fold_idx_by_alias` -/
def maskStep (alias : String) (acc : Nat) (p : String × Nat) : Nat :=
  if p.1 == alias then acc ||| (1 <<< (p.2 % W)) else acc

theorem maskByAlias_eq (l : List String) (a : String) :
    maskByAlias l a = (l.zipIdx).foldl (maskStep a) 0 := rfl

theorem foldl_maskStep_not_mem (a : String) (l : List String) (k acc : Nat) (h : a ∉ l) :
    (l.zipIdx k).foldl (maskStep a) acc = acc := by
  induction l generalizing k acc with
  | nil => rfl
  | cons x l ih =>
    have hx : (x == a) = false := by
      simp only [beq_eq_false_iff_ne, ne_eq]
      rintro rfl; exact h (List.mem_cons_self)
    rw [List.zipIdx_cons, List.foldl_cons, maskStep, hx]
    exact ih _ _ (fun hm => h (List.mem_cons_of_mem _ hm))

theorem block_mask_succ (s k : Nat) :
    2 ^ k ||| (2 ^ s - 1) * 2 ^ (k + 1) = (2 ^ (s + 1) - 1) * 2 ^ k := by
  apply Nat.eq_of_testBit_eq
  intro j
  simp only [Nat.testBit_or, ← Nat.shiftLeft_eq, Nat.testBit_shiftLeft, Nat.testBit_two_pow_sub_one,
    Nat.testBit_two_pow]
  rw [Bool.eq_iff_iff]
  simp only [Bool.or_eq_true, decide_eq_true_eq, Bool.and_eq_true, ge_iff_le]
  omega

theorem foldl_maskStep_replicate (a : String) (s k acc : Nat) (h : k + s ≤ 64) :
    ((List.replicate s a).zipIdx k).foldl (maskStep a) acc = acc ||| ((2 ^ s - 1) * 2 ^ k) := by
  induction s generalizing k acc with
  | zero => simp
  | succ s ih =>
    rw [List.replicate_succ, List.zipIdx_cons, List.foldl_cons, ih (k + 1) _ (by omega)]
    have hk : k % W = k := Nat.mod_eq_of_lt (by unfold W; omega)
    simp only [maskStep, beq_self_eq_true, if_true, hk, Nat.one_shiftLeft]
    rw [Nat.or_assoc, block_mask_succ]

/-- the cells (one alias per bit) a declaration contributes -/
def Spec.Decl.cells (dc : Decl) : List String := List.replicate dc.size dc.name

/-- the interpreter's register list that corresponds to a list of declarations -/
def cellsOf (decls : List Decl) : List String := decls.flatMap Decl.cells

theorem cellsOf_cons (dc : Decl) (l : List Decl) : cellsOf (dc :: l) = dc.cells ++ cellsOf l := by
  simp [cellsOf]

theorem cellsOf_append (a b : List Decl) : cellsOf (a ++ b) = cellsOf a ++ cellsOf b := by
  simp [cellsOf]

theorem mem_cellsOf {a : String} {decls : List Decl} (h : a ∈ cellsOf decls) :
    a ∈ decls.map (·.name) := by
  simp only [cellsOf, List.mem_flatMap, Decl.cells] at h
  obtain ⟨dc, hdc, ha⟩ := h
  rw [(List.mem_replicate.mp ha).2]
  exact List.mem_map_of_mem hdc

theorem declsTotal_eq (decls : List Decl) : declsTotal decls = (cellsOf decls).length := by
  unfold declsTotal
  suffices h : ∀ acc, decls.foldl (fun a d => a + d.size) acc = acc + (cellsOf decls).length by
    simpa using h 0
  induction decls with
  | nil => intro acc; rfl
  | cons dc l ih =>
    intro acc
    rw [List.foldl_cons, ih, cellsOf_cons, List.length_append, Decl.cells, List.length_replicate]
    omega

/-- offsets are the running totals, starting from `k` -/
def OffsFrom : Nat → List Decl → Prop
  | _, [] => True
  | k, dc :: rest => dc.offset = k ∧ OffsFrom (k + dc.size) rest

theorem OffsFrom_append (k : Nat) (a : List Decl) (dc : Decl) :
    OffsFrom k (a ++ [dc]) ↔ OffsFrom k a ∧ dc.offset = k + (cellsOf a).length := by
  induction a generalizing k with
  | nil => simp [OffsFrom, cellsOf]
  | cons x a ih =>
    simp only [List.cons_append, OffsFrom, ih, cellsOf_cons, List.length_append, Decl.cells,
      List.length_replicate]
    constructor
    · rintro ⟨h1, h2, h3⟩; exact ⟨⟨h1, h2⟩, by omega⟩
    · rintro ⟨⟨h1, h2⟩, h3⟩; exact ⟨h1, h2, by omega⟩

/-- the core of (i): folding over the cells of well-formed declarations -/
theorem foldl_maskStep_cellsOf (a : String) (decls : List Decl) (k acc : Nat)
    (hoff : OffsFrom k decls) (hnd : (decls.map (·.name)).Nodup)
    (hsmall : k + (cellsOf decls).length ≤ 64) :
    (a ∉ decls.map (·.name) ∧ ((cellsOf decls).zipIdx k).foldl (maskStep a) acc = acc) ∨
    (∃ dc, decls.find? (·.name == a) = some dc ∧
      ((cellsOf decls).zipIdx k).foldl (maskStep a) acc = acc ||| ((2 ^ dc.size - 1) * 2 ^ dc.offset) ∧
      k ≤ dc.offset ∧ dc.offset + dc.size ≤ k + (cellsOf decls).length) := by
  induction decls generalizing k acc with
  | nil => left; exact ⟨by simp, rfl⟩
  | cons dc rest ih =>
    obtain ⟨ho, hrest⟩ := hoff
    simp only [List.map_cons, List.nodup_cons] at hnd
    rw [cellsOf_cons, List.length_append, Decl.cells, List.length_replicate] at hsmall
    rw [cellsOf_cons, List.zipIdx_append, List.foldl_append]
    simp only [Decl.cells, List.length_replicate]
    by_cases hname : dc.name = a
    · right
      refine ⟨dc, by simp [hname], ?_, by omega, ?_⟩
      · rw [hname, foldl_maskStep_replicate a dc.size k acc (by omega)]
        have : a ∉ cellsOf rest := fun hm => hnd.1 (hname ▸ mem_cellsOf hm)
        rw [foldl_maskStep_not_mem a _ _ _ this, ho]
      · rw [List.length_append, List.length_replicate]; omega
    · have hnot : a ∉ List.replicate dc.size dc.name := by
        intro hm; exact hname (List.mem_replicate.mp hm).2.symm
      rw [foldl_maskStep_not_mem a _ _ _ hnot]
      have hfind : (dc :: rest).find? (·.name == a) = rest.find? (·.name == a) := by
        simp [hname]
      rcases ih (k + dc.size) acc hrest hnd.2 (by omega) with ⟨h1, h2⟩ | ⟨dc', h1, h2, h3, h4⟩
      · left
        refine ⟨?_, h2⟩
        simp only [List.map_cons, List.mem_cons, not_or]
        exact ⟨fun h => hname h.symm, h1⟩
      · right
        refine ⟨dc', by rw [hfind, h1], h2, by omega, ?_⟩
        rw [List.length_append, List.length_replicate]; omega

/-- the interpreter's list of declared bits `l` is laid out as the reference declarations say -/
structure Layout (l : List String) (decls : List Decl) : Prop where
  cells : l = cellsOf decls
  offs : OffsFrom 0 decls
  pos : ∀ dc ∈ decls, 0 < dc.size
  nodup : (decls.map (·.name)).Nodup
  small : l.length ≤ 64

theorem Layout.nil : Layout [] [] := ⟨rfl, trivial, by simp, by simp, by simp⟩

/-- a new declaration keeps the layout -/
theorem Layout.declare {l : List String} {decls : List Decl} (h : Layout l decls) (a : String)
    (k : Nat) (hk : 0 < k) (ha : a ∉ l) (hs : l.length + k ≤ 64) :
    Layout (l ++ List.replicate k a) (decls ++ [⟨a, declsTotal decls, k⟩]) := by
  refine ⟨?_, ?_, ?_, ?_, ?_⟩
  · rw [cellsOf_append, ← h.cells]; simp [cellsOf, Decl.cells]
  · rw [OffsFrom_append]; exact ⟨h.offs, by simp [declsTotal_eq]⟩
  · intro dc hdc
    rcases List.mem_append.mp hdc with hd | hd
    · exact h.pos dc hd
    · simp only [List.mem_singleton] at hd; subst hd; exact hk
  · rw [List.map_append, List.nodup_append]
    refine ⟨h.nodup, by simp, ?_⟩
    intro x hx y hy
    simp only [List.map_cons, List.map_nil, List.mem_singleton] at hy
    subst hy
    rintro rfl
    apply ha
    obtain ⟨dc, hdc, rfl⟩ := List.mem_map.mp hx
    rw [h.cells]
    simp only [cellsOf, List.mem_flatMap, Decl.cells]
    exact ⟨dc, hdc, List.mem_replicate.mpr ⟨by have := h.pos dc hdc; omega, rfl⟩⟩
  · rw [List.length_append, List.length_replicate]; exact hs

/-- **(i)** a non-zero alias mask is the contiguous block of the declaration the reference
semantics finds -/
theorem Layout.mask {l : List String} {decls : List Decl} (h : Layout l decls) (a : String)
    (hm : maskByAlias l a ≠ 0) :
    ∃ dc, decls.find? (·.name == a) = some dc ∧
      maskByAlias l a = (2 ^ dc.size - 1) * 2 ^ dc.offset ∧ dc.offset + dc.size ≤ l.length ∧
      0 < dc.size := by
  have hsm : 0 + (cellsOf decls).length ≤ 64 := by rw [← h.cells]; simpa using h.small
  rw [maskByAlias_eq, h.cells] at hm ⊢
  rcases foldl_maskStep_cellsOf a decls 0 0 h.offs h.nodup hsm with ⟨_, h2⟩ | ⟨dc, h1, h2, _, h4⟩
  · exact absurd h2 hm
  · refine ⟨dc, h1, by rw [h2, Nat.zero_or], by omega, ?_⟩
    exact h.pos dc (List.mem_of_find?_eq_some h1)

theorem block_testBit (s k n : Nat) :
    ((2 ^ s - 1) * 2 ^ k).testBit n = (decide (k ≤ n) && decide (n - k < s)) := by
  rw [← Nat.shiftLeft_eq, Nat.testBit_shiftLeft, Nat.testBit_two_pow_sub_one]

theorem block_lt (s k : Nat) : (2 ^ s - 1) * 2 ^ k < 2 ^ (k + s) := by
  have : 0 < 2 ^ s := Nat.two_pow_pos s
  rw [Nat.pow_add, Nat.mul_comm (2 ^ k)]
  exact Nat.mul_lt_mul_of_pos_right (by omega) (Nat.two_pow_pos k)

theorem bitsBelow_block_qr (s k n : Nat) :
    bitsBelow ((2 ^ s - 1) * 2 ^ k) n = (List.range (min s (n - k))).map (fun i => 2 ^ (k + i)) := by
  induction n with
  | zero => simp [bitsBelow]
  | succ n ih =>
    rw [bitsBelow_succ, ih, block_testBit]
    by_cases h1 : k ≤ n
    · by_cases h2 : n - k < s
      · have e1 : min s (n + 1 - k) = (n - k) + 1 := by omega
        have e2 : min s (n - k) = n - k := by omega
        have e3 : k + (n - k) = n := by omega
        simp [h1, h2, e1, e2, List.range_succ, e3]
      · have e1 : min s (n + 1 - k) = s := by omega
        have e2 : min s (n - k) = s := by omega
        simp [h1, h2, e1, e2]
    · have e1 : min s (n + 1 - k) = 0 := by omega
      have e2 : min s (n - k) = 0 := by omega
      simp [h1, e1, e2]

/-- the bits of a contiguous block, ascending -/
theorem bitsIterList_block_qr (s k : Nat) (h : k + s ≤ 64) :
    bitsIterList ((2 ^ s - 1) * 2 ^ k) = (List.range s).map (fun i => 2 ^ (k + i)) := by
  have hlt : (2 ^ s - 1) * 2 ^ k < 2 ^ 64 :=
    Nat.lt_of_lt_of_le (block_lt s k) (Nat.pow_le_pow_right (by decide) h)
  rw [bitsIterList_eq_bitsOf _ hlt, bitsOf, bitsBelow_block_qr]
  have : min s (W - k) = s := by unfold W; omega
  rw [this]

/-- `get_q_idx` / `get_c_idx` on a bare register list -/
def getIdxL (l : List String) (quantum : Bool) (arg : Arg) : Except IntError Nat :=
  let noReg (a : String) : IntError := if quantum then .noQReg a else .noCReg a
  match arg with
  | .qubit alias idx =>
    let mask := maskByAlias l alias
    if mask ≠ 0 then
      match (bitsIterList mask)[idx]? with
      | some b => .ok b
      | none => .error (.idxOutOfRange alias idx)
    else .error (noReg alias)
  | .register alias =>
    let mask := maskByAlias l alias
    if mask ≠ 0 then .ok mask else .error (noReg alias)

theorem getIdx_eq_L {R : Type} (self d : Interp R) (q : Bool) (arg : Arg) :
    getIdx self d q arg
      = getIdxL (if q then self.qReg ++ d.qReg else self.cReg ++ d.cReg) q arg := rfl

/-- **(i)** every mask the interpreter computes is the reference mask; it lies within the
declared bits and is not empty -/
theorem Layout.getIdxL {l : List String} {decls : List Decl} (h : Layout l decls) (q : Bool)
    (arg : Arg) (m : Nat) (hm : Qvnt.getIdxL l q arg = .ok m) :
    argMask decls arg = some m ∧ m < 2 ^ l.length ∧ m ≠ 0 := by
  cases arg with
  | register a =>
    simp only [Qvnt.getIdxL] at hm
    split at hm
    · rename_i hne
      simp only [Except.ok.injEq] at hm
      obtain ⟨dc, hf, hmask, hle, hpos⟩ := h.mask a hne
      subst hm
      refine ⟨?_, ?_, hne⟩
      · simp only [argMask, hf, Option.bind_some]
        rw [if_neg (by omega), hmask]
      · rw [hmask]
        exact Nat.lt_of_lt_of_le (block_lt _ _)
          (Nat.pow_le_pow_right (by decide) (by omega))
    · cases hm
  | qubit a i =>
    simp only [Qvnt.getIdxL] at hm
    split at hm
    · rename_i hne
      obtain ⟨dc, hf, hmask, hle, hpos⟩ := h.mask a hne
      have hsm := h.small
      rw [hmask, bitsIterList_block_qr _ _ (by omega)] at hm
      by_cases hi : i < dc.size
      · rw [List.getElem?_map, List.getElem?_range hi] at hm
        simp only [Option.map_some, Except.ok.injEq] at hm
        subst hm
        refine ⟨?_, ?_, ?_⟩
        · simp only [argMask, hf, Option.bind_some, if_pos hi]
        · exact Nat.pow_lt_pow_right (by decide) (by omega)
        · exact Nat.ne_of_gt (Nat.two_pow_pos _)
      · rw [List.getElem?_map, List.getElem?_eq_none (by simpa using hi)] at hm
        cases hm
    · cases hm

/-! ### (ii) what an accepted statement is -/

section inv
variable {R : Type} [Add R] [Sub R] [Mul R] [Neg R] [Div R] [ExprFns R] [AngleFns R]

/-- inversion of `nodeDelta`: the checks that passed and the change made, per statement -/
theorem Interp.nodeDelta_inv {self d : Interp R} {n : Node R} {δ : Delta R}
    (h : nodeDelta self d n = .ok δ) :
    match n with
    | .qreg a k => declQ self d a k = .ok () ∧ δ = .qreg (List.replicate k a)
    | .creg a k => declC self d a k = .ok () ∧ δ = .creg (List.replicate k a)
    | .barrier => δ = .none
    | .opaque => δ = .none
    | .reset a => ∃ idx, getIdx self d true a = .ok idx ∧ δ = .reset idx
    | .measure q c => ∃ qa ca, getIdx self d true q = .ok qa ∧ getIdx self d false c = .ok ca ∧
        popcount qa = popcount ca ∧ δ = .meas qa ca
    | .apply c => ∃ o, callOp self d c = .ok o ∧ δ = .push o
    | .gate name regs args body => ∃ m, Macro.new regs args body = .ok m ∧ δ = .macro name m
    | .ifn lhs rhs (.call c) => ∃ val o, getIdx self d false (.register lhs) = .ok val ∧
        callOp self d c = .ok o ∧ δ = .guard val rhs o
    | .ifn _ _ .other => False := by
  cases n with
  | qreg a k =>
    simp only [nodeDelta] at h ⊢
    cases hq : declQ self d a k with
    | error e => rw [hq] at h; cases h
    | ok u => rw [hq] at h; simp only [Res.ok.injEq] at h; exact ⟨rfl, h.symm⟩
  | creg a k =>
    simp only [nodeDelta] at h ⊢
    cases hq : declC self d a k with
    | error e => rw [hq] at h; cases h
    | ok u => rw [hq] at h; simp only [Res.ok.injEq] at h; exact ⟨rfl, h.symm⟩
  | barrier => simp only [nodeDelta, Res.ok.injEq] at h ⊢; exact h.symm
  | «opaque» => simp only [nodeDelta, Res.ok.injEq] at h ⊢; exact h.symm
  | reset a =>
    simp only [nodeDelta] at h ⊢
    cases hq : getIdx self d true a with
    | error e => rw [hq] at h; cases h
    | ok idx => rw [hq] at h; simp only [Res.ok.injEq] at h; exact ⟨idx, rfl, h.symm⟩
  | measure q c =>
    simp only [nodeDelta] at h ⊢
    cases hq : getIdx self d true q with
    | error e => rw [hq] at h; cases h
    | ok qa =>
      rw [hq] at h
      dsimp only [] at h
      cases hc : getIdx self d false c with
      | error e => rw [hc] at h; cases h
      | ok ca =>
        rw [hc] at h
        dsimp only [] at h
        split at h
        · cases h
        · rename_i hp
          simp only [Res.ok.injEq] at h
          exact ⟨qa, ca, rfl, rfl, by simpa using hp, h.symm⟩
  | apply c =>
    simp only [nodeDelta] at h ⊢
    cases hc : callOp self d c with
    | err e => rw [hc] at h; cases h
    | panic p => rw [hc] at h; cases h
    | ok o => rw [hc] at h; simp only [Res.map, Res.ok.injEq] at h; exact ⟨o, rfl, h.symm⟩
  | gate name regs args body =>
    simp only [nodeDelta] at h ⊢
    cases hm : Macro.new regs args body with
    | error e => rw [hm] at h; cases h
    | ok m =>
      rw [hm] at h
      dsimp only [] at h
      split at h
      · split at h
        · simp only [Res.ok.injEq] at h; exact ⟨m, rfl, h.symm⟩
        · cases h
      · cases h
  | ifn lhs rhs body =>
    cases body with
    | other => cases h
    | call c =>
      simp only [nodeDelta] at h ⊢
      cases hq : getIdx self d false (.register lhs) with
      | error e => rw [hq] at h; cases h
      | ok val =>
        rw [hq] at h
        dsimp only [] at h
        cases hc : callOp self d c with
        | err e => rw [hc] at h; cases h
        | panic p => rw [hc] at h; cases h
        | ok o =>
          rw [hc] at h; simp only [Res.map, Res.ok.injEq] at h
          exact ⟨val, o, rfl, rfl, h.symm⟩

end inv

/-! ### `measure` stores outcome bits: what `storeBits` does to each bit -/

/-- one pairing step of `storeBits` -/
def storeStep (mOp : MeasureOp) (v : Nat) (c : CReg) (p : Nat × Nat) : CReg :=
  match mOp with
  | .set => c.set (v &&& p.1 ≠ 0) p.2
  | .xor => c.xor (v &&& p.1 ≠ 0) p.2

theorem storeBits_eq (mOp : MeasureOp) (c : CReg) (v q m : Nat) :
    Sym.storeBits mOp c v q m
      = ((bitsIterList q).zip (bitsIterList m)).foldl (storeStep mOp v) c := rfl

theorem two_pow_inj {a b : Nat} (h : 2 ^ a = 2 ^ b) : a = b := by
  rcases Nat.lt_trichotomy a b with h1 | h1 | h1
  · have := (Nat.pow_lt_pow_iff_right (a := 2) (by decide)).mpr h1; omega
  · exact h1
  · have := (Nat.pow_lt_pow_iff_right (a := 2) (by decide)).mpr h1; omega

theorem notW_two_pow_testBit (j k : Nat) (hk : k < 64) :
    (CReg.notW (2 ^ j)).testBit k = !decide (j = k) := by
  unfold CReg.notW W
  rw [Nat.testBit_xor, Nat.testBit_two_pow_sub_one, Nat.testBit_mod_two_pow, Nat.testBit_two_pow]
  simp [hk]

theorem storeStep_other (mOp : MeasureOp) (v : Nat) (c : CReg) (x j k : Nat) (hjk : j ≠ k)
    (hk : k < 64) : (storeStep mOp v c (x, 2 ^ j)).value.testBit k = c.value.testBit k := by
  cases mOp
  · simp only [storeStep, CReg.set]
    split
    · simp [Nat.testBit_or, hjk]
    · simp [Nat.testBit_and, notW_two_pow_testBit j k hk, hjk]
  · simp only [storeStep, CReg.xor]
    split
    · simp [Nat.testBit_xor, hjk]
    · rfl

theorem foldl_storeStep_other (mOp : MeasureOp) (v k : Nat) (hk : k < 64) (l : List (Nat × Nat))
    (c : CReg) (hl : ∀ p ∈ l, ∃ j, p.2 = 2 ^ j ∧ j ≠ k) :
    (l.foldl (storeStep mOp v) c).value.testBit k = c.value.testBit k := by
  induction l generalizing c with
  | nil => rfl
  | cons p l ih =>
    rw [List.foldl_cons, ih _ (fun q hq => hl q (List.mem_cons_of_mem _ hq))]
    obtain ⟨j, hj, hjk⟩ := hl p List.mem_cons_self
    obtain ⟨x, y⟩ := p
    simp only at hj
    subst hj
    exact storeStep_other mOp v c x j k hjk hk

theorem storeStep_set_self (v : Nat) (c : CReg) (a b : Nat) (hb : b < 64) :
    (storeStep .set v c (2 ^ a, 2 ^ b)).value.testBit b = v.testBit a := by
  simp only [storeStep, CReg.set]
  by_cases h : v.testBit a = true
  · have : v &&& 2 ^ a ≠ 0 := by rw [Nat.and_comm]; exact (two_pow_and_ne_zero_iff v a).mpr h
    simp [this, Nat.testBit_or, h]
  · have h' : v.testBit a = false := by simpa using h
    have : ¬ (v &&& 2 ^ a ≠ 0) := by
      rw [Nat.and_comm]; intro hne; exact h ((two_pow_and_ne_zero_iff v a).mp hne)
    simp [this, Nat.testBit_and, notW_two_pow_testBit b b hb, h']

theorem storeStep_xor_self (v : Nat) (c : CReg) (a b : Nat) :
    (storeStep .xor v c (2 ^ a, 2 ^ b)).value.testBit b = (c.value.testBit b ^^ v.testBit a) := by
  simp only [storeStep, CReg.xor]
  by_cases h : v.testBit a = true
  · have : v &&& 2 ^ a ≠ 0 := by rw [Nat.and_comm]; exact (two_pow_and_ne_zero_iff v a).mpr h
    simp [this, Nat.testBit_xor, h]
  · have h' : v.testBit a = false := by simpa using h
    have : ¬ (v &&& 2 ^ a ≠ 0) := by
      rw [Nat.and_comm]; intro hne; exact h ((two_pow_and_ne_zero_iff v a).mp hne)
    simp [this, h']

/-- a list of distinct single-bit masks below `2^64`, ascending -/
def WordBitList (l : List Nat) : Prop := l.Pairwise (· < ·) ∧ ∀ y ∈ l, ∃ j, j < 64 ∧ y = 2 ^ j

theorem wordBitList_bitsOf (m : Nat) : WordBitList (bitsOf m) :=
  ⟨bitsOf_pairwise_lt m, fun y hy => by
    obtain ⟨i, hi, rfl, _⟩ := (mem_bitsOf m y).mp hy; exact ⟨i, hi, rfl⟩⟩

theorem foldl_storeStep_pair (mOp : MeasureOp) (v a b : Nat) (l1 l2 : List Nat) (c : CReg)
    (h2 : WordBitList l2) (hmem : (2 ^ a, 2 ^ b) ∈ l1.zip l2) :
    ((l1.zip l2).foldl (storeStep mOp v) c).value.testBit b =
      match mOp with
      | .set => v.testBit a
      | .xor => (c.value.testBit b ^^ v.testBit a) := by
  induction l1 generalizing l2 c with
  | nil => simp at hmem
  | cons x xs ih =>
    cases l2 with
    | nil => simp at hmem
    | cons y ys =>
      obtain ⟨hpw, hall⟩ := h2
      have hys : WordBitList ys := ⟨(List.pairwise_cons.mp hpw).2, fun z hz => hall z (List.mem_cons_of_mem _ hz)⟩
      rw [List.zip_cons_cons, List.foldl_cons]
      rw [List.zip_cons_cons, List.mem_cons] at hmem
      rcases hmem with heq | hmem
      · simp only [Prod.mk.injEq] at heq
        obtain ⟨rfl, rfl⟩ := heq
        obtain ⟨j, hj, hyj⟩ := hall (2 ^ b) List.mem_cons_self
        have hbj : b = j := two_pow_inj hyj
        subst hbj
        rw [foldl_storeStep_other mOp v b hj]
        · cases mOp
          · exact storeStep_set_self v c a b hj
          · exact storeStep_xor_self v c a b
        · intro p hp
          obtain ⟨x', y'⟩ := p
          have hy' := (List.of_mem_zip hp).2
          obtain ⟨j', _, rfl⟩ := hall y' (List.mem_cons_of_mem _ hy')
          refine ⟨j', rfl, ?_⟩
          have hlt := (List.pairwise_cons.mp hpw).1 _ hy'
          rintro rfl
          exact Nat.lt_irrefl _ hlt
      · rw [ih ys _ hys hmem]
        cases mOp
        · rfl
        · have hb' := (List.of_mem_zip hmem).2
          obtain ⟨jy, hjy, rfl⟩ := hall y List.mem_cons_self
          obtain ⟨jb, hjb, hbe⟩ := hall (2 ^ b) (List.mem_cons_of_mem _ hb')
          have hlt := (List.pairwise_cons.mp hpw).1 _ hb'
          have hne : jy ≠ b := by rintro rfl; exact Nat.lt_irrefl _ hlt
          have := two_pow_inj hbe
          subst this
          dsimp only []
          rw [storeStep_other .xor v c x jy b hne hjb]

/-- what `storeBits` does to each bit of the classical word, for 64-bit masks -/
theorem storeBits_bits (mOp : MeasureOp) (c : CReg) (v qArg cArg : Nat)
    (hq : qArg < 2 ^ 64) (hc : cArg < 2 ^ 64) :
    (∀ k, k < 64 → cArg.testBit k = false →
      (Sym.storeBits mOp c v qArg cArg).value.testBit k = c.value.testBit k) ∧
    (∀ a b, (2 ^ a, 2 ^ b) ∈ (bitsOf qArg).zip (bitsOf cArg) →
      (mOp = .set → (Sym.storeBits mOp c v qArg cArg).value.testBit b = v.testBit a) ∧
      (mOp = .xor → (Sym.storeBits mOp c v qArg cArg).value.testBit b
        = (c.value.testBit b ^^ v.testBit a))) := by
  simp only [storeBits_eq, bitsIterList_eq_bitsOf _ hq, bitsIterList_eq_bitsOf _ hc]
  constructor
  · intro k hk hbit
    apply foldl_storeStep_other mOp v k hk
    intro p hp
    obtain ⟨x, y⟩ := p
    obtain ⟨j, _, rfl, hj⟩ := (mem_bitsOf cArg y).mp (List.of_mem_zip hp).2
    exact ⟨j, rfl, by rintro rfl; rw [hbit] at hj; cases hj⟩
  · intro a b hmem
    constructor
    · rintro rfl
      exact foldl_storeStep_pair .set v a b _ _ c (wordBitList_bitsOf cArg) hmem
    · rintro rfl
      exact foldl_storeStep_pair .xor v a b _ _ c (wordBitList_bitsOf cArg) hmem

/-! ### `get_by_mask` gathers the selected bits -/

theorem gather_prefix (v : Nat) (L : List Nat) (n : Nat) (hn : n ≤ L.length) :
    ((L.take n).zipIdx).foldl (fun acc (p : Nat × Nat) =>
        if v &&& p.1 ≠ 0 then acc ||| (1 <<< p.2) else acc) 0
      = (List.range n).foldl (fun acc i => if v &&& L.getD i 0 ≠ 0 then acc + 2 ^ i else acc) 0
    ∧ (List.range n).foldl (fun acc i => if v &&& L.getD i 0 ≠ 0 then acc + 2 ^ i else acc) 0 < 2 ^ n := by
  induction n with
  | zero => simp
  | succ n ih =>
    obtain ⟨h1, h2⟩ := ih (by omega)
    have hlt : n < L.length := by omega
    have htake : L.take (n + 1) = L.take n ++ [L[n]] := by
      rw [List.take_add_one, List.getElem?_eq_getElem hlt]; rfl
    have hlen : (L.take n).length = n := by rw [List.length_take]; omega
    have hget : L.getD n 0 = L[n] := by simp [List.getD, List.getElem?_eq_getElem hlt]
    rw [htake, List.zipIdx_append, List.foldl_append, h1, List.range_succ, List.foldl_append]
    simp only [hlen, Nat.zero_add, List.zipIdx_cons, List.zipIdx_nil, List.foldl_cons,
      List.foldl_nil, hget, Nat.one_shiftLeft]
    generalize (List.range n).foldl (fun acc i => if v &&& L.getD i 0 ≠ 0 then acc + 2 ^ i else acc) 0
      = acc at h2 ⊢
    have hor : acc ||| 2 ^ n = acc + 2 ^ n := by
      have := Nat.two_pow_add_eq_or_of_lt h2 1
      rw [Nat.mul_one] at this
      rw [Nat.or_comm, ← this, Nat.add_comm]
    have hpow : 2 ^ (n + 1) = 2 ^ n + 2 ^ n := by rw [Nat.pow_succ]; omega
    split
    · exact ⟨hor, by omega⟩
    · exact ⟨rfl, by omega⟩

/-- the model's `get_by_mask` is the reference value of the register, for a mask inside the
classical register -/
theorem getByMask_spec (c : CReg) (mask : Nat) (hm : mask &&& c.qMask = mask) (hlt : mask < 2 ^ 64) :
    c.getByMask mask
      = (List.range (maskBits mask).length).foldl (fun acc i =>
          if c.value &&& (maskBits mask).getD i 0 ≠ 0 then acc + 2 ^ i else acc) 0 := by
  unfold CReg.getByMask
  simp only [hm, bitsIterList_eq_bitsOf _ hlt, maskBits]
  have := (gather_prefix c.value (bitsOf mask) (bitsOf mask).length (Nat.le_refl _)).1
  rw [List.take_length] at this
  exact this

/-! ### (iii) one event = one reference step -/

section sim
variable {R : Type} [Add R] [Sub R] [Mul R] [Neg R] [Zero R] [One R] [Div R] [Consts R]
  [LE R] [DecidableLE R] [LT R] [DecidableLT R] [HasSqrt R] [RegConsts R] [ExprFns R] [AngleFns R]

/-- the reference state with the registers and outcome stream of a run state -/
def Spec.RefState.sync (rs : RefState R) (st : RunSt R) : RefState R :=
  { rs with q := st.qReg, c := st.cReg, drawn := st.drawn }

theorem measureMask_zero (q : QReg R) (m d : Nat) (h : m &&& q.qMask = 0) :
    q.measureMask m d = (q, CReg.new q.qNum) := by
  simp only [QReg.measureMask, h, if_true]

theorem CReg.new_value (n : Nat) : (CReg.new n).value = 0 := by
  simp [CReg.new, CReg.withState]

theorem draws_iff (q : QReg R) (m : Nat) : Sym.draws q m = true ↔ m &&& q.qMask ≠ 0 := by
  simp [Sym.draws]

theorem reset_step (rs : RefState R) (st : RunSt R) (a : Arg) (qm : Nat)
    (hq : rs.q = st.qReg) (hc : rs.c = st.cReg) (hd : rs.drawn = st.drawn)
    (harg : argMask rs.qdecls a = some qm) :
    stepNode rs (.reset a) = (Ev.run st (.reset qm)).map rs.sync := by
  obtain ⟨qd, cd, ms, q, c, m, dr⟩ := rs
  obtain ⟨sm, sq, sc, sd⟩ := st
  simp only at hq hc hd harg
  subst hq hc hd
  simp only [stepNode, harg, Option.bind_eq_bind, Option.bind_some, Ev.run, measureStep]
  by_cases h1 : qm &&& q.qMask = q.qMask
  · simp only [h1, if_true, Option.map_some, QReg.resetByMask]
    rfl
  · simp only [h1, if_false]
    by_cases h2 : qm &&& q.qMask = 0
    · have hdr : Sym.draws q qm = false := by simp [Sym.draws, h2]
      have h1' : ¬ 0 = q.qMask := h2 ▸ h1
      simp only [h2, if_true, hdr, Bool.false_eq_true, if_false, Option.bind_some, Option.map_some,
        QReg.resetByMask, h1', measureMask_zero q qm 0 h2, CReg.new_value, ne_eq, not_true]
      rfl
    · have hdr : Sym.draws q qm = true := by simp [Sym.draws, h2]
      simp only [h2, if_false, hdr, if_true]
      cases dr with
      | nil => rfl
      | cons d ds =>
        simp only [Option.bind_some, Option.map_some, QReg.resetByMask, h1, if_false]
        split <;> rfl

theorem measure_step (rs : RefState R) (st : RunSt R) (qa ca : Arg) (qm cm : Nat)
    (hq : rs.q = st.qReg) (hc : rs.c = st.cReg) (hd : rs.drawn = st.drawn) (hm : rs.mOp = st.mOp)
    (hqa : argMask rs.qdecls qa = some qm) (hca : argMask rs.cdecls ca = some cm)
    (hql : qm < 2 ^ 64) (hcl : cm < 2 ^ 64) :
    stepNode rs (.measure qa ca) = (Ev.run st (.meas qm cm)).map rs.sync := by
  obtain ⟨qd, cd, ms, q, c, m, dr⟩ := rs
  obtain ⟨sm, sq, sc, sd⟩ := st
  simp only at hq hc hd hm hqa hca
  subst hq hc hd hm
  simp only [stepNode, hqa, hca, Option.bind_eq_bind, Option.bind_some, Ev.run, measureStep,
    Sym.storeBits, bitsIterList_eq_bitsOf _ hql, bitsIterList_eq_bitsOf _ hcl, maskBits]
  by_cases h2 : qm &&& q.qMask = 0
  · have hdr : Sym.draws q qm = false := by simp [Sym.draws, h2]
    simp only [h2, if_true, hdr, Bool.false_eq_true, if_false, Option.bind_some, Option.map_some,
      measureMask_zero q qm 0 h2, CReg.new_value]
    simp only [RefState.sync]
    cases m <;> rfl
  · have hdr : Sym.draws q qm = true := by simp [Sym.draws, h2]
    simp only [h2, if_false, hdr, if_true]
    cases dr with
    | nil => rfl
    | cons d ds =>
      simp only [Option.bind_some, Option.map_some, RefState.sync]
      cases m <;> rfl

theorem regsOf_spec (self d : Interp R) (decls : List Decl)
    (hag : ∀ a m, getIdx self d true a = .ok m → argMask decls a = some m)
    (as : List Arg) (acc regs : List Nat) (h : processApply.regsOf self d as acc = .ok regs) :
    ∃ ms, as.mapM (argMask decls) = some ms ∧ regs = acc.reverse ++ ms := by
  induction as generalizing acc with
  | nil =>
    simp only [processApply.regsOf, Except.ok.injEq] at h
    exact ⟨[], rfl, by simp [h]⟩
  | cons a as ih =>
    simp only [processApply.regsOf] at h
    cases hg : getIdx self d true a with
    | error e => rw [hg] at h; cases h
    | ok m =>
      rw [hg] at h
      obtain ⟨ms, h1, h2⟩ := ih _ h
      refine ⟨m :: ms, ?_, ?_⟩
      · simp only [List.mapM_cons, hag a m hg, h1, Option.bind_eq_bind, Option.bind_some,
          Option.pure_def]
      · simp [h2]

theorem argsOf_spec (as : List (PExpr R)) (acc args : List R)
    (h : processApply.argsOf as acc = .ok args) :
    ∃ vs, as.mapM (fun a => match evalExtended (R := R) a [] with
        | .ok v => some v | .error _ => none) = some vs ∧ args = acc.reverse ++ vs := by
  induction as generalizing acc with
  | nil =>
    simp only [processApply.argsOf, Except.ok.injEq] at h
    exact ⟨[], rfl, by simp [h]⟩
  | cons a as ih =>
    simp only [processApply.argsOf] at h
    cases hg : evalExtended a [] with
    | error e => rw [hg] at h; cases h
    | ok v =>
      rw [hg] at h
      obtain ⟨vs, h1, h2⟩ := ih _ h
      refine ⟨v :: vs, ?_, ?_⟩
      · simp only [List.mapM_cons, hg, h1, Option.bind_eq_bind, Option.bind_some, Option.pure_def]
      · simp [h2]

/-- the operator the interpreter computes for a gate statement is the reference one -/
theorem callOp_spec (d : Interp R) (rs : RefState R) (hmac : rs.macros = d.macros)
    (hag : ∀ a m, getIdx ({} : Interp R) d true a = .ok m → argMask rs.qdecls a = some m)
    (c : Call R) (o : MultiOp R) (h : Interp.callOp {} d c = .ok o) : Spec.callOp rs c = some o := by
  unfold Interp.callOp at h
  cases hr : processApply.regsOf ({} : Interp R) d c.regs [] with
  | error e => rw [hr] at h; cases h
  | ok regs =>
    rw [hr] at h
    dsimp only [] at h
    cases ha : processApply.argsOf c.args [] with
    | error e => rw [ha] at h; cases h
    | ok args =>
      rw [ha] at h
      dsimp only [] at h
      obtain ⟨ms, hm1, hm2⟩ := regsOf_spec _ d rs.qdecls hag _ _ _ hr
      obtain ⟨vs, hv1, hv2⟩ := argsOf_spec _ _ _ ha
      simp only [List.reverse_nil, List.nil_append] at hm2 hv2
      subst hm2 hv2
      have hnil : ({} : Interp R).macros ++ d.macros = d.macros := List.nil_append _
      rw [hnil] at h
      simp only [Spec.callOp, hm1, hmac, Option.bind_eq_bind, Option.bind_some]
      erw [hv1]
      cases hl : lookupLast d.macros c.name with
      | none => rw [hl] at h; dsimp only [] at h ⊢; rw [Option.bind_some, h]
      | some m => rw [hl] at h; dsimp only [] at h ⊢; rw [Option.bind_some, h]

theorem apply_step (rs : RefState R) (st : RunSt R) (c : Call R) (o : MultiOp R)
    (hq : rs.q = st.qReg) (hc : rs.c = st.cReg) (hd : rs.drawn = st.drawn)
    (hop : Spec.callOp rs c = some o) :
    stepNode rs (.apply c) = (Ev.run st (.app o)).map rs.sync := by
  obtain ⟨qd, cd, ms, q, cr, m, dr⟩ := rs
  obtain ⟨sm, sq, sc, sd⟩ := st
  simp only at hq hc hd
  subst hq hc hd
  simp only [stepNode, hop, Option.map_some, Ev.run, RefState.sync]

theorem if_step (rs : RefState R) (st : RunSt R) (lhs : String) (rhs : Nat) (c : Call R)
    (val : Nat) (o : MultiOp R)
    (hq : rs.q = st.qReg) (hc : rs.c = st.cReg) (hd : rs.drawn = st.drawn)
    (harg : argMask rs.cdecls (.register lhs) = some val)
    (hop : Spec.callOp rs c = some o)
    (hval : val &&& st.cReg.qMask = val) (hlt : val < 2 ^ 64) :
    stepNode rs (.ifn lhs rhs (.call c)) = (Ev.run st (.cond val rhs o)).map rs.sync := by
  obtain ⟨qd, cd, ms, q, cr, m, dr⟩ := rs
  obtain ⟨sm, sq, sc, sd⟩ := st
  simp only at hq hc hd harg hval
  subst hq hc hd
  simp only [stepNode, harg, hop, Option.bind_eq_bind, Option.bind_some, Ev.run,
    getByMask_spec cr val hval hlt]
  split <;> rfl

/-- declared sizes are positive (a zero-size declaration does not reserve its name in the
interpreter, while the reference semantics would find it first) -/
def PosDecl : Node R → Prop
  | .qreg _ k => 0 < k
  | .creg _ k => 0 < k
  | _ => True

/-- the simulation relation between the interpreter's view after a prefix of the program
(`d`), the run state after the prefix's events (`st`) and the reference state (`rs`);
`NC` is the final width of the classical register -/
structure Inv (NC : Nat) (d : Interp R) (st : RunSt R) (rs : RefState R) : Prop where
  q : rs.q = st.qReg
  c : rs.c = st.cReg
  mOp : rs.mOp = st.mOp
  drawn : rs.drawn = st.drawn
  macros : rs.macros = d.macros
  lq : Layout d.qReg rs.qdecls
  lc : Layout d.cReg rs.cdecls
  cmask : st.cReg.qMask = CReg.maskOf NC

theorem Inv.run {NC : Nat} {d : Interp R} {st st' : RunSt R} {rs : RefState R}
    (h : Inv NC d st rs) {evs : List (Ev R)} (hr : runEvs evs st = some st') :
    Inv NC d st' (rs.sync st') := by
  have hs := runEvs_shape hr
  exact ⟨rfl, rfl, h.mOp.trans hs.mOp.symm, rfl, h.macros, h.lq, h.lc, hs.cMask.trans h.cmask⟩

theorem Inv.congr_d {NC : Nat} {d d' : Interp R} {st : RunSt R} {rs : RefState R}
    (h : Inv NC d st rs) (hq : d'.qReg = d.qReg) (hc : d'.cReg = d.cReg)
    (hm : d'.macros = d.macros) : Inv NC d' st rs :=
  ⟨h.q, h.c, h.mOp, h.drawn, hm ▸ h.macros, hq ▸ h.lq, hc ▸ h.lc, h.cmask⟩

theorem Inv.sync_self {NC : Nat} {d : Interp R} {st : RunSt R} {rs : RefState R}
    (h : Inv NC d st rs) : rs.sync st = rs := by
  obtain ⟨qd, cd, ms, q, cr, m, dr⟩ := rs
  have h1 := h.q; have h2 := h.c; have h3 := h.drawn
  simp only at h1 h2 h3
  simp only [RefState.sync, h1, h2, h3]

theorem checkRegSize_ok_qr {a : String} {n : Nat} (h : checkRegSize a n = .ok ()) : n < 64 := by
  unfold checkRegSize at h
  split at h
  · cases h
  · rename_i hn; simpa [Generated.regSizeLimit] using hn

theorem Inv.agree_q {NC : Nat} {d : Interp R} {st : RunSt R} {rs : RefState R} (h : Inv NC d st rs)
    (a : Arg) (m : Nat) (hg : getIdx ({} : Interp R) d true a = .ok m) :
    argMask rs.qdecls a = some m ∧ m < 2 ^ d.qReg.length ∧ m ≠ 0 := by
  rw [getIdx_eq_L] at hg
  simp only [if_true] at hg
  have hnil : ({} : Interp R).qReg ++ d.qReg = d.qReg := List.nil_append _
  rw [hnil] at hg
  exact h.lq.getIdxL true a m hg

theorem Inv.agree_c {NC : Nat} {d : Interp R} {st : RunSt R} {rs : RefState R} (h : Inv NC d st rs)
    (a : Arg) (m : Nat) (hg : getIdx ({} : Interp R) d false a = .ok m) :
    argMask rs.cdecls a = some m ∧ m < 2 ^ d.cReg.length ∧ m ≠ 0 := by
  rw [getIdx_eq_L] at hg
  simp only [Bool.false_eq_true, if_false] at hg
  have hnil : ({} : Interp R).cReg ++ d.cReg = d.cReg := List.nil_append _
  rw [hnil] at hg
  exact h.lc.getIdxL false a m hg

theorem lt_two_pow_64 {m n : Nat} (h : m < 2 ^ n) (hn : n ≤ 64) : m < 2 ^ 64 :=
  Nat.lt_of_lt_of_le h (Nat.pow_le_pow_right (by decide) hn)

theorem and_maskOf_eq {m n NC : Nat} (h : m < 2 ^ n) (hn : n ≤ 64) (hNC : n ≤ NC) :
    m &&& CReg.maskOf NC = m := by
  unfold CReg.maskOf
  split
  · rw [Nat.and_two_pow_sub_one_eq_mod]
    exact Nat.mod_eq_of_lt (by unfold W; exact lt_two_pow_64 h hn)
  · rw [Nat.and_two_pow_sub_one_eq_mod]
    exact Nat.mod_eq_of_lt (Nat.lt_of_lt_of_le h (Nat.pow_le_pow_right (by decide) hNC))

/-- **(iii)** one accepted statement: the reference step is the run of the statement's events -/
theorem sim_step {NC : Nat} {d : Interp R} {st : RunSt R} {rs : RefState R} {n : Node R}
    {δ : Delta R} (hinv : Inv NC d st rs) (hδ : nodeDelta ({} : Interp R) d n = .ok δ)
    (hpos : PosDecl n) (hNC : d.cReg.length ≤ NC) :
    ∃ rs₁ : RefState R, stepNode rs n = (runEvs δ.events st).map rs₁.sync ∧
      ∀ st', runEvs δ.events st = some st' → Inv NC (δ.apply d) st' (rs₁.sync st') := by
  have hinv0 := nodeDelta_inv hδ
  cases n with
  | qreg a k =>
    obtain ⟨hdecl, rfl⟩ := hinv0
    obtain ⟨_, _, hsz, hnq, _⟩ := (declQ_ok_iff _ _ _ _).mp hdecl
    have hnil : ({} : Interp R).qReg ++ d.qReg = d.qReg := List.nil_append _
    rw [hnil] at hsz hnq
    refine ⟨{ rs with qdecls := rs.qdecls ++ [⟨a, declsTotal rs.qdecls, k⟩] }, ?_, ?_⟩
    · simp only [Delta.events, runEvs_nil, Option.map_some, stepNode]
      have := hinv.sync_self
      simp only [RefState.sync] at this ⊢
      rw [RefState.mk.injEq] at this
      simp only [this.2.2.2.1, this.2.2.2.2.1, this.2.2.2.2.2.2]
    · intro st' hst'
      simp only [Delta.events, runEvs_nil, Option.some.injEq] at hst'
      subst hst'
      have hlen := checkRegSize_ok_qr hsz
      exact ⟨rfl, rfl, hinv.mOp, rfl, hinv.macros,
        hinv.lq.declare a k hpos hnq (by omega), hinv.lc, hinv.cmask⟩
  | creg a k =>
    obtain ⟨hdecl, rfl⟩ := hinv0
    obtain ⟨_, _, hsz, _, hnc⟩ := (declC_ok_iff _ _ _ _).mp hdecl
    have hnil : ({} : Interp R).cReg ++ d.cReg = d.cReg := List.nil_append _
    rw [hnil] at hsz hnc
    refine ⟨{ rs with cdecls := rs.cdecls ++ [⟨a, declsTotal rs.cdecls, k⟩] }, ?_, ?_⟩
    · simp only [Delta.events, runEvs_nil, Option.map_some, stepNode]
      have := hinv.sync_self
      simp only [RefState.sync] at this ⊢
      rw [RefState.mk.injEq] at this
      simp only [this.2.2.2.1, this.2.2.2.2.1, this.2.2.2.2.2.2]
    · intro st' hst'
      simp only [Delta.events, runEvs_nil, Option.some.injEq] at hst'
      subst hst'
      have hlen := checkRegSize_ok_qr hsz
      exact ⟨rfl, rfl, hinv.mOp, rfl, hinv.macros, hinv.lq,
        hinv.lc.declare a k hpos hnc (by omega), hinv.cmask⟩
  | barrier =>
    have h0 : δ = .none := hinv0
    subst h0
    refine ⟨rs, ?_, ?_⟩
    · simp only [Delta.events, runEvs_nil, Option.map_some, stepNode, hinv.sync_self]
    · intro st' hst'; exact hinv.run hst'
  | «opaque» =>
    have h0 : δ = .none := hinv0
    subst h0
    refine ⟨rs, ?_, ?_⟩
    · simp only [Delta.events, runEvs_nil, Option.map_some, stepNode, hinv.sync_self]
    · intro st' hst'; exact hinv.run hst'
  | reset a =>
    obtain ⟨idx, hg, rfl⟩ := hinv0
    obtain ⟨harg, _, _⟩ := hinv.agree_q a idx hg
    refine ⟨rs, ?_, ?_⟩
    · rw [reset_step rs st a idx hinv.q hinv.c hinv.drawn harg]
      simp only [Delta.events, runEvs_cons, runEvs]
      cases Ev.run st (Ev.reset idx) <;> rfl
    · intro st' hst'; exact (hinv.run hst').congr_d rfl rfl rfl
  | measure qa ca =>
    obtain ⟨qm, cm, hgq, hgc, _, rfl⟩ := hinv0
    obtain ⟨hq1, hq2, _⟩ := hinv.agree_q qa qm hgq
    obtain ⟨hc1, hc2, _⟩ := hinv.agree_c ca cm hgc
    refine ⟨rs, ?_, ?_⟩
    · rw [measure_step rs st qa ca qm cm hinv.q hinv.c hinv.drawn hinv.mOp hq1 hc1
        (lt_two_pow_64 hq2 hinv.lq.small) (lt_two_pow_64 hc2 hinv.lc.small)]
      simp only [Delta.events, runEvs_cons, runEvs]
      cases Ev.run st (Ev.meas qm cm) <;> rfl
    · intro st' hst'; exact (hinv.run hst').congr_d rfl rfl rfl
  | apply c =>
    obtain ⟨o, hop, rfl⟩ := hinv0
    have hop' := callOp_spec d rs hinv.macros (fun a m h => (hinv.agree_q a m h).1) c o hop
    refine ⟨rs, ?_, ?_⟩
    · rw [apply_step rs st c o hinv.q hinv.c hinv.drawn hop']
      simp only [Delta.events, runEvs_cons, runEvs]
      cases Ev.run st (Ev.app o) <;> rfl
    · intro st' hst'; exact (hinv.run hst').congr_d rfl rfl rfl
  | gate name regs args body =>
    obtain ⟨m, hm, rfl⟩ := hinv0
    refine ⟨{ rs with macros := rs.macros ++ [(name, m)] }, ?_, ?_⟩
    · simp only [Delta.events, runEvs_nil, Option.map_some, stepNode, hm]
      have := hinv.sync_self
      simp only [RefState.sync] at this ⊢
      rw [RefState.mk.injEq] at this
      simp only [this.2.2.2.1, this.2.2.2.2.1, this.2.2.2.2.2.2]
    · intro st' hst'
      simp only [Delta.events, runEvs_nil, Option.some.injEq] at hst'
      subst hst'
      exact ⟨rfl, rfl, hinv.mOp, rfl, by simp only [Delta.apply, RefState.sync, hinv.macros],
        hinv.lq, hinv.lc, hinv.cmask⟩
  | ifn lhs rhs body =>
    cases body with
    | other => exact absurd hinv0 id
    | call c =>
      obtain ⟨val, o, hg, hop, rfl⟩ := hinv0
      obtain ⟨harg, hlt, _⟩ := hinv.agree_c (.register lhs) val hg
      have hop' := callOp_spec d rs hinv.macros (fun a m h => (hinv.agree_q a m h).1) c o hop
      refine ⟨rs, ?_, ?_⟩
      · rw [if_step rs st lhs rhs c val o hinv.q hinv.c hinv.drawn harg hop'
          (by rw [hinv.cmask]; exact and_maskOf_eq hlt hinv.lc.small hNC)
          (lt_two_pow_64 hlt hinv.lc.small)]
        simp only [Delta.events, runEvs_cons, runEvs]
        cases Ev.run st (Ev.cond val rhs o) <;> rfl
      · intro st' hst'; exact (hinv.run hst').congr_d rfl rfl rfl

/-- what the reference run leaves: the quantum state, the classical register, the unused
outcomes -/
def Spec.RefState.final (rs : RefState R) : QReg R × CReg × List Nat := (rs.q, rs.c, rs.drawn)

theorem foldl_stepNode_none (p : List (Node R)) :
    p.foldl (fun s n => s.bind (fun s => stepNode s n)) (none : Option (RefState R)) = none := by
  induction p with
  | nil => rfl
  | cons n ns ih => exact ih

/-- the whole program: the reference run is the run of the statements' events -/
theorem sim_nodes {NC : Nat} (p : List (Node R)) (d : Interp R) (st : RunSt R) (rs : RefState R)
    (δs : List (Delta R)) (hinv : Inv NC d st rs)
    (hδ : nodesDelta ({} : Interp R) d p = .ok δs) (hpos : ∀ n ∈ p, PosDecl n)
    (hNC : (applyAll d δs).cReg.length ≤ NC) :
    (p.foldl (fun s n => s.bind (fun s => stepNode s n)) (some rs)).map RefState.final
      = (runEvs (δs.flatMap Delta.events) st).map RunSt.final := by
  induction p generalizing d st rs δs with
  | nil =>
    simp only [nodesDelta, Res.ok.injEq] at hδ
    subst hδ
    simp only [List.foldl_nil, List.flatMap_nil, runEvs_nil, Option.map_some, RefState.final,
      RunSt.final, hinv.q, hinv.c, hinv.drawn]
  | cons n ns ih =>
    simp only [nodesDelta] at hδ
    cases hn : nodeDelta ({} : Interp R) d n with
    | err e => rw [hn] at hδ; cases hδ
    | panic s => rw [hn] at hδ; cases hδ
    | ok δ =>
      rw [hn] at hδ
      dsimp only [] at hδ
      cases hr : nodesDelta ({} : Interp R) (δ.apply d) ns with
      | err e => rw [hr] at hδ; cases hδ
      | panic s => rw [hr] at hδ; cases hδ
      | ok δs' =>
        rw [hr] at hδ
        simp only [Res.map, Res.ok.injEq] at hδ
        subst hδ
        have hle : d.cReg.length ≤ NC := by
          rw [applyAll_cReg] at hNC
          rw [List.length_append] at hNC; omega
        obtain ⟨rs₁, hstep, hnext⟩ :=
          sim_step hinv hn (hpos n List.mem_cons_self) hle
        rw [List.foldl_cons, Option.bind_some, hstep, List.flatMap_cons, runEvs_append]
        cases he : runEvs δ.events st with
        | none =>
          simp only [Option.map_none, Option.bind_none, foldl_stepNode_none]
        | some st' =>
          simp only [Option.map_some, Option.bind_some]
          exact ih (δ.apply d) st' (rs₁.sync st') δs' (hnext st' he) hr
            (fun m hm => hpos m (List.mem_cons_of_mem _ hm)) hNC

/-- declared widths of one statement -/
def qsize : Node R → Nat
  | .qreg _ k => k
  | _ => 0
def csize : Node R → Nat
  | .creg _ k => k
  | _ => 0

theorem nodeDelta_counts {self d : Interp R} {n : Node R} {δ : Delta R}
    (h : nodeDelta self d n = .ok δ) :
    δ.qregs.length = qsize n ∧ δ.cregs.length = csize n := by
  have h0 := nodeDelta_inv h
  cases n with
  | qreg a k => obtain ⟨_, rfl⟩ := h0; simp [Delta.qregs, Delta.cregs, qsize, csize]
  | creg a k => obtain ⟨_, rfl⟩ := h0; simp [Delta.qregs, Delta.cregs, qsize, csize]
  | barrier => have h1 : δ = .none := h0; subst h1; exact ⟨rfl, rfl⟩
  | «opaque» => have h1 : δ = .none := h0; subst h1; exact ⟨rfl, rfl⟩
  | reset a => obtain ⟨_, _, rfl⟩ := h0; exact ⟨rfl, rfl⟩
  | measure q c => obtain ⟨_, _, _, _, _, rfl⟩ := h0; exact ⟨rfl, rfl⟩
  | apply c => obtain ⟨_, _, rfl⟩ := h0; exact ⟨rfl, rfl⟩
  | gate name regs args body => obtain ⟨_, _, rfl⟩ := h0; exact ⟨rfl, rfl⟩
  | ifn lhs rhs body =>
    cases body with
    | other => exact absurd h0 id
    | call c => obtain ⟨_, _, _, _, rfl⟩ := h0; exact ⟨rfl, rfl⟩

/-- the registers the interpreter ends with are as wide as the declarations say -/
theorem nodesDelta_count {self d : Interp R} {p : List (Node R)} {δs : List (Delta R)}
    (h : nodesDelta self d p = .ok δs) (f : Nat → Node R → Nat) (sz : Node R → Nat)
    (g : Delta R → List String) (hg : ∀ d n δ, nodeDelta self d n = .ok δ → (g δ).length = sz n)
    (hf : ∀ a n, f a n = a + sz n) (acc : Nat) :
    p.foldl f acc = acc + (δs.flatMap g).length := by
  induction p generalizing d δs acc with
  | nil =>
    simp only [nodesDelta, Res.ok.injEq] at h
    subst h; simp
  | cons n ns ih =>
    simp only [nodesDelta] at h
    cases hn : nodeDelta self d n with
    | err e => rw [hn] at h; cases h
    | panic s => rw [hn] at h; cases h
    | ok δ =>
      rw [hn] at h
      dsimp only [] at h
      cases hr : nodesDelta self (δ.apply d) ns with
      | err e => rw [hr] at h; cases h
      | panic s => rw [hr] at h; cases h
      | ok δs' =>
        rw [hr] at h
        simp only [Res.map, Res.ok.injEq] at h
        subst h
        rw [List.foldl_cons, ih hr, hf, List.flatMap_cons, List.length_append, hg d n δ hn]
        omega

theorem nodesDelta_count_q {self d : Interp R} {p : List (Node R)} {δs : List (Delta R)}
    (h : nodesDelta self d p = .ok δs) (f : Nat → Node R → Nat) (hf : ∀ a n, f a n = a + qsize n) :
    p.foldl f 0 = (δs.flatMap Delta.qregs).length := by
  rw [nodesDelta_count h f qsize Delta.qregs (fun _ _ _ hn => (nodeDelta_counts hn).1) hf 0,
    Nat.zero_add]

theorem nodesDelta_count_c {self d : Interp R} {p : List (Node R)} {δs : List (Delta R)}
    (h : nodesDelta self d p = .ok δs) (f : Nat → Node R → Nat) (hf : ∀ a n, f a n = a + csize n) :
    p.foldl f 0 = (δs.flatMap Delta.cregs).length := by
  rw [nodesDelta_count h f csize Delta.cregs (fun _ _ _ hn => (nodeDelta_counts hn).2) hf 0,
    Nat.zero_add]

/-- **queue-then-run = statement-by-statement.** For an accepted program with positive
declared sizes, in either measurement mode, for every stream of measurement outcomes. -/
theorem refine_main (p : List (Node R)) (int : Interp R) (m : MeasureOp) (drawn : List Nat)
    (hacc : Interp.new p = .ok int) (hpos : ∀ n ∈ p, PosDecl n) :
    (Sym.finish (Sym.new { int with mOp := m }) drawn).map Sym.final
      = (refRun p m drawn).map RefState.final := by
  obtain ⟨δs, hδ, rfl⟩ := (addAst_ok_iff _ _ _).mp hacc
  rw [Sym.finish_final]
  -- the queue's events
  have hev : (appendInt ({} : Interp R) (chunkOf δs p.length)).qOps.events
      ≃ₑ δs.flatMap Delta.events := by
    refine EvEquiv.trans (ExtOp.events_append _ _) ?_
    refine EvEquiv.trans (EvEquiv.append_left (ExtOp.events_empty (R := R)) _) ?_
    exact chunkOf_events δs p.length
  have hq : (appendInt ({} : Interp R) (chunkOf δs p.length)).qReg = δs.flatMap Delta.qregs := by
    simp only [appendInt, chunkOf_qReg]; exact List.nil_append _
  have hc : (appendInt ({} : Interp R) (chunkOf δs p.length)).cReg = δs.flatMap Delta.cregs := by
    simp only [appendInt, chunkOf_cReg]; exact List.nil_append _
  show (runEvs _ _).map RunSt.final = _
  simp only [Sym.toRun, Sym.new, hq, hc]
  rw [hev]
  unfold refRun
  dsimp only []
  rw [nodesDelta_count_q hδ _ (by intro a n; cases n <;> rfl),
    nodesDelta_count_c hδ _ (by intro a n; cases n <;> rfl)]
  refine (sim_nodes (NC := (δs.flatMap Delta.cregs).length) p {} _ _ δs ?_ hδ hpos ?_).symm
  · exact ⟨rfl, rfl, rfl, rfl, rfl, Layout.nil, Layout.nil, rfl⟩
  · rw [applyAll_cReg]; exact Nat.le_of_eq (by simp)

/-- every accepted statement appends its own events to the queue -/
theorem processNode_events (self d r : Interp R) (n : Node R) (h : processNode self d n = .ok r) :
    ∃ δ, nodeDelta self d n = .ok δ ∧ r = δ.apply d ∧
      r.qOps.events ≃ₑ d.qOps.events ++ δ.events := by
  rw [processNode_eq] at h
  cases hn : nodeDelta self d n with
  | err e => rw [hn] at h; cases h
  | panic s => rw [hn] at h; cases h
  | ok δ =>
    rw [hn] at h
    simp only [Res.map, Res.ok.injEq] at h
    subst h
    exact ⟨δ, rfl, rfl, Delta.apply_events d δ⟩

/-- what `process_if` leaves in the queue -/
theorem processNode_if (self d r : Interp R) (lhs : String) (rhs : Nat) (c : Call R)
    (h : processNode self d (.ifn lhs rhs (.call c)) = .ok r) :
    ∃ val o, getIdx self d false (.register lhs) = .ok val ∧ Interp.callOp self d c = .ok o ∧
      r = { d with qOps := d.qOps.guard val rhs o } ∧
      r.qOps.events ≃ₑ d.qOps.events ++ [Ev.cond val rhs o] ∧
      (o ≠ [] → r.qOps.blocks = (d.qOps.branch .nop).blocks ++ [(o, .ifBranch val rhs)] ∧
        r.qOps.tail = []) ∧
      (d.qOps.branch .nop).blocks =
        (if !d.qOps.tail.isEmpty then d.qOps.blocks ++ [(d.qOps.tail, .nop)] else d.qOps.blocks) := by
  obtain ⟨δ, hδ, rfl, hev⟩ := processNode_events self d r _ h
  obtain ⟨val, o, hg, ho, rfl⟩ := nodeDelta_inv hδ
  refine ⟨val, o, hg, ho, rfl, hev, ?_, ?_⟩
  · intro hne
    have : (!o.isEmpty) = true := by cases o with
      | nil => exact absurd rfl hne
      | cons a l => rfl
    simp only [Delta.apply, ExtOp.guard, this, if_true, ExtOp.branch_nop_tail, and_self]
  · unfold ExtOp.branch; split <;> rfl

end sim

end Qvnt
