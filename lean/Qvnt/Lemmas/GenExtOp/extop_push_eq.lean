/- `extop_push_eq` of GenExtOp.lean (one module per declaration, tools/lean_split.py) -/
import Qvnt.Generated.Regs
import Qvnt.Generated.Kernels
import Qvnt.Lemmas.Bits
import Mathlib.Tactic.Ring
import Mathlib.Algebra.Ring.Basic
import Qvnt.Lemmas.Queue

set_option linter.unusedSectionVars false
namespace Qvnt.Gen2
open Qvnt Qvnt.Gen
variable {R : Type}
section extop
variable [Add R] [Sub R] [Mul R] [Div R] [Neg R] [Zero R] [One R] [Consts R]

theorem extop_push_eq (e : ExtOp R) (o : MultiOp R) : extop_push e o = e.push o := by
  unfold extop_push ExtOp.push
  by_cases h : e.tail.isEmpty
  · simp only [h, ↓reduceIte]
    cases hl : e.blocks.getLast? with
    | none => simp
    | some p =>
      obtain ⟨l, sep⟩ := p
      cases sep <;> simp
  · simp [h]

end extop
end Qvnt.Gen2
