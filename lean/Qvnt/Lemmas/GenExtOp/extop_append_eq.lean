/- `extop_append_eq` of GenExtOp.lean (one module per declaration, tools/lean_split.py) -/
import Qvnt.Generated.Regs
import Qvnt.Generated.Kernels
import Qvnt.Lemmas.Bits
import Mathlib.Tactic.Ring
import Mathlib.Algebra.Ring.Basic
import Qvnt.Lemmas.Queue

set_option linter.unusedSectionVars false
namespace Qvnt.Gen2
open Qvnt Qvnt.Gen
variable {R : Type}
section extop
variable [Add R] [Sub R] [Mul R] [Div R] [Neg R] [Zero R] [One R] [Consts R]

/-- `append`: the receiver becomes the model's `append`, the argument is left empty (`mem::take`) -/
theorem extop_append_eq (e other : ExtOp R) :
    (extop_append e other).1 = e.append other ∧ (extop_append e other).2 = { blocks := [], tail := [] } := by
  unfold extop_append ExtOp.append
  refine ⟨?_, rfl⟩
  by_cases h : e.tail.isEmpty
  · simp [h]
  · simp only [h, Bool.not_false, ↓reduceIte, Bool.false_eq_true]
    cases hl : e.blocks.getLast? with
    | none => simp
    | some p =>
      obtain ⟨l, sep⟩ := p
      cases sep <;> simp

end extop
end Qvnt.Gen2
