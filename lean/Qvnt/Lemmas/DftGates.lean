/-
LEMMAS — gate level of C15 over ℝ: `cis`, the Hadamard and `RZ` gates in bit form, the pair
"controlled `RZ(θ)` + `RZ(θ/2)` on the control" as a controlled phase shift times a constant
phase, and the first stage of the QFT circuit in closed form.
-/
import Qvnt.Lemmas.DftBits
import Qvnt.Lemmas.SpecAlg
import Mathlib.Analysis.SpecialFunctions.Trigonometric.Basic
import Mathlib.Algebra.BigOperators.Group.Finset.Basic
import Mathlib.Tactic.Ring
import Mathlib.Tactic.Linarith
import Mathlib.Tactic.FieldSimp

namespace Qvnt
open Qvnt.Spec

/-- the constants of the Rust code over the reals: `0.5` and `FRAC_1_SQRT_2` -/
noncomputable instance constsReal : Consts ℝ := ⟨1 / 2, 1 / Real.sqrt 2⟩

/-- `e^{iθ}` as a (re, im) pair -/
noncomputable def cis (θ : ℝ) : Cx ℝ := ⟨Real.cos θ, Real.sin θ⟩

/-- the half-angle phase table that `qft` asks for: `phaseOf j = e^{iπ/2^(j+1)}` -/
noncomputable def phaseOfR (j : Nat) : Cx ℝ := cis (Real.pi / 2 ^ (j + 1))

/-- the `N`-th roots of unity: `rootR N t = e^{2πi t/N}` -/
noncomputable def rootR (N : Nat) (t : Nat) : Cx ℝ := cis (2 * Real.pi * t / N)

theorem constsReal_invSqrt2 : 2 * (Consts.invSqrt2 : ℝ) * Consts.invSqrt2 = 1 := by
  show 2 * (1 / Real.sqrt 2) * (1 / Real.sqrt 2) = 1
  have h : Real.sqrt 2 * Real.sqrt 2 = 2 := Real.mul_self_sqrt (by norm_num)
  have h0 : Real.sqrt 2 ≠ 0 := by
    intro e; rw [e] at h; norm_num at h
  field_simp
  linarith

theorem constsReal_half : 2 * (Consts.half : ℝ) = 1 := by
  show 2 * (1 / 2 : ℝ) = 1
  norm_num

namespace Dft

@[simp] theorem cis_re (θ : ℝ) : (cis θ).re = Real.cos θ := rfl
@[simp] theorem cis_im (θ : ℝ) : (cis θ).im = Real.sin θ := rfl

theorem cis_add (a b : ℝ) : cis (a + b) = cis a * cis b := by
  ext
  · simp [Real.cos_add]
  · simp [Real.sin_add]; ring

theorem cis_zero : cis 0 = 1 := by ext <;> simp

theorem cis_pi : cis Real.pi = -1 := by ext <;> simp

theorem cis_two_pi : cis (2 * Real.pi) = 1 := by ext <;> simp

theorem cis_nat_mul_two_pi (n : ℕ) : cis (n * (2 * Real.pi)) = 1 := by
  ext
  · simp [Real.cos_nat_mul_two_pi]
  · have e : (n : ℝ) * (2 * Real.pi) = ((2 * n : ℕ) : ℝ) * Real.pi := by push_cast; ring
    simp only [cis_im, Cx.one_im, e]
    exact Real.sin_nat_mul_pi _

theorem cis_neg (θ : ℝ) : cis (-θ) = ⟨Real.cos θ, -Real.sin θ⟩ := by
  ext <;> simp

theorem cis_normSq (θ : ℝ) : (cis θ).normSq = 1 := by
  simp only [Cx.normSq, cis_re, cis_im]
  have := Real.cos_sq_add_sin_sq θ
  nlinarith [this]

theorem phaseOfR_unit (j : Nat) :
    (phaseOfR j).re * (phaseOfR j).re + (phaseOfR j).im * (phaseOfR j).im = 1 := cis_normSq _

/-- `(-1)^b` -/
noncomputable def sgnB (b : Bool) : Cx ℝ := if b then -1 else 1

theorem sgnB_eq_cis (b : Bool) : sgnB b = cis (b.toNat * Real.pi) := by
  cases b
  · simp [sgnB, cis_zero]
  · simp [sgnB, cis_pi]


/-! ### gates in bit form -/

theorem plain_one_act (M : Mat2 ℝ) (a : Nat) (ψ : State ℝ) :
    (plain (.one M a)).act ψ = act1 M a ψ := by
  funext idx
  simp [SGate.act, plain, Spec.ctrl, Prim.act]

theorem and_two_pow_eq_self_iff (x p : Nat) : x &&& 2 ^ p = 2 ^ p ↔ x.testBit p = true := by
  have hp : 0 < 2 ^ p := Nat.two_pow_pos p
  rcases and_two_pow_cases x p with h | h
  · have := (and_two_pow_eq_zero_iff' x p).1 h
    rw [h, this]; simp; omega
  · have : x.testBit p = true := (and_two_pow_ne_zero_iff x p).1 (by rw [h]; omega)
    rw [h, this]; simp

theorem ctrl_two_pow (p : Nat) (A : State ℝ → State ℝ) (ψ : State ℝ) (idx : Nat) :
    Spec.ctrl (2 ^ p) A ψ idx = if idx.testBit p then A ψ idx else ψ idx := by
  simp only [Spec.ctrl, and_two_pow_eq_self_iff]

/-- Hadamard on bit `p`: `h · (ψ(bit:=0) + (-1)^{bit} ψ(bit:=1))` -/
theorem act1_H (p : Nat) (ψ : State ℝ) (idx : Nat) :
    act1 matH (2 ^ p) ψ idx
      = cR (Consts.invSqrt2 : ℝ) *
          (ψ (putB p false idx) + sgnB (idx.testBit p) * ψ (putB p true idx)) := by
  have hx := xor_two_pow_eq_putB idx p
  have hs := putB_self p idx
  by_cases h : idx.testBit p = true
  · have h0 : idx &&& 2 ^ p ≠ 0 := (and_two_pow_ne_zero_iff idx p).2 h
    rw [h] at hx hs
    simp only [act1, h0, if_false, hx, h, sgnB, if_true, Bool.not_true, hs, matH]
    ext <;> simp [cR] <;> ring
  · have h' : idx.testBit p = false := by simpa using h
    have h0 : idx &&& 2 ^ p = 0 := (and_two_pow_eq_zero_iff' idx p).2 h'
    rw [h'] at hx hs
    simp only [act1, h0, if_true, hx, h', sgnB, Bool.not_false, hs, matH]
    ext <;> simp [cR] <;> ring

/-- `RZ` is diagonal -/
theorem act1_RZ (c s : ℝ) (p : Nat) (ψ : State ℝ) (idx : Nat) :
    act1 (matRZ c s) (2 ^ p) ψ idx = (if idx.testBit p then ⟨c, s⟩ else ⟨c, -s⟩) * ψ idx := by
  by_cases h : idx.testBit p = true
  · have h0 : idx &&& 2 ^ p ≠ 0 := (and_two_pow_ne_zero_iff idx p).2 h
    simp [act1, h0, h, matRZ]
  · have h' : idx.testBit p = false := by simpa using h
    have h0 : idx &&& 2 ^ p = 0 := (and_two_pow_eq_zero_iff' idx p).2 h'
    simp [act1, h0, h', matRZ]

/-- **The controlled-phase decomposition**: controlled `RZ(2α)` on `q` (control `p`) followed by
`RZ(α)` on the control `p` (`θ = e^{iα}`, `θ₂ = e^{iα/2}` the half-angle phases) is the
constant phase `e^{-iα/2}` times the controlled phase shift `diag(1,1,1,e^{2iα})`. -/
theorem pair_act (p q : Nat) (α : ℝ) (θ θ2 : Cx ℝ) (hθ : θ = cis α) (hθ2 : θ2 = cis (α / 2))
    (ψ : State ℝ) (idx : Nat) :
    (plain (.one (matRZ θ2.re θ2.im) (2 ^ p))).act
        ((⟨2 ^ p, .one (matRZ θ.re θ.im) (2 ^ q)⟩ : SGate ℝ).act ψ) idx
      = cis (-(α / 2)) * (if idx.testBit p && idx.testBit q then cis (2 * α) else 1) * ψ idx := by
  subst hθ hθ2
  rw [plain_one_act, act1_RZ]
  simp only [SGate.act, Prim.act, ctrl_two_pow, act1_RZ, cis_re, cis_im]
  have e1 : (⟨Real.cos (α / 2), Real.sin (α / 2)⟩ : Cx ℝ) = cis (α / 2) := rfl
  have e2 : (⟨Real.cos (α / 2), -Real.sin (α / 2)⟩ : Cx ℝ) = cis (-(α / 2)) := (cis_neg _).symm
  have e3 : (⟨Real.cos α, Real.sin α⟩ : Cx ℝ) = cis α := rfl
  have e4 : (⟨Real.cos α, -Real.sin α⟩ : Cx ℝ) = cis (-α) := (cis_neg _).symm
  rw [e1, e2, e3, e4]
  cases idx.testBit p <;> cases idx.testBit q <;>
    simp only [if_true, if_false, Bool.and_true, Bool.and_false, Bool.false_eq_true, mul_one]
  · rw [← mul_assoc, ← cis_add]; congr 2; ring
  · rw [← mul_assoc, ← cis_add, ← cis_add]; congr 2; ring


/-! ### the first stage of the QFT circuit -/

/-- the controlled-phase pairs of one stage: control `p`, targets `qs`, first phase index `k` -/
noncomputable def pairs (p : Nat) : List Nat → Nat → List (SGate ℝ)
  | [], _ => []
  | q :: qs, k =>
    (⟨2 ^ p, .one (matRZ (phaseOfR (k + 1)).re (phaseOfR (k + 1)).im) (2 ^ q)⟩ : SGate ℝ) ::
      plain (.one (matRZ (phaseOfR (k + 2)).re (phaseOfR (k + 2)).im) (2 ^ p)) ::
      pairs p qs (k + 1)

/-- the binary fraction `0.b₀b₁b₂…` of the bits of `idx` at positions `qs` -/
noncomputable def fr : List Nat → Nat → ℝ
  | [], _ => 0
  | q :: qs, idx => ((idx.testBit q).toNat + fr qs idx) / 2

/-- accumulated constant phase of `pairs p qs k` -/
noncomputable def gamL : List Nat → Nat → ℝ
  | [], _ => 0
  | _ :: qs, k => -(Real.pi / 2 ^ (k + 3)) + gamL qs (k + 1)

theorem pairs_act (p : Nat) (qs : List Nat) (k : Nat) (ψ : State ℝ) (idx : Nat) :
    actAll (pairs p qs k) ψ idx
      = cis (gamL qs k + if idx.testBit p then Real.pi * fr qs idx / 2 ^ k else 0) * ψ idx := by
  induction qs generalizing k ψ with
  | nil => simp [pairs, gamL, fr, cis_zero]
  | cons q qs ih =>
    rw [pairs, actAll_cons, actAll_cons, ih,
      pair_act p q (Real.pi / 2 ^ (k + 2)) (phaseOfR (k + 1)) (phaseOfR (k + 2)) rfl
        (by show cis (Real.pi / 2 ^ (k + 2 + 1)) = cis (Real.pi / 2 ^ (k + 2) / 2)
            congr 1; rw [pow_succ (2:ℝ) (k + 2)]; field_simp)]
    rw [gamL, fr]
    have e2 : (2:ℝ) ^ (k + 2) = 4 * 2 ^ k := by rw [pow_add]; ring
    have e3 : (2:ℝ) ^ (k + 3) = 8 * 2 ^ k := by rw [pow_add]; ring
    have e1 : (2:ℝ) ^ (k + 1) = 2 * 2 ^ k := by rw [pow_add]; ring
    have hk : (2:ℝ) ^ k ≠ 0 := by positivity
    cases idx.testBit p <;> cases idx.testBit q <;>
      simp only [if_true, if_false, Bool.and_true, Bool.and_false, Bool.false_eq_true, mul_one,
        Bool.toNat_true, Bool.toNat_false, Nat.cast_zero, Nat.cast_one]
    · rw [← mul_assoc, ← cis_add]; congr 2; rw [e2, e3]; field_simp; ring
    · rw [← mul_assoc, ← cis_add]; congr 2; rw [e2, e3]; field_simp; ring
    · rw [← mul_assoc, ← cis_add]; congr 2; rw [e1, e2, e3]; field_simp; ring
    · rw [← mul_assoc, ← mul_assoc, ← cis_add, ← cis_add]; congr 2
      rw [e1, e2, e3]; field_simp; ring

theorem pairs_eq_flatMap (p : Nat) (qs : List Nat) (c : Nat) :
    (List.range qs.length).flatMap (fun k =>
        [(⟨2 ^ p, .one (matRZ (phaseOfR (k + c + 1)).re (phaseOfR (k + c + 1)).im)
            ((pows qs).getD k 0)⟩ : SGate ℝ),
         plain (.one (matRZ (phaseOfR (k + c + 2)).re (phaseOfR (k + c + 2)).im) (2 ^ p))])
      = pairs p qs c := by
  induction qs generalizing c with
  | nil => rfl
  | cons q qs ih =>
    rw [List.length_cons, List.range_succ_eq_map, List.flatMap_cons, List.flatMap_map, pairs,
      ← ih (c + 1)]
    simp only [pows_cons, List.getD_cons_zero, List.getD_cons_succ, Nat.zero_add,
      List.cons_append, List.nil_append, Nat.add_right_comm _ 1 c, Nat.add_assoc]

theorem qftCircuit_cons (p : Nat) (ps : List Nat) :
    qftCircuit phaseOfR (pows (p :: ps))
      = (plain (.one matH (2 ^ p)) :: pairs p ps 0) ++ qftCircuit phaseOfR (pows ps) := by
  rw [← pairs_eq_flatMap]
  unfold qftCircuit
  rw [pows_cons, List.length_cons, List.range_succ_eq_map, List.flatMap_cons, List.flatMap_map]
  congr 1
  · simp only [List.getD_cons_zero, List.getD_cons_succ, Nat.zero_add, Nat.add_zero,
      Nat.add_sub_cancel, Nat.sub_zero, pows_length]
  · simp only [List.getD_cons_succ, Nat.succ_eq_add_one, Nat.add_sub_add_right, Nat.add_right_comm _ 1]

/-- the first stage (Hadamard on `p`, then the controlled phases onto `ps`) in closed form -/
theorem stage0_act (p : Nat) (ps : List Nat) (ψ : State ℝ) (j : Nat) :
    actAll (plain (.one matH (2 ^ p)) :: pairs p ps 0) ψ j
      = cis (gamL ps 0 + if j.testBit p then Real.pi * fr ps j else 0) *
          (cR (Consts.invSqrt2 : ℝ) *
            (ψ (putB p false j) + sgnB (j.testBit p) * ψ (putB p true j))) := by
  rw [actAll_cons, pairs_act, plain_one_act, act1_H, pow_zero, div_one]

end Dft
end Qvnt
