/- `rzz_dgr_eq` of GenKFns.lean (one module per declaration, tools/lean_split.py) -/
import Qvnt.Generated.Kernels
import Qvnt.Lemmas.Bits
import Mathlib.Tactic.Ring
import Mathlib.Algebra.Ring.Basic
import Qvnt.Lemmas.GenKTac

namespace Qvnt.Gen
open Qvnt
variable {R : Type}
section fns

theorem rzz_dgr_eq [Neg R] (a : Nat) (ph : Cx R) : (Gen.rzz_dgr a ph : Atom R) = (Atom.rzz a ph : Atom R).dgr := by cases_bool_rfl

end fns
end Qvnt.Gen
