/- `rz_actsOn_eq` of GenKFns.lean (one module per declaration, tools/lean_split.py) -/
import Qvnt.Generated.Kernels
import Qvnt.Lemmas.Bits
import Mathlib.Tactic.Ring
import Mathlib.Algebra.Ring.Basic
import Qvnt.Lemmas.GenKTac

namespace Qvnt.Gen
open Qvnt
variable {R : Type}
section fns

theorem rz_actsOn_eq (a : Nat) (ph : Cx R) : Gen.rz_actsOn a ph = (Atom.rz a ph : Atom R).actsOn := rfl

end fns
end Qvnt.Gen
