/- `h2_isValid_eq` of GenKFns.lean (one module per declaration, tools/lean_split.py) -/
import Qvnt.Generated.Kernels
import Qvnt.Lemmas.Bits
import Mathlib.Tactic.Ring
import Mathlib.Algebra.Ring.Basic
import Qvnt.Lemmas.GenKTac

namespace Qvnt.Gen
open Qvnt
variable {R : Type}
section fns

theorem h2_isValid_eq (a : Nat) (b : Nat) (ab : Nat) : Gen.h2_isValid a b ab = (Atom.h2 a b ab : Atom R).isValid := by cases_bool_rfl

end fns
end Qvnt.Gen
