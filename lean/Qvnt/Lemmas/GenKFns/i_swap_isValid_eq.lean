/- `i_swap_isValid_eq` of GenKFns.lean (one module per declaration, tools/lean_split.py) -/
import Qvnt.Generated.Kernels
import Qvnt.Lemmas.Bits
import Mathlib.Tactic.Ring
import Mathlib.Algebra.Ring.Basic
import Qvnt.Lemmas.GenKTac

namespace Qvnt.Gen
open Qvnt
variable {R : Type}
section fns

theorem i_swap_isValid_eq (a : Nat) (d : Bool) : Gen.i_swap_isValid a d = (Atom.iSwap a d : Atom R).isValid := by cases_bool_rfl

end fns
end Qvnt.Gen
