/- `resizeBuf_toList` of GenQuant.lean (one module per declaration, tools/lean_split.py) -/
import Qvnt.Generated.Regs
import Qvnt.Generated.Kernels
import Qvnt.Lemmas.Bits
import Mathlib.Tactic.Ring
import Mathlib.Algebra.Ring.Basic
import Qvnt.Lemmas.Queue

set_option linter.unusedSectionVars false
namespace Qvnt.Gen2
open Qvnt Qvnt.Gen
variable {R : Type}
section basic
variable [Zero R] [One R]

omit [One R] in
theorem resizeBuf_toList (a : Array (Cx R)) (len : Nat) :
    (QReg.resizeBuf a len).toList = Rs.resize a.toList len 0 := by
  apply List.ext_getElem
  · simp [QReg.resizeBuf, Rs.resize]; omega
  · intro i h1 h2
    simp [QReg.resizeBuf] at h1
    simp only [QReg.resizeBuf, Rs.resize, Array.getElem_toList, Array.getElem_ofFn]
    by_cases hi : i < a.size
    · rw [List.getElem_append_left (by simp; omega)]
      simp [Array.getD, hi]
    · rw [List.getElem_append_right (by simp; omega)]
      simp [Array.getD, hi]

end basic
end Qvnt.Gen2
