/- `quant_reset_eq` of GenQuant.lean (one module per declaration, tools/lean_split.py) -/
import Qvnt.Generated.Regs
import Qvnt.Generated.Kernels
import Qvnt.Lemmas.Bits
import Mathlib.Tactic.Ring
import Mathlib.Algebra.Ring.Basic
import Qvnt.Lemmas.Queue
import Qvnt.Lemmas.GenPre.ofModel
import Qvnt.Lemmas.GenQuant.basisBuf_toList

set_option linter.unusedSectionVars false
namespace Qvnt.Gen2
open Qvnt Qvnt.Gen
variable {R : Type}
section basic
variable [Zero R] [One R]

theorem quant_reset_eq (r : QReg R) (i : Nat) : quant_reset (ofModel r) i = ofModel (r.reset i) := by
  simp [quant_reset, ofModel, QReg.reset, basisBuf_toList]

end basic
end Qvnt.Gen2
