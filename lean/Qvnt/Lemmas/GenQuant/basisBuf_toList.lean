/- `basisBuf_toList` of GenQuant.lean (one module per declaration, tools/lean_split.py) -/
import Qvnt.Generated.Regs
import Qvnt.Generated.Kernels
import Qvnt.Lemmas.Bits
import Mathlib.Tactic.Ring
import Mathlib.Algebra.Ring.Basic
import Qvnt.Lemmas.Queue

set_option linter.unusedSectionVars false
namespace Qvnt.Gen2
open Qvnt Qvnt.Gen
variable {R : Type}
section basic
variable [Zero R] [One R]

theorem basisBuf_toList (len s : Nat) :
    (QReg.basisBuf (R := R) len s).toList = (List.replicate len (0 : Cx R)).set s 1 := by
  apply List.ext_getElem
  · simp [QReg.basisBuf]
  · intro i h1 h2
    simp [QReg.basisBuf, List.getElem_set]
    by_cases h : s = i <;> simp [h, eq_comm]

end basic
end Qvnt.Gen2
