/- `quant_new_eq` of GenQuant.lean (one module per declaration, tools/lean_split.py) -/
import Qvnt.Generated.Regs
import Qvnt.Generated.Kernels
import Qvnt.Lemmas.Bits
import Mathlib.Tactic.Ring
import Mathlib.Algebra.Ring.Basic
import Qvnt.Lemmas.Queue
import Qvnt.Lemmas.GenPre.ofModel
import Qvnt.Lemmas.GenPre.shl_one
import Qvnt.Lemmas.GenPre.mask_eq
import Qvnt.Lemmas.GenQuant.basisBuf_toList

set_option linter.unusedSectionVars false
namespace Qvnt.Gen2
open Qvnt Qvnt.Gen
variable {R : Type}
section basic
variable [Zero R] [One R]

theorem quant_new_eq (n : Nat) (h : n < 64) : quant_new (R := R) n = ofModel (QReg.new n) := by
  simp [quant_new, ofModel, QReg.new, shl_one n h, mask_eq n h, basisBuf_toList, minBufferLen]

end basic
end Qvnt.Gen2
