/- `quant_collapse_mask_eq` of GenQuant.lean (one module per declaration, tools/lean_split.py) -/
import Qvnt.Generated.Regs
import Qvnt.Generated.Kernels
import Qvnt.Lemmas.Bits
import Mathlib.Tactic.Ring
import Mathlib.Algebra.Ring.Basic
import Qvnt.Lemmas.Queue
import Qvnt.Lemmas.GenPre.ofModel
import Qvnt.Lemmas.GenPre.mapIdx_getElem

set_option linter.unusedSectionVars false
namespace Qvnt.Gen2
open Qvnt Qvnt.Gen
variable {R : Type}
section basic
variable [Zero R] [One R]

omit [One R] in
theorem quant_collapse_mask_eq (r : QReg R) (idy mask : Nat) :
    quant_collapse_mask (ofModel r) idy mask = ofModel (r.collapseMask idy mask) := by
  unfold quant_collapse_mask QReg.collapseMask ofModel
  simp only [QRegG.mk.injEq, and_true]
  apply List.ext_getElem
  · simp [Rs.mapIdx, Rs.enumerate]
  · intro i h1 h2
    rw [mapIdx_getElem]
    have hi : i < r.psi.size := by simpa [Rs.mapIdx, Rs.enumerate] using h1
    simp [Array.getD]

end basic
end Qvnt.Gen2
