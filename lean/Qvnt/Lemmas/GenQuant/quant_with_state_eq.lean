/- `quant_with_state_eq` of GenQuant.lean (one module per declaration, tools/lean_split.py) -/
import Qvnt.Generated.Regs
import Qvnt.Generated.Kernels
import Qvnt.Lemmas.Bits
import Mathlib.Tactic.Ring
import Mathlib.Algebra.Ring.Basic
import Qvnt.Lemmas.Queue
import Qvnt.Lemmas.GenPre.ofModel
import Qvnt.Lemmas.GenPre.shl_one
import Qvnt.Lemmas.GenPre.mask_eq
import Qvnt.Lemmas.GenQuant.basisBuf_toList

set_option linter.unusedSectionVars false
namespace Qvnt.Gen2
open Qvnt Qvnt.Gen
variable {R : Type}
section basic
variable [Zero R] [One R]

theorem quant_with_state_eq (n st : Nat) (h : n < 64) :
    quant_with_state (R := R) n st = some (ofModel (QReg.withState n st)) := by
  have hlt : st &&& (2 ^ n - 1) < max (2 ^ n) 8 := by
    have : st &&& (2 ^ n - 1) ≤ 2 ^ n - 1 := Nat.and_le_right
    have h3 : 0 < 2 ^ n := Nat.two_pow_pos n
    omega
  simp [quant_with_state, ofModel, QReg.withState, shl_one n h, mask_eq n h, basisBuf_toList, minBufferLen]
  omega

end basic
end Qvnt.Gen2
