/- `quant_tensor_prod_eq` of GenQuant.lean (one module per declaration, tools/lean_split.py) -/
import Qvnt.Generated.Regs
import Qvnt.Generated.Kernels
import Qvnt.Lemmas.Bits
import Mathlib.Tactic.Ring
import Mathlib.Algebra.Ring.Basic
import Qvnt.Lemmas.Queue
import Qvnt.Lemmas.GenPre.ofModel
import Qvnt.Lemmas.GenPre.shl_one
import Qvnt.Lemmas.GenPre.mask_eq

set_option linter.unusedSectionVars false
namespace Qvnt.Gen2
open Qvnt Qvnt.Gen
variable {R : Type}
section arith
variable [Add R] [Sub R] [Mul R] [Div R] [Neg R] [Zero R] [One R] [Consts R]
  [LE R] [DecidableLE R] [LT R] [DecidableLT R] [HasSqrt R] [RegConsts R]

theorem quant_tensor_prod_eq (a b : QReg R) (ha : a.qNum + b.qNum < 64) :
    quant_tensor_prod (ofModel a) (ofModel b) = ofModel (a.tensorProd b) := by
  have h8 : a.qNum % 2 ^ 8 = a.qNum := Nat.mod_eq_of_lt (by omega)
  unfold quant_tensor_prod QReg.tensorProd ofModel
  simp only [shl_one _ ha, mask_eq _ ha, h8, QRegG.mk.injEq, and_true, minBufferLen]
  apply List.ext_getElem
  · simp [Rs.range]
  · intro i h1 h2
    simp only [Rs.range, List.getElem_map, List.getElem_range', Array.getElem_toList, Array.getElem_ofFn,
      Array.getD_eq_getD_getElem?, List.getD_eq_getElem?_getD, Array.getElem?_toList]
    simp

end arith
end Qvnt.Gen2
