/- `quant_set_num_eq` of GenQuant.lean (one module per declaration, tools/lean_split.py) -/
import Qvnt.Generated.Regs
import Qvnt.Generated.Kernels
import Qvnt.Lemmas.Bits
import Mathlib.Tactic.Ring
import Mathlib.Algebra.Ring.Basic
import Qvnt.Lemmas.Queue
import Qvnt.Lemmas.GenPre.ofModel
import Qvnt.Lemmas.GenPre.shl_one
import Qvnt.Lemmas.GenPre.mask_eq
import Qvnt.Lemmas.GenQuant.basisBuf_toList
import Qvnt.Lemmas.GenQuant.resizeBuf_toList

set_option linter.unusedSectionVars false
namespace Qvnt.Gen2
open Qvnt Qvnt.Gen
variable {R : Type}
section basic
variable [Zero R] [One R]

theorem quant_set_num_eq (r : QReg R) (n : Nat) (h : n < 64) :
    quant_set_num (ofModel r) n = ofModel (r.setNum n) := by
  unfold quant_set_num QReg.setNum
  by_cases hs : n < r.qNum
  · simp [hs, ofModel, shl_one n h, mask_eq n h, minBufferLen, quant_reset, QReg.reset,
      basisBuf_toList, Rs.resize]
    congr 2
    simp [QReg.resizeBuf]; omega
  · simp [hs, ofModel, shl_one n h, mask_eq n h, resizeBuf_toList, minBufferLen]

end basic
end Qvnt.Gen2
