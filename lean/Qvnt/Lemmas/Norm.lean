/-
LEMMAS — unitary spec gates addressed to qubits inside an `n`-qubit register preserve the
squared norm of the register, and leave amplitudes outside the register at zero.
-/
import Qvnt.Spec.Unitary
import Mathlib.Tactic.Ring
import Mathlib.Tactic.LinearCombination
import Mathlib.Algebra.BigOperators.Group.Finset.Basic
import Mathlib.Algebra.BigOperators.Ring.Finset

namespace Qvnt.Spec
open Qvnt

variable {R : Type} [CommRing R]

/-! ### 0. the fold is a `Finset` sum -/

theorem foldl_add_eq_sum (f : Nat → R) (m : Nat) (acc : R) :
    (List.range m).foldl (fun acc i => acc + f i) acc = acc + ∑ i ∈ Finset.range m, f i := by
  induction m generalizing acc with
  | zero => simp
  | succ m ih =>
    rw [List.range_succ, List.foldl_append, ih, Finset.sum_range_succ]
    simp [add_assoc]

theorem normSqSum_eq_sum (n : Nat) (ψ : State R) :
    normSqSum n ψ = ∑ i ∈ Finset.range (2 ^ n), (ψ i).normSq := by
  unfold normSqSum
  rw [foldl_add_eq_sum]
  simp

/-! ### bit facts -/

theorem xor_and_of_disjoint (i a c : Nat) (h : c &&& a = 0) : (i ^^^ a) &&& c = i &&& c := by
  rw [Nat.and_xor_distrib_right, Nat.and_comm a c, h, Nat.xor_zero]

theorem and_two_pow_cases (i k : Nat) : i &&& 2 ^ k = 0 ∨ i &&& 2 ^ k = 2 ^ k := by
  cases h : i.testBit k
  · left
    apply Nat.eq_of_testBit_eq
    intro j
    rw [Nat.testBit_and, Nat.testBit_two_pow]
    by_cases hj : k = j
    · subst hj; simp [h]
    · simp [hj]
  · right
    apply Nat.eq_of_testBit_eq
    intro j
    rw [Nat.testBit_and, Nat.testBit_two_pow]
    by_cases hj : k = j
    · subst hj; simp [h]
    · simp [hj]

theorem xor_two_pow_and_of_zero (i k : Nat) (h : i &&& 2 ^ k = 0) :
    (i ^^^ 2 ^ k) &&& 2 ^ k = 2 ^ k := by
  rw [Nat.and_xor_distrib_right, h, Nat.and_self, Nat.zero_xor]

theorem xor_two_pow_and_of_ne (i k : Nat) (h : i &&& 2 ^ k ≠ 0) :
    (i ^^^ 2 ^ k) &&& 2 ^ k = 0 := by
  rcases and_two_pow_cases i k with h0 | h1
  · exact absurd h0 h
  · rw [Nat.and_xor_distrib_right, h1, Nat.and_self, Nat.xor_self]

theorem two_pow_and_two_pow (i j : Nat) (h : i ≠ j) : (2 : Nat) ^ i &&& 2 ^ j = 0 := by
  apply Nat.eq_of_testBit_eq
  intro m
  rw [Nat.testBit_and, Nat.testBit_two_pow, Nat.testBit_two_pow]
  by_cases h1 : i = m
  · subst h1; simp [Ne.symm h]
  · simp [h1]

theorem xor_lt (n k i : Nat) (hk : k < n) (hi : i < 2 ^ n) : i ^^^ 2 ^ k < 2 ^ n :=
  Nat.xor_lt_two_pow hi (Nat.pow_lt_pow_right (by decide) hk)

theorem xor_ge (n a i : Nat) (ha : a < 2 ^ n) (hi : 2 ^ n ≤ i) : 2 ^ n ≤ i ^^^ a := by
  rcases Nat.lt_or_ge (i ^^^ a) (2 ^ n) with h | h
  · have := Nat.xor_lt_two_pow h ha
    rw [Nat.xor_assoc, Nat.xor_self, Nat.xor_zero] at this
    omega
  · exact h

/-! ### 1–2. re-indexing and pairing by one bit -/

/-- pairing: if `f` and `g` agree on every pair `{i, i ^^^ 2^k}` they have the same sum -/
theorem sum_split_bit (n k : Nat) (hk : k < n) (f : Nat → R) :
    ∑ i ∈ Finset.range (2 ^ n), f i
      = ∑ i ∈ (Finset.range (2 ^ n)).filter (fun i => i &&& 2 ^ k = 0),
          (f i + f (i ^^^ 2 ^ k)) := by
  rw [← Finset.sum_filter_add_sum_filter_not (Finset.range (2 ^ n)) (fun i => i &&& 2 ^ k = 0),
    Finset.sum_add_distrib]
  congr 1
  refine Finset.sum_nbij' (fun i => i ^^^ 2 ^ k) (fun i => i ^^^ 2 ^ k) ?_ ?_ ?_ ?_ ?_
  · intro i hi
    simp only [Finset.mem_filter, Finset.mem_range] at hi ⊢
    exact ⟨xor_lt n k i hk hi.1, xor_two_pow_and_of_ne i k hi.2⟩
  · intro i hi
    simp only [Finset.mem_filter, Finset.mem_range] at hi ⊢
    refine ⟨xor_lt n k i hk hi.1, ?_⟩
    rw [xor_two_pow_and_of_zero i k hi.2]
    exact Nat.ne_of_gt (Nat.two_pow_pos k)
  · intro i _
    simp [Nat.xor_assoc]
  · intro i _
    simp [Nat.xor_assoc]
  · intro i _
    simp [Nat.xor_assoc]

theorem sum_reindex_xor (n k : Nat) (hk : k < n) (f : Nat → R) :
    ∑ i ∈ Finset.range (2 ^ n), f (i ^^^ 2 ^ k) = ∑ i ∈ Finset.range (2 ^ n), f i := by
  refine Finset.sum_nbij' (fun i => i ^^^ 2 ^ k) (fun i => i ^^^ 2 ^ k) ?_ ?_ ?_ ?_ ?_
  · intro i hi
    simp only [Finset.mem_range] at hi ⊢
    exact xor_lt n k i hk hi
  · intro i hi
    simp only [Finset.mem_range] at hi ⊢
    exact xor_lt n k i hk hi
  · intro i _
    simp [Nat.xor_assoc]
  · intro i _
    simp [Nat.xor_assoc]
  · intro i _
    rfl

theorem sum_pair (n k : Nat) (hk : k < n) (f g : Nat → R)
    (h : ∀ i, i < 2 ^ n → i &&& 2 ^ k = 0 → f i + f (i ^^^ 2 ^ k) = g i + g (i ^^^ 2 ^ k)) :
    ∑ i ∈ Finset.range (2 ^ n), f i = ∑ i ∈ Finset.range (2 ^ n), g i := by
  rw [sum_split_bit n k hk f, sum_split_bit n k hk g]
  refine Finset.sum_congr rfl ?_
  intro i hi
  simp only [Finset.mem_filter, Finset.mem_range] at hi
  exact h i hi.1 hi.2

/-! ### 3. a unitary 2×2 matrix preserves the norm of a 2-vector -/

theorem Mat2.IsUnitary.normSq_apply {M : Mat2 R} (h : M.IsUnitary) (x y : Cx R) :
    (M.m00 * x + M.m01 * y).normSq + (M.m10 * x + M.m11 * y).normSq
      = x.normSq + y.normSq := by
  have h00 := congrArg Cx.re h.l00
  have h11 := congrArg Cx.re h.l11
  have h01r := congrArg Cx.re h.l01
  have h01i := congrArg Cx.im h.l01
  simp only [Cx.add_re, Cx.add_im, Cx.mul_re, Cx.mul_im, Cx.conj_re, Cx.conj_im, Cx.one_re,
    Cx.zero_re, Cx.zero_im] at h00 h11 h01r h01i
  simp only [Cx.normSq, Cx.add_re, Cx.add_im, Cx.mul_re, Cx.mul_im]
  linear_combination (x.re * x.re + x.im * x.im) * h00 + (y.re * y.re + y.im * y.im) * h11
    + 2 * (x.re * y.re + x.im * y.im) * h01r - 2 * (x.re * y.im - x.im * y.re) * h01i

/-! ### 4–5. one-qubit gates, plain and controlled -/

theorem act1_apply_of_zero (M : Mat2 R) (a : Nat) (ψ : State R) (i : Nat) (h : i &&& a = 0) :
    act1 M a ψ i = M.m00 * ψ i + M.m01 * ψ (i ^^^ a) := by
  simp only [act1]
  rw [if_pos h]

theorem act1_apply_xor_of_zero (M : Mat2 R) (k : Nat) (ψ : State R) (i : Nat)
    (h : i &&& 2 ^ k = 0) :
    act1 M (2 ^ k) ψ (i ^^^ 2 ^ k) = M.m10 * ψ i + M.m11 * ψ (i ^^^ 2 ^ k) := by
  simp only [act1]
  rw [if_neg, Nat.xor_assoc, Nat.xor_self, Nat.xor_zero]
  rw [xor_two_pow_and_of_zero i k h]
  exact Nat.ne_of_gt (Nat.two_pow_pos k)

theorem act1_pair_normSq (M : Mat2 R) (h : M.IsUnitary) (k : Nat) (ψ : State R) (i : Nat)
    (hi : i &&& 2 ^ k = 0) :
    (act1 M (2 ^ k) ψ i).normSq + (act1 M (2 ^ k) ψ (i ^^^ 2 ^ k)).normSq
      = (ψ i).normSq + (ψ (i ^^^ 2 ^ k)).normSq := by
  rw [act1_apply_of_zero M _ ψ i hi, act1_apply_xor_of_zero M k ψ i hi]
  exact h.normSq_apply _ _

theorem act1_normSq (M : Mat2 R) (h : M.IsUnitary) (n k : Nat) (hk : k < n) (ψ : State R) :
    normSqSum n (act1 M (2 ^ k) ψ) = normSqSum n ψ := by
  rw [normSqSum_eq_sum, normSqSum_eq_sum]
  exact sum_pair n k hk _ _ (fun i _ hi => act1_pair_normSq M h k ψ i hi)

omit [CommRing R] in
theorem ctrl_apply_of_and (c : Nat) (A : State R → State R) (ψ : State R) (i : Nat)
    (h : i &&& c = c) : ctrl c A ψ i = A ψ i := by
  simp only [ctrl]
  rw [if_pos h]

omit [CommRing R] in
theorem ctrl_apply_of_not (c : Nat) (A : State R → State R) (ψ : State R) (i : Nat)
    (h : ¬ i &&& c = c) : ctrl c A ψ i = ψ i := by
  simp only [ctrl]
  rw [if_neg h]

omit [CommRing R] in
theorem ctrl_zero (A : State R → State R) (ψ : State R) : ctrl 0 A ψ = A ψ := by
  funext i
  exact ctrl_apply_of_and 0 A ψ i (Nat.and_zero i)

theorem ctrl_act1_normSq (M : Mat2 R) (h : M.IsUnitary) (n k : Nat) (hk : k < n) (c : Nat)
    (hc : c &&& 2 ^ k = 0) (ψ : State R) :
    normSqSum n (ctrl c (act1 M (2 ^ k)) ψ) = normSqSum n ψ := by
  rw [normSqSum_eq_sum, normSqSum_eq_sum]
  refine sum_pair n k hk _ _ (fun i _ hi => ?_)
  have hx : (i ^^^ 2 ^ k) &&& c = i &&& c := xor_and_of_disjoint i (2 ^ k) c hc
  by_cases hic : i &&& c = c
  · rw [ctrl_apply_of_and c _ ψ i hic, ctrl_apply_of_and c _ ψ _ (hx.trans hic)]
    exact act1_pair_normSq M h k ψ i hi
  · rw [ctrl_apply_of_not c _ ψ i hic, ctrl_apply_of_not c _ ψ _ (by rw [hx]; exact hic)]

/-! ### 6. two-qubit gates -/

/-- grouping by two distinct bits -/
theorem sum_quad (n i j : Nat) (hi : i < n) (hj : j < n) (hij : i ≠ j) (f g : Nat → R)
    (h : ∀ x, x < 2 ^ n → x &&& 2 ^ i = 0 → x &&& 2 ^ j = 0 →
      f x + f (x ^^^ 2 ^ i) + f (x ^^^ 2 ^ j) + f (x ^^^ 2 ^ i ^^^ 2 ^ j)
        = g x + g (x ^^^ 2 ^ i) + g (x ^^^ 2 ^ j) + g (x ^^^ 2 ^ i ^^^ 2 ^ j)) :
    ∑ x ∈ Finset.range (2 ^ n), f x = ∑ x ∈ Finset.range (2 ^ n), g x := by
  rw [sum_split_bit n i hi f, sum_split_bit n i hi g, Finset.sum_filter, Finset.sum_filter]
  refine sum_pair n j hj _ _ (fun x hx hxj => ?_)
  have hd : (2 : Nat) ^ i &&& 2 ^ j = 0 := two_pow_and_two_pow i j hij
  have hx' : (x ^^^ 2 ^ j) &&& 2 ^ i = x &&& 2 ^ i := xor_and_of_disjoint x (2 ^ j) (2 ^ i) hd
  have hcomm : x ^^^ 2 ^ j ^^^ 2 ^ i = x ^^^ 2 ^ i ^^^ 2 ^ j := by
    rw [Nat.xor_assoc, Nat.xor_comm (2 ^ j), ← Nat.xor_assoc]
  by_cases hxi : x &&& 2 ^ i = 0
  · rw [if_pos hxi, if_pos (hx'.trans hxi), if_pos hxi, if_pos (hx'.trans hxi), hcomm]
    have := h x hx hxi hxj
    linear_combination this
  · rw [if_neg hxi, if_neg (by rw [hx']; exact hxi), if_neg hxi,
      if_neg (by rw [hx']; exact hxi)]

/-- a unitary 4×4 matrix preserves the norm of a 4-vector (only `M† M = 1` is used) -/
theorem Mat4.IsUnitary.normSq_apply {M : Mat4 R} (h : Mat4.IsUnitary M) (v0 v1 v2 v3 : Cx R) :
    (M 0 0 * v0 + M 0 1 * v1 + M 0 2 * v2 + M 0 3 * v3).normSq
      + (M 1 0 * v0 + M 1 1 * v1 + M 1 2 * v2 + M 1 3 * v3).normSq
      + (M 2 0 * v0 + M 2 1 * v1 + M 2 2 * v2 + M 2 3 * v3).normSq
      + (M 3 0 * v0 + M 3 1 * v1 + M 3 2 * v2 + M 3 3 * v3).normSq
      = v0.normSq + v1.normSq + v2.normSq + v3.normSq := by
  have e00 := h.left 0 0 (by decide) (by decide)
  rw [if_pos rfl] at e00
  have r00 := congrArg Cx.re e00
  have e11 := h.left 1 1 (by decide) (by decide)
  rw [if_pos rfl] at e11
  have r11 := congrArg Cx.re e11
  have e22 := h.left 2 2 (by decide) (by decide)
  rw [if_pos rfl] at e22
  have r22 := congrArg Cx.re e22
  have e33 := h.left 3 3 (by decide) (by decide)
  rw [if_pos rfl] at e33
  have r33 := congrArg Cx.re e33
  have e01 := h.left 0 1 (by decide) (by decide)
  rw [if_neg (by decide)] at e01
  have r01 := congrArg Cx.re e01
  have i01 := congrArg Cx.im e01
  have e02 := h.left 0 2 (by decide) (by decide)
  rw [if_neg (by decide)] at e02
  have r02 := congrArg Cx.re e02
  have i02 := congrArg Cx.im e02
  have e03 := h.left 0 3 (by decide) (by decide)
  rw [if_neg (by decide)] at e03
  have r03 := congrArg Cx.re e03
  have i03 := congrArg Cx.im e03
  have e12 := h.left 1 2 (by decide) (by decide)
  rw [if_neg (by decide)] at e12
  have r12 := congrArg Cx.re e12
  have i12 := congrArg Cx.im e12
  have e13 := h.left 1 3 (by decide) (by decide)
  rw [if_neg (by decide)] at e13
  have r13 := congrArg Cx.re e13
  have i13 := congrArg Cx.im e13
  have e23 := h.left 2 3 (by decide) (by decide)
  rw [if_neg (by decide)] at e23
  have r23 := congrArg Cx.re e23
  have i23 := congrArg Cx.im e23
  simp only [Cx.add_re, Cx.add_im, Cx.mul_re, Cx.mul_im, Cx.conj_re, Cx.conj_im, Cx.one_re,
    Cx.zero_re, Cx.zero_im] at r00 r11 r22 r33 r01 i01 r02 i02 r03 i03 r12 i12 r13 i13 r23 i23
  simp only [Cx.normSq, Cx.add_re, Cx.add_im, Cx.mul_re, Cx.mul_im]
  linear_combination (v0.re * v0.re + v0.im * v0.im) * r00
    + (v1.re * v1.re + v1.im * v1.im) * r11
    + (v2.re * v2.re + v2.im * v2.im) * r22
    + (v3.re * v3.re + v3.im * v3.im) * r33
    + 2 * (v0.re * v1.re + v0.im * v1.im) * r01
    + (-2) * (v0.re * v1.im - v0.im * v1.re) * i01
    + 2 * (v0.re * v2.re + v0.im * v2.im) * r02
    + (-2) * (v0.re * v2.im - v0.im * v2.re) * i02
    + 2 * (v0.re * v3.re + v0.im * v3.im) * r03
    + (-2) * (v0.re * v3.im - v0.im * v3.re) * i03
    + 2 * (v1.re * v2.re + v1.im * v2.im) * r12
    + (-2) * (v1.re * v2.im - v1.im * v2.re) * i12
    + 2 * (v1.re * v3.re + v1.im * v3.im) * r13
    + (-2) * (v1.re * v3.im - v1.im * v3.re) * i13
    + 2 * (v2.re * v3.re + v2.im * v3.im) * r23
    + (-2) * (v2.re * v3.im - v2.im * v3.re) * i23

omit [CommRing R] in
theorem bitAt_of_zero (x a : Nat) (h : x &&& a = 0) : bitAt x a = 0 := by
  simp only [bitAt]; rw [if_pos h]

omit [CommRing R] in
theorem bitAt_of_ne (x a : Nat) (h : x &&& a ≠ 0) : bitAt x a = 1 := by
  simp only [bitAt]; rw [if_neg h]

/-- `act2` at an index whose two target bits are known -/
theorem act2_apply_of_bits (M : Mat4 R) (a b : Nat) (ψ : State R) (y ra rb : Nat)
    (ha : bitAt y a = ra) (hb : bitAt y b = rb) :
    act2 M a b ψ y
      = M (2 * rb + ra) 0 * ψ (y ^^^ (if 0 = ra then 0 else a) ^^^ (if 0 = rb then 0 else b))
        + M (2 * rb + ra) 1 * ψ (y ^^^ (if 1 = ra then 0 else a) ^^^ (if 0 = rb then 0 else b))
        + M (2 * rb + ra) 2 * ψ (y ^^^ (if 0 = ra then 0 else a) ^^^ (if 1 = rb then 0 else b))
        + M (2 * rb + ra) 3 * ψ (y ^^^ (if 1 = ra then 0 else a) ^^^ (if 1 = rb then 0 else b)) := by
  subst ha hb
  rfl

theorem xor_helper1 (x a : Nat) : x ^^^ a ^^^ a = x := by
  rw [Nat.xor_assoc, Nat.xor_self, Nat.xor_zero]

theorem xor_helper2 (x a b : Nat) : x ^^^ b ^^^ a ^^^ b = x ^^^ a := by
  rw [Nat.xor_assoc x b a, Nat.xor_comm b a, ← Nat.xor_assoc, xor_helper1]

theorem xor_helper3 (x a b : Nat) : x ^^^ b ^^^ a = x ^^^ a ^^^ b := by
  rw [Nat.xor_assoc x b a, Nat.xor_comm b a, ← Nat.xor_assoc]

theorem act2_quad (M : Mat4 R) (i j : Nat) (hij : i ≠ j) (ψ : State R) (x : Nat)
    (hxi : x &&& 2 ^ i = 0) (hxj : x &&& 2 ^ j = 0) :
    let v0 := ψ x
    let v1 := ψ (x ^^^ 2 ^ i)
    let v2 := ψ (x ^^^ 2 ^ j)
    let v3 := ψ (x ^^^ 2 ^ i ^^^ 2 ^ j)
    (act2 M (2 ^ i) (2 ^ j) ψ x = M 0 0 * v0 + M 0 1 * v1 + M 0 2 * v2 + M 0 3 * v3) ∧
    (act2 M (2 ^ i) (2 ^ j) ψ (x ^^^ 2 ^ i) = M 1 0 * v0 + M 1 1 * v1 + M 1 2 * v2 + M 1 3 * v3) ∧
    (act2 M (2 ^ i) (2 ^ j) ψ (x ^^^ 2 ^ j) = M 2 0 * v0 + M 2 1 * v1 + M 2 2 * v2 + M 2 3 * v3) ∧
    (act2 M (2 ^ i) (2 ^ j) ψ (x ^^^ 2 ^ i ^^^ 2 ^ j)
      = M 3 0 * v0 + M 3 1 * v1 + M 3 2 * v2 + M 3 3 * v3) := by
  intro v0 v1 v2 v3
  have hd : (2 : Nat) ^ i &&& 2 ^ j = 0 := two_pow_and_two_pow i j hij
  have hd' : (2 : Nat) ^ j &&& 2 ^ i = 0 := two_pow_and_two_pow j i (Ne.symm hij)
  have pi : (2 : Nat) ^ i ≠ 0 := Nat.ne_of_gt (Nat.two_pow_pos i)
  have pj : (2 : Nat) ^ j ≠ 0 := Nat.ne_of_gt (Nat.two_pow_pos j)
  -- bits of the four indices
  have b0i : bitAt x (2 ^ i) = 0 := bitAt_of_zero _ _ hxi
  have b0j : bitAt x (2 ^ j) = 0 := bitAt_of_zero _ _ hxj
  have b1i : bitAt (x ^^^ 2 ^ i) (2 ^ i) = 1 :=
    bitAt_of_ne _ _ (by rw [xor_two_pow_and_of_zero x i hxi]; exact pi)
  have b1j : bitAt (x ^^^ 2 ^ i) (2 ^ j) = 0 :=
    bitAt_of_zero _ _ (by rw [xor_and_of_disjoint x (2 ^ i) (2 ^ j) hd']; exact hxj)
  have b2i : bitAt (x ^^^ 2 ^ j) (2 ^ i) = 0 :=
    bitAt_of_zero _ _ (by rw [xor_and_of_disjoint x (2 ^ j) (2 ^ i) hd]; exact hxi)
  have b2j : bitAt (x ^^^ 2 ^ j) (2 ^ j) = 1 :=
    bitAt_of_ne _ _ (by rw [xor_two_pow_and_of_zero x j hxj]; exact pj)
  have b3i : bitAt (x ^^^ 2 ^ i ^^^ 2 ^ j) (2 ^ i) = 1 :=
    bitAt_of_ne _ _ (by
      rw [xor_and_of_disjoint (x ^^^ 2 ^ i) (2 ^ j) (2 ^ i) hd, xor_two_pow_and_of_zero x i hxi]
      exact pi)
  have b3j : bitAt (x ^^^ 2 ^ i ^^^ 2 ^ j) (2 ^ j) = 1 :=
    bitAt_of_ne _ _ (by
      rw [xor_two_pow_and_of_zero (x ^^^ 2 ^ i) j
        (by rw [xor_and_of_disjoint x (2 ^ i) (2 ^ j) hd']; exact hxj)]
      exact pj)
  refine ⟨?_, ?_, ?_, ?_⟩
  · rw [act2_apply_of_bits M _ _ ψ x 0 0 b0i b0j]
    simp only [if_pos, if_neg (show (1 : Nat) ≠ 0 by decide), Nat.xor_zero, Nat.mul_zero,
      Nat.add_zero, v0, v1, v2, v3]
  · rw [act2_apply_of_bits M _ _ ψ _ 1 0 b1i b1j]
    simp only [if_pos, if_neg (show (1 : Nat) ≠ 0 by decide),
      if_neg (show (0 : Nat) ≠ 1 by decide), Nat.xor_zero, Nat.mul_zero,
      Nat.zero_add, xor_helper1, v0, v1, v2, v3]
  · rw [act2_apply_of_bits M _ _ ψ _ 0 1 b2i b2j]
    simp only [if_pos, if_neg (show (1 : Nat) ≠ 0 by decide),
      if_neg (show (0 : Nat) ≠ 1 by decide), Nat.xor_zero, Nat.mul_one,
      Nat.add_zero, xor_helper1, xor_helper3 x (2 ^ i) (2 ^ j), v0, v1, v2, v3]
  · rw [act2_apply_of_bits M _ _ ψ _ 1 1 b3i b3j]
    simp only [if_pos, if_neg (show (0 : Nat) ≠ 1 by decide), Nat.xor_zero, Nat.mul_one,
      xor_helper1, xor_helper2, v0, v1, v2, v3]

theorem act2_quad_normSq (M : Mat4 R) (h : Mat4.IsUnitary M) (i j : Nat) (hij : i ≠ j)
    (ψ : State R) (x : Nat) (hxi : x &&& 2 ^ i = 0) (hxj : x &&& 2 ^ j = 0) :
    (act2 M (2 ^ i) (2 ^ j) ψ x).normSq + (act2 M (2 ^ i) (2 ^ j) ψ (x ^^^ 2 ^ i)).normSq
        + (act2 M (2 ^ i) (2 ^ j) ψ (x ^^^ 2 ^ j)).normSq
        + (act2 M (2 ^ i) (2 ^ j) ψ (x ^^^ 2 ^ i ^^^ 2 ^ j)).normSq
      = (ψ x).normSq + (ψ (x ^^^ 2 ^ i)).normSq + (ψ (x ^^^ 2 ^ j)).normSq
        + (ψ (x ^^^ 2 ^ i ^^^ 2 ^ j)).normSq := by
  obtain ⟨e0, e1, e2, e3⟩ := act2_quad M i j hij ψ x hxi hxj
  rw [e0, e1, e2, e3]
  exact h.normSq_apply _ _ _ _

theorem act2_normSq (M : Mat4 R) (h : Mat4.IsUnitary M) (n i j : Nat) (hi : i < n) (hj : j < n)
    (hij : i ≠ j) (ψ : State R) :
    normSqSum n (act2 M (2 ^ i) (2 ^ j) ψ) = normSqSum n ψ := by
  rw [normSqSum_eq_sum, normSqSum_eq_sum]
  exact sum_quad n i j hi hj hij _ _
    (fun x _ hxi hxj => act2_quad_normSq M h i j hij ψ x hxi hxj)

theorem ctrl_act2_normSq (M : Mat4 R) (h : Mat4.IsUnitary M) (n i j : Nat) (hi : i < n)
    (hj : j < n) (hij : i ≠ j) (c : Nat) (hci : c &&& 2 ^ i = 0) (hcj : c &&& 2 ^ j = 0)
    (ψ : State R) :
    normSqSum n (ctrl c (act2 M (2 ^ i) (2 ^ j)) ψ) = normSqSum n ψ := by
  rw [normSqSum_eq_sum, normSqSum_eq_sum]
  refine sum_quad n i j hi hj hij _ _ (fun x _ hxi hxj => ?_)
  have h1 : (x ^^^ 2 ^ i) &&& c = x &&& c := xor_and_of_disjoint x (2 ^ i) c hci
  have h2 : (x ^^^ 2 ^ j) &&& c = x &&& c := xor_and_of_disjoint x (2 ^ j) c hcj
  have h3 : (x ^^^ 2 ^ i ^^^ 2 ^ j) &&& c = x &&& c :=
    (xor_and_of_disjoint (x ^^^ 2 ^ i) (2 ^ j) c hcj).trans h1
  by_cases hxc : x &&& c = c
  · rw [ctrl_apply_of_and c _ ψ x hxc, ctrl_apply_of_and c _ ψ _ (h1.trans hxc),
      ctrl_apply_of_and c _ ψ _ (h2.trans hxc), ctrl_apply_of_and c _ ψ _ (h3.trans hxc)]
    exact act2_quad_normSq M h i j hij ψ x hxi hxj
  · rw [ctrl_apply_of_not c _ ψ x hxc, ctrl_apply_of_not c _ ψ _ (by rw [h1]; exact hxc),
      ctrl_apply_of_not c _ ψ _ (by rw [h2]; exact hxc),
      ctrl_apply_of_not c _ ψ _ (by rw [h3]; exact hxc)]

/-! ### 7. spec gates and circuits -/

/-- the target bits of `g` lie inside an `n`-qubit register -/
def SGate.InRange (g : SGate R) (n : Nat) : Prop :=
  match g.prim with
  | .idle => True
  | .one _ a => a < 2 ^ n
  | .two _ a b => a < 2 ^ n ∧ b < 2 ^ n

omit [CommRing R] in
theorem ctrl_id (c : Nat) (ψ : State R) : ctrl c (fun ψ => ψ) ψ = ψ := by
  funext i
  simp only [ctrl]
  split <;> rfl

theorem SGate.act_normSq (g : SGate R) (hw : g.WF) (hu : g.IsUnitary) (n : Nat)
    (hin : g.InRange n) (ψ : State R) : normSqSum n (g.act ψ) = normSqSum n ψ := by
  obtain ⟨c, p⟩ := g
  cases p with
  | idle =>
    simp only [SGate.act, Prim.act]
    rw [ctrl_id]
  | one M a =>
    simp only [SGate.WF] at hw
    simp only [SGate.InRange] at hin
    simp only [SGate.IsUnitary, Prim.IsUnitary] at hu
    obtain ⟨⟨k, rfl⟩, hc⟩ := hw
    have hk : k < n := (Nat.pow_lt_pow_iff_right (by decide)).mp hin
    simp only [SGate.act, Prim.act]
    exact ctrl_act1_normSq M hu n k hk c hc ψ
  | two M a b =>
    simp only [SGate.WF] at hw
    simp only [SGate.InRange] at hin
    simp only [SGate.IsUnitary, Prim.IsUnitary] at hu
    obtain ⟨⟨i, j, hij, rfl, rfl⟩, hc⟩ := hw
    have hi : i < n := (Nat.pow_lt_pow_iff_right (by decide)).mp hin.1
    have hj : j < n := (Nat.pow_lt_pow_iff_right (by decide)).mp hin.2
    rw [Nat.and_or_distrib_left, Nat.or_eq_zero_iff] at hc
    simp only [SGate.act, Prim.act]
    exact ctrl_act2_normSq M hu n i j hi hj hij c hc.1 hc.2 ψ

theorem actAll_normSq (gs : List (SGate R)) (n : Nat)
    (h : ∀ g ∈ gs, g.WF ∧ g.IsUnitary ∧ g.InRange n) (ψ : State R) :
    normSqSum n (actAll gs ψ) = normSqSum n ψ := by
  induction gs generalizing ψ with
  | nil => rfl
  | cons g gs ih =>
    have hg := h g (List.mem_cons_self ..)
    simp only [actAll, List.foldl_cons]
    have := ih (fun g' hg' => h g' (List.mem_cons_of_mem _ hg')) (g.act ψ)
    simp only [actAll] at this
    rw [this]
    exact g.act_normSq hg.1 hg.2.1 n hg.2.2 ψ

/-! ### 8. basis states have norm one; amplitudes outside the register stay zero -/

theorem normSqSum_basis (n s : Nat) (hs : s < 2 ^ n) :
    normSqSum n (fun i => if i = s then (1 : Cx R) else 0) = 1 := by
  rw [normSqSum_eq_sum]
  have : ∀ i, (if i = s then (1 : Cx R) else 0).normSq = if i = s then (1 : R) else 0 := by
    intro i
    split <;> simp [Cx.normSq]
  simp only [this]
  rw [Finset.sum_ite_eq' (Finset.range (2 ^ n)) s (fun _ => (1 : R))]
  simp [hs]

theorem cx_mul_zero (z : Cx R) : z * 0 = 0 := by
  apply Cx.ext' <;> simp

theorem cx_add_zero (z : Cx R) : z + 0 = z := by
  apply Cx.ext' <;> simp

theorem act1_outside (M : Mat2 R) (a n : Nat) (ψ : State R) (ha : a < 2 ^ n)
    (h : ∀ i, 2 ^ n ≤ i → ψ i = 0) : ∀ i, 2 ^ n ≤ i → act1 M a ψ i = 0 := by
  intro i hi
  simp only [act1]
  rw [h i hi, h _ (xor_ge n a i ha hi)]
  split <;> simp only [cx_mul_zero, cx_add_zero]

theorem act2_outside (M : Mat4 R) (a b n : Nat) (ψ : State R) (ha : a < 2 ^ n) (hb : b < 2 ^ n)
    (h : ∀ i, 2 ^ n ≤ i → ψ i = 0) : ∀ i, 2 ^ n ≤ i → act2 M a b ψ i = 0 := by
  intro i hi
  have hz : 0 < 2 ^ n := Nat.two_pow_pos n
  have key : ∀ p q, p < 2 ^ n → q < 2 ^ n → ∀ z : Cx R, z * ψ (i ^^^ p ^^^ q) = 0 := by
    intro p q hp hq z
    rw [h _ (xor_ge n q _ hq (xor_ge n p i hp hi)), cx_mul_zero]
  simp only [act2]
  rw [key _ _ (by split <;> assumption) (by split <;> assumption),
    key _ _ (by split <;> assumption) (by split <;> assumption),
    key _ _ (by split <;> assumption) (by split <;> assumption),
    key _ _ (by split <;> assumption) (by split <;> assumption)]
  simp only [cx_add_zero]

omit [CommRing R] in
theorem ctrl_outside [Zero R] (c : Nat) (A : State R → State R) (n : Nat) (ψ : State R)
    (hA : ∀ i, 2 ^ n ≤ i → A ψ i = 0)
    (h : ∀ i, 2 ^ n ≤ i → ψ i = 0) : ∀ i, 2 ^ n ≤ i → ctrl c A ψ i = 0 := by
  intro i hi
  simp only [ctrl]
  split
  · exact hA i hi
  · exact h i hi

theorem SGate.act_outside (g : SGate R) (n : Nat) (hin : g.InRange n) (ψ : State R)
    (h : ∀ i, 2 ^ n ≤ i → ψ i = 0) : ∀ i, 2 ^ n ≤ i → g.act ψ i = 0 := by
  obtain ⟨c, p⟩ := g
  cases p with
  | idle => exact ctrl_outside c _ n ψ h h
  | one M a => exact ctrl_outside c _ n ψ (act1_outside M a n ψ hin h) h
  | two M a b => exact ctrl_outside c _ n ψ (act2_outside M a b n ψ hin.1 hin.2 h) h

theorem actAll_outside (gs : List (SGate R)) (n : Nat) (hin : ∀ g ∈ gs, g.InRange n)
    (ψ : State R) (h : ∀ i, 2 ^ n ≤ i → ψ i = 0) :
    ∀ i, 2 ^ n ≤ i → actAll gs ψ i = 0 := by
  induction gs generalizing ψ with
  | nil => exact h
  | cons g gs ih =>
    simp only [actAll, List.foldl_cons]
    exact ih (fun g' hg' => hin g' (List.mem_cons_of_mem _ hg')) (g.act ψ)
      (g.act_outside n (hin g (List.mem_cons_self ..)) ψ h)

#print axioms normSqSum_eq_sum
#print axioms act1_normSq
#print axioms ctrl_act1_normSq
#print axioms act2_normSq
#print axioms ctrl_act2_normSq
#print axioms SGate.act_normSq
#print axioms actAll_normSq
#print axioms normSqSum_basis
#print axioms SGate.act_outside
#print axioms actAll_outside

end Qvnt.Spec
