/-
LEMMAS — the built-in gate names of the interpreter (`gates::process`, `Qvnt/Model/Interp.lean`).

* the name recursion of `Gates.process` (one leading `c`/`C` = one control mask), with its fuel
  bookkeeping;
* the hand-written reading of every table name: `tableNames`, `expectedBinding`, `nameExpr`
  (the operator-construction program a name stands for), `regsOK` / `paramCount` (arities), and
  `expectedRes` (what `gates::process` must return for an un-prefixed name);
* `runArm_of_binding`: a table row whose `(arm, ctor)` is the expected binding of a name behaves
  as `expectedRes` says. The generated table enters only through facts checked by `decide`
  over the concrete list (`table_*` below and `Props/C09`), so a changed row breaks the build.
-/
import Qvnt.Lemmas.Refine
import Qvnt.Model.Interp
import Qvnt.Spec.RefSem

namespace Qvnt
open Generated Spec

/-! ## 0. results -/

/-- the constructor outcome as the interpreter reports it: a value, or the panic of the
constructor's `expect` (`refused` does not occur for the programs considered here) -/
def Res.ofBuilt {R : Type} (site : String) : Built R → Res (MultiOp R)
  | .ok o => .ok o
  | _ => .panic site

/-- the same outcome, except possibly for the gate name carried inside an error value -/
def Res.SameUpToName {α : Type} : Res α → Res α → Prop
  | .ok a, .ok b => a = b
  | .panic s, .panic t => s = t
  | .err (.wrongRegNumber _ n), .err (.wrongRegNumber _ n') => n = n'
  | .err (.wrongArgNumber _ n), .err (.wrongArgNumber _ n') => n = n'
  | .err (.unknownGate _), .err (.unknownGate _) => True
  | .err e, .err e' => e = e'
  | _, _ => False

theorem Res.SameUpToName.ok_iff {α : Type} {a b : Res α} (h : Res.SameUpToName a b) (o : α) :
    a = .ok o ↔ b = .ok o := by
  cases a <;> cases b <;> simp_all [Res.SameUpToName]

/-- the error relabelling done by the prefix arm of `gates::process`: the error of the inner
call is re-issued under the full (prefixed) name, counting the control register -/
def Res.relabel {α : Type} (name : String) : Res α → Res α
  | .err (.wrongRegNumber _ n) => .err (.wrongRegNumber name (1 + n))
  | .err (.wrongArgNumber _ n) => .err (.wrongArgNumber name n)
  | .err (.unknownGate _) => .err (.unknownGate name)
  | r => r

/-! ## 1. the name recursion -/

/-- the test of the prefix arm: `name.len() > 1` and the first byte is `c` or `C` -/
def isPrefixed (name : String) : Bool :=
  name.utf8ByteSize > 1 && (name.toList.head? == some 'c' || name.toList.head? == some 'C')

/-- one control step of `gates::process`: what the prefix arm makes of the inner result -/
def ctrlStep {R : Type} (name : String) (ctrl : Nat) (inner : Res (MultiOp R)) : Res (MultiOp R) :=
  match inner with
  | .ok op =>
    (match MultiOp.c op ctrl with
     | some o => .ok o
     | none => .err (.invalidControlMask ctrl (MultiOp.actOn op)))
  | r => Res.relabel name r

section recursion
variable {R : Type} [Neg R] [AngleFns R]

theorem process_eq_go (name : String) (regs : List Nat) (args : List R) :
    Gates.process name regs args = Gates.process.go args name.length name regs := rfl

theorem go_base (fuel : Nat) (name : String) (regs : List Nat) (args : List R)
    (h : isPrefixed name = false) :
    Gates.process.go args fuel name regs =
      match Generated.gateTable.find? (fun row => row.lower == name || row.upper == name) with
      | some row => runArm name row regs args
      | none => .err (.unknownGate name) := by
  unfold isPrefixed at h
  rw [Gates.process.go.eq_def]
  simp only [h]
  rfl

theorem go_ctrl (fuel : Nat) (name : String) (ctrl : Nat) (rest : List Nat) (args : List R)
    (h : isPrefixed name = true) :
    Gates.process.go args (fuel + 1) name (ctrl :: rest) =
      ctrlStep name ctrl (Gates.process.go args fuel (dropFirst name) rest) := by
  unfold isPrefixed at h
  rw [Gates.process.go.eq_def]
  simp only [h, if_true]
  generalize Gates.process.go args fuel (dropFirst name) rest = r
  cases r with
  | ok o => rfl
  | err e => cases e <;> rfl
  | panic s => rfl

theorem go_noarg (fuel : Nat) (name : String) (args : List R) (h : isPrefixed name = true) :
    Gates.process.go args (fuel + 1) name [] = .err (.wrongRegNumber name 0) := by
  unfold isPrefixed at h
  rw [Gates.process.go.eq_def]
  simp only [h]
  rfl

end recursion

/-! ## 2. the hand-written reading of the table names -/

/-- the names of the table, lower-case, in the order of `gates.rs` -/
def tableNames : List String :=
  ["x","y","z","s","sdg","t","tdg","h","qft","rx","ry","rz","rxx","ryy","rzz","swap",
   "sqrt_swap","i_swap","sqrt_i_swap","u1","u2","u3"]

/-- the macro arm and the constructor each name must be bound to -/
def expectedBinding : String → Arm × String
  | "x" => (.any, "x")
  | "y" => (.any, "y")
  | "z" => (.any, "z")
  | "s" => (.any, "s")
  | "sdg" => (.dgr, "s")
  | "t" => (.any, "t")
  | "tdg" => (.dgr, "t")
  | "h" => (.any, "h")
  | "qft" => (.any, "qft")
  | "rx" => (.r 1, "rx")
  | "ry" => (.r 1, "ry")
  | "rz" => (.r 1, "rz")
  | "rxx" => (.r 2, "rxx")
  | "ryy" => (.r 2, "ryy")
  | "rzz" => (.r 2, "rzz")
  | "swap" => (.two, "swap")
  | "sqrt_swap" => (.two, "sqrt_swap")
  | "i_swap" => (.two, "i_swap")
  | "sqrt_i_swap" => (.two, "sqrt_i_swap")
  | "u1" => (.u1, "u1")
  | "u2" => (.u2, "u2")
  | "u3" => (.u3, "u3")
  | _ => (.any, "")

/-- all register arguments of an un-prefixed gate are OR-ed into one target mask -/
def orMask (regs : List Nat) : Nat := regs.foldl (· ||| ·) 0

/-- number of target qubits a name wants; `none` = any non-empty set of qubits -/
def targetCount : String → Option Nat
  | "rx" | "ry" | "rz" | "u1" | "u2" | "u3" => some 1
  | "rxx" | "ryy" | "rzz" | "swap" | "sqrt_swap" | "i_swap" | "sqrt_i_swap" => some 2
  | _ => none

/-- number of parameters a name wants -/
def paramCount : String → Nat
  | "rx" | "ry" | "rz" | "rxx" | "ryy" | "rzz" | "u1" => 1
  | "u2" => 2
  | "u3" => 3
  | _ => 0

/-- the target mask has the shape the name wants -/
def regsOK (name : String) (m : Nat) : Bool :=
  match targetCount name with
  | none => m != 0
  | some n => popcount m == n

section
variable {R : Type} [AngleFns R]

/-- a name without parameters -/
def args0 (args : List R) (e : OpExpr R) : Option (OpExpr R) :=
  match args with | [] => some e | _ => none
/-- a name with one parameter -/
def args1 (args : List R) (f : R → OpExpr R) : Option (OpExpr R) :=
  match args with | [a] => some (f a) | _ => none
/-- a name with two parameters -/
def args2 (args : List R) (f : R → R → OpExpr R) : Option (OpExpr R) :=
  match args with | [a, b] => some (f a b) | _ => none
/-- a name with three parameters -/
def args3 (args : List R) (f : R → R → R → OpExpr R) : Option (OpExpr R) :=
  match args with | [a, b, c] => some (f a b c) | _ => none

/-- **The reading of an un-prefixed name**: the operator-construction program (over the public
operator API) it stands for. `m` is the OR of all register masks; parameters are angles in the
written order, turned into half-angle phases; `sdg` / `tdg` are the daggers of `s` / `t`;
`u1(λ)` is the library's `u1` (documented as equivalent to `RZ(λ)`); `u2(φ, λ) = u3(π/2, φ, λ)`.
`none` = not a table name, or the wrong number of parameters. -/
def nameExpr (name : String) (regs : List Nat) (args : List R) : Option (OpExpr R) :=
  let m := orMask regs
  let hp (a : R) : Cx R := AngleFns.halfPhase a
  match name with
  | "x" => args0 args (.g1 .x m)
  | "y" => args0 args (.g1 .y m)
  | "z" => args0 args (.g1 .z m)
  | "s" => args0 args (.g1 .s m)
  | "sdg" => args0 args (.dgr (.g1 .s m))
  | "t" => args0 args (.g1 .t m)
  | "tdg" => args0 args (.dgr (.g1 .t m))
  | "h" => args0 args (.g1 .h m)
  | "qft" => args0 args (.qft m)
  | "rx" => args1 args (fun a => .rot1 .rx (hp a) m)
  | "ry" => args1 args (fun a => .rot1 .ry (hp a) m)
  | "rz" => args1 args (fun a => .rot1 .rz (hp a) m)
  | "rxx" => args1 args (fun a => .rot2 .rxx (hp a) m)
  | "ryy" => args1 args (fun a => .rot2 .ryy (hp a) m)
  | "rzz" => args1 args (fun a => .rot2 .rzz (hp a) m)
  | "swap" => args0 args (.two .swap m)
  | "sqrt_swap" => args0 args (.two .sqrtSwap m)
  | "i_swap" => args0 args (.two .iSwap m)
  | "sqrt_i_swap" => args0 args (.two .sqrtISwap m)
  | "u1" => args1 args (fun l => .rot1 .u1 (hp l) m)
  | "u2" => args2 args (fun φ l => .u3 AngleFns.quarter (hp φ) (hp l) m)
  | "u3" => args3 args (fun θ φ l => .u3 (hp θ) (hp φ) (hp l) m)
  | _ => none

variable [Neg R]

/-- what `gates::process` must return for the table name `key` (spelled `name` in error
values): the register check, then the parameter count, then what the reading builds -/
def expectedRes (name key : String) (regs : List Nat) (args : List R) : Res (MultiOp R) :=
  let m := orMask regs
  if regsOK key m then
    match nameExpr key regs args with
    | none => .err (.wrongArgNumber name args.length)
    | some e => Res.ofBuilt ("constructor " ++ (expectedBinding key).2)
        (OpExpr.build AngleFns.qftPhase e)
  else .err (.wrongRegNumber name (popcount m))

/-! ## 3. a row with the expected binding behaves as `expectedRes` says -/

omit [AngleFns R] [Neg R] in
theorem Res.ofBuilt_ofOpt (site : String) (o : Option (MultiOp R)) :
    Res.ofBuilt site (OpExpr.ofOpt o) = match o with | some o => .ok o | none => .panic site := by
  cases o <;> rfl

/-- `runArm` with the constructor call made explicit (one branch per macro arm) -/
theorem runArm_skel (name : String) (row : Row) (regs : List Nat) (args : List R) :
    runArm name row regs args =
      match row.arm with
      | .any =>
        if orMask regs = 0 then .err (.wrongRegNumber name 0)
        else if args.length ≠ 0 then .err (.wrongArgNumber name args.length)
        else Res.ofBuilt ("constructor " ++ row.ctor) (OpExpr.ofOpt (ctorApply row.ctor args (orMask regs)))
      | .dgr =>
        if orMask regs = 0 then .err (.wrongRegNumber name 0)
        else if args.length ≠ 0 then .err (.wrongArgNumber name args.length)
        else Res.ofBuilt ("constructor " ++ row.ctor)
          (OpExpr.ofOpt ((ctorApply row.ctor args (orMask regs)).map MultiOp.dgr))
      | .two =>
        if popcount (orMask regs) ≠ 2 then .err (.wrongRegNumber name (popcount (orMask regs)))
        else if args.length ≠ 0 then .err (.wrongArgNumber name args.length)
        else Res.ofBuilt ("constructor " ++ row.ctor) (OpExpr.ofOpt (ctorApply row.ctor args (orMask regs)))
      | .r n =>
        if popcount (orMask regs) ≠ n then .err (.wrongRegNumber name (popcount (orMask regs)))
        else if args.length ≠ 1 then .err (.wrongArgNumber name args.length)
        else Res.ofBuilt ("constructor " ++ row.ctor) (OpExpr.ofOpt (ctorApply row.ctor args (orMask regs)))
      | .u1 =>
        if popcount (orMask regs) ≠ 1 then .err (.wrongRegNumber name (popcount (orMask regs)))
        else if args.length ≠ 1 then .err (.wrongArgNumber name args.length)
        else Res.ofBuilt ("constructor " ++ row.ctor) (OpExpr.ofOpt (ctorApply "u1" args (orMask regs)))
      | .u2 =>
        if popcount (orMask regs) ≠ 1 then .err (.wrongRegNumber name (popcount (orMask regs)))
        else if args.length ≠ 2 then .err (.wrongArgNumber name args.length)
        else Res.ofBuilt ("constructor " ++ row.ctor) (OpExpr.ofOpt (ctorApply "u2" args (orMask regs)))
      | .u3 =>
        if popcount (orMask regs) ≠ 1 then .err (.wrongRegNumber name (popcount (orMask regs)))
        else if args.length ≠ 3 then .err (.wrongArgNumber name args.length)
        else Res.ofBuilt ("constructor " ++ row.ctor) (OpExpr.ofOpt (ctorApply "u3" args (orMask regs))) := by
  unfold runArm orMask
  cases row.arm <;> simp only [] <;> (repeat' split) <;>
    first | rfl | (rename_i h; rw [h]; rfl)


theorem regsOK_of_none {key : String} (h : targetCount key = none) (m : Nat) :
    regsOK key m = (m != 0) := by unfold regsOK; rw [h]
theorem regsOK_of_some {key : String} {n : Nat} (h : targetCount key = some n) (m : Nat) :
    regsOK key m = (popcount m == n) := by unfold regsOK; rw [h]

/-- closes the `if`s of both skeletons once the mask test and the shape of `args` are known -/
local macro "arm_leaf" hm:ident : tactic =>
  `(tactic| (simp only [$hm:ident, if_true, if_false, ne_eq, not_true_eq_false, not_false_eq_true,
      bne_iff_ne, beq_iff_eq, bne_self_eq_false, beq_self_eq_true, Bool.false_eq_true,
      popcount_zero, List.length_nil, List.length_cons, Nat.reduceAdd, Nat.reduceEqDiff,
      Nat.add_one_ne_zero, Nat.zero_add, OfNat.ofNat_ne_zero, OfNat.zero_ne_ofNat,
      Nat.add_eq_zero_iff, one_ne_zero, and_false, reduceCtorEq] <;> try rfl))

theorem runArm_of_binding_A (name key : String)
    (hk : key ∈ ["x", "y", "z", "s", "sdg", "t", "tdg", "h", "qft"]) (row : Row)
    (hb : (row.arm, row.ctor) = expectedBinding key) (regs : List Nat) (args : List R) :
    runArm name row regs args = expectedRes name key regs args := by
  obtain ⟨lo, up, arm, ctor⟩ := row
  simp only [List.mem_cons, List.not_mem_nil, or_false] at hk
  rcases hk with rfl | rfl | rfl | rfl | rfl | rfl | rfl | rfl | rfl
  all_goals
    obtain ⟨rfl, rfl⟩ := Prod.mk.inj hb
    rw [runArm_skel, expectedRes, regsOK_of_none rfl]
    by_cases hm : orMask regs = 0
    · arm_leaf hm
    · rcases args with _ | ⟨a, t⟩ <;> arm_leaf hm

theorem runArm_of_binding_T (name key : String)
    (hk : key ∈ ["swap", "sqrt_swap", "i_swap", "sqrt_i_swap"]) (row : Row)
    (hb : (row.arm, row.ctor) = expectedBinding key) (regs : List Nat) (args : List R) :
    runArm name row regs args = expectedRes name key regs args := by
  obtain ⟨lo, up, arm, ctor⟩ := row
  simp only [List.mem_cons, List.not_mem_nil, or_false] at hk
  rcases hk with rfl | rfl | rfl | rfl
  all_goals
    obtain ⟨rfl, rfl⟩ := Prod.mk.inj hb
    rw [runArm_skel, expectedRes, regsOK_of_some rfl]
    by_cases hm : popcount (orMask regs) = 2
    · rcases args with _ | ⟨a, t⟩ <;> arm_leaf hm
    · arm_leaf hm

theorem runArm_of_binding_R1 (name key : String)
    (hk : key ∈ ["rx", "ry", "rz", "u1"]) (row : Row)
    (hb : (row.arm, row.ctor) = expectedBinding key) (regs : List Nat) (args : List R) :
    runArm name row regs args = expectedRes name key regs args := by
  obtain ⟨lo, up, arm, ctor⟩ := row
  simp only [List.mem_cons, List.not_mem_nil, or_false] at hk
  rcases hk with rfl | rfl | rfl | rfl
  all_goals
    obtain ⟨rfl, rfl⟩ := Prod.mk.inj hb
    rw [runArm_skel, expectedRes, regsOK_of_some rfl]
    by_cases hm : popcount (orMask regs) = 1
    · rcases args with _ | ⟨a, _ | ⟨b, t⟩⟩ <;> arm_leaf hm
    · arm_leaf hm

theorem runArm_of_binding_R2 (name key : String)
    (hk : key ∈ ["rxx", "ryy", "rzz"]) (row : Row)
    (hb : (row.arm, row.ctor) = expectedBinding key) (regs : List Nat) (args : List R) :
    runArm name row regs args = expectedRes name key regs args := by
  obtain ⟨lo, up, arm, ctor⟩ := row
  simp only [List.mem_cons, List.not_mem_nil, or_false] at hk
  rcases hk with rfl | rfl | rfl
  all_goals
    obtain ⟨rfl, rfl⟩ := Prod.mk.inj hb
    rw [runArm_skel, expectedRes, regsOK_of_some rfl]
    by_cases hm : popcount (orMask regs) = 2
    · rcases args with _ | ⟨a, _ | ⟨b, t⟩⟩ <;> arm_leaf hm
    · arm_leaf hm

theorem runArm_of_binding_U2 (name key : String)
    (hk : key ∈ ["u2"]) (row : Row)
    (hb : (row.arm, row.ctor) = expectedBinding key) (regs : List Nat) (args : List R) :
    runArm name row regs args = expectedRes name key regs args := by
  obtain ⟨lo, up, arm, ctor⟩ := row
  simp only [List.mem_cons, List.not_mem_nil, or_false] at hk
  rcases hk with rfl
  all_goals
    obtain ⟨rfl, rfl⟩ := Prod.mk.inj hb
    rw [runArm_skel, expectedRes, regsOK_of_some rfl]
    by_cases hm : popcount (orMask regs) = 1
    · rcases args with _ | ⟨a, _ | ⟨b, _ | ⟨c, t⟩⟩⟩ <;> arm_leaf hm
    · arm_leaf hm

theorem runArm_of_binding_U3 (name key : String)
    (hk : key ∈ ["u3"]) (row : Row)
    (hb : (row.arm, row.ctor) = expectedBinding key) (regs : List Nat) (args : List R) :
    runArm name row regs args = expectedRes name key regs args := by
  obtain ⟨lo, up, arm, ctor⟩ := row
  simp only [List.mem_cons, List.not_mem_nil, or_false] at hk
  rcases hk with rfl
  all_goals
    obtain ⟨rfl, rfl⟩ := Prod.mk.inj hb
    rw [runArm_skel, expectedRes, regsOK_of_some rfl]
    by_cases hm : popcount (orMask regs) = 1
    · rcases args with _ | ⟨a, _ | ⟨b, _ | ⟨c, _ | ⟨d, t⟩⟩⟩⟩ <;> arm_leaf hm
    · arm_leaf hm

/-- **Every row bound as expected behaves as the hand-written reading says**, whatever name
(`name`) is used for the error values. -/
theorem runArm_of_binding (name key : String) (hk : key ∈ tableNames) (row : Row)
    (hb : (row.arm, row.ctor) = expectedBinding key) (regs : List Nat) (args : List R) :
    runArm name row regs args = expectedRes name key regs args := by
  simp only [tableNames, List.mem_cons, List.not_mem_nil, or_false] at hk
  rcases hk with h | h | h | h | h | h | h | h | h | h | h | h | h | h | h | h | h | h | h | h
    | h | h
  all_goals first
    | exact runArm_of_binding_A name key (by rw [h]; decide) row hb regs args
    | exact runArm_of_binding_T name key (by rw [h]; decide) row hb regs args
    | exact runArm_of_binding_R1 name key (by rw [h]; decide) row hb regs args
    | exact runArm_of_binding_R2 name key (by rw [h]; decide) row hb regs args
    | exact runArm_of_binding_U2 name key (by rw [h]; decide) row hb regs args
    | exact runArm_of_binding_U3 name key (by rw [h]; decide) row hb regs args

end

/-! ## 4. the generated table (every fact here is re-checked by `decide` over the concrete list) -/

theorem table_names : gateTable.map (·.lower) = tableNames := by decide

theorem table_binding : ∀ row ∈ gateTable, (row.arm, row.ctor) = expectedBinding row.lower := by
  decide

theorem table_not_prefixed :
    ∀ row ∈ gateTable, isPrefixed row.lower = false ∧ isPrefixed row.upper = false := by decide

theorem table_find : ∀ row ∈ gateTable,
    gateTable.find? (fun r => r.lower == row.lower || r.upper == row.lower) = some row ∧
    gateTable.find? (fun r => r.lower == row.upper || r.upper == row.upper) = some row := by decide

theorem mem_tableNames_iff (name : String) :
    name ∈ tableNames ↔ ∃ row ∈ gateTable, row.lower = name := by
  rw [← table_names, List.mem_map]

section
variable {R : Type} [AngleFns R] [Neg R]

theorem process_lower (row : Row) (hrow : row ∈ gateTable) (regs : List Nat) (args : List R) :
    Gates.process row.lower regs args = expectedRes row.lower row.lower regs args := by
  rw [process_eq_go, go_base _ _ _ _ (table_not_prefixed row hrow).1, (table_find row hrow).1]
  exact runArm_of_binding _ _ ((mem_tableNames_iff _).2 ⟨row, hrow, rfl⟩) row
    (table_binding row hrow) regs args

theorem process_upper (row : Row) (hrow : row ∈ gateTable) (regs : List Nat) (args : List R) :
    Gates.process row.upper regs args = expectedRes row.upper row.lower regs args := by
  rw [process_eq_go, go_base _ _ _ _ (table_not_prefixed row hrow).2, (table_find row hrow).2]
  exact runArm_of_binding _ _ ((mem_tableNames_iff _).2 ⟨row, hrow, rfl⟩) row
    (table_binding row hrow) regs args

omit [Neg R] in
theorem nameExpr_mem {name : String} {regs : List Nat} {args : List R} {e : OpExpr R}
    (h : nameExpr name regs args = some e) : name ∈ tableNames := by
  unfold nameExpr at h
  split at h
  all_goals first | decide | exact absurd h (by simp)

end

/-! ## 5. consequences of `expectedRes` -/
section
variable {R : Type} [AngleFns R] [Neg R]

theorem expectedRes_ok (name key : String) (regs : List Nat) (args : List R) (e : OpExpr R)
    (he : nameExpr key regs args = some e) (hr : regsOK key (orMask regs) = true) :
    expectedRes name key regs args =
      Res.ofBuilt ("constructor " ++ (expectedBinding key).2) (OpExpr.build AngleFns.qftPhase e) := by
  unfold expectedRes
  simp only [hr, if_true, he]

theorem expectedRes_wrongRegs (name key : String) (regs : List Nat) (args : List R)
    (hr : regsOK key (orMask regs) = false) :
    expectedRes name key regs args = .err (.wrongRegNumber name (popcount (orMask regs))) := by
  unfold expectedRes
  simp only [hr, Bool.false_eq_true, if_false]

theorem expectedRes_wrongArgs (name key : String) (regs : List Nat) (args : List R)
    (hr : regsOK key (orMask regs) = true) (he : nameExpr key regs args = none) :
    expectedRes name key regs args = .err (.wrongArgNumber name args.length) := by
  unfold expectedRes
  simp only [hr, if_true, he]

theorem expectedRes_sameUpToName (name name' key : String) (regs : List Nat) (args : List R) :
    Res.SameUpToName (expectedRes name key regs args) (expectedRes name' key regs args) := by
  unfold expectedRes
  simp only []
  split
  · split
    · trivial
    · rename_i e _
      generalize OpExpr.build AngleFns.qftPhase e = b
      cases b <;> simp [Res.ofBuilt, Res.SameUpToName]
  · trivial


theorem orMask_lt (regs : List Nat) (h : ∀ r ∈ regs, r < 2 ^ 64) : orMask regs < 2 ^ 64 := by
  unfold orMask
  suffices H : ∀ acc, acc < 2 ^ 64 → List.foldl (· ||| ·) acc regs < 2 ^ 64 from
    H 0 (Nat.two_pow_pos 64)
  induction regs with
  | nil => intro acc ha; exact ha
  | cons r rs ih =>
    intro acc ha
    exact ih (fun x hx => h x (List.mem_cons_of_mem _ hx)) _
      (Nat.or_lt_two_pow ha (h r List.mem_cons_self))

omit [AngleFns R] [Neg R] in
theorem args0_eq_some {args : List R} {e0 e : OpExpr R} (h : args0 args e0 = some e) : e = e0 := by
  unfold args0 at h; split at h <;> simp_all
omit [AngleFns R] [Neg R] in
theorem args1_eq_some {args : List R} {f : R → OpExpr R} {e : OpExpr R}
    (h : args1 args f = some e) : ∃ a, e = f a := by
  unfold args1 at h; split at h
  · exact ⟨_, (Option.some.inj h).symm⟩
  · simp at h
omit [AngleFns R] [Neg R] in
theorem args2_eq_some {args : List R} {f : R → R → OpExpr R} {e : OpExpr R}
    (h : args2 args f = some e) : ∃ a b, e = f a b := by
  unfold args2 at h; split at h
  · exact ⟨_, _, (Option.some.inj h).symm⟩
  · simp at h
omit [AngleFns R] [Neg R] in
theorem args3_eq_some {args : List R} {f : R → R → R → OpExpr R} {e : OpExpr R}
    (h : args3 args f = some e) : ∃ a b c, e = f a b c := by
  unfold args3 at h; split at h
  · exact ⟨_, _, _, (Option.some.inj h).symm⟩
  · simp at h

omit [AngleFns R] [Neg R] in
theorem args0_isSome (args : List R) (e : OpExpr R) : (args0 args e).isSome ↔ args.length = 0 := by
  cases args <;> simp [args0]
omit [AngleFns R] [Neg R] in
theorem args1_isSome (args : List R) (f : R → OpExpr R) :
    (args1 args f).isSome ↔ args.length = 1 := by
  rcases args with _ | ⟨a, _ | ⟨b, t⟩⟩ <;> simp [args1]
omit [AngleFns R] [Neg R] in
theorem args2_isSome (args : List R) (f : R → R → OpExpr R) :
    (args2 args f).isSome ↔ args.length = 2 := by
  rcases args with _ | ⟨a, _ | ⟨b, _ | ⟨c, t⟩⟩⟩ <;> simp [args2]
omit [AngleFns R] [Neg R] in
theorem args3_isSome (args : List R) (f : R → R → R → OpExpr R) :
    (args3 args f).isSome ↔ args.length = 3 := by
  rcases args with _ | ⟨a, _ | ⟨b, _ | ⟨c, _ | ⟨d, t⟩⟩⟩⟩ <;> simp [args3]

omit [Neg R] in
/-- a table name has a reading exactly when the number of parameters is the one it wants -/
theorem nameExpr_isSome_iff {key : String} (hk : key ∈ tableNames) (regs : List Nat)
    (args : List R) : (nameExpr key regs args).isSome ↔ args.length = paramCount key := by
  simp only [tableNames, List.mem_cons, List.not_mem_nil, or_false] at hk
  rcases hk with rfl | rfl | rfl | rfl | rfl | rfl | rfl | rfl | rfl | rfl | rfl | rfl | rfl | rfl
    | rfl | rfl | rfl | rfl | rfl | rfl | rfl | rfl
  all_goals first
    | exact args0_isSome _ _
    | exact args1_isSome _ _
    | exact args2_isSome _ _
    | exact args3_isSome _ _

end

section spec
variable {R : Type} [CommRing R] [Consts R]

/-- a well-formed construction program that the reference semantics accepts -/
structure Good (p : QftPhases R) (e : OpExpr R) : Prop where
  word : e.WordOK
  den : ∃ gs supp, denote p e = .ok gs supp

theorem good_g1 (p : QftPhases R) (k : G1) (m : Nat) (hw : m < 2 ^ 64) :
    Good p (.g1 k m) := by
  refine ⟨hw, ?_⟩
  cases k <;> simp only [denote] <;> first | exact ⟨_, _, rfl⟩ | (split <;> exact ⟨_, _, rfl⟩)

theorem good_dgr_g1 (p : QftPhases R) (k : G1) (m : Nat) (hw : m < 2 ^ 64) :
    Good p (.dgr (.g1 k m)) := by
  obtain ⟨h1, gs, supp, h2⟩ := good_g1 p k m hw
  refine ⟨h1, ?_⟩
  rw [denote, h2]
  exact ⟨_, _, rfl⟩

theorem good_qft (p : QftPhases R) (m : Nat) (hw : m < 2 ^ 64) :
    Good p (.qft m) :=
  ⟨hw, _, _, rfl⟩

theorem good_rot1 (p : QftPhases R) (k : Rot1) (ph : Cx R) (m : Nat) (hw : m < 2 ^ 64)
    (hp : (popcount m == 1) = true) :
    Good p (.rot1 k ph m) := by
  refine ⟨hw, ?_⟩
  rcases oneBit_cases m hw with ⟨_, i, _, h1⟩ | ⟨h, _⟩
  · rw [denote, h1]; exact ⟨_, _, rfl⟩
  · exact absurd (beq_iff_eq.1 hp) h

theorem good_u3 (p : QftPhases R) (a b c : Cx R) (m : Nat) (hw : m < 2 ^ 64)
    (hp : (popcount m == 1) = true) :
    Good p (.u3 a b c m) := by
  refine ⟨hw, ?_⟩
  rcases oneBit_cases m hw with ⟨_, i, _, h1⟩ | ⟨h, _⟩
  · rw [denote, h1]; exact ⟨_, _, rfl⟩
  · exact absurd (beq_iff_eq.1 hp) h

theorem good_rot2 (p : QftPhases R) (k : Rot2) (ph : Cx R) (m : Nat) (hw : m < 2 ^ 64)
    (hp : (popcount m == 2) = true) :
    Good p (.rot2 k ph m) := by
  refine ⟨hw, ?_⟩
  rcases twoBits_cases m hw with ⟨_, i, j, _, _, h1⟩ | ⟨h, _⟩
  · rw [denote, h1]; exact ⟨_, _, rfl⟩
  · exact absurd (beq_iff_eq.1 hp) h

theorem good_two (p : QftPhases R) (k : Two) (m : Nat) (hw : m < 2 ^ 64)
    (hp : (popcount m == 2) = true) :
    Good p (.two k m) := by
  refine ⟨hw, ?_⟩
  rcases twoBits_cases m hw with ⟨_, i, j, _, _, h1⟩ | ⟨h, _⟩
  · rw [denote, h1]; exact ⟨_, _, rfl⟩
  · exact absurd (beq_iff_eq.1 hp) h

variable [AngleFns R]

/-- the reading of a table name, with a target mask of the wanted shape inside the machine
word, is a well-formed construction program that the reference semantics accepts -/
theorem nameExpr_good (p : QftPhases R) {name : String} {regs : List Nat} {args : List R}
    {e : OpExpr R} (h : nameExpr name regs args = some e)
    (hr : regsOK name (orMask regs) = true) (hw : orMask regs < 2 ^ 64) :
    Good p e := by
  unfold nameExpr at h
  split at h
  all_goals first
    | (obtain rfl := args0_eq_some h
       first
        | exact good_g1 p _ _ hw
        | exact good_dgr_g1 p _ _ hw
        | exact good_qft p _ hw
        | exact good_two p _ _ hw hr)
    | (obtain ⟨a, rfl⟩ := args1_eq_some h
       first
        | exact good_rot1 p _ _ _ hw hr
        | exact good_rot2 p _ _ _ hw hr)
    | (obtain ⟨a, b, rfl⟩ := args2_eq_some h
       exact good_u3 p _ _ _ _ hw hr)
    | (obtain ⟨a, b, c, rfl⟩ := args3_eq_some h
       exact good_u3 p _ _ _ _ hw hr)
    | cases h

end spec

/-! ## 6. control prefixes -/

/-- the one-character prefix: `c` or `C` -/
def cPrefix (upper : Bool) : String := if upper then "C" else "c"

/-- `name` preceded by one `c`/`C` per entry of `pre` (`true` = upper case), first entry
outermost -/
def prefixedName : List Bool → String → String
  | [], name => name
  | b :: bs, name => cPrefix b ++ prefixedName bs name

theorem cPrefix_toList (b : Bool) : (cPrefix b).toList = [if b then 'C' else 'c'] := by
  cases b <;> decide

theorem cPrefix_size (b : Bool) : (cPrefix b).utf8ByteSize = 1 := by cases b <;> decide
theorem cPrefix_length (b : Bool) : (cPrefix b).length = 1 := by cases b <;> decide

theorem isPrefixed_cPrefix_append (b : Bool) (s : String) (h : 1 ≤ s.utf8ByteSize) :
    isPrefixed (cPrefix b ++ s) = true := by
  unfold isPrefixed
  rw [String.utf8ByteSize_append, cPrefix_size, String.toList_append, cPrefix_toList]
  cases b <;> simp <;> omega

theorem dropFirst_cPrefix_append (b : Bool) (s : String) : dropFirst (cPrefix b ++ s) = s := by
  unfold dropFirst
  rw [String.toList_append, cPrefix_toList]
  simp [String.ofList_toList]

theorem length_cPrefix_append (b : Bool) (s : String) :
    (cPrefix b ++ s).length = s.length + 1 := by
  rw [String.length_append, cPrefix_length, Nat.add_comm]

theorem prefixedName_size (pre : List Bool) (s : String) (h : 1 ≤ s.utf8ByteSize) :
    1 ≤ (prefixedName pre s).utf8ByteSize := by
  induction pre with
  | nil => exact h
  | cons b bs ih =>
    rw [prefixedName, String.utf8ByteSize_append]
    omega

section
variable {R : Type} [Neg R] [AngleFns R]

/-- one unfolding of the name recursion -/
theorem process_cPrefix (b : Bool) (name : String) (h : 1 ≤ name.utf8ByteSize) (ctrl : Nat)
    (rest : List Nat) (args : List R) :
    Gates.process (cPrefix b ++ name) (ctrl :: rest) args =
      ctrlStep (cPrefix b ++ name) ctrl (Gates.process name rest args) := by
  rw [process_eq_go, length_cPrefix_append,
    go_ctrl _ _ _ _ _ (isPrefixed_cPrefix_append b name h), dropFirst_cPrefix_append,
    ← process_eq_go]

theorem process_cPrefix_nil (b : Bool) (name : String) (h : 1 ≤ name.utf8ByteSize)
    (args : List R) :
    Gates.process (cPrefix b ++ name) [] args =
      .err (.wrongRegNumber (cPrefix b ++ name) 0) := by
  rw [process_eq_go, length_cPrefix_append,
    go_noarg _ _ _ (isPrefixed_cPrefix_append b name h)]

/-- the control steps of `k` leading `c`s, outermost first -/
def ctrlSteps (name : String) : List Bool → List Nat → Res (MultiOp R) → Res (MultiOp R)
  | b :: bs, m :: ms, inner =>
    ctrlStep (prefixedName (b :: bs) name) m (ctrlSteps name bs ms inner)
  | _, _, inner => inner

theorem process_prefixed (pre : List Bool) (name : String) (h : 1 ≤ name.utf8ByteSize)
    (ctrls : List Nat) (hlen : ctrls.length = pre.length) (rest : List Nat) (args : List R) :
    Gates.process (prefixedName pre name) (ctrls ++ rest) args =
      ctrlSteps name pre ctrls (Gates.process name rest args) := by
  induction pre generalizing ctrls with
  | nil =>
    cases ctrls with
    | nil => rfl
    | cons m ms => simp at hlen
  | cons b bs ih =>
    cases ctrls with
    | nil => simp at hlen
    | cons m ms =>
      rw [prefixedName, List.cons_append, process_cPrefix b _ (prefixedName_size bs name h),
        ih ms (by simpa using hlen)]
      rfl

end

/-! ## 7. controlled gates as construction programs -/

section
variable {R : Type}

/-- `.c(m)` on the outcome of a construction program (the `.c` case of `OpExpr.build`) -/
def Built.ctrl (m : Nat) : Built R → Built R
  | .ok o => (match MultiOp.c o m with | some o' => .ok o' | none => .refused)
  | b => b

theorem build_c [Neg R] (p : QftPhases R) (m : Nat) (e : OpExpr R) :
    OpExpr.build p (.c m e) = Built.ctrl m (OpExpr.build p e) := by
  rw [OpExpr.build]
  cases OpExpr.build p e <;> rfl

/-- the program of a gate under the control masks `ctrls`, outermost (first written) first -/
def ctrlExpr (ctrls : List Nat) (e : OpExpr R) : OpExpr R := ctrls.foldr (fun m e => .c m e) e

/-- the interpreter's outcome corresponds to the outcome of a construction program: same
operator, refusal of a control mask reported as `InvalidControlMask`, panic as panic -/
def Res.Matches : Res (MultiOp R) → Built R → Prop
  | .ok o, .ok o' => o = o'
  | .err (.invalidControlMask _ _), .refused => True
  | .panic _, .panic => True
  | _, _ => False

theorem ctrlStep_matches (name : String) (m : Nat) {r : Res (MultiOp R)} {b : Built R}
    (h : Res.Matches r b) : Res.Matches (ctrlStep name m r) (Built.ctrl m b) := by
  cases r with
  | ok o =>
    cases b with
    | ok o' =>
      obtain rfl : o = o' := h
      simp only [ctrlStep, Built.ctrl]
      cases MultiOp.c o m <;> trivial
    | refused => exact h.elim
    | panic => exact h.elim
  | err e =>
    cases b with
    | refused => cases e <;> first | exact h.elim | trivial
    | ok o' => cases e <;> exact h.elim
    | panic => cases e <;> exact h.elim
  | panic s =>
    cases b <;> first | exact h.elim | trivial

theorem ctrlSteps_matches [Neg R] (p : QftPhases R) (name : String) (pre : List Bool)
    (ctrls : List Nat) (hlen : ctrls.length = pre.length) {r : Res (MultiOp R)} {e : OpExpr R}
    (h : Res.Matches r (OpExpr.build p e)) :
    Res.Matches (ctrlSteps name pre ctrls r) (OpExpr.build p (ctrlExpr ctrls e)) := by
  induction pre generalizing ctrls with
  | nil =>
    cases ctrls with
    | nil => exact h
    | cons m ms => simp at hlen
  | cons b bs ih =>
    cases ctrls with
    | nil => simp at hlen
    | cons m ms =>
      show Res.Matches (ctrlStep _ m (ctrlSteps name bs ms r)) (OpExpr.build p (.c m (ctrlExpr ms e)))
      rw [build_c]
      exact ctrlStep_matches _ m (ih ms (by simpa using hlen))

theorem Res.Matches.ok_iff {r : Res (MultiOp R)} {b : Built R} (h : Res.Matches r b)
    (o : MultiOp R) : r = .ok o ↔ b = .ok o := by
  cases r with
  | ok o1 => cases b <;> first | exact h.elim | (obtain rfl := h; simp)
  | err e => cases b <;> cases e <;> first | exact h.elim | simp
  | panic s => cases b <;> first | exact h.elim | simp

end

/-! ## 8. table names under control prefixes -/

theorem tableNames_size : ∀ name ∈ tableNames, 1 ≤ name.utf8ByteSize := by decide

section
variable {R : Type}

/-- no `.c` occurs in the program: its evaluation cannot be refused -/
def OpExpr.noC : OpExpr R → Bool
  | .c _ _ => false
  | .dgr e => e.noC
  | .mul a b => a.noC && b.noC
  | _ => true

theorem build_ne_refused [Neg R] (p : QftPhases R) (e : OpExpr R) (h : e.noC = true) :
    OpExpr.build p e ≠ .refused := by
  induction e with
  | c m e ih => simp [OpExpr.noC] at h
  | dgr e ih =>
    rw [OpExpr.build]
    have := ih h
    cases hb : OpExpr.build p e <;> simp_all
  | mul a b iha ihb =>
    simp only [OpExpr.noC, Bool.and_eq_true] at h
    rw [OpExpr.build]
    have ha := iha h.1
    have hb := ihb h.2
    cases hba : OpExpr.build p a <;> cases hbb : OpExpr.build p b <;> simp_all
  | g1 k m =>
    cases k <;> simp [OpExpr.build, OpExpr.ofOpt]
    cases Op.h (R := R) m <;> simp
  | rot1 k ph a =>
    cases k <;> simp only [OpExpr.build, OpExpr.ofOpt] <;> split <;> simp
  | rot2 k ph a =>
    cases k <;> simp only [OpExpr.build, OpExpr.ofOpt] <;> split <;> simp
  | two k a =>
    cases k <;> simp only [OpExpr.build, OpExpr.ofOpt] <;> split <;> simp
  | u3 a b c m => simp only [OpExpr.build, OpExpr.ofOpt]; split <;> simp
  | qft m => simp only [OpExpr.build, OpExpr.ofOpt]; split <;> simp
  | qftSwapped m => simp only [OpExpr.build, OpExpr.ofOpt]; split <;> simp
  | id => simp [OpExpr.build]

theorem ofBuilt_matches (site : String) {b : Built R} (h : b ≠ .refused) :
    Res.Matches (Res.ofBuilt site b) b := by
  cases b with
  | ok o => exact rfl
  | refused => exact absurd rfl h
  | panic => trivial

theorem nameExpr_noC [AngleFns R] {name : String} {regs : List Nat} {args : List R}
    {e : OpExpr R} (h : nameExpr name regs args = some e) : e.noC = true := by
  unfold nameExpr at h
  split at h
  all_goals first
    | (obtain rfl := args0_eq_some h; rfl)
    | (obtain ⟨a, rfl⟩ := args1_eq_some h; rfl)
    | (obtain ⟨a, b, rfl⟩ := args2_eq_some h; rfl)
    | (obtain ⟨a, b, c, rfl⟩ := args3_eq_some h; rfl)
    | cases h

/-- a table name with a reading and a good target mask returns what its reading builds -/
theorem process_name [AngleFns R] [Neg R] (name : String) (regs : List Nat) (args : List R)
    (e : OpExpr R) (h : nameExpr name regs args = some e)
    (hr : regsOK name (orMask regs) = true) :
    Gates.process name regs args =
      Res.ofBuilt ("constructor " ++ (expectedBinding name).2)
        (OpExpr.build AngleFns.qftPhase e) := by
  obtain ⟨row, hrow, rfl⟩ := (mem_tableNames_iff name).1 (nameExpr_mem h)
  rw [process_lower row hrow, expectedRes_ok _ _ _ _ _ h hr]

theorem process_name_matches [AngleFns R] [Neg R] (name : String) (regs : List Nat)
    (args : List R) (e : OpExpr R) (h : nameExpr name regs args = some e)
    (hr : regsOK name (orMask regs) = true) :
    Res.Matches (Gates.process name regs args) (OpExpr.build AngleFns.qftPhase e) := by
  rw [process_name name regs args e h hr]
  exact ofBuilt_matches _ (build_ne_refused _ e (nameExpr_noC h))

theorem ctrlExpr_build_ne_panic [Neg R] (p : QftPhases R) (ctrls : List Nat) (e : OpExpr R)
    (h : OpExpr.build p e ≠ .panic) : OpExpr.build p (ctrlExpr ctrls e) ≠ .panic := by
  induction ctrls with
  | nil => exact h
  | cons m ms ih =>
    show OpExpr.build p (.c m (ctrlExpr ms e)) ≠ .panic
    rw [build_c]
    cases hb : OpExpr.build p (ctrlExpr ms e) with
    | ok o => simp only [Built.ctrl]; split <;> simp
    | refused => simp [Built.ctrl]
    | panic => exact absurd hb ih

end

theorem ctrlExpr_wordOK {R : Type} [CommRing R] [Consts R] (ctrls : List Nat) (e : OpExpr R)
    (hc : ∀ m ∈ ctrls, m < 2 ^ 64) (he : e.WordOK) : (ctrlExpr ctrls e).WordOK := by
  induction ctrls with
  | nil => exact he
  | cons m ms ih =>
    exact ⟨hc m List.mem_cons_self, ih (fun x hx => hc x (List.mem_cons_of_mem _ hx))⟩

/-- `u1` and `rz` build the same operator (the library's `u1(λ, a)` is `rz(λ, a)`) -/
theorem u1_eq_rz {R : Type} [AngleFns R] [Neg R] (regs : List Nat) (args : List R)
    (op : MultiOp R) :
    Gates.process "u1" regs args = .ok op ↔ Gates.process "rz" regs args = .ok op := by
  rw [process_lower ⟨"u1", "U1", .u1, "u1"⟩ (by decide),
    process_lower ⟨"rz", "RZ", .r 1, "rz"⟩ (by decide)]
  show expectedRes "u1" "u1" regs args = _ ↔ expectedRes "rz" "rz" regs args = _
  simp only [expectedRes]
  rw [regsOK_of_some (key := "u1") (n := 1) rfl, regsOK_of_some (key := "rz") (n := 1) rfl]
  by_cases hm : popcount (orMask regs) = 1
  · rcases args with _ | ⟨a, _ | ⟨b, t⟩⟩
    · simp only [hm, beq_self_eq_true, if_true]
      show (Res.err _ : Res (MultiOp R)) = _ ↔ (Res.err _ : Res (MultiOp R)) = _
      exact ⟨fun h => (by cases h), fun h => (by cases h)⟩
    · simp only [hm, beq_self_eq_true, if_true]
      show Res.ofBuilt _ (OpExpr.ofOpt (Op.rz _ _)) = _ ↔ Res.ofBuilt _ (OpExpr.ofOpt (Op.rz _ _)) = _
      cases Op.rz (AngleFns.halfPhase a) (orMask regs) <;> simp [Res.ofBuilt, OpExpr.ofOpt]
    · simp only [hm, beq_self_eq_true, if_true]
      show (Res.err _ : Res (MultiOp R)) = _ ↔ (Res.err _ : Res (MultiOp R)) = _
      exact ⟨fun h => (by cases h), fun h => (by cases h)⟩
  · simp [hm]

/-! ## 9. qelib1.inc: the one-qubit standard gates -/

section qelib
variable {R : Type} [CommRing R]

/-- product of 2×2 matrices -/
def Mat2.mul (A B : Mat2 R) : Mat2 R :=
  ⟨A.m00 * B.m00 + A.m01 * B.m10, A.m00 * B.m01 + A.m01 * B.m11,
   A.m10 * B.m00 + A.m11 * B.m10, A.m10 * B.m01 + A.m11 * B.m11⟩

/-- scalar multiple of a 2×2 matrix -/
def Mat2.smul (z : Cx R) (A : Mat2 R) : Mat2 R := ⟨z * A.m00, z * A.m01, z * A.m10, z * A.m11⟩

theorem act1_act1 (A B : Mat2 R) (k : Nat) (ψ : State R) :
    act1 A (2 ^ k) (act1 B (2 ^ k) ψ) = act1 (Mat2.mul A B) (2 ^ k) ψ := by
  funext idx
  by_cases h0 : idx &&& 2 ^ k = 0
  · have h1 : (idx ^^^ 2 ^ k) &&& 2 ^ k ≠ 0 := (xor_two_pow_and_ne_zero idx k).2 h0
    simp only [act1, h0, h1, if_true, if_false, xor_cancel, Mat2.mul]
    ring
  · have h1 : (idx ^^^ 2 ^ k) &&& 2 ^ k = 0 := (xor_two_pow_and_eq_zero idx k).2 h0
    simp only [act1, h0, h1, if_true, if_false, xor_cancel, Mat2.mul]
    ring

theorem act1_smul_mat (z : Cx R) (A : Mat2 R) (a : Nat) (ψ : State R) :
    act1 (Mat2.smul z A) a ψ = fun i => z * act1 A a ψ i := by
  funext idx
  simp only [act1, Mat2.smul]
  split <;> ring

omit [CommRing R] in
theorem ctrl_zero (A : State R → State R) : Spec.ctrl 0 A = A := by
  funext ψ idx
  simp [Spec.ctrl]

variable [Consts R]

/-- the matrix of the paper's `U(θ,φ,λ) = Rz(φ)·Ry(θ)·Rz(λ)`, from the half-angle phases -/
def matU (the phi lam : Cx R) : Mat2 R :=
  Mat2.mul (matRZ phi.re phi.im) (Mat2.mul (matRY the.re the.im) (matRZ lam.re lam.im))

variable [Div R] [ExprFns R] [AngleFns R]

omit [Consts R] [Div R] [ExprFns R] in
theorem actAll_gateU (θ φ l : R) (k : Nat) (ψ : State R) :
    actAll (gateU θ φ l (2 ^ k)) ψ =
      act1 (matU (AngleFns.halfPhase θ) (AngleFns.halfPhase φ) (AngleFns.halfPhase l)) (2 ^ k) ψ := by
  rw [matU, ← act1_act1, ← act1_act1]
  simp only [gateU, actAll, List.foldl, SGate.act, Prim.act, ctrl_zero]

/-- what the scalar type's angle functions must satisfy for the special angles of qelib1.inc
(true of `halfPhase a = (cos(a/2), sin(a/2))` over the reals, `Consts.invSqrt2 = 1/√2`) -/
structure StdAngles (R : Type) [CommRing R] [Div R] [Consts R] [ExprFns R] [AngleFns R] : Prop where
  /-- `1/√2` -/
  hs : 2 * (Consts.invSqrt2 : R) * Consts.invSqrt2 = 1
  /-- every half-angle phase lies on the unit circle -/
  unit : ∀ a : R, (AngleFns.halfPhase a).re * (AngleFns.halfPhase a).re
      + (AngleFns.halfPhase a).im * (AngleFns.halfPhase a).im = 1
  /-- `(cos 0, sin 0)` -/
  zero : AngleFns.halfPhase (0 : R) = ⟨1, 0⟩
  /-- `(cos(π/2), sin(π/2))` -/
  pi : AngleFns.halfPhase (ExprFns.pi : R) = ⟨0, 1⟩
  /-- `(cos(π/4), sin(π/4))` -/
  piHalf : AngleFns.halfPhase ((ExprFns.pi : R) / Spec.two) = ⟨Consts.invSqrt2, Consts.invSqrt2⟩
  /-- `cos(-x) = cos x`, `sin(-x) = -sin x` -/
  neg : ∀ a : R, AngleFns.halfPhase (-a) = (AngleFns.halfPhase a).conj
  /-- double angle at `π/8`: `cos²-sin² = cos(π/4)`, `2·sin·cos = sin(π/4)` -/
  piQuarter : (AngleFns.halfPhase ((ExprFns.pi : R) / Spec.four)) * (AngleFns.halfPhase ((ExprFns.pi : R) / Spec.four))
      = ⟨Consts.invSqrt2, Consts.invSqrt2⟩
  /-- the constant `FRAC_PI_2` used by `u2` -/
  quarter : (AngleFns.quarter : Cx R) = AngleFns.halfPhase ((ExprFns.pi : R) / Spec.two)

omit [CommRing R] [Consts R] [Div R] [ExprFns R] [AngleFns R] in
theorem Mat2.ext' {A B : Mat2 R} (h0 : A.m00 = B.m00) (h1 : A.m01 = B.m01) (h2 : A.m10 = B.m10)
    (h3 : A.m11 = B.m11) : A = B := by
  cases A; cases B; simp_all

theorem piQuarter_re (std : StdAngles R) :
    (AngleFns.halfPhase ((ExprFns.pi : R) / Spec.four)).re * (AngleFns.halfPhase ((ExprFns.pi : R) / Spec.four)).re
      - (AngleFns.halfPhase ((ExprFns.pi : R) / Spec.four)).im * (AngleFns.halfPhase ((ExprFns.pi : R) / Spec.four)).im
      = Consts.invSqrt2 := by
  have := congrArg Cx.re std.piQuarter
  simpa using this

theorem piQuarter_im (std : StdAngles R) :
    (AngleFns.halfPhase ((ExprFns.pi : R) / Spec.four)).re * (AngleFns.halfPhase ((ExprFns.pi : R) / Spec.four)).im
      + (AngleFns.halfPhase ((ExprFns.pi : R) / Spec.four)).im * (AngleFns.halfPhase ((ExprFns.pi : R) / Spec.four)).re
      = Consts.invSqrt2 := by
  have := congrArg Cx.im std.piQuarter
  simpa using this

section mats
variable (std : StdAngles R)
include std

local notation "hp" => AngleFns.halfPhase
local notation "π'" => (ExprFns.pi : R)

theorem matU_x : matU (hp π') (hp (0 : R)) (hp π') = Mat2.smul ⟨0, -1⟩ matX := by
  rw [std.pi, std.zero]
  apply Mat2.ext' <;> ext <;> simp [matU, Mat2.mul, Mat2.smul, matRZ, matRY, matX, cR]

theorem matU_y : matU (hp π') (hp (π' / Spec.two)) (hp (π' / Spec.two)) = Mat2.smul ⟨0, -1⟩ matY := by
  rw [std.pi, std.piHalf]
  have hs := std.hs
  apply Mat2.ext' <;> ext <;>
    simp [matU, Mat2.mul, Mat2.smul, matRZ, matRY, matY, cR, cI, cNegI] <;>
    first | linear_combination hs | linear_combination (-1 : R) * hs

theorem matU_z : matU (hp (0 : R)) (hp (0 : R)) (hp π') = Mat2.smul ⟨0, -1⟩ matZ := by
  rw [std.pi, std.zero]
  apply Mat2.ext' <;> ext <;> simp [matU, Mat2.mul, Mat2.smul, matRZ, matRY, matZ, cR]

theorem matU_h : matU (hp (π' / Spec.two)) (hp (0 : R)) (hp π') = Mat2.smul ⟨0, -1⟩ matH := by
  rw [std.pi, std.zero, std.piHalf]
  apply Mat2.ext' <;> ext <;> simp [matU, Mat2.mul, Mat2.smul, matRZ, matRY, matH, cR]

theorem matU_s : matU (hp (0 : R)) (hp (0 : R)) (hp (π' / Spec.two))
    = Mat2.smul ⟨Consts.invSqrt2, -Consts.invSqrt2⟩ matS := by
  rw [std.zero, std.piHalf]
  have hs := std.hs
  apply Mat2.ext' <;> ext <;>
    simp [matU, Mat2.mul, Mat2.smul, matRZ, matRY, matS, cR, cI]

theorem matU_sdg : matU (hp (0 : R)) (hp (0 : R)) (hp (-(π' / Spec.two)))
    = Mat2.smul ⟨Consts.invSqrt2, Consts.invSqrt2⟩ (Mat2.adj matS) := by
  rw [std.zero, std.neg, std.piHalf]
  have hs := std.hs
  apply Mat2.ext' <;> ext <;>
    simp [matU, Mat2.mul, Mat2.smul, matRZ, matRY, matS, cR, cI, Mat2.adj]

theorem matU_t : matU (hp (0 : R)) (hp (0 : R)) (hp (π' / Spec.four))
    = Mat2.smul (hp (π' / Spec.four)).conj matT := by
  rw [std.zero]
  have h1 := piQuarter_re std
  have h2 := piQuarter_im std
  have h3 := std.unit (π' / Spec.four)
  generalize hp (π' / Spec.four) = b at *
  obtain ⟨c, s⟩ := b
  apply Mat2.ext' <;> ext <;>
    simp [matU, Mat2.mul, Mat2.smul, matRZ, matRY, matT, cR]
  · linear_combination c * h1 + s * h2 - c * h3
  · linear_combination c * h2 - s * h1 - s * h3

theorem matU_tdg : matU (hp (0 : R)) (hp (0 : R)) (hp (-(π' / Spec.four)))
    = Mat2.smul (hp (π' / Spec.four)) (Mat2.adj matT) := by
  rw [std.zero, std.neg]
  have h1 := piQuarter_re std
  have h2 := piQuarter_im std
  have h3 := std.unit (π' / Spec.four)
  generalize hp (π' / Spec.four) = b at *
  obtain ⟨c, s⟩ := b
  apply Mat2.ext' <;> ext <;>
    simp [matU, Mat2.mul, Mat2.smul, matRZ, matRY, matT, cR, Mat2.adj]
  · linear_combination (-c) * h3 + c * h1 + s * h2
  · linear_combination s * h3 - c * h2 + s * h1

theorem matU_rx (θ : R) : matU (hp θ) (hp (-(π' / Spec.two))) (hp (π' / Spec.two))
    = matRX (hp θ).re (hp θ).im := by
  rw [std.neg, std.piHalf]
  have hs := std.hs
  apply Mat2.ext' <;> ext <;>
    simp [matU, Mat2.mul, matRZ, matRY, matRX, cR] <;>
    first
      | linear_combination (AngleFns.halfPhase θ).re * hs
      | linear_combination (-(AngleFns.halfPhase θ).im) * hs

theorem matU_ry (θ : R) : matU (hp θ) (hp (0 : R)) (hp (0 : R)) = matRY (hp θ).re (hp θ).im := by
  rw [std.zero]
  apply Mat2.ext' <;> ext <;> simp [matU, Mat2.mul, matRZ, matRY, cR]

theorem matU_rz (φ : R) : matU (hp (0 : R)) (hp (0 : R)) (hp φ) = matRZ (hp φ).re (hp φ).im := by
  rw [std.zero]
  apply Mat2.ext' <;> ext <;> simp [matU, Mat2.mul, matRZ, matRY, cR]

end mats

omit [CommRing R] [Consts R] [Div R] [ExprFns R] [AngleFns R] in
theorem orMask_single (m : Nat) : orMask [m] = m := by simp [orMask]

omit [CommRing R] [Consts R] [Div R] [ExprFns R] [AngleFns R] in
theorem onEach_two_pow (M : Mat2 R) (k : Nat) (hk : k < 64) :
    onEach M (2 ^ k) = [⟨0, .one M (2 ^ k)⟩] := by
  simp [onEach, bitsOf_two_pow k hk]

omit [CommRing R] [Consts R] [Div R] [ExprFns R] [AngleFns R] in
theorem oneBit_two_pow (k : Nat) (hk : k < 64) : oneBit (2 ^ k) = some (2 ^ k) := by
  simp [oneBit, bitsOf_two_pow k hk]

omit [Div R] [ExprFns R] [AngleFns R] in
theorem denote_g1_two_pow (p : QftPhases R) (g : G1) (k : Nat) (hk : k < 64) :
    denote p (.g1 g (2 ^ k)) = .ok [⟨0, .one (mat1 g) (2 ^ k)⟩] (2 ^ k) := by
  have h0 : (2 : Nat) ^ k ≠ 0 := Nat.pos_iff_ne_zero.1 (Nat.two_pow_pos k)
  cases g <;> simp only [denote, h0, if_false, onEach_two_pow _ k hk, mat1]

omit [Div R] [ExprFns R] [AngleFns R] in
theorem denote_dgr_g1_two_pow (p : QftPhases R) (g : G1) (k : Nat) (hk : k < 64) :
    denote p (.dgr (.g1 g (2 ^ k))) = .ok [⟨0, .one (Mat2.adj (mat1 g)) (2 ^ k)⟩] (2 ^ k) := by
  rw [denote, denote_g1_two_pow p g k hk]
  rfl

omit [Div R] [ExprFns R] [AngleFns R] in
theorem denote_rot1_two_pow (p : QftPhases R) (r : Rot1) (ph : Cx R) (k : Nat) (hk : k < 64) :
    denote p (.rot1 r ph (2 ^ k)) = .ok [⟨0, .one (matRot1 r ph) (2 ^ k)⟩] (2 ^ k) := by
  rw [denote, oneBit_two_pow k hk]
  rfl

omit [Div R] [ExprFns R] [AngleFns R] in
theorem denote_u3_two_pow (p : QftPhases R) (a b c : Cx R) (k : Nat) (hk : k < 64) :
    denote p (.u3 a b c (2 ^ k)) =
      .ok [⟨0, .one (matRZ c.re c.im) (2 ^ k)⟩, ⟨0, .one (matRY a.re a.im) (2 ^ k)⟩,
           ⟨0, .one (matRZ b.re b.im) (2 ^ k)⟩] (2 ^ k) := by
  rw [denote, oneBit_two_pow k hk]
  rfl

omit [Div R] [ExprFns R] in
/-- a table name with a reading and a good 64-bit target mask is accepted and refines the
reference meaning of its reading -/
theorem process_name_refines (hs : 2 * (Consts.invSqrt2 : R) * Consts.invSqrt2 = 1)
    (hh : 2 * (Consts.half : R) = 1) (name : String) (regs : List Nat) (args : List R)
    (e : OpExpr R) (h : nameExpr name regs args = some e)
    (hr : regsOK name (orMask regs) = true) (hw : ∀ r ∈ regs, r < 2 ^ 64) :
    ∃ o gs supp, Gates.process name regs args = .ok o ∧
      OpExpr.build AngleFns.qftPhase e = .ok o ∧
      Spec.denote AngleFns.qftPhase e = .ok gs supp ∧ Refines o gs supp := by
  obtain ⟨hword, gs, supp, hd⟩ := nameExpr_good AngleFns.qftPhase h hr (orMask_lt regs hw)
  obtain ⟨o, hb, href⟩ := denote_ok_iff hs hh AngleFns.qftPhase e hword gs supp hd
  refine ⟨o, gs, supp, ?_, hb, hd, href⟩
  rw [process_name name regs args e h hr, hb]
  rfl

/-- **A one-qubit standard gate agrees with its qelib1.inc definition up to the global phase
`lam`**, given the 2×2 identity `U(θ,φ,λ) = lam · M` for its body `U(θ,φ,λ)` and the documented
matrix `M` of its reading. -/
theorem qelib_one (std : StdAngles R) (hh : 2 * (Consts.half : R) = 1) (name : String)
    (args : List R) (k : Nat) (hk : k < 64) (e : OpExpr R) (M : Mat2 R) (θ φ l : R) (lam : Cx R)
    (he : nameExpr name [2 ^ k] args = some e) (hr : regsOK name (2 ^ k) = true)
    (hden : denote AngleFns.qftPhase e = .ok [⟨0, .one M (2 ^ k)⟩] (2 ^ k))
    (hq : Spec.qelib name args [2 ^ k] = some (gateU θ φ l (2 ^ k)))
    (hm : matU (AngleFns.halfPhase θ) (AngleFns.halfPhase φ) (AngleFns.halfPhase l)
      = Mat2.smul lam M)
    (hl : Cx.normSq lam = 1) :
    ∃ o gs, Gates.process name [2 ^ k] args = .ok o ∧ Spec.qelib name args [2 ^ k] = some gs ∧
      ∃ lam : Cx R, Cx.normSq lam = 1 ∧ ∀ ψ : State R, actAll gs ψ = fun i => lam * o.apply ψ i := by
  have hw : ∀ r ∈ [2 ^ k], r < 2 ^ 64 := by
    intro r hr'
    rw [List.mem_singleton.1 hr']
    exact Nat.pow_lt_pow_right (by decide) hk
  obtain ⟨o, gs, supp, hp, _, hd, href⟩ :=
    process_name_refines std.hs hh name [2 ^ k] args e he (by rw [orMask_single]; exact hr) hw
  rw [hden] at hd
  obtain ⟨rfl, rfl⟩ : [⟨0, .one M (2 ^ k)⟩] = gs ∧ 2 ^ k = supp := by
    injection hd with h1 h2
    exact ⟨h1, h2⟩
  refine ⟨o, _, hp, hq, lam, hl, fun ψ => ?_⟩
  rw [actAll_gateU, hm, act1_smul_mat, href.apply ψ]
  simp only [actAll, List.foldl, SGate.act, Prim.act, ctrl_zero]

/-- the statement "the interpreter's one-qubit gate `name(args) q` and the qelib1.inc circuit of
the same name are the same map up to one global phase" (qubit `q = 2^k`) -/
def AgreesWithQelib (name : String) (args : List R) (k : Nat) : Prop :=
  ∃ o gs, Gates.process name [2 ^ k] args = .ok o ∧ Spec.qelib name args [2 ^ k] = some gs ∧
    ∃ lam : Cx R, Cx.normSq lam = 1 ∧ ∀ ψ : State R, actAll gs ψ = fun i => lam * o.apply ψ i

omit [Div R] [Consts R] [ExprFns R] [AngleFns R] in
theorem Mat2.one_smul (M : Mat2 R) : Mat2.smul 1 M = M := by
  cases M; simp [Mat2.smul]

/-- `u2` / `u3`: the reading is literally the body `U(θ,φ,λ)` -/
theorem qelib_u (std : StdAngles R) (hh : 2 * (Consts.half : R) = 1) (name : String)
    (args : List R) (k : Nat) (hk : k < 64) (a b c : Cx R) (θ φ l : R)
    (he : nameExpr name [2 ^ k] args = some (.u3 a b c (orMask [2 ^ k])))
    (hr : regsOK name (2 ^ k) = true)
    (hq : Spec.qelib name args [2 ^ k] = some (gateU θ φ l (2 ^ k)))
    (hph : a = AngleFns.halfPhase θ ∧ b = AngleFns.halfPhase φ ∧ c = AngleFns.halfPhase l) :
    AgreesWithQelib name args k := by
  obtain ⟨rfl, rfl, rfl⟩ := hph
  have hw : ∀ r ∈ [2 ^ k], r < 2 ^ 64 := by
    intro r hr'
    rw [List.mem_singleton.1 hr']
    exact Nat.pow_lt_pow_right (by decide) hk
  obtain ⟨o, gs, supp, hp, _, hd, href⟩ :=
    process_name_refines std.hs hh name [2 ^ k] args _ he (by rw [orMask_single]; exact hr) hw
  rw [orMask_single, denote_u3_two_pow _ _ _ _ k hk] at hd
  injection hd with h1 h2
  subst h1 h2
  refine ⟨o, _, hp, hq, 1, by simp [Cx.normSq], fun ψ => ?_⟩
  rw [href.apply ψ]
  simp only [one_mul]
  rfl

end qelib

/-! ## 10. helpers for the examples of `Props/C09` -/

/-- a toy angle table for the examples (they only look at masks) -/
@[reducible] def demoAngles : AngleFns Int := ⟨fun a => ⟨a, 0⟩, ⟨0, 1⟩, fun _ => ⟨1, 0⟩⟩

/-- the `(targets, controls)` masks of the queue elements of a successful result -/
def Res.shape : Res (MultiOp Int) → Option (List (Nat × Nat))
  | .ok o => some (o.map (fun g => (g.act, g.ctrl)))
  | _ => none

end Qvnt
