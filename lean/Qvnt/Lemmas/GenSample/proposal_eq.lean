/- `proposal_eq` of GenSample.lean (one module per declaration, tools/lean_split.py) -/
import Qvnt.Generated.Regs
import Qvnt.Generated.Kernels
import Qvnt.Lemmas.Bits
import Mathlib.Tactic.Ring
import Mathlib.Algebra.Ring.Basic
import Qvnt.Lemmas.Queue

set_option linter.unusedSectionVars false
namespace Qvnt.Gen2
open Qvnt Qvnt.Gen
variable {R : Type}
section sample
open Qvnt.QReg (HasRound)
variable [Add R] [Sub R] [Mul R] [Div R] [Neg R] [Zero R] [One R] [Consts R]
  [LE R] [DecidableLE R] [LT R] [DecidableLT R] [HasSqrt R] [RegConsts R] [HasRound R]

/-- stage 1: the rounded Gaussian proposal, when there is a draw for every cell -/
theorem proposal_eq (p g : List R) (count : Nat) (hg : p.length ≤ g.length) :
    (let c : R := HasRound.ofNat count
     let c_sqrt := HasSqrt.sqrt c
     let n := List.map (fun a1 : R × R => HasSqrt.sqrt a1.1 * a1.2) (List.zip p g)
     let n_sum := Rs.sum n
     List.map (fun idx => Int.toNat (max (HasRound.roundInt ((c * p.getD idx 0) + (c_sqrt * (n.getD idx 0 - (n_sum * p.getD idx 0))))) (0 : Int)))
       (Rs.range 0 p.length)) = QReg.sampleProposal p count g := by
  unfold QReg.sampleProposal Rs.sum Rs.range
  apply List.ext_getElem
  · simp; omega
  · intro i h1 h2
    have hi : i < p.length := by simpa using h1
    have hig : i < g.length := by omega
    simp [List.getD_eq_getElem?_getD, hi, hig]

end sample
end Qvnt.Gen2
