/- `surplus_loop_eq` of GenSample.lean (one module per declaration, tools/lean_split.py) -/
import Qvnt.Generated.Regs
import Qvnt.Generated.Kernels
import Qvnt.Lemmas.Bits
import Mathlib.Tactic.Ring
import Mathlib.Algebra.Ring.Basic
import Qvnt.Lemmas.Queue

set_option linter.unusedSectionVars false
namespace Qvnt.Gen2
open Qvnt Qvnt.Gen
variable {R : Type}
section sample
open Qvnt.QReg (HasRound)
variable [Add R] [Sub R] [Mul R] [Div R] [Neg R] [Zero R] [One R] [Consts R]
  [LE R] [DecidableLE R] [LT R] [DecidableLT R] [HasSqrt R] [RegConsts R] [HasRound R]

/-- the surplus walk: one more unit of fuel than the model's (the translated loop tests its fuel first) -/
theorem surplus_loop_eq (r : QRegG R) (fuel idx s : Nat) (n : List Nat) (hq : r.q_mask < n.length) :
    (quant_sample_all_loop1 r (fuel + 1) (idx, n, s)).map (fun st => st.2.1) =
      QReg.removeSurplus r.q_mask fuel idx s n := by
  induction fuel generalizing idx s n with
  | zero =>
    cases s with
    | zero => simp [quant_sample_all_loop1, QReg.removeSurplus]
    | succ s' =>
      unfold quant_sample_all_loop1 QReg.removeSurplus
      by_cases h0 : n.getD (idx &&& r.q_mask) 0 = 0 <;> simp [h0, quant_sample_all_loop1]
  | succ f ih =>
    cases s with
    | zero => simp [quant_sample_all_loop1, QReg.removeSurplus]
    | succ s' =>
      have hc : idx &&& r.q_mask < n.length := lt_of_le_of_lt Nat.and_le_right hq
      unfold quant_sample_all_loop1 QReg.removeSurplus
      have hget : n[idx &&& r.q_mask]? = some (n.getD (idx &&& r.q_mask) 0) := by
        simp [List.getD_eq_getElem?_getD, List.getElem?_eq_getElem hc]
      simp only [Nat.add_eq_zero_iff, one_ne_zero, and_false, beq_iff_eq, ↓reduceIte, hget]
      cases hv : n.getD (idx &&& r.q_mask) 0 with
      | zero => simp [ih (idx + 1) (s' + 1) n hq]
      | succ v =>
        have := ih (idx + 1) s' (n.set (idx &&& r.q_mask) v) (by simpa using hq)
        simp [this]

end sample
end Qvnt.Gen2
