/- `rsSum_nat` of GenSample.lean (one module per declaration, tools/lean_split.py) -/
import Qvnt.Generated.Regs
import Qvnt.Generated.Kernels
import Qvnt.Lemmas.Bits
import Mathlib.Tactic.Ring
import Mathlib.Algebra.Ring.Basic
import Qvnt.Lemmas.Queue

set_option linter.unusedSectionVars false
namespace Qvnt.Gen2
open Qvnt Qvnt.Gen
variable {R : Type}
section sample
open Qvnt.QReg (HasRound)
variable [Add R] [Sub R] [Mul R] [Div R] [Neg R] [Zero R] [One R] [Consts R]
  [LE R] [DecidableLE R] [LT R] [DecidableLT R] [HasSqrt R] [RegConsts R] [HasRound R]

theorem rsSum_nat (l : List Nat) : Rs.sum l = l.sum := by
  unfold Rs.sum
  rw [List.sum_eq_foldl]

end sample
end Qvnt.Gen2
