/- `quant_sample_all_eq` of GenSample.lean (one module per declaration, tools/lean_split.py) -/
import Qvnt.Generated.Regs
import Qvnt.Generated.Kernels
import Qvnt.Lemmas.Bits
import Mathlib.Tactic.Ring
import Mathlib.Algebra.Ring.Basic
import Qvnt.Lemmas.Queue
import Qvnt.Lemmas.GenPre.ofModel
import Qvnt.Lemmas.GenQProb.quant_get_probabilities_eq
import Qvnt.Lemmas.GenSample.surplus_loop_eq
import Qvnt.Lemmas.GenSample.updateSelected_eq_go
import Qvnt.Lemmas.GenSample.rsSum_nat
import Qvnt.Lemmas.GenSample.proposal_eq

set_option linter.unusedSectionVars false
namespace Qvnt.Gen2
open Qvnt Qvnt.Gen
variable {R : Type}
section sample
open Qvnt.QReg (HasRound)
variable [Add R] [Sub R] [Mul R] [Div R] [Neg R] [Zero R] [One R] [Consts R]
  [LE R] [DecidableLE R] [LT R] [DecidableLT R] [HasSqrt R] [RegConsts R] [HasRound R]

/-- `sample_all` with the normal draws as an input list (one draw per cell at least), for every register whose
mask and buffer fit its size: the translated function, given one more unit of fuel than the model's bound, is
the model's `sampleAll` -/
theorem quant_sample_all_eq (r : QReg R) (count : Nat) (g : List R) (hq : r.qNum < 64)
    (hs : 2 ^ r.qNum ≤ r.psi.size) (hm : r.qMask < 2 ^ r.qNum) (hg : 2 ^ r.qNum ≤ g.length) :
    quant_sample_all
      (((QReg.sampleProposal r.getProbabilities count g).sum - count) *
        ((QReg.sampleProposal r.getProbabilities count g).length + 1) +
        (QReg.sampleProposal r.getProbabilities count g).length + 1 + 1) (ofModel r) count g =
      r.sampleAll count g := by
  have hp := quant_get_probabilities_eq r hq hs
  have hpl : r.getProbabilities.length = 2 ^ r.qNum := by simp [QReg.getProbabilities]
  have hprop := proposal_eq r.getProbabilities g count (by omega)
  simp only at hprop
  unfold quant_sample_all QReg.sampleAll QReg.sampleFix
  simp only [hp, hprop]
  generalize hn0 : QReg.sampleProposal r.getProbabilities count g = n0
  have hn0l : n0.length = 2 ^ r.qNum := by
    rw [← hn0]; unfold QReg.sampleProposal; simp [hpl]; omega
  simp only [rsSum_nat]
  by_cases hlt : n0.sum < count
  · have h1 : ((Int.ofNat n0.sum - Int.ofNat count) < (0 : Int)) := by
      simp only [Int.ofNat_eq_natCast]; omega
    have hab : Int.natAbs (Int.ofNat n0.sum - Int.ofNat count) = count - n0.sum := by
      simp only [Int.ofNat_eq_natCast]; omega
    simp only [h1, decide_true, ↓reduceIte, hlt, hab, QReg.addDeficit, Rs.updateSelected]
    have hsup : (List.filter (fun a4 : R => decide (a4 > 0)) r.getProbabilities).length =
        (List.filter id (List.map (fun x => decide (0 < x)) r.getProbabilities)).length := by
      rw [List.filter_map]; simp [Function.comp_def, GT.gt]
    rw [hsup]
    congr 1
    rw [← updateSelected_eq_go]
    congr 1
    funext idx x
    by_cases hk : idx < (count - n0.sum) % max (List.filter id (List.map (fun x => decide (0 < x)) r.getProbabilities)).length 1
    · simp [hk]
    · simp [hk]
  · by_cases hgt : n0.sum > count
    · have h1 : ¬ ((Int.ofNat n0.sum - Int.ofNat count) < (0 : Int)) := by
        simp only [Int.ofNat_eq_natCast]; omega
      have h2 : ((Int.ofNat n0.sum - Int.ofNat count) > (0 : Int)) := by
        simp only [Int.ofNat_eq_natCast]; omega
      have hcast : Int.toNat (Int.ofNat n0.sum - Int.ofNat count) = n0.sum - count := by
        simp only [Int.ofNat_eq_natCast]; omega
      simp only [h1, decide_false, Bool.false_eq_true, ↓reduceIte, h2, decide_true, hlt, hgt, hcast]
      have := surplus_loop_eq (ofModel r) ((n0.sum - count) * (n0.length + 1) + n0.length + 1) 0 (n0.sum - count) n0
        (by simp [ofModel, hn0l]; exact hm)
      simp only [ofModel] at this ⊢
      rw [← this]
      cases quant_sample_all_loop1 (R := R) ⟨r.psi.toList, r.qNum, r.qMask⟩
        ((n0.sum - count) * (n0.length + 1) + n0.length + 1 + 1) (0, n0, n0.sum - count) <;> simp
    · have h1 : ¬ ((Int.ofNat n0.sum - Int.ofNat count) < (0 : Int)) := by
        simp only [Int.ofNat_eq_natCast]; omega
      have h2 : ¬ ((Int.ofNat n0.sum - Int.ofNat count) > (0 : Int)) := by
        simp only [Int.ofNat_eq_natCast]; omega
      simp [h1, h2, hlt, hgt]

end sample
end Qvnt.Gen2
