/- `updateSelected_eq_go` of GenSample.lean (one module per declaration, tools/lean_split.py) -/
import Qvnt.Generated.Regs
import Qvnt.Generated.Kernels
import Qvnt.Lemmas.Bits
import Mathlib.Tactic.Ring
import Mathlib.Algebra.Ring.Basic
import Qvnt.Lemmas.Queue

set_option linter.unusedSectionVars false
namespace Qvnt.Gen2
open Qvnt Qvnt.Gen
variable {R : Type}
section sample
open Qvnt.QReg (HasRound)
variable [Add R] [Sub R] [Mul R] [Div R] [Neg R] [Zero R] [One R] [Consts R]
  [LE R] [DecidableLE R] [LT R] [DecidableLT R] [HasSqrt R] [RegConsts R] [HasRound R]

theorem updateSelected_eq_go (each extra : Nat) (n : List Nat) (p : List R) (k : Nat) :
    Rs.updateSelectedAux (fun x => decide (x > 0)) (fun idx x => if idx < extra then x + each + 1 else x + each) n p k =
      QReg.addDeficit.go each extra n (p.map fun x => decide (0 < x)) k := by
  induction n generalizing p k with
  | nil => cases p <;> simp [Rs.updateSelectedAux, QReg.addDeficit.go]
  | cons x xs ih =>
    cases p with
    | nil => simp [Rs.updateSelectedAux, QReg.addDeficit.go]
    | cons y ys =>
      by_cases hy : (0 : R) < y
      · simp only [Rs.updateSelectedAux, GT.gt, hy, decide_true, ↓reduceIte, List.map_cons, QReg.addDeficit.go, ih]
        by_cases hk : k < extra <;> simp [hk, Nat.add_assoc]
      · simp [Rs.updateSelectedAux, GT.gt, hy, QReg.addDeficit.go, ih]

end sample
end Qvnt.Gen2
