/-
LEMMAS — the multi-bit Pauli-type kernels (`x`, `y`, `z`, `s`, `t` on a mask with several bits)
equal "the one-qubit gate on each selected qubit".
-/
import Qvnt.Model.Atom
import Qvnt.Spec.Gates
import Qvnt.Lemmas.Bits
import Qvnt.Lemmas.Structure
import Mathlib.Algebra.Ring.Basic
import Mathlib.Tactic.Ring

set_option linter.unusedSectionVars false

namespace Qvnt
open Qvnt.Spec

variable {R : Type} [CommRing R] [Consts R]

namespace Multi

/-- `Cx R` is a commutative ring (local to this file: only used to get `^`, `ring`, …). -/
@[reducible] def cxCommRing : CommRing (Cx R) where
  add := (· + ·)
  zero := 0
  neg := Neg.neg
  sub := Sub.sub
  mul := (· * ·)
  one := 1
  nsmul := nsmulRec
  zsmul := zsmulRec
  add_assoc := by intros; ext <;> simp [add_assoc]
  zero_add := by intros; ext <;> simp
  add_zero := by intros; ext <;> simp
  add_comm := by intros; ext <;> simp [add_comm]
  neg_add_cancel := by intros; ext <;> simp
  sub_eq_add_neg := by intros; ext <;> simp [sub_eq_add_neg]
  left_distrib := by intros; ext <;> simp <;> ring
  right_distrib := by intros; ext <;> simp <;> ring
  zero_mul := by intros; ext <;> simp
  mul_zero := by intros; ext <;> simp
  mul_assoc := by intros; ext <;> simp <;> ring
  one_mul := by intros; ext <;> simp
  mul_one := by intros; ext <;> simp
  mul_comm := by intros; ext <;> simp <;> ring

attribute [local instance] cxCommRing

/-! ### 1. generalities on powers in `Cx R` -/

theorem pow_eq_of_mod (d : Cx R) (n : Nat) (hd : d ^ n = 1) (a b : Nat) (h : a % n = b % n) :
    d ^ a = d ^ b := by
  have key : ∀ a : Nat, d ^ a = d ^ (a % n) := by
    intro a
    conv_lhs => rw [← Nat.div_add_mod a n]
    rw [pow_add, pow_mul, hd, one_pow, one_mul]
  rw [key a, key b, h]

theorem cI_mul (z : Cx R) : (cI : Cx R) * z = ⟨-z.im, z.re⟩ := by
  ext <;> simp [cI]

theorem neg_one_mul' (z : Cx R) : (-1 : Cx R) * z = -z := by
  ext <;> simp

theorem cI_sq : (cI : Cx R) ^ 2 = -1 := by
  rw [pow_two, cI_mul]; ext <;> simp [cI]

theorem cI_pow_four : (cI : Cx R) ^ 4 = 1 := by
  have : (cI : Cx R) ^ 4 = (cI ^ 2) ^ 2 := by ring
  rw [this, cI_sq]; ring

theorem cNegI_eq : (cNegI : Cx R) = cI ^ 3 := by
  have : (cI : Cx R) ^ 3 = cI * cI ^ 2 := by ring
  rw [this, cI_sq, cI_mul]; ext <;> simp [cNegI]

/-! ### 2. the product of per-qubit factors -/

/-- product over the list of single-bit masks of `p` (bit of `idx` clear) resp. `q` (bit set) -/
def fac (p q : Cx R) (idx : Nat) : List Nat → Cx R
  | [] => 1
  | a :: l => (if idx &&& a = 0 then p else q) * fac p q idx l

/-- number of masks of the list that meet `idx` -/
def cnt (idx : Nat) (l : List Nat) : Nat := (l.filter (fun a => idx &&& a ≠ 0)).length

theorem cnt_le (idx : Nat) (l : List Nat) : cnt idx l ≤ l.length :=
  List.length_filter_le _ _

theorem fac_append (p q : Cx R) (idx : Nat) (l l' : List Nat) :
    fac p q idx (l ++ l') = fac p q idx l * fac p q idx l' := by
  induction l with
  | nil => simp [fac]
  | cons a l ih => simp only [List.cons_append, fac, ih, mul_assoc]

theorem fac_congr (p q : Cx R) (idx idx' : Nat) (l : List Nat)
    (h : ∀ a ∈ l, (idx' &&& a = 0 ↔ idx &&& a = 0)) : fac p q idx' l = fac p q idx l := by
  induction l with
  | nil => rfl
  | cons a l ih =>
    have ha := h a (List.mem_cons_self ..)
    have hl := ih (fun b hb => h b (List.mem_cons_of_mem _ hb))
    simp only [fac, hl]
    by_cases h0 : idx &&& a = 0
    · simp [h0, ha.2 h0]
    · have : ¬ idx' &&& a = 0 := fun h' => h0 (ha.1 h')
      simp [h0, this]

theorem fac_eq_pow (p q : Cx R) (idx : Nat) (l : List Nat) :
    fac p q idx l = q ^ cnt idx l * p ^ (l.length - cnt idx l) := by
  induction l with
  | nil => simp [fac, cnt]
  | cons a l ih =>
    have hle := cnt_le idx l
    by_cases h0 : idx &&& a = 0
    · have hc : cnt idx (a :: l) = cnt idx l := by simp [cnt, h0]
      have hlen : (a :: l).length - cnt idx l = (l.length - cnt idx l) + 1 := by
        simp only [List.length_cons]; omega
      rw [fac, ih, hc, hlen, if_pos h0]; ring
    · have hc : cnt idx (a :: l) = cnt idx l + 1 := by simp [cnt, h0]
      have hlen : (a :: l).length - (cnt idx l + 1) = l.length - cnt idx l := by
        simp only [List.length_cons]; omega
      rw [fac, ih, hc, hlen, if_neg h0]; ring

theorem cnt_bitsOf (idx m : Nat) (h : m < 2 ^ 64) : cnt idx (bitsOf m) = popcount (idx &&& m) :=
  (popcount_and_eq_filter idx m h).symm

/-! ### 3. closed forms of the SPEC side -/

theorem actAll_cons (g : SGate R) (gs : List (SGate R)) (ψ : State R) :
    actAll (g :: gs) ψ = actAll gs (g.act ψ) := rfl

theorem actAll_nil (ψ : State R) : actAll ([] : List (SGate R)) ψ = ψ := rfl

theorem actAll_append (l l' : List (SGate R)) (ψ : State R) :
    actAll (l ++ l') ψ = actAll l' (actAll l ψ) := by
  simp only [actAll, List.foldl_append]

theorem one_act (M : Mat2 R) (a : Nat) (ψ : State R) :
    SGate.act ⟨0, .one M a⟩ ψ = act1 M a ψ := Spec.ctrl_zero _ _

theorem act1_diag (M : Mat2 R) (h00 : M.m00 = 1) (h01 : M.m01 = 0) (h10 : M.m10 = 0)
    (a : Nat) (ψ : State R) (idx : Nat) :
    act1 M a ψ idx = (if idx &&& a = 0 then 1 else M.m11) * ψ idx := by
  unfold act1
  split
  · rw [h00, h01]; ring
  · rw [h10]; ring

theorem act1_adiag (M : Mat2 R) (h00 : M.m00 = 0) (h11 : M.m11 = 0)
    (a : Nat) (ψ : State R) (idx : Nat) :
    act1 M a ψ idx = (if idx &&& a = 0 then M.m01 else M.m10) * ψ (idx ^^^ a) := by
  unfold act1
  split
  · rw [h00]; ring
  · rw [h11]; ring

/-- a diagonal one-qubit gate on each mask of a list -/
theorem diag_list (M : Mat2 R) (h00 : M.m00 = 1) (h01 : M.m01 = 0) (h10 : M.m10 = 0)
    (l : List Nat) : ∀ (ψ : State R) (idx : Nat),
    actAll (l.map fun a => (⟨0, .one M a⟩ : SGate R)) ψ idx = fac 1 M.m11 idx l * ψ idx := by
  induction l with
  | nil => intro ψ idx; simp [actAll_nil, fac]
  | cons a l ih =>
    intro ψ idx
    rw [List.map_cons, actAll_cons, ih, one_act, act1_diag M h00 h01 h10, fac]
    ring

theorem diag_onEach (M : Mat2 R) (h00 : M.m00 = 1) (h01 : M.m01 = 0) (h10 : M.m10 = 0)
    (m : Nat) (hm : m < 2 ^ 64) (ψ : State R) (idx : Nat) :
    actAll (onEach M m) ψ idx = M.m11 ^ popcount (idx &&& m) * ψ idx := by
  unfold onEach
  rw [diag_list M h00 h01 h10, fac_eq_pow, one_pow, mul_one, cnt_bitsOf idx m hm]

theorem xor_two_pow_and_eq_zero_iff (idx k i : Nat) (h : i ≠ k) :
    (idx ^^^ 2 ^ k) &&& 2 ^ i = 0 ↔ idx &&& 2 ^ i = 0 := by
  rw [and_two_pow_eq_zero_iff, and_two_pow_eq_zero_iff, Nat.testBit_xor, Nat.testBit_two_pow]
  have : ¬ k = i := fun h' => h h'.symm
  simp [this]

/-- an anti-diagonal one-qubit gate on each set bit of `m` below `k` -/
theorem adiag_below (M : Mat2 R) (h00 : M.m00 = 0) (h11 : M.m11 = 0) (m k : Nat) :
    ∀ (ψ : State R) (idx : Nat),
    actAll ((bitsBelow m k).map fun a => (⟨0, .one M a⟩ : SGate R)) ψ idx
      = fac M.m01 M.m10 idx (bitsBelow m k) * ψ (idx ^^^ m % 2 ^ k) := by
  induction k with
  | zero => intro ψ idx; simp [bitsBelow, actAll_nil, fac, Nat.mod_one]
  | succ k ih =>
    intro ψ idx
    rw [bitsBelow_succ, mod_two_pow_succ_xor]
    cases hb : m.testBit k
    · simp only [Bool.false_eq_true, if_false, List.append_nil, Nat.xor_zero]
      exact ih ψ idx
    · simp only [if_true, List.map_append, List.map_cons, List.map_nil]
      rw [actAll_append, actAll_cons, actAll_nil, one_act, act1_adiag M h00 h11, ih, fac_append]
      have hc : fac M.m01 M.m10 (idx ^^^ 2 ^ k) (bitsBelow m k)
          = fac M.m01 M.m10 idx (bitsBelow m k) := by
        apply fac_congr
        intro a ha
        rw [mem_bitsBelow] at ha
        obtain ⟨i, hi, rfl, _⟩ := ha
        exact xor_two_pow_and_eq_zero_iff idx k i (by omega)
      have hx : idx ^^^ 2 ^ k ^^^ m % 2 ^ k = idx ^^^ (m % 2 ^ k ^^^ 2 ^ k) := by
        rw [Nat.xor_assoc, Nat.xor_comm (2 ^ k)]
      rw [hc, hx]
      simp only [fac]
      ring

theorem adiag_onEach (M : Mat2 R) (h00 : M.m00 = 0) (h11 : M.m11 = 0)
    (m : Nat) (hm : m < 2 ^ 64) (ψ : State R) (idx : Nat) :
    actAll (onEach M m) ψ idx
      = M.m10 ^ popcount (idx &&& m) * M.m01 ^ (popcount m - popcount (idx &&& m))
          * ψ (idx ^^^ m) := by
  have := adiag_below M h00 h11 m 64 ψ idx
  rw [Nat.mod_eq_of_lt hm] at this
  unfold onEach bitsOf W
  rw [this, fac_eq_pow]
  have h1 := cnt_bitsOf idx m hm
  have h2 := length_bitsOf m hm
  unfold bitsOf W at h1 h2
  rw [h1, h2]

theorem popcount_and_le (idx m : Nat) (hm : m < 2 ^ 64) : popcount (idx &&& m) ≤ popcount m := by
  rw [← cnt_bitsOf idx m hm, ← length_bitsOf m hm]; exact cnt_le _ _

/-! ### 4. closed forms of the MODEL side -/

theorem and_two_ne_zero_iff (q : Nat) : q &&& 2 ≠ 0 ↔ q / 2 % 2 = 1 := by
  have h := and_two_pow_eq_zero_iff q 1
  rw [Nat.testBit_eq_decide_div_mod_eq] at h
  simp only [Nat.pow_one] at h
  rw [Ne, h]
  simp

theorem and_one_ne_zero_iff (q : Nat) : q &&& 1 ≠ 0 ↔ q % 2 = 1 := by
  rw [Nat.and_one_is_mod]; omega

theorem rotate_eq_ite (z : Cx R) (q : Nat) :
    rotate z q = (if q % 2 = 1 then cI else 1) * ((if q / 2 % 2 = 1 then -1 else 1) * z) := by
  unfold rotate
  simp only [and_two_ne_zero_iff, and_one_ne_zero_iff]
  by_cases h1 : q % 2 = 1 <;> by_cases h2 : q / 2 % 2 = 1 <;>
    simp only [h1, h2, if_true, if_false, cI_mul, neg_one_mul', one_mul]

/-- `rotate z q = i^q · z` -/
theorem rotate_eq (z : Cx R) (q : Nat) : rotate z q = cI ^ q * z := by
  rw [rotate_eq_ite, pow_eq_of_mod cI 4 cI_pow_four q (q % 4) (by omega)]
  have h4 : q % 4 < 4 := Nat.mod_lt _ (by decide)
  rcases (by omega : q % 4 = 0 ∨ q % 4 = 1 ∨ q % 4 = 2 ∨ q % 4 = 3) with h | h | h | h
  · have h1 : ¬ q % 2 = 1 := by omega
    have h2 : ¬ q / 2 % 2 = 1 := by omega
    rw [h, if_neg h1, if_neg h2]; ring
  · have h1 : q % 2 = 1 := by omega
    have h2 : ¬ q / 2 % 2 = 1 := by omega
    rw [h, if_pos h1, if_neg h2]; ring
  · have h1 : ¬ q % 2 = 1 := by omega
    have h2 : q / 2 % 2 = 1 := by omega
    rw [h, if_neg h1, if_pos h2, cI_sq]; ring
  · have h1 : q % 2 = 1 := by omega
    have h2 : q / 2 % 2 = 1 := by omega
    have : (cI : Cx R) ^ 3 = cI * cI ^ 2 := by ring
    rw [h, if_pos h1, if_pos h2, this, cI_sq]; ring

/-- `(1 + i)/√2` -/
def cW : Cx R := ⟨Consts.invSqrt2, Consts.invSqrt2⟩

theorem cW_sq (hh : 2 * (Consts.invSqrt2 : R) * Consts.invSqrt2 = 1) : (cW : Cx R) ^ 2 = cI := by
  rw [pow_two]
  ext
  · simp [cW, cI]
  · simp only [cW, cI, Cx.mul_im]; rw [← hh]; ring

theorem cW_pow_eight (hh : 2 * (Consts.invSqrt2 : R) * Consts.invSqrt2 = 1) :
    (cW : Cx R) ^ 8 = 1 := by
  have : (cW : Cx R) ^ 8 = (cW ^ 2) ^ 4 := by ring
  rw [this, cW_sq hh, cI_pow_four]

theorem cW_conj (hh : 2 * (Consts.invSqrt2 : R) * Consts.invSqrt2 = 1) :
    (cW : Cx R).conj = cW ^ 7 := by
  have : (cW : Cx R) ^ 7 = cW * (cW ^ 2) ^ 3 := by ring
  rw [this, cW_sq hh, ← cNegI_eq]
  ext <;> simp [cW, cNegI]

theorem cI_conj : (cI : Cx R).conj = cI ^ 3 := by
  rw [← cNegI_eq]; rfl

/-- the body of the `t` kernel for an arbitrary count `q`: multiply by `w^q` -/
theorem t_core (hh : 2 * (Consts.invSqrt2 : R) * Consts.invSqrt2 = 1) (z : Cx R) (q : Nat) :
    (if (q &&& 1 == 1) = true then (⟨Consts.invSqrt2, Consts.invSqrt2⟩ : Cx R) * rotate z (q >>> 1)
      else rotate z (q >>> 1)) = cW ^ q * z := by
  rw [rotate_eq, Nat.shiftRight_eq_div_pow, Nat.pow_one, Nat.and_one_is_mod, ← cW_sq hh, ← pow_mul]
  show (if (q % 2 == 1) = true then cW * (cW ^ (2 * (q / 2)) * z) else cW ^ (2 * (q / 2)) * z) = _
  by_cases h : q % 2 = 1
  · have hq : q = 2 * (q / 2) + 1 := by omega
    rw [if_pos (by simpa using h)]
    conv_rhs => rw [hq]
    ring
  · have hq : q = 2 * (q / 2) := by omega
    rw [if_neg (by simpa using h)]
    conv_rhs => rw [hq]

/-! ### 5. word arithmetic -/

theorem negWord_mod4 (c : Nat) (_hc : c ≤ 64) : negWord c % 4 = (3 * c) % 4 := by
  unfold negWord W; omega

theorem negWord_mod8 (c : Nat) (_hc : c ≤ 64) : negWord c % 8 = (7 * c) % 8 := by
  unfold negWord W; omega

theorem xor_two_mod4 (x : Nat) : (x ^^^ 2) % 4 = (x + 2) % 4 := by
  have h : (x ^^^ 2) % 2 ^ 2 = x % 2 ^ 2 ^^^ 2 % 2 ^ 2 := Nat.xor_mod_two_pow ..
  have h4 : x % 4 < 4 := Nat.mod_lt _ (by decide)
  simp only [Nat.reducePow, Nat.reduceMod] at h
  rw [h]
  have e0 : (0 ^^^ 2 : Nat) = 2 := by decide
  have e1 : (1 ^^^ 2 : Nat) = 3 := by decide
  have e2 : (2 ^^^ 2 : Nat) = 0 := by decide
  have e3 : (3 ^^^ 2 : Nat) = 1 := by decide
  rcases (by omega : x % 4 = 0 ∨ x % 4 = 1 ∨ x % 4 = 2 ∨ x % 4 = 3) with h' | h' | h' | h'
  · rw [h', e0]; omega
  · rw [h', e1]; omega
  · rw [h', e2]; omega
  · rw [h', e3]; omega

theorem yIPow_mod4 (m : Nat) (_hk : popcount m ≤ 64) : yIPow m % 4 = (2 + 3 * popcount m) % 4 := by
  unfold yIPow; omega

end Multi

open Multi
attribute [local instance] Multi.cxCommRing

/-! ### 6. the main theorems -/

theorem x_multi (m : Nat) (h : m < 2 ^ 64) (ψ : State R) (idx : Nat) :
    (Atom.x m).op ψ idx = actAll (onEach matX m) ψ idx := by
  rw [adiag_onEach matX rfl rfl m h]
  show ψ (idx ^^^ m) = (1 : Cx R) ^ _ * (1 : Cx R) ^ _ * ψ (idx ^^^ m)
  rw [one_pow, one_pow, one_mul, one_mul]

theorem z_multi (m : Nat) (h : m < 2 ^ 64) (ψ : State R) (idx : Nat) :
    (Atom.z m).op ψ idx = actAll (onEach matZ m) ψ idx := by
  rw [diag_onEach matZ rfl rfl rfl m h]
  show (if Atom.oddParity idx m then -(ψ idx) else ψ idx) = (-1 : Cx R) ^ _ * ψ idx
  have hsq : (-1 : Cx R) ^ 2 = 1 := by ring
  rw [pow_eq_of_mod (-1) 2 hsq (popcount (idx &&& m)) (popcount (idx &&& m) % 2) (by omega)]
  unfold Atom.oddParity
  rcases Nat.mod_two_eq_zero_or_one (popcount (idx &&& m)) with h0 | h0 <;> rw [h0]
  · simp
  · simp

theorem s_multi (m : Nat) (h : m < 2 ^ 64) (ψ : State R) (idx : Nat) :
    (Atom.s m false).op ψ idx = actAll (onEach matS m) ψ idx := by
  rw [diag_onEach matS rfl rfl rfl m h]
  show rotate (ψ idx) (popcount (idx &&& m)) = cI ^ _ * ψ idx
  rw [rotate_eq]

theorem s_dgr_multi (m : Nat) (h : m < 2 ^ 64) (ψ : State R) (idx : Nat) :
    (Atom.s m true).op ψ idx = actAll (onEach matS.adj m) ψ idx := by
  have hc : popcount (idx &&& m) ≤ 64 :=
    popcount_lt_two_pow _ 64 (Nat.lt_of_le_of_lt Nat.and_le_right h)
  rw [diag_onEach matS.adj (by ext <;> simp [Mat2.adj, matS]) (by ext <;> simp [Mat2.adj, matS])
    (by ext <;> simp [Mat2.adj, matS]) m h]
  show rotate (ψ idx) (negWord (popcount (idx &&& m))) = (cI : Cx R).conj ^ _ * ψ idx
  rw [rotate_eq, cI_conj, ← pow_mul]
  congr 1
  apply pow_eq_of_mod cI 4 cI_pow_four
  rw [negWord_mod4 _ hc]

theorem t_multi (hh : 2 * (Consts.invSqrt2 : R) * Consts.invSqrt2 = 1)
    (m : Nat) (h : m < 2 ^ 64) (ψ : State R) (idx : Nat) :
    (Atom.t m false).op ψ idx = actAll (onEach matT m) ψ idx := by
  rw [diag_onEach matT rfl rfl rfl m h]
  exact t_core hh (ψ idx) (popcount (idx &&& m))

theorem t_dgr_multi (hh : 2 * (Consts.invSqrt2 : R) * Consts.invSqrt2 = 1)
    (m : Nat) (h : m < 2 ^ 64) (ψ : State R) (idx : Nat) :
    (Atom.t m true).op ψ idx = actAll (onEach matT.adj m) ψ idx := by
  have hc : popcount (idx &&& m) ≤ 64 :=
    popcount_lt_two_pow _ 64 (Nat.lt_of_le_of_lt Nat.and_le_right h)
  rw [diag_onEach matT.adj (by ext <;> simp [Mat2.adj, matT]) (by ext <;> simp [Mat2.adj, matT])
    (by ext <;> simp [Mat2.adj, matT]) m h]
  refine (t_core hh (ψ idx) (negWord (popcount (idx &&& m)))).trans ?_
  show _ = (cW : Cx R).conj ^ _ * ψ idx
  rw [cW_conj hh, ← pow_mul]
  congr 1
  apply pow_eq_of_mod cW 8 (cW_pow_eight hh)
  rw [negWord_mod8 _ hc]

theorem y_multi (m : Nat) (h : m < 2 ^ 64) (ψ : State R) (idx : Nat) :
    (Atom.y m (yIPow m)).op ψ idx = actAll (onEach matY m) ψ idx := by
  have hk : popcount m ≤ 64 := popcount_lt_two_pow _ 64 h
  have hle := popcount_and_le idx m h
  rw [adiag_onEach matY rfl rfl m h]
  show rotate (ψ (idx ^^^ m))
      (if (popcount (idx &&& m) % 2 == 0) = true then yIPow m ^^^ 2 else yIPow m)
    = cI ^ _ * cNegI ^ _ * ψ (idx ^^^ m)
  rw [rotate_eq, cNegI_eq, ← pow_mul, ← pow_add]
  congr 1
  apply pow_eq_of_mod cI 4 cI_pow_four
  have hy := yIPow_mod4 m hk
  have hx := xor_two_mod4 (yIPow m)
  by_cases hpar : popcount (idx &&& m) % 2 = 0
  · rw [if_pos (by simpa using hpar)]; omega
  · rw [if_neg (by simpa using hpar)]; omega

#print axioms x_multi
#print axioms z_multi
#print axioms s_multi
#print axioms s_dgr_multi
#print axioms t_multi
#print axioms t_dgr_multi
#print axioms y_multi

end Qvnt
