/-
The translated kernels (`Qvnt.Generated.Kernels`, regenerated from /repo by `tools/rs2lean.py`
on every run) are equal to the hand-written MODEL the property theorems are about.

Equality is over an arbitrary commutative ring: a rewrite of a kernel that keeps its meaning
over the reals (reordered operands, a different but equivalent bit test) still proves, a
change of its arithmetic does not.
-/
import Qvnt.Lemmas.GenKOps.id_op_eq
import Qvnt.Lemmas.GenKOps.x_op_eq
import Qvnt.Lemmas.GenKOps.y_op_eq
import Qvnt.Lemmas.GenKOps.z_op_eq
import Qvnt.Lemmas.GenKOps.s_op_eq
import Qvnt.Lemmas.GenKOps.t_op_eq
import Qvnt.Lemmas.GenKOps.rx_op_eq
import Qvnt.Lemmas.GenKOps.ry_op_eq
import Qvnt.Lemmas.GenKOps.rz_op_eq
import Qvnt.Lemmas.GenKOps.rxx_op_eq
import Qvnt.Lemmas.GenKOps.ryy_op_eq
import Qvnt.Lemmas.GenKOps.rzz_op_eq
import Qvnt.Lemmas.GenKOps.h1_op_eq
import Qvnt.Lemmas.GenKOps.h2_op_eq
import Qvnt.Lemmas.GenKOps.swap_op_eq
import Qvnt.Lemmas.GenKOps.i_swap_op_eq
import Qvnt.Lemmas.GenKOps.sqrt_swap_op_eq
import Qvnt.Lemmas.GenKOps.sqrt_i_swap_op_eq
