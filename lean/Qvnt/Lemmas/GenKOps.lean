/-
The translated kernels (`Qvnt.Generated.Kernels`, regenerated from /repo by `tools/rs2lean.py`
on every run) are equal to the hand-written MODEL the property theorems are about.

Equality is over an arbitrary commutative ring: a rewrite of a kernel that keeps its meaning
over the reals (reordered operands, a different but equivalent bit test) still proves, a
change of its arithmetic does not.
-/
import Qvnt.Lemmas.GenKTac

namespace Qvnt.Gen
open Qvnt

variable {R : Type}

section ops
variable [CommRing R] [Consts R]

theorem id_op_eq (ψ : State R) (idx : Nat) : Gen.id_op ψ idx = (Atom.id : Atom R).op ψ idx := by
  unfold Gen.id_op; kernel_eq
theorem x_op_eq (a : Nat) (ψ : State R) (idx : Nat) : Gen.x_op a ψ idx = (Atom.x a : Atom R).op ψ idx := by
  unfold Gen.x_op; kernel_eq
theorem y_op_eq (a p : Nat) (ψ : State R) (idx : Nat) : Gen.y_op a p ψ idx = (Atom.y a p : Atom R).op ψ idx := by
  unfold Gen.y_op; kernel_eq
theorem z_op_eq (a : Nat) (ψ : State R) (idx : Nat) : Gen.z_op a ψ idx = (Atom.z a : Atom R).op ψ idx := by
  unfold Gen.z_op; kernel_eq
theorem s_op_eq (a : Nat) (d : Bool) (ψ : State R) (idx : Nat) : Gen.s_op a d ψ idx = (Atom.s a d : Atom R).op ψ idx := by
  unfold Gen.s_op; kernel_eq
theorem t_op_eq (a : Nat) (d : Bool) (ψ : State R) (idx : Nat) : Gen.t_op a d ψ idx = (Atom.t a d : Atom R).op ψ idx := by
  unfold Gen.t_op; kernel_eq
theorem rx_op_eq (a : Nat) (ph : Cx R) (ψ : State R) (idx : Nat) : Gen.rx_op a ph ψ idx = (Atom.rx a ph).op ψ idx := by
  unfold Gen.rx_op; kernel_eq
theorem ry_op_eq (a : Nat) (ph : Cx R) (ψ : State R) (idx : Nat) : Gen.ry_op a ph ψ idx = (Atom.ry a ph).op ψ idx := by
  unfold Gen.ry_op; kernel_eq
theorem rz_op_eq (a : Nat) (ph : Cx R) (ψ : State R) (idx : Nat) : Gen.rz_op a ph ψ idx = (Atom.rz a ph).op ψ idx := by
  unfold Gen.rz_op; kernel_eq
theorem rxx_op_eq (a : Nat) (ph : Cx R) (ψ : State R) (idx : Nat) : Gen.rxx_op a ph ψ idx = (Atom.rxx a ph).op ψ idx := by
  unfold Gen.rxx_op; kernel_eq
theorem ryy_op_eq (a : Nat) (ph : Cx R) (ψ : State R) (idx : Nat) : Gen.ryy_op a ph ψ idx = (Atom.ryy a ph).op ψ idx := by
  unfold Gen.ryy_op; kernel_eq
theorem rzz_op_eq (a : Nat) (ph : Cx R) (ψ : State R) (idx : Nat) : Gen.rzz_op a ph ψ idx = (Atom.rzz a ph).op ψ idx := by
  unfold Gen.rzz_op; kernel_eq
theorem h1_op_eq (a : Nat) (ψ : State R) (idx : Nat) : Gen.h1_op a ψ idx = (Atom.h1 a : Atom R).op ψ idx := by
  unfold Gen.h1_op; kernel_eq
theorem h2_op_eq (a b ab : Nat) (ψ : State R) (idx : Nat) : Gen.h2_op a b ab ψ idx = (Atom.h2 a b ab : Atom R).op ψ idx := by
  unfold Gen.h2_op; kernel_eq
theorem swap_op_eq (ab : Nat) (ψ : State R) (idx : Nat) : Gen.swap_op ab ψ idx = (Atom.swap ab : Atom R).op ψ idx := by
  unfold Gen.swap_op; kernel_eq
theorem i_swap_op_eq (ab : Nat) (d : Bool) (ψ : State R) (idx : Nat) : Gen.i_swap_op ab d ψ idx = (Atom.iSwap ab d : Atom R).op ψ idx := by
  unfold Gen.i_swap_op; kernel_eq
theorem sqrt_swap_op_eq (ab : Nat) (d : Bool) (ψ : State R) (idx : Nat) : Gen.sqrt_swap_op ab d ψ idx = (Atom.sqrtSwap ab d : Atom R).op ψ idx := by
  unfold Gen.sqrt_swap_op; kernel_eq
theorem sqrt_i_swap_op_eq (ab : Nat) (d : Bool) (ψ : State R) (idx : Nat) : Gen.sqrt_i_swap_op ab d ψ idx = (Atom.sqrtISwap ab d : Atom R).op ψ idx := by
  unfold Gen.sqrt_i_swap_op; kernel_eq

end ops

end Qvnt.Gen
