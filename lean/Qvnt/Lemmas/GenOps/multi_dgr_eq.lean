/- `multi_dgr_eq` of GenOps.lean (one module per declaration, tools/lean_split.py) -/
import Qvnt.Generated.Regs
import Qvnt.Generated.Kernels
import Qvnt.Lemmas.Bits
import Mathlib.Tactic.Ring
import Mathlib.Algebra.Ring.Basic
import Qvnt.Lemmas.Queue
import Qvnt.Lemmas.GenOps.single_dgr_eq

set_option linter.unusedSectionVars false
namespace Qvnt.Gen2
open Qvnt Qvnt.Gen
variable {R : Type}
section ops
variable [CommRing R] [Consts R] [Div R] [LE R] [DecidableLE R] [LT R] [DecidableLT R] [HasSqrt R] [RegConsts R]

theorem multi_dgr_eq (o : MultiOp R) : multi_dgr o = MultiOp.dgr o := by
  simp [multi_dgr, MultiOp.dgr, single_dgr_eq]

end ops
end Qvnt.Gen2
