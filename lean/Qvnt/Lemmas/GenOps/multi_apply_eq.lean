/- `multi_apply_eq` of GenOps.lean (one module per declaration, tools/lean_split.py) -/
import Qvnt.Generated.Regs
import Qvnt.Generated.Kernels
import Qvnt.Lemmas.Bits
import Mathlib.Tactic.Ring
import Mathlib.Algebra.Ring.Basic
import Qvnt.Lemmas.Queue
import Qvnt.Lemmas.GenOps.single_apply_eq

set_option linter.unusedSectionVars false
namespace Qvnt.Gen2
open Qvnt Qvnt.Gen
variable {R : Type}
section ops
variable [CommRing R] [Consts R] [Div R] [LE R] [DecidableLE R] [LT R] [DecidableLT R] [HasSqrt R] [RegConsts R]

/-- `MultiOp::apply` with its buffer ping-pong: the translated function leaves in `psi_o` exactly what
the model's `applyArr` computes, for every queue whose control masks are machine words -/
theorem multi_apply_eq (o : MultiOp R) (hc : ∀ g ∈ o, g.ctrl < 2 ^ 64) (a : Array (Cx R)) (out : List (Cx R))
    (ho : out.length = a.size) :
    multi_apply o a.toList out = (MultiOp.applyArr o a).toList := by
  unfold multi_apply MultiOp.applyArr
  -- invariant of the fold: (psi_o, psi_i) = (scratch of the right length, current buffer)
  suffices h : ∀ (l : MultiOp R) (hl : ∀ g ∈ l, g.ctrl < 2 ^ 64) (cur : Array (Cx R)) (scr : List (Cx R)),
      scr.length = cur.size →
      (List.foldl (fun (st : List (Cx R) × List (Cx R)) (g : SingleOp R) =>
          (st.2, single_apply g st.2 st.1)) (scr, cur.toList) l).2 = (List.foldl (fun a g => g.applyArr a) cur l).toList by
    have := h o hc a out ho
    simpa using this
  intro l
  induction l with
  | nil => intro _ cur scr _; simp
  | cons g l ih =>
    intro hl cur scr hs
    simp only [List.foldl_cons]
    rw [single_apply_eq g (hl g (by simp)) cur scr hs]
    apply ih (fun g' hg' => hl g' (by simp [hg']))
    simp [SingleOp.applyArr]

end ops
end Qvnt.Gen2
