/- `x_ctrl` of GenOps.lean (one module per declaration, tools/lean_split.py) -/
import Qvnt.Generated.Regs
import Qvnt.Generated.Kernels
import Qvnt.Lemmas.Bits
import Mathlib.Tactic.Ring
import Mathlib.Algebra.Ring.Basic
import Qvnt.Lemmas.Queue

set_option linter.unusedSectionVars false
namespace Qvnt.Gen2
open Qvnt Qvnt.Gen
variable {R : Type}
section apply
variable [CommRing R] [Consts R] [Div R] [LE R] [DecidableLE R] [LT R] [DecidableLT R] [HasSqrt R] [RegConsts R]

theorem x_ctrl (v : Nat) : ∀ g ∈ (Op.x v : MultiOp R), g.ctrl < 2 ^ 64 := by
  intro g hg
  unfold Op.x MultiOp.ofSingle at hg
  split at hg
  · simp at hg
  · simp at hg; subst hg; simp [SingleOp.ofAtom]

end apply
end Qvnt.Gen2
