/- `single_apply_eq` of GenOps.lean (one module per declaration, tools/lean_split.py) -/
import Qvnt.Generated.Regs
import Qvnt.Generated.Kernels
import Qvnt.Lemmas.Bits
import Mathlib.Tactic.Ring
import Mathlib.Algebra.Ring.Basic
import Qvnt.Lemmas.GenCore.forEach_eq
import Qvnt.Lemmas.Queue
import Qvnt.Lemmas.GenPre.mapIdx_getElem

set_option linter.unusedSectionVars false
namespace Qvnt.Gen2
open Qvnt Qvnt.Gen
variable {R : Type}
section ops
variable [CommRing R] [Consts R] [Div R] [LE R] [DecidableLE R] [LT R] [DecidableLT R] [HasSqrt R] [RegConsts R]

/-- one sweep: the translated `SingleOp::apply` fills the output buffer with the model's `applyArr` -/
theorem single_apply_eq (g : SingleOp R) (hc : g.ctrl < 2 ^ 64) (a : Array (Cx R)) (o : List (Cx R))
    (ho : o.length = a.size) :
    single_apply g a.toList o = (g.applyArr a).toList := by
  unfold single_apply atomForEach SingleOp.applyArr
  apply List.ext_getElem
  · simp [Rs.mapIdx, Rs.enumerate, ho]
  · intro i h1 h2
    rw [mapIdx_getElem]
    simp only [Array.getElem_toList, Array.getElem_ofFn]
    have : (fun i => a.toList.getD i 0) = bufFn a := by
      funext j; simp [bufFn, List.getD_eq_getElem?_getD, Array.getD_eq_getD_getElem?]
    rw [this, forEach_eq g hc]

end ops
end Qvnt.Gen2
