/- `multi_c_eq` of GenOps.lean (one module per declaration, tools/lean_split.py) -/
import Qvnt.Generated.Regs
import Qvnt.Generated.Kernels
import Qvnt.Lemmas.Bits
import Mathlib.Tactic.Ring
import Mathlib.Algebra.Ring.Basic
import Qvnt.Lemmas.Queue
import Qvnt.Lemmas.GenOps.single_c_eq
import Qvnt.Lemmas.GenOps.multi_act_on_eq

set_option linter.unusedSectionVars false
namespace Qvnt.Gen2
open Qvnt Qvnt.Gen
variable {R : Type}
section ops
variable [CommRing R] [Consts R] [Div R] [LE R] [DecidableLE R] [LT R] [DecidableLT R] [HasSqrt R] [RegConsts R]

/-- `MultiOp::c`: the translated function never panics (the `unwrap` of every element succeeds whenever
the product's own test passed) and returns what the model returns -/
theorem multi_c_eq (o : MultiOp R) (cm : Nat) : multi_c o cm = some (MultiOp.c o cm) ∨
    (MultiOp.c o cm = none ∧ MultiOp.actOn o &&& cm = 0) := by
  unfold multi_c MultiOp.c
  rw [multi_act_on_eq]
  by_cases h : MultiOp.actOn o &&& cm = 0
  · simp only [h, bne_self_eq_false, Bool.false_eq_true, ↓reduceIte, ne_eq, not_true_eq_false]
    have hm : List.mapM (fun a1 => Option.bind (single_c a1 cm) fun u3 => some u3) o = List.mapM (fun g => g.c cm) o := by
      congr 1; funext g; simp [single_c_eq]
    rw [hm]
    cases hc : List.mapM (fun g => SingleOp.c g cm) o with
    | none => right; simp
    | some l => left; simp
  · left; simp [h]

end ops
end Qvnt.Gen2
