/- `multi_mul_assign_eq` of GenOps.lean (one module per declaration, tools/lean_split.py) -/
import Qvnt.Generated.Regs
import Qvnt.Generated.Kernels
import Qvnt.Lemmas.Bits
import Mathlib.Tactic.Ring
import Mathlib.Algebra.Ring.Basic
import Qvnt.Lemmas.Queue

set_option linter.unusedSectionVars false
namespace Qvnt.Gen2
open Qvnt Qvnt.Gen
variable {R : Type}
section ops
variable [CommRing R] [Consts R] [Div R] [LE R] [DecidableLE R] [LT R] [DecidableLT R] [HasSqrt R] [RegConsts R]

theorem multi_mul_assign_eq (a b : MultiOp R) : multi_mul_assign a b = MultiOp.mul a b := rfl

end ops
end Qvnt.Gen2
