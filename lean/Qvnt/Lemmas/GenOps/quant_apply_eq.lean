/- `quant_apply_eq` of GenOps.lean (one module per declaration, tools/lean_split.py) -/
import Qvnt.Generated.Regs
import Qvnt.Generated.Kernels
import Qvnt.Lemmas.Bits
import Mathlib.Tactic.Ring
import Mathlib.Algebra.Ring.Basic
import Qvnt.Lemmas.Queue
import Qvnt.Lemmas.GenPre.ofModel
import Qvnt.Lemmas.GenOps.multi_apply_eq

set_option linter.unusedSectionVars false
namespace Qvnt.Gen2
open Qvnt Qvnt.Gen
variable {R : Type}
section apply
variable [CommRing R] [Consts R] [Div R] [LE R] [DecidableLE R] [LT R] [DecidableLT R] [HasSqrt R] [RegConsts R]

/-- `QReg::apply` (the sequential arm; the parallel arm is its twin): scratch buffer, one `MultiOp::apply`, swap -/
theorem quant_apply_eq (r : QReg R) (o : MultiOp R) (hc : ∀ g ∈ o, g.ctrl < 2 ^ 64) :
    quant_apply (ofModel r) o = ofModel (r.apply o) := by
  unfold quant_apply QReg.apply
  simp only [ofModel]
  rw [multi_apply_eq o hc r.psi _ (by simp [Rs.resize])]

end apply
end Qvnt.Gen2
