/- `multi_act_on_eq` of GenOps.lean (one module per declaration, tools/lean_split.py) -/
import Qvnt.Generated.Regs
import Qvnt.Generated.Kernels
import Qvnt.Lemmas.Bits
import Mathlib.Tactic.Ring
import Mathlib.Algebra.Ring.Basic
import Qvnt.Lemmas.Queue

set_option linter.unusedSectionVars false
namespace Qvnt.Gen2
open Qvnt Qvnt.Gen
variable {R : Type}
section ops
variable [CommRing R] [Consts R] [Div R] [LE R] [DecidableLE R] [LT R] [DecidableLT R] [HasSqrt R] [RegConsts R]

theorem multi_act_on_eq (o : MultiOp R) : multi_act_on o = MultiOp.actOn o := rfl

end ops
end Qvnt.Gen2
