/- `gate_arm_u3_eq` of GenGates.lean (one module per declaration, tools/lean_split.py) -/
import Qvnt.Generated.Regs
import Qvnt.Lemmas.GenOps.multi_dgr_eq
import Qvnt.Lemmas.GenGates.fold_or_eq
import Qvnt.Lemmas.GenGates.count_bits_popcount

set_option linter.unusedSectionVars false
namespace Qvnt.Gen2
open Qvnt Qvnt.Gen Qvnt.Generated
variable {R : Type}
section arms
variable [CommRing R] [Consts R] [Div R] [LE R] [DecidableLE R] [LT R] [DecidableLT R] [HasSqrt R] [RegConsts R] [AngleFns R]

theorem gate_arm_u3_eq (name : String) (row : Row) (h : row.arm = .u3) (regs : List Nat) (args : List R) :
    gate_arm_u3 name ("constructor " ++ row.ctor) (fun a b c m => ctorApply "u3" [a, b, c] m) regs args
      = (runArm name row regs args).toE := by
  unfold gate_arm_u3 runArm
  simp only [h, count_bits_popcount]
  rw [fold_or_eq]
  by_cases h0 : popcount (regs.foldl (· ||| ·) 0) = 1
  · by_cases h1 : args.length = 3
    · obtain ⟨a, b, c, rfl⟩ : ∃ a b c, args = [a, b, c] := by
        rcases args with _ | ⟨a, _ | ⟨b, _ | ⟨c, _ | ⟨d, t⟩⟩⟩⟩ <;> simp at h1
        exact ⟨a, b, c, rfl⟩
      simp only [h0, bne_iff_ne, ne_eq, not_true_eq_false, ↓reduceIte, if_false, List.length_cons, List.length_nil,
        List.getD_cons_zero, List.getD_cons_succ]
      cases ctorApply "u3" [a, b, c] (regs.foldl (· ||| ·) 0) <;> rfl
    · simp [h0, h1, Res.toE]
  · simp [h0, Res.toE]

end arms
end Qvnt.Gen2
