/- `fold_or_eq` of GenGates.lean (one module per declaration, tools/lean_split.py) -/
import Qvnt.Generated.Regs
import Qvnt.Lemmas.GenOps.multi_dgr_eq

set_option linter.unusedSectionVars false
namespace Qvnt.Gen2
open Qvnt Qvnt.Gen Qvnt.Generated
variable {R : Type}
section arms
variable [CommRing R] [Consts R] [Div R] [LE R] [DecidableLE R] [LT R] [DecidableLT R] [HasSqrt R] [RegConsts R] [AngleFns R]

theorem fold_or_eq (regs : List Nat) :
    List.foldl (fun a1 a2 => (let acc := a1; let reg := a2; (acc ||| reg))) 0 regs = regs.foldl (· ||| ·) 0 := rfl

end arms
end Qvnt.Gen2
