/- `gate_arm_any_eq` of GenGates.lean (one module per declaration, tools/lean_split.py) -/
import Qvnt.Generated.Regs
import Qvnt.Lemmas.GenOps.multi_dgr_eq
import Qvnt.Lemmas.GenGates.fold_or_eq

set_option linter.unusedSectionVars false
namespace Qvnt.Gen2
open Qvnt Qvnt.Gen Qvnt.Generated
variable {R : Type}
section arms
variable [CommRing R] [Consts R] [Div R] [LE R] [DecidableLE R] [LT R] [DecidableLT R] [HasSqrt R] [RegConsts R] [AngleFns R]

theorem gate_arm_any_eq (name : String) (row : Row) (h : row.arm = .any) (regs : List Nat) (args : List R) :
    gate_arm_any name ("constructor " ++ row.ctor) (fun m => ctorApply row.ctor args m) regs args
      = (runArm name row regs args).toE := by
  unfold gate_arm_any runArm
  simp only [h]
  rw [fold_or_eq]
  by_cases h0 : regs.foldl (· ||| ·) 0 = 0
  · simp [h0, Res.toE]
  · by_cases h1 : args.length = 0
    · simp only [h0, h1, beq_iff_eq, bne_iff_ne, ne_eq, not_true_eq_false, ↓reduceIte, if_false]
      cases ctorApply row.ctor args (regs.foldl (· ||| ·) 0) <;> rfl
    · simp [h0, h1, Res.toE]

end arms
end Qvnt.Gen2
