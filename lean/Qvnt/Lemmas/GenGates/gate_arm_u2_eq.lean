/- `gate_arm_u2_eq` of GenGates.lean (one module per declaration, tools/lean_split.py) -/
import Qvnt.Generated.Regs
import Qvnt.Lemmas.GenOps.multi_dgr_eq
import Qvnt.Lemmas.GenGates.fold_or_eq
import Qvnt.Lemmas.GenGates.count_bits_popcount

set_option linter.unusedSectionVars false
namespace Qvnt.Gen2
open Qvnt Qvnt.Gen Qvnt.Generated
variable {R : Type}
section arms
variable [CommRing R] [Consts R] [Div R] [LE R] [DecidableLE R] [LT R] [DecidableLT R] [HasSqrt R] [RegConsts R] [AngleFns R]

theorem gate_arm_u2_eq (name : String) (row : Row) (h : row.arm = .u2) (regs : List Nat) (args : List R) :
    gate_arm_u2 name ("constructor " ++ row.ctor) (fun a b m => ctorApply "u2" [a, b] m) regs args = (runArm name row regs args).toE := by
  unfold gate_arm_u2 runArm
  simp only [h, count_bits_popcount]
  rw [fold_or_eq]
  by_cases h0 : popcount (regs.foldl (· ||| ·) 0) = 1
  · by_cases h1 : args.length = 2
    · obtain ⟨a, b, rfl⟩ : ∃ a b, args = [a, b] := by
        rcases args with _ | ⟨a, _ | ⟨b, _ | ⟨c, t⟩⟩⟩ <;> simp at h1
        exact ⟨a, b, rfl⟩
      simp only [h0, bne_iff_ne, ne_eq, not_true_eq_false, ↓reduceIte, if_false, List.length_cons, List.length_nil,
        List.getD_cons_zero, List.getD_cons_succ]
      cases ctorApply "u2" [a, b] (regs.foldl (· ||| ·) 0) <;> rfl
    · simp [h0, h1, Res.toE]
  · simp [h0, Res.toE]

end arms
end Qvnt.Gen2
