/- `count_bits_popcount` of GenGates.lean (one module per declaration, tools/lean_split.py) -/
import Qvnt.Generated.Regs
import Qvnt.Lemmas.GenOps.multi_dgr_eq

set_option linter.unusedSectionVars false
namespace Qvnt.Gen2
open Qvnt Qvnt.Gen Qvnt.Generated
variable {R : Type}
section arms
variable [CommRing R] [Consts R] [Div R] [LE R] [DecidableLE R] [LT R] [DecidableLT R] [HasSqrt R] [RegConsts R] [AngleFns R]

theorem count_bits_popcount (n : Nat) : Gen.count_bits n = popcount n := rfl

end arms
end Qvnt.Gen2
