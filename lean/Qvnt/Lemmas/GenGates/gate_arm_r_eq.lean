/- `gate_arm_r_eq` of GenGates.lean (one module per declaration, tools/lean_split.py) -/
import Qvnt.Generated.Regs
import Qvnt.Lemmas.GenOps.multi_dgr_eq
import Qvnt.Lemmas.GenGates.fold_or_eq
import Qvnt.Lemmas.GenGates.count_bits_popcount

set_option linter.unusedSectionVars false
namespace Qvnt.Gen2
open Qvnt Qvnt.Gen Qvnt.Generated
variable {R : Type}
section arms
variable [CommRing R] [Consts R] [Div R] [LE R] [DecidableLE R] [LT R] [DecidableLT R] [HasSqrt R] [RegConsts R] [AngleFns R]

theorem gate_arm_r_eq (name : String) (row : Row) (n : Nat) (h : row.arm = .r n) (regs : List Nat) (args : List R) :
    gate_arm_r name ("constructor " ++ row.ctor) (fun a m => ctorApply row.ctor [a] m) n regs args
      = (runArm name row regs args).toE := by
  unfold gate_arm_r runArm
  simp only [h, count_bits_popcount]
  rw [fold_or_eq]
  by_cases h0 : popcount (regs.foldl (· ||| ·) 0) = n
  · by_cases h1 : args.length = 1
    · obtain ⟨a, rfl⟩ := List.length_eq_one_iff.1 h1
      simp only [h0, bne_iff_ne, ne_eq, not_true_eq_false, ↓reduceIte, if_false, List.length_singleton, List.getD_cons_zero]
      cases ctorApply row.ctor [a] (regs.foldl (· ||| ·) 0) <;> rfl
    · simp [h0, h1, Res.toE]
  · simp [h0, Res.toE]

end arms
end Qvnt.Gen2
