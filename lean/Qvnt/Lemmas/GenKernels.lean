/- Umbrella: kernel equalities by kind (GenKOps: the arithmetic of every kernel; GenKFns: is_valid / acts_on / dgr; GenKCtor: Op::new) -/
import Qvnt.Lemmas.GenKOps
import Qvnt.Lemmas.GenKFns
import Qvnt.Lemmas.GenKCtor
