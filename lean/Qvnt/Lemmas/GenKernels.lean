/-
The translated kernels (`Qvnt.Generated.Kernels`, regenerated from /repo by `tools/rs2lean.py`
on every run) are equal to the hand-written MODEL the property theorems are about.

Equality is over an arbitrary commutative ring: a rewrite of a kernel that keeps its meaning
over the reals (reordered operands, a different but equivalent bit test) still proves, a
change of its arithmetic does not.
-/
import Qvnt.Lemmas.GenCore
import Mathlib.Tactic.Ring
import Mathlib.Algebra.Ring.Basic

namespace Qvnt.Gen
open Qvnt

variable {R : Type}

/-- `rfl`, after a case split on Boolean flags where needed -/
macro "cases_bool_rfl" : tactic =>
  `(tactic| first | rfl | (simp [Atom.isValid, Atom.dgr, Cx.conj]; done) | (unfold Atom.dgr Atom.isValid; simp_all; done))

section ops
variable [CommRing R] [Consts R]

/-- closes `generated kernel = model kernel` after unfolding: case split on every test, then
componentwise ring normalisation -/
macro "kernel_eq" : tactic =>
  `(tactic| (
    simp only [Atom.op, Atom.oddParity, rotate_eq, negWord_eq, Nat.and_one_is_mod, bne_iff_ne, beq_iff_eq,
      ne_eq, Bool.not_eq_true, decide_eq_true_eq]
    repeat' split
    all_goals first
      | rfl
      | (ext <;> simp <;> ring)
      | simp_all
      | omega))

theorem id_op_eq (ψ : State R) (idx : Nat) : Gen.id_op ψ idx = (Atom.id : Atom R).op ψ idx := by
  unfold Gen.id_op; kernel_eq
theorem x_op_eq (a : Nat) (ψ : State R) (idx : Nat) : Gen.x_op a ψ idx = (Atom.x a : Atom R).op ψ idx := by
  unfold Gen.x_op; kernel_eq
theorem y_op_eq (a p : Nat) (ψ : State R) (idx : Nat) : Gen.y_op a p ψ idx = (Atom.y a p : Atom R).op ψ idx := by
  unfold Gen.y_op; kernel_eq
theorem z_op_eq (a : Nat) (ψ : State R) (idx : Nat) : Gen.z_op a ψ idx = (Atom.z a : Atom R).op ψ idx := by
  unfold Gen.z_op; kernel_eq
theorem s_op_eq (a : Nat) (d : Bool) (ψ : State R) (idx : Nat) : Gen.s_op a d ψ idx = (Atom.s a d : Atom R).op ψ idx := by
  unfold Gen.s_op; kernel_eq
theorem t_op_eq (a : Nat) (d : Bool) (ψ : State R) (idx : Nat) : Gen.t_op a d ψ idx = (Atom.t a d : Atom R).op ψ idx := by
  unfold Gen.t_op; kernel_eq
theorem rx_op_eq (a : Nat) (ph : Cx R) (ψ : State R) (idx : Nat) : Gen.rx_op a ph ψ idx = (Atom.rx a ph).op ψ idx := by
  unfold Gen.rx_op; kernel_eq
theorem ry_op_eq (a : Nat) (ph : Cx R) (ψ : State R) (idx : Nat) : Gen.ry_op a ph ψ idx = (Atom.ry a ph).op ψ idx := by
  unfold Gen.ry_op; kernel_eq
theorem rz_op_eq (a : Nat) (ph : Cx R) (ψ : State R) (idx : Nat) : Gen.rz_op a ph ψ idx = (Atom.rz a ph).op ψ idx := by
  unfold Gen.rz_op; kernel_eq
theorem rxx_op_eq (a : Nat) (ph : Cx R) (ψ : State R) (idx : Nat) : Gen.rxx_op a ph ψ idx = (Atom.rxx a ph).op ψ idx := by
  unfold Gen.rxx_op; kernel_eq
theorem ryy_op_eq (a : Nat) (ph : Cx R) (ψ : State R) (idx : Nat) : Gen.ryy_op a ph ψ idx = (Atom.ryy a ph).op ψ idx := by
  unfold Gen.ryy_op; kernel_eq
theorem rzz_op_eq (a : Nat) (ph : Cx R) (ψ : State R) (idx : Nat) : Gen.rzz_op a ph ψ idx = (Atom.rzz a ph).op ψ idx := by
  unfold Gen.rzz_op; kernel_eq
theorem h1_op_eq (a : Nat) (ψ : State R) (idx : Nat) : Gen.h1_op a ψ idx = (Atom.h1 a : Atom R).op ψ idx := by
  unfold Gen.h1_op; kernel_eq
theorem h2_op_eq (a b ab : Nat) (ψ : State R) (idx : Nat) : Gen.h2_op a b ab ψ idx = (Atom.h2 a b ab : Atom R).op ψ idx := by
  unfold Gen.h2_op; kernel_eq
theorem swap_op_eq (ab : Nat) (ψ : State R) (idx : Nat) : Gen.swap_op ab ψ idx = (Atom.swap ab : Atom R).op ψ idx := by
  unfold Gen.swap_op; kernel_eq
theorem i_swap_op_eq (ab : Nat) (d : Bool) (ψ : State R) (idx : Nat) : Gen.i_swap_op ab d ψ idx = (Atom.iSwap ab d : Atom R).op ψ idx := by
  unfold Gen.i_swap_op; kernel_eq
theorem sqrt_swap_op_eq (ab : Nat) (d : Bool) (ψ : State R) (idx : Nat) : Gen.sqrt_swap_op ab d ψ idx = (Atom.sqrtSwap ab d : Atom R).op ψ idx := by
  unfold Gen.sqrt_swap_op; kernel_eq
theorem sqrt_i_swap_op_eq (ab : Nat) (d : Bool) (ψ : State R) (idx : Nat) : Gen.sqrt_i_swap_op ab d ψ idx = (Atom.sqrtISwap ab d : Atom R).op ψ idx := by
  unfold Gen.sqrt_i_swap_op; kernel_eq

end ops

/-! ### `is_valid`, `acts_on`, `dgr`: equal to the model's by unfolding -/
section fns

theorem id_isValid_eq : Gen.id_isValid  = (Atom.id : Atom R).isValid := by cases_bool_rfl
theorem id_actsOn_eq : Gen.id_actsOn  = (Atom.id : Atom R).actsOn := rfl
theorem id_dgr_eq [Neg R] : (Gen.id_dgr  : Atom R) = (Atom.id : Atom R).dgr := by cases_bool_rfl
theorem x_isValid_eq (a : Nat) : Gen.x_isValid a = (Atom.x a : Atom R).isValid := by cases_bool_rfl
theorem x_actsOn_eq (a : Nat) : Gen.x_actsOn a = (Atom.x a : Atom R).actsOn := rfl
theorem x_dgr_eq [Neg R] (a : Nat) : (Gen.x_dgr a : Atom R) = (Atom.x a : Atom R).dgr := by cases_bool_rfl
theorem y_isValid_eq (a : Nat) (p : Nat) : Gen.y_isValid a p = (Atom.y a p : Atom R).isValid := by cases_bool_rfl
theorem y_actsOn_eq (a : Nat) (p : Nat) : Gen.y_actsOn a p = (Atom.y a p : Atom R).actsOn := rfl
theorem y_dgr_eq [Neg R] (a : Nat) (p : Nat) : (Gen.y_dgr a p : Atom R) = (Atom.y a p : Atom R).dgr := by cases_bool_rfl
theorem z_isValid_eq (a : Nat) : Gen.z_isValid a = (Atom.z a : Atom R).isValid := by cases_bool_rfl
theorem z_actsOn_eq (a : Nat) : Gen.z_actsOn a = (Atom.z a : Atom R).actsOn := rfl
theorem z_dgr_eq [Neg R] (a : Nat) : (Gen.z_dgr a : Atom R) = (Atom.z a : Atom R).dgr := by cases_bool_rfl
theorem s_isValid_eq (a : Nat) (d : Bool) : Gen.s_isValid a d = (Atom.s a d : Atom R).isValid := by cases_bool_rfl
theorem s_actsOn_eq (a : Nat) (d : Bool) : Gen.s_actsOn a d = (Atom.s a d : Atom R).actsOn := rfl
theorem s_dgr_eq [Neg R] (a : Nat) (d : Bool) : (Gen.s_dgr a d : Atom R) = (Atom.s a d : Atom R).dgr := by cases_bool_rfl
theorem t_isValid_eq (a : Nat) (d : Bool) : Gen.t_isValid a d = (Atom.t a d : Atom R).isValid := by cases_bool_rfl
theorem t_actsOn_eq (a : Nat) (d : Bool) : Gen.t_actsOn a d = (Atom.t a d : Atom R).actsOn := rfl
theorem t_dgr_eq [Neg R] (a : Nat) (d : Bool) : (Gen.t_dgr a d : Atom R) = (Atom.t a d : Atom R).dgr := by cases_bool_rfl
theorem rx_isValid_eq (a : Nat) (ph : Cx R) : Gen.rx_isValid a ph = (Atom.rx a ph : Atom R).isValid := by cases_bool_rfl
theorem rx_actsOn_eq (a : Nat) (ph : Cx R) : Gen.rx_actsOn a ph = (Atom.rx a ph : Atom R).actsOn := rfl
theorem rx_dgr_eq [Neg R] (a : Nat) (ph : Cx R) : (Gen.rx_dgr a ph : Atom R) = (Atom.rx a ph : Atom R).dgr := by cases_bool_rfl
theorem ry_isValid_eq (a : Nat) (ph : Cx R) : Gen.ry_isValid a ph = (Atom.ry a ph : Atom R).isValid := by cases_bool_rfl
theorem ry_actsOn_eq (a : Nat) (ph : Cx R) : Gen.ry_actsOn a ph = (Atom.ry a ph : Atom R).actsOn := rfl
theorem ry_dgr_eq [Neg R] (a : Nat) (ph : Cx R) : (Gen.ry_dgr a ph : Atom R) = (Atom.ry a ph : Atom R).dgr := by cases_bool_rfl
theorem rz_isValid_eq (a : Nat) (ph : Cx R) : Gen.rz_isValid a ph = (Atom.rz a ph : Atom R).isValid := by cases_bool_rfl
theorem rz_actsOn_eq (a : Nat) (ph : Cx R) : Gen.rz_actsOn a ph = (Atom.rz a ph : Atom R).actsOn := rfl
theorem rz_dgr_eq [Neg R] (a : Nat) (ph : Cx R) : (Gen.rz_dgr a ph : Atom R) = (Atom.rz a ph : Atom R).dgr := by cases_bool_rfl
theorem rxx_isValid_eq (a : Nat) (ph : Cx R) : Gen.rxx_isValid a ph = (Atom.rxx a ph : Atom R).isValid := by cases_bool_rfl
theorem rxx_actsOn_eq (a : Nat) (ph : Cx R) : Gen.rxx_actsOn a ph = (Atom.rxx a ph : Atom R).actsOn := rfl
theorem rxx_dgr_eq [Neg R] (a : Nat) (ph : Cx R) : (Gen.rxx_dgr a ph : Atom R) = (Atom.rxx a ph : Atom R).dgr := by cases_bool_rfl
theorem ryy_isValid_eq (a : Nat) (ph : Cx R) : Gen.ryy_isValid a ph = (Atom.ryy a ph : Atom R).isValid := by cases_bool_rfl
theorem ryy_actsOn_eq (a : Nat) (ph : Cx R) : Gen.ryy_actsOn a ph = (Atom.ryy a ph : Atom R).actsOn := rfl
theorem ryy_dgr_eq [Neg R] (a : Nat) (ph : Cx R) : (Gen.ryy_dgr a ph : Atom R) = (Atom.ryy a ph : Atom R).dgr := by cases_bool_rfl
theorem rzz_isValid_eq (a : Nat) (ph : Cx R) : Gen.rzz_isValid a ph = (Atom.rzz a ph : Atom R).isValid := by cases_bool_rfl
theorem rzz_actsOn_eq (a : Nat) (ph : Cx R) : Gen.rzz_actsOn a ph = (Atom.rzz a ph : Atom R).actsOn := rfl
theorem rzz_dgr_eq [Neg R] (a : Nat) (ph : Cx R) : (Gen.rzz_dgr a ph : Atom R) = (Atom.rzz a ph : Atom R).dgr := by cases_bool_rfl
theorem h1_isValid_eq (a : Nat) : Gen.h1_isValid a = (Atom.h1 a : Atom R).isValid := by cases_bool_rfl
theorem h1_actsOn_eq (a : Nat) : Gen.h1_actsOn a = (Atom.h1 a : Atom R).actsOn := rfl
theorem h1_dgr_eq [Neg R] (a : Nat) : (Gen.h1_dgr a : Atom R) = (Atom.h1 a : Atom R).dgr := by cases_bool_rfl
theorem h2_isValid_eq (a : Nat) (b : Nat) (ab : Nat) : Gen.h2_isValid a b ab = (Atom.h2 a b ab : Atom R).isValid := by cases_bool_rfl
theorem h2_actsOn_eq (a : Nat) (b : Nat) (ab : Nat) : Gen.h2_actsOn a b ab = (Atom.h2 a b ab : Atom R).actsOn := rfl
theorem h2_dgr_eq [Neg R] (a : Nat) (b : Nat) (ab : Nat) : (Gen.h2_dgr a b ab : Atom R) = (Atom.h2 a b ab : Atom R).dgr := by cases_bool_rfl
theorem swap_isValid_eq (a : Nat) : Gen.swap_isValid a = (Atom.swap a : Atom R).isValid := by cases_bool_rfl
theorem swap_actsOn_eq (a : Nat) : Gen.swap_actsOn a = (Atom.swap a : Atom R).actsOn := rfl
theorem swap_dgr_eq [Neg R] (a : Nat) : (Gen.swap_dgr a : Atom R) = (Atom.swap a : Atom R).dgr := by cases_bool_rfl
theorem i_swap_isValid_eq (a : Nat) (d : Bool) : Gen.i_swap_isValid a d = (Atom.iSwap a d : Atom R).isValid := by cases_bool_rfl
theorem i_swap_actsOn_eq (a : Nat) (d : Bool) : Gen.i_swap_actsOn a d = (Atom.iSwap a d : Atom R).actsOn := rfl
theorem i_swap_dgr_eq [Neg R] (a : Nat) (d : Bool) : (Gen.i_swap_dgr a d : Atom R) = (Atom.iSwap a d : Atom R).dgr := by cases_bool_rfl
theorem sqrt_swap_isValid_eq (a : Nat) (d : Bool) : Gen.sqrt_swap_isValid a d = (Atom.sqrtSwap a d : Atom R).isValid := by cases_bool_rfl
theorem sqrt_swap_actsOn_eq (a : Nat) (d : Bool) : Gen.sqrt_swap_actsOn a d = (Atom.sqrtSwap a d : Atom R).actsOn := rfl
theorem sqrt_swap_dgr_eq [Neg R] (a : Nat) (d : Bool) : (Gen.sqrt_swap_dgr a d : Atom R) = (Atom.sqrtSwap a d : Atom R).dgr := by cases_bool_rfl
theorem sqrt_i_swap_isValid_eq (a : Nat) (d : Bool) : Gen.sqrt_i_swap_isValid a d = (Atom.sqrtISwap a d : Atom R).isValid := by cases_bool_rfl
theorem sqrt_i_swap_actsOn_eq (a : Nat) (d : Bool) : Gen.sqrt_i_swap_actsOn a d = (Atom.sqrtISwap a d : Atom R).actsOn := rfl
theorem sqrt_i_swap_dgr_eq [Neg R] (a : Nat) (d : Bool) : (Gen.sqrt_i_swap_dgr a d : Atom R) = (Atom.sqrtISwap a d : Atom R).dgr := by cases_bool_rfl
end fns


/-! ### constructors `Op::new` -/
section ctor
theorem x_new_eq (a : Nat) : (Gen.x_new a : Atom R) = .x a := rfl
theorem y_new_eq (a : Nat) : (Gen.y_new a : Atom R) = .y a (yIPow a) := by
  unfold Gen.y_new; simp only [yIPow_eq]
theorem z_new_eq (a : Nat) : (Gen.z_new a : Atom R) = .z a := rfl
theorem s_new_eq (a : Nat) : (Gen.s_new a : Atom R) = .s a false := rfl
theorem t_new_eq (a : Nat) : (Gen.t_new a : Atom R) = .t a false := rfl
theorem h1_new_eq (a : Nat) : (Gen.h1_new a : Atom R) = .h1 a := rfl
theorem h2_new_eq (a b : Nat) : (Gen.h2_new a b : Atom R) = .h2 a b (a ||| b) := rfl
theorem swap_new_eq (a : Nat) : (Gen.swap_new a : Atom R) = .swap a := rfl
theorem i_swap_new_eq (a : Nat) : (Gen.i_swap_new a : Atom R) = .iSwap a false := rfl
theorem sqrt_swap_new_eq (a : Nat) : (Gen.sqrt_swap_new a : Atom R) = .sqrtSwap a false := rfl
theorem sqrt_i_swap_new_eq (a : Nat) : (Gen.sqrt_i_swap_new a : Atom R) = .sqrtISwap a false := rfl
variable [Div R] [Mul R] [Consts R] [Trig R]
theorem rx_new_eq (a : Nat) (θ : R) : Gen.rx_new a θ = .rx a (halfPhaseDiv θ) := rfl
theorem ry_new_eq (a : Nat) (θ : R) : Gen.ry_new a θ = .ry a (halfPhaseDiv θ) := rfl
theorem rz_new_eq (a : Nat) (θ : R) : Gen.rz_new a θ = .rz a (halfPhaseDiv θ) := rfl
theorem rxx_new_eq (a : Nat) (θ : R) : Gen.rxx_new a θ = .rxx a (halfPhaseMul θ) := rfl
theorem ryy_new_eq (a : Nat) (θ : R) : Gen.ryy_new a θ = .ryy a (halfPhaseDiv θ) := rfl
theorem rzz_new_eq (a : Nat) (θ : R) : Gen.rzz_new a θ = .rzz a (halfPhaseDiv θ) := rfl
end ctor

/-! ### the sweep of `dispatch.rs` -/
end Qvnt.Gen
