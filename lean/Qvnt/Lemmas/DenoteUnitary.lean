/-
LEMMAS — every spec gate `Spec.denote` produces is well-formed (distinct single-bit targets,
disjoint from the controls) and unitary, provided all half-angle phases lie on the unit circle.
Consequently the dagger circuit is the inverse circuit, and the squared norm is preserved.
-/
import Qvnt.Lemmas.Refine
import Qvnt.Lemmas.Norm

namespace Qvnt
open Qvnt.Spec

variable {R : Type} [CommRing R] [Consts R]

/-- `z` is on the unit circle (`z = (cos t, sin t)`) -/
def Cx.IsUnitPhase (z : Cx R) : Prop := z.re * z.re + z.im * z.im = 1

/-- every half-angle phase written in the program is on the unit circle -/
def OpExpr.UnitPhases : OpExpr R → Prop
  | .rot1 _ ph _ => Cx.IsUnitPhase ph
  | .rot2 _ ph _ => Cx.IsUnitPhase ph
  | .u3 the phi lam _ => Cx.IsUnitPhase the ∧ Cx.IsUnitPhase phi ∧ Cx.IsUnitPhase lam
  | .c _ e => e.UnitPhases
  | .dgr e => e.UnitPhases
  | .mul a b => a.UnitPhases ∧ b.UnitPhases
  | _ => True

/-- all gates of the circuit are well-formed and unitary -/
def GoodGates (gs : List (SGate R)) : Prop := ∀ g ∈ gs, g.WF ∧ g.IsUnitary

omit [Consts R] in
theorem GoodGates.nil : GoodGates ([] : List (SGate R)) := fun _ h => by simp at h

omit [Consts R] in
theorem GoodGates.cons {g : SGate R} {gs : List (SGate R)} (h : g.WF ∧ g.IsUnitary)
    (hs : GoodGates gs) : GoodGates (g :: gs) := by
  intro g' hg'
  rcases List.mem_cons.1 hg' with rfl | hg'
  · exact h
  · exact hs g' hg'

omit [Consts R] in
theorem GoodGates.append {a b : List (SGate R)} (ha : GoodGates a) (hb : GoodGates b) :
    GoodGates (a ++ b) := by
  intro g hg
  rcases List.mem_append.1 hg with h | h
  · exact ha g h
  · exact hb g h

omit [Consts R] in
theorem GoodGates.adjAll {gs : List (SGate R)} (h : GoodGates gs) : GoodGates (adjAll gs) := by
  intro g hg
  obtain ⟨g0, hg0, rfl⟩ := mem_adjAll.1 hg
  exact ⟨SGate.adj_WF g0 (h g0 hg0).1, SGate.adj_isUnitary g0 (h g0 hg0).2⟩

omit [Consts R] in
theorem good_plain_one (M : Mat2 R) (hM : M.IsUnitary) (i : Nat) :
    (plain (.one M (2 ^ i)) : SGate R).WF ∧ (plain (.one M (2 ^ i)) : SGate R).IsUnitary :=
  ⟨⟨⟨i, rfl⟩, Nat.zero_and _⟩, hM⟩

omit [Consts R] in
theorem good_plain_two (M : Mat4 R) (hM : Mat4.IsUnitary M) (i j : Nat) (hij : i ≠ j) :
    (plain (.two M (2 ^ i) (2 ^ j)) : SGate R).WF ∧
      (plain (.two M (2 ^ i) (2 ^ j)) : SGate R).IsUnitary :=
  ⟨⟨⟨i, j, hij, rfl, rfl⟩, Nat.zero_and _⟩, hM⟩

omit [Consts R] in
theorem good_idle : (plain .idle : SGate R).WF ∧ (plain .idle : SGate R).IsUnitary :=
  ⟨trivial, trivial⟩

omit [Consts R] in
theorem onEach_good (M : Mat2 R) (hM : M.IsUnitary) (m : Nat) : GoodGates (onEach M m) := by
  intro g hg
  obtain ⟨a, ha, rfl⟩ := List.mem_map.1 hg
  obtain ⟨i, _, rfl, _⟩ := (mem_bitsOf m a).1 ha
  exact good_plain_one M hM i

theorem mat1_unitary (hs : 2 * (Consts.invSqrt2 : R) * Consts.invSqrt2 = 1) (k : G1) :
    (mat1 k : Mat2 R).IsUnitary := by
  cases k
  · exact matX_unitary
  · exact matY_unitary
  · exact matZ_unitary
  · exact matS_unitary
  · exact matT_unitary hs
  · exact matH_unitary hs

omit [Consts R] in
theorem matRot1_unitary (k : Rot1) (ph : Cx R) (hu : Cx.IsUnitPhase ph) :
    (matRot1 k ph).IsUnitary := by
  cases k
  · exact matRX_unitary _ _ hu
  · exact matRY_unitary _ _ hu
  · exact matRZ_unitary _ _ hu
  · exact matRZ_unitary _ _ hu

omit [Consts R] in
theorem matRot2_unitary (k : Rot2) (ph : Cx R) (hu : Cx.IsUnitPhase ph) :
    Mat4.IsUnitary (matRot2 k ph) := by
  cases k
  · exact matRXX_unitary _ _ hu
  · exact matRYY_unitary _ _ hu
  · exact matRZZ_unitary _ _ hu

theorem matTwo_unitary (hs : 2 * (Consts.invSqrt2 : R) * Consts.invSqrt2 = 1)
    (hh : 2 * (Consts.half : R) = 1) (k : Two) : Mat4.IsUnitary (matTwo k : Mat4 R) := by
  cases k
  · exact matSwap_unitary
  · exact matSqrtSwap_unitary hh
  · exact matISwap_unitary
  · exact matSqrtISwap_unitary hs

theorem qftCircuit_good (hs : 2 * (Consts.invSqrt2 : R) * Consts.invSqrt2 = 1)
    (phaseOf : QftPhases R) (hp : ∀ j, Cx.IsUnitPhase (phaseOf j)) (v : List Nat)
    (hv : BitList v) : GoodGates (qftCircuit phaseOf v) := by
  intro g hg
  unfold qftCircuit at hg
  obtain ⟨i, hi, hg⟩ := List.mem_flatMap.1 hg
  have hi' := List.mem_range.1 hi
  rcases List.mem_cons.1 hg with rfl | hg
  · obtain ⟨a, ha⟩ := hv.getD_pow hi'
    rw [ha]
    exact good_plain_one _ (matH_unitary hs) a
  · obtain ⟨k, hk, hg⟩ := List.mem_flatMap.1 hg
    have hk' := List.mem_range.1 hk
    simp only [List.mem_cons, List.not_mem_nil, or_false] at hg
    rcases hg with rfl | rfl
    · obtain ⟨a, b, hab, ha, hb⟩ :=
        hv.getD_two (i := i) (j := i + k + 1) (by omega) (by omega) (by omega)
      rw [ha, hb]
      exact ⟨⟨⟨b, rfl⟩, KBits.two_pow_and_two_pow hab⟩, matRZ_unitary _ _ (hp _)⟩
    · obtain ⟨a, ha⟩ := hv.getD_pow hi'
      rw [ha]
      exact good_plain_one _ (matRZ_unitary _ _ (hp _)) a

omit [Consts R] in
theorem reverseCircuit_good (v : List Nat) (hv : BitList v) :
    GoodGates (reverseCircuit v : List (SGate R)) := by
  intro g hg
  unfold reverseCircuit at hg
  obtain ⟨i, hi, rfl⟩ := List.mem_map.1 hg
  have hi' := List.mem_range.1 hi
  obtain ⟨a, b, hab, ha, hb⟩ :=
    hv.getD_two (i := i) (j := v.length - 1 - i) (by omega) (by omega) (by omega)
  rw [ha, hb]
  exact good_plain_two _ matSwap_unitary a b hab

omit [Consts R] in
/-- adding controls that avoid the gate keeps it well-formed and unitary -/
theorem good_addCtrl (g : SGate R) (m : Nat) (h : g.WF ∧ g.IsUnitary) (hd : g.support &&& m = 0) :
    (g.addCtrl m).WF ∧ (g.addCtrl m).IsUnitary := by
  obtain ⟨c, p⟩ := g
  refine ⟨?_, h.2⟩
  cases p with
  | idle => trivial
  | one M a =>
    obtain ⟨hpow, hc⟩ := h.1
    have hm : a &&& m = 0 := ((or_and_eq_zero_iff c a m).1 hd).2
    refine ⟨hpow, ?_⟩
    show (c ||| m) &&& a = 0
    rw [or_and_eq_zero_iff]
    exact ⟨hc, by rw [Nat.and_comm]; exact hm⟩
  | two M a b =>
    obtain ⟨hpow, hc⟩ := h.1
    have hm : (a ||| b) &&& m = 0 := ((or_and_eq_zero_iff c (a ||| b) m).1 hd).2
    refine ⟨hpow, ?_⟩
    show (c ||| m) &&& (a ||| b) = 0
    rw [or_and_eq_zero_iff]
    exact ⟨hc, by rw [Nat.and_comm]; exact hm⟩

/-- **Every prescribed gate is a well-formed unitary.** -/
theorem denote_good (hs : 2 * (Consts.invSqrt2 : R) * Consts.invSqrt2 = 1)
    (hh : 2 * (Consts.half : R) = 1) (phaseOf : QftPhases R)
    (hp : ∀ j, Cx.IsUnitPhase (phaseOf j)) (e : OpExpr R) (hw : e.WordOK) (hu : e.UnitPhases) :
    ∀ gs supp, denote phaseOf e = .ok gs supp → GoodGates gs := by
  induction e with
  | id =>
    intro gs supp hd
    rw [denote] at hd
    injection hd with h1 h2
    subst h1; exact GoodGates.nil
  | g1 k m =>
    intro gs supp hd
    by_cases hk : k = .h
    · subst hk
      rw [denote] at hd
      injection hd with h1 h2
      subst h1; exact onEach_good _ (matH_unitary hs) m
    · rw [denote_g1 phaseOf k hk m] at hd
      injection hd with h1 h2
      subst h1
      unfold g1Circuit
      split
      · exact GoodGates.cons good_idle GoodGates.nil
      · exact onEach_good _ (mat1_unitary hs k) m
  | rot1 k ph a =>
    intro gs supp hd
    rcases oneBit_cases a hw with ⟨_, i, rfl, ho⟩ | ⟨_, ho⟩
    · simp only [denote, ho] at hd
      injection hd with h1 h2
      subst h1
      exact GoodGates.cons (good_plain_one _ (matRot1_unitary k ph hu) i) GoodGates.nil
    · simp only [denote, ho] at hd
      cases hd
  | rot2 k ph ab =>
    intro gs supp hd
    rcases twoBits_cases ab hw with ⟨_, i, j, hij, rfl, ho⟩ | ⟨_, ho⟩
    · simp only [denote, ho] at hd
      injection hd with h1 h2
      subst h1
      exact GoodGates.cons (good_plain_two _ (matRot2_unitary k ph hu) i j hij) GoodGates.nil
    · simp only [denote, ho] at hd
      cases hd
  | two k ab =>
    intro gs supp hd
    rcases twoBits_cases ab hw with ⟨_, i, j, hij, rfl, ho⟩ | ⟨_, ho⟩
    · simp only [denote, ho] at hd
      injection hd with h1 h2
      subst h1
      exact GoodGates.cons (good_plain_two _ (matTwo_unitary hs hh k) i j hij) GoodGates.nil
    · simp only [denote, ho] at hd
      cases hd
  | u3 the phi lam a =>
    intro gs supp hd
    rcases oneBit_cases a hw with ⟨_, i, rfl, ho⟩ | ⟨_, ho⟩
    · simp only [denote, ho] at hd
      injection hd with h1 h2
      subst h1
      exact GoodGates.cons (good_plain_one _ (matRZ_unitary _ _ hu.2.2) i)
        (GoodGates.cons (good_plain_one _ (matRY_unitary _ _ hu.1) i)
          (GoodGates.cons (good_plain_one _ (matRZ_unitary _ _ hu.2.1) i) GoodGates.nil))
    · simp only [denote, ho] at hd
      cases hd
  | qft m =>
    intro gs supp hd
    rw [denote] at hd
    injection hd with h1 h2
    subst h1
    exact qftCircuit_good hs phaseOf hp _ (bitList_bitsOf m)
  | qftSwapped m =>
    intro gs supp hd
    rw [denote] at hd
    injection hd with h1 h2
    subst h1
    exact GoodGates.append (reverseCircuit_good _ (bitList_bitsOf m))
      (qftCircuit_good hs phaseOf hp _ (bitList_bitsOf m))
  | c m e ih =>
    intro gs supp hd
    rw [denote] at hd
    cases hde : denote phaseOf e with
    | refused => rw [hde] at hd; cases hd
    | panic => rw [hde] at hd; cases hd
    | ok gs0 s0 =>
      rw [hde] at hd
      have ih0 := ih hw.2 hu gs0 s0 hde
      obtain ⟨o, _, hr⟩ := denote_ok_iff hs hh phaseOf e hw.2 gs0 s0 hde
      simp only at hd
      split at hd
      · injection hd with h1 h2
        subst h1; exact GoodGates.nil
      · split at hd
        · cases hd
        · rename_i hdisj
          have hdisj : s0 &&& m = 0 := by simpa using hdisj
          injection hd with h1 h2
          subst h1
          intro g hg
          obtain ⟨g0, hg0, rfl⟩ := List.mem_map.1 hg
          exact good_addCtrl g0 m (ih0 g0 hg0) (disj_of_within (hr.within g0 hg0) hdisj)
  | dgr e ih =>
    intro gs supp hd
    rw [denote] at hd
    cases hde : denote phaseOf e with
    | refused => rw [hde] at hd; cases hd
    | panic => rw [hde] at hd; cases hd
    | ok gs0 s0 =>
      rw [hde] at hd
      injection hd with h1 h2
      subst h1
      exact (ih hw hu gs0 s0 hde).adjAll
  | mul a b iha ihb =>
    intro gs supp hd
    rw [denote] at hd
    cases hda : denote phaseOf a with
    | refused => rw [hda] at hd; cases hd
    | panic => rw [hda] at hd; cases hd
    | ok ga sa =>
      rw [hda] at hd
      cases hdb : denote phaseOf b with
      | refused => rw [hdb] at hd; cases hd
      | panic => rw [hdb] at hd; cases hd
      | ok gb sb =>
        rw [hdb] at hd
        injection hd with h1 h2
        subst h1
        exact GoodGates.append (iha hw.1 hu.1 ga sa hda) (ihb hw.2 hu.2 gb sb hdb)

/-! ### consequences for the built operator -/

omit [Consts R] in
theorem le_of_testBit_sub {a s : Nat} (h : ∀ k, a.testBit k = true → s.testBit k = true) :
    a ≤ s := by
  have : a &&& s = a := by
    apply Nat.eq_of_testBit_eq
    intro i
    rw [Nat.testBit_and]
    cases hi : a.testBit i
    · rfl
    · rw [h i hi]; rfl
  rw [← this]
  exact Nat.and_le_right

omit [CommRing R] [Consts R] in
/-- a gate whose support lies inside a mask below `2^n` targets qubits of an `n`-qubit register -/
theorem inRange_of_within (g : SGate R) (supp n : Nat) (hn : supp < 2 ^ n)
    (h : ∀ k, g.support.testBit k = true → supp.testBit k = true) : g.InRange n := by
  obtain ⟨c, p⟩ := g
  cases p with
  | idle => trivial
  | one M a =>
    show a < 2 ^ n
    refine Nat.lt_of_le_of_lt (le_of_testBit_sub (fun k hk => h k ?_)) hn
    simp [SGate.support, hk]
  | two M a b =>
    show a < 2 ^ n ∧ b < 2 ^ n
    constructor
    · refine Nat.lt_of_le_of_lt (le_of_testBit_sub (fun k hk => h k ?_)) hn
      simp [SGate.support, hk]
    · refine Nat.lt_of_le_of_lt (le_of_testBit_sub (fun k hk => h k ?_)) hn
      simp [SGate.support, hk]

/-- the dagger of a built operator undoes it, and conversely -/
theorem Refines.inverse {o : MultiOp R} {gs : List (SGate R)} {supp : Nat} (h : Refines o gs supp)
    (hg : GoodGates gs) (ψ : State R) :
    (MultiOp.dgr o).apply (o.apply ψ) = ψ ∧ o.apply ((MultiOp.dgr o).apply ψ) = ψ := by
  rw [h.apply, h.dagger, h.dagger, h.apply]
  exact ⟨actAll_adjAll_cancel gs hg ψ, adjAll_actAll_cancel gs hg ψ⟩

/-- a built operator preserves the squared norm of every register that contains its support -/
theorem Refines.normSq {o : MultiOp R} {gs : List (SGate R)} {supp : Nat} (h : Refines o gs supp)
    (hg : GoodGates gs) (n : Nat) (hn : supp < 2 ^ n) (ψ : State R) :
    normSqSum n (o.apply ψ) = normSqSum n ψ := by
  rw [h.apply]
  exact actAll_normSq gs n
    (fun g hgm => ⟨(hg g hgm).1, (hg g hgm).2, inRange_of_within g supp n hn (h.within g hgm)⟩) ψ

end Qvnt

/-! ### axiom audit -/
#print axioms Qvnt.denote_good
#print axioms Qvnt.Refines.inverse
#print axioms Qvnt.Refines.normSq
