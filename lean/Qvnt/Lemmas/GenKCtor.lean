/- constructors `Op::new` of the translated kernels equal the model's (split out of GenKernels.lean) -/
import Qvnt.Lemmas.GenKTac

namespace Qvnt.Gen
open Qvnt

variable {R : Type}

/-! ### constructors `Op::new` -/
section ctor
theorem x_new_eq (a : Nat) : (Gen.x_new a : Atom R) = .x a := rfl
theorem y_new_eq (a : Nat) : (Gen.y_new a : Atom R) = .y a (yIPow a) := by
  unfold Gen.y_new; simp only [yIPow_eq]
theorem z_new_eq (a : Nat) : (Gen.z_new a : Atom R) = .z a := rfl
theorem s_new_eq (a : Nat) : (Gen.s_new a : Atom R) = .s a false := rfl
theorem t_new_eq (a : Nat) : (Gen.t_new a : Atom R) = .t a false := rfl
theorem h1_new_eq (a : Nat) : (Gen.h1_new a : Atom R) = .h1 a := rfl
theorem h2_new_eq (a b : Nat) : (Gen.h2_new a b : Atom R) = .h2 a b (a ||| b) := rfl
theorem swap_new_eq (a : Nat) : (Gen.swap_new a : Atom R) = .swap a := rfl
theorem i_swap_new_eq (a : Nat) : (Gen.i_swap_new a : Atom R) = .iSwap a false := rfl
theorem sqrt_swap_new_eq (a : Nat) : (Gen.sqrt_swap_new a : Atom R) = .sqrtSwap a false := rfl
theorem sqrt_i_swap_new_eq (a : Nat) : (Gen.sqrt_i_swap_new a : Atom R) = .sqrtISwap a false := rfl
variable [Div R] [Mul R] [Consts R] [Trig R]
theorem rx_new_eq (a : Nat) (θ : R) : Gen.rx_new a θ = .rx a (halfPhaseDiv θ) := rfl
theorem ry_new_eq (a : Nat) (θ : R) : Gen.ry_new a θ = .ry a (halfPhaseDiv θ) := rfl
theorem rz_new_eq (a : Nat) (θ : R) : Gen.rz_new a θ = .rz a (halfPhaseDiv θ) := rfl
theorem rxx_new_eq (a : Nat) (θ : R) : Gen.rxx_new a θ = .rxx a (halfPhaseMul θ) := rfl
theorem ryy_new_eq (a : Nat) (θ : R) : Gen.ryy_new a θ = .ryy a (halfPhaseDiv θ) := rfl
theorem rzz_new_eq (a : Nat) (θ : R) : Gen.rzz_new a θ = .rzz a (halfPhaseDiv θ) := rfl
end ctor

end Qvnt.Gen
