/-
Common definitions for the equalities between the translated functions (tools/rs2lean2.py) and the model.
(split out of GenRegs2.lean so that an equality that no longer holds blocks only the properties that rely on it)
-/
import Qvnt.Generated.Regs
import Qvnt.Lemmas.GenCore
import Qvnt.Lemmas.Queue

set_option linter.unusedSectionVars false

namespace Qvnt.Gen2
open Qvnt Qvnt.Gen

variable {R : Type}

/-- the model's register as the translated record (buffer as a list) -/
def ofModel (r : QReg R) : QRegG R := ⟨r.psi.toList, r.qNum, r.qMask⟩

theorem shl_one (n : Nat) (h : n < 64) : shlW 64 1 n = 2 ^ n := by
  unfold shlW
  rw [Nat.one_mul, Nat.mod_eq_of_lt h, Nat.mod_eq_of_lt (Nat.pow_lt_pow_right (by decide) h)]

theorem mask_eq (n : Nat) (h : n < 64) : wrapSub 64 (2 ^ n) 1 = 2 ^ n - 1 := by
  unfold wrapSub
  have h2 : 2 ^ n < 2 ^ 64 := Nat.pow_lt_pow_right (by decide) h
  have h3 : 0 < 2 ^ n := Nat.two_pow_pos n
  rw [Nat.mod_eq_of_lt h2]
  have : (1 : Nat) % 2 ^ 64 = 1 := by decide
  rw [this]
  have e : 2 ^ n + 2 ^ 64 - 1 = (2 ^ n - 1) + 2 ^ 64 := by omega
  rw [e, Nat.add_mod_right, Nat.mod_eq_of_lt (by omega)]
theorem mapIdx_getElem {α : Type} (l : List α) (f : Nat → α → α) (i : Nat) (h : i < (Rs.mapIdx l f).length) :
    (Rs.mapIdx l f)[i] = f i (l[i]'(by simpa [Rs.mapIdx, Rs.enumerate] using h)) := by
  simp [Rs.mapIdx, Rs.enumerate]

end Qvnt.Gen2
