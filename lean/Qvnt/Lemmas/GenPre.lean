/-
Common definitions for the equalities between the translated functions (tools/rs2lean2.py) and the model.
(split out of GenRegs2.lean so that an equality that no longer holds blocks only the properties that rely on it)
-/
import Qvnt.Lemmas.GenPre.ofModel
import Qvnt.Lemmas.GenPre.shl_one
import Qvnt.Lemmas.GenPre.mask_eq
import Qvnt.Lemmas.GenPre.mapIdx_getElem
