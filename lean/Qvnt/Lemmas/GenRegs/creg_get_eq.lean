/- `creg_get_eq` of GenRegs.lean (one module per declaration, tools/lean_split.py) -/
import Qvnt.Generated.Kernels
import Qvnt.Model.Reg
import Mathlib.Tactic.Ring
import Qvnt.Lemmas.GenRegs.CRegG_toModel

namespace Qvnt.Gen
open Qvnt

theorem creg_get_eq (c : CRegG) : creg_get c = c.toModel.get := rfl

end Qvnt.Gen
