/- `creg_xor_eq` of GenRegs.lean (one module per declaration, tools/lean_split.py) -/
import Qvnt.Generated.Kernels
import Qvnt.Model.Reg
import Mathlib.Tactic.Ring
import Qvnt.Lemmas.GenRegs.CRegG_toModel

namespace Qvnt.Gen
open Qvnt

theorem creg_xor_eq (c : CRegG) (b : Bool) (m : Nat) : (creg_xor c b m).toModel = c.toModel.xor b m := by
  cases b <;> simp [creg_xor, CRegG.toModel, CReg.xor]

end Qvnt.Gen
