/- `creg_tensor_prod_eq` of GenRegs.lean (one module per declaration, tools/lean_split.py) -/
import Qvnt.Generated.Kernels
import Qvnt.Model.Reg
import Mathlib.Tactic.Ring
import Qvnt.Lemmas.GenRegs.CRegG_toModel
import Qvnt.Lemmas.GenRegs.creg_with_state_eq

namespace Qvnt.Gen
open Qvnt

/-- the concatenation: for registers whose widths stay inside the word (a shift count of 64 or
more is an overflow panic in debug builds) and whose value is a word -/
theorem creg_tensor_prod_eq (a b : CRegG) (ha : a.q_num < 64) (hv : a.value < 2 ^ 64) :
    (creg_tensor_prod a b).toModel = a.toModel.tensorProd b.toModel := by
  unfold creg_tensor_prod CReg.tensorProd
  rw [creg_with_state_eq]
  have h8 : a.q_num % 2 ^ 8 = a.q_num := Nat.mod_eq_of_lt (by omega)
  simp only [CRegG.toModel, shlW, h8, Nat.zero_mod, Nat.pow_zero, Nat.mul_one, Nat.mod_eq_of_lt ha,
    Nat.mod_eq_of_lt hv, Nat.shiftLeft_eq, W]

end Qvnt.Gen
