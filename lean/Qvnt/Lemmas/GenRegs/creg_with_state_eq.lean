/- `creg_with_state_eq` of GenRegs.lean (one module per declaration, tools/lean_split.py) -/
import Qvnt.Generated.Kernels
import Qvnt.Model.Reg
import Mathlib.Tactic.Ring
import Qvnt.Lemmas.GenRegs.CRegG_toModel
import Qvnt.Lemmas.GenRegs.creg_mask_of_eq

namespace Qvnt.Gen
open Qvnt

theorem creg_with_state_eq (n s : Nat) : (creg_with_state n s).toModel = CReg.withState n s := by
  simp [creg_with_state, CRegG.toModel, CReg.withState, creg_mask_of_eq]

end Qvnt.Gen
