/- `CRegG.toModel` of GenRegs.lean (one module per declaration, tools/lean_split.py) -/
import Qvnt.Generated.Kernels
import Qvnt.Model.Reg
import Mathlib.Tactic.Ring

namespace Qvnt.Gen
open Qvnt

/-- the translated record as the model's record -/
def CRegG.toModel (c : CRegG) : CReg := ⟨c.value, c.q_num, c.q_mask⟩

end Qvnt.Gen
