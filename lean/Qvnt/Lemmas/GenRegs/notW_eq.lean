/- `notW_eq` of GenRegs.lean (one module per declaration, tools/lean_split.py) -/
import Qvnt.Generated.Kernels
import Qvnt.Model.Reg
import Mathlib.Tactic.Ring

namespace Qvnt.Gen
open Qvnt

theorem notW_eq (m : Nat) : Qvnt.notW 64 m = CReg.notW m := by
  unfold Qvnt.notW CReg.notW W
  have h : m % 2 ^ 64 < 2 ^ 64 := Nat.mod_lt _ (by decide)
  generalize m % 2 ^ 64 = x at h
  apply Nat.eq_of_testBit_eq; intro i
  have e : 2 ^ 64 - 1 - x = 2 ^ 64 - (x + 1) := by omega
  rw [e, Nat.testBit_two_pow_sub_succ h, Nat.testBit_xor, Nat.testBit_two_pow_sub_one]
  by_cases hi : i < 64
  · simp [hi]
  · have : x.testBit i = false := Nat.testBit_lt_two_pow (lt_of_lt_of_le h (Nat.pow_le_pow_right (by decide) (by omega)))
    simp [hi, this]

end Qvnt.Gen
