/- `creg_num_eq` of GenRegs.lean (one module per declaration, tools/lean_split.py) -/
import Qvnt.Generated.Kernels
import Qvnt.Model.Reg
import Mathlib.Tactic.Ring
import Qvnt.Lemmas.GenRegs.CRegG_toModel

namespace Qvnt.Gen
open Qvnt

theorem creg_num_eq (c : CRegG) : creg_num c = c.toModel.qNum := rfl

end Qvnt.Gen
