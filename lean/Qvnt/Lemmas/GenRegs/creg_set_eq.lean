/- `creg_set_eq` of GenRegs.lean (one module per declaration, tools/lean_split.py) -/
import Qvnt.Generated.Kernels
import Qvnt.Model.Reg
import Mathlib.Tactic.Ring
import Qvnt.Lemmas.GenRegs.CRegG_toModel
import Qvnt.Lemmas.GenRegs.notW_eq

namespace Qvnt.Gen
open Qvnt

theorem creg_set_eq (c : CRegG) (b : Bool) (m : Nat) : (creg_set c b m).toModel = c.toModel.set b m := by
  cases b <;> simp [creg_set, CRegG.toModel, CReg.set, notW_eq]

end Qvnt.Gen
