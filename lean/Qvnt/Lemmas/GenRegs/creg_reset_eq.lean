/- `creg_reset_eq` of GenRegs.lean (one module per declaration, tools/lean_split.py) -/
import Qvnt.Generated.Kernels
import Qvnt.Model.Reg
import Mathlib.Tactic.Ring
import Qvnt.Lemmas.GenRegs.CRegG_toModel

namespace Qvnt.Gen
open Qvnt

theorem creg_reset_eq (c : CRegG) (i : Nat) : (creg_reset c i).toModel = c.toModel.reset i := by
  simp [creg_reset, CRegG.toModel, CReg.reset]

end Qvnt.Gen
