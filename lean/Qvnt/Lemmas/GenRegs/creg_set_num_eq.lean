/- `creg_set_num_eq` of GenRegs.lean (one module per declaration, tools/lean_split.py) -/
import Qvnt.Generated.Kernels
import Qvnt.Model.Reg
import Mathlib.Tactic.Ring
import Qvnt.Lemmas.GenRegs.CRegG_toModel
import Qvnt.Lemmas.GenRegs.creg_mask_of_eq

namespace Qvnt.Gen
open Qvnt

theorem creg_set_num_eq (c : CRegG) (n : Nat) : (creg_set_num c n).toModel = c.toModel.setNum n := by
  simp [creg_set_num, CRegG.toModel, CReg.setNum, creg_mask_of_eq]

end Qvnt.Gen
