/- `creg_mask_of_eq` of GenRegs.lean (one module per declaration, tools/lean_split.py) -/
import Qvnt.Generated.Kernels
import Qvnt.Model.Reg
import Mathlib.Tactic.Ring

namespace Qvnt.Gen
open Qvnt

theorem creg_mask_of_eq (n : Nat) : creg_mask_of n = CReg.maskOf n := by
  unfold creg_mask_of CReg.maskOf W
  by_cases h : n ≥ 64
  · simp [h, Qvnt.notW]
  · have hn : n < 64 := by omega
    have h2 : 2 ^ n < 2 ^ 64 := Nat.pow_lt_pow_right (by decide) hn
    have h3 : 0 < 2 ^ n := Nat.two_pow_pos n
    simp only [h, decide_false, Bool.false_eq_true, ↓reduceIte, wrapSub, shlW, Nat.one_mul, Nat.mod_eq_of_lt hn,
      Nat.mod_eq_of_lt h2]
    have : (1 : Nat) % 2 ^ 64 = 1 := by decide
    rw [this]
    have e : 2 ^ n + 2 ^ 64 - 1 = (2 ^ n - 1) + 2 ^ 64 := by omega
    rw [e, Nat.add_mod_right, Nat.mod_eq_of_lt (by omega)]

end Qvnt.Gen
