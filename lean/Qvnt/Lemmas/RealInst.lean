/-
LEMMAS — the real-number instance of the scalar classes of the model.

`HasSqrt ℝ` is `Real.sqrt`; the literals of `normalize` are `1e-15` and `1e-9`; the constants of
the gate kernels are `0.5` and `1/√2`. Comparison on `ℝ` is decided classically
(`Real.decidableLE` / `Real.decidableLT`, instances of Mathlib: they fill the model's
`[DecidableLE ℝ]` / `[DecidableLT ℝ]` binders).
-/
import Qvnt.Model.Reg
import Mathlib.Analysis.SpecialFunctions.Sqrt
import Mathlib.Tactic.Positivity
import Mathlib.Tactic.NormNum

namespace Qvnt

noncomputable instance instHasSqrtReal : HasSqrt ℝ := ⟨Real.sqrt⟩

noncomputable instance instRegConstsReal : RegConsts ℝ := ⟨(10 : ℝ)⁻¹ ^ 15, (10 : ℝ)⁻¹ ^ 9⟩

noncomputable instance instConstsReal : Consts ℝ := ⟨1 / 2, 1 / Real.sqrt 2⟩

/-- the model's `[DecidableLE ℝ]` binder is filled by Mathlib's classical `Real.decidableLE`
(no second instance is declared, so there is no instance diamond) -/
noncomputable example : DecidableLE ℝ := inferInstance
noncomputable example : DecidableLT ℝ := inferInstance
noncomputable example (r : QReg ℝ) (mask d : Nat) : QReg ℝ × CReg := r.measureMask mask d

theorem sqrt_real (x : ℝ) : (HasSqrt.sqrt x : ℝ) = Real.sqrt x := rfl

theorem tiny_real : (RegConsts.tiny : ℝ) = (10 : ℝ)⁻¹ ^ 15 := rfl

theorem close_real : (RegConsts.close : ℝ) = (10 : ℝ)⁻¹ ^ 9 := rfl

theorem tiny_pos : (0 : ℝ) < RegConsts.tiny := by rw [tiny_real]; positivity

theorem close_pos : (0 : ℝ) < RegConsts.close := by rw [close_real]; positivity

theorem close_lt_one : (RegConsts.close : ℝ) < 1 := by rw [close_real]; norm_num

theorem half_real : (Consts.half : ℝ) = 1 / 2 := rfl

theorem invSqrt2_real : (Consts.invSqrt2 : ℝ) = 1 / Real.sqrt 2 := rfl

end Qvnt
