/- `foldlM_process` of GenInt.lean (one module per declaration, tools/lean_split.py) -/
import Qvnt.Generated.Regs
import Qvnt.Generated.Kernels
import Qvnt.Lemmas.Bits
import Mathlib.Tactic.Ring
import Mathlib.Algebra.Ring.Basic
import Qvnt.Lemmas.Queue
import Qvnt.Lemmas.GenInt.MacrosDisjoint
import Qvnt.Lemmas.GenInt.MacrosInv
import Qvnt.Lemmas.GenInt.int_process_node_eq
import Qvnt.Lemmas.GenInt.processNode_inv

set_option linter.unusedSectionVars false
namespace Qvnt.Gen2
open Qvnt Qvnt.Gen
variable {R : Type}
section proc
variable [Add R] [Sub R] [Mul R] [Neg R] [Div R] [ExprFns R] [AngleFns R]

theorem foldlM_process [Zero R] [One R] [Consts R] (s : Interp R) (nodes : List (Node R)) (c : Interp R)
    (hd : MacrosInv s c) :
    List.foldlM (fun ch n => int_process_node s ch n) c nodes = (Interp.processNodes s c nodes).toE := by
  induction nodes generalizing c with
  | nil => rfl
  | cons n ns ih =>
    rw [List.foldlM_cons, int_process_node_eq s c hd]
    simp only [Interp.processNodes]
    cases h : Interp.processNode s c n with
    | ok ch => exact ih ch (processNode_inv s c ch n hd h)
    | err e => rfl
    | panic p => rfl

end proc
end Qvnt.Gen2
