/- `int_process_creg_eq` of GenInt.lean (one module per declaration, tools/lean_split.py) -/
import Qvnt.Generated.Regs
import Qvnt.Generated.Kernels
import Qvnt.Lemmas.Bits
import Mathlib.Tactic.Ring
import Mathlib.Algebra.Ring.Basic
import Qvnt.Lemmas.Queue
import Qvnt.Lemmas.GenInt.exToRes
import Qvnt.Lemmas.GenInt.int_check_ident_eq
import Qvnt.Lemmas.GenInt.int_check_reg_size_eq
import Qvnt.Lemmas.GenInt.int_check_dup_eq

set_option linter.unusedSectionVars false
namespace Qvnt.Gen2
open Qvnt Qvnt.Gen
variable {R : Type}
section proc
variable [Add R] [Sub R] [Mul R] [Neg R] [Div R] [ExprFns R] [AngleFns R]

theorem int_process_creg_eq (s c : Interp R) (a : String) (n : Nat) :
    exToRes (int_process_creg s c a n) = Interp.processNode s c (.creg a n) := by
  unfold int_process_creg
  simp only [Interp.processNode]
  simp only [int_check_ident_eq, int_check_reg_size_eq, int_check_dup_eq]
  cases Interp.checkIdent a with
  | error e => rfl
  | ok _ =>
    cases Interp.checkRegSize a n with
    | error e => rfl
    | ok _ =>
      cases Interp.checkRegSize a (s.cReg.length + c.cReg.length + n) with
      | error e => rfl
      | ok _ =>
        cases Interp.checkDup s c a with
        | error e => rfl
        | ok _ => rfl

end proc
end Qvnt.Gen2
