/- `regsOf_eq` of GenInt.lean (one module per declaration, tools/lean_split.py) -/
import Qvnt.Generated.Regs
import Qvnt.Generated.Kernels
import Qvnt.Lemmas.Bits
import Mathlib.Tactic.Ring
import Mathlib.Algebra.Ring.Basic
import Qvnt.Lemmas.Queue

set_option linter.unusedSectionVars false
namespace Qvnt.Gen2
open Qvnt Qvnt.Gen
variable {R : Type}
section proc
variable [Add R] [Sub R] [Mul R] [Neg R] [Div R] [ExprFns R] [AngleFns R]

theorem regsOf_eq (s c : Interp R) (l : List Arg) (acc : List Nat) :
    Interp.processApply.regsOf s c l acc =
      (List.mapM (fun a => Interp.getIdx s c true a) l).map (fun r => acc.reverse ++ r) := by
  induction l generalizing acc with
  | nil => simp [Interp.processApply.regsOf, pure, Except.pure, Except.map]
  | cons a as ih =>
    rw [Interp.processApply.regsOf, List.mapM_cons]
    cases h : Interp.getIdx s c true a with
    | error e => simp [bind, Except.bind, Except.map]
    | ok m =>
      simp only [ih, bind, Except.bind]
      cases List.mapM (fun a => Interp.getIdx s c true a) as with
      | error e => simp [Except.map]
      | ok r => simp [Except.map, pure, Except.pure]

end proc
end Qvnt.Gen2
