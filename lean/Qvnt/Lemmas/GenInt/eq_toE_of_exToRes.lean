/- `eq_toE_of_exToRes` of GenInt.lean (one module per declaration, tools/lean_split.py) -/
import Qvnt.Generated.Regs
import Qvnt.Generated.Kernels
import Qvnt.Lemmas.Bits
import Mathlib.Tactic.Ring
import Mathlib.Algebra.Ring.Basic
import Qvnt.Lemmas.Queue
import Qvnt.Lemmas.GenInt.exToRes
import Qvnt.Lemmas.GenInt.toE_exToRes

set_option linter.unusedSectionVars false
namespace Qvnt.Gen2
open Qvnt Qvnt.Gen
variable {R : Type}
section proc
variable [Add R] [Sub R] [Mul R] [Neg R] [Div R] [ExprFns R] [AngleFns R]

theorem eq_toE_of_exToRes {α : Type} {x : Except IntError α} {m : Res α} (h : exToRes x = m) : x = m.toE := by
  rw [← h, toE_exToRes]

end proc
end Qvnt.Gen2
