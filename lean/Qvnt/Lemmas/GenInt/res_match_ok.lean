/- `res_match_ok` of GenInt.lean (one module per declaration, tools/lean_split.py) -/
import Qvnt.Generated.Regs
import Qvnt.Generated.Kernels
import Qvnt.Lemmas.Bits
import Mathlib.Tactic.Ring
import Mathlib.Algebra.Ring.Basic
import Qvnt.Lemmas.Queue

set_option linter.unusedSectionVars false
namespace Qvnt.Gen2
open Qvnt Qvnt.Gen
variable {R : Type}
section proc
variable [Add R] [Sub R] [Mul R] [Neg R] [Div R] [ExprFns R] [AngleFns R]

theorem res_match_ok {α β : Type} (r : Res α) (f : α → β) (c' : β)
    (h : (match r with | .ok o => Res.ok (f o) | .err e => .err e | .panic s => .panic s) = .ok c') :
    ∃ o, f o = c' := by
  cases r with
  | ok o => exact ⟨o, by injection h⟩
  | err e => cases h
  | panic p => cases h

end proc
end Qvnt.Gen2
