/- `int_process_nodes_eq` of GenInt.lean (one module per declaration, tools/lean_split.py) -/
import Qvnt.Generated.Regs
import Qvnt.Generated.Kernels
import Qvnt.Lemmas.Bits
import Mathlib.Tactic.Ring
import Mathlib.Algebra.Ring.Basic
import Qvnt.Lemmas.Queue
import Qvnt.Lemmas.GenInt.bind_ok_self
import Qvnt.Lemmas.GenInt.MacrosDisjoint
import Qvnt.Lemmas.GenInt.MacrosInv
import Qvnt.Lemmas.GenInt.bind_ok_eta
import Qvnt.Lemmas.GenInt.foldlM_process

set_option linter.unusedSectionVars false
namespace Qvnt.Gen2
open Qvnt Qvnt.Gen
variable {R : Type}
section proc
variable [Add R] [Sub R] [Mul R] [Neg R] [Div R] [ExprFns R] [AngleFns R]

theorem int_process_nodes_eq [Zero R] [One R] [Consts R] (s c : Interp R) (hd : MacrosInv s c) (nodes : List (Node R)) :
    int_process_nodes s c nodes = (Interp.processNodes s c nodes).toE := by
  unfold int_process_nodes
  simp only [bind_ok_self, bind_ok_eta]
  exact foldlM_process s nodes c hd

end proc
end Qvnt.Gen2
