/- `int_append_int_eq` of GenInt.lean (one module per declaration, tools/lean_split.py) -/
import Qvnt.Generated.Regs
import Qvnt.Generated.Kernels
import Qvnt.Lemmas.Bits
import Mathlib.Tactic.Ring
import Mathlib.Algebra.Ring.Basic
import Qvnt.Lemmas.Queue
import Qvnt.Lemmas.GenExtOp.extop_append_eq

set_option linter.unusedSectionVars false
namespace Qvnt.Gen2
open Qvnt Qvnt.Gen
variable {R : Type}

theorem int_append_int_eq [Add R] [Sub R] [Mul R] [Div R] [Neg R] [Zero R] [One R] [Consts R] (s i : Interp R) :
    int_append_int s i = Interp.appendInt s i := by
  have h := extop_append_eq s.qOps i.qOps
  unfold int_append_int Interp.appendInt Rs.mapExtend
  simp only []
  rw [← h.1]

end Qvnt.Gen2
