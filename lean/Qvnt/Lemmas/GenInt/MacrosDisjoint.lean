/- `MacrosDisjoint` of GenInt.lean (one module per declaration, tools/lean_split.py) -/
import Qvnt.Generated.Regs
import Qvnt.Generated.Kernels
import Qvnt.Lemmas.Bits
import Mathlib.Tactic.Ring
import Mathlib.Algebra.Ring.Basic
import Qvnt.Lemmas.Queue

set_option linter.unusedSectionVars false
namespace Qvnt.Gen2
open Qvnt Qvnt.Gen
variable {R : Type}
section proc
variable [Add R] [Sub R] [Mul R] [Neg R] [Div R] [ExprFns R] [AngleFns R]

/-- no gate of the session is defined again by the chunk being interpreted -/
def MacrosDisjoint (s c : Interp R) : Prop := ∀ p ∈ s.macros, c.macros.any (·.1 == p.1) = false

end proc
end Qvnt.Gen2
