/- `int_process_gate_eq` of GenInt.lean (one module per declaration, tools/lean_split.py) -/
import Qvnt.Generated.Regs
import Qvnt.Lemmas.GenMacroNew.macro_new_eq
import Qvnt.Generated.Kernels
import Qvnt.Lemmas.Bits
import Mathlib.Tactic.Ring
import Mathlib.Algebra.Ring.Basic
import Qvnt.Lemmas.Queue
import Qvnt.Lemmas.GenInt.int_check_ident_eq
import Qvnt.Lemmas.GenInt.mapInsert_fresh

set_option linter.unusedSectionVars false
namespace Qvnt.Gen2
open Qvnt Qvnt.Gen
variable {R : Type}
section proc
variable [Add R] [Sub R] [Mul R] [Neg R] [Div R] [ExprFns R] [AngleFns R]

theorem int_process_gate_eq (s c : Interp R) (name : String) (regs args : List String) (body : List (Inner R)) :
    int_process_gate s c name regs args body = (Interp.processNode s c (.gate name regs args body)).toE := by
  unfold int_process_gate
  simp only [Interp.processNode, macro_new_eq]
  cases Macro.new regs args body with
  | error e => rfl
  | ok m =>
    simp only [Except.bind, Rs.mapContains]
    by_cases h1 : s.macros.any (·.1 == name) = true
    · simp [h1, Res.toE]
    · by_cases h2 : c.macros.any (·.1 == name) = true
      · simp [h1, h2, Res.toE]
      · simp only [h1, h2, Bool.not_false, Bool.and_self, if_true, Bool.false_eq_true, int_check_ident_eq]
        cases Interp.checkIdent name with
        | error e => rfl
        | ok _ =>
          have h2' : Rs.mapContains c.macros name = false := by
            unfold Rs.mapContains; exact Bool.eq_false_iff.2 h2
          have := mapInsert_fresh c.macros name m h2'
          simp [this, Res.toE]
          done

end proc
end Qvnt.Gen2
