/- `int_check_reg_size_eq` of GenInt.lean (one module per declaration, tools/lean_split.py) -/
import Qvnt.Generated.Regs
import Qvnt.Generated.Kernels
import Qvnt.Lemmas.Bits
import Mathlib.Tactic.Ring
import Mathlib.Algebra.Ring.Basic
import Qvnt.Lemmas.Queue

set_option linter.unusedSectionVars false
namespace Qvnt.Gen2
open Qvnt Qvnt.Gen
variable {R : Type}

theorem int_check_reg_size_eq (a : String) (n : Nat) : int_check_reg_size a n = Interp.checkRegSize a n := by
  unfold int_check_reg_size Interp.checkRegSize Generated.regSizeLimit
  by_cases h : n ≥ 64 <;> simp [h]

end Qvnt.Gen2
