/- `int_add_ast_eq` of GenInt.lean (one module per declaration, tools/lean_split.py) -/
import Qvnt.Generated.Regs
import Qvnt.Generated.Kernels
import Qvnt.Lemmas.Bits
import Mathlib.Tactic.Ring
import Mathlib.Algebra.Ring.Basic
import Qvnt.Lemmas.Queue
import Qvnt.Lemmas.GenInt.int_append_int_eq
import Qvnt.Lemmas.GenInt.int_ast_changes_eq
import Qvnt.Lemmas.GenInt.MacrosInv
import Qvnt.Lemmas.GenMacro.KeysNodup

set_option linter.unusedSectionVars false
namespace Qvnt.Gen2
open Qvnt Qvnt.Gen
variable {R : Type}
section proc
variable [Add R] [Sub R] [Mul R] [Neg R] [Div R] [ExprFns R] [AngleFns R]

/-- `add_ast`: the translated function is the model's, for every session whose gate names are unique (which add_ast preserves) and every chunk (the chunk's delta starts empty) -/
theorem int_add_ast_eq [Zero R] [One R] [Consts R] (s : Interp R) (hs : KeysNodup s.macros) (ast : List (Node R)) :
    int_add_ast s ast = (Interp.addAst s ast).toE := by
  unfold int_add_ast Interp.addAst
  simp only [int_ast_changes_eq s {} (macrosInv_empty s hs)]
  cases Interp.astChanges s {} ast with
  | ok ch => simp [Res.toE, Except.bind, int_append_int_eq]
  | err e => rfl
  | panic p => rfl

end proc
end Qvnt.Gen2
