/- `int_process_measure_eq` of GenInt.lean (one module per declaration, tools/lean_split.py) -/
import Qvnt.Generated.Regs
import Qvnt.Generated.Kernels
import Qvnt.Lemmas.Bits
import Mathlib.Tactic.Ring
import Mathlib.Algebra.Ring.Basic
import Qvnt.Lemmas.Queue
import Qvnt.Lemmas.GenInt.exToRes
import Qvnt.Lemmas.GenInt.int_branch_with_id_eq
import Qvnt.Lemmas.GenInt.int_get_q_idx_eq
import Qvnt.Lemmas.GenInt.int_get_c_idx_eq

set_option linter.unusedSectionVars false
namespace Qvnt.Gen2
open Qvnt Qvnt.Gen
variable {R : Type}
section proc
variable [Add R] [Sub R] [Mul R] [Neg R] [Div R] [ExprFns R] [AngleFns R]

theorem int_process_measure_eq (s c : Interp R) (q cl : Arg) :
    exToRes (int_process_measure s c q cl) = Interp.processNode s c (.measure q cl) := by
  unfold int_process_measure
  simp only [Interp.processNode]
  rw [int_get_q_idx_eq]
  cases Interp.getIdx s c true q with
  | error e => rfl
  | ok qa =>
    simp only [Except.bind, int_get_c_idx_eq]
    cases Interp.getIdx s c false cl with
    | error e => rfl
    | ok ca =>
      by_cases h : popcount qa = popcount ca
      · simp [h, exToRes, Except.bind, int_branch_with_id_eq]
      · simp [h, exToRes, Except.bind]

end proc
end Qvnt.Gen2
