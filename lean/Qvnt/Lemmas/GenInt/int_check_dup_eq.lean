/- `int_check_dup_eq` of GenInt.lean (one module per declaration, tools/lean_split.py) -/
import Qvnt.Generated.Regs
import Qvnt.Generated.Kernels
import Qvnt.Lemmas.Bits
import Mathlib.Tactic.Ring
import Mathlib.Algebra.Ring.Basic
import Qvnt.Lemmas.Queue

set_option linter.unusedSectionVars false
namespace Qvnt.Gen2
open Qvnt Qvnt.Gen
variable {R : Type}

theorem int_check_dup_eq (s c : Interp R) (a : String) : int_check_dup s c a = Interp.checkDup s c a := by
  unfold int_check_dup Interp.checkDup
  simp only [gt_iff_lt]
  by_cases h1 : 0 < (List.filter (fun x => x == a) s.qReg).length
  · simp [h1]
  · by_cases h2 : 0 < (List.filter (fun x => x == a) s.cReg).length
    · simp [h1, h2]
    · by_cases h3 : 0 < (List.filter (fun x => x == a) c.qReg).length
      · simp [h1, h2, h3]
      · by_cases h4 : 0 < (List.filter (fun x => x == a) c.cReg).length <;> simp [h1, h2, h3, h4]

end Qvnt.Gen2
