/- `int_prepend_int_eq` of GenInt.lean (one module per declaration, tools/lean_split.py) -/
import Qvnt.Generated.Regs
import Qvnt.Generated.Kernels
import Qvnt.Lemmas.Bits
import Mathlib.Tactic.Ring
import Mathlib.Algebra.Ring.Basic
import Qvnt.Lemmas.Queue
import Qvnt.Lemmas.GenInt.int_append_int_eq

set_option linter.unusedSectionVars false
namespace Qvnt.Gen2
open Qvnt Qvnt.Gen
variable {R : Type}

theorem int_prepend_int_eq [Add R] [Sub R] [Mul R] [Div R] [Neg R] [Zero R] [One R] [Consts R] (s i : Interp R) :
    int_prepend_int s i = Interp.prependInt s i := by
  unfold int_prepend_int Interp.prependInt
  exact int_append_int_eq i s

end Qvnt.Gen2
