/- `int_process_barrier_eq` of GenInt.lean (one module per declaration, tools/lean_split.py) -/
import Qvnt.Generated.Regs
import Qvnt.Generated.Kernels
import Qvnt.Lemmas.Bits
import Mathlib.Tactic.Ring
import Mathlib.Algebra.Ring.Basic
import Qvnt.Lemmas.Queue
import Qvnt.Lemmas.GenInt.exToRes

set_option linter.unusedSectionVars false
namespace Qvnt.Gen2
open Qvnt Qvnt.Gen
variable {R : Type}
section proc
variable [Add R] [Sub R] [Mul R] [Neg R] [Div R] [ExprFns R] [AngleFns R]

theorem int_process_barrier_eq (s c : Interp R) :
    exToRes (int_process_barrier s c) = Interp.processNode s c .barrier := rfl

end proc
end Qvnt.Gen2
