/- `mapExtend_disjoint` of GenInt.lean (one module per declaration, tools/lean_split.py) -/
import Qvnt.Generated.Regs
import Qvnt.Generated.Kernels
import Qvnt.Lemmas.Bits
import Mathlib.Tactic.Ring
import Mathlib.Algebra.Ring.Basic
import Qvnt.Lemmas.Queue
import Qvnt.Lemmas.GenInt.MacrosDisjoint

set_option linter.unusedSectionVars false
namespace Qvnt.Gen2
open Qvnt Qvnt.Gen
variable {R : Type}
section proc
variable [Add R] [Sub R] [Mul R] [Neg R] [Div R] [ExprFns R] [AngleFns R]

theorem mapExtend_disjoint {s c : Interp R} (h : MacrosDisjoint s c) :
    Rs.mapExtend s.macros c.macros = s.macros ++ c.macros := by
  unfold Rs.mapExtend
  congr 1
  apply List.filter_eq_self.2
  intro p hp
  simp [h p hp]

end proc
end Qvnt.Gen2
