/- `int_xor_eq` of GenInt.lean (one module per declaration, tools/lean_split.py) -/
import Qvnt.Generated.Regs
import Qvnt.Generated.Kernels
import Qvnt.Lemmas.Bits
import Mathlib.Tactic.Ring
import Mathlib.Algebra.Ring.Basic
import Qvnt.Lemmas.Queue

set_option linter.unusedSectionVars false
namespace Qvnt.Gen2
open Qvnt Qvnt.Gen
variable {R : Type}

theorem int_xor_eq (s : Interp R) : int_xor s = s.xor := rfl

end Qvnt.Gen2
