/- `int_process_apply_gate_eq` of GenInt.lean (one module per declaration, tools/lean_split.py) -/
import Qvnt.Generated.Regs
import Qvnt.Generated.Kernels
import Qvnt.Lemmas.Bits
import Mathlib.Tactic.Ring
import Mathlib.Algebra.Ring.Basic
import Qvnt.Lemmas.Queue
import Qvnt.Lemmas.GenExtOp.extop_push_eq
import Qvnt.Lemmas.GenInt.int_get_q_idx_eq
import Qvnt.Lemmas.GenInt.MacrosDisjoint
import Qvnt.Lemmas.GenInt.MacrosInv
import Qvnt.Lemmas.GenMacro.macro_process_eq
import Qvnt.Lemmas.GenInt.mapExtend_disjoint
import Qvnt.Lemmas.GenInt.mapGet_eq_lookupLast
import Qvnt.Lemmas.GenInt.regsOf_eq
import Qvnt.Lemmas.GenInt.argsOf_eq

set_option linter.unusedSectionVars false
namespace Qvnt.Gen2
open Qvnt Qvnt.Gen
variable {R : Type}
section proc
variable [Add R] [Sub R] [Mul R] [Neg R] [Div R] [ExprFns R] [AngleFns R]

theorem int_process_apply_gate_eq [Zero R] [One R] [Consts R] (s c : Interp R) (hk : MacrosInv s c)
    (name : String) (regs : List Arg) (args : List (PExpr R)) :
    int_process_apply_gate s c name regs args = (Interp.processApply s c ⟨name, regs, args⟩).toE := by
  unfold int_process_apply_gate Interp.processApply
  simp only [regsOf_eq, argsOf_eq, mapExtend_disjoint hk.disjoint, mapGet_eq_lookupLast]
  have hf : (fun a1 => int_get_q_idx_with_context s c a1) = fun a => Interp.getIdx s c true a := by
    funext a; exact int_get_q_idx_eq s c a
  simp only [hf]
  cases List.mapM (fun a => Interp.getIdx s c true a) regs with
  | error e => simp [Except.map, Except.bind, Res.toE]
  | ok rs =>
    simp only [Except.map, Except.bind, List.reverse_nil, List.nil_append]
    cases List.mapM Interp.evalArg args with
    | error e => simp [Res.toE]
    | ok as =>
      simp only []
      cases hl : lookupLast (s.macros ++ c.macros) name with
      | some m =>
        simp only [macro_process_eq _ hk, Macro.processE]
        cases Macro.process (s.macros ++ c.macros) ((s.macros ++ c.macros).length + 2) m name rs as [name] with
        | ok o => simp [Res.toE, extop_push_eq]
        | err e => simp [Res.toE]
        | panic p => simp [Res.toE]
      | none =>
        simp only [Gates.processE]
        cases Gates.process name rs as with
        | ok o => simp [Res.toE, extop_push_eq]
        | err e => simp [Res.toE]
        | panic p => simp [Res.toE]

end proc
end Qvnt.Gen2
