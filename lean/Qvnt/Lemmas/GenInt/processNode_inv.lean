/- `processNode_disjoint` of GenInt.lean (one module per declaration, tools/lean_split.py) -/
import Qvnt.Generated.Regs
import Qvnt.Generated.Kernels
import Qvnt.Lemmas.Bits
import Mathlib.Tactic.Ring
import Mathlib.Algebra.Ring.Basic
import Qvnt.Lemmas.Queue
import Qvnt.Lemmas.GenInt.MacrosDisjoint
import Qvnt.Lemmas.GenInt.MacrosInv
import Qvnt.Lemmas.GenInt.processApply_macros

set_option linter.unusedSectionVars false
namespace Qvnt.Gen2
open Qvnt Qvnt.Gen
variable {R : Type}
section proc
variable [Add R] [Sub R] [Mul R] [Neg R] [Div R] [ExprFns R] [AngleFns R]

/-- `process_node` keeps the gate names unique: a definition is added only under a name that neither the session nor the
chunk has -/
theorem processNode_inv (s c c' : Interp R) (n : Node R) (hd : MacrosInv s c)
    (h : Interp.processNode s c n = .ok c') : MacrosInv s c' := by
  have same : c'.macros = c.macros → MacrosInv s c' := fun e => by unfold MacrosInv; rw [e]; exact hd
  cases n with
  | qreg a k => simp only [Interp.processNode] at h; split at h <;> simp at h; exact same (by rw [← h])
  | creg a k => simp only [Interp.processNode] at h; split at h <;> simp at h; exact same (by rw [← h])
  | barrier => simp only [Interp.processNode, Res.ok.injEq] at h; exact same (by rw [← h])
  | «opaque» => simp only [Interp.processNode, Res.ok.injEq] at h; exact same (by rw [← h])
  | reset a => simp only [Interp.processNode] at h; split at h <;> simp at h; exact same (by rw [← h])
  | measure q cl =>
    simp only [Interp.processNode] at h
    split at h
    · simp at h
    · split at h
      · simp at h
      · split at h <;> simp at h
        exact same (by rw [← h])
  | apply cl => exact same (processApply_macros s c c' cl h)
  | gate name regs args body =>
    simp only [Interp.processNode] at h
    split at h
    · simp at h
    · split at h
      · rename_i hfresh
        split at h
        · simp only [Res.ok.injEq] at h
          have h1 : s.macros.any (fun q => q.1 == name) = false := by
            cases hh : s.macros.any (fun q => q.1 == name) with
            | false => rfl
            | true => rw [hh] at hfresh; simp at hfresh
          have h2 : c.macros.any (fun q => q.1 == name) = false := by
            cases hh : c.macros.any (fun q => q.1 == name) with
            | false => rfl
            | true => rw [hh] at hfresh; simp at hfresh
          unfold MacrosInv KeysNodup at hd ⊢
          rw [← h]
          simp only [List.map_append, List.map_cons, List.map_nil] at hd ⊢
          rw [← List.append_assoc, List.nodup_append]
          refine ⟨hd, by simp, ?_⟩
          intro a ha b hb
          simp only [List.mem_singleton] at hb
          subst hb
          rcases List.mem_append.1 ha with ha | ha
          · rw [List.mem_map] at ha
            obtain ⟨q, hq, rfl⟩ := ha
            have := (List.any_eq_false.1 h1) q hq
            simpa using this
          · rw [List.mem_map] at ha
            obtain ⟨q, hq, rfl⟩ := ha
            have := (List.any_eq_false.1 h2) q hq
            simpa using this
        · simp at h
      · simp at h
  | ifn lhs rhs body =>
    simp only [Interp.processNode] at h
    split at h
    · split at h
      · simp at h
      · split at h
        · rename_i ch' hpa
          simp only [Res.ok.injEq] at h
          have := processApply_macros s _ ch' _ hpa
          exact same (by rw [← h]; exact this)
        · simp at h
        · simp at h
    · simp at h

end proc
end Qvnt.Gen2
