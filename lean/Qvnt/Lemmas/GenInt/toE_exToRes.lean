/- `toE_exToRes` of GenInt.lean (one module per declaration, tools/lean_split.py) -/
import Qvnt.Generated.Regs
import Qvnt.Generated.Kernels
import Qvnt.Lemmas.Bits
import Mathlib.Tactic.Ring
import Mathlib.Algebra.Ring.Basic
import Qvnt.Lemmas.Queue
import Qvnt.Lemmas.GenInt.exToRes

set_option linter.unusedSectionVars false
namespace Qvnt.Gen2
open Qvnt Qvnt.Gen
variable {R : Type}
section proc
variable [Add R] [Sub R] [Mul R] [Neg R] [Div R] [ExprFns R] [AngleFns R]

theorem toE_exToRes {α : Type} (x : Except IntError α) : (exToRes x).toE = x := by
  cases x <;> rfl

end proc
end Qvnt.Gen2
