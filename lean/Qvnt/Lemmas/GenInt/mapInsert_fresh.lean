/- `mapInsert_fresh` of GenInt.lean (one module per declaration, tools/lean_split.py) -/
import Qvnt.Generated.Regs
import Qvnt.Generated.Kernels
import Qvnt.Lemmas.Bits
import Mathlib.Tactic.Ring
import Mathlib.Algebra.Ring.Basic
import Qvnt.Lemmas.Queue

set_option linter.unusedSectionVars false
namespace Qvnt.Gen2
open Qvnt Qvnt.Gen
variable {R : Type}
section proc
variable [Add R] [Sub R] [Mul R] [Neg R] [Div R] [ExprFns R] [AngleFns R]

theorem mapInsert_fresh {α : Type} (m : List (String × α)) (k : String) (v : α) (h : Rs.mapContains m k = false) :
    Rs.mapInsert m k v = m ++ [(k, v)] := by
  unfold Rs.mapInsert
  congr 1
  apply List.filter_eq_self.2
  intro p hp
  unfold Rs.mapContains at h
  rw [List.any_eq_false] at h
  simpa using h p hp

end proc
end Qvnt.Gen2
