/- `processApply_macros` of GenInt.lean (one module per declaration, tools/lean_split.py) -/
import Qvnt.Generated.Regs
import Qvnt.Generated.Kernels
import Qvnt.Lemmas.Bits
import Mathlib.Tactic.Ring
import Mathlib.Algebra.Ring.Basic
import Qvnt.Lemmas.Queue

set_option linter.unusedSectionVars false
namespace Qvnt.Gen2
open Qvnt Qvnt.Gen
variable {R : Type}
section proc
variable [Add R] [Sub R] [Mul R] [Neg R] [Div R] [ExprFns R] [AngleFns R]

theorem processApply_macros (s c c' : Interp R) (cl : Call R) (h : Interp.processApply s c cl = .ok c') :
    c'.macros = c.macros := by
  unfold Interp.processApply at h
  split at h
  · cases h
  · split at h
    · cases h
    · rename_i _ rs _ _ as _
      simp only [] at h
      cases hl : lookupLast (s.macros ++ c.macros) cl.name with
      | some m =>
        simp only [hl] at h
        cases hm : Macro.process (s.macros ++ c.macros) ((s.macros ++ c.macros).length + 2) m cl.name rs as [cl.name] with
        | ok o => simp only [hm, Res.ok.injEq] at h; rw [← h]
        | err e => simp only [hm] at h; cases h
        | panic p => simp only [hm] at h; cases h
      | none =>
        simp only [hl] at h
        cases hm : Gates.process cl.name rs as with
        | ok o => simp only [hm, Res.ok.injEq] at h; rw [← h]
        | err e => simp only [hm] at h; cases h
        | panic p => simp only [hm] at h; cases h

end proc
end Qvnt.Gen2
