/- `int_branch_eq` of GenInt.lean (one module per declaration, tools/lean_split.py) -/
import Qvnt.Generated.Regs
import Qvnt.Generated.Kernels
import Qvnt.Lemmas.Bits
import Mathlib.Tactic.Ring
import Mathlib.Algebra.Ring.Basic
import Qvnt.Lemmas.Queue

set_option linter.unusedSectionVars false
namespace Qvnt.Gen2
open Qvnt Qvnt.Gen
variable {R : Type}

theorem int_branch_eq (s : Interp R) (sep : Sep) : int_branch s sep = { s with qOps := s.qOps.branch sep } := by
  unfold int_branch ExtOp.branch
  by_cases h : s.qOps.tail.isEmpty <;> simp [h]

end Qvnt.Gen2
