/- `bind_ok_self` of GenInt.lean (one module per declaration, tools/lean_split.py) -/
import Qvnt.Generated.Regs
import Qvnt.Generated.Kernels
import Qvnt.Lemmas.Bits
import Mathlib.Tactic.Ring
import Mathlib.Algebra.Ring.Basic
import Qvnt.Lemmas.Queue

set_option linter.unusedSectionVars false
namespace Qvnt.Gen2
open Qvnt Qvnt.Gen
variable {R : Type}
section proc
variable [Add R] [Sub R] [Mul R] [Neg R] [Div R] [ExprFns R] [AngleFns R]

/-- `{ CALL?; Ok(()) }` with the `&mut` parameter returned is `CALL` -/
theorem bind_ok_self {α : Type} (x : Except IntError α) :
    Except.bind x (fun r => Except.bind (Except.ok () : Except IntError Unit) (fun _ => Except.ok r)) = x := by
  cases x <;> rfl

end proc
end Qvnt.Gen2
