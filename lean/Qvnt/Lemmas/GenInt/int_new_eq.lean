/- `int_new_eq` of GenInt.lean (one module per declaration, tools/lean_split.py) -/
import Qvnt.Generated.Regs
import Qvnt.Generated.Kernels
import Qvnt.Lemmas.Bits
import Mathlib.Tactic.Ring
import Mathlib.Algebra.Ring.Basic
import Qvnt.Lemmas.Queue
import Qvnt.Lemmas.GenInt.int_add_ast_eq
import Qvnt.Lemmas.GenMacro.KeysNodup

set_option linter.unusedSectionVars false
namespace Qvnt.Gen2
open Qvnt Qvnt.Gen
variable {R : Type}
section proc
variable [Add R] [Sub R] [Mul R] [Neg R] [Div R] [ExprFns R] [AngleFns R]

theorem int_new_eq [Zero R] [One R] [Consts R] (ast : List (Node R)) :
    int_new ast = (Interp.new ast : Res (Interp R)).toE := by
  unfold int_new Interp.new
  have hs : KeysNodup ({} : Interp R).macros := List.nodup_nil
  simp only [int_add_ast_eq _ hs]
  cases Interp.addAst ({} : Interp R) ast <;> rfl

end proc
end Qvnt.Gen2
