/- `int_process_node_eq` of GenInt.lean (one module per declaration, tools/lean_split.py) -/
import Qvnt.Generated.Regs
import Qvnt.Generated.Kernels
import Qvnt.Lemmas.Bits
import Mathlib.Tactic.Ring
import Mathlib.Algebra.Ring.Basic
import Qvnt.Lemmas.Queue
import Qvnt.Lemmas.GenInt.int_process_qreg_eq
import Qvnt.Lemmas.GenInt.int_process_creg_eq
import Qvnt.Lemmas.GenInt.int_process_barrier_eq
import Qvnt.Lemmas.GenInt.int_process_opaque_eq
import Qvnt.Lemmas.GenInt.int_process_reset_eq
import Qvnt.Lemmas.GenInt.int_process_measure_eq
import Qvnt.Lemmas.GenInt.eq_toE_of_exToRes
import Qvnt.Lemmas.GenInt.bind_ok_self
import Qvnt.Lemmas.GenInt.MacrosDisjoint
import Qvnt.Lemmas.GenInt.MacrosInv
import Qvnt.Lemmas.GenInt.int_process_apply_gate_eq
import Qvnt.Lemmas.GenInt.int_process_gate_eq
import Qvnt.Lemmas.GenInt.int_process_if_eq

set_option linter.unusedSectionVars false
namespace Qvnt.Gen2
open Qvnt Qvnt.Gen
variable {R : Type}
section proc
variable [Add R] [Sub R] [Mul R] [Neg R] [Div R] [ExprFns R] [AngleFns R]

theorem int_process_node_eq [Zero R] [One R] [Consts R] (s c : Interp R) (hd : MacrosInv s c) (node : Node R) :
    int_process_node s c node = (Interp.processNode s c node).toE := by
  unfold int_process_node
  cases node with
  | qreg a n => simp only [bind_ok_self]; exact eq_toE_of_exToRes (int_process_qreg_eq s c a n)
  | creg a n => simp only [bind_ok_self]; exact eq_toE_of_exToRes (int_process_creg_eq s c a n)
  | barrier => simp only [bind_ok_self]; exact eq_toE_of_exToRes (int_process_barrier_eq s c)
  | reset a => simp only [bind_ok_self]; exact eq_toE_of_exToRes (int_process_reset_eq s c a)
  | measure q cl => simp only [bind_ok_self]; exact eq_toE_of_exToRes (int_process_measure_eq s c q cl)
  | apply cl => simp only [bind_ok_self]; exact int_process_apply_gate_eq s c hd cl.name cl.regs cl.args
  | «opaque» => simp only [bind_ok_self]; exact eq_toE_of_exToRes (int_process_opaque_eq s c)
  | gate name regs args body => simp only [bind_ok_self]; exact int_process_gate_eq s c name regs args body
  | ifn lhs rhs body => simp only [bind_ok_self]; exact int_process_if_eq s c hd lhs rhs body

end proc
end Qvnt.Gen2
