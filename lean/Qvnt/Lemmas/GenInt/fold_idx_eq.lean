/- `fold_idx_eq` of GenInt.lean (one module per declaration, tools/lean_split.py) -/
import Qvnt.Generated.Regs
import Qvnt.Generated.Kernels
import Qvnt.Lemmas.Bits
import Mathlib.Tactic.Ring
import Mathlib.Algebra.Ring.Basic
import Qvnt.Lemmas.Queue

set_option linter.unusedSectionVars false
namespace Qvnt.Gen2
open Qvnt Qvnt.Gen
variable {R : Type}

theorem fold_idx_eq (l : List String) (a : String) :
    int_get_idx_by_alias_fold_idx_by_alias l a = Interp.maskByAlias l a := by
  unfold int_get_idx_by_alias_fold_idx_by_alias Interp.maskByAlias Rs.enumerate
  rw [List.filter_map, List.foldl_map]
  generalize l.zipIdx = z
  have key : ∀ (z : List (String × Nat)) (acc : Nat),
      List.foldl (fun (a2 : Nat) (a3 : String × Nat) => a2 ||| shlW 64 1 (a3.2 % 2 ^ 32)) acc
        (List.filter ((fun a1 : Nat × String => a1.2 == a) ∘ fun p : String × Nat => (p.2, p.1)) z) =
      List.foldl (fun acc (p : String × Nat) => if (p.1 == a) = true then acc ||| 1 <<< (p.2 % W) else acc) acc z := by
    intro z
    induction z with
    | nil => intro acc; rfl
    | cons x xs ih =>
      intro acc
      have hs : shlW 64 1 (x.2 % 2 ^ 32) = 1 <<< (x.2 % W) := by
        unfold shlW W
        have h1 : x.2 % 2 ^ 32 % 64 = x.2 % 64 := Nat.mod_mod_of_dvd _ (by decide)
        rw [h1, Nat.one_mul, Nat.shiftLeft_eq, Nat.one_mul,
          Nat.mod_eq_of_lt (Nat.pow_lt_pow_right (by decide) (Nat.mod_lt _ (by decide)))]
      by_cases hx : (x.1 == a) = true
      · simp only [List.filter_cons, Function.comp_apply, hx, ↓reduceIte, List.foldl_cons, hs, ih]
      · simp only [List.filter_cons, Function.comp_apply, hx, Bool.false_eq_true, ↓reduceIte, List.foldl_cons, ih]
  simpa using key z 0

end Qvnt.Gen2
