/- `MacrosInv` (added by hand after the split) -/
import Qvnt.Generated.Regs
import Qvnt.Generated.Kernels
import Qvnt.Lemmas.Bits
import Mathlib.Tactic.Ring
import Mathlib.Algebra.Ring.Basic
import Qvnt.Lemmas.Queue
import Qvnt.Lemmas.GenInt.MacrosDisjoint
import Qvnt.Lemmas.GenMacro.KeysNodup

set_option linter.unusedSectionVars false
namespace Qvnt.Gen2
open Qvnt Qvnt.Gen
variable {R : Type}
section proc
variable [Add R] [Sub R] [Mul R] [Neg R] [Div R] [ExprFns R] [AngleFns R]

/-- no gate name is defined twice, neither inside the session, nor inside the chunk being interpreted, nor across them
(the `HashMap`s of gate definitions have unique keys by construction; `process_gate` refuses a second definition) -/
def MacrosInv (s c : Interp R) : Prop := KeysNodup (s.macros ++ c.macros)

theorem MacrosInv.disjoint {s c : Interp R} (h : MacrosInv s c) : MacrosDisjoint s c := by
  intro p hp
  unfold MacrosInv KeysNodup at h
  rw [List.map_append, List.nodup_append] at h
  rw [List.any_eq_false]
  intro q hq hqk
  have hk : q.1 = p.1 := by simpa using hqk
  exact h.2.2 p.1 (List.mem_map_of_mem hp) q.1 (List.mem_map_of_mem hq) hk.symm

theorem macrosInv_empty (s : Interp R) (hs : KeysNodup s.macros) : MacrosInv s {} := by
  unfold MacrosInv
  show KeysNodup (s.macros ++ [])
  rw [List.append_nil]; exact hs

end proc
end Qvnt.Gen2
