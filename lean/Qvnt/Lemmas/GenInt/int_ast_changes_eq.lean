/- `int_ast_changes_eq` of GenInt.lean (one module per declaration, tools/lean_split.py) -/
import Qvnt.Generated.Regs
import Qvnt.Generated.Kernels
import Qvnt.Lemmas.Bits
import Mathlib.Tactic.Ring
import Mathlib.Algebra.Ring.Basic
import Qvnt.Lemmas.Queue
import Qvnt.Lemmas.GenInt.MacrosDisjoint
import Qvnt.Lemmas.GenInt.MacrosInv
import Qvnt.Lemmas.GenInt.int_process_nodes_eq

set_option linter.unusedSectionVars false
namespace Qvnt.Gen2
open Qvnt Qvnt.Gen
variable {R : Type}
section proc
variable [Add R] [Sub R] [Mul R] [Neg R] [Div R] [ExprFns R] [AngleFns R]

theorem int_ast_changes_eq [Zero R] [One R] [Consts R] (s c : Interp R) (hd : MacrosInv s c) (ast : List (Node R)) :
    int_ast_changes s c ast = (Interp.astChanges s c ast).toE := by
  unfold int_ast_changes Interp.astChanges
  simp only [int_process_nodes_eq s c hd]
  cases Interp.processNodes s c ast <;> rfl

end proc
end Qvnt.Gen2
