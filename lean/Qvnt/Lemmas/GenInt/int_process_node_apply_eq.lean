/- `int_process_node_apply_eq` of GenInt.lean (one module per declaration, tools/lean_split.py) -/
import Qvnt.Generated.Regs
import Qvnt.Generated.Kernels
import Qvnt.Lemmas.Bits
import Mathlib.Tactic.Ring
import Mathlib.Algebra.Ring.Basic
import Qvnt.Lemmas.Queue
import Qvnt.Lemmas.GenInt.MacrosDisjoint
import Qvnt.Lemmas.GenInt.MacrosInv
import Qvnt.Lemmas.GenInt.int_process_apply_gate_eq

set_option linter.unusedSectionVars false
namespace Qvnt.Gen2
open Qvnt Qvnt.Gen
variable {R : Type}
section proc
variable [Add R] [Sub R] [Mul R] [Neg R] [Div R] [ExprFns R] [AngleFns R]

theorem int_process_node_apply_eq [Zero R] [One R] [Consts R] (s c : Interp R) (hd : MacrosInv s c) (cl : Call R) :
    int_process_node_apply s c (.apply cl) = (Interp.processApply s c cl).toE := by
  unfold int_process_node_apply
  exact int_process_apply_gate_eq s c hd cl.name cl.regs cl.args

end proc
end Qvnt.Gen2
