/- `int_check_ident_eq` of GenInt.lean (one module per declaration, tools/lean_split.py) -/
import Qvnt.Generated.Regs
import Qvnt.Generated.Kernels
import Qvnt.Lemmas.Bits
import Mathlib.Tactic.Ring
import Mathlib.Algebra.Ring.Basic
import Qvnt.Lemmas.Queue

set_option linter.unusedSectionVars false
namespace Qvnt.Gen2
open Qvnt Qvnt.Gen
variable {R : Type}

theorem int_check_ident_eq (a : String) : int_check_ident a = Interp.checkIdent a := by
  unfold int_check_ident Interp.checkIdent Generated.identLimit
  by_cases h : a.utf8ByteSize ≥ 32 <;> simp [h]

end Qvnt.Gen2
