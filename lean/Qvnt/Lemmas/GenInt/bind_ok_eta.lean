/- `bind_ok_eta` of GenInt.lean (one module per declaration, tools/lean_split.py) -/
import Qvnt.Generated.Regs
import Qvnt.Generated.Kernels
import Qvnt.Lemmas.Bits
import Mathlib.Tactic.Ring
import Mathlib.Algebra.Ring.Basic
import Qvnt.Lemmas.Queue

set_option linter.unusedSectionVars false
namespace Qvnt.Gen2
open Qvnt Qvnt.Gen
variable {R : Type}
section proc
variable [Add R] [Sub R] [Mul R] [Neg R] [Div R] [ExprFns R] [AngleFns R]

theorem bind_ok_eta {α : Type} (x : Except IntError α) :
    Except.bind x (fun r => (Except.ok r : Except IntError α)) = x := by
  cases x <;> rfl

end proc
end Qvnt.Gen2
