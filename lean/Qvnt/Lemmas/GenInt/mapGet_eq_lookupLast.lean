/- `mapGet_eq_lookupLast` of GenInt.lean (one module per declaration, tools/lean_split.py) -/
import Qvnt.Generated.Regs
import Qvnt.Generated.Kernels
import Qvnt.Lemmas.Bits
import Mathlib.Tactic.Ring
import Mathlib.Algebra.Ring.Basic
import Qvnt.Lemmas.Queue

set_option linter.unusedSectionVars false
namespace Qvnt.Gen2
open Qvnt Qvnt.Gen
variable {R : Type}
section proc
variable [Add R] [Sub R] [Mul R] [Neg R] [Div R] [ExprFns R] [AngleFns R]

theorem mapGet_eq_lookupLast {α : Type} (m : List (String × α)) (k : String) : Rs.mapGet m k = lookupLast m k := rfl

end proc
end Qvnt.Gen2
