/- `exToRes` of GenInt.lean (one module per declaration, tools/lean_split.py) -/
import Qvnt.Generated.Regs
import Qvnt.Generated.Kernels
import Qvnt.Lemmas.Bits
import Mathlib.Tactic.Ring
import Mathlib.Algebra.Ring.Basic
import Qvnt.Lemmas.Queue

set_option linter.unusedSectionVars false
namespace Qvnt.Gen2
open Qvnt Qvnt.Gen
variable {R : Type}

/-- a Rust `Result<'t, T>` as the model's three-valued result (a `Result` never carries a panic) -/
def exToRes {α : Type} : Except IntError α → Res α
  | .ok a => .ok a
  | .error e => .err e

end Qvnt.Gen2
