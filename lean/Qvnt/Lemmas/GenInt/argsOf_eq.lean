/- `argsOf_eq` of GenInt.lean (one module per declaration, tools/lean_split.py) -/
import Qvnt.Generated.Regs
import Qvnt.Generated.Kernels
import Qvnt.Lemmas.Bits
import Mathlib.Tactic.Ring
import Mathlib.Algebra.Ring.Basic
import Qvnt.Lemmas.Queue

set_option linter.unusedSectionVars false
namespace Qvnt.Gen2
open Qvnt Qvnt.Gen
variable {R : Type}
section proc
variable [Add R] [Sub R] [Mul R] [Neg R] [Div R] [ExprFns R] [AngleFns R]

theorem argsOf_eq (l : List (PExpr R)) (acc : List R) :
    Interp.processApply.argsOf l acc = (List.mapM Interp.evalArg l).map (fun r => acc.reverse ++ r) := by
  induction l generalizing acc with
  | nil => simp [Interp.processApply.argsOf, pure, Except.pure, Except.map]
  | cons a as ih =>
    rw [Interp.processApply.argsOf, List.mapM_cons]
    cases h : evalExtended a [] with
    | error e =>
      have : Interp.evalArg a = .error (.unevaluatedArgument a.text e) := by simp [Interp.evalArg, h]
      simp [this, bind, Except.bind, Except.map]
    | ok v =>
      have : Interp.evalArg a = .ok v := by simp [Interp.evalArg, h]
      simp only [this, ih, bind, Except.bind]
      cases List.mapM Interp.evalArg as with
      | error e => simp [Except.map]
      | ok r => simp [Except.map, pure, Except.pure]

end proc
end Qvnt.Gen2
