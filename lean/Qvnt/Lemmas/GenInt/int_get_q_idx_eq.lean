/- `int_get_q_idx_eq` of GenInt.lean (one module per declaration, tools/lean_split.py) -/
import Qvnt.Generated.Regs
import Qvnt.Generated.Kernels
import Qvnt.Lemmas.Bits
import Mathlib.Tactic.Ring
import Mathlib.Algebra.Ring.Basic
import Qvnt.Lemmas.Queue
import Qvnt.Lemmas.GenBits.bitsList_eq
import Qvnt.Lemmas.GenInt.fold_idx_eq

set_option linter.unusedSectionVars false
namespace Qvnt.Gen2
open Qvnt Qvnt.Gen
variable {R : Type}

theorem int_get_q_idx_eq (s c : Interp R) (arg : Arg) :
    int_get_q_idx_with_context s c arg = Interp.getIdx s c true arg := by
  unfold int_get_q_idx_with_context Interp.getIdx int_get_idx_by_alias
  cases arg with
  | qubit nm idx =>
    simp only [fold_idx_eq, bitsList_eq, ↓reduceIte]
    by_cases h : Interp.maskByAlias (s.qReg ++ c.qReg) nm = 0
    · simp [h]
    · simp only [bne_iff_ne, ne_eq, h, not_false_eq_true, ↓reduceIte]
      cases (bitsIterList (Interp.maskByAlias (s.qReg ++ c.qReg) nm))[idx]? <;> rfl
  | register nm =>
    simp only [fold_idx_eq, ↓reduceIte]
    by_cases h : Interp.maskByAlias (s.qReg ++ c.qReg) nm = 0 <;> simp [h]

end Qvnt.Gen2
