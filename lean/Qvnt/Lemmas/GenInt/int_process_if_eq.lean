/- `int_process_if_eq` of GenInt.lean (one module per declaration, tools/lean_split.py) -/
import Qvnt.Generated.Regs
import Qvnt.Generated.Kernels
import Qvnt.Lemmas.Bits
import Mathlib.Tactic.Ring
import Mathlib.Algebra.Ring.Basic
import Qvnt.Lemmas.Queue
import Qvnt.Lemmas.GenInt.int_branch_eq
import Qvnt.Lemmas.GenInt.int_get_c_idx_eq
import Qvnt.Lemmas.GenInt.MacrosDisjoint
import Qvnt.Lemmas.GenInt.MacrosInv
import Qvnt.Lemmas.GenInt.int_process_node_apply_eq

set_option linter.unusedSectionVars false
namespace Qvnt.Gen2
open Qvnt Qvnt.Gen
variable {R : Type}
section proc
variable [Add R] [Sub R] [Mul R] [Neg R] [Div R] [ExprFns R] [AngleFns R]

theorem int_process_if_eq [Zero R] [One R] [Consts R] (s c : Interp R) (hd : MacrosInv s c)
    (lhs : String) (rhs : Nat) (body : Inner R) :
    int_process_if s c lhs rhs body = (Interp.processNode s c (.ifn lhs rhs body)).toE := by
  unfold int_process_if
  cases body with
  | other => rfl
  | call cl =>
    simp only [Interp.processNode, int_branch_eq, int_get_c_idx_eq]
    cases Interp.getIdx s { c with qOps := c.qOps.branch .nop } false (.register lhs) with
    | error e => rfl
    | ok val =>
      simp only [Except.bind]
      rw [int_process_node_apply_eq s _ (by exact hd)]
      generalize Interp.processApply s _ cl = r
      cases r with
      | ok ch' =>
        simp only [Res.toE]
        by_cases ht : (!List.isEmpty ch'.qOps.tail) = true <;> simp [ht]
      | err e => rfl
      | panic p => rfl

end proc
end Qvnt.Gen2
