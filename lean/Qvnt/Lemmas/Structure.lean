/-
LEMMAS — structural facts about the operator layer: products apply their factors in queue
order, controls, dagger, buffers. No ring axioms are used; every section asks only for the
core classes its statements mention.
-/
import Qvnt.Model.Op
import Qvnt.Model.Reg
import Qvnt.Model.OpExpr
import Qvnt.Spec.Gates

namespace Qvnt

/-! ### 0. bit-mask helpers (testBit extensionality) -/

theorem and_eq_right_iff_testBit (idx c : Nat) :
    idx &&& c = c ↔ ∀ i, c.testBit i = true → idx.testBit i = true := by
  constructor
  · intro h i hc
    have := congrArg (fun n => n.testBit i) h
    simp only [Nat.testBit_and, hc, Bool.and_true] at this
    exact this
  · intro h
    apply Nat.eq_of_testBit_eq
    intro i
    rw [Nat.testBit_and]
    cases hc : c.testBit i
    · simp
    · simp [h i hc]

theorem and_eq_zero_iff_testBit (x y : Nat) :
    x &&& y = 0 ↔ ∀ i, x.testBit i = true → y.testBit i = false := by
  constructor
  · intro h i hx
    have := congrArg (fun n => n.testBit i) h
    simp only [Nat.testBit_and, hx, Bool.true_and, Nat.zero_testBit] at this
    exact this
  · intro h
    apply Nat.eq_of_testBit_eq
    intro i
    rw [Nat.testBit_and, Nat.zero_testBit]
    cases hx : x.testBit i
    · simp
    · simp [h i hx]

/-- all bits of `c1 ||| c2` are set iff all bits of `c1` and all bits of `c2` are. -/
theorem and_or_eq_iff (idx c1 c2 : Nat) :
    idx &&& (c1 ||| c2) = c1 ||| c2 ↔ (idx &&& c1 = c1 ∧ idx &&& c2 = c2) := by
  simp only [and_eq_right_iff_testBit, Nat.testBit_or, Bool.or_eq_true]
  constructor
  · intro h
    exact ⟨fun i hi => h i (Or.inl hi), fun i hi => h i (Or.inr hi)⟩
  · rintro ⟨h1, h2⟩ i (hi | hi)
    · exact h1 i hi
    · exact h2 i hi

theorem or_and_eq_zero_iff (x y z : Nat) :
    (x ||| y) &&& z = 0 ↔ x &&& z = 0 ∧ y &&& z = 0 := by
  simp only [and_eq_zero_iff_testBit, Nat.testBit_or, Bool.or_eq_true]
  constructor
  · intro h
    exact ⟨fun i hi => h i (Or.inl hi), fun i hi => h i (Or.inr hi)⟩
  · rintro ⟨h1, h2⟩ i (hi | hi)
    · exact h1 i hi
    · exact h2 i hi

theorem and_or_eq_zero_iff (x y z : Nat) :
    x &&& (y ||| z) = 0 ↔ x &&& y = 0 ∧ x &&& z = 0 := by
  rw [Nat.and_comm x, or_and_eq_zero_iff, Nat.and_comm y, Nat.and_comm z]

/-! ### 1. products apply their factors in queue order -/

section products
variable {R : Type}

namespace MultiOp

theorem mul_assoc (a b c : MultiOp R) :
    MultiOp.mul (MultiOp.mul a b) c = MultiOp.mul a (MultiOp.mul b c) :=
  List.append_assoc a b c

theorem nil_mul (a : MultiOp R) : MultiOp.mul [] a = a := rfl

theorem mul_nil (a : MultiOp R) : MultiOp.mul a [] = a := List.append_nil a

theorem ofSingle_id : MultiOp.ofSingle (SingleOp.ofAtom (Atom.id : Atom R)) = [] := rfl

variable [Add R] [Sub R] [Mul R] [Neg R] [Consts R]

/-- invariant of the buffer ping-pong: the "input" buffer always holds the running fold. -/
theorem applyBuffers_fold_fst (o : MultiOp R) (ψ junk : State R) :
    (o.foldl (fun (st : State R × State R) g => (g.apply st.1, st.1)) (ψ, junk)).1
      = o.foldl (fun ψ g => g.apply ψ) ψ := by
  induction o generalizing ψ junk with
  | nil => rfl
  | cons g o ih => simp only [List.foldl_cons]; exact ih _ _

theorem applyBuffers_fst_snd (o : MultiOp R) (ψ junk : State R) :
    (MultiOp.applyBuffers o ψ junk).2 = o.foldl (fun ψ g => g.apply ψ) ψ :=
  applyBuffers_fold_fst o ψ junk

theorem apply_eq_foldl (o : MultiOp R) (ψ : State R) :
    o.apply ψ = o.foldl (fun ψ g => g.apply ψ) ψ :=
  applyBuffers_fst_snd o ψ _

theorem apply_nil (ψ : State R) : MultiOp.apply ([] : MultiOp R) ψ = ψ := rfl

theorem apply_singleton (g : SingleOp R) (ψ : State R) :
    MultiOp.apply [g] ψ = g.apply ψ := rfl

theorem apply_cons (g : SingleOp R) (o : MultiOp R) (ψ : State R) :
    MultiOp.apply (g :: o) ψ = MultiOp.apply o (g.apply ψ) := by
  simp only [apply_eq_foldl, List.foldl_cons]

theorem apply_append (a b : MultiOp R) (ψ : State R) :
    MultiOp.apply (a ++ b) ψ = MultiOp.apply b (MultiOp.apply a ψ) := by
  simp only [apply_eq_foldl, List.foldl_append]

theorem apply_mul (a b : MultiOp R) (ψ : State R) :
    (MultiOp.mul a b).apply ψ = b.apply (a.apply ψ) :=
  apply_append a b ψ

end MultiOp
end products

/-! ### 2. controls -/

section controls
variable {R : Type}

theorem Spec.ctrl_zero (A : State R → State R) (ψ : State R) : Spec.ctrl 0 A ψ = A ψ := by
  funext idx
  simp only [Spec.ctrl, Nat.and_zero, if_true]

namespace SingleOp

/-- the element `g.c cm` produces when it succeeds -/
def addCtrl (g : SingleOp R) (cm : Nat) : SingleOp R := { g with ctrl := g.ctrl ||| cm }

@[simp] theorem addCtrl_act (g : SingleOp R) (cm : Nat) : (g.addCtrl cm).act = g.act := rfl
@[simp] theorem addCtrl_ctrl (g : SingleOp R) (cm : Nat) :
    (g.addCtrl cm).ctrl = g.ctrl ||| cm := rfl
@[simp] theorem addCtrl_func (g : SingleOp R) (cm : Nat) : (g.addCtrl cm).func = g.func := rfl

theorem addCtrl_actOn (g : SingleOp R) (cm : Nat) :
    (g.addCtrl cm).actOn = g.actOn ||| cm := by
  simp only [actOn, addCtrl, Nat.or_assoc]

theorem c_eq_some (g : SingleOp R) (cm : Nat) (h : g.actOn &&& cm = 0) :
    g.c cm = some (g.addCtrl cm) := by
  simp only [c, h, ne_eq, not_true_eq_false, if_false, addCtrl]

theorem c_eq_none (g : SingleOp R) (cm : Nat) (h : g.actOn &&& cm ≠ 0) :
    g.c cm = none := by
  simp only [c, h, ne_eq, not_false_eq_true, if_true]

theorem c_isSome_iff (g : SingleOp R) (cm : Nat) :
    (g.c cm).isSome ↔ g.actOn &&& cm = 0 := by
  by_cases h : g.actOn &&& cm = 0
  · simp [c_eq_some g cm h, h]
  · simp [c_eq_none g cm h, h]

theorem c_eq_some_iff (g g' : SingleOp R) (cm : Nat) :
    g.c cm = some g' ↔ g.actOn &&& cm = 0 ∧ g' = g.addCtrl cm := by
  by_cases h : g.actOn &&& cm = 0
  · simp [c_eq_some g cm h, h, eq_comm]
  · simp [c_eq_none g cm h, h]

theorem c_spec (g g' : SingleOp R) (cm : Nat) (h : g.c cm = some g') :
    g'.act = g.act ∧ g'.ctrl = g.ctrl ||| cm ∧ g'.func = g.func ∧
      g'.actOn = g.actOn ||| cm := by
  obtain ⟨_, rfl⟩ := (c_eq_some_iff g g' cm).1 h
  exact ⟨rfl, rfl, rfl, addCtrl_actOn g cm⟩

theorem addCtrl_addCtrl (g : SingleOp R) (c1 c2 : Nat) :
    (g.addCtrl c1).addCtrl c2 = g.addCtrl (c1 ||| c2) := by
  simp only [addCtrl, Nat.or_assoc]

/-- two successive `.c` calls: refused when the two control masks overlap, otherwise the
same as one call with the union. -/
theorem c_c (g : SingleOp R) (c1 c2 : Nat) :
    (g.c c1).bind (fun g' => g'.c c2)
      = if c1 &&& c2 = 0 then g.c (c1 ||| c2) else none := by
  by_cases h1 : g.actOn &&& c1 = 0
  · rw [c_eq_some g c1 h1, Option.bind_some]
    by_cases h2 : g.actOn &&& c2 = 0
    · by_cases h12 : c1 &&& c2 = 0
      · rw [if_pos h12, c_eq_some _ c2, c_eq_some g (c1 ||| c2), addCtrl_addCtrl]
        · exact (and_or_eq_zero_iff _ _ _).2 ⟨h1, h2⟩
        · rw [addCtrl_actOn]; exact (or_and_eq_zero_iff _ _ _).2 ⟨h2, h12⟩
      · rw [if_neg h12, c_eq_none]
        rw [addCtrl_actOn]
        intro h; exact h12 ((or_and_eq_zero_iff _ _ _).1 h).2
    · have hn : (g.addCtrl c1).c c2 = none := by
        apply c_eq_none
        rw [addCtrl_actOn]
        intro h; exact h2 ((or_and_eq_zero_iff _ _ _).1 h).1
      rw [hn]
      split
      · rw [c_eq_none]
        intro h; exact h2 ((and_or_eq_zero_iff _ _ _).1 h).2
      · rfl
  · rw [c_eq_none g c1 h1, Option.bind_none]
    split
    · rw [c_eq_none]
      intro h; exact h1 ((and_or_eq_zero_iff _ _ _).1 h).1
    · rfl

theorem c_c_of_disjoint (g : SingleOp R) (c1 c2 : Nat) (h : c1 &&& c2 = 0) :
    (g.c c1).bind (fun g' => g'.c c2) = g.c (c1 ||| c2) := by
  rw [c_c, if_pos h]

section
variable [Add R] [Sub R] [Mul R] [Neg R] [Consts R]

theorem apply_eq_ctrl (g : SingleOp R) (ψ : State R) :
    g.apply ψ = Spec.ctrl g.ctrl (fun φ => g.func.op φ) ψ := by
  funext idx
  simp only [apply, Spec.ctrl]
  by_cases h : g.ctrl = 0
  · simp [h]
  · simp [h]

theorem addCtrl_apply (g : SingleOp R) (cm : Nat) (ψ : State R) :
    (g.addCtrl cm).apply ψ = Spec.ctrl (g.ctrl ||| cm) (fun φ => g.func.op φ) ψ :=
  apply_eq_ctrl _ ψ

/-- adding controls to a controlled gate = controlling the controlled gate -/
theorem addCtrl_apply_eq_ctrl_apply (g : SingleOp R) (cm : Nat) (ψ : State R) :
    (g.addCtrl cm).apply ψ = Spec.ctrl cm (fun φ => g.apply φ) ψ := by
  funext idx
  rw [addCtrl_apply]
  simp only [Spec.ctrl, and_or_eq_iff, apply_eq_ctrl]
  by_cases h1 : idx &&& g.ctrl = g.ctrl <;> by_cases h2 : idx &&& cm = cm <;> simp [h1, h2]

end

end SingleOp

namespace MultiOp

theorem foldl_or_actOn (o : MultiOp R) (acc : Nat) :
    o.foldl (fun acc g => acc ||| g.actOn) acc = acc ||| MultiOp.actOn o := by
  induction o generalizing acc with
  | nil => simp [actOn]
  | cons g o ih =>
    simp only [actOn, List.foldl_cons]
    rw [ih, ih (0 ||| g.actOn), Nat.zero_or, Nat.or_assoc]

theorem actOn_nil : MultiOp.actOn ([] : MultiOp R) = 0 := rfl

theorem actOn_cons (g : SingleOp R) (o : MultiOp R) :
    MultiOp.actOn (g :: o) = g.actOn ||| MultiOp.actOn o := by
  simp only [actOn, List.foldl_cons]
  rw [foldl_or_actOn, Nat.zero_or]; rfl

theorem actOn_singleton (g : SingleOp R) : MultiOp.actOn [g] = g.actOn := by
  rw [actOn_cons, actOn_nil, Nat.or_zero]

theorem actOn_append (a b : MultiOp R) :
    MultiOp.actOn (a ++ b) = MultiOp.actOn a ||| MultiOp.actOn b := by
  induction a with
  | nil => simp [actOn_nil]
  | cons g a ih => rw [List.cons_append, actOn_cons, actOn_cons, ih, Nat.or_assoc]

theorem actOn_mul (a b : MultiOp R) :
    MultiOp.actOn (MultiOp.mul a b) = MultiOp.actOn a ||| MultiOp.actOn b :=
  actOn_append a b

/-- every element's `act_on` is a sub-mask of the product's -/
theorem actOn_and_eq_zero_iff (o : MultiOp R) (cm : Nat) :
    MultiOp.actOn o &&& cm = 0 ↔ ∀ g ∈ o, g.actOn &&& cm = 0 := by
  induction o with
  | nil => simp [actOn_nil]
  | cons g o ih => simp [actOn_cons, or_and_eq_zero_iff, ih]

theorem mapM_c_eq_some (o : MultiOp R) (cm : Nat) (h : ∀ g ∈ o, g.actOn &&& cm = 0) :
    o.mapM (fun g => g.c cm) = some (o.map (fun g => g.addCtrl cm)) := by
  induction o with
  | nil => rfl
  | cons g o ih =>
    rw [List.mapM_cons, SingleOp.c_eq_some g cm (h g (List.mem_cons_self)),
      ih (fun g' hg' => h g' (List.mem_cons_of_mem _ hg'))]
    rfl

theorem c_eq_some (o : MultiOp R) (cm : Nat) (h : MultiOp.actOn o &&& cm = 0) :
    MultiOp.c o cm = some (o.map (fun g => g.addCtrl cm)) := by
  simp only [c, h, ne_eq, not_true_eq_false, if_false]
  exact mapM_c_eq_some o cm ((actOn_and_eq_zero_iff o cm).1 h)

theorem c_eq_none (o : MultiOp R) (cm : Nat) (h : MultiOp.actOn o &&& cm ≠ 0) :
    MultiOp.c o cm = none := by
  simp only [c, h, ne_eq, not_false_eq_true, if_true]

theorem c_eq_some_iff (o o' : MultiOp R) (cm : Nat) :
    MultiOp.c o cm = some o' ↔
      MultiOp.actOn o &&& cm = 0 ∧ o' = o.map (fun g => g.addCtrl cm) := by
  by_cases h : MultiOp.actOn o &&& cm = 0
  · simp [c_eq_some o cm h, h, eq_comm]
  · simp [c_eq_none o cm h, h]

/-- the inner `mapM` (the Rust `unwrap`) never fails when the outer test passes -/
theorem c_isSome_iff (o : MultiOp R) (cm : Nat) :
    (MultiOp.c o cm).isSome ↔ MultiOp.actOn o &&& cm = 0 := by
  by_cases h : MultiOp.actOn o &&& cm = 0
  · simp [c_eq_some o cm h, h]
  · simp [c_eq_none o cm h, h]

theorem c_nil (cm : Nat) : MultiOp.c ([] : MultiOp R) cm = some [] := by
  rw [c_eq_some _ _ (by rw [actOn_nil, Nat.zero_and])]; rfl

theorem actOn_map_addCtrl (o : MultiOp R) (cm : Nat) (hne : o ≠ []) :
    MultiOp.actOn (o.map (fun g => g.addCtrl cm)) = MultiOp.actOn o ||| cm := by
  induction o with
  | nil => exact absurd rfl hne
  | cons g o ih =>
    rw [List.map_cons, actOn_cons, actOn_cons, SingleOp.addCtrl_actOn]
    by_cases ho : o = []
    · subst ho
      simp only [List.map_nil, actOn_nil, Nat.or_zero]
    · rw [ih ho]
      apply Nat.eq_of_testBit_eq
      intro i
      simp only [Nat.testBit_or]
      cases g.actOn.testBit i <;> cases cm.testBit i <;> cases (MultiOp.actOn o).testBit i <;> rfl

theorem c_spec (o o' : MultiOp R) (cm : Nat) (h : MultiOp.c o cm = some o') :
    o'.length = o.length ∧
      (∀ i (hi : i < o.length) (hi' : i < o'.length), o[i].c cm = some o'[i]) ∧
      (o ≠ [] → MultiOp.actOn o' = MultiOp.actOn o ||| cm) ∧
      (o = [] → o' = []) := by
  obtain ⟨h0, rfl⟩ := (c_eq_some_iff o o' cm).1 h
  refine ⟨List.length_map _, ?_, actOn_map_addCtrl o cm, ?_⟩
  · intro i hi hi'
    rw [List.getElem_map]
    exact SingleOp.c_eq_some _ _ ((actOn_and_eq_zero_iff o cm).1 h0 _ (List.getElem_mem hi))
  · rintro rfl; rfl

theorem c_append (a b : MultiOp R) (cm : Nat) :
    MultiOp.c (a ++ b) cm = (do
      let a' ← MultiOp.c a cm
      let b' ← MultiOp.c b cm
      pure (a' ++ b')) := by
  by_cases ha : MultiOp.actOn a &&& cm = 0
  · by_cases hb : MultiOp.actOn b &&& cm = 0
    · rw [c_eq_some a cm ha, c_eq_some b cm hb, c_eq_some (a ++ b) cm, List.map_append]
      · rfl
      · rw [actOn_append]; exact (or_and_eq_zero_iff _ _ _).2 ⟨ha, hb⟩
    · rw [c_eq_some a cm ha, c_eq_none b cm hb, c_eq_none]
      · rfl
      · rw [actOn_append]; intro h; exact hb ((or_and_eq_zero_iff _ _ _).1 h).2
  · rw [c_eq_none a cm ha, c_eq_none]
    · rfl
    · rw [actOn_append]; intro h; exact ha ((or_and_eq_zero_iff _ _ _).1 h).1

theorem c_mul (a b : MultiOp R) (cm : Nat) :
    MultiOp.c (MultiOp.mul a b) cm = (do
      let a' ← MultiOp.c a cm
      let b' ← MultiOp.c b cm
      pure (MultiOp.mul a' b')) :=
  c_append a b cm

section
variable [Add R] [Sub R] [Mul R] [Neg R] [Consts R]

/-- a controlled product applies, in queue order, each factor with the extra controls -/
theorem c_apply (o o' : MultiOp R) (cm : Nat) (h : MultiOp.c o cm = some o') (ψ : State R) :
    o'.apply ψ = o.foldl (fun ψ g => (g.addCtrl cm).apply ψ) ψ := by
  obtain ⟨_, rfl⟩ := (c_eq_some_iff o o' cm).1 h
  rw [apply_eq_foldl, List.foldl_map]

/-- the same, each step written with the reference `Spec.ctrl` -/
theorem c_apply_ctrl (o o' : MultiOp R) (cm : Nat) (h : MultiOp.c o cm = some o')
    (ψ : State R) :
    o'.apply ψ
      = o.foldl (fun ψ g => Spec.ctrl (g.ctrl ||| cm) (fun φ => g.func.op φ) ψ) ψ := by
  rw [c_apply o o' cm h]
  simp only [SingleOp.addCtrl_apply]

/-- the same, each step as "the factor itself, under the controls `cm`" -/
theorem c_apply_ctrl_apply (o o' : MultiOp R) (cm : Nat) (h : MultiOp.c o cm = some o')
    (ψ : State R) :
    o'.apply ψ = o.foldl (fun ψ g => Spec.ctrl cm (fun φ => g.apply φ) ψ) ψ := by
  rw [c_apply o o' cm h]
  simp only [SingleOp.addCtrl_apply_eq_ctrl_apply]

end

end MultiOp
end controls

/-! ### 3. dagger -/

section dagger
variable {R : Type} [Neg R]

theorem Cx.conj_conj (hneg : ∀ x : R, - - x = x) (z : Cx R) : z.conj.conj = z := by
  cases z; simp only [Cx.conj, hneg]

namespace Atom

theorem dgr_actsOn (g : Atom R) : g.dgr.actsOn = g.actsOn := by
  cases g <;> rfl

theorem dgr_isValid (g : Atom R) : g.dgr.isValid = g.isValid := by
  cases g <;> rfl

theorem dgr_dgr (hneg : ∀ x : R, - - x = x) (g : Atom R) : g.dgr.dgr = g := by
  cases g <;> simp only [dgr, Bool.not_not, Cx.conj_conj hneg]

end Atom

namespace SingleOp

theorem dgr_act (g : SingleOp R) : g.dgr.act = g.act := rfl
theorem dgr_ctrl (g : SingleOp R) : g.dgr.ctrl = g.ctrl := rfl
theorem dgr_func (g : SingleOp R) : g.dgr.func = g.func.dgr := rfl
theorem dgr_actOn (g : SingleOp R) : g.dgr.actOn = g.actOn := rfl

theorem dgr_dgr (hneg : ∀ x : R, - - x = x) (g : SingleOp R) : g.dgr.dgr = g := by
  cases g; simp only [dgr, Atom.dgr_dgr hneg]

theorem dgr_addCtrl (g : SingleOp R) (cm : Nat) : (g.addCtrl cm).dgr = g.dgr.addCtrl cm := rfl

theorem dgr_c (g : SingleOp R) (cm : Nat) : g.dgr.c cm = (g.c cm).map SingleOp.dgr := by
  by_cases h : g.actOn &&& cm = 0
  · rw [c_eq_some g cm h, c_eq_some g.dgr cm h]; rfl
  · rw [c_eq_none g cm h, c_eq_none g.dgr cm h]; rfl

end SingleOp

namespace MultiOp

theorem dgr_nil : MultiOp.dgr ([] : MultiOp R) = [] := rfl

theorem dgr_cons (g : SingleOp R) (o : MultiOp R) :
    MultiOp.dgr (g :: o) = MultiOp.dgr o ++ [g.dgr] := by
  simp only [dgr, List.map_cons, List.reverse_cons]

theorem dgr_singleton (g : SingleOp R) : MultiOp.dgr [g] = [g.dgr] := rfl

theorem dgr_append (a b : MultiOp R) :
    MultiOp.dgr (a ++ b) = MultiOp.dgr b ++ MultiOp.dgr a := by
  simp only [dgr, List.map_append, List.reverse_append]

theorem dgr_mul (a b : MultiOp R) :
    MultiOp.dgr (MultiOp.mul a b) = MultiOp.mul (MultiOp.dgr b) (MultiOp.dgr a) :=
  dgr_append a b

theorem dgr_length (o : MultiOp R) : (MultiOp.dgr o).length = o.length := by
  simp only [dgr, List.length_reverse, List.length_map]

theorem dgr_actOn (o : MultiOp R) : MultiOp.actOn (MultiOp.dgr o) = MultiOp.actOn o := by
  induction o with
  | nil => rfl
  | cons g o ih =>
    rw [dgr_cons, actOn_append, actOn_singleton, actOn_cons, ih, SingleOp.dgr_actOn,
      Nat.or_comm]

theorem dgr_dgr (hneg : ∀ x : R, - - x = x) (o : MultiOp R) :
    MultiOp.dgr (MultiOp.dgr o) = o := by
  induction o with
  | nil => rfl
  | cons g o ih =>
    rw [dgr_cons, dgr_append, dgr_singleton, ih, SingleOp.dgr_dgr hneg]; rfl

theorem dgr_map_addCtrl (o : MultiOp R) (cm : Nat) :
    MultiOp.dgr (o.map (fun g => g.addCtrl cm))
      = (MultiOp.dgr o).map (fun g => g.addCtrl cm) := by
  simp only [dgr, List.map_map, List.map_reverse]
  rfl

theorem dgr_c (o : MultiOp R) (cm : Nat) :
    MultiOp.c (MultiOp.dgr o) cm = (MultiOp.c o cm).map MultiOp.dgr := by
  by_cases h : MultiOp.actOn o &&& cm = 0
  · rw [c_eq_some o cm h, c_eq_some (MultiOp.dgr o) cm (by rw [dgr_actOn]; exact h),
      Option.map_some, dgr_map_addCtrl]
  · rw [c_eq_none o cm h, c_eq_none (MultiOp.dgr o) cm (by rw [dgr_actOn]; exact h)]
    rfl

end MultiOp
end dagger

/-! ### 4. buffers -/

section buffers
variable {R : Type} [Add R] [Sub R] [Mul R] [Neg R] [Zero R] [Consts R]

theorem SingleOp.applyArr_size (g : SingleOp R) (a : Array (Cx R)) :
    (g.applyArr a).size = a.size := by
  simp only [SingleOp.applyArr, Array.size_ofFn]

theorem SingleOp.bufFn_applyArr (g : SingleOp R) (a : Array (Cx R)) (i : Nat)
    (h : i < a.size) : bufFn (g.applyArr a) i = g.apply (bufFn a) i := by
  simp [bufFn, SingleOp.applyArr, Array.getD, h]

/-- outside the buffer the read view is 0 (a Rust panic) -/
theorem SingleOp.bufFn_applyArr_of_le (g : SingleOp R) (a : Array (Cx R)) (i : Nat)
    (h : a.size ≤ i) : bufFn (g.applyArr a) i = 0 := by
  have : ¬ i < a.size := Nat.not_lt.2 h
  simp [bufFn, SingleOp.applyArr, Array.getD, this]

namespace MultiOp

theorem applyArr_nil (buf : Array (Cx R)) : MultiOp.applyArr ([] : MultiOp R) buf = buf := rfl

theorem applyArr_cons (g : SingleOp R) (o : MultiOp R) (buf : Array (Cx R)) :
    MultiOp.applyArr (g :: o) buf = MultiOp.applyArr o (g.applyArr buf) := rfl

theorem applyArr_append (a b : MultiOp R) (buf : Array (Cx R)) :
    MultiOp.applyArr (a ++ b) buf = MultiOp.applyArr b (MultiOp.applyArr a buf) := by
  simp only [applyArr, List.foldl_append]

theorem applyArr_mul (a b : MultiOp R) (buf : Array (Cx R)) :
    MultiOp.applyArr (MultiOp.mul a b) buf = MultiOp.applyArr b (MultiOp.applyArr a buf) :=
  applyArr_append a b buf

theorem applyArr_size (o : MultiOp R) (buf : Array (Cx R)) :
    (MultiOp.applyArr o buf).size = buf.size := by
  induction o generalizing buf with
  | nil => rfl
  | cons g o ih => rw [applyArr_cons, ih, SingleOp.applyArr_size]

end MultiOp

theorem QReg.apply_nil (r : QReg R) : r.apply ([] : MultiOp R) = r := rfl

theorem QReg.apply_mul (r : QReg R) (a b : MultiOp R) :
    r.apply (MultiOp.mul a b) = (r.apply a).apply b := by
  simp only [QReg.apply, MultiOp.applyArr_mul]

theorem QReg.apply_psi_size (r : QReg R) (o : MultiOp R) :
    (r.apply o).psi.size = r.psi.size :=
  MultiOp.applyArr_size o r.psi

end buffers

end Qvnt

/-! ### axiom audit -/
#print axioms Qvnt.and_or_eq_iff
#print axioms Qvnt.or_and_eq_zero_iff
#print axioms Qvnt.and_or_eq_zero_iff
#print axioms Qvnt.MultiOp.applyBuffers_fst_snd
#print axioms Qvnt.MultiOp.apply_eq_foldl
#print axioms Qvnt.MultiOp.apply_nil
#print axioms Qvnt.MultiOp.apply_cons
#print axioms Qvnt.MultiOp.apply_append
#print axioms Qvnt.MultiOp.apply_mul
#print axioms Qvnt.MultiOp.mul_assoc
#print axioms Qvnt.MultiOp.nil_mul
#print axioms Qvnt.MultiOp.mul_nil
#print axioms Qvnt.MultiOp.ofSingle_id
#print axioms Qvnt.SingleOp.apply_eq_ctrl
#print axioms Qvnt.Spec.ctrl_zero
#print axioms Qvnt.SingleOp.c_isSome_iff
#print axioms Qvnt.SingleOp.c_spec
#print axioms Qvnt.SingleOp.c_c
#print axioms Qvnt.SingleOp.c_c_of_disjoint
#print axioms Qvnt.SingleOp.addCtrl_apply_eq_ctrl_apply
#print axioms Qvnt.MultiOp.actOn_nil
#print axioms Qvnt.MultiOp.actOn_cons
#print axioms Qvnt.MultiOp.actOn_append
#print axioms Qvnt.MultiOp.c_isSome_iff
#print axioms Qvnt.MultiOp.c_eq_some_iff
#print axioms Qvnt.MultiOp.c_spec
#print axioms Qvnt.MultiOp.c_apply
#print axioms Qvnt.MultiOp.c_apply_ctrl
#print axioms Qvnt.MultiOp.c_apply_ctrl_apply
#print axioms Qvnt.MultiOp.c_append
#print axioms Qvnt.MultiOp.dgr_nil
#print axioms Qvnt.MultiOp.dgr_append
#print axioms Qvnt.MultiOp.dgr_mul
#print axioms Qvnt.SingleOp.dgr_actOn
#print axioms Qvnt.MultiOp.dgr_actOn
#print axioms Qvnt.Atom.dgr_actsOn
#print axioms Qvnt.Atom.dgr_isValid
#print axioms Qvnt.Atom.dgr_dgr
#print axioms Qvnt.SingleOp.dgr_dgr
#print axioms Qvnt.MultiOp.dgr_dgr
#print axioms Qvnt.SingleOp.dgr_c
#print axioms Qvnt.MultiOp.dgr_c
#print axioms Qvnt.SingleOp.applyArr_size
#print axioms Qvnt.SingleOp.bufFn_applyArr
#print axioms Qvnt.MultiOp.applyArr_size
#print axioms Qvnt.MultiOp.applyArr_nil
#print axioms Qvnt.MultiOp.applyArr_cons
#print axioms Qvnt.MultiOp.applyArr_append
#print axioms Qvnt.QReg.apply_mul
