/-
LEMMAS — the matrix reported by `Applicable::matrix` is the linear map `apply` performs, and
the matrix of the dagger is the conjugate transpose.

`MultiOp.matrix o i j` is by definition `o.apply e_j i` (`e_j` the `j`-th basis state). For a
state supported below `N`, linearity of the refined circuit gives
`o.apply ψ i = Σ_{j<N} matrix o i j * ψ j`.
-/
import Qvnt.Lemmas.DenoteUnitary

namespace Qvnt.Spec
open Qvnt

variable {R : Type} [CommRing R]

/-- the `j`-th basis state -/
def basis (j : Nat) : State R := fun k => if k = j then 1 else 0

/-- additive and homogeneous, in the pointwise form used by `SpecAlg` -/
structure IsLinear (A : State R → State R) : Prop where
  add : ∀ ψ φ : State R, A (fun i => ψ i + φ i) = fun i => A ψ i + A φ i
  smul : ∀ (z : Cx R) (ψ : State R), A (fun i => z * ψ i) = fun i => z * A ψ i

theorem actAll_isLinear (gs : List (SGate R)) : IsLinear (actAll gs) :=
  ⟨actAll_add gs, actAll_smul gs⟩

theorem SGate.act_isLinear (g : SGate R) : IsLinear g.act := ⟨g.act_add, g.act_smul⟩

theorem IsLinear.zero {A : State R → State R} (h : IsLinear A) :
    A (fun _ => 0) = fun _ => 0 := by
  have := h.smul 0 (fun _ => 0)
  simpa using this

theorem IsLinear.sum {A : State R → State R} (h : IsLinear A) (N : Nat) (c : Nat → Cx R)
    (f : Nat → State R) :
    A (fun i => ∑ j ∈ Finset.range N, c j * f j i)
      = fun i => ∑ j ∈ Finset.range N, c j * A (f j) i := by
  induction N with
  | zero => simpa using h.zero
  | succ N ih =>
    have e : (fun i => ∑ j ∈ Finset.range (N + 1), c j * f j i)
        = fun i => (fun i => ∑ j ∈ Finset.range N, c j * f j i) i + (fun i => c N * f N i) i := by
      funext i; rw [Finset.sum_range_succ]
    rw [e, h.add, ih, h.smul]
    funext i
    rw [Finset.sum_range_succ]

/-- a state supported below `N` is the finite combination of basis states -/
theorem eq_sum_basis (N : Nat) (ψ : State R) (hψ : ∀ i, N ≤ i → ψ i = 0) :
    ψ = fun i => ∑ j ∈ Finset.range N, ψ j * basis j i := by
  funext i
  simp only [basis, mul_ite, mul_one, mul_zero, Finset.sum_ite_eq, Finset.mem_range]
  split
  · rfl
  · exact hψ i (by omega)

/-- **A linear map is given by its columns.** -/
theorem IsLinear.apply_eq_sum {A : State R → State R} (h : IsLinear A) (N : Nat) (ψ : State R)
    (hψ : ∀ i, N ≤ i → ψ i = 0) (i : Nat) :
    A ψ i = ∑ j ∈ Finset.range N, A (basis j) i * ψ j := by
  conv_lhs => rw [eq_sum_basis N ψ hψ]
  rw [h.sum N (fun j => ψ j) (fun j => basis j)]
  exact Finset.sum_congr rfl (fun j _ => mul_comm _ _)

/-! ## the matrix of the dagger is the conjugate transpose -/

/-- `A'` has the conjugate-transposed matrix of `A` (all entries) -/
def AdjPair (A A' : State R → State R) : Prop :=
  ∀ i j, A' (basis j) i = (A (basis i) j).conj

theorem conj_sum_range (N : Nat) (f : Nat → Cx R) :
    (∑ k ∈ Finset.range N, f k).conj = ∑ k ∈ Finset.range N, (f k).conj := by
  induction N with
  | zero => simp
  | succ N ih => rw [Finset.sum_range_succ, Finset.sum_range_succ, Cx.conj_add, ih]

theorem basis_apply (j k : Nat) : (basis j : State R) k = if k = j then 1 else 0 := rfl

/-! ### one-qubit primitives -/

theorem act1_adjPair (M : Mat2 R) (k : Nat) : AdjPair (act1 M (2 ^ k)) (act1 M.adj (2 ^ k)) := by
  intro i j
  have ha : (2 : Nat) ^ k ≠ 0 := by positivity
  by_cases hij : i = j
  · subst hij
    have hne : i ^^^ 2 ^ k ≠ i := by
      intro h
      have : i ^^^ 2 ^ k ^^^ i = 0 := by rw [h, Nat.xor_self]
      rw [Nat.xor_comm, ← Nat.xor_assoc, Nat.xor_self, Nat.zero_xor] at this
      exact ha this
    simp only [act1, basis_apply, hne, if_true, if_false]
    split <;> simp [Mat2.adj]
  · by_cases hx : i ^^^ 2 ^ k = j
    · subst hx
      have hback : i ^^^ 2 ^ k ^^^ 2 ^ k = i := xor_cancel i _
      by_cases h0 : i &&& 2 ^ k = 0
      · have h1 : (i ^^^ 2 ^ k) &&& 2 ^ k ≠ 0 := (xor_two_pow_and_ne_zero i k).2 h0
        simp [act1, basis_apply, hback, h0, h1, hij, Ne.symm hij, Mat2.adj]
      · have h1 : (i ^^^ 2 ^ k) &&& 2 ^ k = 0 := (xor_two_pow_and_eq_zero i k).2 h0
        simp [act1, basis_apply, hback, h0, h1, hij, Ne.symm hij, Mat2.adj]
    · have hy : j ^^^ 2 ^ k ≠ i := by
        intro h
        apply hx
        rw [← h, xor_cancel]
      simp only [act1, basis_apply, hij, Ne.symm hij, hx, hy, if_false]
      split <;> split <;> simp

/-! ### two-qubit primitives: the four basis indices over a common base -/

/-- the four indices that differ from `b` only in the bits `p`, `q`; `r = 2·(bit q) + (bit p)` -/
def quad (b p q : Nat) (r : Nat) : Nat :=
  match r with
  | 0 => b
  | 1 => b ^^^ 2 ^ p
  | 2 => b ^^^ 2 ^ q
  | _ => b ^^^ 2 ^ p ^^^ 2 ^ q

section quad
variable {p q : Nat} (hpq : p ≠ q) {b : Nat} (h1 : b &&& 2 ^ p = 0) (h2 : b &&& 2 ^ q = 0)
include hpq h1 h2

omit h2 in
theorem quad_testBit_p (r : Nat) (hr : r < 4) :
    (quad b p q r).testBit p = decide (r % 2 = 1) := by
  have hb : b.testBit p = false := (and_two_pow_eq_zero_iff b p).1 h1
  have hqp : ¬ q = p := fun h => hpq h.symm
  interval_cases r <;> simp [quad, Nat.testBit_xor, hb, hqp]

omit h1 in
theorem quad_testBit_q (r : Nat) (hr : r < 4) :
    (quad b p q r).testBit q = decide (2 ≤ r) := by
  have hb : b.testBit q = false := (and_two_pow_eq_zero_iff b q).1 h2
  interval_cases r <;> simp [quad, Nat.testBit_xor, hb, hpq]

omit hpq h1 h2 in
theorem quad_testBit_other (k : Nat) (hk1 : k ≠ p) (hk2 : k ≠ q) (r : Nat) :
    (quad b p q r).testBit k = b.testBit k := by
  have e1 : ¬ p = k := fun h => hk1 h.symm
  have e2 : ¬ q = k := fun h => hk2 h.symm
  unfold quad
  split <;> simp [Nat.testBit_xor, e1, e2]

theorem quad_inj {b' : Nat} (h1' : b' &&& 2 ^ p = 0) (h2' : b' &&& 2 ^ q = 0) {r r' : Nat}
    (hr : r < 4) (hr' : r' < 4) (h : quad b p q r = quad b' p q r') : b = b' ∧ r = r' := by
  constructor
  · apply Nat.eq_of_testBit_eq
    intro k
    by_cases hk1 : k = p
    · subst hk1
      rw [(and_two_pow_eq_zero_iff b k).1 h1, (and_two_pow_eq_zero_iff b' k).1 h1']
    · by_cases hk2 : k = q
      · subst hk2
        rw [(and_two_pow_eq_zero_iff b k).1 h2, (and_two_pow_eq_zero_iff b' k).1 h2']
      · rw [← quad_testBit_other (b := b) k hk1 hk2 r, h, quad_testBit_other k hk1 hk2 r']
  · have e1 := quad_testBit_p hpq h1 r hr
    have e2 := quad_testBit_q hpq h2 r hr
    rw [h, quad_testBit_p hpq h1' r' hr'] at e1
    rw [h, quad_testBit_q hpq h2' r' hr'] at e2
    simp only [decide_eq_decide] at e1 e2
    omega

theorem act2_at_quad (M : Mat4 R) (ψ : State R) (r : Nat) (hr : r < 4) :
    act2 M (2 ^ p) (2 ^ q) ψ (quad b p q r)
      = M r 0 * ψ (quad b p q 0) + M r 1 * ψ (quad b p q 1) + M r 2 * ψ (quad b p q 2)
        + M r 3 * ψ (quad b p q 3) := by
  interval_cases r
  · exact act2_at0 M h1 h2 ψ
  · exact act2_at1 M hpq h1 h2 ψ
  · exact act2_at2 M hpq h1 h2 ψ
  · exact act2_at3 M hpq h1 h2 ψ

/-- entry of a two-qubit primitive between two quad points: the 4×4 entry when the bases agree,
zero otherwise -/
theorem act2_basis (M : Mat4 R) {b' : Nat} (h1' : b' &&& 2 ^ p = 0) (h2' : b' &&& 2 ^ q = 0)
    (r r' : Nat) (hr : r < 4) (hr' : r' < 4) :
    act2 M (2 ^ p) (2 ^ q) (basis (quad b' p q r')) (quad b p q r)
      = if b = b' then M r r' else 0 := by
  have key : ∀ c, c < 4 → ((quad b p q c = quad b' p q r') ↔ (b = b' ∧ c = r')) := by
    intro c hc
    constructor
    · exact quad_inj hpq h1 h2 h1' h2' hc hr'
    · rintro ⟨rfl, rfl⟩; rfl
  rw [act2_at_quad hpq h1 h2 M _ r hr]
  simp only [basis_apply, key 0 (by omega), key 1 (by omega), key 2 (by omega), key 3 (by omega)]
  by_cases hb : b = b'
  · subst hb
    interval_cases r' <;> simp
  · simp [hb]

end quad

theorem quad_decomp (i : Nat) {p q : Nat} (hpq : p ≠ q) :
    ∃ b r, b &&& 2 ^ p = 0 ∧ b &&& 2 ^ q = 0 ∧ r < 4 ∧ i = quad b p q r := by
  obtain ⟨b, h1, h2, h⟩ := bits2_decomp i hpq
  rcases h with h | h | h | h
  · exact ⟨b, 0, h1, h2, by omega, h⟩
  · exact ⟨b, 1, h1, h2, by omega, h⟩
  · exact ⟨b, 2, h1, h2, by omega, h⟩
  · exact ⟨b, 3, h1, h2, by omega, h⟩

theorem act2_adjPair (M : Mat4 R) {p q : Nat} (hpq : p ≠ q) :
    AdjPair (act2 M (2 ^ p) (2 ^ q)) (act2 (Mat4.adj M) (2 ^ p) (2 ^ q)) := by
  intro i j
  obtain ⟨b, r, h1, h2, hr, rfl⟩ := quad_decomp i hpq
  obtain ⟨b', r', h1', h2', hr', rfl⟩ := quad_decomp j hpq
  rw [act2_basis hpq h1 h2 _ h1' h2' r r' hr hr', act2_basis hpq h1' h2' _ h1 h2 r' r hr' hr]
  by_cases hb : b = b'
  · subst hb; simp [Mat4.adj]
  · simp [hb, Ne.symm hb]

/-! ### controls, gates, circuits -/

theorem ctrl_adjPair (c : Nat) {A A' : State R → State R} (h : AdjPair A A')
    (hloc : ReadsWithin c A) (hloc' : ReadsWithin c A') (hlin : IsLinear A) (hlin' : IsLinear A') :
    AdjPair (ctrl c A) (ctrl c A') := by
  intro i j
  simp only [ctrl]
  by_cases hi : i &&& c = c <;> by_cases hj : j &&& c = c
  · rw [if_pos hi, if_pos hj]; exact h i j
  · rw [if_pos hi, if_neg hj]
    have hne : j ≠ i := fun e => hj (e ▸ hi)
    have e : A' (basis j) i = A' (fun _ => 0) i := by
      apply hloc'
      intro k hk
      rw [basis_apply, if_neg]
      rintro rfl
      exact hj (hk.trans hi)
    rw [e, hlin'.zero, basis_apply, if_neg hne, Cx.conj_zero]
  · rw [if_neg hi, if_pos hj]
    have hne : i ≠ j := fun e => hi (e ▸ hj)
    have e : A (basis i) j = A (fun _ => 0) j := by
      apply hloc
      intro k hk
      rw [basis_apply, if_neg]
      rintro rfl
      exact hi (hk.trans hj)
    rw [e, hlin.zero, basis_apply, if_neg hne, Cx.conj_zero]
  · rw [if_neg hi, if_neg hj, basis_apply, basis_apply]
    by_cases e : i = j
    · subst e; simp
    · rw [if_neg e, if_neg (Ne.symm e), Cx.conj_zero]

theorem Prim.act_isLinear (p : Prim R) : IsLinear p.act := ⟨p.act_add, p.act_smul⟩

/-- a well-formed gate and its dagger have conjugate-transposed matrices -/
theorem SGate.adjPair (g : SGate R) (hw : g.WF) : AdjPair g.act g.adj.act := by
  obtain ⟨c, p⟩ := g
  cases p with
  | idle =>
    refine ctrl_adjPair c ?_ (ReadsWithin.id c) (ReadsWithin.id c) (Prim.act_isLinear .idle)
      (Prim.act_isLinear .idle)
    intro i j
    show basis j i = (basis i j).conj
    rw [basis_apply, basis_apply]
    by_cases e : i = j
    · subst e; simp
    · rw [if_neg e, if_neg (Ne.symm e), Cx.conj_zero]
  | one M a =>
    obtain ⟨⟨k, rfl⟩, hc⟩ := hw
    have hc' : 2 ^ k &&& c = 0 := by rw [Nat.and_comm]; exact hc
    exact ctrl_adjPair c (act1_adjPair M k) (act1_readsWithin M hc') (act1_readsWithin M.adj hc')
      (Prim.act_isLinear (.one M _)) (Prim.act_isLinear (.one M.adj _))
  | two M a b =>
    obtain ⟨⟨i, j, hij, rfl, rfl⟩, hc⟩ := hw
    obtain ⟨hc1, hc2⟩ := and_or_eq_zero hc
    exact ctrl_adjPair c (act2_adjPair M hij)
      (act2_readsWithin M (and_comm_eq_zero hc1) (and_comm_eq_zero hc2))
      (act2_readsWithin (Mat4.adj M) (and_comm_eq_zero hc1) (and_comm_eq_zero hc2))
      (Prim.act_isLinear (.two M _ _)) (Prim.act_isLinear (.two (Mat4.adj M) _ _))

theorem basis_outside (n j : Nat) (hj : j < 2 ^ n) :
    ∀ i, 2 ^ n ≤ i → (basis j : State R) i = 0 := by
  intro i hi
  rw [basis_apply, if_neg (by omega)]

theorem SGate.adj_inRange (g : SGate R) (n : Nat) (h : g.InRange n) : g.adj.InRange n := by
  obtain ⟨c, p⟩ := g
  cases p <;> exact h

/-- **The dagger circuit has the conjugate-transposed matrix** (entries inside an `n`-qubit
register that contains all target qubits). -/
theorem actAll_adjoint (gs : List (SGate R)) (n : Nat) (h : ∀ g ∈ gs, g.WF ∧ g.InRange n) :
    ∀ i j, i < 2 ^ n → j < 2 ^ n →
      actAll (adjAll gs) (basis j) i = (actAll gs (basis i) j).conj := by
  induction gs with
  | nil =>
    intro i j _ _
    show basis j i = (basis i j).conj
    rw [basis_apply, basis_apply]
    by_cases e : i = j
    · subst e; simp
    · rw [if_neg e, if_neg (Ne.symm e), Cx.conj_zero]
  | cons g gs ih =>
    intro i j hi hj
    have hg := h g List.mem_cons_self
    have hgs : ∀ g' ∈ gs, g'.WF ∧ g'.InRange n := fun g' hg' => h g' (List.mem_cons_of_mem _ hg')
    have ih' := ih hgs
    have hadjR : ∀ g' ∈ adjAll gs, g'.InRange n := by
      intro g' hg'
      obtain ⟨g0, hg0, rfl⟩ := mem_adjAll.1 hg'
      exact SGate.adj_inRange g0 n (hgs g0 hg0).2
    have hφ := actAll_outside (adjAll gs) n hadjR (basis j) (basis_outside n j hj)
    have hψ := SGate.act_outside g n hg.2 (basis i) (basis_outside n i hi)
    rw [adjAll_cons, actAll_append, actAll_cons, actAll_nil, actAll_cons,
      (SGate.act_isLinear g.adj).apply_eq_sum (2 ^ n) _ hφ i,
      (actAll_isLinear gs).apply_eq_sum (2 ^ n) _ hψ j, conj_sum_range]
    refine Finset.sum_congr rfl (fun k hk => ?_)
    have hk' : k < 2 ^ n := Finset.mem_range.1 hk
    rw [SGate.adjPair g hg.1 i k, ih' k j hk' hj, Cx.conj_mul, mul_comm]

end Qvnt.Spec

namespace Qvnt
open Qvnt.Spec

variable {R : Type} [CommRing R] [Consts R]

/-- entry `(i, j)` of the reported matrix = amplitude `i` of the image of basis state `j`
(definitional: `Applicable::matrix` applies the operator to each basis state) -/
theorem MultiOp.matrix_eq_apply_basis (o : MultiOp R) (i j : Nat) :
    MultiOp.matrix o i j = o.apply (basis j) i := rfl

theorem Refines.isLinear {o : MultiOp R} {gs : List (SGate R)} {supp : Nat}
    (h : Refines o gs supp) : IsLinear (fun ψ => o.apply ψ) := by
  have e : (fun ψ => o.apply ψ) = actAll gs := funext h.apply
  rw [e]
  exact actAll_isLinear gs

/-- **The reported matrix is the map performed.** -/
theorem Refines.matrix_linear {o : MultiOp R} {gs : List (SGate R)} {supp : Nat}
    (h : Refines o gs supp) (N : Nat) (ψ : State R) (hψ : ∀ i, N ≤ i → ψ i = 0) (i : Nat) :
    o.apply ψ i = ∑ j ∈ Finset.range N, MultiOp.matrix o i j * ψ j :=
  h.isLinear.apply_eq_sum N ψ hψ i

/-- **The dagger's reported matrix is the conjugate transpose** of the operator's, on every
`n`-qubit register containing the support. -/
theorem Refines.adjoint_matrix {o : MultiOp R} {gs : List (SGate R)} {supp : Nat}
    (h : Refines o gs supp) (hg : GoodGates gs) (n : Nat) (hn : supp < 2 ^ n) (i j : Nat)
    (hi : i < 2 ^ n) (hj : j < 2 ^ n) :
    MultiOp.matrix (MultiOp.dgr o) i j = (MultiOp.matrix o j i).conj := by
  rw [MultiOp.matrix_eq_apply_basis, MultiOp.matrix_eq_apply_basis, h.dagger, h.apply]
  exact actAll_adjoint gs n
    (fun g hgm => ⟨(hg g hgm).1, inRange_of_within g supp n hn (h.within g hgm)⟩) i j hi hj

end Qvnt

/-! ### axiom audit -/
#print axioms Qvnt.Spec.IsLinear.apply_eq_sum
#print axioms Qvnt.Refines.matrix_linear
#print axioms Qvnt.Spec.actAll_adjoint
#print axioms Qvnt.Refines.adjoint_matrix
