/- tactics shared by the kernel equalities (GenKOps, GenKFns, GenKCtor) -/
import Qvnt.Generated.Kernels
import Qvnt.Lemmas.Bits
import Mathlib.Tactic.Ring
import Mathlib.Algebra.Ring.Basic
import Qvnt.Lemmas.GenCore.rotate_eq
import Qvnt.Lemmas.GenCore.negWord_eq

namespace Qvnt.Gen
open Qvnt

/-- `rfl`, after a case split on Boolean flags where needed -/
macro "cases_bool_rfl" : tactic =>
  `(tactic| first | rfl | (simp [Atom.isValid, Atom.dgr, Cx.conj]; done) | (unfold Atom.dgr Atom.isValid; simp_all; done))

/-- closes `generated kernel = model kernel` after unfolding: case split on every test, then
componentwise ring normalisation -/
macro "kernel_eq" : tactic =>
  `(tactic| (
    simp only [Atom.op, Atom.oddParity, rotate_eq, negWord_eq, Nat.and_one_is_mod, bne_iff_ne, beq_iff_eq,
      ne_eq, Bool.not_eq_true, decide_eq_true_eq]
    repeat' split
    all_goals first
      | rfl
      | (ext <;> simp <;> ring)
      | simp_all
      | omega))


end Qvnt.Gen
