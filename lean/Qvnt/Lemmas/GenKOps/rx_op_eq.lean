/- `rx_op_eq` of GenKOps.lean (one module per declaration, tools/lean_split.py) -/
import Qvnt.Generated.Kernels
import Qvnt.Lemmas.Bits
import Mathlib.Tactic.Ring
import Mathlib.Algebra.Ring.Basic
import Qvnt.Lemmas.GenKTac

namespace Qvnt.Gen
open Qvnt
variable {R : Type}
section ops
variable [CommRing R] [Consts R]

theorem rx_op_eq (a : Nat) (ph : Cx R) (ψ : State R) (idx : Nat) : Gen.rx_op a ph ψ idx = (Atom.rx a ph).op ψ idx := by
  unfold Gen.rx_op; kernel_eq

end ops
end Qvnt.Gen
