/- `sqrt_swap_op_eq` of GenKOps.lean (one module per declaration, tools/lean_split.py) -/
import Qvnt.Generated.Kernels
import Qvnt.Lemmas.Bits
import Mathlib.Tactic.Ring
import Mathlib.Algebra.Ring.Basic
import Qvnt.Lemmas.GenKTac

namespace Qvnt.Gen
open Qvnt
variable {R : Type}
section ops
variable [CommRing R] [Consts R]

theorem sqrt_swap_op_eq (ab : Nat) (d : Bool) (ψ : State R) (idx : Nat) : Gen.sqrt_swap_op ab d ψ idx = (Atom.sqrtSwap ab d : Atom R).op ψ idx := by
  unfold Gen.sqrt_swap_op; kernel_eq

end ops
end Qvnt.Gen
