/- `s_op_eq` of GenKOps.lean (one module per declaration, tools/lean_split.py) -/
import Qvnt.Generated.Kernels
import Qvnt.Lemmas.Bits
import Mathlib.Tactic.Ring
import Mathlib.Algebra.Ring.Basic
import Qvnt.Lemmas.GenKTac

namespace Qvnt.Gen
open Qvnt
variable {R : Type}
section ops
variable [CommRing R] [Consts R]

theorem s_op_eq (a : Nat) (d : Bool) (ψ : State R) (idx : Nat) : Gen.s_op a d ψ idx = (Atom.s a d : Atom R).op ψ idx := by
  unfold Gen.s_op; kernel_eq

end ops
end Qvnt.Gen
