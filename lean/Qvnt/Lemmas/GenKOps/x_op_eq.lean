/- `x_op_eq` of GenKOps.lean (one module per declaration, tools/lean_split.py) -/
import Qvnt.Generated.Kernels
import Qvnt.Lemmas.Bits
import Mathlib.Tactic.Ring
import Mathlib.Algebra.Ring.Basic
import Qvnt.Lemmas.GenKTac

namespace Qvnt.Gen
open Qvnt
variable {R : Type}
section ops
variable [CommRing R] [Consts R]

theorem x_op_eq (a : Nat) (ψ : State R) (idx : Nat) : Gen.x_op a ψ idx = (Atom.x a : Atom R).op ψ idx := by
  unfold Gen.x_op; kernel_eq

end ops
end Qvnt.Gen
