/- `id_op_eq` of GenKOps.lean (one module per declaration, tools/lean_split.py) -/
import Qvnt.Generated.Kernels
import Qvnt.Lemmas.Bits
import Mathlib.Tactic.Ring
import Mathlib.Algebra.Ring.Basic
import Qvnt.Lemmas.GenKTac

namespace Qvnt.Gen
open Qvnt
variable {R : Type}
section ops
variable [CommRing R] [Consts R]

theorem id_op_eq (ψ : State R) (idx : Nat) : Gen.id_op ψ idx = (Atom.id : Atom R).op ψ idx := by
  unfold Gen.id_op; kernel_eq

end ops
end Qvnt.Gen
