/-
`register/class.rs` (the part translated by tools/rs2lean2.py): new, get_by_mask, fmt, *, *=.
(split out of GenRegs3.lean so that an equality that no longer holds blocks only the properties that rely on it)
-/
import Qvnt.Lemmas.GenCreg.creg_new_eq
import Qvnt.Lemmas.GenCreg.cregOfModel
import Qvnt.Lemmas.GenCreg.creg_eq_of_toModel
import Qvnt.Lemmas.GenCreg.foldl_ext_mem
import Qvnt.Lemmas.GenCreg.creg_get_by_mask_eq
import Qvnt.Lemmas.GenCreg.creg_fmt_eq
import Qvnt.Lemmas.GenCreg.creg_mul_eq
import Qvnt.Lemmas.GenCreg.creg_mul_assign_eq
