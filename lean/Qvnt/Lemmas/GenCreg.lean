/-
`register/class.rs` (the part translated by tools/rs2lean2.py): new, get_by_mask, fmt, *, *=.
(split out of GenRegs3.lean so that an equality that no longer holds blocks only the properties that rely on it)
-/
import Qvnt.Lemmas.GenPre
import Qvnt.Lemmas.GenBits
import Qvnt.Lemmas.GenRegs
import Qvnt.Lemmas.Queue

set_option linter.unusedSectionVars false

namespace Qvnt.Gen2
open Qvnt Qvnt.Gen

variable {R : Type}

section arith
variable [Add R] [Sub R] [Mul R] [Div R] [Neg R] [Zero R] [One R] [Consts R]
  [LE R] [DecidableLE R] [LT R] [DecidableLT R] [HasSqrt R] [RegConsts R]

theorem creg_new_eq (n : Nat) : (creg_new n).toModel = CReg.new n := by
  simp [creg_new, CReg.new, creg_with_state_eq]

/-- the model's classical register as the translated record -/
def cregOfModel (c : CReg) : CRegG := ⟨c.value, c.qNum, c.qMask⟩

theorem creg_eq_of_toModel (c : CRegG) (m : CReg) (h : c.toModel = m) : c = cregOfModel m := by
  cases c; cases m; simp [CRegG.toModel, cregOfModel] at h ⊢; exact h

end arith

/-! ### classical register: `get_by_mask`, `*`, `*=` (`register/class.rs`) -/

theorem foldl_ext_mem {α β : Type} (f g : α → β → α) (l : List β) (a : α)
    (H : ∀ a, ∀ b ∈ l, f a b = g a b) : l.foldl f a = l.foldl g a := by
  induction l generalizing a with
  | nil => rfl
  | cons x xs ih =>
    simp only [List.foldl_cons]
    rw [H a x (by simp)]
    exact ih _ (fun a b hb => H a b (by simp [hb]))

/-- for a register whose mask is a machine word (always the case: `mask_of`), the gathered bits -/
theorem creg_get_by_mask_eq (c : CRegG) (mask : Nat) (hq : c.q_mask < 2 ^ 64) :
    creg_get_by_mask c mask = c.toModel.getByMask mask := by
  unfold creg_get_by_mask CReg.getByMask
  rw [bitsList_eq]
  simp only [CRegG.toModel, Rs.enumerate, List.foldl_map]
  have hm : mask &&& c.q_mask < 2 ^ 64 := lt_of_le_of_lt Nat.and_le_right hq
  have hlen : (bitsIterList (mask &&& c.q_mask)).length ≤ 64 := by
    rw [bitsIterList_eq_bitsOf _ hm, length_bitsOf _ hm]
    exact popcount_lt_two_pow _ _ hm
  apply foldl_ext_mem
  intro acc p hp
  have hi : p.2 < 64 := by
    have := List.mem_zipIdx hp
    omega
  by_cases h : c.value &&& p.1 = 0
  · simp [h]
  · simp [h, shlW, Nat.mod_eq_of_lt hi, Nat.shiftLeft_eq,
      Nat.mod_eq_of_lt (Nat.pow_lt_pow_right (by decide : 1 < 2) hi)]

/-- the printed form (`impl Debug for CReg`) -/
theorem creg_fmt_eq (c : CRegG) : creg_fmt c = c.toModel.debug := by
  unfold creg_fmt CReg.debug
  rw [bitsList_eq]
  simp only [CRegG.toModel]
  congr 2
  congr 1
  funext s i
  by_cases h : i &&& c.value = 0 <;> simp [h]

theorem creg_mul_eq (a b : CRegG) : creg_mul a b = creg_tensor_prod a b := rfl
theorem creg_mul_assign_eq (a b : CRegG) : creg_mul_assign a b = creg_tensor_prod a b := rfl

end Qvnt.Gen2
