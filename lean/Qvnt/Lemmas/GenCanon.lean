/-
Canonical-text tie (tools/canon.py): every hand-mirrored item of /repo still has the text the model was written
against. One theorem per item, so that ./check can tell which properties an edit concerns.
-/
import Qvnt.Generated.Canon

namespace Qvnt.GenCanon
open Qvnt.Generated

theorem int_struct_canon : canon_int_struct = true := by decide
theorem macro_struct_canon : canon_macro_struct = true := by decide
theorem macro_argument_name_canon : canon_macro_argument_name = true := by decide
theorem macro_new_canon : canon_macro_new = true := by decide
theorem macro_process_canon : canon_macro_process = true := by decide
theorem macro_process_nested_canon : canon_macro_process_nested = true := by decide
theorem parse_context_canon : canon_parse_context = true := by decide
theorem parse_eval_extended_canon : canon_parse_eval_extended = true := by decide
theorem sym_struct_canon : canon_sym_struct = true := by decide
theorem sym_new_canon : canon_sym_new = true := by decide
theorem sym_init_canon : canon_sym_init = true := by decide
theorem sym_get_class_canon : canon_sym_get_class = true := by decide
theorem sym_get_probabilities_canon : canon_sym_get_probabilities = true := by decide

end Qvnt.GenCanon
