/- Umbrella of the canonical-text tie (tools/canon.py): one module per item under Lemmas/Canon. -/
import Qvnt.Lemmas.Canon.ParseContext
import Qvnt.Lemmas.Canon.ParseEvalExtended
import Qvnt.Lemmas.Canon.SymInit
