/- `argLoop_eq` of GenMacroNew.lean (one module per declaration, tools/lean_split.py) -/
import Qvnt.Generated.Regs
import Qvnt.Lemmas.IntLogic
import Qvnt.Lemmas.GenMacroNew.foldlM_unit_spec
import Qvnt.Lemmas.GenMacroNew.argStep

set_option linter.unusedSectionVars false
namespace Qvnt.Gen2
open Qvnt Qvnt.Gen
variable {R : Type}
section proc
variable [Add R] [Sub R] [Mul R] [Neg R] [Div R] [ExprFns R] [AngleFns R]

theorem argLoop_eq (args : List String) (S : Unit → PExpr R → Except IntError Unit) (hS : ∀ a, S () a = argStep args a)
    (l : List (PExpr R)) :
    List.foldlM S () l = match bodyArgErr args l with | some e => .error e | none => .ok () := by
  apply foldlM_unit_spec S (bodyArgErr args) rfl
  · intro a as h
    rw [hS] at h
    simp only [argStep] at h
    simp only [bodyArgErr]
    cases he : evalExtended a [] with
    | ok v => rfl
    | error e =>
      rw [he] at h
      cases e with
      | unknownVariable v =>
        simp only [] at h ⊢
        by_cases hc : (!args.contains v) = true
        · rw [if_pos hc] at h; cases h
        · rw [if_neg hc]
      | function n e => cases h
      | parseError => cases h
      | rpnError => cases h
  · intro a as e h
    rw [hS] at h
    simp only [argStep] at h
    simp only [bodyArgErr]
    cases he : evalExtended a [] with
    | ok v => rw [he] at h; simp at h
    | error e' =>
      rw [he] at h
      cases e' with
      | unknownVariable v =>
        simp only [] at h ⊢
        by_cases hc : (!args.contains v) = true
        · rw [if_pos hc] at h ⊢; injection h with h; rw [h]
        · rw [if_neg hc] at h; cases h
      | function n e'' => injection h with h; rw [← h]
      | parseError => injection h with h; rw [← h]
      | rpnError => injection h with h; rw [← h]

end proc
end Qvnt.Gen2
