/- `mapM_spec` of GenMacroNew.lean (one module per declaration, tools/lean_split.py) -/
import Qvnt.Generated.Regs
import Qvnt.Lemmas.IntLogic

set_option linter.unusedSectionVars false
namespace Qvnt.Gen2
open Qvnt Qvnt.Gen
variable {R : Type}

/-- `xs.into_iter().map(f).collect::<Result<Vec<_>>>()`: the first error wins, otherwise the values in order -/
theorem mapM_spec {α β : Type} (F : α → Except IntError β) (spec : List α → Option IntError) (vals : List α → List β)
    (hnil : spec [] = none ∧ vals [] = [])
    (hok : ∀ a as b, F a = .ok b → spec (a :: as) = spec as ∧ (spec as = none → vals (a :: as) = b :: vals as))
    (herr : ∀ a as e, F a = .error e → spec (a :: as) = some e) (l : List α) :
    List.mapM F l = match spec l with | some e => .error e | none => .ok (vals l) := by
  induction l with
  | nil => rw [List.mapM_nil, hnil.1, hnil.2]; rfl
  | cons a as ih =>
    rw [List.mapM_cons]
    cases h : F a with
    | error e => rw [herr a as e h]; rfl
    | ok b =>
      obtain ⟨h1, h2⟩ := hok a as b h
      rw [h1, ih]
      cases hs : spec as with
      | some e => rfl
      | none => rw [h2 hs]; rfl

end Qvnt.Gen2
