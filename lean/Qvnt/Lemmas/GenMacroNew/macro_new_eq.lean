/- `macro_new_eq` of GenMacroNew.lean (one module per declaration, tools/lean_split.py) -/
import Qvnt.Generated.Regs
import Qvnt.Lemmas.IntLogic
import Qvnt.Lemmas.GenMacroNew.mapM_spec
import Qvnt.Lemmas.GenMacroNew.argStep
import Qvnt.Lemmas.GenMacroNew.regLoop_eq
import Qvnt.Lemmas.GenMacroNew.argLoop_eq
import Qvnt.Lemmas.GenMacroNew.newStep

set_option linter.unusedSectionVars false
namespace Qvnt.Gen2
open Qvnt Qvnt.Gen
variable {R : Type}
section proc
variable [Add R] [Sub R] [Mul R] [Neg R] [Div R] [ExprFns R] [AngleFns R]

theorem macro_new_eq (regs args : List String) (body : List (Inner R)) :
    macro_new regs args body = Macro.new regs args body := by
  unfold macro_new
  rw [Macro.new_decision]
  -- every round of the translated closure is `newStep`
  have hstep : ∀ (F : Inner R → Except IntError (String × List Arg × List (PExpr R))), (∀ a, F a = newStep regs args a) →
      List.mapM F body = match bodyErr regs args body with
        | some e => .error e
        | none => .ok ((bodyCalls body).map (fun c => (c.name, c.regs, c.args))) := by
    intro F hF
    apply mapM_spec F (bodyErr regs args) (fun b => (bodyCalls b).map (fun c => (c.name, c.regs, c.args))) ⟨rfl, rfl⟩
    · intro a as b h
      rw [hF] at h
      cases a with
      | other => simp [newStep] at h
      | call c =>
        simp only [newStep] at h
        cases hce : callErr regs args c with
        | some e => rw [hce] at h; simp at h
        | none =>
          rw [hce] at h
          simp only [Except.ok.injEq] at h
          refine ⟨by simp [bodyErr, hce], fun _ => ?_⟩
          simp only [bodyCalls, List.map_cons]
          rw [← h]
    · intro a as e h
      rw [hF] at h
      cases a with
      | other => simp only [newStep, Except.error.injEq] at h; simp [bodyErr, ← h]
      | call c =>
        simp only [newStep] at h
        cases hce : callErr regs args c with
        | some e' => rw [hce] at h; simp only [Except.error.injEq] at h; simp [bodyErr, hce, h]
        | none => rw [hce] at h; simp at h
  rw [hstep]
  · cases bodyErr regs args body with
    | some e => rfl
    | none =>
      simp only [Except.bind, List.map_map]
      congr 2
      have : ((fun (t_ : String × List Arg × List (PExpr R)) => ({ name := t_.1, regs := t_.2.1, args := t_.2.2 } : Call R)) ∘
          fun (c : Call R) => (c.name, c.regs, c.args)) = id := by funext c; rfl
      rw [this, List.map_id]
  · intro a
    cases a with
    | other => rfl
    | call c =>
      simp only [newStep, callErr]
      rw [regLoop_eq regs _ (fun x => by cases x <;> rfl)]
      cases bodyRegErr regs c.regs with
      | some e => rfl
      | none =>
        simp only [Except.bind]
        rw [argLoop_eq args _ (fun x => by
          simp only [argStep]
          cases evalExtended x [] with
          | ok v => rfl
          | error e => cases e <;> simp)]
        cases bodyArgErr args c.args <;> rfl

end proc
end Qvnt.Gen2
