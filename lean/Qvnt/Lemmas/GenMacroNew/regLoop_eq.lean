/- `regLoop_eq` of GenMacroNew.lean (one module per declaration, tools/lean_split.py) -/
import Qvnt.Generated.Regs
import Qvnt.Lemmas.IntLogic
import Qvnt.Lemmas.GenMacroNew.foldlM_unit_spec
import Qvnt.Lemmas.GenMacroNew.regStep

set_option linter.unusedSectionVars false
namespace Qvnt.Gen2
open Qvnt Qvnt.Gen
variable {R : Type}
section proc
variable [Add R] [Sub R] [Mul R] [Neg R] [Div R] [ExprFns R] [AngleFns R]

theorem regLoop_eq (regs : List String) (S : Unit → Arg → Except IntError Unit) (hS : ∀ a, S () a = regStep regs a)
    (l : List Arg) :
    List.foldlM S () l = match bodyRegErr regs l with | some e => .error e | none => .ok () := by
  apply foldlM_unit_spec S (bodyRegErr regs) rfl
  · intro a as h
    rw [hS] at h
    cases a with
    | qubit n i => simp [regStep] at h
    | register n =>
      simp only [regStep] at h
      simp only [bodyRegErr]
      by_cases hc : (!regs.contains n) = true
      · rw [if_pos hc] at h; cases h
      · rw [if_neg hc]
  · intro a as e h
    rw [hS] at h
    cases a with
    | qubit n i => simp only [regStep, Except.error.injEq] at h; simp [bodyRegErr, h]
    | register n =>
      simp only [regStep] at h
      simp only [bodyRegErr]
      by_cases hc : (!regs.contains n) = true
      · rw [if_pos hc] at h ⊢; injection h with h; rw [h]
      · rw [if_neg hc] at h; cases h

end proc
end Qvnt.Gen2
