/- `foldlM_unit_spec` of GenMacroNew.lean (one module per declaration, tools/lean_split.py) -/
import Qvnt.Generated.Regs
import Qvnt.Lemmas.IntLogic

set_option linter.unusedSectionVars false
namespace Qvnt.Gen2
open Qvnt Qvnt.Gen
variable {R : Type}

/-- a validation loop `for x in xs { match .. { .. => return Err(e), .. => continue } }` as a fold over `Unit` -/
theorem foldlM_unit_spec {α : Type} (S : Unit → α → Except IntError Unit) (spec : List α → Option IntError)
    (hnil : spec [] = none)
    (hok : ∀ a as, S () a = .ok () → spec (a :: as) = spec as)
    (herr : ∀ a as e, S () a = .error e → spec (a :: as) = some e) (l : List α) :
    List.foldlM S () l = match spec l with | some e => .error e | none => .ok () := by
  induction l with
  | nil => rw [hnil]; rfl
  | cons a as ih =>
    rw [List.foldlM_cons]
    cases h : S () a with
    | ok u => cases u; rw [hok a as h]; exact ih
    | error e => rw [herr a as e h]; rfl

end Qvnt.Gen2
