/- `argStep` of GenMacroNew.lean (one module per declaration, tools/lean_split.py) -/
import Qvnt.Generated.Regs
import Qvnt.Lemmas.IntLogic

set_option linter.unusedSectionVars false
namespace Qvnt.Gen2
open Qvnt Qvnt.Gen
variable {R : Type}
section proc
variable [Add R] [Sub R] [Mul R] [Neg R] [Div R] [ExprFns R] [AngleFns R]

/-- what one round of the second validation loop does -/
def argStep (args : List String) (a : PExpr R) : Except IntError Unit :=
  match evalExtended a [] with
  | .error (.unknownVariable v) => if !args.contains v then .error (.macroError (.unknownArg v)) else .ok ()
  | .error e => .error (.unevaluatedArgument a.text e)
  | .ok _ => .ok ()

end proc
end Qvnt.Gen2
