/- `regStep` of GenMacroNew.lean (one module per declaration, tools/lean_split.py) -/
import Qvnt.Generated.Regs
import Qvnt.Lemmas.IntLogic

set_option linter.unusedSectionVars false
namespace Qvnt.Gen2
open Qvnt Qvnt.Gen
variable {R : Type}
section proc
variable [Add R] [Sub R] [Mul R] [Neg R] [Div R] [ExprFns R] [AngleFns R]

/-- what one round of the first validation loop does -/
def regStep (regs : List String) (a : Arg) : Except IntError Unit :=
  match a with
  | .qubit n i => .error (.macroError (.disallowedRegister n i))
  | .register n => if !regs.contains n then .error (.macroError (.unknownReg n)) else .ok ()

end proc
end Qvnt.Gen2
