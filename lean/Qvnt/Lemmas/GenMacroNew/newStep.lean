/- `newStep` of GenMacroNew.lean (one module per declaration, tools/lean_split.py) -/
import Qvnt.Generated.Regs
import Qvnt.Lemmas.IntLogic

set_option linter.unusedSectionVars false
namespace Qvnt.Gen2
open Qvnt Qvnt.Gen
variable {R : Type}
section proc
variable [Add R] [Sub R] [Mul R] [Neg R] [Div R] [ExprFns R] [AngleFns R]

/-- one body statement: checked, then kept as `(name, regs, args)` -/
def newStep (regs args : List String) : Inner R → Except IntError (String × List Arg × List (PExpr R))
  | .call c =>
    match callErr regs args c with
    | some e => .error e
    | none => .ok (c.name, c.regs, c.args)
  | .other => .error (.macroError .disallowedNodeInMacro)

end proc
end Qvnt.Gen2
