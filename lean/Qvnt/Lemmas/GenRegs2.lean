/-
The functions of `src/register/quant.rs` translated by `tools/rs2lean2.py` on every run
(`Qvnt.Generated.Regs`) are equal to the hand-written MODEL (`Qvnt.QReg`, `Model/Reg.lean`) the
theorems of C05 / C06 / C07 / C14 are about. A change of one of those Rust functions that
changes its meaning breaks the corresponding equality at build time.
-/
import Qvnt.Generated.Regs
import Qvnt.Lemmas.GenCore
import Qvnt.Lemmas.Queue

set_option linter.unusedSectionVars false

namespace Qvnt.Gen2
open Qvnt Qvnt.Gen

variable {R : Type}

/-- the model's register as the translated record (buffer as a list) -/
def ofModel (r : QReg R) : QRegG R := ⟨r.psi.toList, r.qNum, r.qMask⟩

theorem shl_one (n : Nat) (h : n < 64) : shlW 64 1 n = 2 ^ n := by
  unfold shlW
  rw [Nat.one_mul, Nat.mod_eq_of_lt h, Nat.mod_eq_of_lt (Nat.pow_lt_pow_right (by decide) h)]

theorem mask_eq (n : Nat) (h : n < 64) : wrapSub 64 (2 ^ n) 1 = 2 ^ n - 1 := by
  unfold wrapSub
  have h2 : 2 ^ n < 2 ^ 64 := Nat.pow_lt_pow_right (by decide) h
  have h3 : 0 < 2 ^ n := Nat.two_pow_pos n
  rw [Nat.mod_eq_of_lt h2]
  have : (1 : Nat) % 2 ^ 64 = 1 := by decide
  rw [this]
  have e : 2 ^ n + 2 ^ 64 - 1 = (2 ^ n - 1) + 2 ^ 64 := by omega
  rw [e, Nat.add_mod_right, Nat.mod_eq_of_lt (by omega)]

section basic
variable [Zero R] [One R]

theorem basisBuf_toList (len s : Nat) :
    (QReg.basisBuf (R := R) len s).toList = (List.replicate len (0 : Cx R)).set s 1 := by
  apply List.ext_getElem
  · simp [QReg.basisBuf]
  · intro i h1 h2
    simp [QReg.basisBuf, List.getElem_set]
    by_cases h : s = i <;> simp [h, eq_comm]

theorem quant_new_eq (n : Nat) (h : n < 64) : quant_new (R := R) n = ofModel (QReg.new n) := by
  simp [quant_new, ofModel, QReg.new, shl_one n h, mask_eq n h, basisBuf_toList, minBufferLen]

theorem quant_reset_eq (r : QReg R) (i : Nat) : quant_reset (ofModel r) i = ofModel (r.reset i) := by
  simp [quant_reset, ofModel, QReg.reset, basisBuf_toList]

theorem quant_with_state_eq (n st : Nat) (h : n < 64) :
    quant_with_state (R := R) n st = some (ofModel (QReg.withState n st)) := by
  have hlt : st &&& (2 ^ n - 1) < max (2 ^ n) 8 := by
    have : st &&& (2 ^ n - 1) ≤ 2 ^ n - 1 := Nat.and_le_right
    have h3 : 0 < 2 ^ n := Nat.two_pow_pos n
    omega
  simp [quant_with_state, ofModel, QReg.withState, shl_one n h, mask_eq n h, basisBuf_toList, minBufferLen]
  omega

omit [One R] in
theorem resizeBuf_toList (a : Array (Cx R)) (len : Nat) :
    (QReg.resizeBuf a len).toList = Rs.resize a.toList len 0 := by
  apply List.ext_getElem
  · simp [QReg.resizeBuf, Rs.resize]; omega
  · intro i h1 h2
    simp [QReg.resizeBuf] at h1
    simp only [QReg.resizeBuf, Rs.resize, Array.getElem_toList, Array.getElem_ofFn]
    by_cases hi : i < a.size
    · rw [List.getElem_append_left (by simp; omega)]
      simp [Array.getD, hi]
    · rw [List.getElem_append_right (by simp; omega)]
      simp [Array.getD, hi]

theorem quant_set_num_eq (r : QReg R) (n : Nat) (h : n < 64) :
    quant_set_num (ofModel r) n = ofModel (r.setNum n) := by
  unfold quant_set_num QReg.setNum
  by_cases hs : n < r.qNum
  · simp [hs, ofModel, shl_one n h, mask_eq n h, minBufferLen, quant_reset, QReg.reset,
      basisBuf_toList, Rs.resize]
    congr 2
    simp [QReg.resizeBuf]; omega
  · simp [hs, ofModel, shl_one n h, mask_eq n h, resizeBuf_toList, minBufferLen]

theorem mapIdx_getElem {α : Type} (l : List α) (f : Nat → α → α) (i : Nat) (h : i < (Rs.mapIdx l f).length) :
    (Rs.mapIdx l f)[i] = f i (l[i]'(by simpa [Rs.mapIdx, Rs.enumerate] using h)) := by
  simp [Rs.mapIdx, Rs.enumerate]

omit [One R] in
theorem quant_collapse_mask_eq (r : QReg R) (idy mask : Nat) :
    quant_collapse_mask (ofModel r) idy mask = ofModel (r.collapseMask idy mask) := by
  unfold quant_collapse_mask QReg.collapseMask ofModel
  simp only [QRegG.mk.injEq, and_true]
  apply List.ext_getElem
  · simp [Rs.mapIdx, Rs.enumerate]
  · intro i h1 h2
    rw [mapIdx_getElem]
    have hi : i < r.psi.size := by simpa [Rs.mapIdx, Rs.enumerate] using h1
    simp [Array.getD]

end basic

section arith
variable [Add R] [Sub R] [Mul R] [Div R] [Neg R] [Zero R] [One R] [Consts R]
  [LE R] [DecidableLE R] [LT R] [DecidableLT R] [HasSqrt R] [RegConsts R]

theorem quant_get_absolute_eq (r : QReg R) : quant_get_absolute (ofModel r) = r.getAbsolute := by
  simp only [quant_get_absolute, QReg.getAbsolute, ofModel, Rs.sum, List.foldl_map, ← Array.foldl_toList]

theorem quant_get_probabilities_eq (r : QReg R) (h : r.qNum < 64) (hs : 2 ^ r.qNum ≤ r.psi.size) :
    quant_get_probabilities (ofModel r) = r.getProbabilities := by
  have habs := quant_get_absolute_eq r
  simp only [quant_get_absolute, ofModel] at habs
  simp only [quant_get_probabilities, QReg.getProbabilities, ofModel, habs, shl_one _ h]
  apply List.ext_getElem
  · simp; omega
  · intro i h1 h2
    have hi : i < r.psi.size := by simp at h2; omega
    simp [Array.getD, hi]

theorem scale_toList (a : Array (Cx R)) (k : R) :
    (a.map (fun v => v.scale k)).toList = List.map (fun v => Cx.scale v k) a.toList := by simp

theorem quant_rescale_eq (r : QReg R) : quant_rescale (ofModel r) = ofModel r.rescale := by
  have habs := quant_get_absolute_eq r
  unfold quant_rescale QReg.rescale
  simp only [habs]
  by_cases h : (0 : R) < HasSqrt.sqrt r.getAbsolute
  · simp [h, ofModel, GT.gt]
  · simp [h, ofModel, GT.gt]

theorem quant_normalize_eq (r : QReg R) : quant_normalize (ofModel r) = ofModel r.normalize := by
  have habs := quant_get_absolute_eq r
  unfold quant_normalize QReg.normalize
  simp only [habs]
  by_cases h1 : HasSqrt.sqrt r.getAbsolute ≤ (RegConsts.tiny : R)
  · simp [h1, quant_reset_eq]
  · by_cases h2 : (1 : R) - HasSqrt.sqrt r.getAbsolute ≤ RegConsts.close
    · simp [h1, h2]
    · simp [h1, h2, ofModel]

theorem quant_tensor_prod_eq (a b : QReg R) (ha : a.qNum + b.qNum < 64) :
    quant_tensor_prod (ofModel a) (ofModel b) = ofModel (a.tensorProd b) := by
  have h8 : a.qNum % 2 ^ 8 = a.qNum := Nat.mod_eq_of_lt (by omega)
  unfold quant_tensor_prod QReg.tensorProd ofModel
  simp only [shl_one _ ha, mask_eq _ ha, h8, QRegG.mk.injEq, and_true, minBufferLen]
  apply List.ext_getElem
  · simp [Rs.range]
  · intro i h1 h2
    simp only [Rs.range, List.getElem_map, List.getElem_range', Array.getElem_toList, Array.getElem_ofFn,
      Array.getD_eq_getD_getElem?, List.getD_eq_getElem?_getD, Array.getElem?_toList]
    simp

end arith

/-! ### `SingleOp`, `MultiOp` (`operator/single/mod.rs`, `operator/multi/mod.rs`) -/
section ops
variable [CommRing R] [Consts R] [Div R] [LE R] [DecidableLE R] [LT R] [DecidableLT R] [HasSqrt R] [RegConsts R]

theorem single_act_on_eq (g : SingleOp R) : single_act_on g = g.actOn := rfl
theorem single_dgr_eq (g : SingleOp R) : single_dgr g = g.dgr := rfl

theorem single_c_eq (g : SingleOp R) (c : Nat) : single_c g c = g.c c := by
  unfold single_c SingleOp.c single_act_on SingleOp.actOn
  by_cases h : (g.act ||| g.ctrl) &&& c = 0 <;> simp [h]

/-- one sweep: the translated `SingleOp::apply` fills the output buffer with the model's `applyArr` -/
theorem single_apply_eq (g : SingleOp R) (hc : g.ctrl < 2 ^ 64) (a : Array (Cx R)) (o : List (Cx R))
    (ho : o.length = a.size) :
    single_apply g a.toList o = (g.applyArr a).toList := by
  unfold single_apply atomForEach SingleOp.applyArr
  apply List.ext_getElem
  · simp [Rs.mapIdx, Rs.enumerate, ho]
  · intro i h1 h2
    rw [mapIdx_getElem]
    simp only [Array.getElem_toList, Array.getElem_ofFn]
    have : (fun i => a.toList.getD i 0) = bufFn a := by
      funext j; simp [bufFn, List.getD_eq_getElem?_getD, Array.getD_eq_getD_getElem?]
    rw [this, forEach_eq g hc]

theorem multi_act_on_eq (o : MultiOp R) : multi_act_on o = MultiOp.actOn o := rfl

theorem multi_dgr_eq (o : MultiOp R) : multi_dgr o = MultiOp.dgr o := by
  simp [multi_dgr, MultiOp.dgr, single_dgr_eq]

theorem multi_mul_assign_eq (a b : MultiOp R) : multi_mul_assign a b = MultiOp.mul a b := rfl

/-- `MultiOp::c`: the translated function never panics (the `unwrap` of every element succeeds whenever
the product's own test passed) and returns what the model returns -/
theorem multi_c_eq (o : MultiOp R) (cm : Nat) : multi_c o cm = some (MultiOp.c o cm) ∨
    (MultiOp.c o cm = none ∧ MultiOp.actOn o &&& cm = 0) := by
  unfold multi_c MultiOp.c
  rw [multi_act_on_eq]
  by_cases h : MultiOp.actOn o &&& cm = 0
  · simp only [h, bne_self_eq_false, Bool.false_eq_true, ↓reduceIte, ne_eq, not_true_eq_false]
    have hm : List.mapM (fun a1 => Option.bind (single_c a1 cm) fun u3 => some u3) o = List.mapM (fun g => g.c cm) o := by
      congr 1; funext g; simp [single_c_eq]
    rw [hm]
    cases hc : List.mapM (fun g => SingleOp.c g cm) o with
    | none => right; simp
    | some l => left; simp
  · left; simp [h]

/-- `MultiOp::apply` with its buffer ping-pong: the translated function leaves in `psi_o` exactly what
the model's `applyArr` computes, for every queue whose control masks are machine words -/
theorem multi_apply_eq (o : MultiOp R) (hc : ∀ g ∈ o, g.ctrl < 2 ^ 64) (a : Array (Cx R)) (out : List (Cx R))
    (ho : out.length = a.size) :
    multi_apply o a.toList out = (MultiOp.applyArr o a).toList := by
  unfold multi_apply MultiOp.applyArr
  -- invariant of the fold: (psi_o, psi_i) = (scratch of the right length, current buffer)
  suffices h : ∀ (l : MultiOp R) (hl : ∀ g ∈ l, g.ctrl < 2 ^ 64) (cur : Array (Cx R)) (scr : List (Cx R)),
      scr.length = cur.size →
      (List.foldl (fun (st : List (Cx R) × List (Cx R)) (g : SingleOp R) =>
          (st.2, single_apply g st.2 st.1)) (scr, cur.toList) l).2 = (List.foldl (fun a g => g.applyArr a) cur l).toList by
    have := h o hc a out ho
    simpa using this
  intro l
  induction l with
  | nil => intro _ cur scr _; simp
  | cons g l ih =>
    intro hl cur scr hs
    simp only [List.foldl_cons]
    rw [single_apply_eq g (hl g (by simp)) cur scr hs]
    apply ih (fun g' hg' => hl g' (by simp [hg']))
    simp [SingleOp.applyArr]

end ops

section apply
variable [CommRing R] [Consts R] [Div R] [LE R] [DecidableLE R] [LT R] [DecidableLT R] [HasSqrt R] [RegConsts R]

/-- `QReg::apply` (the sequential arm; the parallel arm is its twin): scratch buffer, one `MultiOp::apply`, swap -/
theorem quant_apply_eq (r : QReg R) (o : MultiOp R) (hc : ∀ g ∈ o, g.ctrl < 2 ^ 64) :
    quant_apply (ofModel r) o = ofModel (r.apply o) := by
  unfold quant_apply QReg.apply
  simp only [ofModel]
  rw [multi_apply_eq o hc r.psi _ (by simp [Rs.resize])]

theorem x_ctrl (v : Nat) : ∀ g ∈ (Op.x v : MultiOp R), g.ctrl < 2 ^ 64 := by
  intro g hg
  unfold Op.x MultiOp.ofSingle at hg
  split at hg
  · simp at hg
  · simp at hg; subst hg; simp [SingleOp.ofAtom]

end apply

/-! ### `BitsIter::next` (`math/bits_iter.rs`) -/

/-- the model's iterator state as the translated record -/
def bitsOfModel (it : Qvnt.BitsIter) : BitsIterG := ⟨it.bits, it.pos⟩

theorem bits_from_eq (m : Nat) : bits_from m = bitsOfModel (Qvnt.BitsIter.ofMask m) := rfl

theorem shl_pos (p : Nat) (_h : p < 2 ^ 64) : shlW 64 p 1 = shl1 p := by
  unfold shlW shl1 W; simp

theorem bits_next_eq (fuel : Nat) (it : Qvnt.BitsIter) (h : it.pos < 2 ^ 64) :
    bits_next fuel (bitsOfModel it) = (it.next fuel).map (fun r => (r.1, bitsOfModel r.2)) := by
  unfold bits_next
  induction fuel generalizing it with
  | zero => simp [bits_next_loop1, Qvnt.BitsIter.next]
  | succ n ih =>
    unfold bits_next_loop1 Qvnt.BitsIter.next
    simp only [bitsOfModel]
    by_cases h1 : it.pos &&& it.bits = 0
    · by_cases h2 : (decide (it.pos > it.bits) || it.pos == 0) = true
      · simp [h1, h2]
      · have h2' : ¬ (it.bits < it.pos ∨ it.pos = 0) := by simpa using h2
        have := ih ⟨it.bits, shl1 it.pos⟩ (by unfold shl1 W; exact Nat.mod_lt _ (by decide))
        simp [bitsOfModel] at this
        simp [h1, h2', shl_pos _ h, this]
    · simp [h1, shl_pos _ h]

theorem bitsCollect_eq (fuel : Nat) (it : Qvnt.BitsIter) (h : it.pos < 2 ^ 64) :
    bitsCollect fuel (bitsOfModel it) = it.collect fuel := by
  induction fuel generalizing it with
  | zero => simp [bitsCollect, Qvnt.BitsIter.collect]
  | succ n ih =>
    unfold bitsCollect Qvnt.BitsIter.collect
    rw [bits_next_eq _ _ h]
    cases hn : it.next (n + 1) with
    | none => simp
    | some r =>
      obtain ⟨o, it'⟩ := r
      cases o with
      | none => simp
      | some p =>
        have hp : it'.pos < 2 ^ 64 := by
          unfold Qvnt.BitsIter.next at hn
          -- every successor state has `pos = shl1 _`
          have key : ∀ (f : Nat) (i : Qvnt.BitsIter) q i', i.next f = some (some q, i') → i'.pos < 2 ^ 64 := by
            intro f
            induction f with
            | zero => intro i q i' hh; simp [Qvnt.BitsIter.next] at hh
            | succ f ihf =>
              intro i q i' hh
              unfold Qvnt.BitsIter.next at hh
              split at hh
              · simp at hh; rw [← hh.2]; unfold shl1 W; exact Nat.mod_lt _ (by decide)
              · split at hh
                · simp at hh
                · exact ihf _ _ _ hh
          exact key (n + 1) it p it' (by unfold Qvnt.BitsIter.next; exact hn)
        simp [ih it' hp]
        cases it'.collect n <;> simp

theorem bitsList_eq (m : Nat) : bitsList m = bitsIterList m := by
  unfold bitsList bitsIterList
  rw [bits_from_eq, bitsCollect_eq _ _ (by simp [Qvnt.BitsIter.ofMask])]

/-- the atom constructors used below (the same statements are proved for all atoms in `GenKernels`) -/
theorem h1_new_eq' (a : Nat) : (Gen.h1_new a : Atom R) = .h1 a := rfl
theorem h2_new_eq' (a b : Nat) : (Gen.h2_new a b : Atom R) = .h2 a b (a ||| b) := rfl
theorem y_new_eq' (a : Nat) : (Gen.y_new a : Atom R) = .y a (yIPow a) := by
  unfold Gen.y_new; simp only [yIPow_eq]

/-! ### `multi::h::h` (`operator/multi/h.rs`) -/
section hgate
variable [Add R] [Sub R] [Mul R] [Div R] [Neg R] [Zero R] [One R] [Consts R]

theorem single_from_eq (g : Atom R) : single_from g = SingleOp.ofAtom g := rfl

theorem h_loop_eq (a fuel p f : Nat) (b : Bool) (acc : MultiOp R) (hp : p < 2 ^ 64) :
    (h_h_loop1 a fuel ((p, f), b, acc)).map (fun s => (s.1.2, s.2.1, s.2.2)) = Op.hLoop a fuel p f b acc := by
  induction fuel generalizing p f b acc with
  | zero => simp [h_h_loop1, Op.hLoop]
  | succ n ih =>
    have hs : shl1 p < 2 ^ 64 := by unfold shl1 W; exact Nat.mod_lt _ (by decide)
    unfold h_h_loop1 Op.hLoop
    by_cases hc : (p != 0 && decide (p ≤ a)) = true
    · by_cases hb : (p &&& a != 0) = true
      · cases b
        · simp [hc, hb, shl_pos p hp, ← ih _ _ _ _ hs, h_h2, single_from, h2_new_eq', SingleOp.ofAtom]
        · simp [hc, hb, shl_pos p hp, ← ih _ _ _ _ hs]
      · simp [hc, hb, shl_pos p hp, ← ih _ _ _ _ hs]
    · simp [hc]

theorem h_h_eq (a : Nat) : h_h (R := R) a = Op.h a := by
  unfold h_h Op.h
  cases hc : popcount a with
  | zero => simp
  | succ k =>
    cases k with
    | zero => simp [h_h1, single_from, h1_new_eq', SingleOp.ofAtom]
    | succ k =>
      simp only [beq_iff_eq, Nat.succ_ne_zero, ↓reduceIte, Nat.add_eq_right]
      rw [← h_loop_eq a (W + 2) 1 0 true [] (by decide)]
      cases h_h_loop1 (R := R) a (W + 2) ((1, 0), true, []) with
      | none => simp
      | some st => cases hb : st.2.1 <;> simp [hb, h_h1, single_from, h1_new_eq', SingleOp.ofAtom]

end hgate

/-! ### the public constructors (`operator/single/{pauli,rotate,swap}.rs`, `operator/mod.rs`) -/
section ctors
variable [Add R] [Sub R] [Mul R] [Div R] [Neg R] [Zero R] [One R] [Consts R] [Trig R] [Rs.AngleConsts R]

theorem pauli_x_eq (a : Nat) : pauli_x (R := R) a = SingleOp.ofAtom (.x a) := rfl
theorem pauli_y_eq (a : Nat) : pauli_y (R := R) a = SingleOp.ofAtom (.y a (yIPow a)) := by
  simp [pauli_y, single_from, y_new_eq', SingleOp.ofAtom]
theorem pauli_z_eq (a : Nat) : pauli_z (R := R) a = SingleOp.ofAtom (.z a) := rfl
theorem pauli_s_eq (a : Nat) : pauli_s (R := R) a = SingleOp.ofAtom (.s a false) := rfl
theorem pauli_t_eq (a : Nat) : pauli_t (R := R) a = SingleOp.ofAtom (.t a false) := rfl

theorem checked_eq (g : Atom R) :
    (if Atom.isValid g then some (single_from g) else none) = SingleOp.checked g := by
  unfold SingleOp.checked single_from SingleOp.ofAtom
  cases Atom.isValid g <;> rfl

theorem rotate_rx_eq (a : Nat) (θ : R) : rotate_rx a θ = SingleOp.checked (.rx a (halfPhaseDiv θ)) := checked_eq _
theorem rotate_ry_eq (a : Nat) (θ : R) : rotate_ry a θ = SingleOp.checked (.ry a (halfPhaseDiv θ)) := checked_eq _
theorem rotate_rz_eq (a : Nat) (θ : R) : rotate_rz a θ = SingleOp.checked (.rz a (halfPhaseDiv θ)) := checked_eq _
theorem rotate_rxx_eq (a : Nat) (θ : R) : rotate_rxx a θ = SingleOp.checked (.rxx a (halfPhaseMul θ)) := checked_eq _
theorem rotate_ryy_eq (a : Nat) (θ : R) : rotate_ryy a θ = SingleOp.checked (.ryy a (halfPhaseDiv θ)) := checked_eq _
theorem rotate_rzz_eq (a : Nat) (θ : R) : rotate_rzz a θ = SingleOp.checked (.rzz a (halfPhaseDiv θ)) := checked_eq _
theorem swapmod_swap_eq (a : Nat) : swapmod_swap (R := R) a = SingleOp.checked (.swap a) := checked_eq _
theorem swapmod_sqrt_swap_eq (a : Nat) : swapmod_sqrt_swap (R := R) a = SingleOp.checked (.sqrtSwap a false) := checked_eq _
theorem swapmod_i_swap_eq (a : Nat) : swapmod_i_swap (R := R) a = SingleOp.checked (.iSwap a false) := checked_eq _
theorem swapmod_sqrt_i_swap_eq (a : Nat) : swapmod_sqrt_i_swap (R := R) a = SingleOp.checked (.sqrtISwap a false) := checked_eq _

theorem bind_some_map {α β : Type} (o : Option α) (f : α → β) : (o.bind fun u => some (f u)) = o.map f := by
  cases o <;> rfl

theorem op_id_eq : op_id (R := R) = Op.id := rfl
theorem op_x_eq (a : Nat) : op_x (R := R) a = Op.x a := rfl
theorem op_y_eq (a : Nat) : op_y (R := R) a = Op.y a := by simp [op_y, Op.y, pauli_y_eq]
theorem op_z_eq (a : Nat) : op_z (R := R) a = Op.z a := rfl
theorem op_s_eq (a : Nat) : op_s (R := R) a = Op.s a := rfl
theorem op_t_eq (a : Nat) : op_t (R := R) a = Op.t a := rfl
theorem op_rx_eq (θ : R) (a : Nat) : op_rx θ a = Op.rx (halfPhaseDiv θ) a := by
  simp [op_rx, Op.rx, Op.ofChecked, rotate_rx_eq, bind_some_map]
theorem op_ry_eq (θ : R) (a : Nat) : op_ry θ a = Op.ry (halfPhaseDiv θ) a := by
  simp [op_ry, Op.ry, Op.ofChecked, rotate_ry_eq, bind_some_map]
theorem op_rz_eq (θ : R) (a : Nat) : op_rz θ a = Op.rz (halfPhaseDiv θ) a := by
  simp [op_rz, Op.rz, Op.ofChecked, rotate_rz_eq, bind_some_map]
theorem op_rxx_eq (θ : R) (a : Nat) : op_rxx θ a = Op.rxx (halfPhaseMul θ) a := by
  simp [op_rxx, Op.rxx, Op.ofChecked, rotate_rxx_eq, bind_some_map]
theorem op_ryy_eq (θ : R) (a : Nat) : op_ryy θ a = Op.ryy (halfPhaseDiv θ) a := by
  simp [op_ryy, Op.ryy, Op.ofChecked, rotate_ryy_eq, bind_some_map]
theorem op_rzz_eq (θ : R) (a : Nat) : op_rzz θ a = Op.rzz (halfPhaseDiv θ) a := by
  simp [op_rzz, Op.rzz, Op.ofChecked, rotate_rzz_eq, bind_some_map]
theorem op_swap_eq (a : Nat) : op_swap (R := R) a = Op.swap a := by
  simp [op_swap, Op.swap, Op.ofChecked, swapmod_swap_eq, bind_some_map]
theorem op_sqrt_swap_eq (a : Nat) : op_sqrt_swap (R := R) a = Op.sqrtSwap a := by
  simp [op_sqrt_swap, Op.sqrtSwap, Op.ofChecked, swapmod_sqrt_swap_eq, bind_some_map]
theorem op_i_swap_eq (a : Nat) : op_i_swap (R := R) a = Op.iSwap a := by
  simp [op_i_swap, Op.iSwap, Op.ofChecked, swapmod_i_swap_eq, bind_some_map]
theorem op_sqrt_i_swap_eq (a : Nat) : op_sqrt_i_swap (R := R) a = Op.sqrtISwap a := by
  simp [op_sqrt_i_swap, Op.sqrtISwap, Op.ofChecked, swapmod_sqrt_i_swap_eq, bind_some_map]
theorem op_h_eq (a : Nat) : op_h (R := R) a = Op.h a := by
  simp [op_h, h_h_eq]
theorem op_u1_eq (lam : R) (a : Nat) : op_u1 lam a = Op.u1 (halfPhaseDiv lam) a := by
  simp [op_u1, Op.u1, op_rz_eq]
theorem op_u3_eq (the phi lam : R) (a : Nat) :
    op_u3 the phi lam a = Op.u3 (halfPhaseDiv the) (halfPhaseDiv phi) (halfPhaseDiv lam) a := by
  simp only [op_u3, Op.u3, op_rz_eq, op_ry_eq]
  cases Op.rz (halfPhaseDiv lam) a <;> cases Op.ry (halfPhaseDiv the) a <;> cases Op.rz (halfPhaseDiv phi) a <;> rfl
theorem op_u2_eq (phi lam : R) (a : Nat) :
    op_u2 phi lam a = Op.u2 (halfPhaseDiv Rs.AngleConsts.fracPi2) (halfPhaseDiv phi) (halfPhaseDiv lam) a := by
  simp only [op_u2, Op.u2, Op.u3, op_rz_eq, op_ry_eq]
  cases Op.rz (halfPhaseDiv lam) a <;> cases Op.ry (halfPhaseDiv (Rs.AngleConsts.fracPi2 : R)) a <;> cases Op.rz (halfPhaseDiv phi) a <;> rfl

end ctors

/-! ### `multi::qft` (`operator/multi/qft.rs`) -/
section qft
variable [CommRing R] [Consts R] [Div R] [Trig R] [Rs.AngleConsts R]

/-- the half-angle phases of `PI * 0.5^j`, as the translated constructor computes them -/
def genPhase (j : Nat) : Cx R := halfPhaseDiv ((Rs.AngleConsts.pi : R) * Rs.powi Consts.half j)

theorem single_c_eq' (g : SingleOp R) (c : Nat) : single_c g c = g.c c := by
  unfold single_c SingleOp.c single_act_on SingleOp.actOn
  by_cases h : (g.act ||| g.ctrl) &&& c = 0 <;> simp [h]

theorem foldlM_append {α β : Type} (F : α → Option (List β)) (l : List α) (init : List β) :
    List.foldlM (fun res i => Option.bind (F i) (fun x => some (res ++ x))) init l =
      (l.mapM F).map (fun xs => init ++ xs.flatten) := by
  induction l generalizing init with
  | nil => simp
  | cons a l ih =>
    simp only [List.foldlM_cons, List.mapM_cons]
    cases F a with
    | none => simp
    | some x =>
      simp only [Option.bind_some, Option.bind_eq_bind, ih]
      cases l.mapM F <;> simp

theorem vec_eq (a : Nat) :
    List.foldl (fun (vec : List Nat) idx => if (shlW 64 1 idx &&& a != 0) then vec ++ [shlW 64 1 idx] else vec) [] (Rs.range 0 64) =
      Op.qftBits a := by
  unfold Op.qftBits Rs.range W
  have key : ∀ (l : List Nat) (acc : List Nat), (∀ i ∈ l, i < 64) →
      List.foldl (fun (vec : List Nat) idx => if (shlW 64 1 idx &&& a != 0) then vec ++ [shlW 64 1 idx] else vec) acc l =
        acc ++ l.filterMap (fun i => if (2 ^ i) &&& a != 0 then some (2 ^ i) else none) := by
    intro l
    induction l with
    | nil => intro acc _; simp
    | cons x xs ih =>
      intro acc hx
      have hx64 : x < 64 := hx x (by simp)
      have hs : shlW 64 1 x = 2 ^ x := shl_one x hx64
      simp only [List.foldl_cons, List.filterMap_cons, hs]
      rw [ih _ (fun i hi => hx i (by simp [hi]))]
      by_cases hb : (2 ^ x &&& a != 0) = true <;> simp [hb]
  have := key (List.range' 0 (64 - 0)) [] (by intro i hi; simp at hi; omega)
  simpa [List.range_eq_range'] using this

theorem qft_qft_eq (a : Nat) : qft_qft (R := R) a = Op.qft genPhase a := by
  unfold qft_qft Op.qft
  cases hc : popcount a with
  | zero => simp
  | succ k =>
    cases k with
    | zero => simp [h_h_eq]
    | succ k =>
      simp only [beq_iff_eq, Nat.succ_ne_zero, ↓reduceIte, Nat.add_eq_right]
      have hv := vec_eq a
      -- the bit list
      have hvec : (List.foldl (fun (st2 : List Nat) a3 =>
          (if (shlW 64 1 a3 &&& a != 0) = true then st2 ++ [shlW 64 1 a3] else st2)) [] (Rs.range 0 64)) = Op.qftBits a := hv
      simp only [hvec]
      generalize Op.qftBits a = vec
      -- one stage, as a function of i
      have hstage : ∀ i : Nat,
          (Option.bind (h_h (R := R) (vec.getD i 0)) fun u19 =>
            Option.bind (List.mapM (fun j =>
              Option.bind (Option.bind (rotate_rz (vec.getD (i + j) 0) ((Rs.AngleConsts.pi : R) * Rs.powi Consts.half j))
                  fun op => single_c op (vec.getD i 0)) fun u25 =>
                Option.bind (rotate_rz (vec.getD i 0) (Consts.half * ((Rs.AngleConsts.pi : R) * Rs.powi Consts.half j))) fun u26 =>
                  some [u25, u26]) (Rs.range 1 (k + 1 + 1 - i))) fun u27 => some (u19 ++ List.flatten u27)) =
          (do
            let hi ← Op.h (R := R) (vec.getD i 0)
            let rots ← (List.range (k + 1 + 1 - i - 1)).mapM (fun k' =>
              match SingleOp.checked (Atom.rz (vec.getD (i + (k' + 1)) 0) (genPhase (R := R) (k' + 1))),
                    SingleOp.checked (Atom.rz (vec.getD i 0) (genPhase (R := R) (k' + 1 + 1))) with
              | some g, some g' => (g.c (vec.getD i 0)).map (fun cg => [cg, g'])
              | _, _ => none)
            pure (hi ++ rots.flatten)) := by
        intro i
        rw [h_h_eq]
        have hr : Rs.range 1 (k + 1 + 1 - i) = (List.range (k + 1 + 1 - i - 1)).map (· + 1) := by
          unfold Rs.range
          apply List.ext_getElem
          · simp
          · intro n h1 h2
            simp [Nat.add_comm]
        rw [hr, List.mapM_map]
        have hf : ∀ k' : Nat,
            (Option.bind (Option.bind (rotate_rz (vec.getD (i + (k' + 1)) 0) ((Rs.AngleConsts.pi : R) * Rs.powi Consts.half (k' + 1)))
                fun op => single_c op (vec.getD i 0)) fun u25 =>
              Option.bind (rotate_rz (vec.getD i 0) (Consts.half * ((Rs.AngleConsts.pi : R) * Rs.powi Consts.half (k' + 1)))) fun u26 =>
                some [u25, u26]) =
            (match SingleOp.checked (Atom.rz (vec.getD (i + (k' + 1)) 0) (genPhase (R := R) (k' + 1))),
                  SingleOp.checked (Atom.rz (vec.getD i 0) (genPhase (R := R) (k' + 1 + 1))) with
              | some g, some g' => (g.c (vec.getD i 0)).map (fun cg => [cg, g'])
              | _, _ => none) := by
          intro k'
          have hph : (Consts.half : R) * ((Rs.AngleConsts.pi : R) * Rs.powi Consts.half (k' + 1)) =
              (Rs.AngleConsts.pi : R) * Rs.powi Consts.half (k' + 1 + 1) := by
            simp only [Rs.powi]; ring
          rw [rotate_rz_eq, rotate_rz_eq, hph]
          simp only [genPhase]
          generalize SingleOp.checked (Atom.rz (vec.getD (i + (k' + 1)) 0)
              (halfPhaseDiv ((Rs.AngleConsts.pi : R) * Rs.powi Consts.half (k' + 1)))) = o1
          generalize SingleOp.checked (Atom.rz (vec.getD i 0)
              (halfPhaseDiv ((Rs.AngleConsts.pi : R) * Rs.powi Consts.half (k' + 1 + 1)))) = o2
          cases o1 with
          | none => cases o2 <;> rfl
          | some g =>
            cases o2 with
            | none => simp only [Option.bind_some]; rw [single_c_eq']; cases g.c (vec.getD i 0) <;> rfl
            | some g' => simp only [Option.bind_some]; rw [single_c_eq']; cases g.c (vec.getD i 0) <;> rfl
        simp only [Function.comp_def, hf]
        cases Op.h (R := R) (vec.getD i 0) <;> simp
      -- assemble
      have hloop := foldlM_append (fun i =>
          (Option.bind (h_h (R := R) (vec.getD i 0)) fun u19 =>
            Option.bind (List.mapM (fun j =>
              Option.bind (Option.bind (rotate_rz (vec.getD (i + j) 0) ((Rs.AngleConsts.pi : R) * Rs.powi Consts.half j))
                  fun op => single_c op (vec.getD i 0)) fun u25 =>
                Option.bind (rotate_rz (vec.getD i 0) (Consts.half * ((Rs.AngleConsts.pi : R) * Rs.powi Consts.half j))) fun u26 =>
                  some [u25, u26]) (Rs.range 1 (k + 1 + 1 - i))) fun u27 => some (u19 ++ List.flatten u27)))
        (Rs.range 0 (k + 1 + 1 - 1)) []
      have hbody : (fun (st17 : List (SingleOp R)) a18 =>
            (h_h (R := R) (vec.getD a18 0)).bind fun a =>
              (List.mapM (fun a20 =>
                  ((rotate_rz (vec.getD (a18 + a20) 0) ((Rs.AngleConsts.pi : R) * Rs.powi Consts.half a20)).bind fun a =>
                      single_c a (vec.getD a18 0)).bind fun a =>
                    (rotate_rz (vec.getD a18 0) (Consts.half * ((Rs.AngleConsts.pi : R) * Rs.powi Consts.half a20))).bind
                      fun a_1 => some [a, a_1]) (Rs.range 1 (k + 1 + 1 - a18))).bind
                fun a_1 => some (st17 ++ a ++ a_1.flatten)) =
          (fun res i =>
            Option.bind ((Option.bind (h_h (R := R) (vec.getD i 0)) fun u19 =>
              Option.bind (List.mapM (fun j =>
                Option.bind (Option.bind (rotate_rz (vec.getD (i + j) 0) ((Rs.AngleConsts.pi : R) * Rs.powi Consts.half j))
                    fun op => single_c op (vec.getD i 0)) fun u25 =>
                  Option.bind (rotate_rz (vec.getD i 0) (Consts.half * ((Rs.AngleConsts.pi : R) * Rs.powi Consts.half j))) fun u26 =>
                    some [u25, u26]) (Rs.range 1 (k + 1 + 1 - i))) fun u27 => some (u19 ++ List.flatten u27))) (fun x => some (res ++ x))) := by
        funext res i
        cases h_h (R := R) (vec.getD i 0) with
        | none => rfl
        | some u =>
          simp only [Option.bind_some]
          cases List.mapM (fun a20 =>
                  ((rotate_rz (vec.getD (i + a20) 0) ((Rs.AngleConsts.pi : R) * Rs.powi Consts.half a20)).bind fun a =>
                      single_c a (vec.getD i 0)).bind fun a =>
                    (rotate_rz (vec.getD i 0) (Consts.half * ((Rs.AngleConsts.pi : R) * Rs.powi Consts.half a20))).bind
                      fun a_1 => some [a, a_1]) (Rs.range 1 (k + 1 + 1 - i)) with
          | none => rfl
          | some v => simp [List.append_assoc]
      rw [hbody, hloop]
      have hr0 : Rs.range 0 (k + 1 + 1 - 1) = List.range (k + 1 + 1 - 1) := by
        simp [Rs.range, List.range_eq_range']
      rw [hr0]
      simp only [hstage]
      simp only [h_h_eq]
      cases List.mapM (fun i => (do
            let hi ← Op.h (R := R) (vec.getD i 0)
            let rots ← (List.range (k + 1 + 1 - i - 1)).mapM (fun k' =>
              match SingleOp.checked (Atom.rz (vec.getD (i + (k' + 1)) 0) (genPhase (R := R) (k' + 1))),
                    SingleOp.checked (Atom.rz (vec.getD i 0) (genPhase (R := R) (k' + 1 + 1))) with
              | some g, some g' => (g.c (vec.getD i 0)).map (fun cg => [cg, g'])
              | _, _ => none)
            pure (hi ++ rots.flatten))) (List.range (k + 1 + 1 - 1)) with
      | none => rfl
      | some st =>
        simp only [Option.map_some, List.nil_append, Option.bind_some, Option.bind_eq_bind]
        cases Op.h (R := R) (vec.getD (k + 1 + 1 - 1) 0) <;> rfl

theorem swapped_loop_eq (a fuel pos : Nat) (acc : List Nat) (hp : pos < 2 ^ 64) :
    (qft_qft_swapped_loop1 a fuel (acc, pos)).map (fun st => st.1) = Op.maskBitsLoop a fuel pos acc := by
  induction fuel generalizing pos acc with
  | zero => simp [qft_qft_swapped_loop1, Op.maskBitsLoop]
  | succ n ih =>
    have hs : shl1 pos < 2 ^ 64 := by unfold shl1 W; exact Nat.mod_lt _ (by decide)
    unfold qft_qft_swapped_loop1 Op.maskBitsLoop
    by_cases hc : (pos != 0 && decide (pos ≤ a)) = true
    · by_cases hb : (pos &&& a != 0) = true
      · simp [hc, hb, shl_pos pos hp, ← ih _ _ hs]
      · simp [hc, hb, shl_pos pos hp, ← ih _ _ hs]
    · simp [hc]

theorem qft_qft_swapped_eq (a : Nat) : qft_qft_swapped (R := R) a = Op.qftSwapped genPhase a := by
  unfold qft_qft_swapped Op.qftSwapped
  rw [← swapped_loop_eq a (W + 2) 1 [] (by decide)]
  dsimp only
  generalize qft_qft_swapped_loop1 a (W + 2) ([], 1) = o
  cases o with
  | none => rfl
  | some st =>
    obtain ⟨vm, idx⟩ := st
    simp only [Option.bind_some, Option.map_some, Option.bind_eq_bind]
    have hbody : (fun (st6 : List (SingleOp R)) a7 =>
          Option.bind (swapmod_swap (R := R) (vm.getD a7 0 ||| vm.getD (vm.length - a7 - 1) 0)) fun u8 =>
            some (st6 ++ MultiOp.ofSingle u8)) =
        (fun res i => Option.bind ((SingleOp.checked (Atom.swap (R := R) (vm.getD i 0 ||| vm.getD (vm.length - i - 1) 0))).map
          MultiOp.ofSingle) (fun x => some (res ++ x))) := by
      funext res i
      rw [swapmod_swap_eq]
      cases SingleOp.checked (Atom.swap (R := R) (vm.getD i 0 ||| vm.getD (vm.length - i - 1) 0)) <;> rfl
    rw [hbody, foldlM_append]
    have hr0 : Rs.range 0 (vm.length >>> 1) = List.range (vm.length / 2) := by
      simp [Rs.range, List.range_eq_range', Nat.shiftRight_eq_div_pow]
    rw [hr0, qft_qft_eq]
    cases List.mapM (fun i => (SingleOp.checked (Atom.swap (R := R) (vm.getD i 0 ||| vm.getD (vm.length - i - 1) 0))).map
        MultiOp.ofSingle) (List.range (vm.length / 2)) with
    | none => rfl
    | some sw =>
      simp only [Option.map_some, List.nil_append, Option.bind_some]
      cases Op.qft (R := R) genPhase a <;> rfl

theorem op_qft_eq (a : Nat) : op_qft (R := R) a = Op.qft genPhase a := by
  simp [op_qft, qft_qft_eq]
theorem op_qft_swapped_eq (a : Nat) : op_qft_swapped (R := R) a = Op.qftSwapped genPhase a := by
  simp [op_qft_swapped, qft_qft_swapped_eq]

end qft

/-! ### `sample_all` (`register/quant.rs`) -/
section sample
open Qvnt.QReg (HasRound)
variable [Add R] [Sub R] [Mul R] [Div R] [Neg R] [Zero R] [One R] [Consts R]
  [LE R] [DecidableLE R] [LT R] [DecidableLT R] [HasSqrt R] [RegConsts R] [HasRound R]

/-- the surplus walk: one more unit of fuel than the model's (the translated loop tests its fuel first) -/
theorem surplus_loop_eq (r : QRegG R) (fuel idx s : Nat) (n : List Nat) (hq : r.q_mask < n.length) :
    (quant_sample_all_loop1 r (fuel + 1) (idx, n, s)).map (fun st => st.2.1) =
      QReg.removeSurplus r.q_mask fuel idx s n := by
  induction fuel generalizing idx s n with
  | zero =>
    cases s with
    | zero => simp [quant_sample_all_loop1, QReg.removeSurplus]
    | succ s' =>
      unfold quant_sample_all_loop1 QReg.removeSurplus
      by_cases h0 : n.getD (idx &&& r.q_mask) 0 = 0 <;> simp [h0, quant_sample_all_loop1]
  | succ f ih =>
    cases s with
    | zero => simp [quant_sample_all_loop1, QReg.removeSurplus]
    | succ s' =>
      have hc : idx &&& r.q_mask < n.length := lt_of_le_of_lt Nat.and_le_right hq
      unfold quant_sample_all_loop1 QReg.removeSurplus
      have hget : n[idx &&& r.q_mask]? = some (n.getD (idx &&& r.q_mask) 0) := by
        simp [List.getD_eq_getElem?_getD, List.getElem?_eq_getElem hc]
      simp only [Nat.add_eq_zero_iff, one_ne_zero, and_false, beq_iff_eq, ↓reduceIte, hget]
      cases hv : n.getD (idx &&& r.q_mask) 0 with
      | zero => simp [ih (idx + 1) (s' + 1) n hq]
      | succ v =>
        have := ih (idx + 1) s' (n.set (idx &&& r.q_mask) v) (by simpa using hq)
        simp [this]

theorem updateSelected_eq_go (each extra : Nat) (n : List Nat) (p : List R) (k : Nat) :
    Rs.updateSelectedAux (fun x => decide (x > 0)) (fun idx x => if idx < extra then x + each + 1 else x + each) n p k =
      QReg.addDeficit.go each extra n (p.map fun x => decide (0 < x)) k := by
  induction n generalizing p k with
  | nil => cases p <;> simp [Rs.updateSelectedAux, QReg.addDeficit.go]
  | cons x xs ih =>
    cases p with
    | nil => simp [Rs.updateSelectedAux, QReg.addDeficit.go]
    | cons y ys =>
      by_cases hy : (0 : R) < y
      · simp only [Rs.updateSelectedAux, GT.gt, hy, decide_true, ↓reduceIte, List.map_cons, QReg.addDeficit.go, ih]
        by_cases hk : k < extra <;> simp [hk, Nat.add_assoc]
      · simp [Rs.updateSelectedAux, GT.gt, hy, QReg.addDeficit.go, ih]

theorem rsSum_nat (l : List Nat) : Rs.sum l = l.sum := by
  unfold Rs.sum
  rw [List.sum_eq_foldl]

/-- stage 1: the rounded Gaussian proposal, when there is a draw for every cell -/
theorem proposal_eq (p g : List R) (count : Nat) (hg : p.length ≤ g.length) :
    (let c : R := HasRound.ofNat count
     let c_sqrt := HasSqrt.sqrt c
     let n := List.map (fun a1 : R × R => HasSqrt.sqrt a1.1 * a1.2) (List.zip p g)
     let n_sum := Rs.sum n
     List.map (fun idx => Int.toNat (max (HasRound.roundInt ((c * p.getD idx 0) + (c_sqrt * (n.getD idx 0 - (n_sum * p.getD idx 0))))) (0 : Int)))
       (Rs.range 0 p.length)) = QReg.sampleProposal p count g := by
  unfold QReg.sampleProposal Rs.sum Rs.range
  apply List.ext_getElem
  · simp; omega
  · intro i h1 h2
    have hi : i < p.length := by simpa using h1
    have hig : i < g.length := by omega
    simp [List.getD_eq_getElem?_getD, hi, hig]

/-- `sample_all` with the normal draws as an input list (one draw per cell at least), for every register whose
mask and buffer fit its size: the translated function, given one more unit of fuel than the model's bound, is
the model's `sampleAll` -/
theorem quant_sample_all_eq (r : QReg R) (count : Nat) (g : List R) (hq : r.qNum < 64)
    (hs : 2 ^ r.qNum ≤ r.psi.size) (hm : r.qMask < 2 ^ r.qNum) (hg : 2 ^ r.qNum ≤ g.length) :
    quant_sample_all
      (((QReg.sampleProposal r.getProbabilities count g).sum - count) *
        ((QReg.sampleProposal r.getProbabilities count g).length + 1) +
        (QReg.sampleProposal r.getProbabilities count g).length + 1 + 1) (ofModel r) count g =
      r.sampleAll count g := by
  have hp := quant_get_probabilities_eq r hq hs
  have hpl : r.getProbabilities.length = 2 ^ r.qNum := by simp [QReg.getProbabilities]
  have hprop := proposal_eq r.getProbabilities g count (by omega)
  simp only at hprop
  unfold quant_sample_all QReg.sampleAll QReg.sampleFix
  simp only [hp, hprop]
  generalize hn0 : QReg.sampleProposal r.getProbabilities count g = n0
  have hn0l : n0.length = 2 ^ r.qNum := by
    rw [← hn0]; unfold QReg.sampleProposal; simp [hpl]; omega
  simp only [rsSum_nat]
  by_cases hlt : n0.sum < count
  · have h1 : ((Int.ofNat n0.sum - Int.ofNat count) < (0 : Int)) := by
      simp only [Int.ofNat_eq_natCast]; omega
    have hab : Int.natAbs (Int.ofNat n0.sum - Int.ofNat count) = count - n0.sum := by
      simp only [Int.ofNat_eq_natCast]; omega
    simp only [h1, decide_true, ↓reduceIte, hlt, hab, QReg.addDeficit, Rs.updateSelected]
    have hsup : (List.filter (fun a4 : R => decide (a4 > 0)) r.getProbabilities).length =
        (List.filter id (List.map (fun x => decide (0 < x)) r.getProbabilities)).length := by
      rw [List.filter_map]; simp [Function.comp_def, GT.gt]
    rw [hsup]
    congr 1
    rw [← updateSelected_eq_go]
    congr 1
    funext idx x
    by_cases hk : idx < (count - n0.sum) % max (List.filter id (List.map (fun x => decide (0 < x)) r.getProbabilities)).length 1
    · simp [hk]
    · simp [hk]
  · by_cases hgt : n0.sum > count
    · have h1 : ¬ ((Int.ofNat n0.sum - Int.ofNat count) < (0 : Int)) := by
        simp only [Int.ofNat_eq_natCast]; omega
      have h2 : ((Int.ofNat n0.sum - Int.ofNat count) > (0 : Int)) := by
        simp only [Int.ofNat_eq_natCast]; omega
      have hcast : Int.toNat (Int.ofNat n0.sum - Int.ofNat count) = n0.sum - count := by
        simp only [Int.ofNat_eq_natCast]; omega
      simp only [h1, decide_false, Bool.false_eq_true, ↓reduceIte, h2, decide_true, hlt, hgt, hcast]
      have := surplus_loop_eq (ofModel r) ((n0.sum - count) * (n0.length + 1) + n0.length + 1) 0 (n0.sum - count) n0
        (by simp [ofModel, hn0l]; exact hm)
      simp only [ofModel] at this ⊢
      rw [← this]
      cases quant_sample_all_loop1 (R := R) ⟨r.psi.toList, r.qNum, r.qMask⟩
        ((n0.sum - count) * (n0.length + 1) + n0.length + 1 + 1) (0, n0, n0.sum - count) <;> simp
    · have h1 : ¬ ((Int.ofNat n0.sum - Int.ofNat count) < (0 : Int)) := by
        simp only [Int.ofNat_eq_natCast]; omega
      have h2 : ¬ ((Int.ofNat n0.sum - Int.ofNat count) > (0 : Int)) := by
        simp only [Int.ofNat_eq_natCast]; omega
      simp [h1, h2, hlt, hgt]

end sample

/-! ### virtual registers (`register/virtl.rs`) -/

def vregOfModel (v : VReg) : VRegG := ⟨v.bits⟩

theorem vreg_new_with_mask_eq (m : Nat) : vreg_new_with_mask m = vregOfModel (VReg.ofMask m) := by
  have := bitsList_eq m
  unfold bitsList at this
  simp [vreg_new_with_mask, vregOfModel, VReg.ofMask, this]

theorem vreg_new_eq (n : Nat) : vreg_new n = vregOfModel (VReg.new n) := by
  unfold vreg_new VReg.new CReg.maskOf W
  rw [vreg_new_with_mask_eq]
  by_cases h : n ≥ 64
  · simp [h, Qvnt.notW]
  · have hn : n < 64 := by omega
    simp [h, shl_one n hn, mask_eq n hn]

theorem vreg_index_eq (v : VReg) (i : Nat) : vreg_index (vregOfModel v) i = (v.idx i).getD 0 := by
  simp [vreg_index, vregOfModel, VReg.idx, List.getD_eq_getElem?_getD]

theorem foldl_filterMap' {α β γ : Type} (f : β → Option γ) (g : α → γ → α) (l : List β) (a : α) :
    List.foldl g a (List.filterMap f l) = List.foldl (fun acc b => match f b with | some c => g acc c | none => acc) a l := by
  induction l generalizing a with
  | nil => rfl
  | cons x xs ih =>
    simp only [List.filterMap_cons, List.foldl_cons]
    cases f x <;> simp [ih]

theorem vreg_index_by_eq (v : VReg) (f : Nat → Bool) : vreg_index_by (vregOfModel v) f = v.idxBy f := by
  unfold vreg_index_by VReg.idxBy vregOfModel Rs.enumerate
  simp only [foldl_filterMap', List.foldl_map]
  congr 1
  funext acc p
  cases f p.2 <;> simp

theorem quant_get_vreg_eq (r : QReg R) : quant_get_vreg (ofModel r) = vregOfModel r.getVReg := by
  simp [quant_get_vreg, QReg.getVReg, ofModel, vreg_new_with_mask_eq]

/-! ### the interpreter's block queue (`qasm/int/ext_op.rs`) -/
section extop
variable [Add R] [Sub R] [Mul R] [Div R] [Neg R] [Zero R] [One R] [Consts R]

theorem extop_push_eq (e : ExtOp R) (o : MultiOp R) : extop_push e o = e.push o := by
  unfold extop_push ExtOp.push
  by_cases h : e.tail.isEmpty
  · simp only [h, ↓reduceIte]
    cases hl : e.blocks.getLast? with
    | none => simp
    | some p =>
      obtain ⟨l, sep⟩ := p
      cases sep <;> simp
  · simp [h]

/-- `append`: the receiver becomes the model's `append`, the argument is left empty (`mem::take`) -/
theorem extop_append_eq (e other : ExtOp R) :
    (extop_append e other).1 = e.append other ∧ (extop_append e other).2 = { blocks := [], tail := [] } := by
  unfold extop_append ExtOp.append
  refine ⟨?_, rfl⟩
  by_cases h : e.tail.isEmpty
  · simp [h]
  · simp only [h, Bool.not_false, ↓reduceIte, Bool.false_eq_true]
    cases hl : e.blocks.getLast? with
    | none => simp
    | some p =>
      obtain ⟨l, sep⟩ := p
      cases sep <;> simp

end extop

/-- every `match` on the threading model in the translated functions has a parallel arm that is the
sequential arm with rayon's adaptors (`par_iter`, `par_iter_mut`, `into_par_iter`, `apply_sync`) -/
theorem parTwins_all : (parTwins.all (fun p => p.2)) = true := by decide

end Qvnt.Gen2
