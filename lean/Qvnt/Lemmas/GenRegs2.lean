/-
Umbrella: the equalities between the functions translated by `tools/rs2lean2.py` (`Qvnt.Generated.Regs`) and the
hand-written MODEL live in one module per source file / subject, so that an equality that no longer holds blocks
only the properties that rely on it:

  GenQuant (register/quant.rs)   GenOps (operator/{single,multi}/mod.rs, QReg::apply)   GenBits (math/bits_iter.rs)
  GenH (operator/multi/h.rs)     GenCtors (public constructors)                         GenQft (operator/multi/qft.rs)
  GenSample (sample_all)         GenVirtl (register/virtl.rs, get_vreg)                 GenExtOp (qasm/int/ext_op.rs)
  GenTwins (parallel arms are the rayon twins of the sequential ones)
-/
import Qvnt.Lemmas.GenQuant
import Qvnt.Lemmas.GenQProb
import Qvnt.Lemmas.GenOps
import Qvnt.Lemmas.GenBits
import Qvnt.Lemmas.GenH
import Qvnt.Lemmas.GenCtors
import Qvnt.Lemmas.GenQft
import Qvnt.Lemmas.GenSample
import Qvnt.Lemmas.GenVirtl
import Qvnt.Lemmas.GenExtOp
import Qvnt.Lemmas.GenTwins
