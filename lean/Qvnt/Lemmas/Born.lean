/-
LEMMAS — outcome probabilities of a measurement (helpers for C07).

`weight r m v` is the sum of `|ψ_i|²` over the basis states `i < 2^n` with `i &&& m = v`;
`outcomeProb r m v = weight r m v / nrm r` is the probability that the index drawn with the
reported probabilities agrees with `v` on the qubits `m`.
-/
import Qvnt.Lemmas.Measure

namespace Qvnt
open Finset

/-- sum of the squared moduli of the basis states that read `v` on the qubits `m` -/
noncomputable def weight (r : QReg ℝ) (m v : Nat) : ℝ :=
  ∑ i ∈ (range (2 ^ r.qNum)).filter (fun i => i &&& m = v), (bufFn r.psi i).normSq

/-- probability that measuring the qubits `m` returns `v`: push-forward, along `i ↦ i &&& m`, of
the distribution "index `i` with probability `|ψ_i|² / nrm`" -/
noncomputable def outcomeProb (r : QReg ℝ) (m v : Nat) : ℝ :=
  ∑ i ∈ (range (2 ^ r.qNum)).filter (fun i => i &&& m = v), (bufFn r.psi i).normSq / nrm r

theorem outcomeProb_eq (r : QReg ℝ) (m v : Nat) : outcomeProb r m v = weight r m v / nrm r := by
  unfold outcomeProb weight
  simp only [div_eq_mul_inv]
  rw [sum_mul]

theorem weight_nonneg (r : QReg ℝ) (m v : Nat) : 0 ≤ weight r m v :=
  sum_nonneg (fun _ _ => normSq_nonneg _)

theorem outcomeProb_nonneg (r : QReg ℝ) (m v : Nat) : 0 ≤ outcomeProb r m v := by
  rw [outcomeProb_eq]; exact div_nonneg (weight_nonneg r m v) (nrm_nonneg r)

theorem and_lt_two_pow_of_lt (i m n : Nat) (hi : i < 2 ^ n) : i &&& m < 2 ^ n :=
  lt_of_le_of_lt Nat.and_le_left hi

theorem weight_total (r : QReg ℝ) (hwf : WF r) (m : Nat) :
    ∑ v ∈ range (2 ^ r.qNum), weight r m v = nrm r := by
  rw [nrm_eq_range r hwf]
  unfold weight
  exact sum_fiberwise_of_maps_to
    (fun i hi => mem_range.2 (and_lt_two_pow_of_lt i m _ (mem_range.1 hi))) _

theorem outcomeProb_total (r : QReg ℝ) (hwf : WF r) (hpos : nrm r ≠ 0) (m : Nat) :
    ∑ v ∈ range (2 ^ r.qNum), outcomeProb r m v = 1 := by
  simp only [outcomeProb_eq, div_eq_mul_inv]
  rw [← sum_mul, weight_total r hwf m, mul_inv_cancel₀ hpos]

theorem outcomeProb_total_image (r : QReg ℝ) (hwf : WF r) (hpos : nrm r ≠ 0) (m : Nat) :
    ∑ v ∈ (range (2 ^ r.qNum)).image (fun i => i &&& m), outcomeProb r m v = 1 := by
  simp only [outcomeProb_eq, div_eq_mul_inv]
  rw [← sum_mul]
  unfold weight
  rw [sum_fiberwise_of_maps_to (fun i hi => mem_image_of_mem _ hi), ← nrm_eq_range r hwf,
    mul_inv_cancel₀ hpos]

/-- measuring nothing returns 0 with certainty -/
theorem outcomeProb_zero_mask (r : QReg ℝ) (hwf : WF r) (hpos : nrm r ≠ 0) :
    outcomeProb r 0 0 = 1 := by
  rw [outcomeProb_eq]
  have : weight r 0 0 = nrm r := by
    rw [nrm_eq_range r hwf]
    unfold weight
    apply sum_congr _ (fun _ _ => rfl)
    apply filter_true_of_mem
    intro i _; exact Nat.and_zero i
  rw [this, div_self hpos]

/-! ### the push-forward of the draw -/

theorem getProbabilities_getD (r : QReg ℝ) (i : Nat) (hi : i < 2 ^ r.qNum) :
    r.getProbabilities.getD i 0 = (bufFn r.psi i).normSq / nrm r := by
  rw [List.getD_eq_getElem?_getD, getProbabilities_getElem? r i hi]; rfl

theorem measure_value_of_lt (r : QReg ℝ) (m d : Nat) (hq : r.qMask = 2 ^ r.qNum - 1)
    (hn : r.qNum ≤ 64) (hd : d < 2 ^ r.qNum) : (r.measureMask m d).2.value = d &&& m := by
  rw [measure_value r m d hq hn, Nat.and_comm m, ← Nat.and_assoc, hq, and_lowMask,
    Nat.mod_eq_of_lt hd]

/-- `outcomeProb` is the total reported probability of the draws for which `measure_mask`
returns `v` -/
theorem outcomeProb_pushforward (r : QReg ℝ) (hq : r.qMask = 2 ^ r.qNum - 1) (hn : r.qNum ≤ 64)
    (m v : Nat) :
    outcomeProb r m v = ∑ d ∈ (range (2 ^ r.qNum)).filter
      (fun d => (r.measureMask m d).2.value = v), r.getProbabilities.getD d 0 := by
  unfold outcomeProb
  rw [sum_filter, sum_filter]
  apply sum_congr rfl
  intro d hd
  rw [mem_range] at hd
  rw [measure_value_of_lt r m d hq hn hd, getProbabilities_getD r d hd]

/-! ### invariance under a positive factor -/

theorem nrm_of_scaled (r r' : QReg ℝ) (lam : ℝ) (hwf : WF r) (hwf' : WF r')
    (hq : r'.qNum = r.qNum) (h : ∀ i, bufFn r'.psi i = (bufFn r.psi i).scale lam) :
    nrm r' = lam ^ 2 * nrm r := by
  rw [nrm_eq_range r hwf, nrm_eq_range r' hwf', hq, mul_sum]
  exact sum_congr rfl (fun i _ => by rw [h i, normSq_scale])

theorem weight_of_scaled (r r' : QReg ℝ) (lam : ℝ) (hq : r'.qNum = r.qNum)
    (h : ∀ i, bufFn r'.psi i = (bufFn r.psi i).scale lam) (m v : Nat) :
    weight r' m v = lam ^ 2 * weight r m v := by
  unfold weight
  rw [hq, mul_sum]
  exact sum_congr rfl (fun i _ => by rw [h i, normSq_scale])

theorem outcomeProb_of_scaled (r r' : QReg ℝ) (lam : ℝ) (hlam : lam ≠ 0) (hwf : WF r)
    (hwf' : WF r') (hq : r'.qNum = r.qNum)
    (h : ∀ i, bufFn r'.psi i = (bufFn r.psi i).scale lam) (m v : Nat) :
    outcomeProb r' m v = outcomeProb r m v := by
  rw [outcomeProb_eq, outcomeProb_eq, nrm_of_scaled r r' lam hwf hwf' hq h,
    weight_of_scaled r r' lam hq h, mul_div_mul_left _ _ (pow_ne_zero 2 hlam)]

theorem getProbabilities_of_scaled (r r' : QReg ℝ) (lam : ℝ) (hlam : lam ≠ 0) (hwf : WF r)
    (hwf' : WF r') (hq : r'.qNum = r.qNum)
    (h : ∀ i, bufFn r'.psi i = (bufFn r.psi i).scale lam) :
    r'.getProbabilities = r.getProbabilities := by
  rw [getProbabilities_eq, getProbabilities_eq, hq]
  apply List.map_congr_left
  intro i _
  rw [nrm_of_scaled r r' lam hwf hwf' hq h, h i, normSq_scale,
    mul_div_mul_left _ _ (pow_ne_zero 2 hlam)]

/-! ### conditioning: the state after a measurement -/

theorem normSq_collapse_ite (z : Cx ℝ) (i d m : Nat) :
    (if (i ^^^ d) &&& m ≠ 0 then (0 : Cx ℝ) else z).normSq
      = if i &&& m = d &&& m then z.normSq else 0 := by
  by_cases h : (i ^^^ d) &&& m = 0
  · rw [if_neg (fun hne => hne h), if_pos ((xor_and_eq_zero_iff i d m).1 h)]
  · rw [if_pos h, if_neg (fun he => h ((xor_and_eq_zero_iff i d m).2 he)), normSq_zero]

/-- the collapsed norm is the weight of the outcome -/
theorem nrm_collapse_eq_weight (r : QReg ℝ) (hwf : WF r) (d m : Nat) :
    nrm (r.collapseMask d m) = weight r m (d &&& m) := by
  rw [nrm_eq_range _ (collapse_wf r d m hwf)]
  unfold weight
  rw [sum_filter]
  apply sum_congr rfl
  intro i _
  rw [bufFn_collapse, normSq_collapse_ite]

/-- joint outcome on two disjoint sets of qubits -/
theorem and_or_split (i m₁ m₂ v₁ v₂ : Nat) (hd : m₁ &&& m₂ = 0) (h1 : v₁ &&& m₁ = v₁)
    (h2 : v₂ &&& m₂ = v₂) :
    i &&& (m₁ ||| m₂) = v₁ ||| v₂ ↔ (i &&& m₁ = v₁ ∧ i &&& m₂ = v₂) := by
  have hd' : m₂ &&& m₁ = 0 := by rw [Nat.and_comm]; exact hd
  have e1 : (m₁ ||| m₂) &&& m₁ = m₁ := by
    rw [Nat.and_or_distrib_right, Nat.and_self, hd', Nat.or_zero]
  have e2 : (m₁ ||| m₂) &&& m₂ = m₂ := by
    rw [Nat.and_or_distrib_right, Nat.and_self, hd, Nat.zero_or]
  have f1 : (v₁ ||| v₂) &&& m₁ = v₁ := by
    rw [Nat.and_or_distrib_right, h1, ← h2, Nat.and_assoc, hd', Nat.and_zero, Nat.or_zero]
  have f2 : (v₁ ||| v₂) &&& m₂ = v₂ := by
    rw [Nat.and_or_distrib_right, h2, ← h1, Nat.and_assoc, hd, Nat.and_zero, Nat.zero_or]
  constructor
  · intro h
    constructor
    · rw [← e1, ← Nat.and_assoc, h, f1]
    · rw [← e2, ← Nat.and_assoc, h, f2]
  · rintro ⟨ha, hb⟩
    rw [Nat.and_or_distrib_left, ha, hb]

/-- weight of the second outcome in the collapsed state = weight of the joint outcome -/
theorem weight_collapse (r : QReg ℝ) (d m₁ m₂ v₂ : Nat) (hd : m₁ &&& m₂ = 0)
    (h2 : v₂ &&& m₂ = v₂) :
    weight (r.collapseMask d m₁) m₂ v₂ = weight r (m₁ ||| m₂) (d &&& m₁ ||| v₂) := by
  unfold weight
  show ∑ i ∈ (range (2 ^ r.qNum)).filter (fun i => i &&& m₂ = v₂), _ = _
  rw [sum_filter, sum_filter]
  apply sum_congr rfl
  intro i _
  rw [bufFn_collapse, normSq_collapse_ite]
  have h1 : (d &&& m₁) &&& m₁ = d &&& m₁ := by rw [Nat.and_assoc, Nat.and_self]
  have key := and_or_split i m₁ m₂ (d &&& m₁) v₂ hd h1 h2
  by_cases ha : i &&& m₁ = d &&& m₁ <;> by_cases hb : i &&& m₂ = v₂
  · rw [if_pos hb, if_pos ha, if_pos (key.2 ⟨ha, hb⟩)]
  · rw [if_neg hb, if_neg (fun h => hb (key.1 h).2)]
  · rw [if_pos hb, if_neg ha, if_neg (fun h => ha (key.1 h).1)]
  · rw [if_neg hb, if_neg (fun h => hb (key.1 h).2)]

/-- outcome probabilities in the post-measurement state are the conditional probabilities.
No hypothesis on the draw: the post-measurement state is a positive multiple of the collapsed one
for every draw (`measure_scaled`). The quotient is a genuine conditional probability when the draw
is possible, `0 < weight r m₁ (d &&& m₁)` (`weight_pos_of_possible`); for an impossible draw the
register is the zero vector and both sides are `0 / 0 = 0`. -/
theorem outcomeProb_measure (r : QReg ℝ) (hwf : WF r) (m₁ d m₂ v₂ : Nat)
    (hin : m₁ &&& r.qMask = m₁) (hd : m₁ &&& m₂ = 0) (h2 : v₂ &&& m₂ = v₂) :
    outcomeProb (r.measureMask m₁ d).1 m₂ v₂
      = weight r (m₁ ||| m₂) (d &&& m₁ ||| v₂) / weight r m₁ (d &&& m₁) := by
  obtain ⟨lam, hlam, h⟩ := measure_scaled r m₁ d
  rw [hin] at h
  have hscaled : ∀ i, bufFn (r.measureMask m₁ d).1.psi i
      = (bufFn (r.collapseMask d m₁).psi i).scale lam := by
    intro i; rw [h i, bufFn_collapse]
  rw [outcomeProb_of_scaled (r.collapseMask d m₁) _ lam (ne_of_gt hlam) (collapse_wf r d m₁ hwf)
    (measure_wf r m₁ d hwf) (measure_qNum r m₁ d) hscaled, outcomeProb_eq,
    nrm_collapse_eq_weight r hwf, weight_collapse r d m₁ m₂ v₂ hd h2]

theorem weight_pos_of_possible (r : QReg ℝ) (hwf : WF r) (d m : Nat)
    (hpos : 0 < nrm (r.collapseMask d m)) : 0 < weight r m (d &&& m) := by
  rw [← nrm_collapse_eq_weight r hwf]
  exact hpos

/-- a drawn index of non-zero amplitude gives an outcome of positive probability -/
theorem outcomeProb_pos_of_drawn (r : QReg ℝ) (hwf : WF r) (m d : Nat) (hd : d < 2 ^ r.qNum)
    (hp : bufFn r.psi d ≠ 0) : 0 < outcomeProb r m (d &&& m) := by
  have hsz : d < r.psi.size := by rw [hwf.1]; omega
  have hpos : 0 < (bufFn r.psi d).normSq :=
    lt_of_le_of_ne (normSq_nonneg _) (fun h => hp ((normSq_eq_zero_iff _).1 h.symm))
  have hw : 0 < weight r m (d &&& m) := by
    rw [← nrm_collapse_eq_weight r hwf]; exact nrm_collapse_pos r d m hsz hpos
  have hn : 0 < nrm r := lt_of_lt_of_le (nrm_collapse_pos r d m hsz hpos) (nrm_collapse_le r d m)
  rw [outcomeProb_eq]; exact div_pos hw hn

/-- reading `v₁ ||| v₂` on `m₁ ||| m₂` implies reading `v₁` on `m₁`: the joint weight is at most
the marginal one -/
theorem weight_joint_le (r : QReg ℝ) (m₁ m₂ v₁ v₂ : Nat) (hd : m₁ &&& m₂ = 0)
    (h1 : v₁ &&& m₁ = v₁) (h2 : v₂ &&& m₂ = v₂) :
    weight r (m₁ ||| m₂) (v₁ ||| v₂) ≤ weight r m₁ v₁ := by
  unfold weight
  apply sum_le_sum_of_subset_of_nonneg
  · intro i hi
    rw [mem_filter] at hi ⊢
    exact ⟨hi.1, ((and_or_split i m₁ m₂ v₁ v₂ hd h1 h2).1 hi.2).1⟩
  · intro i _ _
    exact normSq_nonneg _

/-- chain rule: P(first = v₁) · P(second = v₂ | first = v₁) = P(joint = v₁ ||| v₂), for every
draw `d` (for an impossible one both sides are 0: the joint outcome is impossible too) -/
theorem outcomeProb_chain (r : QReg ℝ) (hwf : WF r) (m₁ d m₂ v₂ : Nat)
    (hin : m₁ &&& r.qMask = m₁) (hd : m₁ &&& m₂ = 0) (h2 : v₂ &&& m₂ = v₂) :
    outcomeProb r m₁ (d &&& m₁) * outcomeProb (r.measureMask m₁ d).1 m₂ v₂
      = outcomeProb r (m₁ ||| m₂) (d &&& m₁ ||| v₂) := by
  rw [outcomeProb_measure r hwf m₁ d m₂ v₂ hin hd h2, outcomeProb_eq, outcomeProb_eq]
  have h1 : (d &&& m₁) &&& m₁ = d &&& m₁ := by rw [Nat.and_assoc, Nat.and_self]
  rcases (weight_nonneg r m₁ (d &&& m₁)).eq_or_lt with hw | hw
  · have hj : weight r (m₁ ||| m₂) (d &&& m₁ ||| v₂) = 0 :=
      le_antisymm (by rw [hw]; exact weight_joint_le r m₁ m₂ _ v₂ hd h1 h2) (weight_nonneg _ _ _)
    rw [← hw, hj]
    simp
  · have hne : weight r m₁ (d &&& m₁) ≠ 0 := ne_of_gt hw
    field_simp

/-! ### the covariance of the histogram sampler's linear map -/

theorem cov_identity {k : Nat} (p : Fin k → ℝ) (hp : ∀ i, 0 ≤ p i) (hs : ∑ i, p i = 1)
    (i j : Fin k) :
    ∑ l, ((if i = l then Real.sqrt (p i) else 0) - p i * Real.sqrt (p l))
        * ((if j = l then Real.sqrt (p j) else 0) - p j * Real.sqrt (p l))
      = (if i = j then p i else 0) - p i * p j := by
  have hsq : ∀ l, Real.sqrt (p l) * Real.sqrt (p l) = p l := fun l => Real.mul_self_sqrt (hp l)
  have expand : ∀ l, ((if i = l then Real.sqrt (p i) else 0) - p i * Real.sqrt (p l))
        * ((if j = l then Real.sqrt (p j) else 0) - p j * Real.sqrt (p l))
      = (if i = l then (if j = l then Real.sqrt (p i) * Real.sqrt (p j) else 0) else 0)
        - (if i = l then Real.sqrt (p i) * p j * Real.sqrt (p l) else 0)
        - (if j = l then p i * Real.sqrt (p l) * Real.sqrt (p j) else 0)
        + p i * p j * p l := by
    intro l
    by_cases h1 : i = l
    · subst h1
      by_cases h2 : j = i
      · subst h2
        simp only [if_true]
        linear_combination (p j * p j) * hsq j
      · simp only [h2, if_true, if_false]
        linear_combination (p i * p j) * hsq i
    · by_cases h2 : j = l
      · subst h2
        simp only [h1, if_true, if_false]
        linear_combination (p i * p j) * hsq j
      · simp only [h1, h2, if_false]
        linear_combination (p i * p j) * hsq l
  simp only [expand, sum_add_distrib, sum_sub_distrib, sum_ite_eq, mem_univ, if_true]
  rw [← mul_sum, hs]
  by_cases hij : i = j
  · subst hij
    simp only [if_true]
    linear_combination (1 - 2 * p i) * hsq i
  · have hji : ¬ j = i := fun h => hij h.symm
    simp only [hij, hji, if_false]
    linear_combination (- p j) * hsq i - (p i) * hsq j

/-- the map applied to the normal draws: `√p_i g_i − (Σ_l √p_l g_l) p_i = Σ_l A_il g_l` -/
theorem linear_map_identity {k : Nat} (p g : Fin k → ℝ) (i : Fin k) :
    Real.sqrt (p i) * g i - (∑ l, Real.sqrt (p l) * g l) * p i
      = ∑ l, ((if i = l then Real.sqrt (p i) else 0) - p i * Real.sqrt (p l)) * g l := by
  simp only [sub_mul, sum_sub_distrib, ite_mul, zero_mul, sum_ite_eq, mem_univ, if_true]
  rw [sum_mul]
  congr 1
  exact sum_congr rfl (fun l _ => by ring)

/-! ### a two-qubit example register -/

/-- `(3/5, 4/5) ⊗ (3/5, 4/5)` -/
noncomputable def pairReg : QReg ℝ := demoReg.tensorProd demoReg

theorem pairReg_wf : WF pairReg := tensorProd_WF _ _ (qubitReg_wf _ _) (qubitReg_wf _ _)

theorem pairReg_qMask : pairReg.qMask = 3 := rfl
theorem pairReg_qNum : pairReg.qNum = 2 := rfl

theorem pairReg_bufFn (i : Nat) : bufFn pairReg.psi i =
    if i < 4 then bufFn demoReg.psi (i % 2) * bufFn demoReg.psi (i / 2) else 0 :=
  (QReg.tensorProd_spec demoReg demoReg rfl rfl).2.2.2 i

theorem pairReg_weight_one : weight pairReg 1 1 = 16 / 25 := by
  unfold weight
  rw [sum_filter, pairReg_qNum]
  simp only [pairReg_bufFn, demoReg, qubitReg_bufFn]
  simp [sum_range_succ, Cx.normSq]
  norm_num

/-- the draw `|11>` is possible when qubit 0 is measured -/
theorem pairReg_pos : 0 < nrm (pairReg.collapseMask 3 (1 &&& pairReg.qMask)) := by
  have e : (1 &&& pairReg.qMask) = 1 := rfl
  rw [e, nrm_collapse_eq_weight pairReg pairReg_wf 3 1]
  have : (3 &&& 1 : Nat) = 1 := rfl
  rw [this, pairReg_weight_one]
  norm_num

end Qvnt
