/-
LEMMAS — the decision logic of the OpenQASM interpreter model (`Qvnt/Model/Interp.lean`):
first-error-wins for statement lists, register lookup, declarations, measure / reset / if,
gate definitions, built-in gate calls. Used by `Props/C13` and `Props/C10`.
-/
import Qvnt.Model.Interp
import Qvnt.Lemmas.Bits
import Qvnt.Lemmas.Structure
import Qvnt.Lemmas.Ctor

namespace Qvnt
open Interp

/-! ## A. statement lists -/
section A
variable {R : Type} [Add R] [Sub R] [Mul R] [Neg R] [Div R] [ExprFns R] [AngleFns R]

theorem processNodes_nil (self ch : Interp R) : processNodes self ch [] = .ok ch := rfl

theorem processNodes_cons_ok (self ch ch' : Interp R) (n : Node R) (ns : List (Node R))
    (h : processNode self ch n = .ok ch') :
    processNodes self ch (n :: ns) = processNodes self ch' ns := by
  simp only [processNodes, h]

theorem processNodes_cons_err (self ch : Interp R) (n : Node R) (ns : List (Node R)) (e : IntError)
    (h : processNode self ch n = .err e) :
    processNodes self ch (n :: ns) = .err e := by
  simp only [processNodes, h]

theorem processNodes_cons_panic (self ch : Interp R) (n : Node R) (ns : List (Node R)) (s : String)
    (h : processNode self ch n = .panic s) :
    processNodes self ch (n :: ns) = .panic s := by
  simp only [processNodes, h]

theorem processNodes_ok_append (self ch ch' : Interp R) (a b : List (Node R))
    (h : processNodes self ch a = .ok ch') :
    processNodes self ch (a ++ b) = processNodes self ch' b := by
  induction a generalizing ch with
  | nil => simp only [processNodes] at h; cases h; rfl
  | cons n a ih =>
    simp only [List.cons_append]
    cases hn : processNode self ch n with
    | ok c1 =>
      rw [processNodes_cons_ok _ _ _ _ _ hn] at h ⊢
      exact ih _ h
    | err e => rw [processNodes_cons_err _ _ _ _ _ hn] at h; cases h
    | panic s => rw [processNodes_cons_panic _ _ _ _ _ hn] at h; cases h

theorem processNodes_err_prefix (self ch : Interp R) (a b : List (Node R)) (e : IntError)
    (h : processNodes self ch a = .err e) :
    processNodes self ch (a ++ b) = .err e := by
  induction a generalizing ch with
  | nil => simp only [processNodes] at h; cases h
  | cons n a ih =>
    simp only [List.cons_append]
    cases hn : processNode self ch n with
    | ok c1 =>
      rw [processNodes_cons_ok _ _ _ _ _ hn] at h ⊢
      exact ih _ h
    | err e' =>
      rw [processNodes_cons_err _ _ _ _ _ hn] at h ⊢; exact h
    | panic s => rw [processNodes_cons_panic _ _ _ _ _ hn] at h; cases h

theorem processNodes_plant (self ch ch' : Interp R) (good rest : List (Node R)) (bad : Node R)
    (e : IntError) (hg : processNodes self ch good = .ok ch')
    (hb : processNode self ch' bad = .err e) :
    processNodes self ch (good ++ bad :: rest) = .err e := by
  rw [processNodes_ok_append _ _ _ _ _ hg, processNodes_cons_err _ _ _ _ _ hb]

end A

/-! ## B1. register masks -/

theorem list_snoc_induction {α : Type} {P : List α → Prop} (hnil : P [])
    (hsnoc : ∀ l x, P l → P (l ++ [x])) : ∀ l, P l := by
  have h : ∀ l : List α, P l.reverse := by
    intro l
    induction l with
    | nil => exact hnil
    | cons x l ih => rw [List.reverse_cons]; exact hsnoc _ _ ih
  intro l; have := h l.reverse; rwa [List.reverse_reverse] at this

theorem maskByAlias_nil (a : String) : maskByAlias [] a = 0 := rfl

theorem maskByAlias_snoc (l : List String) (x a : String) :
    maskByAlias (l ++ [x]) a =
      if x = a then maskByAlias l a ||| (1 <<< (l.length % W)) else maskByAlias l a := by
  unfold maskByAlias
  rw [List.zipIdx_append, List.foldl_append]
  simp [List.zipIdx]

/-- bit `j` of the mask is set iff position `j` holds the alias (registers of at most 64
positions: beyond that the shift amount wraps) -/
theorem maskByAlias_testBit (l : List String) (a : String) (hl : l.length ≤ 64) (j : Nat) :
    (maskByAlias l a).testBit j = decide (l[j]? = some a) := by
  induction l using list_snoc_induction with
  | hnil => simp [maskByAlias_nil]
  | hsnoc l x ih =>
    rw [List.length_append, List.length_singleton] at hl
    have ih := ih (by omega)
    rw [maskByAlias_snoc]
    have hmod : l.length % W = l.length := Nat.mod_eq_of_lt (by simp only [W]; omega)
    by_cases hj : j < l.length
    · have h1 : (l ++ [x])[j]? = l[j]? := List.getElem?_append_left hj
      rw [h1]
      split
      · rw [Nat.testBit_or, ih, hmod, Nat.one_shiftLeft, Nat.testBit_two_pow]
        have : ¬ l.length = j := by omega
        simp [this]
      · exact ih
    · by_cases hj' : j = l.length
      · subst hj'
        have h1 : (l ++ [x])[l.length]? = some x := by simp
        have h2 : l[l.length]? = none := by simp
        rw [h1]
        rw [h2] at ih
        split
        · rename_i hx; rw [Nat.testBit_or, hmod, Nat.one_shiftLeft, Nat.testBit_two_pow]; simp [hx]
        · rename_i hx; rw [ih]; simp [hx]
      · have h1 : (l ++ [x])[j]? = none := by
          rw [List.getElem?_eq_none_iff, List.length_append, List.length_singleton]; omega
        have h2 : l[j]? = none := by rw [List.getElem?_eq_none_iff]; omega
        rw [h1]; rw [h2] at ih
        split
        · rw [Nat.testBit_or, ih, hmod, Nat.one_shiftLeft, Nat.testBit_two_pow]
          have : ¬ l.length = j := by omega
          simp [this]
        · rw [ih]

theorem maskByAlias_lt (l : List String) (a : String) (hl : l.length ≤ 64) :
    maskByAlias l a < 2 ^ l.length := by
  apply Nat.lt_pow_two_of_testBit
  intro i hi
  rw [maskByAlias_testBit l a hl, decide_eq_false_iff_not]
  have : l[i]? = none := by rw [List.getElem?_eq_none_iff]; omega
  rw [this]; simp

theorem maskByAlias_lt_word (l : List String) (a : String) (hl : l.length ≤ 64) :
    maskByAlias l a < 2 ^ 64 :=
  Nat.lt_of_lt_of_le (maskByAlias_lt l a hl) (Nat.pow_le_pow_right (by decide) hl)

theorem maskByAlias_eq_zero_iff (l : List String) (a : String) (hl : l.length ≤ 64) :
    maskByAlias l a = 0 ↔ a ∉ l := by
  constructor
  · intro h hmem
    obtain ⟨i, hi, hia⟩ := List.getElem_of_mem hmem
    have := maskByAlias_testBit l a hl i
    rw [h, Nat.zero_testBit] at this
    have h2 : l[i]? = some a := by rw [List.getElem?_eq_getElem hi, hia]
    rw [h2] at this; simp at this
  · intro h
    apply Nat.eq_of_testBit_eq
    intro i
    rw [maskByAlias_testBit l a hl, Nat.zero_testBit, decide_eq_false_iff_not]
    intro h2
    exact h (List.mem_of_getElem? h2)

theorem popcount_maskByAlias (l : List String) (a : String) (hl : l.length ≤ 64) :
    popcount (maskByAlias l a) = l.count a := by
  induction l using list_snoc_induction with
  | hnil => simp [maskByAlias_nil, popcount_zero]
  | hsnoc l x ih =>
    rw [List.length_append, List.length_singleton] at hl
    have ih := ih (by omega)
    rw [maskByAlias_snoc, List.count_append]
    have hmod : l.length % W = l.length := Nat.mod_eq_of_lt (by simp only [W]; omega)
    split
    · rename_i hx
      rw [hmod, Nat.one_shiftLeft, popcount_or_disjoint, ih, popcount_two_pow]
      · simp [hx]
      · rw [and_two_pow_eq_zero_iff, maskByAlias_testBit l a (by omega)]
        simp
    · rename_i hx
      rw [ih]; simp [hx]

/-! ## B2. register lookup (getIdx) -/
section
variable {R : Type}

/-- the register list `getIdx` searches -/
def regList (self ch : Interp R) (quantum : Bool) : List String :=
  if quantum then self.qReg ++ ch.qReg else self.cReg ++ ch.cReg

def noReg (quantum : Bool) (a : String) : IntError := if quantum then .noQReg a else .noCReg a

theorem getIdx_register (self ch : Interp R) (q : Bool) (a : String)
    (hl : (regList self ch q).length ≤ 64) :
    getIdx self ch q (.register a) =
      if a ∈ regList self ch q then .ok (maskByAlias (regList self ch q) a)
      else .error (noReg q a) := by
  have := maskByAlias_eq_zero_iff (regList self ch q) a hl
  unfold getIdx
  simp only [regList, noReg] at *
  by_cases h : a ∈ (if q then self.qReg ++ ch.qReg else self.cReg ++ ch.cReg)
  · simp only [h, if_true]
    rw [if_pos]
    intro h0; exact (this.1 h0) h
  · simp only [h, if_false]
    rw [if_neg]
    simp only [ne_eq, Decidable.not_not]; exact this.2 h

theorem bitsOf_getElem?_mask (l : List String) (a : String) (hl : l.length ≤ 64) (i b : Nat)
    (h : (bitsOf (maskByAlias l a))[i]? = some b) :
    ∃ k, k < l.length ∧ l[k]? = some a ∧ b = 2 ^ k := by
  have hm := List.mem_of_getElem? h
  rw [mem_bitsOf] at hm
  obtain ⟨k, _, hb, ht⟩ := hm
  rw [maskByAlias_testBit l a hl, decide_eq_true_iff] at ht
  refine ⟨k, ?_, ht, hb⟩
  have := List.getElem?_eq_some_iff.1 ht
  exact this.1

theorem getIdx_qubit_cases (self ch : Interp R) (q : Bool) (a : String) (i : Nat)
    (hl : (regList self ch q).length ≤ 64) :
    (a ∉ regList self ch q ∧ getIdx self ch q (.qubit a i) = .error (noReg q a)) ∨
    (a ∈ regList self ch q ∧ (regList self ch q).count a ≤ i ∧
      getIdx self ch q (.qubit a i) = .error (.idxOutOfRange a i)) ∨
    (a ∈ regList self ch q ∧ i < (regList self ch q).count a ∧
      ∃ k, k < (regList self ch q).length ∧ (regList self ch q)[k]? = some a ∧
        (bitsIterList (maskByAlias (regList self ch q) a))[i]? = some (2 ^ k) ∧
        getIdx self ch q (.qubit a i) = .ok (2 ^ k)) := by
  have h0 := maskByAlias_eq_zero_iff (regList self ch q) a hl
  have hlt := maskByAlias_lt_word (regList self ch q) a hl
  have hpc := popcount_maskByAlias (regList self ch q) a hl
  have hlen := length_bitsOf _ hlt
  have hbi := bitsIterList_eq_bitsOf _ hlt
  have hget : getIdx self ch q (.qubit a i) =
      if maskByAlias (regList self ch q) a ≠ 0 then
        match (bitsIterList (maskByAlias (regList self ch q) a))[i]? with
        | some b => .ok b
        | none => .error (.idxOutOfRange a i)
      else .error (noReg q a) := rfl
  rw [hget]
  by_cases hmem : a ∈ regList self ch q
  · have hne : maskByAlias (regList self ch q) a ≠ 0 := fun h => (h0.1 h) hmem
    rw [if_pos hne]
    right
    by_cases hi : i < (regList self ch q).count a
    · right
      refine ⟨hmem, hi, ?_⟩
      have hil : i < (bitsOf (maskByAlias (regList self ch q) a)).length := by omega
      obtain ⟨k, hk, hka, hb⟩ := bitsOf_getElem?_mask _ a hl i _ (List.getElem?_eq_getElem hil)
      refine ⟨k, hk, hka, ?_⟩
      rw [hbi, List.getElem?_eq_getElem hil, hb]
      exact ⟨rfl, rfl⟩
    · left
      refine ⟨hmem, by omega, ?_⟩
      have : (bitsIterList (maskByAlias (regList self ch q) a))[i]? = none := by
        rw [hbi, List.getElem?_eq_none_iff]; omega
      rw [this]
  · left
    refine ⟨hmem, ?_⟩
    rw [if_neg]
    simp only [ne_eq, Decidable.not_not]; exact h0.2 hmem
end

/-! ## B3. declarations -/
section
variable {R : Type}

theorem filter_beq_length (l : List String) (a : String) :
    (l.filter (· == a)).length = l.count a := by
  rw [List.count_eq_length_filter]

theorem count_pos_iff_mem (l : List String) (a : String) : l.count a > 0 ↔ a ∈ l :=
  List.count_pos_iff

/-- `check_dup` as a decision list -/
theorem checkDup_eq (self ch : Interp R) (a : String) :
    checkDup self ch a =
      if a ∈ self.qReg then .error (.dupQReg a (self.qReg.count a))
      else if a ∈ self.cReg then .error (.dupCReg a (self.cReg.count a))
      else if a ∈ ch.qReg then .error (.dupQReg a (ch.qReg.count a))
      else if a ∈ ch.cReg then .error (.dupCReg a (ch.cReg.count a))
      else .ok () := by
  unfold checkDup
  simp only [filter_beq_length, count_pos_iff_mem]

/-- the decision list of a register declaration; `mine`/`other` select the quantum or the
classical side -/
def declDecision (self ch : Interp R) (a : String) (n total : Nat) (okRes : Interp R) : PRes R :=
  if a.utf8ByteSize ≥ 32 then .err (.identIsTooLarge a a.utf8ByteSize)
  else if n ≥ 64 then .err (.registerIsTooLarge a n)
  else if total ≥ 64 then .err (.registerIsTooLarge a total)
  else if a ∈ self.qReg then .err (.dupQReg a (self.qReg.count a))
  else if a ∈ self.cReg then .err (.dupCReg a (self.cReg.count a))
  else if a ∈ ch.qReg then .err (.dupQReg a (ch.qReg.count a))
  else if a ∈ ch.cReg then .err (.dupCReg a (ch.cReg.count a))
  else .ok okRes

section
variable [Add R] [Sub R] [Mul R] [Neg R] [Div R] [ExprFns R] [AngleFns R]

theorem processNode_qreg (self ch : Interp R) (a : String) (n : Nat) :
    processNode self ch (.qreg a n) =
      declDecision self ch a n (self.qReg.length + ch.qReg.length + n)
        { ch with qReg := ch.qReg ++ List.replicate n a } := by
  simp only [processNode, declDecision, checkIdent, checkRegSize, checkDup_eq,
    Generated.identLimit, Generated.regSizeLimit]
  repeat' split
  all_goals simp_all [bind, Except.bind]

theorem processNode_creg (self ch : Interp R) (a : String) (n : Nat) :
    processNode self ch (.creg a n) =
      declDecision self ch a n (self.cReg.length + ch.cReg.length + n)
        { ch with cReg := ch.cReg ++ List.replicate n a } := by
  simp only [processNode, declDecision, checkIdent, checkRegSize, checkDup_eq,
    Generated.identLimit, Generated.regSizeLimit]
  repeat' split
  all_goals simp_all [bind, Except.bind]
end
end

/-! ## B4. register arguments as a decision list -/
section
variable {R : Type}

/-- the error a register argument raises against the alias list `l` (`none` = it resolves) -/
def argErr (l : List String) (quantum : Bool) : Arg → Option IntError
  | .qubit a i =>
    if a ∉ l then some (noReg quantum a)
    else if l.count a ≤ i then some (.idxOutOfRange a i) else none
  | .register a => if a ∉ l then some (noReg quantum a) else none

/-- the mask a register argument resolves to -/
def argMask (l : List String) : Arg → Nat
  | .qubit a i => (bitsIterList (maskByAlias l a))[i]?.getD 0
  | .register a => maskByAlias l a

/-- the number of (qu)bits a register argument denotes -/
def argBits (l : List String) : Arg → Nat
  | .qubit _ _ => 1
  | .register a => l.count a

/-- `getIdx` as a decision list -/
theorem getIdx_eq (self ch : Interp R) (q : Bool) (arg : Arg)
    (hl : (regList self ch q).length ≤ 64) :
    getIdx self ch q arg =
      match argErr (regList self ch q) q arg with
      | some e => .error e
      | none => .ok (argMask (regList self ch q) arg) := by
  cases arg with
  | register a =>
    rw [getIdx_register self ch q a hl]
    by_cases h : a ∈ regList self ch q <;> simp [argErr, argMask, h]
  | qubit a i =>
    rcases getIdx_qubit_cases self ch q a i hl with ⟨h1, h2⟩ | ⟨h1, h2, h3⟩ | ⟨h1, h2, k, _, _, h5, h6⟩
    · rw [h2]; simp [argErr, h1]
    · rw [h3]; simp [argErr, h1, h2]
    · rw [h6]
      have : ¬ (List.count a (regList self ch q) ≤ i) := by omega
      simp [argErr, argMask, h1, this, h5]

theorem argMask_spec (l : List String) (q : Bool) (arg : Arg) (hl : l.length ≤ 64)
    (h : argErr l q arg = none) :
    popcount (argMask l arg) = argBits l arg ∧ argMask l arg < 2 ^ 64 ∧ argMask l arg ≠ 0 ∧
      argMask l arg &&& maskByAlias l arg.name = argMask l arg := by
  cases arg with
  | register a =>
    simp only [argErr] at h
    have hmem : a ∈ l := by
      by_cases hm : a ∈ l
      · exact hm
      · rw [if_pos hm] at h; cases h
    refine ⟨popcount_maskByAlias l a hl, maskByAlias_lt_word l a hl, ?_, Nat.and_self _⟩
    intro h0; exact ((maskByAlias_eq_zero_iff l a hl).1 h0) hmem
  | qubit a i =>
    simp only [argErr] at h
    have hmem : a ∈ l := by
      by_cases hm : a ∈ l
      · exact hm
      · rw [if_pos hm] at h; cases h
    have hcnt : i < l.count a := by
      by_cases hc : l.count a ≤ i
      · rw [if_neg (by simpa using hmem), if_pos hc] at h; cases h
      · omega
    have hlt := maskByAlias_lt_word l a hl
    have hil : i < (bitsOf (maskByAlias l a)).length := by
      rw [length_bitsOf _ hlt, popcount_maskByAlias l a hl]; exact hcnt
    obtain ⟨k, hk, hka, hb⟩ := bitsOf_getElem?_mask l a hl i _ (List.getElem?_eq_getElem hil)
    have hm : argMask l (.qubit a i) = 2 ^ k := by
      simp only [argMask]
      rw [bitsIterList_eq_bitsOf _ hlt, List.getElem?_eq_getElem hil, hb]; rfl
    rw [hm]
    refine ⟨popcount_two_pow k, ?_, ?_, ?_⟩
    · exact Nat.pow_lt_pow_right (by decide) (by omega)
    · exact Nat.pos_iff_ne_zero.1 (Nat.two_pow_pos k)
    · show 2 ^ k &&& maskByAlias l a = 2 ^ k
      rw [Nat.and_comm, and_two_pow_eq, maskByAlias_testBit l a hl]
      simp [hka]

theorem getIdx_err_iff (self ch : Interp R) (q : Bool) (arg : Arg) (e : IntError)
    (hl : (regList self ch q).length ≤ 64) :
    getIdx self ch q arg = .error e ↔ argErr (regList self ch q) q arg = some e := by
  rw [getIdx_eq self ch q arg hl]
  cases argErr (regList self ch q) q arg <;> simp
end

/-! ## B5. gate application, measure, reset, if -/
section
variable {R : Type}

/-- the first error among the qubit arguments of a call, in order -/
def regsErr (l : List String) : List Arg → Option IntError
  | [] => none
  | a :: as => match argErr l true a with
    | some e => some e
    | none => regsErr l as

theorem regsOf_eq (self ch : Interp R) (hl : (regList self ch true).length ≤ 64)
    (l : List Arg) (acc : List Nat) :
    processApply.regsOf self ch l acc =
      match regsErr (regList self ch true) l with
      | some e => .error e
      | none => .ok (acc.reverse ++ l.map (argMask (regList self ch true))) := by
  induction l generalizing acc with
  | nil => simp [processApply.regsOf, regsErr]
  | cons a as ih =>
    rw [processApply.regsOf, getIdx_eq self ch true a hl, regsErr]
    cases h : argErr (regList self ch true) true a with
    | some e => rfl
    | none =>
      simp only []
      rw [ih]
      cases regsErr (regList self ch true) as <;> simp

theorem regsErr_eq_some_iff (l : List String) (regs : List Arg) (e : IntError) :
    regsErr l regs = some e ↔
      ∃ pre a post, regs = pre ++ a :: post ∧ (∀ b ∈ pre, argErr l true b = none) ∧
        argErr l true a = some e := by
  induction regs with
  | nil => simp [regsErr]
  | cons a as ih =>
    rw [regsErr]
    cases h : argErr l true a with
    | some e' =>
      simp only [Option.some.injEq]
      constructor
      · rintro rfl; exact ⟨[], a, as, rfl, by simp, h⟩
      · rintro ⟨pre, b, post, heq, hpre, hb⟩
        cases pre with
        | nil =>
          simp only [List.nil_append, List.cons.injEq] at heq
          rw [← heq.1, h] at hb; exact Option.some.inj hb
        | cons p pre =>
          simp only [List.cons_append, List.cons.injEq] at heq
          have := hpre p (by simp)
          rw [← heq.1, h] at this; cases this
    | none =>
      simp only []
      rw [ih]
      constructor
      · rintro ⟨pre, b, post, heq, hpre, hb⟩
        refine ⟨a :: pre, b, post, by rw [heq]; rfl, ?_, hb⟩
        intro x hx
        rcases List.mem_cons.1 hx with rfl | hx
        · exact h
        · exact hpre x hx
      · rintro ⟨pre, b, post, heq, hpre, hb⟩
        cases pre with
        | nil =>
          simp only [List.nil_append, List.cons.injEq] at heq
          rw [← heq.1, h] at hb; cases hb
        | cons p pre =>
          simp only [List.cons_append, List.cons.injEq] at heq
          exact ⟨pre, b, post, heq.2, fun x hx => hpre x (List.mem_cons_of_mem _ hx), hb⟩

theorem regsErr_eq_none_iff (l : List String) (regs : List Arg) :
    regsErr l regs = none ↔ ∀ a ∈ regs, argErr l true a = none := by
  induction regs with
  | nil => simp [regsErr]
  | cons a as ih =>
    rw [regsErr]
    cases h : argErr l true a with
    | some e' => simp [h]
    | none => simp [h, ih]

section
variable [Add R] [Sub R] [Mul R] [Neg R] [Div R] [ExprFns R]

/-- the parameter values of a call, or the error of the first parameter (in order) whose
evaluation fails -/
def evalArgs0 : List (PExpr R) → Except IntError (List R)
  | [] => .ok []
  | a :: as =>
    match evalExtended a [] with
    | .error e => .error (.unevaluatedArgument a.text e)
    | .ok v => match evalArgs0 as with
      | .error e => .error e
      | .ok vs => .ok (v :: vs)

theorem argsOf_eq (l : List (PExpr R)) (acc : List R) :
    processApply.argsOf l acc =
      match evalArgs0 l with
      | .error e => .error e
      | .ok vs => .ok (acc.reverse ++ vs) := by
  induction l generalizing acc with
  | nil => simp [processApply.argsOf, evalArgs0]
  | cons a as ih =>
    rw [processApply.argsOf, evalArgs0]
    cases h : evalExtended a [] with
    | error e => rfl
    | ok v =>
      simp only []
      rw [ih]
      cases evalArgs0 as <;> simp

theorem evalArgs0_error_iff (l : List (PExpr R)) (e : IntError) :
    evalArgs0 l = .error e ↔
      ∃ pre a post ee, l = pre ++ a :: post ∧ (∀ b ∈ pre, ∃ v, evalExtended b [] = .ok v) ∧
        evalExtended a [] = .error ee ∧ e = .unevaluatedArgument a.text ee := by
  induction l with
  | nil => simp [evalArgs0]
  | cons a as ih =>
    rw [evalArgs0]
    cases h : evalExtended a [] with
    | error e' =>
      simp only [Except.error.injEq]
      constructor
      · rintro rfl; exact ⟨[], a, as, e', rfl, by simp, h, rfl⟩
      · rintro ⟨pre, b, post, ee, heq, hpre, hb, he⟩
        cases pre with
        | nil =>
          simp only [List.nil_append, List.cons.injEq] at heq
          obtain ⟨rfl, _⟩ := heq
          rw [h] at hb; cases hb; exact he.symm
        | cons p pre =>
          simp only [List.cons_append, List.cons.injEq] at heq
          obtain ⟨v, hv⟩ := hpre p (by simp)
          rw [← heq.1, h] at hv; cases hv
    | ok v =>
      simp only []
      have : (match evalArgs0 as with
          | .error e => Except.error e
          | .ok vs => Except.ok (v :: vs)) = Except.error e ↔ evalArgs0 as = .error e := by
        cases evalArgs0 as <;> simp
      rw [this, ih]
      constructor
      · rintro ⟨pre, b, post, ee, heq, hpre, hb, he⟩
        refine ⟨a :: pre, b, post, ee, by rw [heq]; rfl, ?_, hb, he⟩
        intro x hx
        rcases List.mem_cons.1 hx with rfl | hx
        · exact ⟨v, h⟩
        · exact hpre x hx
      · rintro ⟨pre, b, post, ee, heq, hpre, hb, he⟩
        cases pre with
        | nil =>
          simp only [List.nil_append, List.cons.injEq] at heq
          obtain ⟨rfl, _⟩ := heq
          rw [h] at hb; cases hb
        | cons p pre =>
          simp only [List.cons_append, List.cons.injEq] at heq
          exact ⟨pre, b, post, ee, heq.2, fun x hx => hpre x (List.mem_cons_of_mem _ hx), hb, he⟩

theorem evalArgs0_ok_iff (l : List (PExpr R)) :
    (∃ vs, evalArgs0 l = .ok vs) ↔ ∀ a ∈ l, ∃ v, evalExtended a [] = .ok v := by
  induction l with
  | nil => simp [evalArgs0]
  | cons a as ih =>
    rw [evalArgs0]
    cases h : evalExtended a [] with
    | error e' => simp [h]
    | ok v =>
      simp only [List.mem_cons, forall_eq_or_imp, h, Except.ok.injEq, exists_eq', true_and]
      rw [← ih]
      cases evalArgs0 as <;> simp

theorem evalArgs0_length (l : List (PExpr R)) (vs : List R) (h : evalArgs0 l = .ok vs) :
    vs.length = l.length := by
  induction l generalizing vs with
  | nil => simp [evalArgs0] at h; subst h; rfl
  | cons a as ih =>
    rw [evalArgs0] at h
    cases h1 : evalExtended a [] with
    | error e' => rw [h1] at h; cases h
    | ok v =>
      rw [h1] at h; simp only [] at h
      cases h2 : evalArgs0 as with
      | error e => rw [h2] at h; cases h
      | ok ws =>
        rw [h2] at h; cases h
        simp [ih ws h2]

variable [AngleFns R]

/-- dispatch of a gate name: user-defined gates shadow the built-in ones -/
def callGate (macros : List (String × Macro R)) (name : String) (regs : List Nat) (args : List R) :
    Res (MultiOp R) :=
  match lookupLast macros name with
  | some m => Macro.process macros (macros.length + 2) m name regs args [name]
  | none => Gates.process name regs args

/-- `process_apply_gate` as a decision list: qubit arguments first, then parameters, then the
gate itself; success pushes exactly one operator -/
theorem processApply_eq (self ch : Interp R) (c : Call R)
    (hl : (regList self ch true).length ≤ 64) :
    processApply self ch c =
      match regsErr (regList self ch true) c.regs with
      | some e => .err e
      | none =>
        match evalArgs0 c.args with
        | .error e => .err e
        | .ok args =>
          match callGate (self.macros ++ ch.macros) c.name
              (c.regs.map (argMask (regList self ch true))) args with
          | .ok o => .ok { ch with qOps := ch.qOps.push o }
          | .err e => .err e
          | .panic s => .panic s := by
  unfold processApply
  rw [regsOf_eq self ch hl, argsOf_eq]
  cases regsErr (regList self ch true) c.regs with
  | some e => rfl
  | none =>
    simp only [List.reverse_nil, List.nil_append]
    cases evalArgs0 c.args with
    | error e => rfl
    | ok args => rfl

theorem processNode_measure (self ch : Interp R) (q c : Arg)
    (hq : (regList self ch true).length ≤ 64) (hc : (regList self ch false).length ≤ 64) :
    processNode self ch (.measure q c) =
      match argErr (regList self ch true) true q with
      | some e => .err e
      | none =>
        match argErr (regList self ch false) false c with
        | some e => .err e
        | none =>
          if argBits (regList self ch true) q ≠ argBits (regList self ch false) c then
            .err (.unmatchedRegSize (argBits (regList self ch true) q)
              (argBits (regList self ch false) c))
          else .ok { ch with
            qOps := ch.qOps.branchWithId
              (.measure (argMask (regList self ch true) q) (argMask (regList self ch false) c)) } := by
  simp only [processNode]
  rw [getIdx_eq self ch true q hq, getIdx_eq self ch false c hc]
  cases h1 : argErr (regList self ch true) true q with
  | some e => rfl
  | none =>
    cases h2 : argErr (regList self ch false) false c with
    | some e => rfl
    | none =>
      simp only []
      rw [(argMask_spec _ true q hq h1).1, (argMask_spec _ false c hc h2).1]

theorem processNode_reset (self ch : Interp R) (a : Arg)
    (hq : (regList self ch true).length ≤ 64) :
    processNode self ch (.reset a) =
      match argErr (regList self ch true) true a with
      | some e => .err e
      | none => .ok { ch with
          qOps := ch.qOps.branchWithId (.reset (argMask (regList self ch true) a)) } := by
  simp only [processNode]
  rw [getIdx_eq self ch true a hq]
  cases h1 : argErr (regList self ch true) true a <;> rfl

theorem processNode_ifn_other (self ch : Interp R) (lhs : String) (rhs : Nat) :
    processNode self ch (.ifn lhs rhs .other) = .err .disallowedNodeInIf := rfl

/-- the queue an accepted `if` leaves: the pending operators are closed into a block, the
guarded operator (if any) becomes a block of its own -/
def ifQueue (before guarded : ExtOp R) (val rhs : Nat) : ExtOp R :=
  if !guarded.tail.isEmpty then
    { before with blocks := before.blocks ++ [(guarded.tail, .ifBranch val rhs)] }
  else before

theorem processNode_ifn_call (self ch : Interp R) (lhs : String) (rhs : Nat) (c : Call R)
    (hc : (regList self ch false).length ≤ 64) :
    processNode self ch (.ifn lhs rhs (.call c)) =
      if lhs ∉ regList self ch false then .err (.noCReg lhs)
      else
        match processApply self { ch with qOps := {} } c with
        | .ok ch' => .ok { ch' with
            qOps := ifQueue (ch.qOps.branch .nop) ch'.qOps
              (maskByAlias (regList self ch false) lhs) rhs }
        | .err e => .err e
        | .panic s => .panic s := by
  simp only [processNode]
  have hrl : regList self { ch with qOps := ch.qOps.branch .nop } false = regList self ch false := rfl
  rw [getIdx_eq self _ false (.register lhs) (by rw [hrl]; exact hc), hrl]
  by_cases h : lhs ∈ regList self ch false
  · simp only [argErr, h, not_true_eq_false, if_false]
    rfl
  · simp only [argErr, h, not_false_eq_true, if_true]
    rfl
end
end

/-! ## B6. built-in gate arms -/
section
open Generated

variable {R : Type} [Neg R] [AngleFns R]

theorem orAll_lt (l : List Nat) (h : ∀ m ∈ l, m < 2 ^ 64) : orAll l < 2 ^ 64 := by
  induction l with
  | nil => simp [orAll_nil]
  | cons a l ih =>
    rw [orAll_cons]
    exact Nat.or_lt_two_pow (h a (by simp)) (ih (fun m hm => h m (List.mem_cons_of_mem _ hm)))

/-- the register test of an arm -/
def armRegsOk : Arm → Nat → Bool
  | .any, regs | .dgr, regs => regs ≠ 0
  | .two, regs => popcount regs = 2
  | .r n, regs => popcount regs = n
  | .u1, regs | .u2, regs | .u3, regs => popcount regs = 1

/-- the number reported by `wrongRegNumber` -/
def armRegNumber : Arm → Nat → Nat
  | .any, _ | .dgr, _ => 0
  | _, regs => popcount regs

/-- the number of parameters an arm takes -/
def armArity : Arm → Nat
  | .any | .dgr | .two => 0
  | .r _ | .u1 => 1
  | .u2 => 2
  | .u3 => 3

/-- the constructor an arm calls -/
def armCtor (row : Row) : String :=
  match row.arm with
  | .u1 => "u1" | .u2 => "u2" | .u3 => "u3"
  | _ => row.ctor

/-- the operator an accepted arm builds -/
def armOp (row : Row) (args : List R) (regs : Nat) : MultiOp R :=
  let o := (ctorApply (armCtor row) args regs).getD []
  if row.arm = .dgr then MultiOp.dgr o else o

omit [Neg R] in
/-- every constructor of the table succeeds on the masks its arm lets through -/
theorem ctorApply_isSome (row : Row) (hrow : row ∈ gateTable) (args : List R) (regs : Nat)
    (hregs : regs < 2 ^ 64) (hok : armRegsOk row.arm regs = true) :
    ∃ o, ctorApply (armCtor row) args regs = some o := by
  simp only [gateTable, List.mem_cons, List.not_mem_nil, or_false] at hrow
  rcases hrow with rfl | rfl | rfl | rfl | rfl | rfl | rfl | rfl | rfl | rfl | rfl | rfl | rfl |
    rfl | rfl | rfl | rfl | rfl | rfl | rfl | rfl | rfl
  all_goals simp only [armRegsOk, decide_eq_true_eq] at hok
  all_goals simp only [armCtor, ctorApply]
  all_goals first
    | exact ⟨_, rfl⟩
    | exact h_isSome regs hregs
    | exact qft_isSome regs hregs _
    | simp [Op.rx, Op.ry, Op.rz, Op.rxx, Op.ryy, Op.rzz, Op.swap, Op.sqrtSwap, Op.iSwap,
        Op.sqrtISwap, Op.u1, Op.u2, Op.u3, Op.ofChecked, SingleOp.checked, Atom.isValid, hok]

/-- one `gate!` arm as a decision list -/
theorem runArm_eq (name : String) (row : Row) (hrow : row ∈ gateTable) (regsL : List Nat)
    (args : List R) (hregs : ∀ m ∈ regsL, m < 2 ^ 64) :
    runArm name row regsL args =
      if armRegsOk row.arm (orAll regsL) = false then
        .err (.wrongRegNumber name (armRegNumber row.arm (orAll regsL)))
      else if args.length ≠ armArity row.arm then .err (.wrongArgNumber name args.length)
      else .ok (armOp row args (orAll regsL)) := by
  have hlt := orAll_lt regsL hregs
  have hfold : regsL.foldl (· ||| ·) 0 = orAll regsL := rfl
  by_cases hok : armRegsOk row.arm (orAll regsL) = true
  · obtain ⟨o, ho⟩ := ctorApply_isSome row hrow args (orAll regsL) hlt hok
    rw [if_neg (by simp [hok])]
    obtain ⟨lower, upper, arm, ctor⟩ := row
    cases arm <;>
      simp only [armRegsOk, decide_eq_true_eq, armCtor] at hok ho <;>
      simp only [runArm, armOp, armCtor, hfold, ho, hok, armArity] <;>
      simp
  · have hok' : armRegsOk row.arm (orAll regsL) = false := by simpa using hok
    rw [if_pos hok']
    obtain ⟨lower, upper, arm, ctor⟩ := row
    cases arm <;>
      simp only [armRegsOk, decide_eq_false_iff_not] at hok' <;>
      simp only [runArm, hfold, armRegNumber] <;>
      simp [hok']
end

/-! ## B7. built-in gate names: plain and controlled -/
section
open Generated
open Generated
variable {R : Type} [Neg R] [AngleFns R]

/-- "the name is `c`/`C` followed by something": the controlled-gate prefix test -/
def isCtl (name : String) : Bool :=
  name.utf8ByteSize > 1 && (name.toList.head? == some 'c' || name.toList.head? == some 'C')

/-- the table row of a gate name -/
def tableRow (name : String) : Option Row :=
  gateTable.find? (fun row => row.lower == name || row.upper == name)

theorem tableRow_mem (name : String) (row : Row) (h : tableRow name = some row) :
    row ∈ gateTable := List.mem_of_find?_eq_some h

/-- what the controlled-gate prefix does with the result of the inner gate -/
def relabel (name : String) (ctrl : Nat) : Res (MultiOp R) → Res (MultiOp R)
  | .ok op =>
    (match MultiOp.c op ctrl with
     | some o => .ok o
     | none => .err (.invalidControlMask ctrl (MultiOp.actOn op)))
  | .err (.wrongRegNumber _ n) => .err (.wrongRegNumber name (1 + n))
  | .err (.wrongArgNumber _ n) => .err (.wrongArgNumber name n)
  | .err (.unknownGate _) => .err (.unknownGate name)
  | r => r

theorem isCtl_length_pos (name : String) (h : isCtl name = true) : 1 ≤ name.length := by
  simp only [isCtl, Bool.and_eq_true, Bool.or_eq_true, beq_iff_eq] at h
  rw [← String.length_toList]
  cases hl : name.toList with
  | nil => rw [hl] at h; simp at h
  | cons c cs => simp

theorem dropFirst_length (name : String) : (dropFirst name).length = name.length - 1 := by
  simp [dropFirst, String.length_ofList, String.length_toList]

theorem go_plain (args : List R) (fuel : Nat) (name : String) (regs : List Nat)
    (h : isCtl name = false) :
    Gates.process.go args fuel name regs =
      match tableRow name with
      | some row => runArm name row regs args
      | none => .err (.unknownGate name) := by
  unfold Gates.process.go
  simp only [isCtl] at h
  simp only [h, tableRow]
  simp only [Bool.false_eq_true, if_false]
  rfl

theorem go_ctl_nil (args : List R) (fuel : Nat) (name : String) (h : isCtl name = true) :
    Gates.process.go args (fuel + 1) name [] = .err (.wrongRegNumber name 0) := by
  unfold Gates.process.go
  simp only [isCtl] at h
  simp only [h]
  simp

theorem go_ctl_cons (args : List R) (fuel : Nat) (name : String) (ctrl : Nat) (rest : List Nat)
    (h : isCtl name = true) :
    Gates.process.go args (fuel + 1) name (ctrl :: rest) =
      relabel name ctrl (Gates.process.go args fuel (dropFirst name) rest) := by
  conv => lhs; unfold Gates.process.go
  simp only [isCtl] at h
  simp only [h, if_true]
  cases hgo : Gates.process.go args fuel (dropFirst name) rest with
  | ok op => simp only [relabel]; cases MultiOp.c op ctrl <;> rfl
  | err e => cases e <;> rfl
  | panic s => rfl

theorem process_plain (name : String) (regs : List Nat) (args : List R) (h : isCtl name = false) :
    Gates.process name regs args =
      match tableRow name with
      | some row => runArm name row regs args
      | none => .err (.unknownGate name) := go_plain args _ name regs h

theorem process_ctl_nil (name : String) (args : List R) (h : isCtl name = true) :
    Gates.process name [] args = .err (.wrongRegNumber name 0) := by
  unfold Gates.process
  obtain ⟨k, hk⟩ : ∃ k, name.length = k + 1 := ⟨name.length - 1, by have := isCtl_length_pos name h; omega⟩
  rw [hk]; exact go_ctl_nil args k name h

theorem process_ctl_cons (name : String) (ctrl : Nat) (rest : List Nat) (args : List R)
    (h : isCtl name = true) :
    Gates.process name (ctrl :: rest) args =
      relabel name ctrl (Gates.process (dropFirst name) rest args) := by
  unfold Gates.process
  have h1 := isCtl_length_pos name h
  have h2 := dropFirst_length name
  obtain ⟨k, hk⟩ : ∃ k, name.length = k + 1 := ⟨name.length - 1, by omega⟩
  rw [hk, go_ctl_cons args k name ctrl rest h]
  have : (dropFirst name).length = k := by omega
  rw [this]
end

/-! ## B8. built-in gate calls decided -/
section
open Generated
open Generated
variable {R : Type} [Neg R] [AngleFns R]

theorem armRegsOk_ne_zero (row : Row) (hrow : row ∈ gateTable) (regs : Nat)
    (hok : armRegsOk row.arm regs = true) : regs ≠ 0 := by
  simp only [gateTable, List.mem_cons, List.not_mem_nil, or_false] at hrow
  rcases hrow with rfl | rfl | rfl | rfl | rfl | rfl | rfl | rfl | rfl | rfl | rfl | rfl | rfl |
    rfl | rfl | rfl | rfl | rfl | rfl | rfl | rfl | rfl
  all_goals simp only [armRegsOk, decide_eq_true_eq] at hok
  all_goals first
    | exact hok
    | (intro h0; rw [h0, popcount_zero] at hok; omega)

/-- the operator an accepted arm builds acts on exactly the qubits it was given -/
theorem armOp_actOn (row : Row) (hrow : row ∈ gateTable) (args : List R) (regs : Nat)
    (hregs : regs < 2 ^ 64) (hok : armRegsOk row.arm regs = true) :
    MultiOp.actOn (armOp row args regs) = regs := by
  simp only [gateTable, List.mem_cons, List.not_mem_nil, or_false] at hrow
  rcases hrow with rfl | rfl | rfl | rfl | rfl | rfl | rfl | rfl | rfl | rfl | rfl | rfl | rfl |
    rfl | rfl | rfl | rfl | rfl | rfl | rfl | rfl | rfl
  all_goals simp only [armRegsOk, decide_eq_true_eq] at hok
  all_goals simp only [armOp, armCtor, ctorApply, MultiOp.dgr_actOn, reduceCtorEq, if_false, if_true]
  all_goals first
    | (obtain ⟨o, ho⟩ := h_isSome (R := R) regs hregs
       rw [ho]; exact h_actOn regs hregs o ho)
    | (obtain ⟨o, ho⟩ := qft_isSome (R := R) regs hregs AngleFns.qftPhase
       rw [ho]; exact qft_actOn regs hregs _ o ho)
    | simp [Op.x, Op.y, Op.z, Op.s, Op.t, Op.rx, Op.ry, Op.rz, Op.rxx, Op.ryy, Op.rzz, Op.swap,
        Op.sqrtSwap, Op.iSwap, Op.sqrtISwap, Op.u1, Op.u2, Op.u3, Op.ofChecked, SingleOp.checked,
        Atom.isValid, hok, MultiOp.ofSingle, SingleOp.isId, SingleOp.ofAtom, MultiOp.actOn,
        SingleOp.actOn, Atom.actsOn]

/-- how the controlled-gate prefix re-labels the error of the inner gate -/
def relabelErr (name : String) : IntError → IntError
  | .wrongRegNumber _ n => .wrongRegNumber name (1 + n)
  | .wrongArgNumber _ n => .wrongArgNumber name n
  | .unknownGate _ => .unknownGate name
  | e => e

/-- the error a built-in gate call raises, from the name, the qubit masks and the number of
parameters alone (`none` = accepted) -/
def gateErr (nargs : Nat) : String → List Nat → Option IntError
  | name, regs =>
    if isCtl name then
      match regs with
      | [] => some (.wrongRegNumber name 0)
      | ctrl :: rest =>
        match gateErr nargs (dropFirst name) rest with
        | some e => some (relabelErr name e)
        | none =>
          if orAll rest &&& ctrl ≠ 0 then some (.invalidControlMask ctrl (orAll rest)) else none
    else
      match tableRow name with
      | none => some (.unknownGate name)
      | some row =>
        if armRegsOk row.arm (orAll regs) = false then
          some (.wrongRegNumber name (armRegNumber row.arm (orAll regs)))
        else if nargs ≠ armArity row.arm then some (.wrongArgNumber name nargs)
        else none

omit [Neg R] [AngleFns R] in
theorem relabel_err (name : String) (ctrl : Nat) (e : IntError) :
    relabel (R := R) name ctrl (.err e) = .err (relabelErr name e) := by
  cases e <;> rfl

/-- `gates::process` decided: the error named by `gateErr`, or an operator acting on exactly
the union of the qubit arguments; never a panic -/
theorem process_spec (args : List R) (name : String) (regs : List Nat)
    (hregs : ∀ m ∈ regs, m < 2 ^ 64) :
    match gateErr args.length name regs with
    | some e => Gates.process name regs args = .err e
    | none => ∃ o, Gates.process name regs args = .ok o ∧ MultiOp.actOn o = orAll regs ∧
        orAll regs ≠ 0 := by
  induction regs generalizing name with
  | nil =>
    unfold gateErr
    by_cases hc : isCtl name = true
    · simp only [hc, if_true]; exact process_ctl_nil name args hc
    · have hc' : isCtl name = false := by simpa using hc
      simp only [hc', Bool.false_eq_true, if_false]
      rw [process_plain name [] args hc']
      cases hrow : tableRow name with
      | none => rfl
      | some row =>
        have hmem := tableRow_mem name row hrow
        simp only []
        rw [runArm_eq name row hmem [] args hregs]
        by_cases hok : armRegsOk row.arm (orAll []) = false
        · simp only [if_pos hok]
        · simp only [if_neg hok]
          by_cases ha : args.length ≠ armArity row.arm
          · simp only [if_pos ha]
          · simp only [if_neg ha]
            have hok' : armRegsOk row.arm (orAll []) = true := by simpa using hok
            exact ⟨_, rfl, armOp_actOn row hmem args _ (orAll_lt [] hregs) hok',
              armRegsOk_ne_zero row hmem _ hok'⟩
  | cons ctrl rest ih =>
    unfold gateErr
    by_cases hc : isCtl name = true
    · simp only [hc, if_true]
      rw [process_ctl_cons name ctrl rest args hc]
      have ih := ih (dropFirst name) (fun m hm => hregs m (List.mem_cons_of_mem _ hm))
      cases hin : gateErr args.length (dropFirst name) rest with
      | some e =>
        rw [hin] at ih; simp only [] at ih ⊢
        rw [ih, relabel_err]
      | none =>
        rw [hin] at ih; simp only [] at ih ⊢
        obtain ⟨o, ho, hact, hne⟩ := ih
        rw [ho]
        simp only [relabel]
        by_cases hov : orAll rest &&& ctrl ≠ 0
        · simp only [if_pos hov]
          rw [MultiOp.c_eq_none o ctrl (by rw [hact]; exact hov), hact]
        · simp only [if_neg hov]
          have hov' : MultiOp.actOn o &&& ctrl = 0 := by rw [hact]; simpa using hov
          rw [MultiOp.c_eq_some o ctrl hov']
          refine ⟨_, rfl, ?_, ?_⟩
          · have hone : o ≠ [] := by
              intro h0; rw [h0, MultiOp.actOn_nil] at hact; exact hne hact.symm
            rw [MultiOp.actOn_map_addCtrl o ctrl hone, hact, orAll_cons, Nat.or_comm]
          · rw [orAll_cons]
            intro h0
            exact hne (Nat.or_eq_zero_iff.1 h0).2
    · have hc' : isCtl name = false := by simpa using hc
      simp only [hc', Bool.false_eq_true, if_false]
      rw [process_plain name _ args hc']
      cases hrow : tableRow name with
      | none => rfl
      | some row =>
        have hmem := tableRow_mem name row hrow
        simp only []
        rw [runArm_eq name row hmem _ args hregs]
        by_cases hok : armRegsOk row.arm (orAll (ctrl :: rest)) = false
        · simp only [if_pos hok]
        · simp only [if_neg hok]
          by_cases ha : args.length ≠ armArity row.arm
          · simp only [if_pos ha]
          · simp only [if_neg ha]
            have hok' : armRegsOk row.arm (orAll (ctrl :: rest)) = true := by simpa using hok
            exact ⟨_, rfl, armOp_actOn row hmem args _ (orAll_lt _ hregs) hok',
              armRegsOk_ne_zero row hmem _ hok'⟩

theorem process_err_iff (args : List R) (name : String) (regs : List Nat)
    (hregs : ∀ m ∈ regs, m < 2 ^ 64) (e : IntError) :
    Gates.process name regs args = .err e ↔ gateErr args.length name regs = some e := by
  have := process_spec args name regs hregs
  cases h : gateErr args.length name regs with
  | some e' =>
    rw [h] at this; simp only [] at this
    rw [this]; simp
  | none =>
    rw [h] at this; simp only [] at this
    obtain ⟨o, ho, _⟩ := this
    rw [ho]; simp

theorem process_ok_iff (args : List R) (name : String) (regs : List Nat)
    (hregs : ∀ m ∈ regs, m < 2 ^ 64) :
    (∃ o, Gates.process name regs args = .ok o) ↔ gateErr args.length name regs = none := by
  have := process_spec args name regs hregs
  cases h : gateErr args.length name regs with
  | some e' =>
    rw [h] at this; simp only [] at this
    rw [this]; simp
  | none =>
    rw [h] at this; simp only [] at this
    obtain ⟨o, ho, _⟩ := this
    rw [ho]; simp

/-- for masks that fit a machine word `gates::process` never panics -/
theorem process_no_panic (args : List R) (name : String) (regs : List Nat)
    (hregs : ∀ m ∈ regs, m < 2 ^ 64) (s : String) :
    Gates.process name regs args ≠ .panic s := by
  have := process_spec args name regs hregs
  cases h : gateErr args.length name regs with
  | some e' =>
    rw [h] at this; simp only [] at this
    rw [this]; simp
  | none =>
    rw [h] at this; simp only [] at this
    obtain ⟨o, ho, _⟩ := this
    rw [ho]; simp
end

/-! ## D1. bit layout of declared registers -/
section
variable {R : Type}

theorem testBit_block (n p j : Nat) :
    ((2 ^ n - 1) * 2 ^ p).testBit j = (decide (p ≤ j) && decide (j - p < n)) := by
  rw [Nat.testBit_mul_two_pow, Nat.testBit_two_pow_sub_one]

theorem bitsBelow_block (n p k : Nat) :
    bitsBelow ((2 ^ n - 1) * 2 ^ p) k =
      (List.range (min k (p + n) - p)).map (fun i => 2 ^ (p + i)) := by
  induction k with
  | zero => simp [bitsBelow]
  | succ k ih =>
    rw [bitsBelow_succ, ih, testBit_block]
    by_cases h1 : k < p
    · have e1 : min k (p + n) - p = 0 := by omega
      have e2 : min (k + 1) (p + n) - p = 0 := by omega
      have e3 : ¬ p ≤ k := by omega
      simp [e1, e2, e3]
    · by_cases h2 : k < p + n
      · have e1 : min k (p + n) - p = k - p := by omega
        have e2 : min (k + 1) (p + n) - p = (k - p) + 1 := by omega
        have e3 : p ≤ k := by omega
        have e4 : k - p < n := by omega
        have e5 : p + (k - p) = k := by omega
        rw [e1, e2, List.range_succ, List.map_append]
        simp [e3, e4, e5]
      · have e1 : min k (p + n) - p = n := by omega
        have e2 : min (k + 1) (p + n) - p = n := by omega
        have e4 : ¬ k - p < n := by omega
        simp [e1, e2, e4]

theorem bitsOf_block (n p : Nat) (h : p + n ≤ 64) :
    bitsOf ((2 ^ n - 1) * 2 ^ p) = (List.range n).map (fun i => 2 ^ (p + i)) := by
  rw [bitsOf, bitsBelow_block]
  have : min W (p + n) - p = n := by simp only [W]; omega
  rw [this]

/-- a register declared as one block of `n` positions after `pre.length` earlier ones has
the mask with exactly the bits `pre.length .. pre.length + n - 1` -/
theorem maskByAlias_block (pre post : List String) (a : String) (n : Nat)
    (hl : (pre ++ List.replicate n a ++ post).length ≤ 64) (hpre : a ∉ pre) (hpost : a ∉ post) :
    maskByAlias (pre ++ List.replicate n a ++ post) a = (2 ^ n - 1) * 2 ^ pre.length := by
  apply Nat.eq_of_testBit_eq
  intro j
  rw [maskByAlias_testBit _ a hl, testBit_block]
  by_cases h1 : j < pre.length
  · have e : (pre ++ List.replicate n a ++ post)[j]? = pre[j]? := by
      rw [List.append_assoc, List.getElem?_append_left h1]
    rw [e]
    have : ¬ pre[j]? = some a := fun h => hpre (List.mem_of_getElem? h)
    have e3 : ¬ pre.length ≤ j := by omega
    simp [this, e3]
  · by_cases h2 : j < pre.length + n
    · have e : (pre ++ List.replicate n a ++ post)[j]? = some a := by
        rw [List.getElem?_append_left (by simp; omega), List.getElem?_append_right (by omega),
          List.getElem?_replicate]
        simp; omega
      rw [e]
      have e3 : pre.length ≤ j := by omega
      have e4 : j - pre.length < n := by omega
      simp [e3, e4]
    · have e : (pre ++ List.replicate n a ++ post)[j]? = post[j - (pre.length + n)]? := by
        rw [List.getElem?_append_right (by simp; omega)]
        simp
      rw [e]
      have : ¬ post[j - (pre.length + n)]? = some a := fun h => hpost (List.mem_of_getElem? h)
      have e4 : ¬ j - pre.length < n := by omega
      simp [this, e4]

theorem bitsIterList_block (pre post : List String) (a : String) (n i : Nat)
    (hl : (pre ++ List.replicate n a ++ post).length ≤ 64) (hpre : a ∉ pre) (hpost : a ∉ post)
    (hi : i < n) :
    (bitsIterList (maskByAlias (pre ++ List.replicate n a ++ post) a))[i]? =
      some (2 ^ (pre.length + i)) := by
  rw [bitsIterList_eq_bitsOf _ (maskByAlias_lt_word _ a hl), maskByAlias_block pre post a n hl hpre hpost,
    bitsOf_block n pre.length (by simp at hl; omega)]
  simp [hi]

/-- two different aliases never share a bit -/
theorem maskByAlias_disjoint (l : List String) (a b : String) (hl : l.length ≤ 64) (hab : a ≠ b) :
    maskByAlias l a &&& maskByAlias l b = 0 := by
  apply Nat.eq_of_testBit_eq
  intro j
  rw [Nat.testBit_and, maskByAlias_testBit l a hl, maskByAlias_testBit l b hl, Nat.zero_testBit]
  by_cases h : l[j]? = some a
  · have : ¬ l[j]? = some b := by rw [h]; intro h2; exact hab (Option.some.inj h2)
    simp [this]
  · simp [h]
end

/-! ## D2. frame, steps, size invariant -/
section
variable {R : Type}

/-- what one accepted statement does to the operator queue -/
inductive Step (R : Type) where
  | none
  | push (o : MultiOp R)
  | sep (s : Sep)
  | guarded (o : MultiOp R) (val rhs : Nat)

/-- the queue after a step -/
def Step.run : ExtOp R → Step R → ExtOp R
  | q, .none => q
  | q, .push o => q.push o
  | q, .sep s => q.branchWithId s
  | q, .guarded o val rhs => ifQueue (q.branch .nop) (({} : ExtOp R).push o) val rhs

/-- which step a statement may contribute -/
def stepKind : Node R → Step R → Prop
  | .apply _, .push _ => True
  | .reset _, .sep (.reset _) => True
  | .measure _ _, .sep (.measure _ _) => True
  | .ifn _ rhs (.call _), .guarded _ _ rhs' => rhs = rhs'
  | .qreg _ _, .none | .creg _ _, .none | .barrier, .none | .opaque, .none
  | .gate _ _ _ _, .none => True
  | _, _ => False

section
variable [Add R] [Sub R] [Mul R] [Neg R] [Div R] [ExprFns R] [AngleFns R]

/-- a successful gate application pushes exactly one operator and changes nothing else -/
theorem processApply_ok (self ch ch' : Interp R) (c : Call R)
    (h : processApply self ch c = .ok ch') :
    ∃ o, ch' = { ch with qOps := ch.qOps.push o } := by
  unfold processApply at h
  split at h
  · cases h
  · split at h
    · cases h
    · simp only [] at h
      split at h
      · cases h; exact ⟨_, rfl⟩
      · cases h
      · cases h

/-- frame: what an accepted statement changes, statement kind by statement kind -/
theorem processNode_frame (self ch ch' : Interp R) (n : Node R)
    (h : processNode self ch n = .ok ch') :
    ch'.mOp = ch.mOp ∧ ch'.asts = ch.asts ∧
    (match n with
     | .qreg a k => ch' = { ch with qReg := ch.qReg ++ List.replicate k a }
     | .creg a k => ch' = { ch with cReg := ch.cReg ++ List.replicate k a }
     | .barrier => ch' = ch
     | .opaque => ch' = ch
     | .reset _ => ∃ m, ch' = { ch with qOps := ch.qOps.branchWithId (.reset m) }
     | .measure _ _ => ∃ qa ca, ch' = { ch with qOps := ch.qOps.branchWithId (.measure qa ca) }
     | .apply _ => ∃ o, ch' = { ch with qOps := ch.qOps.push o }
     | .gate name _ _ _ => ∃ m, ch' = { ch with macros := ch.macros ++ [(name, m)] }
     | .ifn _ rhs _ => ∃ o val, ch' = { ch with
         qOps := ifQueue (ch.qOps.branch .nop) (({} : ExtOp R).push o) val rhs }) := by
  cases n with
  | qreg a k =>
    simp only [processNode] at h
    split at h
    · cases h; exact ⟨rfl, rfl, rfl⟩
    · cases h
  | creg a k =>
    simp only [processNode] at h
    split at h
    · cases h; exact ⟨rfl, rfl, rfl⟩
    · cases h
  | barrier => simp only [processNode] at h; cases h; exact ⟨rfl, rfl, rfl⟩
  | «opaque» => simp only [processNode] at h; cases h; exact ⟨rfl, rfl, rfl⟩
  | reset a =>
    simp only [processNode] at h
    split at h
    · cases h; exact ⟨rfl, rfl, _, rfl⟩
    · cases h
  | measure q c =>
    simp only [processNode] at h
    split at h
    · cases h
    · split at h
      · cases h
      · split at h
        · cases h
        · cases h; exact ⟨rfl, rfl, _, _, rfl⟩
  | apply c =>
    obtain ⟨o, rfl⟩ := processApply_ok self ch ch' c h
    exact ⟨rfl, rfl, o, rfl⟩
  | gate name regs args body =>
    simp only [processNode] at h
    split at h
    · cases h
    · split at h
      · split at h
        · cases h; exact ⟨rfl, rfl, _, rfl⟩
        · cases h
      · cases h
  | ifn lhs rhs body =>
    cases body with
    | other => cases h
    | call c =>
      simp only [processNode] at h
      split at h
      · cases h
      · split at h
        · rename_i ch1 hap
          obtain ⟨o, rfl⟩ := processApply_ok _ _ _ _ hap
          cases h
          exact ⟨rfl, rfl, o, _, rfl⟩
        · cases h
        · cases h

/-- every accepted statement contributes exactly one step of its kind -/
theorem processNode_step (self ch ch' : Interp R) (n : Node R)
    (h : processNode self ch n = .ok ch') :
    ∃ st : Step R, stepKind n st ∧ ch'.qOps = st.run ch.qOps := by
  have hf := (processNode_frame self ch ch' n h).2.2
  cases n with
  | qreg a k => simp only [] at hf; subst hf; exact ⟨.none, trivial, rfl⟩
  | creg a k => simp only [] at hf; subst hf; exact ⟨.none, trivial, rfl⟩
  | barrier => simp only [] at hf; subst hf; exact ⟨.none, trivial, rfl⟩
  | «opaque» => simp only [] at hf; subst hf; exact ⟨.none, trivial, rfl⟩
  | reset a => obtain ⟨m, rfl⟩ := hf; exact ⟨.sep (.reset m), trivial, rfl⟩
  | measure q c => obtain ⟨qa, ca, rfl⟩ := hf; exact ⟨.sep (.measure qa ca), trivial, rfl⟩
  | apply c => obtain ⟨o, rfl⟩ := hf; exact ⟨.push o, trivial, rfl⟩
  | gate name regs args body => obtain ⟨m, rfl⟩ := hf; exact ⟨.none, trivial, rfl⟩
  | ifn lhs rhs body =>
    cases body with
    | other => cases h
    | call c => obtain ⟨o, val, rfl⟩ := hf; exact ⟨.guarded o val rhs, rfl, rfl⟩

/-- a whole accepted program: one step per statement, composed in program order -/
theorem processNodes_steps (self ch ch' : Interp R) (ns : List (Node R))
    (h : processNodes self ch ns = .ok ch') :
    ∃ sts : List (Step R), List.Forall₂ stepKind ns sts ∧ ch'.qOps = sts.foldl Step.run ch.qOps := by
  induction ns generalizing ch with
  | nil => simp only [processNodes] at h; cases h; exact ⟨[], .nil, rfl⟩
  | cons n ns ih =>
    cases hn : processNode self ch n with
    | ok c1 =>
      rw [processNodes_cons_ok _ _ _ _ _ hn] at h
      obtain ⟨st, hk, hq⟩ := processNode_step self ch c1 n hn
      obtain ⟨sts, hks, hqs⟩ := ih c1 h
      exact ⟨st :: sts, .cons hk hks, by rw [hqs, hq]; rfl⟩
    | err e => rw [processNodes_cons_err _ _ _ _ _ hn] at h; cases h
    | panic s => rw [processNodes_cons_panic _ _ _ _ _ hn] at h; cases h

/-- size invariant: the declared qubits and bits stay below the word size -/
def lenOk (self ch : Interp R) : Prop :=
  (regList self ch true).length < 64 ∧ (regList self ch false).length < 64

theorem processNode_lenOk (self ch ch' : Interp R) (n : Node R) (hl : lenOk self ch)
    (h : processNode self ch n = .ok ch') : lenOk self ch' := by
  have hf := (processNode_frame self ch ch' n h).2.2
  cases n with
  | qreg a k =>
    rw [processNode_qreg, declDecision] at h
    simp only [] at hf; subst hf
    by_cases h1 : self.qReg.length + ch.qReg.length + k ≥ 64
    · repeat' split at h
      all_goals cases h
    · refine ⟨?_, hl.2⟩
      simp only [regList, if_true, List.length_append, List.length_replicate]; omega
  | creg a k =>
    rw [processNode_creg, declDecision] at h
    simp only [] at hf; subst hf
    by_cases h1 : self.cReg.length + ch.cReg.length + k ≥ 64
    · repeat' split at h
      all_goals cases h
    · refine ⟨hl.1, ?_⟩
      simp only [regList, Bool.false_eq_true, if_false, List.length_append, List.length_replicate]
      omega
  | barrier => simp only [] at hf; subst hf; exact hl
  | «opaque» => simp only [] at hf; subst hf; exact hl
  | reset a => obtain ⟨m, rfl⟩ := hf; exact hl
  | measure q c => obtain ⟨qa, ca, rfl⟩ := hf; exact hl
  | apply c => obtain ⟨o, rfl⟩ := hf; exact hl
  | gate name regs args body => obtain ⟨m, rfl⟩ := hf; exact hl
  | ifn lhs rhs body => obtain ⟨o, val, rfl⟩ := hf; exact hl

theorem processNodes_lenOk (self ch ch' : Interp R) (ns : List (Node R)) (hl : lenOk self ch)
    (h : processNodes self ch ns = .ok ch') : lenOk self ch' := by
  induction ns generalizing ch with
  | nil => simp only [processNodes] at h; cases h; exact hl
  | cons n ns ih =>
    cases hn : processNode self ch n with
    | ok c1 =>
      rw [processNodes_cons_ok _ _ _ _ _ hn] at h
      exact ih c1 (processNode_lenOk self ch c1 n hl hn) h
    | err e => rw [processNodes_cons_err _ _ _ _ _ hn] at h; cases h
    | panic s => rw [processNodes_cons_panic _ _ _ _ _ hn] at h; cases h
end
end

/-! ## B9. gate definitions -/
section
variable {R : Type}

/-- the first rule a qubit argument list of a body statement breaks -/
def bodyRegErr (regs : List String) : List Arg → Option IntError
  | [] => none
  | .qubit n i :: _ => some (.macroError (.disallowedRegister n i))
  | .register n :: as =>
    if !regs.contains n then some (.macroError (.unknownReg n)) else bodyRegErr regs as

section
variable [Add R] [Sub R] [Mul R] [Neg R] [Div R] [ExprFns R]

/-- the first rule a parameter list of a body statement breaks: only the FIRST unbound
variable each expression meets is compared with the formals -/
def bodyArgErr (args : List String) : List (PExpr R) → Option IntError
  | [] => none
  | a :: as =>
    match evalExtended a [] with
    | .error (.unknownVariable v) =>
      if !args.contains v then some (.macroError (.unknownArg v)) else bodyArgErr args as
    | .error e => some (.unevaluatedArgument a.text e)
    | .ok _ => bodyArgErr args as

def callErr (regs args : List String) (c : Call R) : Option IntError :=
  match bodyRegErr regs c.regs with
  | some e => some e
  | none => bodyArgErr args c.args

def checkCallSpec (regs args : List String) (c : Call R) : Except IntError Unit :=
  match callErr regs args c with
  | some e => .error e
  | none => .ok ()

theorem loopRegs (regs : List String) (l : List Arg) :
    (forIn l PUnit.unit (fun ra _ =>
        match ra with
        | Arg.qubit n i => do
          throw (IntError.macroError (MacroErr.disallowedRegister n i))
          pure (ForInStep.yield PUnit.unit)
        | Arg.register n =>
          if (!regs.contains n) = true then do
            throw (IntError.macroError (MacroErr.unknownReg n))
            pure (ForInStep.yield PUnit.unit)
          else pure (ForInStep.yield PUnit.unit)) : Except IntError PUnit) =
      match bodyRegErr regs l with
      | some e => .error e
      | none => .ok PUnit.unit := by
  induction l with
  | nil => rfl
  | cons a as ih =>
    rw [List.forIn_cons]
    cases a with
    | qubit n i => rfl
    | register n =>
      simp only [bodyRegErr]
      by_cases h : (!regs.contains n) = true
      · simp only [if_pos h]; rfl
      · simp only [if_neg h]
        exact ih

theorem loopArgs (args : List String) (l : List (PExpr R)) :
    (forIn l PUnit.unit (fun (a : PExpr R) _ =>
          match evalExtended a [] with
          | Except.error (EvalErr.unknownVariable v) =>
            if (!args.contains v) = true then do
              throw (IntError.macroError (MacroErr.unknownArg v))
              pure (ForInStep.yield PUnit.unit)
            else pure (ForInStep.yield PUnit.unit)
          | Except.error (EvalErr.function n e) => do
            throw (IntError.unevaluatedArgument a.text (EvalErr.function n e))
            pure (ForInStep.yield PUnit.unit)
          | Except.error EvalErr.parseError => do
            throw (IntError.unevaluatedArgument a.text EvalErr.parseError)
            pure (ForInStep.yield PUnit.unit)
          | Except.error EvalErr.rpnError => do
            throw (IntError.unevaluatedArgument a.text EvalErr.rpnError)
            pure (ForInStep.yield PUnit.unit)
          | Except.ok _ => pure (ForInStep.yield PUnit.unit)) : Except IntError PUnit) =
      match bodyArgErr args l with
      | some e => .error e
      | none => .ok PUnit.unit := by
  induction l with
  | nil => rfl
  | cons a as ih =>
    rw [List.forIn_cons]
    simp only [bodyArgErr]
    cases h : evalExtended a [] with
    | ok v => exact ih
    | error e =>
      cases e with
      | unknownVariable v =>
        simp only []
        by_cases h2 : (!args.contains v) = true
        · simp only [if_pos h2]; rfl
        · simp only [if_neg h2]
          exact ih
      | function n e => rfl
      | parseError => rfl
      | rpnError => rfl

theorem bind_congr2 {X X' Y Y' : Except IntError PUnit} (h1 : X = X') (h2 : Y = Y') :
    (do X; Y; pure () : Except IntError Unit) = (do X'; Y'; pure ()) := by
  subst h1 h2; rfl

theorem Macro.new_eq (regs args : List String) (body : List (Inner R)) :
    Macro.new regs args body =
      match Macro.new.go (checkCallSpec regs args) body [] with
      | .ok nodes => .ok ⟨regs, args, nodes⟩
      | .error e => .error e := by
  unfold Macro.new
  simp only []
  congr 2
  funext c
  refine (bind_congr2 (loopRegs regs c.regs) (loopArgs args c.args)).trans ?_
  simp only [checkCallSpec, callErr]
  cases bodyRegErr regs c.regs with
  | some e => rfl
  | none =>
    cases bodyArgErr args c.args <;> rfl

/-- the first rule a gate body breaks (statements in order) -/
def bodyErr (regs args : List String) : List (Inner R) → Option IntError
  | [] => none
  | .other :: _ => some (.macroError .disallowedNodeInMacro)
  | .call c :: rest =>
    match callErr regs args c with
    | some e => some e
    | none => bodyErr regs args rest

/-- the gate applications of a body -/
def bodyCalls : List (Inner R) → List (Call R)
  | [] => []
  | .other :: rest => bodyCalls rest
  | .call c :: rest => c :: bodyCalls rest

theorem Macro.new_go_eq (regs args : List String) (body : List (Inner R)) (acc : List (Call R)) :
    Macro.new.go (checkCallSpec regs args) body acc =
      match bodyErr regs args body with
      | some e => .error e
      | none => .ok (acc.reverse ++ bodyCalls body) := by
  induction body generalizing acc with
  | nil => simp [Macro.new.go, bodyErr, bodyCalls]
  | cons b rest ih =>
    cases b with
    | other => rfl
    | call c =>
      simp only [Macro.new.go, bodyErr, checkCallSpec]
      cases callErr regs args c with
      | some e => rfl
      | none =>
        simp only []
        rw [ih]
        cases bodyErr regs args rest <;> simp [bodyCalls]

/-- `Macro::new` as a decision list -/
theorem Macro.new_decision (regs args : List String) (body : List (Inner R)) :
    Macro.new regs args body =
      match bodyErr regs args body with
      | some e => .error e
      | none => .ok ⟨regs, args, bodyCalls body⟩ := by
  rw [Macro.new_eq, Macro.new_go_eq]
  cases bodyErr regs args body <;> simp

/-- what "the evaluation stopped at the unbound variable `v`" means: `v` is the first
variable token (in RPN order) without a binding; nothing is said about later tokens -/
theorem evalRpn_unknownVariable (vars : List (String × R)) (ts : List (RpnTok R)) (st : List R)
    (v : String) (h : evalRpn vars ts st = .error (.unknownVariable v)) :
    ∃ pre post, ts = pre ++ RpnTok.var v :: post ∧ lookupVar vars v = none ∧
      ∀ w, RpnTok.var w ∈ pre → (lookupVar vars w).isSome = true := by
  induction ts generalizing st with
  | nil =>
    cases st with
    | nil => simp [evalRpn] at h
    | cons a st => cases st <;> simp [evalRpn] at h
  | cons t ts ih =>
    have lift : ∀ st', evalRpn vars ts st' = .error (.unknownVariable v) →
        (∀ w, RpnTok.var w = t → (lookupVar vars w).isSome = true) →
        ∃ pre post, t :: ts = pre ++ RpnTok.var v :: post ∧ lookupVar vars v = none ∧
          ∀ w, RpnTok.var w ∈ pre → (lookupVar vars w).isSome = true := by
      intro st' h' ht
      obtain ⟨pre, post, he, hv, hp⟩ := ih st' h'
      refine ⟨t :: pre, post, by rw [he]; rfl, hv, ?_⟩
      intro w hw
      rcases List.mem_cons.1 hw with hw | hw
      · exact ht w hw
      · exact hp w hw
    cases t with
    | num x => exact lift _ (by simpa [evalRpn] using h) (by intro w hw; cases hw)
    | var n =>
      rw [evalRpn] at h
      cases hl : lookupVar vars n with
      | some val =>
        rw [hl] at h
        exact lift _ h (by intro w hw; cases hw; rw [hl]; rfl)
      | none =>
        rw [hl] at h
        simp only [Except.error.injEq, EvalErr.unknownVariable.injEq] at h
        subst h
        exact ⟨[], ts, rfl, hl, by simp⟩
    | bin op =>
      match st, h with
      | right :: left :: st, h =>
        simp only [evalRpn] at h
        exact lift _ h (by intro w hw; cases hw)
      | [], h => simp [evalRpn] at h
      | [_], h => simp [evalRpn] at h
    | un op =>
      match st, h with
      | x :: st, h =>
        simp only [evalRpn] at h
        exact lift _ h (by intro w hw; cases hw)
      | [], h => simp [evalRpn] at h
    | func n k =>
      rw [evalRpn] at h
      split at h
      · cases h
      · split at h
        · exact lift _ h (by intro w hw; cases hw)
        · cases h

theorem evalExtended_unknownVariable (a : PExpr R) (vars : List (String × R)) (v : String)
    (h : evalExtended a vars = .error (.unknownVariable v)) :
    (a.rpn = .error (.unknownVariable v)) ∨
    ∃ pre post, a.rpn = .ok (pre ++ RpnTok.var v :: post) ∧ lookupVar vars v = none ∧
      ∀ w, RpnTok.var w ∈ pre → (lookupVar vars w).isSome = true := by
  unfold evalExtended at h
  cases hr : a.rpn with
  | error e => rw [hr] at h; simp only [Except.error.injEq] at h; subst h; exact .inl rfl
  | ok ts =>
    rw [hr] at h
    obtain ⟨pre, post, he, hv, hp⟩ := evalRpn_unknownVariable vars ts [] v h
    exact .inr ⟨pre, post, by rw [he], hv, hp⟩

variable [AngleFns R]

omit [Add R] [Sub R] [Mul R] [Neg R] [Div R] [ExprFns R] [AngleFns R] in
theorem any_key_iff (l : List (String × Macro R)) (name : String) :
    l.any (·.1 == name) = true ↔ name ∈ l.map (·.1) := by
  simp only [List.any_eq_true, beq_iff_eq, List.mem_map]

/-- a gate definition as a decision list -/
theorem processNode_gate (self ch : Interp R) (name : String) (regs args : List String)
    (body : List (Inner R)) :
    processNode self ch (.gate name regs args body) =
      match bodyErr regs args body with
      | some e => .err e
      | none =>
        if name ∈ self.macros.map (·.1) ∨ name ∈ ch.macros.map (·.1) then
          .err (.macroAlreadyDefined name)
        else if name.utf8ByteSize ≥ 32 then .err (.identIsTooLarge name name.utf8ByteSize)
        else .ok { ch with macros := ch.macros ++ [(name, ⟨regs, args, bodyCalls body⟩)] } := by
  simp only [processNode]
  rw [Macro.new_decision]
  cases bodyErr regs args body with
  | some e => rfl
  | none =>
    simp only []
    by_cases h1 : name ∈ self.macros.map (·.1)
    · have := (any_key_iff self.macros name).2 h1
      simp [this, h1]
    · have h1' : self.macros.any (·.1 == name) = false := by
        rw [← Bool.not_eq_true, any_key_iff]; exact h1
      by_cases h2 : name ∈ ch.macros.map (·.1)
      · have := (any_key_iff ch.macros name).2 h2
        simp [this, h2]
      · have h2' : ch.macros.any (·.1 == name) = false := by
          rw [← Bool.not_eq_true, any_key_iff]; exact h2
        simp only [h1', h2', h1, h2, or_self, if_false, Bool.not_false, Bool.and_self, if_true,
          checkIdent]
        by_cases h3 : name.utf8ByteSize ≥ Generated.identLimit
        · rw [if_pos h3, if_pos (show name.utf8ByteSize ≥ 32 from h3)]
        · rw [if_neg h3, if_neg (show ¬ name.utf8ByteSize ≥ 32 from h3)]
end
end

/-! ## D3. one level of a user-defined gate -/
section
variable {R : Type}

/-- run the calls of a body in order and concatenate their operators; the first failing
call's outcome is the result -/
def seqCalls (f : Call R → Res (MultiOp R)) : List (Call R) → Res (MultiOp R)
  | [] => .ok []
  | c :: cs =>
    match f c with
    | .ok o =>
      (match seqCalls f cs with
       | .ok os => .ok (o ++ os)
       | r => r)
    | r => r

theorem foldl_step_eq (f : Call R → Res (MultiOp R))
    (step : Res (MultiOp R) → Call R → Res (MultiOp R))
    (hok : ∀ op c, step (.ok op) c = match f c with | .ok o => .ok (op ++ o) | r => r)
    (herr : ∀ e c, step (.err e) c = .err e) (hpanic : ∀ s c, step (.panic s) c = .panic s)
    (l : List (Call R)) (acc : MultiOp R) :
    l.foldl step (.ok acc) =
      match seqCalls f l with
      | .ok os => .ok (acc ++ os)
      | r => r := by
  have hE : ∀ (l : List (Call R)) e, l.foldl step (.err e) = .err e := by
    intro l e; induction l with
    | nil => rfl
    | cons c l ih => rw [List.foldl_cons, herr, ih]
  have hP : ∀ (l : List (Call R)) s, l.foldl step (.panic s) = .panic s := by
    intro l s; induction l with
    | nil => rfl
    | cons c l ih => rw [List.foldl_cons, hpanic, ih]
  induction l generalizing acc with
  | nil => simp [seqCalls]
  | cons c l ih =>
    rw [List.foldl_cons, hok, seqCalls]
    cases hf : f c with
    | ok o =>
      simp only []
      rw [ih]
      cases seqCalls f l with
      | ok os => simp
      | err e => rfl
      | panic s => rfl
    | err e => simp only []; rw [hE]
    | panic s => simp only []; rw [hP]

section
variable [Add R] [Sub R] [Mul R] [Neg R] [Div R] [ExprFns R] [AngleFns R]

/-- the parameter expressions of a body call evaluated with the formals bound -/
def evalArgsWith (vars : List (String × R)) : List (PExpr R) → Except EvalErr (List R)
  | [] => .ok []
  | a :: as =>
    match evalExtended a vars with
    | .error e => .error e
    | .ok v => match evalArgsWith vars as with
      | .error e => .error e
      | .ok vs => .ok (v :: vs)

omit [AngleFns R] in
theorem macro_evalArgs_eq (vars : List (String × R)) (l : List (PExpr R)) (acc : List R) :
    Macro.process.evalArgs vars l acc =
      match evalArgsWith vars l with
      | .error e => .error e
      | .ok vs => .ok (acc.reverse ++ vs) := by
  induction l generalizing acc with
  | nil => simp [Macro.process.evalArgs, evalArgsWith]
  | cons a as ih =>
    rw [Macro.process.evalArgs, evalArgsWith]
    cases h : evalExtended a vars with
    | error e => rfl
    | ok v =>
      simp only []
      rw [ih]
      cases evalArgsWith vars as <;> simp

/-- one statement of a gate body: the actual masks are substituted for the formal qubit
names, the parameter expressions are evaluated with the formal parameters bound to the actual
values, then the callee runs: a defined gate through `Macro.process` (one level deeper, the
name pushed on the call stack), anything else through `Gates.process` -/
def callOne (macros : List (String × Macro R)) (fuel : Nat) (m : Macro R) (regs : List Nat)
    (args : List R) (stack : List String) (c : Call R) : Res (MultiOp R) :=
  match c.regs.mapM (fun a => lookupLast (m.regs.zip regs) a.name) with
  | none => .panic "regs[&name]"
  | some regsI =>
    match evalArgsWith (m.args.zip args) c.args with
    | .error e => .err (.unevaluatedArgument c.name e)
    | .ok argsI =>
      match macros.find? (fun p => p.1 == c.name) with
      | some (_, m') =>
        if stack.contains c.name then .err (.macroError (.recursiveMacro c.name))
        else Macro.process macros fuel m' c.name regsI argsI (stack ++ [c.name])
      | none => Gates.process c.name regsI argsI

/-- one level of `Macro::process_nested` -/
theorem Macro.process_succ (macros : List (String × Macro R)) (fuel : Nat) (m : Macro R)
    (name : String) (regs : List Nat) (args : List R) (stack : List String) :
    Macro.process macros (fuel + 1) m name regs args stack =
      if regs.length ≠ m.regs.length then .err (.wrongRegNumber name regs.length)
      else if args.length ≠ m.args.length then .err (.wrongArgNumber name args.length)
      else seqCalls (callOne macros fuel m regs args stack) m.nodes := by
  rw [Macro.process]
  by_cases h1 : regs.length ≠ m.regs.length
  · rw [if_pos h1, if_pos h1]
  · rw [if_neg h1, if_neg h1]
    by_cases h2 : args.length ≠ m.args.length
    · rw [if_pos h2, if_pos h2]
    · rw [if_neg h2, if_neg h2]
      simp only []
      rw [foldl_step_eq (callOne macros fuel m regs args stack)]
      · cases seqCalls (callOne macros fuel m regs args stack) m.nodes <;> simp
      · intro op c
        simp only [callOne]
        cases c.regs.mapM (fun a => lookupLast (m.regs.zip regs) a.name) with
        | none => rfl
        | some regsI =>
          simp only []
          rw [macro_evalArgs_eq]
          cases evalArgsWith (m.args.zip args) c.args with
          | error e => rfl
          | ok argsI => rfl
      · intro e c; rfl
      · intro s c; rfl
end
end

/-! ## C. the static rules decide acceptance -/
section
variable {R : Type}

/-- the rule a register declaration breaks, if any (checks in the interpreter's order) -/
def declErr (self ch : Interp R) (a : String) (n total : Nat) : Option IntError :=
  if a.utf8ByteSize ≥ 32 then some (.identIsTooLarge a a.utf8ByteSize)
  else if n ≥ 64 then some (.registerIsTooLarge a n)
  else if total ≥ 64 then some (.registerIsTooLarge a total)
  else if a ∈ self.qReg then some (.dupQReg a (self.qReg.count a))
  else if a ∈ self.cReg then some (.dupCReg a (self.cReg.count a))
  else if a ∈ ch.qReg then some (.dupQReg a (ch.qReg.count a))
  else if a ∈ ch.cReg then some (.dupCReg a (ch.cReg.count a))
  else none

theorem declDecision_eq (self ch : Interp R) (a : String) (n total : Nat) (okRes : Interp R) :
    declDecision self ch a n total okRes =
      match declErr self ch a n total with
      | some e => .err e
      | none => .ok okRes := by
  unfold declDecision declErr
  repeat' split
  all_goals simp_all

section
variable [Add R] [Sub R] [Mul R] [Neg R] [Div R] [ExprFns R] [AngleFns R]

/-- the rule a call of a built-in gate breaks, if any: qubit arguments, then parameters, then
the gate's own arity / control rules -/
def applyErr (self ch : Interp R) (c : Call R) : Option IntError :=
  match regsErr (regList self ch true) c.regs with
  | some e => some e
  | none =>
    match evalArgs0 c.args with
    | .error e => some e
    | .ok _ => gateErr c.args.length c.name (c.regs.map (argMask (regList self ch true)))

/-- the static rule a statement breaks, if any -/
def nodeErr (self ch : Interp R) : Node R → Option IntError
  | .qreg a n => declErr self ch a n (self.qReg.length + ch.qReg.length + n)
  | .creg a n => declErr self ch a n (self.cReg.length + ch.cReg.length + n)
  | .barrier => none
  | .opaque => none
  | .reset a => argErr (regList self ch true) true a
  | .measure q c =>
    match argErr (regList self ch true) true q with
    | some e => some e
    | none =>
      match argErr (regList self ch false) false c with
      | some e => some e
      | none =>
        if argBits (regList self ch true) q ≠ argBits (regList self ch false) c then
          some (.unmatchedRegSize (argBits (regList self ch true) q)
            (argBits (regList self ch false) c))
        else none
  | .apply c => applyErr self ch c
  | .gate name regs args body =>
    match bodyErr regs args body with
    | some e => some e
    | none =>
      if name ∈ self.macros.map (·.1) ∨ name ∈ ch.macros.map (·.1) then
        some (.macroAlreadyDefined name)
      else if name.utf8ByteSize ≥ 32 then some (.identIsTooLarge name name.utf8ByteSize)
      else none
  | .ifn lhs _ body =>
    match body with
    | .other => some .disallowedNodeInIf
    | .call c => if lhs ∉ regList self ch false then some (.noCReg lhs) else applyErr self ch c

/-- the statement calls no user-defined gate (the acceptance theorem is stated for built-in
gates; a call of a defined gate is `Macro.process`, see `Macro.process_succ`) -/
def builtinOnly (self ch : Interp R) : Node R → Prop
  | .apply c => lookupLast (self.macros ++ ch.macros) c.name = none
  | .ifn _ _ (.call c) => lookupLast (self.macros ++ ch.macros) c.name = none
  | _ => True

theorem processApply_spec (self ch : Interp R) (c : Call R)
    (hl : (regList self ch true).length ≤ 64)
    (hb : lookupLast (self.macros ++ ch.macros) c.name = none) :
    match applyErr self ch c with
    | some e => processApply self ch c = .err e
    | none => ∃ o, processApply self ch c = .ok { ch with qOps := ch.qOps.push o } := by
  rw [processApply_eq self ch c hl]
  unfold applyErr
  cases hr : regsErr (regList self ch true) c.regs with
  | some e => rfl
  | none =>
    simp only []
    cases ha : evalArgs0 c.args with
    | error e => rfl
    | ok args =>
      simp only []
      have hlen := evalArgs0_length c.args args ha
      have hmasks : ∀ m ∈ c.regs.map (argMask (regList self ch true)), m < 2 ^ 64 := by
        intro m hm
        obtain ⟨a, ha, rfl⟩ := List.mem_map.1 hm
        exact (argMask_spec _ true a hl ((regsErr_eq_none_iff _ _).1 hr a ha)).2.1
      have hs := process_spec args c.name _ hmasks
      simp only [callGate, hb]
      rw [hlen] at hs
      cases hg : gateErr c.args.length c.name (c.regs.map (argMask (regList self ch true))) with
      | some e => rw [hg] at hs; simp only [] at hs ⊢; rw [hs]
      | none =>
        rw [hg] at hs; simp only [] at hs ⊢
        obtain ⟨o, ho, _⟩ := hs
        rw [ho]; exact ⟨o, rfl⟩

/-- the interpreter decides every statement exactly as `nodeErr` says -/
theorem processNode_spec (self ch : Interp R) (n : Node R) (hl : lenOk self ch)
    (hb : builtinOnly self ch n) :
    match nodeErr self ch n with
    | some e => processNode self ch n = .err e
    | none => ∃ ch', processNode self ch n = .ok ch' := by
  have hq : (regList self ch true).length ≤ 64 := Nat.le_of_lt hl.1
  have hc : (regList self ch false).length ≤ 64 := Nat.le_of_lt hl.2
  cases n with
  | qreg a k =>
    rw [processNode_qreg, declDecision_eq]; simp only [nodeErr]
    cases declErr self ch a k (self.qReg.length + ch.qReg.length + k) <;> simp
  | creg a k =>
    rw [processNode_creg, declDecision_eq]; simp only [nodeErr]
    cases declErr self ch a k (self.cReg.length + ch.cReg.length + k) <;> simp
  | barrier => exact ⟨_, rfl⟩
  | «opaque» => exact ⟨_, rfl⟩
  | reset a =>
    rw [processNode_reset self ch a hq]; simp only [nodeErr]
    cases argErr (regList self ch true) true a <;> simp
  | measure q c =>
    rw [processNode_measure self ch q c hq hc]; simp only [nodeErr]
    cases argErr (regList self ch true) true q with
    | some e => rfl
    | none =>
      cases argErr (regList self ch false) false c with
      | some e => rfl
      | none =>
        simp only []
        by_cases hne : argBits (regList self ch true) q ≠ argBits (regList self ch false) c
        · rw [if_pos hne, if_pos hne]
        · rw [if_neg hne, if_neg hne]; exact ⟨_, rfl⟩
  | apply c =>
    have := processApply_spec self ch c hq hb
    simp only [nodeErr, processNode]
    cases h : applyErr self ch c with
    | some e => rw [h] at this; exact this
    | none => rw [h] at this; obtain ⟨o, ho⟩ := this; exact ⟨_, ho⟩
  | gate name regs args body =>
    rw [processNode_gate]; simp only [nodeErr]
    cases bodyErr regs args body with
    | some e => rfl
    | none =>
      simp only []
      by_cases h1 : name ∈ self.macros.map (·.1) ∨ name ∈ ch.macros.map (·.1)
      · rw [if_pos h1, if_pos h1]
      · rw [if_neg h1, if_neg h1]
        by_cases h2 : name.utf8ByteSize ≥ 32
        · rw [if_pos h2, if_pos h2]
        · rw [if_neg h2, if_neg h2]; exact ⟨_, rfl⟩
  | ifn lhs rhs body =>
    cases body with
    | other => rfl
    | call c =>
      rw [processNode_ifn_call self ch lhs rhs c hc]; simp only [nodeErr]
      by_cases hm : lhs ∉ regList self ch false
      · rw [if_pos hm, if_pos hm]
      · rw [if_neg hm, if_neg hm]
        have := processApply_spec self { ch with qOps := {} } c hq hb
        have he : applyErr self { ch with qOps := {} } c = applyErr self ch c := rfl
        rw [he] at this
        cases h : applyErr self ch c with
        | some e => rw [h] at this; simp only [] at this ⊢; rw [this]
        | none =>
          rw [h] at this; simp only [] at this ⊢
          obtain ⟨o, ho⟩ := this
          rw [ho]; exact ⟨_, rfl⟩
end
end

/-! ## C2. programs -/
section
variable {R : Type}

/-- the part of `changes` the static rules look at -/
def sameStatic (a b : Interp R) : Prop :=
  a.qReg = b.qReg ∧ a.cReg = b.cReg ∧ a.macros = b.macros

/-- the static effect of an accepted statement: declarations extend the alias lists, gate
definitions extend the gate table, nothing else is visible to the rules -/
def staticNext (st : Interp R) : Node R → Interp R
  | .qreg a k => { st with qReg := st.qReg ++ List.replicate k a }
  | .creg a k => { st with cReg := st.cReg ++ List.replicate k a }
  | .gate name regs args body =>
    { st with macros := st.macros ++ [(name, ⟨regs, args, bodyCalls body⟩)] }
  | _ => st

section
variable [Add R] [Sub R] [Mul R] [Neg R] [Div R] [ExprFns R] [AngleFns R]

omit [AngleFns R] in
theorem nodeErr_congr (self ch st : Interp R) (n : Node R) (h : sameStatic ch st) :
    nodeErr self ch n = nodeErr self st n := by
  obtain ⟨h1, h2, h3⟩ := h
  cases n with
  | ifn lhs rhs body =>
    cases body <;> simp only [nodeErr, applyErr, regList, h1, h2]
  | _ => simp only [nodeErr, applyErr, declErr, regList, h1, h2, h3]

omit [Add R] [Sub R] [Mul R] [Neg R] [Div R] [ExprFns R] [AngleFns R] in
theorem builtinOnly_congr (self ch st : Interp R) (n : Node R) (h : sameStatic ch st) :
    builtinOnly self ch n ↔ builtinOnly self st n := by
  obtain ⟨h1, h2, h3⟩ := h
  cases n with
  | ifn lhs rhs body =>
    cases body <;> simp only [builtinOnly, h3]
  | _ => simp only [builtinOnly, h3]

theorem processNode_static (self ch ch' st : Interp R) (n : Node R) (h : sameStatic ch st)
    (hp : processNode self ch n = .ok ch') : sameStatic ch' (staticNext st n) := by
  obtain ⟨h1, h2, h3⟩ := h
  have hf := (processNode_frame self ch ch' n hp).2.2
  cases n with
  | qreg a k => simp only [] at hf; subst hf; exact ⟨by simp [staticNext, h1], h2, h3⟩
  | creg a k => simp only [] at hf; subst hf; exact ⟨h1, by simp [staticNext, h2], h3⟩
  | barrier => simp only [] at hf; subst hf; exact ⟨h1, h2, h3⟩
  | «opaque» => simp only [] at hf; subst hf; exact ⟨h1, h2, h3⟩
  | reset a => obtain ⟨m, rfl⟩ := hf; exact ⟨h1, h2, h3⟩
  | measure q c => obtain ⟨qa, ca, rfl⟩ := hf; exact ⟨h1, h2, h3⟩
  | apply c => obtain ⟨o, rfl⟩ := hf; exact ⟨h1, h2, h3⟩
  | ifn lhs rhs body => obtain ⟨o, val, rfl⟩ := hf; exact ⟨h1, h2, h3⟩
  | gate name regs args body =>
    rw [processNode_gate] at hp
    cases hb : bodyErr regs args body with
    | some e => rw [hb] at hp; cases hp
    | none =>
      rw [hb] at hp; simp only [] at hp
      split at hp
      · cases hp
      · split at hp
        · cases hp
        · cases hp
          exact ⟨h1, h2, by simp [staticNext, h3]⟩

/-- the first static rule a program breaks, statement by statement -/
def progErr (self st : Interp R) : List (Node R) → Option IntError
  | [] => none
  | n :: ns =>
    match nodeErr self st n with
    | some e => some e
    | none => progErr self (staticNext st n) ns

/-- no statement calls a user-defined gate -/
def progBuiltin (self st : Interp R) : List (Node R) → Prop
  | [] => True
  | n :: ns => builtinOnly self st n ∧ progBuiltin self (staticNext st n) ns

/-- a program is decided by its static rules: the first broken rule is the error, a program
that breaks none is accepted -/
theorem processNodes_spec (self ch st : Interp R) (ns : List (Node R)) (hl : lenOk self ch)
    (hs : sameStatic ch st) (hb : progBuiltin self st ns) :
    match progErr self st ns with
    | some e => processNodes self ch ns = .err e
    | none => ∃ ch', processNodes self ch ns = .ok ch' := by
  induction ns generalizing ch st with
  | nil => exact ⟨ch, rfl⟩
  | cons n ns ih =>
    have hb1 : builtinOnly self ch n := (builtinOnly_congr self ch st n hs).2 hb.1
    have hsp := processNode_spec self ch n hl hb1
    rw [nodeErr_congr self ch st n hs] at hsp
    simp only [progErr]
    cases hn : nodeErr self st n with
    | some e =>
      rw [hn] at hsp; simp only [] at hsp ⊢
      exact processNodes_cons_err _ _ _ _ _ hsp
    | none =>
      rw [hn] at hsp; simp only [] at hsp ⊢
      obtain ⟨c1, hc1⟩ := hsp
      rw [processNodes_cons_ok _ _ _ _ _ hc1]
      exact ih c1 (staticNext st n) (processNode_lenOk self ch c1 n hl hc1)
        (processNode_static self ch c1 st n hs hc1) hb.2

theorem new_eq (ast : List (Node R)) :
    Interp.new ast =
      match processNodes {} {} ast with
      | .ok ch => .ok (appendInt {} { ch with asts := ch.asts ++ [ast.length] })
      | .err e => .err e
      | .panic s => .panic s := by
  unfold Interp.new addAst astChanges
  cases processNodes ({} : Interp R) {} ast <;> rfl

omit [Add R] [Sub R] [Mul R] [Neg R] [Div R] [ExprFns R] [AngleFns R] in
theorem lenOk_empty : lenOk ({} : Interp R) {} := ⟨by simp [regList], by simp [regList]⟩
end
end

/-! ## B2b. register lookup as iff-statements -/
section
variable {R : Type}

theorem noReg_ne_idx (q : Bool) (a b : String) (i : Nat) : noReg q a ≠ .idxOutOfRange b i := by
  cases q <;> simp [noReg]

theorem noReg_inj (q : Bool) (a b : String) (h : noReg q a = noReg q b) : a = b := by
  cases q <;> simpa [noReg] using h

theorem getIdx_qubit_noReg_iff (self ch : Interp R) (q : Bool) (a : String) (i : Nat)
    (hl : (regList self ch q).length ≤ 64) :
    getIdx self ch q (.qubit a i) = .error (noReg q a) ↔ a ∉ regList self ch q := by
  rw [getIdx_err_iff self ch q _ _ hl]
  simp only [argErr]
  by_cases h : a ∈ regList self ch q
  · by_cases h2 : (regList self ch q).count a ≤ i
    · simp [h, h2, (noReg_ne_idx q a a i).symm]
    · simp [h, h2]
  · simp [h]

theorem getIdx_qubit_range_iff (self ch : Interp R) (q : Bool) (a : String) (i : Nat)
    (hl : (regList self ch q).length ≤ 64) :
    getIdx self ch q (.qubit a i) = .error (.idxOutOfRange a i) ↔
      a ∈ regList self ch q ∧ (regList self ch q).count a ≤ i := by
  rw [getIdx_err_iff self ch q _ _ hl]
  simp only [argErr]
  by_cases h : a ∈ regList self ch q
  · by_cases h2 : (regList self ch q).count a ≤ i
    · simp [h, h2]
    · simp [h, h2]
  · simp [h, noReg_ne_idx q a a i]

theorem getIdx_qubit_ok_iff (self ch : Interp R) (q : Bool) (a : String) (i : Nat)
    (hl : (regList self ch q).length ≤ 64) :
    (∃ b, getIdx self ch q (.qubit a i) = .ok b) ↔ i < (regList self ch q).count a := by
  rw [getIdx_eq self ch q _ hl]
  simp only [argErr]
  by_cases h : a ∈ regList self ch q
  · by_cases h2 : (regList self ch q).count a ≤ i
    · simp [h, h2]
    · simp [h, h2]; omega
  · have : (regList self ch q).count a = 0 := List.count_eq_zero.2 h
    simp [h, this]

theorem getIdx_register_ok_iff (self ch : Interp R) (q : Bool) (a : String) (m : Nat)
    (hl : (regList self ch q).length ≤ 64) :
    getIdx self ch q (.register a) = .ok m ↔
      a ∈ regList self ch q ∧ m = maskByAlias (regList self ch q) a := by
  rw [getIdx_register self ch q a hl]
  by_cases h : a ∈ regList self ch q
  · simp [h, eq_comm]
  · simp [h]

theorem getIdx_register_err_iff (self ch : Interp R) (q : Bool) (a : String) (e : IntError)
    (hl : (regList self ch q).length ≤ 64) :
    getIdx self ch q (.register a) = .error e ↔ a ∉ regList self ch q ∧ e = noReg q a := by
  rw [getIdx_register self ch q a hl]
  by_cases h : a ∈ regList self ch q
  · simp [h]
  · simp [h, eq_comm]
end

/-! ## C3. decidability of the side condition -/
section
variable {R : Type}

instance builtinOnly.dec (self ch : Interp R) : (n : Node R) → Decidable (builtinOnly self ch n)
  | .apply c => inferInstanceAs (Decidable (lookupLast (self.macros ++ ch.macros) c.name = none))
  | .ifn _ _ (.call c) =>
    inferInstanceAs (Decidable (lookupLast (self.macros ++ ch.macros) c.name = none))
  | .ifn _ _ .other => isTrue trivial
  | .qreg _ _ => isTrue trivial
  | .creg _ _ => isTrue trivial
  | .barrier => isTrue trivial
  | .opaque => isTrue trivial
  | .reset _ => isTrue trivial
  | .measure _ _ => isTrue trivial
  | .gate _ _ _ _ => isTrue trivial

instance progBuiltin.dec (self : Interp R) : (st : Interp R) → (ns : List (Node R)) →
    Decidable (progBuiltin self st ns)
  | _, [] => isTrue trivial
  | st, n :: ns =>
    have := builtinOnly.dec self st n
    have := progBuiltin.dec self (staticNext st n) ns
    inferInstanceAs (Decidable (builtinOnly self st n ∧ progBuiltin self (staticNext st n) ns))
end

/-! ## D4. declared bits: shape, index, disjointness -/
section
variable {R : Type}

/-- two different declared (qu)bits resolve to disjoint single-bit masks -/
theorem getIdx_qubit_disjoint (self ch : Interp R) (q : Bool) (a b : String) (i j m1 m2 : Nat)
    (hl : (regList self ch q).length ≤ 64) (hne : a ≠ b ∨ i ≠ j)
    (h1 : getIdx self ch q (.qubit a i) = .ok m1) (h2 : getIdx self ch q (.qubit b j) = .ok m2) :
    m1 &&& m2 = 0 ∧ m1 ≠ m2 := by
  rcases getIdx_qubit_cases self ch q a i hl with ⟨_, e⟩ | ⟨_, _, e⟩ | ⟨_, _, k, hk, hka, hbk, e⟩
  · rw [e] at h1; cases h1
  · rw [e] at h1; cases h1
  rcases getIdx_qubit_cases self ch q b j hl with ⟨_, e'⟩ | ⟨_, _, e'⟩ | ⟨_, _, k', hk', hkb, hbk', e'⟩
  · rw [e'] at h2; cases h2
  · rw [e'] at h2; cases h2
  rw [e] at h1; rw [e'] at h2; cases h1; cases h2
  have hkk : k ≠ k' := by
    intro hkk; subst hkk
    by_cases hab : a = b
    · subst hab
      have hij : i ≠ j := by rcases hne with h | h; exact absurd rfl h; exact h
      have hlt := maskByAlias_lt_word (regList self ch q) a hl
      rw [bitsIterList_eq_bitsOf _ hlt] at hbk hbk'
      have hp := bitsOf_pairwise_lt (maskByAlias (regList self ch q) a)
      rw [List.pairwise_iff_getElem] at hp
      obtain ⟨hi, hi'⟩ := List.getElem?_eq_some_iff.1 hbk
      obtain ⟨hj, hj'⟩ := List.getElem?_eq_some_iff.1 hbk'
      rcases Nat.lt_or_gt_of_ne hij with h | h
      · have := hp i j hi hj h; rw [hi', hj'] at this; omega
      · have := hp j i hj hi h; rw [hi', hj'] at this; omega
    · rw [hka] at hkb; exact hab (Option.some.inj hkb)
  refine ⟨two_pow_and_two_pow_of_ne k k' hkk, ?_⟩
  intro h
  exact hkk (Nat.pow_right_injective (Nat.le_refl 2) h)

section
variable [Add R] [Sub R] [Mul R] [Neg R] [Div R] [ExprFns R] [AngleFns R]

/-- an accepted `qreg a[n]` appends one block of `n` positions under a fresh name -/
theorem qreg_shape (self ch ch' : Interp R) (a : String) (n : Nat)
    (h : processNode self ch (.qreg a n) = .ok ch') :
    regList self ch' true = regList self ch true ++ List.replicate n a ∧
    regList self ch' false = regList self ch false ∧
    a ∉ regList self ch true ∧ a ∉ regList self ch false ∧
    (regList self ch true).length + n < 64 := by
  rw [processNode_qreg, declDecision] at h
  repeat' split at h
  all_goals cases h
  rename_i h1 h2 h3 h4 h5 h6 h7
  refine ⟨?_, rfl, ?_, ?_, ?_⟩
  · simp only [regList, if_true, List.append_assoc]
  · simp only [regList, if_true, List.mem_append, not_or]; exact ⟨h4, h6⟩
  · simp only [regList, Bool.false_eq_true, if_false, List.mem_append, not_or]; exact ⟨h5, h7⟩
  · simp only [regList, if_true, List.length_append]; omega

theorem creg_shape (self ch ch' : Interp R) (a : String) (n : Nat)
    (h : processNode self ch (.creg a n) = .ok ch') :
    regList self ch' false = regList self ch false ++ List.replicate n a ∧
    regList self ch' true = regList self ch true ∧
    a ∉ regList self ch true ∧ a ∉ regList self ch false ∧
    (regList self ch false).length + n < 64 := by
  rw [processNode_creg, declDecision] at h
  repeat' split at h
  all_goals cases h
  rename_i h1 h2 h3 h4 h5 h6 h7
  refine ⟨?_, rfl, ?_, ?_, ?_⟩
  · simp only [regList, Bool.false_eq_true, if_false, List.append_assoc]
  · simp only [regList, if_true, List.mem_append, not_or]; exact ⟨h4, h6⟩
  · simp only [regList, Bool.false_eq_true, if_false, List.mem_append, not_or]; exact ⟨h5, h7⟩
  · simp only [regList, Bool.false_eq_true, if_false, List.length_append]; omega
end

/-- in a block-shaped alias list, `a[i]` is bit `pre.length + i` -/
theorem getIdx_block (self ch : Interp R) (q : Bool) (pre post : List String) (a : String)
    (n i : Nat) (hshape : regList self ch q = pre ++ List.replicate n a ++ post)
    (hl : (regList self ch q).length ≤ 64) (hpre : a ∉ pre) (hpost : a ∉ post) (hi : i < n) :
    getIdx self ch q (.qubit a i) = .ok (2 ^ (pre.length + i)) := by
  rw [getIdx_eq self ch q _ hl]
  have hcount : (regList self ch q).count a = n := by
    rw [hshape, List.count_append, List.count_append, List.count_replicate_self,
      List.count_eq_zero.2 hpre, List.count_eq_zero.2 hpost]; omega
  have hmem : a ∈ regList self ch q := List.count_pos_iff.1 (by omega)
  have : ¬ (regList self ch q).count a ≤ i := by omega
  simp only [argErr, hmem, not_true_eq_false, if_false, this, argMask]
  rw [hshape] at hl ⊢
  rw [bitsIterList_block pre post a n i hl hpre hpost hi]
  rfl
end

/-! ## C4. sessions -/
section
variable {R : Type} [Add R] [Sub R] [Mul R] [Neg R] [Div R] [ExprFns R] [AngleFns R]

/-- the size invariant survives `add_ast`: every session reachable from `Int::new` /
`add_ast` has fewer than 64 qubits and fewer than 64 bits -/
theorem addAst_lenOk (self self' : Interp R) (ast : List (Node R)) (hl : lenOk self {})
    (h : addAst self ast = .ok self') : lenOk self' {} := by
  unfold addAst astChanges at h
  cases hp : processNodes self {} ast with
  | ok ch =>
    rw [hp] at h; simp only [] at h; cases h
    have := processNodes_lenOk self {} ch ast hl hp
    simpa [lenOk, regList, appendInt] using this
  | err e => rw [hp] at h; cases h
  | panic s => rw [hp] at h; cases h
end

/-! ## C5. user-defined gates, one level: no panic -/
section
variable {R : Type}

theorem lookupLast_zip_isSome {α : Type} (ks : List String) (vs : List α)
    (hlen : vs.length = ks.length) (k : String) (hk : k ∈ ks) :
    ∃ v, lookupLast (ks.zip vs) k = some v ∧ v ∈ vs := by
  obtain ⟨i, hi, hik⟩ := List.getElem_of_mem hk
  have hmem : (k, vs[i]'(by omega)) ∈ (ks.zip vs).reverse := by
    rw [List.mem_reverse, ← hik]
    exact List.mem_iff_getElem.2 ⟨i, by simp; omega, by simp⟩
  unfold lookupLast
  cases hf : (ks.zip vs).reverse.find? (fun p => p.1 == k) with
  | none =>
    have := List.find?_eq_none.1 hf _ hmem
    simp at this
  | some p =>
    refine ⟨p.2, rfl, ?_⟩
    have hp := List.mem_of_find?_eq_some hf
    rw [List.mem_reverse] at hp
    exact (List.of_mem_zip hp).2

/-- the body only names formal qubit arguments, un-indexed (what `Macro::new` checked) -/
def wellBody (m : Macro R) : Prop :=
  ∀ c ∈ m.nodes, ∀ a ∈ c.regs, ∃ n, a = .register n ∧ n ∈ m.regs

theorem bodyRegErr_none (regs : List String) (l : List Arg) (h : bodyRegErr regs l = none) :
    ∀ a ∈ l, ∃ n, a = .register n ∧ n ∈ regs := by
  induction l with
  | nil => simp
  | cons a as ih =>
    cases a with
    | qubit n i => simp [bodyRegErr] at h
    | register n =>
      simp only [bodyRegErr] at h
      by_cases hn : regs.contains n = true
      · simp only [hn, Bool.not_true, Bool.false_eq_true, if_false] at h
        intro b hb
        rcases List.mem_cons.1 hb with rfl | hb
        · exact ⟨n, rfl, by simpa using hn⟩
        · exact ih h b hb
      · have hn' : n ∉ regs := by simpa using hn
        simp [hn'] at h

section
variable [Add R] [Sub R] [Mul R] [Neg R] [Div R] [ExprFns R]

theorem bodyErr_none_wellBody (regs args : List String) (body : List (Inner R))
    (h : bodyErr regs args body = none) : wellBody (⟨regs, args, bodyCalls body⟩ : Macro R) := by
  induction body with
  | nil => intro c hc; simp [bodyCalls] at hc
  | cons b rest ih =>
    cases b with
    | other => simp [bodyErr] at h
    | call c0 =>
      simp only [bodyErr, callErr] at h
      cases hr : bodyRegErr regs c0.regs with
      | some e => rw [hr] at h; cases h
      | none =>
        rw [hr] at h; simp only [] at h
        cases ha : bodyArgErr args c0.args with
        | some e => rw [ha] at h; cases h
        | none =>
          rw [ha] at h; simp only [] at h
          intro c hc
          simp only [bodyCalls, List.mem_cons] at hc
          rcases hc with rfl | hc
          · exact bodyRegErr_none regs _ hr
          · exact ih h c hc

variable [AngleFns R]

omit [Add R] [Sub R] [Mul R] [Neg R] [Div R] [ExprFns R] [AngleFns R] in
/-- the substitution of actual for formal qubit arguments cannot fail (`regs[&name]` never
panics) for a body accepted by `Macro::new` once the arity check has passed -/
theorem substRegs_isSome (m : Macro R) (hw : wellBody m) (regs : List Nat)
    (hlen : regs.length = m.regs.length) (c : Call R) (hc : c ∈ m.nodes) :
    ∃ regsI, c.regs.mapM (fun a => lookupLast (m.regs.zip regs) a.name) = some regsI ∧
      ∀ x ∈ regsI, x ∈ regs := by
  refine ⟨c.regs.map (fun a => (lookupLast (m.regs.zip regs) a.name).getD 0), ?_, ?_⟩
  · apply mapM_option_eq_some
    intro a ha
    obtain ⟨n, rfl, hn⟩ := hw c hc a ha
    obtain ⟨v, hv, _⟩ := lookupLast_zip_isSome m.regs regs hlen n hn
    simp only [Arg.name, hv, Option.getD_some]
  · intro x hx
    obtain ⟨a, ha, rfl⟩ := List.mem_map.1 hx
    obtain ⟨n, rfl, hn⟩ := hw c hc a ha
    obtain ⟨v, hv, hvm⟩ := lookupLast_zip_isSome m.regs regs hlen n hn
    simp only [Arg.name, hv, Option.getD_some]; exact hvm

omit [Add R] [Sub R] [Mul R] [Neg R] [Div R] [ExprFns R] [AngleFns R] in
theorem seqCalls_no_panic (f : Call R → Res (MultiOp R)) (l : List (Call R))
    (h : ∀ c ∈ l, ∀ s, f c ≠ .panic s) : ∀ s, seqCalls f l ≠ .panic s := by
  induction l with
  | nil => simp [seqCalls]
  | cons c cs ih =>
    rw [seqCalls]
    have ih := ih (fun c hc => h c (List.mem_cons_of_mem _ hc))
    cases hf : f c with
    | ok o =>
      simp only []
      cases hs : seqCalls f cs with
      | ok os => simp
      | err e => simp
      | panic s' => exact absurd hs (ih s')
    | err e => simp
    | panic s' => exact absurd hf (h c (by simp) s')

/-- a user-defined gate whose body calls built-in gates only never panics on word-sized masks -/
theorem Macro.process_one_level_no_panic (macros : List (String × Macro R)) (fuel : Nat)
    (m : Macro R) (hw : wellBody m) (name : String) (regs : List Nat) (args : List R)
    (stack : List String) (hregs : ∀ x ∈ regs, x < 2 ^ 64)
    (hb : ∀ c ∈ m.nodes, macros.find? (fun p => p.1 == c.name) = none) (s : String) :
    Macro.process macros (fuel + 1) m name regs args stack ≠ .panic s := by
  rw [Macro.process_succ]
  by_cases h1 : regs.length ≠ m.regs.length
  · rw [if_pos h1]; simp
  · rw [if_neg h1]
    by_cases h2 : args.length ≠ m.args.length
    · rw [if_pos h2]; simp
    · rw [if_neg h2]
      refine seqCalls_no_panic _ _ ?_ s
      intro c hc s'
      obtain ⟨regsI, hr, hsub⟩ := substRegs_isSome m hw regs (by omega) c hc
      simp only [callOne, hr, hb c hc]
      cases evalArgsWith (m.args.zip args) c.args with
      | error e => simp
      | ok argsI =>
        simp only []
        exact process_no_panic argsI c.name regsI (fun x hx => hregs x (hsub x hx)) s'
end
end

end Qvnt
