/- `creg_mul_assign_eq` of GenCreg.lean (one module per declaration, tools/lean_split.py) -/
import Qvnt.Generated.Regs
import Qvnt.Generated.Kernels
import Qvnt.Lemmas.Bits
import Mathlib.Tactic.Ring
import Mathlib.Algebra.Ring.Basic
import Qvnt.Lemmas.Queue
import Qvnt.Model.Reg

set_option linter.unusedSectionVars false
namespace Qvnt.Gen2
open Qvnt Qvnt.Gen
variable {R : Type}

theorem creg_mul_assign_eq (a b : CRegG) : creg_mul_assign a b = creg_tensor_prod a b := rfl

end Qvnt.Gen2
