/- `foldl_ext_mem` of GenCreg.lean (one module per declaration, tools/lean_split.py) -/
import Qvnt.Generated.Regs
import Qvnt.Generated.Kernels
import Qvnt.Lemmas.Bits
import Mathlib.Tactic.Ring
import Mathlib.Algebra.Ring.Basic
import Qvnt.Lemmas.Queue
import Qvnt.Model.Reg

set_option linter.unusedSectionVars false
namespace Qvnt.Gen2
open Qvnt Qvnt.Gen
variable {R : Type}

theorem foldl_ext_mem {α β : Type} (f g : α → β → α) (l : List β) (a : α)
    (H : ∀ a, ∀ b ∈ l, f a b = g a b) : l.foldl f a = l.foldl g a := by
  induction l generalizing a with
  | nil => rfl
  | cons x xs ih =>
    simp only [List.foldl_cons]
    rw [H a x (by simp)]
    exact ih _ (fun a b hb => H a b (by simp [hb]))

end Qvnt.Gen2
