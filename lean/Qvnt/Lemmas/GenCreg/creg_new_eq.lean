/- `creg_new_eq` of GenCreg.lean (one module per declaration, tools/lean_split.py) -/
import Qvnt.Generated.Regs
import Qvnt.Generated.Kernels
import Qvnt.Lemmas.Bits
import Mathlib.Tactic.Ring
import Mathlib.Algebra.Ring.Basic
import Qvnt.Lemmas.Queue
import Qvnt.Model.Reg
import Qvnt.Lemmas.GenRegs.CRegG_toModel
import Qvnt.Lemmas.GenRegs.creg_with_state_eq

set_option linter.unusedSectionVars false
namespace Qvnt.Gen2
open Qvnt Qvnt.Gen
variable {R : Type}
section arith
variable [Add R] [Sub R] [Mul R] [Div R] [Neg R] [Zero R] [One R] [Consts R]
  [LE R] [DecidableLE R] [LT R] [DecidableLT R] [HasSqrt R] [RegConsts R]

theorem creg_new_eq (n : Nat) : (creg_new n).toModel = CReg.new n := by
  simp [creg_new, CReg.new, creg_with_state_eq]

end arith
end Qvnt.Gen2
