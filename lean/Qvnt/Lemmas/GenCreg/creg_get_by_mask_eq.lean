/- `creg_get_by_mask_eq` of GenCreg.lean (one module per declaration, tools/lean_split.py) -/
import Qvnt.Generated.Regs
import Qvnt.Generated.Kernels
import Qvnt.Lemmas.Bits
import Mathlib.Tactic.Ring
import Mathlib.Algebra.Ring.Basic
import Qvnt.Lemmas.Queue
import Qvnt.Lemmas.GenBits.bitsList_eq
import Qvnt.Model.Reg
import Qvnt.Lemmas.GenRegs.CRegG_toModel
import Qvnt.Lemmas.GenCreg.foldl_ext_mem

set_option linter.unusedSectionVars false
namespace Qvnt.Gen2
open Qvnt Qvnt.Gen
variable {R : Type}

/-- for a register whose mask is a machine word (always the case: `mask_of`), the gathered bits -/
theorem creg_get_by_mask_eq (c : CRegG) (mask : Nat) (hq : c.q_mask < 2 ^ 64) :
    creg_get_by_mask c mask = c.toModel.getByMask mask := by
  unfold creg_get_by_mask CReg.getByMask
  rw [bitsList_eq]
  simp only [CRegG.toModel, Rs.enumerate, List.foldl_map]
  have hm : mask &&& c.q_mask < 2 ^ 64 := lt_of_le_of_lt Nat.and_le_right hq
  have hlen : (bitsIterList (mask &&& c.q_mask)).length ≤ 64 := by
    rw [bitsIterList_eq_bitsOf _ hm, length_bitsOf _ hm]
    exact popcount_lt_two_pow _ _ hm
  apply foldl_ext_mem
  intro acc p hp
  have hi : p.2 < 64 := by
    have := List.mem_zipIdx hp
    omega
  by_cases h : c.value &&& p.1 = 0
  · simp [h]
  · simp [h, shlW, Nat.mod_eq_of_lt hi, Nat.shiftLeft_eq,
      Nat.mod_eq_of_lt (Nat.pow_lt_pow_right (by decide : 1 < 2) hi)]

end Qvnt.Gen2
