/- `creg_eq_of_toModel` of GenCreg.lean (one module per declaration, tools/lean_split.py) -/
import Qvnt.Generated.Regs
import Qvnt.Generated.Kernels
import Qvnt.Lemmas.Bits
import Mathlib.Tactic.Ring
import Mathlib.Algebra.Ring.Basic
import Qvnt.Lemmas.Queue
import Qvnt.Model.Reg
import Qvnt.Lemmas.GenRegs.CRegG_toModel
import Qvnt.Lemmas.GenCreg.cregOfModel

set_option linter.unusedSectionVars false
namespace Qvnt.Gen2
open Qvnt Qvnt.Gen
variable {R : Type}
section arith
variable [Add R] [Sub R] [Mul R] [Div R] [Neg R] [Zero R] [One R] [Consts R]
  [LE R] [DecidableLE R] [LT R] [DecidableLT R] [HasSqrt R] [RegConsts R]

theorem creg_eq_of_toModel (c : CRegG) (m : CReg) (h : c.toModel = m) : c = cregOfModel m := by
  cases c; cases m; simp [CRegG.toModel, cregOfModel] at h ⊢; exact h

end arith
end Qvnt.Gen2
