/- `creg_fmt_eq` of GenCreg.lean (one module per declaration, tools/lean_split.py) -/
import Qvnt.Generated.Regs
import Qvnt.Generated.Kernels
import Qvnt.Lemmas.Bits
import Mathlib.Tactic.Ring
import Mathlib.Algebra.Ring.Basic
import Qvnt.Lemmas.Queue
import Qvnt.Lemmas.GenBits.bitsList_eq
import Qvnt.Model.Reg
import Qvnt.Lemmas.GenRegs.CRegG_toModel

set_option linter.unusedSectionVars false
namespace Qvnt.Gen2
open Qvnt Qvnt.Gen
variable {R : Type}

/-- the printed form (`impl Debug for CReg`) -/
theorem creg_fmt_eq (c : CRegG) : creg_fmt c = c.toModel.debug := by
  unfold creg_fmt CReg.debug
  rw [bitsList_eq]
  simp only [CRegG.toModel]
  congr 2
  congr 1
  funext s i
  by_cases h : i &&& c.value = 0 <;> simp [h]

end Qvnt.Gen2
