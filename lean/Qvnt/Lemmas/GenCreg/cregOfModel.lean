/- `cregOfModel` of GenCreg.lean (one module per declaration, tools/lean_split.py) -/
import Qvnt.Generated.Regs
import Qvnt.Generated.Kernels
import Qvnt.Lemmas.Bits
import Mathlib.Tactic.Ring
import Mathlib.Algebra.Ring.Basic
import Qvnt.Lemmas.Queue
import Qvnt.Model.Reg

set_option linter.unusedSectionVars false
namespace Qvnt.Gen2
open Qvnt Qvnt.Gen
variable {R : Type}
section arith
variable [Add R] [Sub R] [Mul R] [Div R] [Neg R] [Zero R] [One R] [Consts R]
  [LE R] [DecidableLE R] [LT R] [DecidableLT R] [HasSqrt R] [RegConsts R]

/-- the model's classical register as the translated record -/
def cregOfModel (c : CReg) : CRegG := ⟨c.value, c.qNum, c.qMask⟩

end arith
end Qvnt.Gen2
