/-
LEMMAS — registers: construction, tensor product, resizing (C14) and the integer stage of
`sample_all` (C16).
-/
import Qvnt.Model.Reg
import Qvnt.Lemmas.Bits
import Mathlib.Tactic.Ring
import Mathlib.Algebra.Ring.Basic

namespace Qvnt

/-! ## 0. arithmetic of masks -/

theorem and_lowMask (s n : Nat) : s &&& (2 ^ n - 1) = s % 2 ^ n :=
  Nat.and_two_pow_sub_one_eq_mod s n

theorem two_pow_le_bufLen (n : Nat) : 2 ^ n ≤ max (2 ^ n) minBufferLen := Nat.le_max_left _ _

theorem popcount_lowMask (n : Nat) : popcount (2 ^ n - 1) = n := by
  induction n with
  | zero => simp [popcount_zero]
  | succ n ih =>
    rw [popcount_eq]
    have hpos : 0 < 2 ^ n := Nat.pow_pos (by decide)
    have h1 : (2 ^ (n + 1) - 1) % 2 = 1 := by rw [Nat.pow_succ]; omega
    have h2 : (2 ^ (n + 1) - 1) / 2 = 2 ^ n - 1 := by rw [Nat.pow_succ]; omega
    rw [h1, h2, ih]; omega

/-! ## 1. buffers -/

section basic
variable {R : Type} [Zero R]

theorem bufFn_ofFn {len : Nat} (f : Fin len → Cx R) (i : Nat) :
    bufFn (Array.ofFn f) i = if h : i < len then f ⟨i, h⟩ else 0 := by
  unfold bufFn
  by_cases h : i < len
  · simp [Array.getD, h]
  · simp [Array.getD, h]

theorem bufFn_of_size_le (a : Array (Cx R)) (i : Nat) (h : a.size ≤ i) : bufFn a i = 0 := by
  have : ¬ i < a.size := Nat.not_lt.2 h
  simp [bufFn, Array.getD, this]

theorem getD_eq_bufFn (a : Array (Cx R)) (i : Nat) : a.getD i 0 = bufFn a i := rfl

theorem bufFn_of_lt (a : Array (Cx R)) (i : Nat) (h : i < a.size) : bufFn a i = a[i] := by
  simp [bufFn, Array.getD, h]

/-- two buffers with the same length and the same read view are equal -/
theorem array_ext_bufFn (a b : Array (Cx R)) (hs : a.size = b.size)
    (h : ∀ i, i < a.size → bufFn a i = bufFn b i) : a = b := by
  apply Array.ext hs
  intro i h1 h2
  have := h i h1
  rwa [bufFn_of_lt a i h1, bufFn_of_lt b i h2] at this

variable [One R]

theorem QReg.basisBuf_size (len s : Nat) : (QReg.basisBuf (R := R) len s).size = len := by
  simp only [QReg.basisBuf, Array.size_ofFn]

theorem QReg.bufFn_basisBuf (len s i : Nat) :
    bufFn (QReg.basisBuf (R := R) len s) i = if i < len ∧ i = s then 1 else 0 := by
  rw [QReg.basisBuf, bufFn_ofFn]
  by_cases h : i < len
  · simp [h]
  · simp [h]

omit [One R] in
theorem QReg.resizeBuf_size (a : Array (Cx R)) (len : Nat) :
    (QReg.resizeBuf a len).size = len := by
  simp only [QReg.resizeBuf, Array.size_ofFn]

omit [One R] in
theorem QReg.bufFn_resizeBuf (a : Array (Cx R)) (len i : Nat) :
    bufFn (QReg.resizeBuf a len) i = if i < len then bufFn a i else 0 := by
  rw [QReg.resizeBuf, bufFn_ofFn]
  by_cases h : i < len
  · simp only [h, ↓reduceDIte, ↓reduceIte, getD_eq_bufFn]
  · simp [h]

/-! ## 2. construction -/

theorem QReg.withState_spec (n s : Nat) :
    (QReg.withState (R := R) n s).psi.size = max (2 ^ n) 8 ∧
    (QReg.withState (R := R) n s).qNum = n ∧
    (QReg.withState (R := R) n s).qMask = 2 ^ n - 1 ∧
    ∀ i, bufFn (QReg.withState (R := R) n s).psi i = if i = s % 2 ^ n then 1 else 0 := by
  refine ⟨?_, rfl, rfl, ?_⟩
  · simp only [QReg.withState, QReg.basisBuf_size, minBufferLen]
  · intro i
    simp only [QReg.withState, QReg.bufFn_basisBuf, and_lowMask]
    have hlt : s % 2 ^ n < 2 ^ n := Nat.mod_lt _ (Nat.pow_pos (by decide))
    have hle := two_pow_le_bufLen n
    by_cases h : i = s % 2 ^ n
    · have : i < max (2 ^ n) minBufferLen := by omega
      simp only [← h, this, true_and, ↓reduceIte]
    · simp [h]

theorem QReg.new_eq_withState (n : Nat) : QReg.new (R := R) n = QReg.withState n 0 := by
  simp only [QReg.new, QReg.withState, Nat.zero_and]

/-- the constructors establish the register invariant used below -/
theorem QReg.withState_wf (n s : Nat) :
    (QReg.withState (R := R) n s).psi.size = max (2 ^ (QReg.withState (R := R) n s).qNum) 8 ∧
    (QReg.withState (R := R) n s).qMask = 2 ^ (QReg.withState (R := R) n s).qNum - 1 ∧
    ∀ i, 2 ^ (QReg.withState (R := R) n s).qNum ≤ i →
      bufFn (QReg.withState (R := R) n s).psi i = 0 := by
  obtain ⟨h1, _, _, h4⟩ := QReg.withState_spec (R := R) n s
  refine ⟨h1, rfl, ?_⟩
  intro i hi
  have hq : (QReg.withState (R := R) n s).qNum = n := rfl
  rw [hq] at hi
  have hlt : s % 2 ^ n < 2 ^ n := Nat.mod_lt _ (Nat.pow_pos (by decide))
  have : ¬ i = s % 2 ^ n := by omega
  rw [h4]; simp only [this, ↓reduceIte]

/-! ## 3. resizing -/

theorem QReg.setNum_grow (r : QReg R) (n : Nat) (h : r.qNum ≤ n)
    (wf : ∀ i, 2 ^ r.qNum ≤ i → bufFn r.psi i = 0) :
    (r.setNum n).qNum = n ∧ (r.setNum n).qMask = 2 ^ n - 1 ∧
    (r.setNum n).psi.size = max (2 ^ n) 8 ∧
    ∀ i, bufFn (r.setNum n).psi i = if i < 2 ^ r.qNum then bufFn r.psi i else 0 := by
  have hn : ¬ n < r.qNum := Nat.not_lt.2 h
  have hset : r.setNum n = ⟨QReg.resizeBuf r.psi (max (2 ^ n) minBufferLen), n, 2 ^ n - 1⟩ := by
    simp [QReg.setNum, hn]
  rw [hset]
  refine ⟨rfl, rfl, ?_, ?_⟩
  · simp only [QReg.resizeBuf_size, minBufferLen]
  · intro i
    simp only [QReg.bufFn_resizeBuf]
    have hle := two_pow_le_bufLen n
    have hpow : 2 ^ r.qNum ≤ 2 ^ n := Nat.pow_le_pow_right (by decide) h
    by_cases hi : i < 2 ^ r.qNum
    · have : i < max (2 ^ n) minBufferLen := by omega
      simp only [hi, this, ↓reduceIte]
    · simp only [hi, ↓reduceIte]
      rw [wf i (by omega)]
      simp

theorem QReg.setNum_shrink (r : QReg R) (n : Nat) (h : n < r.qNum) :
    r.setNum n = QReg.new n := by
  simp only [QReg.setNum, h, decide_true, ↓reduceIte, QReg.reset, QReg.resizeBuf_size,
    QReg.new, Nat.and_zero]

end basic

/-! ## 4. sizes of the observables -/

section probs
variable {R : Type} [Add R] [Mul R] [Zero R] [One R] [Div R]

theorem QReg.getProbabilities_length (r : QReg R) :
    r.getProbabilities.length = 2 ^ r.qNum := by
  simp only [QReg.getProbabilities, List.length_map, List.length_range]

end probs

theorem lowMask_lt_word (n : Nat) (hn : n ≤ 64) : 2 ^ n - 1 < 2 ^ 64 := by
  have h1 : 2 ^ n ≤ 2 ^ 64 := Nat.pow_le_pow_right (by decide) hn
  have h2 : 0 < 2 ^ n := Nat.pow_pos (by decide)
  omega

theorem QReg.getVReg_length {R : Type} (r : QReg R) (h : r.qMask = 2 ^ r.qNum - 1)
    (hn : r.qNum ≤ 64) : r.getVReg.bits.length = r.qNum := by
  have hlt := lowMask_lt_word r.qNum hn
  simp only [QReg.getVReg, VReg.ofMask, h]
  rw [bitsIterList_eq_bitsOf _ hlt, length_bitsOf _ hlt, popcount_lowMask]

/-! ## 4b. tensor product -/

section tensor
variable {R : Type} [Add R] [Sub R] [Mul R] [Zero R]

theorem QReg.tensorProd_spec (a b : QReg R) (ha : a.qMask = 2 ^ a.qNum - 1)
    (hb : b.qMask = 2 ^ b.qNum - 1) :
    (a.tensorProd b).qNum = a.qNum + b.qNum ∧
    (a.tensorProd b).qMask = 2 ^ (a.qNum + b.qNum) - 1 ∧
    (a.tensorProd b).psi.size = max (2 ^ (a.qNum + b.qNum)) 8 ∧
    ∀ i, bufFn (a.tensorProd b).psi i =
      if i < 2 ^ (a.qNum + b.qNum) then bufFn a.psi (i % 2 ^ a.qNum) * bufFn b.psi (i / 2 ^ a.qNum)
      else 0 := by
  refine ⟨rfl, rfl, ?_, ?_⟩
  · simp only [QReg.tensorProd, Array.size_ofFn, minBufferLen]
  · intro i
    simp only [QReg.tensorProd, bufFn_ofFn, ha, hb, and_lowMask, Nat.shiftRight_eq_div_pow,
      getD_eq_bufFn]
    have hle := two_pow_le_bufLen (a.qNum + b.qNum)
    by_cases hi : i < 2 ^ (a.qNum + b.qNum)
    · have hlt : i < max (2 ^ (a.qNum + b.qNum)) minBufferLen := by omega
      have hdiv : i / 2 ^ a.qNum < 2 ^ b.qNum := by
        apply Nat.div_lt_of_lt_mul
        rw [← Nat.pow_add]; exact hi
      simp only [hlt, hi, ↓reduceDIte, ↓reduceIte, Nat.mod_eq_of_lt hdiv]
    · by_cases hlt : i < max (2 ^ (a.qNum + b.qNum)) minBufferLen
      · simp only [hlt, hi, ↓reduceDIte, ↓reduceIte]
      · simp only [hlt, hi, ↓reduceDIte, ↓reduceIte]

/-- the product of two registers satisfies the register invariant -/
theorem QReg.tensorProd_wf (a b : QReg R) (ha : a.qMask = 2 ^ a.qNum - 1)
    (hb : b.qMask = 2 ^ b.qNum - 1) :
    (a.tensorProd b).psi.size = max (2 ^ (a.tensorProd b).qNum) 8 ∧
    (a.tensorProd b).qMask = 2 ^ (a.tensorProd b).qNum - 1 ∧
    ∀ i, 2 ^ (a.tensorProd b).qNum ≤ i → bufFn (a.tensorProd b).psi i = 0 := by
  obtain ⟨h1, h2, h3, h4⟩ := QReg.tensorProd_spec a b ha hb
  rw [h1]
  refine ⟨h3, h2, ?_⟩
  intro i hi
  have : ¬ i < 2 ^ (a.qNum + b.qNum) := by omega
  rw [h4]; simp only [this, ↓reduceIte]

end tensor

section neutral
variable {R : Type} [CommRing R]

theorem Cx.one_mul' (z : Cx R) : (1 : Cx R) * z = z := by
  ext <;> simp

theorem Cx.mul_one' (z : Cx R) : z * (1 : Cx R) = z := by
  ext <;> simp

theorem QReg.bufFn_new_zero : bufFn (QReg.new (R := R) 0).psi 0 = 1 := by
  simp [QReg.new, QReg.bufFn_basisBuf, minBufferLen]

theorem QReg.tensorProd_new_left (a : QReg R)
    (wf : a.psi.size = max (2 ^ a.qNum) 8 ∧ a.qMask = 2 ^ a.qNum - 1 ∧
      ∀ i, 2 ^ a.qNum ≤ i → bufFn a.psi i = 0) :
    ((QReg.new 0).tensorProd a).psi = a.psi ∧ ((QReg.new 0).tensorProd a).qNum = a.qNum ∧
      ((QReg.new 0).tensorProd a).qMask = a.qMask := by
  obtain ⟨hsz, hm, hout⟩ := wf
  obtain ⟨h1, h2, h3, h4⟩ := QReg.tensorProd_spec (QReg.new (R := R) 0) a rfl hm
  have hq : (QReg.new (R := R) 0).qNum = 0 := rfl
  rw [hq, Nat.zero_add] at h1 h2 h3 h4
  refine ⟨?_, h1, by rw [h2, hm]⟩
  apply array_ext_bufFn _ _ (by rw [h3, hsz])
  intro i _
  rw [h4]
  by_cases hi : i < 2 ^ a.qNum
  · simp only [hi, ↓reduceIte, Nat.pow_zero, Nat.mod_one, Nat.div_one, QReg.bufFn_new_zero,
      Cx.one_mul']
  · simp only [hi, ↓reduceIte]
    exact (hout i (by omega)).symm

theorem QReg.tensorProd_new_right (a : QReg R)
    (wf : a.psi.size = max (2 ^ a.qNum) 8 ∧ a.qMask = 2 ^ a.qNum - 1 ∧
      ∀ i, 2 ^ a.qNum ≤ i → bufFn a.psi i = 0) :
    (a.tensorProd (QReg.new 0)).psi = a.psi ∧ (a.tensorProd (QReg.new 0)).qNum = a.qNum ∧
      (a.tensorProd (QReg.new 0)).qMask = a.qMask := by
  obtain ⟨hsz, hm, hout⟩ := wf
  obtain ⟨h1, h2, h3, h4⟩ := QReg.tensorProd_spec a (QReg.new (R := R) 0) hm rfl
  have hq : (QReg.new (R := R) 0).qNum = 0 := rfl
  rw [hq, Nat.add_zero] at h1 h2 h3 h4
  refine ⟨?_, h1, by rw [h2, hm]⟩
  apply array_ext_bufFn _ _ (by rw [h3, hsz])
  intro i _
  rw [h4]
  by_cases hi : i < 2 ^ a.qNum
  · simp only [hi, ↓reduceIte, Nat.mod_eq_of_lt hi, Nat.div_eq_of_lt hi, QReg.bufFn_new_zero,
      Cx.mul_one']
  · simp only [hi, ↓reduceIte]
    exact (hout i (by omega)).symm

end neutral

/-! ## 4c. classical registers -/

theorem CReg.maskOf_of_le (n : Nat) (h : n ≤ 64) : CReg.maskOf n = 2 ^ n - 1 := by
  unfold CReg.maskOf W
  by_cases h64 : n ≥ 64
  · have : n = 64 := by omega
    subst this; simp
  · simp [h64]

theorem CReg.tensorProd_spec (a b : CReg) (ha : a.value < 2 ^ a.qNum) (hb : b.value < 2 ^ b.qNum)
    (hn : a.qNum + b.qNum ≤ 64) :
    (a.tensorProd b).qNum = a.qNum + b.qNum ∧
    (a.tensorProd b).qMask = 2 ^ (a.qNum + b.qNum) - 1 ∧
    (a.tensorProd b).value = a.value + b.value * 2 ^ a.qNum ∧
    (a.tensorProd b).value < 2 ^ (a.qNum + b.qNum) := by
  have hlt : a.value + b.value * 2 ^ a.qNum < 2 ^ (a.qNum + b.qNum) := by
    rw [Nat.pow_add]
    have : (b.value + 1) * 2 ^ a.qNum ≤ 2 ^ b.qNum * 2 ^ a.qNum :=
      Nat.mul_le_mul_right _ hb
    rw [Nat.succ_mul] at this
    rw [Nat.mul_comm (2 ^ a.qNum)]
    omega
  have hw : 2 ^ (a.qNum + b.qNum) ≤ 2 ^ 64 := Nat.pow_le_pow_right (by decide) hn
  have hval : (a.tensorProd b).value = a.value + b.value * 2 ^ a.qNum := by
    simp only [CReg.tensorProd, CReg.withState, CReg.maskOf_of_le _ hn, and_lowMask,
      Nat.shiftLeft_eq, W]
    have hb64 : b.value * 2 ^ a.qNum < 2 ^ 64 := by omega
    rw [Nat.mod_eq_of_lt hb64, Nat.or_comm, Nat.mul_comm, ← Nat.two_pow_add_eq_or_of_lt ha,
      Nat.mod_eq_of_lt (by rw [Nat.mul_comm]; omega)]
    rw [Nat.mul_comm]; omega
  refine ⟨rfl, ?_, hval, by rw [hval]; exact hlt⟩
  simp only [CReg.tensorProd, CReg.withState, CReg.maskOf_of_le _ hn]

theorem CReg.tensorProd_new_left (c : CReg)
    (wf : c.qNum ≤ 64 ∧ c.qMask = 2 ^ c.qNum - 1 ∧ c.value < 2 ^ c.qNum) :
    (CReg.new 0).tensorProd c = c := by
  obtain ⟨hn, hm, hv⟩ := wf
  have h0 : (CReg.new 0).value = 0 := by simp [CReg.new, CReg.withState]
  have hq : (CReg.new 0).qNum = 0 := rfl
  obtain ⟨h1, h2, h3, _⟩ := CReg.tensorProd_spec (CReg.new 0) c (by rw [h0, hq]; decide) hv
    (by rw [hq]; omega)
  rw [hq, Nat.zero_add] at h1 h2
  rw [h0, hq, Nat.pow_zero, Nat.mul_one, Nat.zero_add] at h3
  cases c
  cases h : (CReg.new 0).tensorProd _
  simp_all

theorem CReg.tensorProd_new_right (c : CReg)
    (wf : c.qNum ≤ 64 ∧ c.qMask = 2 ^ c.qNum - 1 ∧ c.value < 2 ^ c.qNum) :
    c.tensorProd (CReg.new 0) = c := by
  obtain ⟨hn, hm, hv⟩ := wf
  have h0 : (CReg.new 0).value = 0 := by simp [CReg.new, CReg.withState]
  have hq : (CReg.new 0).qNum = 0 := rfl
  obtain ⟨h1, h2, h3, _⟩ := CReg.tensorProd_spec c (CReg.new 0) hv (by rw [h0, hq]; decide)
    (by rw [hq]; omega)
  rw [hq, Nat.add_zero] at h1 h2
  rw [h0, Nat.zero_mul, Nat.add_zero] at h3
  cases c
  cases h : CReg.tensorProd _ (CReg.new 0)
  simp_all

/-! ## 5. stage 2 of `sample_all` -/

theorem list_sum_set_succ (n : List Nat) (i v : Nat) (h : n[i]? = some (v + 1)) :
    (n.set i v).sum + 1 = n.sum := by
  induction n generalizing i with
  | nil => simp at h
  | cons x xs ih =>
    cases i with
    | zero =>
      simp only [List.getElem?_cons_zero, Option.some.injEq] at h
      subst h
      simp only [List.set_cons_zero, List.sum_cons]; omega
    | succ i =>
      simp only [List.getElem?_cons_succ] at h
      have := ih i h
      simp only [List.set_cons_succ, List.sum_cons]; omega

theorem exists_pos_of_sum_pos (n : List Nat) (h : 0 < n.sum) : ∃ j v : Nat, n[j]? = some (v + 1) := by
  induction n with
  | nil => simp at h
  | cons x xs ih =>
    cases x with
    | zero =>
      simp only [List.sum_cons, Nat.zero_add] at h
      obtain ⟨j, v, hj⟩ := ih h
      exact ⟨j + 1, v, by simpa using hj⟩
    | succ x => exact ⟨0, x, rfl⟩

theorem QReg.removeSurplus_zero (qMask fuel idx : Nat) (n : List Nat) :
    QReg.removeSurplus qMask fuel idx 0 n = some n := by
  rw [QReg.removeSurplus]

/-- what a successful surplus walk guarantees -/
def SurplusPost (n : List Nat) (surplus : Nat) (out : List Nat) : Prop :=
  out.length = n.length ∧ out.sum + surplus = n.sum ∧ ∀ i : Nat, n[i]? = some 0 → out[i]? = some 0

/-- walking from `idx`, a non-empty cell at distance `d` is reached with `d + 1` units of fuel;
the rest of the walk is the walk for `surplus - 1`. -/
theorem QReg.removeSurplus_walk (k s : Nat)
    (ih : ∀ (n : List Nat) (idx fuel : Nat), n.length = 2 ^ k → s ≤ n.sum → s * 2 ^ k ≤ fuel →
      ∃ out, QReg.removeSurplus (2 ^ k - 1) fuel idx s n = some out ∧ SurplusPost n s out)
    (n : List Nat) (hl : n.length = 2 ^ k) (hs : s + 1 ≤ n.sum) :
    ∀ (d idx fuel : Nat), (∃ v, n[(idx + d) % 2 ^ k]? = some (v + 1)) →
      d + 1 + s * 2 ^ k ≤ fuel →
      ∃ out, QReg.removeSurplus (2 ^ k - 1) fuel idx (s + 1) n = some out ∧
        SurplusPost n (s + 1) out := by
  intro d
  induction d with
  | zero =>
    intro idx fuel hv hf
    obtain ⟨v, hv⟩ := hv
    obtain ⟨f, rfl⟩ : ∃ f, fuel = f + 1 := ⟨fuel - 1, by omega⟩
    rw [QReg.removeSurplus, and_lowMask]
    rw [Nat.add_zero] at hv
    simp only [hv]
    have hsum := list_sum_set_succ n _ v hv
    obtain ⟨out, ho, h1, h2, h3⟩ := ih (n.set (idx % 2 ^ k) v) (idx + 1) f
      (by simp [hl]) (by omega) (by omega)
    refine ⟨out, ho, ?_, by omega, ?_⟩
    · simpa using h1
    · intro i hi
      apply h3
      rw [List.getElem?_set]
      by_cases hc : idx % 2 ^ k = i
      · subst hc; rw [hv] at hi; simp at hi
      · simp [hc, hi]
  | succ d ihd =>
    intro idx fuel hv hf
    obtain ⟨f, rfl⟩ : ∃ f, fuel = f + 1 := ⟨fuel - 1, by omega⟩
    have hlt : idx % 2 ^ k < n.length := by rw [hl]; exact Nat.mod_lt _ (Nat.pow_pos (by decide))
    rw [QReg.removeSurplus, and_lowMask]
    rw [List.getElem?_eq_getElem hlt]
    cases hc : n[idx % 2 ^ k] with
    | zero =>
      simp only
      apply ihd (idx + 1) f
      · have : idx + 1 + d = idx + (d + 1) := by omega
        rw [this]; exact hv
      · omega
    | succ v =>
      simp only
      have hv' : n[idx % 2 ^ k]? = some (v + 1) := by rw [List.getElem?_eq_getElem hlt, hc]
      have hsum := list_sum_set_succ n _ v hv'
      obtain ⟨out, ho, h1, h2, h3⟩ := ih (n.set (idx % 2 ^ k) v) (idx + 1) f
        (by simp [hl]) (by omega) (by omega)
      refine ⟨out, ho, ?_, by omega, ?_⟩
      · simpa using h1
      · intro i hi
        apply h3
        rw [List.getElem?_set]
        by_cases hc' : idx % 2 ^ k = i
        · subst hc'; rw [hv'] at hi; simp at hi
        · simp [hc', hi]

/-- the surplus walk succeeds as soon as the cells hold `surplus` shots and the fuel covers
`surplus` full cycles; it removes exactly `surplus` shots and never touches an empty cell. -/
theorem QReg.removeSurplus_spec (k : Nat) :
    ∀ (s : Nat) (n : List Nat) (idx fuel : Nat), n.length = 2 ^ k → s ≤ n.sum →
      s * 2 ^ k ≤ fuel →
      ∃ out, QReg.removeSurplus (2 ^ k - 1) fuel idx s n = some out ∧ SurplusPost n s out := by
  intro s
  induction s with
  | zero =>
    intro n idx fuel _ _ _
    exact ⟨n, QReg.removeSurplus_zero _ _ _ _, rfl, by omega, fun i hi => hi⟩
  | succ s ih =>
    intro n idx fuel hl hs hf
    obtain ⟨j, v, hj⟩ := exists_pos_of_sum_pos n (by omega)
    have hpos : 0 < 2 ^ k := Nat.pow_pos (by decide)
    have hjl : j < 2 ^ k := by
      rw [← hl]
      exact (List.getElem?_eq_some_iff.1 hj).1
    have hr : idx % 2 ^ k < 2 ^ k := Nat.mod_lt _ hpos
    -- distance from `idx` to `j`, cyclically
    have hd : (idx + (j + 2 ^ k - idx % 2 ^ k) % 2 ^ k) % 2 ^ k = j := by
      have h2 : idx + (j + 2 ^ k - idx % 2 ^ k) = j + 2 ^ k * (idx / 2 ^ k + 1) := by
        have := Nat.mod_add_div idx (2 ^ k)
        rw [Nat.mul_add, Nat.mul_one]; omega
      rw [Nat.add_mod_mod, h2, Nat.add_mul_mod_self_left, Nat.mod_eq_of_lt hjl]
    have hdl : (j + 2 ^ k - idx % 2 ^ k) % 2 ^ k < 2 ^ k := Nat.mod_lt _ hpos
    apply QReg.removeSurplus_walk k s ih n hl hs ((j + 2 ^ k - idx % 2 ^ k) % 2 ^ k) idx fuel
    · exact ⟨v, by rw [hd]; exact hj⟩
    · rw [Nat.succ_mul] at hf; omega

/-! ### the deficit branch -/

theorem QReg.addDeficit_go_length (each extra : Nat) (n : List Nat) (pos : List Bool) (c : Nat) :
    (QReg.addDeficit.go each extra n pos c).length = n.length := by
  induction n generalizing pos c with
  | nil => cases pos <;> simp [QReg.addDeficit.go]
  | cons x xs ih =>
    cases pos with
    | nil => simp [QReg.addDeficit.go]
    | cons b ps => cases b <;> simp [QReg.addDeficit.go, ih]

theorem QReg.addDeficit_go_sum (each extra : Nat) (n : List Nat) (pos : List Bool) (c : Nat)
    (hl : n.length = pos.length) :
    (QReg.addDeficit.go each extra n pos c).sum + min c extra
      = n.sum + each * (pos.filter id).length + min (c + (pos.filter id).length) extra := by
  induction n generalizing pos c with
  | nil =>
    cases pos with
    | nil => simp [QReg.addDeficit.go]
    | cons b ps => simp at hl
  | cons x xs ih =>
    cases pos with
    | nil => simp at hl
    | cons b ps =>
      have hl' : xs.length = ps.length := by simpa using hl
      cases b with
      | false =>
        have := ih ps c hl'
        simp only [QReg.addDeficit.go, List.sum_cons, List.filter_cons, id, Bool.false_eq_true,
          ↓reduceIte]
        omega
      | true =>
        have := ih ps (c + 1) hl'
        simp only [QReg.addDeficit.go, List.sum_cons, List.filter_cons, id, ↓reduceIte,
          List.length_cons, Nat.mul_succ]
        by_cases hc : c < extra
        · simp only [hc, ↓reduceIte]; omega
        · simp only [hc, ↓reduceIte]; omega

theorem QReg.addDeficit_go_false (each extra : Nat) (n : List Nat) (pos : List Bool) (c i : Nat)
    (h : pos[i]? = some false) : (QReg.addDeficit.go each extra n pos c)[i]? = n[i]? := by
  induction n generalizing pos c i with
  | nil => cases pos <;> simp [QReg.addDeficit.go]
  | cons x xs ih =>
    cases pos with
    | nil => simp at h
    | cons b ps =>
      cases i with
      | zero =>
        simp only [List.getElem?_cons_zero, Option.some.injEq] at h
        subst h
        simp [QReg.addDeficit.go]
      | succ i =>
        simp only [List.getElem?_cons_succ] at h
        cases b <;> simp [QReg.addDeficit.go, ih _ _ _ h]

theorem QReg.addDeficit_length (n : List Nat) (pos : List Bool) (deficit : Nat) :
    (QReg.addDeficit n pos deficit).length = n.length := by
  simp only [QReg.addDeficit, QReg.addDeficit_go_length]

theorem QReg.addDeficit_false (n : List Nat) (pos : List Bool) (deficit i : Nat)
    (h : pos[i]? = some false) : (QReg.addDeficit n pos deficit)[i]? = n[i]? := by
  simp only [QReg.addDeficit, QReg.addDeficit_go_false _ _ _ _ _ _ h]

theorem filter_id_length_pos (pos : List Bool) (i : Nat) (h : pos[i]? = some true) :
    0 < (pos.filter id).length := by
  apply List.length_pos_of_mem (a := true)
  rw [List.mem_filter]
  exact ⟨List.mem_of_getElem? h, rfl⟩

/-- the missing shots are all handed out as soon as one cell may receive them -/
theorem QReg.addDeficit_sum (n : List Nat) (pos : List Bool) (deficit : Nat)
    (hl : n.length = pos.length) (hsupp : 0 < deficit → ∃ i : Nat, pos[i]? = some true) :
    (QReg.addDeficit n pos deficit).sum = n.sum + deficit := by
  have hgo := QReg.addDeficit_go_sum (deficit / max (pos.filter id).length 1)
    (deficit % max (pos.filter id).length 1) n pos 0 hl
  simp only [QReg.addDeficit]
  rw [Nat.zero_min, Nat.add_zero, Nat.zero_add] at hgo
  rw [hgo]
  by_cases hd : 0 < deficit
  · obtain ⟨i, hi⟩ := hsupp hd
    have hT := filter_id_length_pos pos i hi
    have hmax : max (pos.filter id).length 1 = (pos.filter id).length := by omega
    rw [hmax]
    have hlt : deficit % (pos.filter id).length < (pos.filter id).length := Nat.mod_lt _ hT
    have hdm := Nat.div_add_mod deficit (pos.filter id).length
    rw [Nat.mul_comm] at hdm
    have hmin : min (pos.filter id).length (deficit % (pos.filter id).length)
        = deficit % (pos.filter id).length := by omega
    rw [hmin]; omega
  · have hd0 : deficit = 0 := by omega
    subst hd0
    simp

/-! ### `sampleFix` -/

theorem QReg.sampleFix_spec (k : Nat) (n0 : List Nat) (pos : List Bool) (hl : n0.length = 2 ^ k)
    (hp : pos.length = 2 ^ k) (count : Nat) :
    ∃ hist, QReg.sampleFix (2 ^ k - 1) n0 pos count = some hist ∧ hist.length = 2 ^ k ∧
      ((n0.sum < count → ∃ i : Nat, pos[i]? = some true) → hist.sum = count) ∧
      (∀ i : Nat, pos[i]? = some false → n0[i]? = some 0 → hist[i]? = some 0) := by
  simp only [QReg.sampleFix]
  by_cases h1 : n0.sum < count
  · rw [if_pos h1]
    refine ⟨_, rfl, by rw [QReg.addDeficit_length, hl], ?_, ?_⟩
    · intro hsupp
      rw [QReg.addDeficit_sum n0 pos _ (by rw [hl, hp]) (fun _ => hsupp h1)]; omega
    · intro i hi hn
      rw [QReg.addDeficit_false _ _ _ _ hi, hn]
  · by_cases h2 : n0.sum > count
    · rw [if_neg h1, if_pos h2]
      obtain ⟨out, ho, ho1, ho2, ho3⟩ := QReg.removeSurplus_spec k (n0.sum - count) n0 0
        ((n0.sum - count) * (n0.length + 1) + n0.length + 1) hl (by omega)
        (by rw [hl, Nat.mul_succ]; omega)
      exact ⟨out, ho, by rw [ho1, hl], fun _ => by omega, fun i _ hn => ho3 i hn⟩
    · rw [if_neg h1, if_neg h2]
      exact ⟨n0, rfl, hl, fun _ => by omega, fun i _ hn => hn⟩

/-! ## 6. `sample_all` -/

section proposal
variable {R : Type} [Add R] [Sub R] [Mul R] [Zero R] [HasSqrt R] [QReg.HasRound R]

theorem QReg.sampleProposal_length (p : List R) (count : Nat) (g : List R)
    (hg : p.length ≤ g.length) : (QReg.sampleProposal p count g).length = p.length := by
  simp only [QReg.sampleProposal, List.length_map, List.length_zip]
  omega

/-- the proposal of a cell whose reported probability is exactly `0` is whatever the rounding
of `c·0 + √c·(√0·g − s·0)` gives, clamped at 0 -/
theorem QReg.sampleProposal_zero (p : List R) (count : Nat) (g : List R)
    (hg : p.length ≤ g.length)
    (hround : ∀ c cs s x : R,
      QReg.HasRound.roundInt (c * 0 + cs * (HasSqrt.sqrt 0 * x - s * 0)) ≤ 0)
    (i : Nat) (hi : p[i]? = some 0) : (QReg.sampleProposal p count g)[i]? = some 0 := by
  have hil : i < p.length := (List.getElem?_eq_some_iff.1 hi).1
  have hig : i < g.length := by omega
  have hgi : g[i]? = some g[i] := List.getElem?_eq_getElem hig
  have hz : (p.zip g)[i]? = some (0, g[i]) := List.getElem?_zip_eq_some.2 ⟨hi, hgi⟩
  simp only [QReg.sampleProposal, List.getElem?_map]
  have hn : ((p.zip g).map (fun pg => HasSqrt.sqrt pg.1 * pg.2))[i]?
      = some (HasSqrt.sqrt 0 * g[i]) := by
    rw [List.getElem?_map, hz]; rfl
  rw [List.getElem?_zip_eq_some (z := (0, HasSqrt.sqrt 0 * g[i])) |>.2 ⟨hi, hn⟩]
  simp only [Option.map_some, Option.some.injEq]
  have := hround (QReg.HasRound.ofNat count) (HasSqrt.sqrt (QReg.HasRound.ofNat count))
    (((p.zip g).map (fun pg => HasSqrt.sqrt pg.1 * pg.2)).foldl (· + ·) 0) g[i]
  omega

end proposal

section sampleAll
variable {R : Type} [Add R] [Sub R] [Mul R] [Zero R] [One R] [Div R] [HasSqrt R]
  [QReg.HasRound R] [LT R] [DecidableLT R]

theorem QReg.sampleAll_spec (r : QReg R) (count : Nat) (g : List R)
    (hq : r.qMask = 2 ^ r.qNum - 1) (hg : g.length ≥ 2 ^ r.qNum) :
    ∃ hist, r.sampleAll count g = some hist ∧ hist.length = 2 ^ r.qNum ∧
      ((∃ x ∈ r.getProbabilities, 0 < x) → hist.sum = count) ∧
      (∀ i : Nat, (∃ x, r.getProbabilities[i]? = some x ∧ ¬ 0 < x) →
        (QReg.sampleProposal r.getProbabilities count g)[i]? = some 0 → hist[i]? = some 0) := by
  have hpl := QReg.getProbabilities_length r
  have hnl := QReg.sampleProposal_length r.getProbabilities count g (by omega)
  obtain ⟨hist, h1, h2, h3, h4⟩ := QReg.sampleFix_spec r.qNum
    (QReg.sampleProposal r.getProbabilities count g)
    (r.getProbabilities.map (fun x => decide (0 < x))) (by rw [hnl, hpl])
    (by rw [List.length_map, hpl]) count
  refine ⟨hist, by simp only [QReg.sampleAll, hq, h1], h2, ?_, ?_⟩
  · rintro ⟨x, hx, hpos⟩
    apply h3
    intro _
    obtain ⟨i, hi⟩ := List.mem_iff_getElem?.1 hx
    exact ⟨i, by rw [List.getElem?_map, hi]; simp [hpos]⟩
  · rintro i ⟨x, hx, hneg⟩ hn
    apply h4 i _ hn
    rw [List.getElem?_map, hx]; simp [hneg]

end sampleAll

end Qvnt
