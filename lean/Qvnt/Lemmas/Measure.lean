/-
LEMMAS — measurement, normalisation and the norm of a register over the reals
(helpers for C05, C06, C07).

`WF r` is the register invariant of C14 (buffer length `max (2^n) 8`, `qMask = 2^n − 1`, padding
cells zero); `nrm r` is what `QReg::get_absolute` returns, the sum of the squared moduli over the
whole buffer; `Inv r` adds "the norm is 1 within the threshold of `normalize`".

`measure_mask` renormalises with `QReg.rescale` (divide by the norm; a zero vector is left alone),
not with `QReg.normalize` any more. `normalize` (reset below `1e-15`, no rescaling within `1e-9` of
1) still exists and its lemmas are kept (section 4); section 4b is about `rescale`.

A draw `d` is *possible* for the measured qubits `m'` when the collapsed vector is not zero,
`0 < nrm (r.collapseMask d m')`. This is the `WeightedIndex` contract (only indices of positive
weight are drawn): it follows from `bufFn r.psi d ≠ 0` (`nrm_collapse_pos_of_ne`).
-/
import Qvnt.Lemmas.RealInst
import Qvnt.Lemmas.Regs14
import Qvnt.Lemmas.Norm
import Qvnt.Lemmas.Structure
import Mathlib.Tactic.Ring
import Mathlib.Data.Nat.Bitwise
import Mathlib.Tactic.Linarith
import Mathlib.Tactic.Positivity
import Mathlib.Algebra.Order.BigOperators.Group.Finset
import Mathlib.Algebra.BigOperators.Ring.Finset

namespace Qvnt
open Finset

/-! ## 0. definitions -/

/-- register invariant: buffer length, mask, zero padding -/
def WF {R : Type} [Zero R] (r : QReg R) : Prop :=
  r.psi.size = max (2 ^ r.qNum) 8 ∧ r.qMask = 2 ^ r.qNum - 1 ∧
    ∀ i, 2 ^ r.qNum ≤ i → bufFn r.psi i = 0

/-- squared norm as the code computes it (`get_absolute`, whole buffer) -/
noncomputable def nrm (r : QReg ℝ) : ℝ := r.getAbsolute

/-- a valid register: well-formed, squared norm in `[(1 − 1e-9)², 1]` -/
def Inv (r : QReg ℝ) : Prop :=
  WF r ∧ (1 - RegConsts.close) ^ 2 ≤ nrm r ∧ nrm r ≤ 1

theorem nrm_def (r : QReg ℝ) : nrm r = r.getAbsolute := rfl

/-! ## 1. the fold of `get_absolute` is a finite sum -/

theorem list_foldl_add_eq_sum (f : Cx ℝ → ℝ) (l : List (Cx ℝ)) (init : ℝ) :
    l.foldl (fun acc z => acc + f z) init
      = init + ∑ i ∈ range l.length, f (l.getD i 0) := by
  induction l generalizing init with
  | nil => simp
  | cons x xs ih =>
    rw [List.foldl_cons, ih, List.length_cons, sum_range_succ']
    simp only [List.getD_cons_succ, List.getD_cons_zero]
    ring

theorem bufFn_eq_toList_getD (a : Array (Cx ℝ)) (i : Nat) : bufFn a i = a.toList.getD i 0 := by
  simp only [bufFn, Array.getD, List.getD]
  split <;> simp [*]

theorem nrm_eq_sum (r : QReg ℝ) :
    nrm r = ∑ i ∈ range r.psi.size, (bufFn r.psi i).normSq := by
  unfold nrm QReg.getAbsolute
  rw [← Array.foldl_toList, list_foldl_add_eq_sum, zero_add, Array.length_toList]
  exact sum_congr rfl (fun i _ => by rw [bufFn_eq_toList_getD])

theorem normSq_nonneg (z : Cx ℝ) : 0 ≤ z.normSq := by
  exact add_nonneg (mul_self_nonneg _) (mul_self_nonneg _)

theorem normSq_zero : (0 : Cx ℝ).normSq = 0 := by simp [Cx.normSq]

theorem normSq_one : (1 : Cx ℝ).normSq = 1 := by simp [Cx.normSq]

theorem normSq_eq_zero_iff (z : Cx ℝ) : z.normSq = 0 ↔ z = 0 := by
  constructor
  · intro h
    unfold Cx.normSq at h
    have h1 : z.re * z.re = 0 := by nlinarith [mul_self_nonneg z.re, mul_self_nonneg z.im]
    have h2 : z.im * z.im = 0 := by nlinarith [mul_self_nonneg z.re, mul_self_nonneg z.im]
    apply Cx.ext'
    · simpa using h1
    · simpa using h2
  · rintro rfl; exact normSq_zero

theorem nrm_nonneg (r : QReg ℝ) : 0 ≤ nrm r := by
  rw [nrm_eq_sum]; exact sum_nonneg (fun i _ => normSq_nonneg _)

/-- under the invariant only the first `2^n` cells contribute -/
theorem nrm_eq_range (r : QReg ℝ) (hwf : WF r) :
    nrm r = ∑ i ∈ range (2 ^ r.qNum), (bufFn r.psi i).normSq := by
  rw [nrm_eq_sum]
  symm
  apply sum_subset
  · intro i hi
    rw [mem_range] at hi ⊢
    rw [hwf.1]; omega
  · intro i _ hi
    rw [mem_range, not_lt] at hi
    rw [hwf.2.2 i hi, normSq_zero]

theorem nrm_eq_normSqSum (r : QReg ℝ) (hwf : WF r) :
    nrm r = Spec.normSqSum r.qNum (bufFn r.psi) := by
  rw [nrm_eq_range r hwf, Spec.normSqSum_eq_sum]

/-- two buffers of the same length with the same squared moduli have the same norm -/
theorem nrm_congr (r s : QReg ℝ) (hs : r.psi.size = s.psi.size)
    (h : ∀ i, (bufFn r.psi i).normSq = (bufFn s.psi i).normSq) : nrm r = nrm s := by
  rw [nrm_eq_sum, nrm_eq_sum, hs]
  exact sum_congr rfl (fun i _ => h i)

/-! ## 2. read views of the register operations -/

theorem cx_scale_zero (t : ℝ) : (0 : Cx ℝ).scale t = 0 := by
  apply Cx.ext' <;> simp

theorem cx_scale_one (z : Cx ℝ) : z.scale 1 = z := by
  apply Cx.ext' <;> simp

theorem normSq_scale (z : Cx ℝ) (t : ℝ) : (z.scale t).normSq = t ^ 2 * z.normSq := by
  simp only [Cx.normSq, Cx.scale_re, Cx.scale_im]; ring

theorem bufFn_map_scale (a : Array (Cx ℝ)) (t : ℝ) (i : Nat) :
    bufFn (a.map (fun v => v.scale t)) i = (bufFn a i).scale t := by
  simp only [bufFn, Array.getD, Array.size_map]
  split
  · simp
  · exact (cx_scale_zero t).symm

theorem nrm_scale (r : QReg ℝ) (t : ℝ) :
    nrm ({ r with psi := r.psi.map (fun v => v.scale t) } : QReg ℝ) = t ^ 2 * nrm r := by
  rw [nrm_eq_sum, nrm_eq_sum, mul_sum]
  simp only [Array.size_map, bufFn_map_scale, normSq_scale]

/-- a positive multiple of a non-zero amplitude is non-zero -/
theorem cx_scale_ne_zero (z : Cx ℝ) (t : ℝ) (ht : 0 < t) (hz : z ≠ 0) : z.scale t ≠ 0 := by
  intro h
  have h1 : (z.scale t).normSq = 0 := by rw [h, normSq_zero]
  rw [normSq_scale] at h1
  rcases mul_eq_zero.1 h1 with h2 | h2
  · exact absurd h2 (ne_of_gt (by positivity))
  · exact hz ((normSq_eq_zero_iff z).1 h2)

/-- a register of squared norm zero is the zero vector -/
theorem bufFn_of_nrm_zero (r : QReg ℝ) (h : nrm r = 0) (i : Nat) : bufFn r.psi i = 0 := by
  by_cases hi : i < r.psi.size
  · rw [nrm_eq_sum] at h
    have := (sum_eq_zero_iff_of_nonneg (fun j _ => normSq_nonneg (bufFn r.psi j))).1 h i
      (mem_range.2 hi)
    exact (normSq_eq_zero_iff _).1 this
  · exact bufFn_of_size_le r.psi i (Nat.le_of_not_lt hi)

theorem collapse_size (r : QReg ℝ) (d m : Nat) : (r.collapseMask d m).psi.size = r.psi.size := by
  simp only [QReg.collapseMask, Array.size_ofFn]

theorem bufFn_collapse (r : QReg ℝ) (d m i : Nat) :
    bufFn (r.collapseMask d m).psi i = if (i ^^^ d) &&& m ≠ 0 then 0 else bufFn r.psi i := by
  simp only [QReg.collapseMask, bufFn_ofFn, getD_eq_bufFn]
  by_cases h : i < r.psi.size
  · simp only [h, ↓reduceDIte]
  · simp only [h, ↓reduceDIte]
    rw [bufFn_of_size_le r.psi i (Nat.le_of_not_lt h)]
    simp

theorem collapse_wf (r : QReg ℝ) (d m : Nat) (hwf : WF r) : WF (r.collapseMask d m) := by
  refine ⟨by rw [collapse_size]; exact hwf.1, hwf.2.1, ?_⟩
  intro i hi
  rw [bufFn_collapse]
  split
  · rfl
  · exact hwf.2.2 i hi

theorem nrm_collapse_le (r : QReg ℝ) (d m : Nat) : nrm (r.collapseMask d m) ≤ nrm r := by
  rw [nrm_eq_sum, nrm_eq_sum, collapse_size]
  apply sum_le_sum
  intro i _
  rw [bufFn_collapse]
  split
  · rw [normSq_zero]; exact normSq_nonneg _
  · exact le_refl _

/-! ## 3. basis buffers -/

theorem nrm_basis (len s qn qm : Nat) (hs : s < len) :
    nrm (⟨QReg.basisBuf len s, qn, qm⟩ : QReg ℝ) = 1 := by
  rw [nrm_eq_sum]
  simp only [QReg.basisBuf_size, QReg.bufFn_basisBuf]
  have : ∀ i ∈ range len, (if i < len ∧ i = s then (1 : Cx ℝ) else 0).normSq
      = if i = s then (1 : ℝ) else 0 := by
    intro i hi
    rw [mem_range] at hi
    by_cases h : i = s
    · simp [h, hs, normSq_one]
    · simp [h, normSq_zero]
  rw [sum_congr rfl this, sum_ite_eq' (range len) s (fun _ => (1 : ℝ))]
  simp [hs]

theorem reset_wf (r : QReg ℝ) (hwf : WF r) (i : Nat) : WF (r.reset i) := by
  obtain ⟨h1, h2, h3⟩ := hwf
  refine ⟨?_, h2, ?_⟩
  · simp only [QReg.reset, QReg.basisBuf_size]; exact h1
  · intro j hj
    simp only [QReg.reset, QReg.bufFn_basisBuf]
    have hq : (r.reset i).qNum = r.qNum := rfl
    rw [hq] at hj
    have hpos : 0 < 2 ^ r.qNum := Nat.pow_pos (by decide)
    have : r.qMask &&& i ≤ r.qMask := Nat.and_le_left
    have : ¬ j = r.qMask &&& i := by omega
    simp [this]

theorem nrm_reset (r : QReg ℝ) (hwf : WF r) (i : Nat) : nrm (r.reset i) = 1 := by
  obtain ⟨h1, h2, _⟩ := hwf
  apply nrm_basis
  have hpos : 0 < 2 ^ r.qNum := Nat.pow_pos (by decide)
  have : r.qMask &&& i ≤ r.qMask := Nat.and_le_left
  rw [h1]; omega

/-! ## 4. `normalize` -/

/-- the three branches of `normalize` -/
theorem normalize_cases (r : QReg ℝ) :
    (Real.sqrt (nrm r) ≤ RegConsts.tiny ∧ r.normalize = r.reset 0) ∨
    (RegConsts.tiny < Real.sqrt (nrm r) ∧ 1 - Real.sqrt (nrm r) ≤ RegConsts.close ∧
      r.normalize = r) ∨
    (RegConsts.tiny < Real.sqrt (nrm r) ∧ RegConsts.close < 1 - Real.sqrt (nrm r) ∧
      r.normalize = { r with psi := r.psi.map (fun v => v.scale (1 / Real.sqrt (nrm r))) }) := by
  unfold QReg.normalize
  by_cases h1 : (HasSqrt.sqrt r.getAbsolute : ℝ) ≤ RegConsts.tiny
  · left
    refine ⟨h1, ?_⟩
    rw [if_pos h1]
  · right
    by_cases h2 : (1 : ℝ) - HasSqrt.sqrt r.getAbsolute ≤ RegConsts.close
    · left
      refine ⟨lt_of_not_ge h1, h2, ?_⟩
      rw [if_neg h1, if_pos h2]
    · right
      refine ⟨lt_of_not_ge h1, lt_of_not_ge h2, ?_⟩
      rw [if_neg h1, if_neg h2]
      rfl

theorem normalize_qNum (r : QReg ℝ) : r.normalize.qNum = r.qNum := by
  rcases normalize_cases r with ⟨_, h⟩ | ⟨_, _, h⟩ | ⟨_, _, h⟩ <;> (rw [h]; try rfl)

theorem normalize_qMask (r : QReg ℝ) : r.normalize.qMask = r.qMask := by
  rcases normalize_cases r with ⟨_, h⟩ | ⟨_, _, h⟩ | ⟨_, _, h⟩ <;> (rw [h]; try rfl)

theorem normalize_size (r : QReg ℝ) : r.normalize.psi.size = r.psi.size := by
  rcases normalize_cases r with ⟨_, h⟩ | ⟨_, _, h⟩ | ⟨_, _, h⟩ <;> rw [h]
  · simp only [QReg.reset, QReg.basisBuf_size]
  · simp only [Array.size_map]

/-- outside the degenerate branch `normalize` multiplies every amplitude by one positive
number (`1` or `1/norm`) -/
theorem normalize_nondeg (r : QReg ℝ) (h : RegConsts.tiny < Real.sqrt (nrm r)) :
    ∃ lam : ℝ, 0 < lam ∧ (lam = 1 ∨ lam = 1 / Real.sqrt (nrm r)) ∧
      ∀ i, bufFn r.normalize.psi i = (bufFn r.psi i).scale lam := by
  rcases normalize_cases r with ⟨h0, _⟩ | ⟨_, _, h1⟩ | ⟨_, _, h1⟩
  · exact absurd h (not_lt.2 h0)
  · refine ⟨1, one_pos, Or.inl rfl, fun i => ?_⟩
    rw [h1, cx_scale_one]
  · have hpos : 0 < Real.sqrt (nrm r) := lt_trans tiny_pos h
    refine ⟨1 / Real.sqrt (nrm r), by positivity, Or.inr rfl, fun i => ?_⟩
    rw [h1]
    exact bufFn_map_scale _ _ i

/-! ## 4b. `rescale` -/

/-- the two branches of `rescale`: a non-zero vector is divided by its norm, the zero vector is
left alone -/
theorem rescale_cases (r : QReg ℝ) :
    (0 < nrm r ∧
      r.rescale = { r with psi := r.psi.map (fun v => v.scale (1 / Real.sqrt (nrm r))) }) ∨
    (nrm r = 0 ∧ r.rescale = r) := by
  unfold QReg.rescale
  by_cases h : (0 : ℝ) < HasSqrt.sqrt r.getAbsolute
  · left
    refine ⟨Real.sqrt_pos.1 h, ?_⟩
    rw [if_pos h]
    rfl
  · right
    refine ⟨?_, by rw [if_neg h]⟩
    have hn : ¬ 0 < nrm r := fun hp => h (Real.sqrt_pos.2 hp)
    exact le_antisymm (not_lt.1 hn) (nrm_nonneg r)

theorem rescale_of_pos (r : QReg ℝ) (h : 0 < nrm r) :
    r.rescale = { r with psi := r.psi.map (fun v => v.scale (1 / Real.sqrt (nrm r))) } := by
  rcases rescale_cases r with ⟨_, h'⟩ | ⟨hz, _⟩
  · exact h'
  · exact absurd hz (ne_of_gt h)

theorem rescale_of_zero (r : QReg ℝ) (h : nrm r = 0) : r.rescale = r := by
  rcases rescale_cases r with ⟨hp, _⟩ | ⟨_, h'⟩
  · exact absurd h (ne_of_gt hp)
  · exact h'

theorem rescale_qNum (r : QReg ℝ) : r.rescale.qNum = r.qNum := by
  rcases rescale_cases r with ⟨_, h⟩ | ⟨_, h⟩ <;> rw [h]

theorem rescale_qMask (r : QReg ℝ) : r.rescale.qMask = r.qMask := by
  rcases rescale_cases r with ⟨_, h⟩ | ⟨_, h⟩ <;> rw [h]

theorem rescale_size (r : QReg ℝ) : r.rescale.psi.size = r.psi.size := by
  rcases rescale_cases r with ⟨_, h⟩ | ⟨_, h⟩ <;> rw [h]
  simp only [Array.size_map]

/-- `rescale` multiplies every amplitude by one positive number: `1/norm` for a non-zero vector
(for the zero vector any factor will do) -/
theorem rescale_scaled (r : QReg ℝ) :
    ∃ lam : ℝ, 0 < lam ∧ (0 < nrm r → lam = 1 / Real.sqrt (nrm r)) ∧
      ∀ i, bufFn r.rescale.psi i = (bufFn r.psi i).scale lam := by
  rcases rescale_cases r with ⟨hp, h⟩ | ⟨hz, h⟩
  · have hpos : 0 < Real.sqrt (nrm r) := Real.sqrt_pos.2 hp
    refine ⟨1 / Real.sqrt (nrm r), by positivity, fun _ => rfl, fun i => ?_⟩
    rw [h]
    exact bufFn_map_scale _ _ i
  · refine ⟨1, one_pos, fun hp => absurd hz (ne_of_gt hp), fun i => ?_⟩
    rw [h, cx_scale_one]

/-- a non-zero vector has squared norm exactly 1 after `rescale` -/
theorem nrm_rescale (r : QReg ℝ) (h : 0 < nrm r) : nrm r.rescale = 1 := by
  rw [rescale_of_pos r h, nrm_scale, div_pow, one_pow, Real.sq_sqrt (le_of_lt h)]
  exact one_div_mul_cancel (ne_of_gt h)

theorem rescale_wf (r : QReg ℝ) (hwf : WF r) : WF r.rescale := by
  rcases rescale_cases r with ⟨_, h⟩ | ⟨_, h⟩ <;> rw [h]
  · refine ⟨by simp only [Array.size_map]; exact hwf.1, hwf.2.1, fun i hi => ?_⟩
    simp only [bufFn_map_scale]
    rw [hwf.2.2 i hi, cx_scale_zero]
  · exact hwf

/-! ## 5. `measure_mask` -/

theorem xor_and_eq_zero_iff (i d m : Nat) : (i ^^^ d) &&& m = 0 ↔ i &&& m = d &&& m := by
  rw [Nat.and_xor_distrib_right, Nat.xor_eq_zero_iff]

theorem measure_of_zero (r : QReg ℝ) (mask d : Nat) (h : mask &&& r.qMask = 0) :
    r.measureMask mask d = (r, CReg.new r.qNum) := by
  simp only [QReg.measureMask, h, ↓reduceIte]

theorem measure_of_ne (r : QReg ℝ) (mask d : Nat) (h : mask &&& r.qMask ≠ 0) :
    r.measureMask mask d = ((r.collapseMask d (mask &&& r.qMask)).rescale,
      CReg.withState r.qNum (d &&& (mask &&& r.qMask))) := by
  simp only [QReg.measureMask, h, ↓reduceIte]

theorem measure_qNum (r : QReg ℝ) (mask d : Nat) : (r.measureMask mask d).1.qNum = r.qNum := by
  by_cases h : mask &&& r.qMask = 0
  · rw [measure_of_zero r mask d h]
  · rw [measure_of_ne r mask d h]; exact rescale_qNum _

theorem measure_qMask (r : QReg ℝ) (mask d : Nat) : (r.measureMask mask d).1.qMask = r.qMask := by
  by_cases h : mask &&& r.qMask = 0
  · rw [measure_of_zero r mask d h]
  · rw [measure_of_ne r mask d h]; exact rescale_qMask _

theorem measure_size (r : QReg ℝ) (mask d : Nat) :
    (r.measureMask mask d).1.psi.size = r.psi.size := by
  by_cases h : mask &&& r.qMask = 0
  · rw [measure_of_zero r mask d h]
  · rw [measure_of_ne r mask d h]
    exact (rescale_size _).trans (collapse_size _ _ _)

theorem measure_wf (r : QReg ℝ) (mask d : Nat) (hwf : WF r) : WF (r.measureMask mask d).1 := by
  by_cases hm : mask &&& r.qMask = 0
  · rw [measure_of_zero r mask d hm]; exact hwf
  · rw [measure_of_ne r mask d hm]; exact rescale_wf _ (collapse_wf r _ _ hwf)

/-- the classical result of a measurement, whatever the register -/
theorem measure_value (r : QReg ℝ) (mask d : Nat) (hq : r.qMask = 2 ^ r.qNum - 1)
    (hn : r.qNum ≤ 64) : (r.measureMask mask d).2.value = d &&& (mask &&& r.qMask) := by
  by_cases h : mask &&& r.qMask = 0
  · rw [measure_of_zero r mask d h, h]
    simp [CReg.new, CReg.withState]
  · rw [measure_of_ne r mask d h]
    simp only [CReg.withState, CReg.maskOf_of_le _ hn]
    rw [Nat.and_assoc, Nat.and_assoc, ← hq, Nat.and_self]

/-- the post-measurement state, for EVERY mask and draw: the collapsed buffer times one positive
number (no degenerate branch any more: `rescale` never resets) -/
theorem measure_scaled (r : QReg ℝ) (mask d : Nat) :
    ∃ lam : ℝ, 0 < lam ∧ ∀ i, bufFn (r.measureMask mask d).1.psi i
      = (if (i ^^^ d) &&& (mask &&& r.qMask) ≠ 0 then 0 else bufFn r.psi i).scale lam := by
  by_cases h : mask &&& r.qMask = 0
  · refine ⟨1, one_pos, fun i => ?_⟩
    rw [measure_of_zero r mask d h, h, cx_scale_one]
    simp
  · obtain ⟨lam, hlam, _, hl⟩ := rescale_scaled (r.collapseMask d (mask &&& r.qMask))
    refine ⟨lam, hlam, fun i => ?_⟩
    rw [measure_of_ne r mask d h]
    simp only
    rw [hl i, bufFn_collapse]

/-- a possible draw on a non-empty set of qubits: the factor is `1/norm` of the collapsed buffer -/
theorem measure_exact (r : QReg ℝ) (mask d : Nat) (hne : mask &&& r.qMask ≠ 0)
    (hpos : 0 < nrm (r.collapseMask d (mask &&& r.qMask))) (i : Nat) :
    bufFn (r.measureMask mask d).1.psi i
      = (if (i ^^^ d) &&& (mask &&& r.qMask) ≠ 0 then 0 else bufFn r.psi i).scale
          (1 / Real.sqrt (nrm (r.collapseMask d (mask &&& r.qMask)))) := by
  rw [measure_of_ne r mask d hne]
  simp only
  rw [rescale_of_pos _ hpos]
  simp only
  rw [bufFn_map_scale, bufFn_collapse]

/-- … and the squared norm afterwards is exactly 1 -/
theorem nrm_measure (r : QReg ℝ) (mask d : Nat) (hne : mask &&& r.qMask ≠ 0)
    (hpos : 0 < nrm (r.collapseMask d (mask &&& r.qMask))) :
    nrm (r.measureMask mask d).1 = 1 := by
  rw [measure_of_ne r mask d hne]
  exact nrm_rescale _ hpos

/-- a draw of positive probability leaves a positive collapsed norm -/
theorem nrm_collapse_pos (r : QReg ℝ) (d m : Nat) (hd : d < r.psi.size)
    (hp : 0 < (bufFn r.psi d).normSq) : 0 < nrm (r.collapseMask d m) := by
  rw [nrm_eq_sum, collapse_size]
  apply lt_of_lt_of_le hp
  have hmem : d ∈ range r.psi.size := mem_range.2 hd
  have h0 : (bufFn r.psi d).normSq = (bufFn (r.collapseMask d m).psi d).normSq := by
    rw [bufFn_collapse, Nat.xor_self, Nat.zero_and]; simp
  rw [h0]
  exact single_le_sum (f := fun i => (bufFn (r.collapseMask d m).psi i).normSq)
    (fun i _ => normSq_nonneg _) hmem

/-- the `WeightedIndex` contract in its primitive form: an index of non-zero amplitude is a
possible draw, for every set of measured qubits -/
theorem nrm_collapse_pos_of_ne (r : QReg ℝ) (d m : Nat) (hp : bufFn r.psi d ≠ 0) :
    0 < nrm (r.collapseMask d m) := by
  have hd : d < r.psi.size := by
    apply Classical.not_not.1
    intro h
    exact hp (bufFn_of_size_le r.psi d (Nat.le_of_not_lt h))
  exact nrm_collapse_pos r d m hd
    (lt_of_le_of_ne (normSq_nonneg _) (fun h => hp ((normSq_eq_zero_iff _).1 h.symm)))

/-- measuring no qubit of the register: nothing is zeroed -/
theorem nrm_collapse_zero_mask (r : QReg ℝ) (d : Nat) : nrm (r.collapseMask d 0) = nrm r := by
  apply nrm_congr _ _ (collapse_size r d 0)
  intro i
  rw [bufFn_collapse]
  simp

/-- the drawn index keeps a non-zero amplitude -/
theorem measure_drawn_ne_zero (r : QReg ℝ) (mask d : Nat) (hp : bufFn r.psi d ≠ 0) :
    bufFn (r.measureMask mask d).1.psi d ≠ 0 := by
  obtain ⟨lam, hlam, h⟩ := measure_scaled r mask d
  rw [h d, Nat.xor_self, Nat.zero_and, if_neg (fun hne => hne rfl)]
  exact cx_scale_ne_zero _ lam hlam hp

/-- an impossible draw (all amplitudes consistent with it are zero; `WeightedIndex` never
produces one): the collapsed buffer is the zero vector and `rescale` leaves it alone -/
theorem measure_impossible (r : QReg ℝ) (mask d : Nat) (hne : mask &&& r.qMask ≠ 0)
    (hzero : nrm (r.collapseMask d (mask &&& r.qMask)) = 0) :
    (r.measureMask mask d).1 = r.collapseMask d (mask &&& r.qMask) ∧
      ∀ i, bufFn (r.measureMask mask d).1.psi i = 0 := by
  have h : (r.measureMask mask d).1 = r.collapseMask d (mask &&& r.qMask) := by
    rw [measure_of_ne r mask d hne]
    exact rescale_of_zero _ hzero
  refine ⟨h, fun i => ?_⟩
  rw [h]
  exact bufFn_of_nrm_zero _ hzero i

theorem bufFn_reset_zero (r : QReg ℝ) (hs : 0 < r.psi.size) : bufFn (r.reset 0).psi 0 = 1 := by
  simp only [QReg.reset, QReg.bufFn_basisBuf, Nat.and_zero]
  simp [hs]

/-! ## 6. one-qubit registers with real amplitudes (examples and counterexamples) -/

/-- the 1-qubit register with amplitudes `(a, b)` (8-cell buffer) -/
noncomputable def qubitReg (a b : ℝ) : QReg ℝ :=
  ⟨#[⟨a, 0⟩, ⟨b, 0⟩, 0, 0, 0, 0, 0, 0], 1, 1⟩

theorem qubitReg_bufFn (a b : ℝ) (i : Nat) : bufFn (qubitReg a b).psi i =
    if i = 0 then ⟨a, 0⟩ else if i = 1 then ⟨b, 0⟩ else 0 := by
  unfold qubitReg bufFn
  match i with
  | 0 => rfl
  | 1 => rfl
  | 2 => rfl
  | 3 => rfl
  | 4 => rfl
  | 5 => rfl
  | 6 => rfl
  | 7 => rfl
  | n + 8 => simp [Array.getD]

theorem qubitReg_wf (a b : ℝ) : WF (qubitReg a b) := by
  refine ⟨rfl, rfl, ?_⟩
  intro i hi
  rw [qubitReg_bufFn]
  have : 2 ≤ i := hi
  have h0 : ¬ i = 0 := by omega
  have h1 : ¬ i = 1 := by omega
  simp [h0, h1]

theorem qubitReg_nrm (a b : ℝ) : nrm (qubitReg a b) = a ^ 2 + b ^ 2 := by
  rw [nrm_eq_range _ (qubitReg_wf a b)]
  show ∑ i ∈ range 2, _ = _
  simp only [sum_range_succ, sum_range_zero, qubitReg_bufFn, Cx.normSq]
  simp
  ring

/-- collapsing on "the qubit reads 1" keeps `b` only -/
theorem qubitReg_nrm_collapse_one (a b : ℝ) : nrm ((qubitReg a b).collapseMask 1 1) = b ^ 2 := by
  rw [nrm_eq_range _ (collapse_wf _ _ _ (qubitReg_wf a b))]
  show ∑ i ∈ range 2, _ = _
  simp only [sum_range_succ, sum_range_zero, bufFn_collapse, qubitReg_bufFn, Cx.normSq]
  simp
  ring

/-- collapsing on "the qubit reads 0" keeps `a` only -/
theorem qubitReg_nrm_collapse_zero (a b : ℝ) : nrm ((qubitReg a b).collapseMask 0 1) = a ^ 2 := by
  rw [nrm_eq_range _ (collapse_wf _ _ _ (qubitReg_wf a b))]
  show ∑ i ∈ range 2, _ = _
  simp only [sum_range_succ, sum_range_zero, bufFn_collapse, qubitReg_bufFn, Cx.normSq]
  simp
  ring

/-- `(3/5, 4/5)` -/
noncomputable def demoReg : QReg ℝ := qubitReg (3 / 5) (4 / 5)

theorem demoReg_inv : Inv demoReg := by
  refine ⟨qubitReg_wf _ _, ?_, ?_⟩
  · rw [demoReg, qubitReg_nrm, close_real]; norm_num
  · rw [demoReg, qubitReg_nrm]; norm_num

/-- draw 1 on `(3/5, 4/5)` is possible: the collapsed squared norm is `16/25` -/
theorem demoReg_pos_one : 0 < nrm (demoReg.collapseMask 1 (1 &&& demoReg.qMask)) := by
  show 0 < nrm ((qubitReg (3 / 5) (4 / 5)).collapseMask 1 1)
  rw [qubitReg_nrm_collapse_one]
  norm_num

/-- draw 0 on `(3/5, 4/5)` is possible: the collapsed squared norm is `9/25` -/
theorem demoReg_pos_zero : 0 < nrm (demoReg.collapseMask 0 (1 &&& demoReg.qMask)) := by
  show 0 < nrm ((qubitReg (3 / 5) (4 / 5)).collapseMask 0 1)
  rw [qubitReg_nrm_collapse_zero]
  norm_num

/-- `1e-16` -/
noncomputable def tinyAmp : ℝ := (10 : ℝ)⁻¹ ^ 16

/-- `(√(1 − 1e-32), 1e-16)`: a unit vector whose `|1>` amplitude is below the `1e-15` threshold
of `normalize` (the counterexample to C06 before `measure_mask` switched to `rescale`) -/
noncomputable def rareReg : QReg ℝ := qubitReg (Real.sqrt (1 - tinyAmp ^ 2)) tinyAmp

theorem rareReg_nrm : nrm rareReg = 1 := by
  have h : (0 : ℝ) ≤ 1 - tinyAmp ^ 2 := by unfold tinyAmp; norm_num
  rw [rareReg, qubitReg_nrm, Real.sq_sqrt h]; ring

theorem rareReg_inv : Inv rareReg := by
  refine ⟨qubitReg_wf _ _, ?_, ?_⟩
  · rw [rareReg_nrm, close_real]; norm_num
  · rw [rareReg_nrm]

/-- the collapsed norm of the draw `1` is below the threshold at which `normalize` resets … -/
theorem rareReg_degenerate :
    Real.sqrt (nrm (rareReg.collapseMask 1 (1 &&& rareReg.qMask))) ≤ RegConsts.tiny := by
  show Real.sqrt (nrm ((qubitReg _ tinyAmp).collapseMask 1 1)) ≤ RegConsts.tiny
  rw [qubitReg_nrm_collapse_one, Real.sqrt_sq (by unfold tinyAmp; positivity), tiny_real]
  unfold tinyAmp; norm_num

/-- … but it is positive: the draw is possible -/
theorem rareReg_pos_one : 0 < nrm (rareReg.collapseMask 1 (1 &&& rareReg.qMask)) := by
  show 0 < nrm ((qubitReg _ tinyAmp).collapseMask 1 1)
  rw [qubitReg_nrm_collapse_one]
  unfold tinyAmp; positivity

/-! ## 7. the norm under the register operations (C05) -/

theorem normalize_wf (r : QReg ℝ) (hwf : WF r) : WF r.normalize := by
  rcases normalize_cases r with ⟨_, h⟩ | ⟨_, _, h⟩ | ⟨_, _, h⟩ <;> rw [h]
  · exact reset_wf r hwf 0
  · exact hwf
  · refine ⟨by simp only [Array.size_map]; exact hwf.1, hwf.2.1, fun i hi => ?_⟩
    simp only [bufFn_map_scale]
    rw [hwf.2.2 i hi, cx_scale_zero]

theorem close_sq_le_one : (1 - (RegConsts.close : ℝ)) ^ 2 ≤ 1 := by
  rw [close_real]; norm_num

/-- after `normalize` the squared norm is in `[(1 − 1e-9)², 1]`, provided it was at most 1 -/
theorem nrm_normalize (r : QReg ℝ) (hwf : WF r) (h1 : nrm r ≤ 1) :
    (1 - RegConsts.close) ^ 2 ≤ nrm r.normalize ∧ nrm r.normalize ≤ 1 := by
  rcases normalize_cases r with ⟨_, h⟩ | ⟨_, hc, h⟩ | ⟨ht, _, h⟩ <;> rw [h]
  · rw [nrm_reset r hwf 0]; exact ⟨close_sq_le_one, le_refl _⟩
  · refine ⟨?_, h1⟩
    have h0 : (0 : ℝ) ≤ 1 - RegConsts.close := by linarith [close_lt_one]
    have hle : 1 - RegConsts.close ≤ Real.sqrt (nrm r) := by linarith
    calc (1 - RegConsts.close) ^ 2 ≤ Real.sqrt (nrm r) ^ 2 := pow_le_pow_left₀ h0 hle 2
      _ = nrm r := Real.sq_sqrt (nrm_nonneg r)
  · have hpos : 0 < Real.sqrt (nrm r) := lt_trans tiny_pos ht
    have hsq : Real.sqrt (nrm r) ^ 2 = nrm r := Real.sq_sqrt (nrm_nonneg r)
    have hone : nrm ({ r with psi := r.psi.map (fun v => v.scale (1 / Real.sqrt (nrm r))) }
        : QReg ℝ) = 1 := by
      rw [nrm_scale, div_pow, one_pow, hsq]
      have : nrm r ≠ 0 := by rw [← hsq]; positivity
      field_simp
    rw [hone]; exact ⟨close_sq_le_one, le_refl _⟩

theorem normalize_inv (r : QReg ℝ) (hwf : WF r) (h1 : nrm r ≤ 1) : Inv r.normalize :=
  ⟨normalize_wf r hwf, nrm_normalize r hwf h1⟩

/-- measurement keeps the register valid, provided the draw — if one takes place, i.e. if the
effective mask is non-empty — is possible -/
theorem measure_inv (r : QReg ℝ) (mask d : Nat) (h : Inv r)
    (hposs : mask &&& r.qMask ≠ 0 → 0 < nrm (r.collapseMask d (mask &&& r.qMask))) :
    Inv (r.measureMask mask d).1 := by
  by_cases hm : mask &&& r.qMask = 0
  · rw [measure_of_zero r mask d hm]; exact h
  · refine ⟨measure_wf r mask d h.1, ?_, ?_⟩ <;> rw [nrm_measure r mask d hm (hposs hm)]
    exact close_sq_le_one

theorem reset_inv (r : QReg ℝ) (hwf : WF r) (i : Nat) : Inv (r.reset i) := by
  refine ⟨reset_wf r hwf i, ?_, ?_⟩ <;> rw [nrm_reset r hwf i]
  exact close_sq_le_one

theorem withState_WF (n s : Nat) : WF (QReg.withState (R := ℝ) n s) := QReg.withState_wf n s

theorem nrm_withState (n s : Nat) : nrm (QReg.withState (R := ℝ) n s) = 1 := by
  apply nrm_basis
  rw [and_lowMask]
  have hlt : s % 2 ^ n < 2 ^ n := Nat.mod_lt _ (Nat.pow_pos (by decide))
  have := two_pow_le_bufLen n
  omega

theorem withState_inv (n s : Nat) : Inv (QReg.withState (R := ℝ) n s) := by
  refine ⟨withState_WF n s, ?_, ?_⟩ <;> rw [nrm_withState]
  exact close_sq_le_one

/-- growing keeps the buffer content, hence the norm -/
theorem setNum_grow_inv (r : QReg ℝ) (n : Nat) (hn : r.qNum ≤ n) (hwf : WF r) :
    WF (r.setNum n) ∧ nrm (r.setNum n) = nrm r := by
  obtain ⟨g1, g2, g3, g4⟩ := QReg.setNum_grow r n hn hwf.2.2
  have hpow : 2 ^ r.qNum ≤ 2 ^ n := Nat.pow_le_pow_right (by decide) hn
  have hview : ∀ i, bufFn (r.setNum n).psi i = bufFn r.psi i := by
    intro i
    rw [g4]
    split
    · rfl
    · exact (hwf.2.2 i (by omega)).symm
  have hwf' : WF (r.setNum n) := by
    refine ⟨by rw [g1]; exact g3, by rw [g1]; exact g2, fun i hi => ?_⟩
    rw [g1] at hi
    rw [hview]; exact hwf.2.2 i (by omega)
  refine ⟨hwf', ?_⟩
  rw [nrm_eq_range _ hwf', nrm_eq_range _ hwf, g1]
  simp only [hview]
  symm
  apply sum_subset
  · intro i hi
    rw [mem_range] at hi ⊢
    omega
  · intro i _ hi
    rw [mem_range, not_lt] at hi
    rw [hwf.2.2 i hi, normSq_zero]

theorem setNum_inv (r : QReg ℝ) (n : Nat) (h : Inv r) : Inv (r.setNum n) := by
  by_cases hn : n < r.qNum
  · rw [QReg.setNum_shrink r n hn, QReg.new_eq_withState]
    exact withState_inv n 0
  · obtain ⟨hwf', hn'⟩ := setNum_grow_inv r n (Nat.le_of_not_lt hn) h.1
    exact ⟨hwf', by rw [hn']; exact h.2.1, by rw [hn']; exact h.2.2⟩

/-! ### gate application -/

/-- every element of the queue preserves the squared norm of an `n`-qubit state and keeps the
amplitudes outside the register at zero -/
def GatesPreserve (n : Nat) (o : MultiOp ℝ) : Prop :=
  ∀ g ∈ o, ∀ ψ : State ℝ, (∀ i, 2 ^ n ≤ i → ψ i = 0) →
    Spec.normSqSum n (g.apply ψ) = Spec.normSqSum n ψ ∧ ∀ i, 2 ^ n ≤ i → g.apply ψ i = 0

/-- buffer sweep = functional sweep, as long as every gate stays inside the register -/
theorem bufFn_applyArr_eq (n : Nat) (o : MultiOp ℝ) (a : Array (Cx ℝ)) (hsz : 2 ^ n ≤ a.size)
    (hz : ∀ i, 2 ^ n ≤ i → bufFn a i = 0)
    (hloc : ∀ g ∈ o, ∀ ψ : State ℝ, (∀ i, 2 ^ n ≤ i → ψ i = 0) →
      ∀ i, 2 ^ n ≤ i → g.apply ψ i = 0) :
    bufFn (o.applyArr a) = o.apply (bufFn a) := by
  induction o generalizing a with
  | nil => rfl
  | cons g o ih =>
    have hg : bufFn (g.applyArr a) = g.apply (bufFn a) := by
      funext i
      by_cases hi : i < a.size
      · exact SingleOp.bufFn_applyArr g a i hi
      · rw [SingleOp.bufFn_applyArr_of_le g a i (Nat.le_of_not_lt hi)]
        exact (hloc g (List.mem_cons_self ..) _ hz i (by omega)).symm
    rw [MultiOp.applyArr_cons, MultiOp.apply_cons,
      ih (g.applyArr a) (by rw [SingleOp.applyArr_size]; exact hsz)
        (by rw [hg]; exact hloc g (List.mem_cons_self ..) _ hz)
        (fun g' hg' => hloc g' (List.mem_cons_of_mem _ hg')), hg]

theorem gatesPreserve_apply (n : Nat) (o : MultiOp ℝ) (hp : GatesPreserve n o) (ψ : State ℝ)
    (hz : ∀ i, 2 ^ n ≤ i → ψ i = 0) :
    Spec.normSqSum n (o.apply ψ) = Spec.normSqSum n ψ ∧ ∀ i, 2 ^ n ≤ i → o.apply ψ i = 0 := by
  induction o generalizing ψ with
  | nil => exact ⟨rfl, hz⟩
  | cons g o ih =>
    obtain ⟨h1, h2⟩ := hp g (List.mem_cons_self ..) ψ hz
    obtain ⟨h3, h4⟩ := ih (fun g' hg' => hp g' (List.mem_cons_of_mem _ hg')) (g.apply ψ) h2
    rw [MultiOp.apply_cons]
    exact ⟨h3.trans h1, h4⟩

theorem apply_wf_nrm (r : QReg ℝ) (o : MultiOp ℝ) (hp : GatesPreserve r.qNum o) (hwf : WF r) :
    WF (r.apply o) ∧ nrm (r.apply o) = nrm r := by
  have hsz : 2 ^ r.qNum ≤ r.psi.size := by rw [hwf.1]; omega
  have hview : bufFn (r.apply o).psi = o.apply (bufFn r.psi) :=
    bufFn_applyArr_eq r.qNum o r.psi hsz hwf.2.2 (fun g hg ψ hψ => (hp g hg ψ hψ).2)
  obtain ⟨h1, h2⟩ := gatesPreserve_apply r.qNum o hp (bufFn r.psi) hwf.2.2
  have hwf' : WF (r.apply o) := by
    refine ⟨by rw [QReg.apply_psi_size]; exact hwf.1, hwf.2.1, fun i hi => ?_⟩
    rw [hview]; exact h2 i hi
  refine ⟨hwf', ?_⟩
  rw [nrm_eq_normSqSum _ hwf', nrm_eq_normSqSum _ hwf, hview]
  exact h1

theorem apply_inv (r : QReg ℝ) (o : MultiOp ℝ) (hp : GatesPreserve r.qNum o) (h : Inv r) :
    Inv (r.apply o) := by
  obtain ⟨hwf', hn'⟩ := apply_wf_nrm r o hp h.1
  exact ⟨hwf', by rw [hn']; exact h.2.1, by rw [hn']; exact h.2.2⟩

/-! ### the bit flip used by `reset_by_mask` -/

theorem opX_eq (a : Nat) : (Op.x a : MultiOp ℝ) = [SingleOp.ofAtom (Atom.x a)] := rfl

theorem opX_apply (a : Nat) (ψ : State ℝ) (i : Nat) :
    (SingleOp.ofAtom (Atom.x a) : SingleOp ℝ).apply ψ i = ψ (i ^^^ a) := rfl

theorem sum_reindex_xor_mask (n a : Nat) (ha : a < 2 ^ n) (f : Nat → ℝ) :
    ∑ i ∈ range (2 ^ n), f (i ^^^ a) = ∑ i ∈ range (2 ^ n), f i := by
  refine sum_nbij' (fun i => i ^^^ a) (fun i => i ^^^ a) ?_ ?_ ?_ ?_ ?_
  · intro i hi
    rw [mem_range] at hi ⊢
    exact Nat.xor_lt_two_pow hi ha
  · intro i hi
    rw [mem_range] at hi ⊢
    exact Nat.xor_lt_two_pow hi ha
  · intro i _
    simp
  · intro i _
    simp
  · intro i _
    rfl

/-- flipping qubits of the register is a permutation of its basis states -/
theorem opX_preserve (n a : Nat) (ha : a < 2 ^ n) : GatesPreserve n (Op.x a) := by
  intro g hg ψ hz
  rw [opX_eq, List.mem_singleton] at hg
  subst hg
  constructor
  · rw [Spec.normSqSum_eq_sum, Spec.normSqSum_eq_sum]
    simp only [opX_apply]
    exact sum_reindex_xor_mask n a ha (fun i => (ψ i).normSq)
  · intro i hi
    rw [opX_apply]
    exact hz _ (Spec.xor_ge n a i ha hi)

theorem creg_withState_value_le (n s : Nat) : (CReg.withState n s).value ≤ s := Nat.and_le_left

/-! ### probabilities -/

theorem list_range_map_sum (m : Nat) (f : Nat → ℝ) :
    ((List.range m).map f).sum = ∑ i ∈ range m, f i := by
  induction m with
  | zero => simp
  | succ m ih => rw [List.range_succ, List.map_append, List.sum_append, ih, sum_range_succ]; simp

theorem getProbabilities_eq (r : QReg ℝ) :
    r.getProbabilities = (List.range (2 ^ r.qNum)).map (fun i => (bufFn r.psi i).normSq / nrm r) := by
  unfold QReg.getProbabilities
  apply List.map_congr_left
  intro i _
  simp only [getD_eq_bufFn, mul_one_div]
  rfl

theorem getProbabilities_getElem? (r : QReg ℝ) (i : Nat) (hi : i < 2 ^ r.qNum) :
    r.getProbabilities[i]? = some ((bufFn r.psi i).normSq / nrm r) := by
  rw [getProbabilities_eq, List.getElem?_map, List.getElem?_range hi]; rfl

theorem getProbabilities_nonneg (r : QReg ℝ) : ∀ p ∈ r.getProbabilities, 0 ≤ p := by
  intro p hp
  rw [getProbabilities_eq, List.mem_map] at hp
  obtain ⟨i, _, rfl⟩ := hp
  exact div_nonneg (normSq_nonneg _) (nrm_nonneg r)

theorem getProbabilities_sum (r : QReg ℝ) (hwf : WF r) (hpos : nrm r ≠ 0) :
    r.getProbabilities.sum = 1 := by
  rw [getProbabilities_eq, list_range_map_sum]
  simp only [div_eq_mul_inv]
  rw [← sum_mul, ← nrm_eq_range r hwf, mul_inv_cancel₀ hpos]

theorem inv_nrm_pos (r : QReg ℝ) (h : Inv r) : 0 < nrm r := by
  have h0 : (0 : ℝ) < 1 - RegConsts.close := by linarith [close_lt_one]
  exact lt_of_lt_of_le (by positivity) h.2.1

/-! ### tensor product -/

theorem normSq_mul (z w : Cx ℝ) : (z * w).normSq = z.normSq * w.normSq := by
  simp only [Cx.normSq, Cx.mul_re, Cx.mul_im]; ring

/-- a sum over `i < 2^(na+nb)` splits into the low `na` bits and the high `nb` bits -/
theorem sum_range_split (na nb : Nat) (f : Nat → Nat → ℝ) :
    ∑ i ∈ range (2 ^ (na + nb)), f (i % 2 ^ na) (i / 2 ^ na)
      = ∑ lo ∈ range (2 ^ na), ∑ hi ∈ range (2 ^ nb), f lo hi := by
  have hpos : 0 < 2 ^ na := Nat.pow_pos (by decide)
  rw [← sum_product']
  symm
  refine sum_nbij' (fun p => p.1 + 2 ^ na * p.2) (fun i => (i % 2 ^ na, i / 2 ^ na)) ?_ ?_ ?_ ?_ ?_
  · intro p hp
    rw [mem_product, mem_range, mem_range] at hp
    rw [mem_range, Nat.pow_add]
    have : 2 ^ na * (p.2 + 1) ≤ 2 ^ na * 2 ^ nb := Nat.mul_le_mul_left _ hp.2
    rw [Nat.mul_succ] at this
    omega
  · intro i hi
    rw [mem_range] at hi
    rw [mem_product, mem_range, mem_range]
    refine ⟨Nat.mod_lt _ hpos, ?_⟩
    apply Nat.div_lt_of_lt_mul
    rw [← Nat.pow_add]; exact hi
  · intro p hp
    rw [mem_product, mem_range, mem_range] at hp
    apply Prod.ext
    · simp only [Nat.add_mul_mod_self_left, Nat.mod_eq_of_lt hp.1]
    · simp only
      rw [Nat.add_mul_div_left _ _ hpos, Nat.div_eq_of_lt hp.1, Nat.zero_add]
  · intro i _
    exact Nat.mod_add_div i (2 ^ na)
  · intro p hp
    rw [mem_product, mem_range, mem_range] at hp
    rw [Nat.add_mul_mod_self_left, Nat.mod_eq_of_lt hp.1, Nat.add_mul_div_left _ _ hpos,
      Nat.div_eq_of_lt hp.1, Nat.zero_add]

theorem tensorProd_WF (a b : QReg ℝ) (ha : WF a) (hb : WF b) : WF (a.tensorProd b) :=
  QReg.tensorProd_wf a b ha.2.1 hb.2.1

/-- the squared norm of a product register is the product of the squared norms -/
theorem nrm_tensorProd (a b : QReg ℝ) (ha : WF a) (hb : WF b) :
    nrm (a.tensorProd b) = nrm a * nrm b := by
  obtain ⟨h1, _, _, h4⟩ := QReg.tensorProd_spec a b ha.2.1 hb.2.1
  rw [nrm_eq_range _ (tensorProd_WF a b ha hb), h1, nrm_eq_range a ha, nrm_eq_range b hb,
    sum_mul_sum, ← sum_range_split a.qNum b.qNum
      (fun lo hi => (bufFn a.psi lo).normSq * (bufFn b.psi hi).normSq)]
  apply sum_congr rfl
  intro i hi
  rw [mem_range] at hi
  rw [h4 i, if_pos hi, normSq_mul]

/-! ## 8. histories of operations -/

/-- one public operation on a register (gates must be addressed to qubits of the register:
`GatesPreserve`) -/
inductive Step : QReg ℝ → QReg ℝ → Prop
  | apply (r : QReg ℝ) (o : MultiOp ℝ) (hp : GatesPreserve r.qNum o) : Step r (r.apply o)
  /-- `hposs`, the `WeightedIndex` contract: if a draw takes place (the effective mask is not
  empty) the drawn index is possible -/
  | measure (r : QReg ℝ) (mask d : Nat)
      (hposs : mask &&& r.qMask ≠ 0 → 0 < nrm (r.collapseMask d (mask &&& r.qMask))) :
      Step r (r.measureMask mask d).1
  /-- `hposs`: the same; `reset_by_mask` draws unless every qubit or no qubit is named -/
  | resetByMask (r : QReg ℝ) (mask d : Nat)
      (hposs : mask &&& r.qMask ≠ r.qMask → mask &&& r.qMask ≠ 0 →
        0 < nrm (r.collapseMask d (mask &&& r.qMask))) :
      Step r (r.resetByMask mask d)
  | setNum (r : QReg ℝ) (n : Nat) : Step r (r.setNum n)
  | reset (r : QReg ℝ) (i : Nat) : Step r (r.reset i)

/-- registers obtained from a freshly constructed one by any number of operations -/
inductive Reachable : QReg ℝ → Prop
  | init (n s : Nat) : Reachable (QReg.withState n s)
  | step {r r' : QReg ℝ} : Reachable r → Step r r' → Reachable r'

/-- the same, with tensor products of reachable registers -/
inductive ReachableT : QReg ℝ → Prop
  | init (n s : Nat) : ReachableT (QReg.withState n s)
  | step {r r' : QReg ℝ} : ReachableT r → Step r r' → ReachableT r'
  | tensor {a b : QReg ℝ} : ReachableT a → ReachableT b → ReachableT (a.tensorProd b)

/-- a step keeps the register well-formed and either keeps the squared norm or makes it
exactly 1 -/
def NormStep (r r' : QReg ℝ) : Prop :=
  WF r' ∧ (nrm r' = nrm r ∨ nrm r' = 1)

theorem measure_normStep (r : QReg ℝ) (mask d : Nat) (hwf : WF r)
    (hposs : mask &&& r.qMask ≠ 0 → 0 < nrm (r.collapseMask d (mask &&& r.qMask))) :
    NormStep r (r.measureMask mask d).1 := by
  by_cases hm : mask &&& r.qMask = 0
  · rw [measure_of_zero r mask d hm]; exact ⟨hwf, Or.inl rfl⟩
  · exact ⟨measure_wf r mask d hwf, Or.inr (nrm_measure r mask d hm (hposs hm))⟩

theorem reset_normStep (r : QReg ℝ) (i : Nat) (hwf : WF r) : NormStep r (r.reset i) :=
  ⟨reset_wf r hwf i, Or.inr (nrm_reset r hwf i)⟩

theorem resetByMask_normStep (r : QReg ℝ) (mask d : Nat) (hwf : WF r)
    (hposs : mask &&& r.qMask ≠ r.qMask → mask &&& r.qMask ≠ 0 →
      0 < nrm (r.collapseMask d (mask &&& r.qMask))) :
    NormStep r (r.resetByMask mask d) := by
  unfold QReg.resetByMask
  by_cases hall : mask &&& r.qMask = r.qMask
  · rw [if_pos hall]; exact reset_normStep r 0 hwf
  · rw [if_neg hall]
    have hpost := measure_normStep r mask d hwf (hposs hall)
    simp only
    by_cases hv : (r.measureMask mask d).2.value ≠ 0
    · rw [if_pos hv]
      have hx : GatesPreserve (r.measureMask mask d).1.qNum
          (Op.x (r.measureMask mask d).2.value) := by
        apply opX_preserve
        rw [measure_qNum]
        have hm : mask &&& r.qMask ≠ 0 := by
          intro h0
          rw [measure_of_zero r mask d h0] at hv
          exact hv (by simp [CReg.new, CReg.withState])
        rw [measure_of_ne r mask d hm]
        have h1 := creg_withState_value_le r.qNum (d &&& (mask &&& r.qMask))
        have h2 : d &&& (mask &&& r.qMask) ≤ mask &&& r.qMask := Nat.and_le_right
        have h3 : mask &&& r.qMask ≤ r.qMask := Nat.and_le_right
        have hq := hwf.2.1
        have hpos : 0 < 2 ^ r.qNum := Nat.pow_pos (by decide)
        simp only at h1 ⊢
        omega
      obtain ⟨hwf', hn'⟩ := apply_wf_nrm _ _ hx hpost.1
      exact ⟨hwf', by rw [hn']; exact hpost.2⟩
    · rw [if_neg hv]; exact hpost

theorem step_normStep {r r' : QReg ℝ} (hs : Step r r') (hwf : WF r) : NormStep r r' := by
  cases hs with
  | apply o hp =>
    obtain ⟨hwf', hn'⟩ := apply_wf_nrm r o hp hwf
    exact ⟨hwf', Or.inl hn'⟩
  | measure mask d hposs => exact measure_normStep r mask d hwf hposs
  | resetByMask mask d hposs => exact resetByMask_normStep r mask d hwf hposs
  | setNum n =>
    by_cases hn : n < r.qNum
    · rw [QReg.setNum_shrink r n hn, QReg.new_eq_withState]
      exact ⟨withState_WF n 0, Or.inr (nrm_withState n 0)⟩
    · obtain ⟨hwf', hn'⟩ := setNum_grow_inv r n (Nat.le_of_not_lt hn) hwf
      exact ⟨hwf', Or.inl hn'⟩
  | reset i => exact reset_normStep r i hwf

/-- "squared norm in `[c, 1]`" for a tolerance `c ≤ 1` survives every step -/
theorem normStep_bound {r r' : QReg ℝ} (h : NormStep r r') (c : ℝ)
    (hc : c ≤ 1) (hl : c ≤ nrm r) (hu : nrm r ≤ 1) :
    c ≤ nrm r' ∧ nrm r' ≤ 1 := by
  rcases h.2 with he | he
  · rw [he]; exact ⟨hl, hu⟩
  · rw [he]; exact ⟨hc, le_refl _⟩

theorem step_inv {r r' : QReg ℝ} (hs : Step r r') (h : Inv r) : Inv r' := by
  have hn := step_normStep hs h.1
  exact ⟨hn.1, normStep_bound hn _ close_sq_le_one h.2.1 h.2.2⟩

/-- a step from a register of squared norm exactly 1 leads to one of squared norm exactly 1 -/
theorem step_nrm_one {r r' : QReg ℝ} (hs : Step r r') (hwf : WF r) (h1 : nrm r = 1) :
    nrm r' = 1 := by
  rcases (step_normStep hs hwf).2 with he | he
  · rw [he, h1]
  · exact he

theorem resetByMask_inv (r : QReg ℝ) (mask d : Nat) (h : Inv r)
    (hposs : mask &&& r.qMask ≠ r.qMask → mask &&& r.qMask ≠ 0 →
      0 < nrm (r.collapseMask d (mask &&& r.qMask))) : Inv (r.resetByMask mask d) :=
  step_inv (Step.resetByMask r mask d hposs) h

/-- `normalize` never rescales a vector whose norm is at least 1: the test is `1 − norm ≤ 1e-9`,
not `|1 − norm| ≤ 1e-9` -/
theorem normalize_above_one (r : QReg ℝ) (h : 1 ≤ nrm r) : r.normalize = r := by
  have hs : 1 ≤ Real.sqrt (nrm r) := by
    rw [show (1 : ℝ) = Real.sqrt 1 from Real.sqrt_one.symm]
    exact Real.sqrt_le_sqrt h
  have ht : (RegConsts.tiny : ℝ) < 1 := by rw [tiny_real]; norm_num
  rcases normalize_cases r with ⟨h0, _⟩ | ⟨_, _, h1⟩ | ⟨_, h2, _⟩
  · linarith
  · exact h1
  · linarith [close_pos]

theorem reachable_inv {r : QReg ℝ} (h : Reachable r) : Inv r := by
  induction h with
  | init n s => exact withState_inv n s
  | step _ hs ih => exact step_inv hs ih

/-- since `measure_mask` divides by the norm whenever it draws, no slack accumulates: the squared
norm of a reachable register is exactly 1 -/
theorem reachable_nrm {r : QReg ℝ} (h : Reachable r) : nrm r = 1 := by
  induction h with
  | init n s => exact nrm_withState n s
  | step hr hs ih => exact step_nrm_one hs (reachable_inv hr).1 ih

/-- the same with tensor products -/
theorem reachableT_nrm {r : QReg ℝ} (h : ReachableT r) : WF r ∧ nrm r = 1 := by
  induction h with
  | init n s => exact ⟨withState_WF n s, nrm_withState n s⟩
  | step _ hs ih => exact ⟨(step_normStep hs ih.1).1, step_nrm_one hs ih.1 ih.2⟩
  | tensor _ _ iha ihb =>
    refine ⟨tensorProd_WF _ _ iha.1 ihb.1, ?_⟩
    rw [nrm_tensorProd _ _ iha.1 ihb.1, iha.2, ihb.2, mul_one]

/-- with tensor products the lower bound is `(1 − 1e-9)^(2k)`, `k` the number of factors -/
theorem reachableT_bound {r : QReg ℝ} (h : ReachableT r) :
    ∃ k : Nat, 1 ≤ k ∧ WF r ∧ (1 - RegConsts.close) ^ (2 * k) ≤ nrm r ∧ nrm r ≤ 1 := by
  have h0 : (0 : ℝ) ≤ 1 - RegConsts.close := by linarith [close_lt_one]
  have h1 : (1 - RegConsts.close : ℝ) ≤ 1 := by linarith [close_pos]
  induction h with
  | init n s =>
    refine ⟨1, le_refl _, withState_WF n s, ?_, ?_⟩ <;> rw [nrm_withState]
    exact pow_le_one₀ h0 h1
  | step _ hs ih =>
    obtain ⟨k, hk, hwf, hl, hu⟩ := ih
    have hn := step_normStep hs hwf
    refine ⟨k, hk, hn.1, normStep_bound hn _ ?_ hl hu⟩
    exact pow_le_one₀ h0 h1
  | tensor _ _ iha ihb =>
    obtain ⟨ka, hka, hwa, hla, hua⟩ := iha
    obtain ⟨kb, hkb, hwb, hlb, hub⟩ := ihb
    refine ⟨ka + kb, by omega, tensorProd_WF _ _ hwa hwb, ?_, ?_⟩
    · rw [nrm_tensorProd _ _ hwa hwb, Nat.mul_add, pow_add]
      exact mul_le_mul hla hlb (by positivity) (le_trans (by positivity) hla)
    · rw [nrm_tensorProd _ _ hwa hwb]
      exact mul_le_one₀ hua (nrm_nonneg _) hub

end Qvnt
