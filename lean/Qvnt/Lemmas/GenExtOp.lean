/-
`qasm/int/ext_op.rs`: Op::push, Op::append.
(split out of GenRegs2.lean so that an equality that no longer holds blocks only the properties that rely on it)
-/
import Qvnt.Lemmas.GenPre

set_option linter.unusedSectionVars false

namespace Qvnt.Gen2
open Qvnt Qvnt.Gen

variable {R : Type}

/-! ### the interpreter's block queue (`qasm/int/ext_op.rs`) -/
section extop
variable [Add R] [Sub R] [Mul R] [Div R] [Neg R] [Zero R] [One R] [Consts R]

theorem extop_push_eq (e : ExtOp R) (o : MultiOp R) : extop_push e o = e.push o := by
  unfold extop_push ExtOp.push
  by_cases h : e.tail.isEmpty
  · simp only [h, ↓reduceIte]
    cases hl : e.blocks.getLast? with
    | none => simp
    | some p =>
      obtain ⟨l, sep⟩ := p
      cases sep <;> simp
  · simp [h]

/-- `append`: the receiver becomes the model's `append`, the argument is left empty (`mem::take`) -/
theorem extop_append_eq (e other : ExtOp R) :
    (extop_append e other).1 = e.append other ∧ (extop_append e other).2 = { blocks := [], tail := [] } := by
  unfold extop_append ExtOp.append
  refine ⟨?_, rfl⟩
  by_cases h : e.tail.isEmpty
  · simp [h]
  · simp only [h, Bool.not_false, ↓reduceIte, Bool.false_eq_true]
    cases hl : e.blocks.getLast? with
    | none => simp
    | some p =>
      obtain ⟨l, sep⟩ := p
      cases sep <;> simp

end extop
end Qvnt.Gen2
