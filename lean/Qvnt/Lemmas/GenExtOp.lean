/-
`qasm/int/ext_op.rs`: Op::push, Op::append.
(split out of GenRegs2.lean so that an equality that no longer holds blocks only the properties that rely on it)
-/
import Qvnt.Lemmas.GenExtOp.extop_push_eq
import Qvnt.Lemmas.GenExtOp.extop_append_eq
