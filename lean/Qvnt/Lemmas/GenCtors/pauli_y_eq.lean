/- `pauli_y_eq` of GenCtors.lean (one module per declaration, tools/lean_split.py) -/
import Qvnt.Generated.Regs
import Qvnt.Generated.Kernels
import Qvnt.Lemmas.Bits
import Mathlib.Tactic.Ring
import Mathlib.Algebra.Ring.Basic
import Qvnt.Lemmas.Queue
import Qvnt.Lemmas.GenH.y_new_eq_p

set_option linter.unusedSectionVars false
namespace Qvnt.Gen2
open Qvnt Qvnt.Gen
variable {R : Type}
section ctors
variable [Add R] [Sub R] [Mul R] [Div R] [Neg R] [Zero R] [One R] [Consts R] [Trig R] [Rs.AngleConsts R]

theorem pauli_y_eq (a : Nat) : pauli_y (R := R) a = SingleOp.ofAtom (.y a (yIPow a)) := by
  simp [pauli_y, single_from, y_new_eq', SingleOp.ofAtom]

end ctors
end Qvnt.Gen2
