/- `checked_eq` of GenCtors.lean (one module per declaration, tools/lean_split.py) -/
import Qvnt.Generated.Regs
import Qvnt.Generated.Kernels
import Qvnt.Lemmas.Bits
import Mathlib.Tactic.Ring
import Mathlib.Algebra.Ring.Basic
import Qvnt.Lemmas.Queue

set_option linter.unusedSectionVars false
namespace Qvnt.Gen2
open Qvnt Qvnt.Gen
variable {R : Type}
section ctors
variable [Add R] [Sub R] [Mul R] [Div R] [Neg R] [Zero R] [One R] [Consts R] [Trig R] [Rs.AngleConsts R]

theorem checked_eq (g : Atom R) :
    (if Atom.isValid g then some (single_from g) else none) = SingleOp.checked g := by
  unfold SingleOp.checked single_from SingleOp.ofAtom
  cases Atom.isValid g <;> rfl

end ctors
end Qvnt.Gen2
