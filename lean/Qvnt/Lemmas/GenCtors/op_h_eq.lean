/- `op_h_eq` of GenCtors.lean (one module per declaration, tools/lean_split.py) -/
import Qvnt.Generated.Regs
import Qvnt.Generated.Kernels
import Qvnt.Lemmas.Bits
import Mathlib.Tactic.Ring
import Mathlib.Algebra.Ring.Basic
import Qvnt.Lemmas.Queue
import Qvnt.Lemmas.GenH.h_h_eq

set_option linter.unusedSectionVars false
namespace Qvnt.Gen2
open Qvnt Qvnt.Gen
variable {R : Type}
section ctors
variable [Add R] [Sub R] [Mul R] [Div R] [Neg R] [Zero R] [One R] [Consts R] [Trig R] [Rs.AngleConsts R]

theorem op_h_eq (a : Nat) : op_h (R := R) a = Op.h a := by
  simp [op_h, h_h_eq]

end ctors
end Qvnt.Gen2
