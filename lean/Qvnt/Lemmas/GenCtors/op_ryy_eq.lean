/- `op_ryy_eq` of GenCtors.lean (one module per declaration, tools/lean_split.py) -/
import Qvnt.Generated.Regs
import Qvnt.Generated.Kernels
import Qvnt.Lemmas.Bits
import Mathlib.Tactic.Ring
import Mathlib.Algebra.Ring.Basic
import Qvnt.Lemmas.Queue
import Qvnt.Lemmas.GenCtors.rotate_ryy_eq
import Qvnt.Lemmas.GenCtors.bind_some_map

set_option linter.unusedSectionVars false
namespace Qvnt.Gen2
open Qvnt Qvnt.Gen
variable {R : Type}
section ctors
variable [Add R] [Sub R] [Mul R] [Div R] [Neg R] [Zero R] [One R] [Consts R] [Trig R] [Rs.AngleConsts R]

theorem op_ryy_eq (θ : R) (a : Nat) : op_ryy θ a = Op.ryy (halfPhaseDiv θ) a := by
  simp [op_ryy, Op.ryy, Op.ofChecked, rotate_ryy_eq, bind_some_map]

end ctors
end Qvnt.Gen2
