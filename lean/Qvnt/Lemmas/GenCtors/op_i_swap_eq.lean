/- `op_i_swap_eq` of GenCtors.lean (one module per declaration, tools/lean_split.py) -/
import Qvnt.Generated.Regs
import Qvnt.Generated.Kernels
import Qvnt.Lemmas.Bits
import Mathlib.Tactic.Ring
import Mathlib.Algebra.Ring.Basic
import Qvnt.Lemmas.Queue
import Qvnt.Lemmas.GenCtors.swapmod_i_swap_eq
import Qvnt.Lemmas.GenCtors.bind_some_map

set_option linter.unusedSectionVars false
namespace Qvnt.Gen2
open Qvnt Qvnt.Gen
variable {R : Type}
section ctors
variable [Add R] [Sub R] [Mul R] [Div R] [Neg R] [Zero R] [One R] [Consts R] [Trig R] [Rs.AngleConsts R]

theorem op_i_swap_eq (a : Nat) : op_i_swap (R := R) a = Op.iSwap a := by
  simp [op_i_swap, Op.iSwap, Op.ofChecked, swapmod_i_swap_eq, bind_some_map]

end ctors
end Qvnt.Gen2
