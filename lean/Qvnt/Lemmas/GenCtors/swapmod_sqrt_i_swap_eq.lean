/- `swapmod_sqrt_i_swap_eq` of GenCtors.lean (one module per declaration, tools/lean_split.py) -/
import Qvnt.Generated.Regs
import Qvnt.Generated.Kernels
import Qvnt.Lemmas.Bits
import Mathlib.Tactic.Ring
import Mathlib.Algebra.Ring.Basic
import Qvnt.Lemmas.Queue
import Qvnt.Lemmas.GenCtors.checked_eq

set_option linter.unusedSectionVars false
namespace Qvnt.Gen2
open Qvnt Qvnt.Gen
variable {R : Type}
section ctors
variable [Add R] [Sub R] [Mul R] [Div R] [Neg R] [Zero R] [One R] [Consts R] [Trig R] [Rs.AngleConsts R]

theorem swapmod_sqrt_i_swap_eq (a : Nat) : swapmod_sqrt_i_swap (R := R) a = SingleOp.checked (.sqrtISwap a false) := checked_eq _

end ctors
end Qvnt.Gen2
