/- `op_u1_eq` of GenCtors.lean (one module per declaration, tools/lean_split.py) -/
import Qvnt.Generated.Regs
import Qvnt.Generated.Kernels
import Qvnt.Lemmas.Bits
import Mathlib.Tactic.Ring
import Mathlib.Algebra.Ring.Basic
import Qvnt.Lemmas.Queue
import Qvnt.Lemmas.GenCtors.op_rz_eq

set_option linter.unusedSectionVars false
namespace Qvnt.Gen2
open Qvnt Qvnt.Gen
variable {R : Type}
section ctors
variable [Add R] [Sub R] [Mul R] [Div R] [Neg R] [Zero R] [One R] [Consts R] [Trig R] [Rs.AngleConsts R]

theorem op_u1_eq (lam : R) (a : Nat) : op_u1 lam a = Op.u1 (halfPhaseDiv lam) a := by
  simp [op_u1, Op.u1, op_rz_eq]

end ctors
end Qvnt.Gen2
