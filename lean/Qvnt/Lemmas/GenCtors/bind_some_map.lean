/- `bind_some_map` of GenCtors.lean (one module per declaration, tools/lean_split.py) -/
import Qvnt.Generated.Regs
import Qvnt.Generated.Kernels
import Qvnt.Lemmas.Bits
import Mathlib.Tactic.Ring
import Mathlib.Algebra.Ring.Basic
import Qvnt.Lemmas.Queue

set_option linter.unusedSectionVars false
namespace Qvnt.Gen2
open Qvnt Qvnt.Gen
variable {R : Type}
section ctors
variable [Add R] [Sub R] [Mul R] [Div R] [Neg R] [Zero R] [One R] [Consts R] [Trig R] [Rs.AngleConsts R]

theorem bind_some_map {α β : Type} (o : Option α) (f : α → β) : (o.bind fun u => some (f u)) = o.map f := by
  cases o <;> rfl

end ctors
end Qvnt.Gen2
