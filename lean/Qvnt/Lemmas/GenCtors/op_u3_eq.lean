/- `op_u3_eq` of GenCtors.lean (one module per declaration, tools/lean_split.py) -/
import Qvnt.Generated.Regs
import Qvnt.Generated.Kernels
import Qvnt.Lemmas.Bits
import Mathlib.Tactic.Ring
import Mathlib.Algebra.Ring.Basic
import Qvnt.Lemmas.Queue
import Qvnt.Lemmas.GenCtors.op_ry_eq
import Qvnt.Lemmas.GenCtors.op_rz_eq

set_option linter.unusedSectionVars false
namespace Qvnt.Gen2
open Qvnt Qvnt.Gen
variable {R : Type}
section ctors
variable [Add R] [Sub R] [Mul R] [Div R] [Neg R] [Zero R] [One R] [Consts R] [Trig R] [Rs.AngleConsts R]

theorem op_u3_eq (the phi lam : R) (a : Nat) :
    op_u3 the phi lam a = Op.u3 (halfPhaseDiv the) (halfPhaseDiv phi) (halfPhaseDiv lam) a := by
  simp only [op_u3, Op.u3, op_rz_eq, op_ry_eq]
  cases Op.rz (halfPhaseDiv lam) a <;> cases Op.ry (halfPhaseDiv the) a <;> cases Op.rz (halfPhaseDiv phi) a <;> rfl

end ctors
end Qvnt.Gen2
