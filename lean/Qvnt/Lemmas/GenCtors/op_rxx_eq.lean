/- `op_rxx_eq` of GenCtors.lean (one module per declaration, tools/lean_split.py) -/
import Qvnt.Generated.Regs
import Qvnt.Generated.Kernels
import Qvnt.Lemmas.Bits
import Mathlib.Tactic.Ring
import Mathlib.Algebra.Ring.Basic
import Qvnt.Lemmas.Queue
import Qvnt.Lemmas.GenCtors.rotate_rxx_eq
import Qvnt.Lemmas.GenCtors.bind_some_map

set_option linter.unusedSectionVars false
namespace Qvnt.Gen2
open Qvnt Qvnt.Gen
variable {R : Type}
section ctors
variable [Add R] [Sub R] [Mul R] [Div R] [Neg R] [Zero R] [One R] [Consts R] [Trig R] [Rs.AngleConsts R]

theorem op_rxx_eq (θ : R) (a : Nat) : op_rxx θ a = Op.rxx (halfPhaseMul θ) a := by
  simp [op_rxx, Op.rxx, Op.ofChecked, rotate_rxx_eq, bind_some_map]

end ctors
end Qvnt.Gen2
