/- `vreg_new_with_mask_eq` of GenVirtl.lean (one module per declaration, tools/lean_split.py) -/
import Qvnt.Generated.Regs
import Qvnt.Generated.Kernels
import Qvnt.Lemmas.Bits
import Mathlib.Tactic.Ring
import Mathlib.Algebra.Ring.Basic
import Qvnt.Lemmas.Queue
import Qvnt.Lemmas.GenBits.bitsList_eq
import Qvnt.Model.Reg
import Qvnt.Lemmas.GenVirtl.vregOfModel

set_option linter.unusedSectionVars false
namespace Qvnt.Gen2
open Qvnt Qvnt.Gen
variable {R : Type}

theorem vreg_new_with_mask_eq (m : Nat) : vreg_new_with_mask m = vregOfModel (VReg.ofMask m) := by
  have := bitsList_eq m
  unfold bitsList at this
  simp [vreg_new_with_mask, vregOfModel, VReg.ofMask, this]

end Qvnt.Gen2
