/- `quant_get_vreg_by_eq` of GenVirtl.lean (one module per declaration, tools/lean_split.py) -/
import Qvnt.Generated.Regs
import Qvnt.Generated.Kernels
import Qvnt.Lemmas.Bits
import Mathlib.Tactic.Ring
import Mathlib.Algebra.Ring.Basic
import Qvnt.Lemmas.Queue
import Qvnt.Lemmas.GenPre.ofModel
import Qvnt.Model.Reg
import Qvnt.Lemmas.GenRegs.notW_eq
import Qvnt.Lemmas.GenVirtl.vregOfModel
import Qvnt.Lemmas.GenVirtl.vreg_new_with_mask_eq

set_option linter.unusedSectionVars false
namespace Qvnt.Gen2
open Qvnt Qvnt.Gen
variable {R : Type}

theorem quant_get_vreg_by_eq (r : QReg R) (mask : Nat) :
    quant_get_vreg_by (ofModel r) mask = (r.getVRegBy mask).map vregOfModel := by
  unfold quant_get_vreg_by QReg.getVRegBy
  simp only [ofModel, notW_eq, vreg_new_with_mask_eq]
  by_cases h : mask &&& CReg.notW r.qMask = 0 <;> simp [h]

end Qvnt.Gen2
