/- `vreg_index_eq` of GenVirtl.lean (one module per declaration, tools/lean_split.py) -/
import Qvnt.Generated.Regs
import Qvnt.Generated.Kernels
import Qvnt.Lemmas.Bits
import Mathlib.Tactic.Ring
import Mathlib.Algebra.Ring.Basic
import Qvnt.Lemmas.Queue
import Qvnt.Model.Reg
import Qvnt.Lemmas.GenVirtl.vregOfModel

set_option linter.unusedSectionVars false
namespace Qvnt.Gen2
open Qvnt Qvnt.Gen
variable {R : Type}

theorem vreg_index_eq (v : VReg) (i : Nat) : vreg_index (vregOfModel v) i = (v.idx i).getD 0 := by
  simp [vreg_index, vregOfModel, VReg.idx, List.getD_eq_getElem?_getD]

end Qvnt.Gen2
