/- `vreg_index_by_eq` of GenVirtl.lean (one module per declaration, tools/lean_split.py) -/
import Qvnt.Generated.Regs
import Qvnt.Generated.Kernels
import Qvnt.Lemmas.Bits
import Mathlib.Tactic.Ring
import Mathlib.Algebra.Ring.Basic
import Qvnt.Lemmas.Queue
import Qvnt.Model.Reg
import Qvnt.Lemmas.GenVirtl.vregOfModel
import Qvnt.Lemmas.GenVirtl.foldl_filterMap_p

set_option linter.unusedSectionVars false
namespace Qvnt.Gen2
open Qvnt Qvnt.Gen
variable {R : Type}

theorem vreg_index_by_eq (v : VReg) (f : Nat → Bool) : vreg_index_by (vregOfModel v) f = v.idxBy f := by
  unfold vreg_index_by VReg.idxBy vregOfModel Rs.enumerate
  simp only [foldl_filterMap', List.foldl_map]
  congr 1
  funext acc p
  cases f p.2 <;> simp

end Qvnt.Gen2
