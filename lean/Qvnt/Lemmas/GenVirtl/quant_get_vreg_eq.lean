/- `quant_get_vreg_eq` of GenVirtl.lean (one module per declaration, tools/lean_split.py) -/
import Qvnt.Generated.Regs
import Qvnt.Generated.Kernels
import Qvnt.Lemmas.Bits
import Mathlib.Tactic.Ring
import Mathlib.Algebra.Ring.Basic
import Qvnt.Lemmas.Queue
import Qvnt.Lemmas.GenPre.ofModel
import Qvnt.Model.Reg
import Qvnt.Lemmas.GenVirtl.vregOfModel
import Qvnt.Lemmas.GenVirtl.vreg_new_with_mask_eq

set_option linter.unusedSectionVars false
namespace Qvnt.Gen2
open Qvnt Qvnt.Gen
variable {R : Type}

theorem quant_get_vreg_eq (r : QReg R) : quant_get_vreg (ofModel r) = vregOfModel r.getVReg := by
  simp [quant_get_vreg, QReg.getVReg, ofModel, vreg_new_with_mask_eq]

end Qvnt.Gen2
