/- `foldl_filterMap'` of GenVirtl.lean (one module per declaration, tools/lean_split.py) -/
import Qvnt.Generated.Regs
import Qvnt.Generated.Kernels
import Qvnt.Lemmas.Bits
import Mathlib.Tactic.Ring
import Mathlib.Algebra.Ring.Basic
import Qvnt.Lemmas.Queue
import Qvnt.Model.Reg

set_option linter.unusedSectionVars false
namespace Qvnt.Gen2
open Qvnt Qvnt.Gen
variable {R : Type}

theorem foldl_filterMap' {α β γ : Type} (f : β → Option γ) (g : α → γ → α) (l : List β) (a : α) :
    List.foldl g a (List.filterMap f l) = List.foldl (fun acc b => match f b with | some c => g acc c | none => acc) a l := by
  induction l generalizing a with
  | nil => rfl
  | cons x xs ih =>
    simp only [List.filterMap_cons, List.foldl_cons]
    cases f x <;> simp [ih]

end Qvnt.Gen2
