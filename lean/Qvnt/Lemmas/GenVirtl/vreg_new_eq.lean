/- `vreg_new_eq` of GenVirtl.lean (one module per declaration, tools/lean_split.py) -/
import Qvnt.Generated.Regs
import Qvnt.Generated.Kernels
import Qvnt.Lemmas.Bits
import Mathlib.Tactic.Ring
import Mathlib.Algebra.Ring.Basic
import Qvnt.Lemmas.Queue
import Qvnt.Lemmas.GenPre.shl_one
import Qvnt.Lemmas.GenPre.mask_eq
import Qvnt.Model.Reg
import Qvnt.Lemmas.GenVirtl.vregOfModel
import Qvnt.Lemmas.GenVirtl.vreg_new_with_mask_eq

set_option linter.unusedSectionVars false
namespace Qvnt.Gen2
open Qvnt Qvnt.Gen
variable {R : Type}

theorem vreg_new_eq (n : Nat) : vreg_new n = vregOfModel (VReg.new n) := by
  unfold vreg_new VReg.new CReg.maskOf W
  rw [vreg_new_with_mask_eq]
  by_cases h : n ≥ 64
  · simp [h, Qvnt.notW]
  · have hn : n < 64 := by omega
    simp [h, shl_one n hn, mask_eq n hn]

end Qvnt.Gen2
