/-
LEMMAS — the block queue of the interpreter (`ExtOp`) as a list of events, the run of
`Sym.finish` as a fold over those events, and what every queue function and every
interpreter statement contributes to the event list (up to observational equivalence of
event lists). Used by Props/C17, C18, C11.
-/
import Qvnt.Lemmas.Structure
import Qvnt.Lemmas.Bits
import Qvnt.Model.Interp
import Qvnt.Spec.RefSem

set_option linter.unusedSectionVars false

namespace Qvnt

theorem dropLast_append_of_getLast? {α : Type} {l : List α} {a : α} (h : l.getLast? = some a) :
    l.dropLast ++ [a] = l := by
  have hne : l ≠ [] := by rintro rfl; simp at h
  rw [List.getLast?_eq_some_getLast hne] at h
  have := List.dropLast_concat_getLast hne
  simp only [Option.some.injEq] at h
  rw [h] at this; exact this

theorem List.eq_nil_of_not_isEmpty_not {α : Type} {l : List α} (h : ¬(!l.isEmpty) = true) : l = [] := by
  cases l with
  | nil => rfl
  | cons a l => simp at h

/-! ### A. events of a block queue -/

/-- what executing the block queue does, one item at a time: apply an operator, measure,
apply an operator under a classical condition, reset. A block `(o, measure q c)` is the two
events `app o, meas q c` (likewise `reset`); a block `(o, ifBranch c v)` is the single event
`cond c v o`. -/
inductive Ev (R : Type) where
  | app (o : MultiOp R)
  | meas (q c : Nat)
  | cond (c v : Nat) (o : MultiOp R)
  | reset (q : Nat)

/-- the events of one block -/
def Ev.ofBlock {R : Type} (b : MultiOp R × Sep) : List (Ev R) :=
  match b.2 with
  | .nop => [.app b.1]
  | .measure q c => [.app b.1, .meas q c]
  | .ifBranch c v => [.cond c v b.1]
  | .reset q => [.app b.1, .reset q]

/-- the events of a queue: those of its blocks in order, then the unconditional tail -/
def ExtOp.events {R : Type} (e : ExtOp R) : List (Ev R) :=
  e.blocks.flatMap Ev.ofBlock ++ [.app e.tail]

/-- the part of a `Sym` that execution changes, plus the remaining measurement outcomes -/
structure RunSt (R : Type) where
  mOp : MeasureOp
  qReg : QReg R
  cReg : CReg
  drawn : List Nat

section run
variable {R : Type} [Add R] [Sub R] [Mul R] [Neg R] [Zero R] [One R] [Div R] [Consts R]
  [LE R] [DecidableLE R] [LT R] [DecidableLT R] [HasSqrt R] [RegConsts R]

/-- one event: the body of `stepBlock` in `Sym.finish`, cut at the operator application -/
def Ev.run (st : RunSt R) : Ev R → Option (RunSt R)
  | .app o => some { st with qReg := st.qReg.apply o }
  | .meas qa ca =>
    if Sym.draws st.qReg qa then
      match st.drawn with
      | [] => none
      | d :: ds =>
        let (q', c) := st.qReg.measureMask qa d
        some { st with qReg := q', cReg := Sym.storeBits st.mOp st.cReg c.value qa ca, drawn := ds }
    else
      let (q', c) := st.qReg.measureMask qa 0
      some { st with qReg := q', cReg := Sym.storeBits st.mOp st.cReg c.value qa ca }
  | .cond c v o =>
    if st.cReg.getByMask c = v then some { st with qReg := st.qReg.apply o } else some st
  | .reset qm =>
    if qm &&& st.qReg.qMask = st.qReg.qMask then some { st with qReg := st.qReg.resetByMask qm 0 }
    else if Sym.draws st.qReg qm then
      match st.drawn with
      | [] => none
      | d :: ds => some { st with qReg := st.qReg.resetByMask qm d, drawn := ds }
    else some { st with qReg := st.qReg.resetByMask qm 0 }

/-- run a list of events, stopping when the outcome stream runs out -/
def runEvs : List (Ev R) → RunSt R → Option (RunSt R)
  | [], st => some st
  | e :: l, st => (Ev.run st e).bind (runEvs l)

@[simp] theorem runEvs_nil (st : RunSt R) : runEvs [] st = some st := rfl

theorem runEvs_cons (e : Ev R) (l : List (Ev R)) (st : RunSt R) :
    runEvs (e :: l) st = (Ev.run st e).bind (runEvs l) := rfl

theorem runEvs_append (l₁ l₂ : List (Ev R)) (st : RunSt R) :
    runEvs (l₁ ++ l₂) st = (runEvs l₁ st).bind (runEvs l₂) := by
  induction l₁ generalizing st with
  | nil => rfl
  | cons e l ih =>
    simp only [List.cons_append, runEvs_cons]
    cases Ev.run st e with
    | none => rfl
    | some st' => simp only [Option.bind_some, ih]

/-- `runEvs` is the left fold `Sym.finish` performs -/
theorem runEvs_eq_foldl (l : List (Ev R)) (st : RunSt R) :
    runEvs l st = l.foldl (fun s e => s.bind (fun s => Ev.run s e)) (some st) := by
  suffices h : ∀ (o : Option (RunSt R)),
      o.bind (runEvs l) = l.foldl (fun s e => s.bind (fun s => Ev.run s e)) o from h (some st)
  induction l with
  | nil => intro o; cases o <;> rfl
  | cons e l ih =>
    intro o
    simp only [List.foldl_cons, ← ih]
    cases o <;> rfl

/-- the `Sym` ↔ `RunSt` packing -/
def Sym.toRun (s : Sym R) (drawn : List Nat) : RunSt R := ⟨s.mOp, s.qReg, s.cReg, drawn⟩
def RunSt.toSym (qOps : ExtOp R) (st : RunSt R) : Sym R × List Nat :=
  (⟨st.mOp, st.qReg, st.cReg, qOps⟩, st.drawn)

/-- verbatim copy of the local function `stepBlock` of `Sym.finish` -/
def Sym.stepBlock (st : Option (Sym R × List Nat)) (b : MultiOp R × Sep) : Option (Sym R × List Nat) :=
  match st with
  | none => none
  | some (s, drawn) =>
    match b.2 with
    | .nop => some ({ s with qReg := s.qReg.apply b.1 }, drawn)
    | .measure qa ca =>
      let q := s.qReg.apply b.1
      if Sym.draws q qa then
        match drawn with
        | [] => none
        | d :: ds =>
          let (q', c) := q.measureMask qa d
          some ({ s with qReg := q', cReg := Sym.storeBits s.mOp s.cReg c.value qa ca }, ds)
      else
        let (q', c) := q.measureMask qa 0
        some ({ s with qReg := q', cReg := Sym.storeBits s.mOp s.cReg c.value qa ca }, drawn)
    | .ifBranch c v =>
      if s.cReg.getByMask c = v then some ({ s with qReg := s.qReg.apply b.1 }, drawn)
      else some (s, drawn)
    | .reset qm =>
      let q := s.qReg.apply b.1
      if qm &&& q.qMask = q.qMask then some ({ s with qReg := q.resetByMask qm 0 }, drawn)
      else if Sym.draws q qm then
        match drawn with
        | [] => none
        | d :: ds => some ({ s with qReg := q.resetByMask qm d }, ds)
      else some ({ s with qReg := q.resetByMask qm 0 }, drawn)

theorem Sym.finish_eq_stepBlock (s : Sym R) (drawn : List Nat) :
    Sym.finish s drawn =
      match s.qOps.blocks.foldl Sym.stepBlock (some (s, drawn)) with
      | none => none
      | some (s', rest) => some ({ s' with qReg := s'.qReg.apply s'.qOps.tail }, rest) := rfl

/-- one block = its events -/
theorem Sym.stepBlock_eq (s : Sym R) (drawn : List Nat) (b : MultiOp R × Sep) :
    Sym.stepBlock (some (s, drawn)) b
      = (runEvs (Ev.ofBlock b) (s.toRun drawn)).map (RunSt.toSym s.qOps) := by
  obtain ⟨o, sep⟩ := b
  cases sep with
  | nop => rfl
  | measure qa ca =>
    simp only [Sym.stepBlock, Ev.ofBlock, runEvs, Ev.run, Option.bind_some, Sym.toRun]
    split
    · cases drawn <;> rfl
    · rfl
  | ifBranch c v =>
    simp only [Sym.stepBlock, Ev.ofBlock, runEvs, Ev.run, Sym.toRun]
    split <;> rfl
  | reset qm =>
    simp only [Sym.stepBlock, Ev.ofBlock, runEvs, Ev.run, Option.bind_some, Sym.toRun]
    split
    · rfl
    · split
      · cases drawn <;> rfl
      · rfl

theorem Sym.foldl_stepBlock_none (bs : List (MultiOp R × Sep)) :
    bs.foldl Sym.stepBlock (none : Option (Sym R × List Nat)) = none := by
  induction bs with
  | nil => rfl
  | cons b bs ih => exact ih

theorem Sym.foldl_stepBlock_eq (bs : List (MultiOp R × Sep)) (s : Sym R) (drawn : List Nat) :
    bs.foldl Sym.stepBlock (some (s, drawn))
      = (runEvs (bs.flatMap Ev.ofBlock) (s.toRun drawn)).map (RunSt.toSym s.qOps) := by
  induction bs generalizing s drawn with
  | nil => rfl
  | cons b bs ih =>
    simp only [List.foldl_cons, List.flatMap_cons, runEvs_append, Sym.stepBlock_eq]
    cases runEvs (Ev.ofBlock b) (s.toRun drawn) with
    | none => simp only [Option.map_none, Option.bind_none]; exact Sym.foldl_stepBlock_none bs
    | some st => simp only [Option.map_some, Option.bind_some]; exact ih _ _

/-- **`Sym.finish` factors through the event list of the queue.** -/
theorem Sym.finish_eq_events (s : Sym R) (drawn : List Nat) :
    Sym.finish s drawn
      = (runEvs s.qOps.events (s.toRun drawn)).map (RunSt.toSym s.qOps) := by
  rw [Sym.finish_eq_stepBlock, Sym.foldl_stepBlock_eq, ExtOp.events, runEvs_append]
  cases runEvs (List.flatMap Ev.ofBlock s.qOps.blocks) (s.toRun drawn) with
  | none => rfl
  | some st => rfl

/-! ### observational equivalence of event lists -/

/-- two event lists that act alike on every state and every outcome stream -/
def EvEquiv (l₁ l₂ : List (Ev R)) : Prop := ∀ st : RunSt R, runEvs l₁ st = runEvs l₂ st

@[inherit_doc] infix:50 " ≃ₑ " => EvEquiv

namespace EvEquiv

theorem refl (l : List (Ev R)) : l ≃ₑ l := fun _ => rfl
theorem symm {l₁ l₂ : List (Ev R)} (h : l₁ ≃ₑ l₂) : l₂ ≃ₑ l₁ := fun st => (h st).symm
theorem trans {l₁ l₂ l₃ : List (Ev R)} (h : l₁ ≃ₑ l₂) (h' : l₂ ≃ₑ l₃) : l₁ ≃ₑ l₃ :=
  fun st => (h st).trans (h' st)
theorem of_eq {l₁ l₂ : List (Ev R)} (h : l₁ = l₂) : l₁ ≃ₑ l₂ := h ▸ refl l₁

theorem append {a a' b b' : List (Ev R)} (h : a ≃ₑ a') (h' : b ≃ₑ b') : a ++ b ≃ₑ a' ++ b' := by
  intro st
  rw [runEvs_append, runEvs_append, h st]
  cases runEvs a' st with
  | none => rfl
  | some st' => exact h' st'

theorem append_left {a a' : List (Ev R)} (h : a ≃ₑ a') (b : List (Ev R)) : a ++ b ≃ₑ a' ++ b :=
  append h (refl b)
theorem append_right (a : List (Ev R)) {b b' : List (Ev R)} (h : b ≃ₑ b') : a ++ b ≃ₑ a ++ b' :=
  append (refl a) h

/-- C04 on the queue: one block `a ++ b` acts as `a`, then `b` -/
theorem app_append (a b : MultiOp R) : [Ev.app (a ++ b)] ≃ₑ [Ev.app a, Ev.app b] := by
  intro st
  simp only [runEvs, Ev.run, Option.bind_some]
  rw [show a ++ b = MultiOp.mul a b from rfl, QReg.apply_mul]

/-- an empty unconditional block does nothing -/
theorem app_nil : [Ev.app ([] : MultiOp R)] ≃ₑ [] := by
  intro st
  simp only [runEvs, Ev.run, Option.bind_some, QReg.apply_nil]

/-- an empty conditional block does nothing -/
theorem cond_nil (c v : Nat) : [Ev.cond c v ([] : MultiOp R)] ≃ₑ [] := by
  intro st
  simp only [runEvs, Ev.run, QReg.apply_nil]
  split <;> rfl

theorem app_nil_cons (l : List (Ev R)) : Ev.app ([] : MultiOp R) :: l ≃ₑ l :=
  append_left app_nil l

theorem append_app_nil (l : List (Ev R)) : l ++ [Ev.app ([] : MultiOp R)] ≃ₑ l := by
  simpa only [List.append_nil] using append_right l app_nil

end EvEquiv

/-! ### a syntactic normal form (adjacent unconditional blocks merged, empty ones dropped) -/

/-- merge adjacent `app`s and drop `app []`; conditional blocks absorb nothing -/
def Ev.norm : List (Ev R) → List (Ev R)
  | [] => []
  | .app a :: rest =>
    match Ev.norm rest with
    | .app b :: r => .app (a ++ b) :: r
    | r => if a.isEmpty then r else .app a :: r
  | .meas q c :: rest => .meas q c :: Ev.norm rest
  | .cond c v o :: rest => .cond c v o :: Ev.norm rest
  | .reset q :: rest => .reset q :: Ev.norm rest

/-- running is invariant under `norm` (C04 on the queue) -/
theorem Ev.norm_equiv (l : List (Ev R)) : Ev.norm l ≃ₑ l := by
  induction l with
  | nil => exact EvEquiv.refl _
  | cons e l ih =>
    cases e with
    | app a =>
      simp only [Ev.norm]
      split
      next b r hb =>
        rw [hb] at ih
        refine EvEquiv.trans ?_ (EvEquiv.append_right [Ev.app a] ih)
        exact EvEquiv.append_left (EvEquiv.app_append a b) r
      next =>
        split
        next ha =>
          rw [List.isEmpty_iff.mp ha]
          exact EvEquiv.trans ih (EvEquiv.symm (EvEquiv.app_nil_cons l))
        next => exact EvEquiv.append_right [Ev.app a] ih
    | meas q c => exact EvEquiv.append_right [Ev.meas q c] ih
    | cond c v o => exact EvEquiv.append_right [Ev.cond c v o] ih
    | reset q => exact EvEquiv.append_right [Ev.reset q] ih

/-- event lists with the same normal form act alike -/
theorem EvEquiv.of_norm_eq {l₁ l₂ : List (Ev R)} (h : Ev.norm l₁ = Ev.norm l₂) : l₁ ≃ₑ l₂ :=
  EvEquiv.trans (EvEquiv.symm (Ev.norm_equiv l₁)) (h ▸ Ev.norm_equiv l₂)

/-! ### what each queue function does to the events -/

namespace ExtOp

theorem events_mk (bs : List (MultiOp R × Sep)) (t : MultiOp R) :
    (ExtOp.mk bs t).events = bs.flatMap Ev.ofBlock ++ [Ev.app t] := rfl

theorem events_empty : (({} : ExtOp R).events) ≃ₑ [] := EvEquiv.app_nil

/-- the blocks of a queue whose last block is unconditional -/
theorem flatMap_dropLast {bs : List (MultiOp R × Sep)} {l : MultiOp R}
    (h : bs.getLast? = some (l, Sep.nop)) :
    bs.flatMap Ev.ofBlock = bs.dropLast.flatMap Ev.ofBlock ++ [Ev.app l] := by
  have : bs = bs.dropLast ++ [(l, Sep.nop)] := (dropLast_append_of_getLast? h).symm
  conv => lhs; rw [this]
  simp only [List.flatMap_append, List.flatMap_cons, List.flatMap_nil, List.append_nil, Ev.ofBlock]

/-- `push o`: one more unconditional application -/
theorem events_push (e : ExtOp R) (o : MultiOp R) : (e.push o).events ≃ₑ e.events ++ [Ev.app o] := by
  unfold ExtOp.push
  split
  next ht =>
    have ht' : e.tail = [] := List.isEmpty_iff.mp ht
    split
    next last hl =>
      simp only [events, List.flatMap_append, List.flatMap_cons, List.flatMap_nil,
        List.append_nil, Ev.ofBlock, flatMap_dropLast hl, ht', List.append_assoc]
      refine EvEquiv.append_right _ ?_
      refine EvEquiv.trans (EvEquiv.append_app_nil _) ?_
      refine EvEquiv.trans (EvEquiv.app_append last o) ?_
      exact EvEquiv.symm (EvEquiv.append_right [Ev.app last] (EvEquiv.app_nil_cons _))
    next =>
      simp only [events, ht', List.append_assoc]
      exact EvEquiv.append_right _ (EvEquiv.symm (EvEquiv.app_nil_cons _))
  next =>
    simp only [events, List.append_assoc]
    exact EvEquiv.append_right _ (EvEquiv.app_append _ _)

theorem events_append_blocks (e : ExtOp R) :
    (if !e.tail.isEmpty then
        match e.blocks.getLast? with
        | some (l0, .nop) => e.blocks.dropLast ++ [(l0 ++ e.tail, Sep.nop)]
        | _ => e.blocks ++ [(e.tail, Sep.nop)]
      else e.blocks).flatMap Ev.ofBlock ≃ₑ e.events := by
  split
  next ht =>
    split
    next l0 hl =>
      simp only [events, List.flatMap_append, List.flatMap_cons, List.flatMap_nil, List.append_nil,
        Ev.ofBlock, flatMap_dropLast hl, List.append_assoc]
      exact EvEquiv.append_right _ (EvEquiv.app_append _ _)
    next =>
      simp only [events, List.flatMap_append, List.flatMap_cons, List.flatMap_nil, List.append_nil,
        Ev.ofBlock]
      exact EvEquiv.refl _
  next ht =>
    rw [events, List.eq_nil_of_not_isEmpty_not ht]
    exact EvEquiv.symm (EvEquiv.append_app_nil _)

/-- `append`: the events of the first queue, then those of the second -/
theorem events_append (e f : ExtOp R) : (e.append f).events ≃ₑ e.events ++ f.events := by
  simp only [ExtOp.append, events_mk, List.flatMap_append]
  rw [List.append_assoc]
  exact EvEquiv.append_left (events_append_blocks e) _

/-- `branch nop` closes the tail into a block: no observable change -/
theorem events_branch_nop (e : ExtOp R) : (e.branch .nop).events ≃ₑ e.events := by
  unfold ExtOp.branch
  split
  next =>
    simp only [events, List.flatMap_append, List.flatMap_cons, List.flatMap_nil, List.append_nil,
      Ev.ofBlock]
    exact EvEquiv.append_app_nil _
  next ht =>
    have ht' : e.tail = [] := List.eq_nil_of_not_isEmpty_not ht
    simp only [events, ht']
    exact EvEquiv.refl _

omit [Add R] [Sub R] [Mul R] [Neg R] [Zero R] [One R] [Div R] [Consts R] [LE R] [DecidableLE R] [LT R] [DecidableLT R]
  [HasSqrt R] [RegConsts R] in
theorem branch_nop_tail (e : ExtOp R) : (e.branch .nop).tail = [] := by
  unfold ExtOp.branch; split <;> rfl

/-- `branch_with_id (measure q c)`: one measurement after everything queued so far -/
theorem events_branchWithId_measure (e : ExtOp R) (q c : Nat) :
    (e.branchWithId (.measure q c)).events ≃ₑ e.events ++ [Ev.meas q c] := by
  simp only [ExtOp.branchWithId, events, List.flatMap_append, List.flatMap_cons, List.flatMap_nil,
    List.append_nil, Ev.ofBlock, List.append_assoc]
  exact EvEquiv.append_right _ (EvEquiv.append_app_nil [Ev.app e.tail, Ev.meas q c])

/-- `branch_with_id (reset q)`: one reset after everything queued so far -/
theorem events_branchWithId_reset (e : ExtOp R) (q : Nat) :
    (e.branchWithId (.reset q)).events ≃ₑ e.events ++ [Ev.reset q] := by
  simp only [ExtOp.branchWithId, events, List.flatMap_append, List.flatMap_cons, List.flatMap_nil,
    List.append_nil, Ev.ofBlock, List.append_assoc]
  exact EvEquiv.append_right _ (EvEquiv.append_app_nil [Ev.app e.tail, Ev.reset q])

end ExtOp

end run

/-! ### B. what one statement contributes to the interpreter -/

/-- `Res` is a functor -/
def Res.map {α β : Type} (f : α → β) : Res α → Res β
  | .ok a => .ok (f a)
  | .err e => .err e
  | .panic s => .panic s

/-- the change a single accepted statement makes to `changes` -/
inductive Delta (R : Type) where
  | none
  | qreg (l : List String)
  | creg (l : List String)
  | macro (name : String) (m : Macro R)
  | push (o : MultiOp R)
  | meas (q c : Nat)
  | reset (q : Nat)
  | guard (c v : Nat) (o : MultiOp R)

/-- what `process_if` does to the queue once the guarded operator `o` is known -/
def ExtOp.guard {R : Type} (e : ExtOp R) (c v : Nat) (o : MultiOp R) : ExtOp R :=
  if !o.isEmpty then
    { e.branch .nop with blocks := (e.branch .nop).blocks ++ [(o, .ifBranch c v)] }
  else e.branch .nop

def Delta.apply {R : Type} (d : Interp R) : Delta R → Interp R
  | .none => d
  | .qreg l => { d with qReg := d.qReg ++ l }
  | .creg l => { d with cReg := d.cReg ++ l }
  | .macro name m => { d with macros := d.macros ++ [(name, m)] }
  | .push o => { d with qOps := d.qOps.push o }
  | .meas q c => { d with qOps := d.qOps.branchWithId (.measure q c) }
  | .reset q => { d with qOps := d.qOps.branchWithId (.reset q) }
  | .guard c v o => { d with qOps := d.qOps.guard c v o }

/-- the events a statement contributes -/
def Delta.events {R : Type} : Delta R → List (Ev R)
  | .push o => [.app o]
  | .meas q c => [.meas q c]
  | .reset q => [.reset q]
  | .guard c v o => [.cond c v o]
  | _ => []

def Delta.qregs {R : Type} : Delta R → List String
  | .qreg l => l
  | _ => []
def Delta.cregs {R : Type} : Delta R → List String
  | .creg l => l
  | _ => []
def Delta.macros {R : Type} : Delta R → List (String × Macro R)
  | .macro n m => [(n, m)]
  | _ => []

section proc
variable {R : Type} [Add R] [Sub R] [Mul R] [Neg R] [Div R] [ExprFns R] [AngleFns R]

namespace Interp

/-- the checks of a `qreg` declaration -/
def declQ (self d : Interp R) (alias : String) (n : Nat) : Except IntError Unit := do
  checkIdent alias; checkRegSize alias n
  checkRegSize alias (self.qReg.length + d.qReg.length + n)
  checkDup self d alias

/-- the checks of a `creg` declaration -/
def declC (self d : Interp R) (alias : String) (n : Nat) : Except IntError Unit := do
  checkIdent alias; checkRegSize alias n
  checkRegSize alias (self.cReg.length + d.cReg.length + n)
  checkDup self d alias

/-- the operator a gate statement denotes for the interpreter (`process_apply_gate` up to
the push) -/
def callOp (self d : Interp R) (c : Call R) : Res (MultiOp R) :=
  match processApply.regsOf self d c.regs [] with
  | .error e => .err e
  | .ok regs =>
    match processApply.argsOf c.args [] with
    | .error e => .err e
    | .ok args =>
      match lookupLast (self.macros ++ d.macros) c.name with
      | some m => Macro.process (self.macros ++ d.macros) ((self.macros ++ d.macros).length + 2) m
          c.name regs args [c.name]
      | none => Gates.process c.name regs args

theorem processApply_eq (self d : Interp R) (c : Call R) :
    processApply self d c = (callOp self d c).map (fun o => { d with qOps := d.qOps.push o }) := by
  unfold processApply callOp
  cases processApply.regsOf self d c.regs [] with
  | error e => rfl
  | ok regs =>
    simp only []
    cases processApply.argsOf c.args [] with
    | error e => rfl
    | ok args =>
      simp only []
      cases lookupLast (self.macros ++ d.macros) c.name with
      | none =>
        dsimp only []
        generalize Gates.process c.name regs args = res
        cases res <;> rfl
      | some m =>
        dsimp only []
        generalize Macro.process (self.macros ++ d.macros) _ m c.name regs args [c.name] = res
        cases res <;> rfl

/-- the change statement `n` makes, as a function of the session and the changes so far -/
def nodeDelta (self d : Interp R) : Node R → Res (Delta R)
  | .qreg alias n =>
    match declQ self d alias n with
    | .ok () => .ok (.qreg (List.replicate n alias))
    | .error e => .err e
  | .creg alias n =>
    match declC self d alias n with
    | .ok () => .ok (.creg (List.replicate n alias))
    | .error e => .err e
  | .barrier => .ok .none
  | .opaque => .ok .none
  | .reset a =>
    match getIdx self d true a with
    | .ok idx => .ok (.reset idx)
    | .error e => .err e
  | .measure q c =>
    match getIdx self d true q with
    | .error e => .err e
    | .ok qa =>
      match getIdx self d false c with
      | .error e => .err e
      | .ok ca =>
        if popcount qa ≠ popcount ca then .err (.unmatchedRegSize (popcount qa) (popcount ca))
        else .ok (.meas qa ca)
  | .apply c => (callOp self d c).map .push
  | .gate name regs args body =>
    match Macro.new regs args body with
    | .error e => .err e
    | .ok m =>
      if !(self.macros.any (·.1 == name)) && !(d.macros.any (·.1 == name)) then
        match checkIdent name with
        | .ok () => .ok (.macro name m)
        | .error e => .err e
      else .err (.macroAlreadyDefined name)
  | .ifn lhs rhs body =>
    match body with
    | .call c =>
      match getIdx self d false (.register lhs) with
      | .error e => .err e
      | .ok val => (callOp self d c).map (.guard val rhs)
    | .other => .err .disallowedNodeInIf

/-- two (session, changes) pairs that present the same registers and gate definitions -/
structure SameView (s d s' d' : Interp R) : Prop where
  q : s.qReg ++ d.qReg = s'.qReg ++ d'.qReg
  c : s.cReg ++ d.cReg = s'.cReg ++ d'.cReg
  m : s.macros ++ d.macros = s'.macros ++ d'.macros

theorem SameView.symm {self d self' d' : Interp R} (h : SameView self d self' d') :
    SameView self' d' self d := ⟨h.q.symm, h.c.symm, h.m.symm⟩

theorem getIdx_congr {self d self' d' : Interp R} (h : SameView self d self' d') (q : Bool) (a : Arg) :
    getIdx self d q a = getIdx self' d' q a := by
  unfold getIdx
  cases q
  · simp only [Bool.false_eq_true, if_false, h.c]
  · simp only [if_true, h.q]

theorem regsOf_congr {self d self' d' : Interp R} (h : SameView self d self' d') (as : List Arg)
    (acc : List Nat) :
    processApply.regsOf self d as acc = processApply.regsOf self' d' as acc := by
  induction as generalizing acc with
  | nil => rfl
  | cons a as ih =>
    simp only [processApply.regsOf, getIdx_congr h]
    cases getIdx self' d' true a with
    | error e => rfl
    | ok m => exact ih _

theorem callOp_congr {self d self' d' : Interp R} (h : SameView self d self' d') (c : Call R) :
    callOp self d c = callOp self' d' c := by
  simp only [callOp, regsOf_congr h, h.m]

/-- **`process_node` = compute the statement's change, then apply it to `changes`.** -/
theorem processNode_eq (self d : Interp R) (n : Node R) :
    processNode self d n = (nodeDelta self d n).map (Delta.apply d) := by
  cases n with
  | qreg alias k =>
    show (match declQ self d alias k with
      | .ok () => Res.ok { d with qReg := d.qReg ++ List.replicate k alias }
      | .error e => .err e) = _
    simp only [nodeDelta]
    cases declQ self d alias k <;> rfl
  | creg alias k =>
    show (match declC self d alias k with
      | .ok () => Res.ok { d with cReg := d.cReg ++ List.replicate k alias }
      | .error e => .err e) = _
    simp only [nodeDelta]
    cases declC self d alias k <;> rfl
  | barrier => rfl
  | «opaque» => rfl
  | reset a =>
    simp only [processNode, nodeDelta]
    cases getIdx self d true a <;> rfl
  | measure q c =>
    simp only [processNode, nodeDelta]
    cases getIdx self d true q with
    | error e => rfl
    | ok qa =>
      dsimp only []
      cases getIdx self d false c with
      | error e => rfl
      | ok ca =>
        dsimp only []
        split <;> rfl
  | apply c =>
    simp only [processNode, nodeDelta, processApply_eq]
    cases callOp self d c <;> rfl
  | gate name regs args body =>
    simp only [processNode, nodeDelta]
    cases Macro.new regs args body with
    | error e => rfl
    | ok m =>
      dsimp only []
      split
      · cases checkIdent name <;> rfl
      · rfl
  | ifn lhs rhs body =>
    cases body with
    | other => rfl
    | call c =>
      simp only [processNode, nodeDelta, processApply_eq]
      show (match getIdx self d false (Arg.register lhs) with
        | .error e => Res.err e
        | .ok val => _) = _
      cases getIdx self d false (Arg.register lhs) with
      | error e => rfl
      | ok val =>
        dsimp only []
        have hc : callOp self { d with qOps := {} } c = callOp self d c :=
          callOp_congr (self := self) (d := { d with qOps := {} }) (self' := self) (d' := d)
            ⟨rfl, rfl, rfl⟩ c
        rw [hc]
        cases callOp self d c with
        | err e => rfl
        | panic s => rfl
        | ok o =>
          simp only [Res.map, Delta.apply, ExtOp.guard, ExtOp.push]
          rfl

/-! #### a statement sees the session only through the concatenated registers and gates -/

theorem cnt_pos_iff (l : List String) (a : String) : (l.filter (· == a)).length > 0 ↔ a ∈ l := by
  induction l with
  | nil => simp
  | cons x l ih =>
    by_cases hx : x = a
    · subst hx; simp
    · have : (x == a) = false := by simpa using hx
      simp only [List.filter_cons, this, Bool.false_eq_true, if_false, ih, List.mem_cons]
      constructor
      · exact Or.inr
      · rintro (h | h)
        · exact absurd h.symm hx
        · exact h

theorem checkDup_ok_iff (self d : Interp R) (a : String) :
    checkDup self d a = .ok () ↔ a ∉ self.qReg ++ d.qReg ∧ a ∉ self.cReg ++ d.cReg := by
  simp only [checkDup, cnt_pos_iff, List.mem_append, not_or]
  by_cases h1 : a ∈ self.qReg <;> by_cases h2 : a ∈ self.cReg <;> by_cases h3 : a ∈ d.qReg <;>
    by_cases h4 : a ∈ d.cReg <;> simp [h1, h2, h3, h4]

theorem declQ_ok_iff (self d : Interp R) (a : String) (n : Nat) :
    declQ self d a n = .ok () ↔
      checkIdent a = .ok () ∧ checkRegSize a n = .ok () ∧
      checkRegSize a ((self.qReg ++ d.qReg).length + n) = .ok () ∧
      (a ∉ self.qReg ++ d.qReg ∧ a ∉ self.cReg ++ d.cReg) := by
  rw [← checkDup_ok_iff, List.length_append]
  simp only [declQ, bind, Except.bind]
  cases checkIdent a <;> cases checkRegSize a n <;>
    cases checkRegSize a (self.qReg.length + d.qReg.length + n) <;> simp

theorem declC_ok_iff (self d : Interp R) (a : String) (n : Nat) :
    declC self d a n = .ok () ↔
      checkIdent a = .ok () ∧ checkRegSize a n = .ok () ∧
      checkRegSize a ((self.cReg ++ d.cReg).length + n) = .ok () ∧
      (a ∉ self.qReg ++ d.qReg ∧ a ∉ self.cReg ++ d.cReg) := by
  rw [← checkDup_ok_iff, List.length_append]
  simp only [declC, bind, Except.bind]
  cases checkIdent a <;> cases checkRegSize a n <;>
    cases checkRegSize a (self.cReg.length + d.cReg.length + n) <;> simp

theorem declQ_congr {self d self' d' : Interp R} (h : SameView self d self' d') (a : String) (n : Nat) :
    declQ self d a n = .ok () ↔ declQ self' d' a n = .ok () := by
  rw [declQ_ok_iff, declQ_ok_iff, h.q, h.c]

theorem declC_congr {self d self' d' : Interp R} (h : SameView self d self' d') (a : String) (n : Nat) :
    declC self d a n = .ok () ↔ declC self' d' a n = .ok () := by
  rw [declC_ok_iff, declC_ok_iff, h.q, h.c]

/-- everything but a declaration is computed from the view alone, errors included -/
theorem nodeDelta_congr {self d self' d' : Interp R} (h : SameView self d self' d') (n : Node R)
    (hn : ∀ a k, n ≠ .qreg a k ∧ n ≠ .creg a k) :
    nodeDelta self d n = nodeDelta self' d' n := by
  cases n with
  | qreg a k => exact absurd rfl (hn a k).1
  | creg a k => exact absurd rfl (hn a k).2
  | barrier => rfl
  | «opaque» => rfl
  | reset a => simp only [nodeDelta, getIdx_congr h]
  | measure q c => simp only [nodeDelta, getIdx_congr h]
  | apply c => simp only [nodeDelta, callOp_congr h]
  | gate name regs args body =>
    have hm := congrArg (fun l => l.any (·.1 == name)) h.m
    simp only [List.any_append] at hm
    simp only [nodeDelta, ← Bool.not_or, hm]
  | ifn lhs rhs body =>
    cases body with
    | other => rfl
    | call c => simp only [nodeDelta, getIdx_congr h, callOp_congr h]

/-- acceptance of a statement, and the change it makes, depend on the view alone -/
theorem nodeDelta_congr_ok {self d self' d' : Interp R} (h : SameView self d self' d') (n : Node R)
    (δ : Delta R) (hδ : nodeDelta self d n = .ok δ) : nodeDelta self' d' n = .ok δ := by
  cases n with
  | qreg a k =>
    simp only [nodeDelta] at hδ ⊢
    cases hq : declQ self d a k with
    | error e => rw [hq] at hδ; cases hδ
    | ok u => rw [hq] at hδ; rw [(declQ_congr h a k).mp hq]; exact hδ
  | creg a k =>
    simp only [nodeDelta] at hδ ⊢
    cases hq : declC self d a k with
    | error e => rw [hq] at hδ; cases hδ
    | ok u => rw [hq] at hδ; rw [(declC_congr h a k).mp hq]; exact hδ
  | barrier => rw [← nodeDelta_congr h _ (by intro a k; constructor <;> nofun)]; exact hδ
  | «opaque» => rw [← nodeDelta_congr h _ (by intro a k; constructor <;> nofun)]; exact hδ
  | reset a => rw [← nodeDelta_congr h _ (by intro a k; constructor <;> nofun)]; exact hδ
  | measure q c => rw [← nodeDelta_congr h _ (by intro a k; constructor <;> nofun)]; exact hδ
  | apply c => rw [← nodeDelta_congr h _ (by intro a k; constructor <;> nofun)]; exact hδ
  | gate name regs args body =>
    rw [← nodeDelta_congr h _ (by intro a k; constructor <;> nofun)]; exact hδ
  | ifn lhs rhs body => rw [← nodeDelta_congr h _ (by intro a k; constructor <;> nofun)]; exact hδ

theorem SameView.apply {self d self' d' : Interp R} (h : SameView self d self' d') (δ : Delta R) :
    SameView self (δ.apply d) self' (δ.apply d') := by
  cases δ with
  | qreg l => exact ⟨by simp only [Delta.apply, ← List.append_assoc, h.q], h.c, h.m⟩
  | creg l => exact ⟨h.q, by simp only [Delta.apply, ← List.append_assoc, h.c], h.m⟩
  | «macro» n m => exact ⟨h.q, h.c, by simp only [Delta.apply, ← List.append_assoc, h.m]⟩
  | none => exact h
  | push o => exact ⟨h.q, h.c, h.m⟩
  | meas q c => exact ⟨h.q, h.c, h.m⟩
  | reset q => exact ⟨h.q, h.c, h.m⟩
  | guard c v o => exact ⟨h.q, h.c, h.m⟩

/-! #### lists of statements -/

/-- apply a list of changes in order -/
def applyAll (d : Interp R) (δs : List (Delta R)) : Interp R := δs.foldl Delta.apply d

/-- the changes of a list of statements, stopping at the first refusal -/
def nodesDelta (self d : Interp R) : List (Node R) → Res (List (Delta R))
  | [] => .ok []
  | n :: ns =>
    match nodeDelta self d n with
    | .ok δ => (nodesDelta self (δ.apply d) ns).map (δ :: ·)
    | .err e => .err e
    | .panic s => .panic s

theorem processNodes_eq (self d : Interp R) (l : List (Node R)) :
    processNodes self d l = (nodesDelta self d l).map (applyAll d) := by
  induction l generalizing d with
  | nil => rfl
  | cons n ns ih =>
    simp only [processNodes, nodesDelta, processNode_eq]
    cases nodeDelta self d n with
    | err e => rfl
    | panic s => rfl
    | ok δ =>
      simp only [Res.map, ih]
      cases nodesDelta self (δ.apply d) ns <;> rfl

theorem nodesDelta_congr_ok {self d self' d' : Interp R} (h : SameView self d self' d')
    (l : List (Node R)) (δs : List (Delta R)) (hδ : nodesDelta self d l = .ok δs) :
    nodesDelta self' d' l = .ok δs := by
  induction l generalizing d d' δs with
  | nil => exact hδ
  | cons n ns ih =>
    simp only [nodesDelta] at hδ ⊢
    cases hn : nodeDelta self d n with
    | err e => rw [hn] at hδ; cases hδ
    | panic s => rw [hn] at hδ; cases hδ
    | ok δ =>
      rw [hn] at hδ
      rw [nodeDelta_congr_ok h n δ hn]
      dsimp only [] at hδ ⊢
      cases hr : nodesDelta self (δ.apply d) ns with
      | err e => rw [hr] at hδ; cases hδ
      | panic s => rw [hr] at hδ; cases hδ
      | ok δs' =>
        rw [hr] at hδ
        rw [ih (h.apply δ) δs' hr]
        exact hδ

end Interp
end proc

/-! ### C. chunked interpretation -/

section chunks
variable {R : Type} [Add R] [Sub R] [Mul R] [Neg R] [Div R] [ExprFns R] [AngleFns R]

namespace Interp

theorem processNodes_append (self changes : Interp R) (a b : List (Node R)) :
    processNodes self changes (a ++ b) =
      match processNodes self changes a with
      | .ok ch => processNodes self ch b
      | r => r := by
  induction a generalizing changes with
  | nil => rfl
  | cons n ns ih =>
    simp only [List.cons_append, processNodes]
    cases processNode self changes n with
    | ok ch => exact ih ch
    | err e => rfl
    | panic s => rfl

theorem applyAll_cons (d : Interp R) (δ : Delta R) (δs : List (Delta R)) :
    applyAll d (δ :: δs) = applyAll (δ.apply d) δs := rfl

theorem applyAll_append (d : Interp R) (a b : List (Delta R)) :
    applyAll d (a ++ b) = applyAll (applyAll d a) b := List.foldl_append

theorem applyAll_qReg (d : Interp R) (δs : List (Delta R)) :
    (applyAll d δs).qReg = d.qReg ++ δs.flatMap Delta.qregs := by
  induction δs generalizing d with
  | nil => simp [applyAll]
  | cons δ δs ih =>
    rw [applyAll_cons, ih]
    cases δ <;> simp [Delta.apply, Delta.qregs]

theorem applyAll_cReg (d : Interp R) (δs : List (Delta R)) :
    (applyAll d δs).cReg = d.cReg ++ δs.flatMap Delta.cregs := by
  induction δs generalizing d with
  | nil => simp [applyAll]
  | cons δ δs ih =>
    rw [applyAll_cons, ih]
    cases δ <;> simp [Delta.apply, Delta.cregs]

theorem applyAll_macros (d : Interp R) (δs : List (Delta R)) :
    (applyAll d δs).macros = d.macros ++ δs.flatMap Delta.macros := by
  induction δs generalizing d with
  | nil => simp [applyAll]
  | cons δ δs ih =>
    rw [applyAll_cons, ih]
    cases δ <;> simp [Delta.apply, Delta.macros]

theorem applyAll_mOp (d : Interp R) (δs : List (Delta R)) : (applyAll d δs).mOp = d.mOp := by
  induction δs generalizing d with
  | nil => rfl
  | cons δ δs ih => rw [applyAll_cons, ih]; cases δ <;> rfl

theorem applyAll_asts (d : Interp R) (δs : List (Delta R)) : (applyAll d δs).asts = d.asts := by
  induction δs generalizing d with
  | nil => rfl
  | cons δ δs ih => rw [applyAll_cons, ih]; cases δ <;> rfl

theorem processNodes_ok_iff (self d r : Interp R) (l : List (Node R)) :
    processNodes self d l = .ok r ↔ ∃ δs, nodesDelta self d l = .ok δs ∧ r = applyAll d δs := by
  rw [processNodes_eq]
  cases nodesDelta self d l with
  | ok δs =>
    simp only [Res.map, Res.ok.injEq]
    constructor
    · intro h; exact ⟨δs, rfl, h.symm⟩
    · rintro ⟨δs', h, rfl⟩; rw [h]
  | err e => simp [Res.map]
  | panic s => simp [Res.map]

theorem nodesDelta_append (self d : Interp R) (a b : List (Node R)) (δs : List (Delta R)) :
    nodesDelta self d (a ++ b) = .ok δs ↔
      ∃ δa δb, nodesDelta self d a = .ok δa ∧ nodesDelta self (applyAll d δa) b = .ok δb ∧
        δs = δa ++ δb := by
  induction a generalizing d δs with
  | nil =>
    simp only [List.nil_append, nodesDelta, Res.ok.injEq]
    constructor
    · intro h; exact ⟨[], δs, rfl, h, rfl⟩
    · rintro ⟨δa, δb, rfl, h, rfl⟩; exact h
  | cons n ns ih =>
    simp only [List.cons_append, nodesDelta]
    cases nodeDelta self d n with
    | err e => simp
    | panic s => simp
    | ok δ =>
      dsimp only []
      constructor
      · intro h
        cases hr : nodesDelta self (δ.apply d) (ns ++ b) with
        | err e => rw [hr] at h; cases h
        | panic s => rw [hr] at h; cases h
        | ok δs' =>
          rw [hr] at h
          simp only [Res.map, Res.ok.injEq] at h
          obtain ⟨δa, δb, ha, hb, rfl⟩ := (ih _ _).mp hr
          refine ⟨δ :: δa, δb, ?_, hb, ?_⟩
          · rw [ha]; rfl
          · rw [← h]; rfl
      · rintro ⟨δa, δb, ha, hb, rfl⟩
        cases hr : nodesDelta self (δ.apply d) ns with
        | err e => rw [hr] at ha; cases ha
        | panic s => rw [hr] at ha; cases ha
        | ok δa' =>
          rw [hr] at ha
          simp only [Res.map, Res.ok.injEq] at ha
          subst ha
          rw [(ih _ _).mpr ⟨δa', δb, hr, hb, rfl⟩]
          rfl

/-- the gate names in `ms` are not defined in the session -/
def Fresh (self : Interp R) (ms : List (String × Macro R)) : Prop :=
  ∀ q ∈ ms, self.macros.any (·.1 == q.1) = false

theorem Fresh.nil (self : Interp R) : Fresh self [] := by intro q hq; cases hq

theorem Fresh.append {self : Interp R} {a b : List (String × Macro R)} (ha : Fresh self a)
    (hb : Fresh self b) : Fresh self (a ++ b) := by
  intro q hq
  rcases List.mem_append.mp hq with h | h
  · exact ha q h
  · exact hb q h

/-- `HashMap::extend` with fresh keys is concatenation -/
theorem Fresh.filter_eq {self : Interp R} {ms : List (String × Macro R)} (h : Fresh self ms) :
    self.macros.filter (fun p => !(ms.any (·.1 == p.1))) = self.macros := by
  rw [List.filter_eq_self]
  intro p hp
  simp only [Bool.not_eq_eq_eq_not, Bool.not_true, List.any_eq_false, beq_iff_eq]
  intro q hq heq
  have := h q hq
  simp only [List.any_eq_false, beq_iff_eq] at this
  exact this p hp heq.symm

theorem appendInt_macros_of_fresh {self d : Interp R} (h : Fresh self d.macros) :
    (appendInt self d).macros = self.macros ++ d.macros := by
  simp only [appendInt, h.filter_eq]

theorem nodeDelta_fresh {self d : Interp R} {n : Node R} {δ : Delta R}
    (h : nodeDelta self d n = .ok δ) : Fresh self δ.macros ∧ Fresh d δ.macros := by
  cases δ with
  | «macro» name m =>
    cases n with
    | gate name' regs args body =>
      simp only [nodeDelta] at h
      split at h
      · cases h
      · split at h
        · rename_i hc
          split at h
          · simp only [Res.ok.injEq, Delta.macro.injEq] at h
            obtain ⟨rfl, rfl⟩ := h
            simp only [Bool.and_eq_true, Bool.not_eq_eq_eq_not, Bool.not_true] at hc
            constructor
            · intro q hq
              simp only [Delta.macros, List.mem_singleton] at hq
              subst hq; exact hc.1
            · intro q hq
              simp only [Delta.macros, List.mem_singleton] at hq
              subst hq; exact hc.2
          · cases h
        · cases h
    | qreg a k => simp only [nodeDelta] at h; split at h <;> cases h
    | creg a k => simp only [nodeDelta] at h; split at h <;> cases h
    | barrier => cases h
    | «opaque» => cases h
    | reset a => simp only [nodeDelta] at h; split at h <;> cases h
    | measure q c =>
      simp only [nodeDelta] at h
      split at h
      · cases h
      · split at h
        · cases h
        · split at h <;> cases h
    | apply c =>
      simp only [nodeDelta] at h
      cases hc : callOp self d c <;> rw [hc] at h <;> cases h
    | ifn lhs rhs body =>
      cases body with
      | other => cases h
      | call c =>
        simp only [nodeDelta] at h
        split at h
        · cases h
        · cases hc : callOp self d c <;> rw [hc] at h <;> cases h
  | none => exact ⟨Fresh.nil _, Fresh.nil _⟩
  | qreg l => exact ⟨Fresh.nil _, Fresh.nil _⟩
  | creg l => exact ⟨Fresh.nil _, Fresh.nil _⟩
  | push o => exact ⟨Fresh.nil _, Fresh.nil _⟩
  | meas q c => exact ⟨Fresh.nil _, Fresh.nil _⟩
  | reset q => exact ⟨Fresh.nil _, Fresh.nil _⟩
  | guard c v o => exact ⟨Fresh.nil _, Fresh.nil _⟩

theorem nodesDelta_fresh {self d : Interp R} {l : List (Node R)} {δs : List (Delta R)}
    (h : nodesDelta self d l = .ok δs) : Fresh self (δs.flatMap Delta.macros) := by
  induction l generalizing d δs with
  | nil =>
    simp only [nodesDelta, Res.ok.injEq] at h
    subst h; exact Fresh.nil _
  | cons n ns ih =>
    simp only [nodesDelta] at h
    cases hn : nodeDelta self d n with
    | err e => rw [hn] at h; cases h
    | panic s => rw [hn] at h; cases h
    | ok δ =>
      rw [hn] at h
      dsimp only [] at h
      cases hr : nodesDelta self (δ.apply d) ns with
      | err e => rw [hr] at h; cases h
      | panic s => rw [hr] at h; cases h
      | ok δs' =>
        rw [hr] at h
        simp only [Res.map, Res.ok.injEq] at h
        subst h
        simp only [List.flatMap_cons]
        exact Fresh.append (nodeDelta_fresh hn).1 (ih hr)

/-! #### sessions fed in chunks -/

/-- feed the chunks one by one with `add_ast` -/
def addAll (s : Interp R) : List (List (Node R)) → Res (Interp R)
  | [] => .ok s
  | c :: cs =>
    match s.addAst c with
    | .ok s' => addAll s' cs
    | r => r

/-- feed the chunks one by one, computing each chunk's changes against the current
interpreter (`ast_changes`) and appending them (`append_int`) -/
def addAllDelta (s : Interp R) : List (List (Node R)) → Res (Interp R)
  | [] => .ok s
  | c :: cs =>
    match s.astChanges {} c with
    | .ok ch => addAllDelta (s.appendInt ch) cs
    | r => r

theorem addAll_eq_addAllDelta (s : Interp R) (chunks : List (List (Node R))) :
    addAll s chunks = addAllDelta s chunks := by
  induction chunks generalizing s with
  | nil => rfl
  | cons c cs ih =>
    simp only [addAll, addAllDelta, addAst]
    cases astChanges s {} c with
    | ok ch => exact ih _
    | err e => rfl
    | panic p => rfl

/-- the changes of an accepted chunk -/
def chunkOf (δs : List (Delta R)) (len : Nat) : Interp R :=
  { applyAll {} δs with asts := [len] }

theorem addAst_ok_iff (s s' : Interp R) (c : List (Node R)) :
    addAst s c = .ok s' ↔
      ∃ δs, nodesDelta s {} c = .ok δs ∧ s' = appendInt s (chunkOf δs c.length) := by
  simp only [addAst, astChanges]
  constructor
  · intro h
    cases hp : processNodes s {} c with
    | err e => rw [hp] at h; cases h
    | panic p => rw [hp] at h; cases h
    | ok ch =>
      rw [hp] at h
      simp only [Res.ok.injEq] at h
      obtain ⟨δs, hδ, rfl⟩ := (processNodes_ok_iff _ _ _ _).mp hp
      refine ⟨δs, hδ, ?_⟩
      rw [← h, chunkOf, applyAll_asts]; rfl
  · rintro ⟨δs, hδ, rfl⟩
    rw [(processNodes_ok_iff _ _ _ _).mpr ⟨δs, hδ, rfl⟩]
    simp only [chunkOf, applyAll_asts]; rfl

theorem addAst_asts {s s' : Interp R} {c : List (Node R)} (h : addAst s c = .ok s') :
    s'.asts = s.asts ++ [c.length] := by
  obtain ⟨δs, _, rfl⟩ := (addAst_ok_iff _ _ _).mp h
  rfl

theorem addAll_asts {s s₁ : Interp R} {chunks : List (List (Node R))} (h : addAll s chunks = .ok s₁) :
    s₁.asts = s.asts ++ chunks.map List.length := by
  induction chunks generalizing s with
  | nil =>
    simp only [addAll, Res.ok.injEq] at h
    subst h; simp
  | cons c cs ih =>
    simp only [addAll] at h
    cases hc : addAst s c with
    | err e => rw [hc] at h; cases h
    | panic p => rw [hc] at h; cases h
    | ok s' =>
      rw [hc] at h
      rw [ih h, addAst_asts hc, List.map_cons, List.append_assoc]; rfl

/-! #### refusals: the chunked session and the whole text fail alike -/

/-- how a result failed, if it did -/
def _root_.Qvnt.Res.fail? {α : Type} : Res α → Option (IntError ⊕ String)
  | .ok _ => none
  | .err e => some (.inl e)
  | .panic s => some (.inr s)

/-- the aliases of the session's registers are not declared again in the changes so far -/
def DeclUniq (self d : Interp R) : Prop :=
  ∀ a, a ∈ self.qReg ++ self.cReg → a ∉ d.qReg ++ d.cReg

theorem DeclUniq.empty (s : Interp R) : DeclUniq s {} := by intro a _; simp

theorem cnt_append (l₁ l₂ : List String) (a : String) :
    ((l₁ ++ l₂).filter (· == a)).length
      = (l₁.filter (· == a)).length + (l₂.filter (· == a)).length := by
  rw [List.filter_append, List.length_append]

theorem cnt_eq_zero {l : List String} {a : String} (h : a ∉ l) : (l.filter (· == a)).length = 0 := by
  cases hc : (l.filter (· == a)).length with
  | zero => rfl
  | succ n => exact absurd ((cnt_pos_iff l a).mp (by omega)) h

/-- with unique aliases, `check_dup` (payload included) sees only the concatenated lists -/
theorem checkDup_eq_of_uniq {self d : Interp R} (U : DeclUniq self d) (a : String) :
    checkDup self d a =
      if ((self.qReg ++ d.qReg).filter (· == a)).length > 0 then
        .error (.dupQReg a ((self.qReg ++ d.qReg).filter (· == a)).length)
      else if ((self.cReg ++ d.cReg).filter (· == a)).length > 0 then
        .error (.dupCReg a ((self.cReg ++ d.cReg).filter (· == a)).length)
      else .ok () := by
  have u2 := U a
  simp only [List.mem_append, not_or] at u2
  unfold checkDup
  simp only [cnt_append]
  by_cases h1 : a ∈ self.qReg
  · have c1 := (cnt_pos_iff _ _).mpr h1
    have c2 := cnt_eq_zero (u2 (Or.inl h1)).1
    simp only [c1, if_true, c2, Nat.add_zero]
  · have c1 := cnt_eq_zero h1
    by_cases h2 : a ∈ self.cReg
    · have c2 := (cnt_pos_iff _ _).mpr h2
      have c3 := cnt_eq_zero (u2 (Or.inr h2)).1
      have c4 := cnt_eq_zero (u2 (Or.inr h2)).2
      simp only [c1, c3, c4, Nat.add_zero, Nat.lt_irrefl, if_false, c2, if_true, gt_iff_lt]
    · have c2 := cnt_eq_zero h2
      by_cases h3 : a ∈ d.qReg
      · have c3 := (cnt_pos_iff _ _).mpr h3
        simp only [c1, c2, Nat.zero_add, Nat.lt_irrefl, if_false, c3, if_true, gt_iff_lt]
      · have c3 := cnt_eq_zero h3
        simp only [c1, c2, c3, Nat.zero_add, Nat.lt_irrefl, if_false, gt_iff_lt]

theorem checkDup_congr_full {self d self' d' : Interp R} (h : SameView self d self' d')
    (U : DeclUniq self d) (U' : DeclUniq self' d') (a : String) :
    checkDup self d a = checkDup self' d' a := by
  rw [checkDup_eq_of_uniq U, checkDup_eq_of_uniq U', h.q, h.c]

/-- with unique aliases a statement's outcome — change, error or panic — depends on the view
alone -/
theorem nodeDelta_congr_full {self d self' d' : Interp R} (h : SameView self d self' d')
    (U : DeclUniq self d) (U' : DeclUniq self' d') (n : Node R) :
    nodeDelta self d n = nodeDelta self' d' n := by
  have hlq : self.qReg.length + d.qReg.length = self'.qReg.length + d'.qReg.length := by
    rw [← List.length_append, ← List.length_append, h.q]
  have hlc : self.cReg.length + d.cReg.length = self'.cReg.length + d'.cReg.length := by
    rw [← List.length_append, ← List.length_append, h.c]
  cases n with
  | qreg a k => simp only [nodeDelta, declQ, hlq, checkDup_congr_full h U U']
  | creg a k => simp only [nodeDelta, declC, hlc, checkDup_congr_full h U U']
  | barrier => exact nodeDelta_congr h _ (by intro a k; constructor <;> nofun)
  | «opaque» => exact nodeDelta_congr h _ (by intro a k; constructor <;> nofun)
  | reset a => exact nodeDelta_congr h _ (by intro a k; constructor <;> nofun)
  | measure q c => exact nodeDelta_congr h _ (by intro a k; constructor <;> nofun)
  | apply c => exact nodeDelta_congr h _ (by intro a k; constructor <;> nofun)
  | gate name regs args body => exact nodeDelta_congr h _ (by intro a k; constructor <;> nofun)
  | ifn lhs rhs body => exact nodeDelta_congr h _ (by intro a k; constructor <;> nofun)

theorem mem_replicate_self {a x : String} {k : Nat} (h : x ∈ List.replicate k a) : x = a :=
  (List.mem_replicate.mp h).2

/-- an accepted statement does not redeclare an alias of the session -/
theorem DeclUniq.apply {self d : Interp R} (U : DeclUniq self d) {n : Node R} {δ : Delta R}
    (hδ : nodeDelta self d n = .ok δ) : DeclUniq self (δ.apply d) := by
  cases n with
  | qreg a k =>
    simp only [nodeDelta] at hδ
    cases hq : declQ self d a k with
    | error e => rw [hq] at hδ; cases hδ
    | ok u =>
      rw [hq] at hδ
      simp only [Res.ok.injEq] at hδ
      subst hδ
      obtain ⟨_, _, _, hnq, hnc⟩ := (declQ_ok_iff _ _ _ _).mp hq
      simp only [List.mem_append, not_or] at hnq hnc
      intro x hx
      have u2 := U x hx
      rw [List.mem_append] at hx
      simp only [Delta.apply, List.mem_append, not_or] at u2 ⊢
      refine ⟨⟨u2.1, ?_⟩, u2.2⟩
      intro hr
      have := mem_replicate_self hr
      subst this
      rcases hx with hx | hx
      · exact hnq.1 hx
      · exact hnc.1 hx
  | creg a k =>
    simp only [nodeDelta] at hδ
    cases hq : declC self d a k with
    | error e => rw [hq] at hδ; cases hδ
    | ok u =>
      rw [hq] at hδ
      simp only [Res.ok.injEq] at hδ
      subst hδ
      obtain ⟨_, _, _, hnq, hnc⟩ := (declC_ok_iff _ _ _ _).mp hq
      simp only [List.mem_append, not_or] at hnq hnc
      intro x hx
      have u2 := U x hx
      rw [List.mem_append] at hx
      simp only [Delta.apply, List.mem_append, not_or] at u2 ⊢
      refine ⟨u2.1, u2.2, ?_⟩
      intro hr
      have := mem_replicate_self hr
      subst this
      rcases hx with hx | hx
      · exact hnq.1 hx
      · exact hnc.1 hx
  | barrier => simp only [nodeDelta, Res.ok.injEq] at hδ; subst hδ; exact U
  | «opaque» => simp only [nodeDelta, Res.ok.injEq] at hδ; subst hδ; exact U
  | reset a =>
    simp only [nodeDelta] at hδ
    split at hδ
    · simp only [Res.ok.injEq] at hδ; subst hδ; exact U
    · cases hδ
  | measure q c =>
    simp only [nodeDelta] at hδ
    split at hδ
    · cases hδ
    · split at hδ
      · cases hδ
      · split at hδ
        · cases hδ
        · simp only [Res.ok.injEq] at hδ; subst hδ; exact U
  | apply c =>
    simp only [nodeDelta] at hδ
    cases hc : callOp self d c with
    | err e => rw [hc] at hδ; cases hδ
    | panic p => rw [hc] at hδ; cases hδ
    | ok o => rw [hc] at hδ; simp only [Res.map, Res.ok.injEq] at hδ; subst hδ; exact U
  | gate name regs args body =>
    simp only [nodeDelta] at hδ
    split at hδ
    · cases hδ
    · split at hδ
      · split at hδ
        · simp only [Res.ok.injEq] at hδ; subst hδ; exact U
        · cases hδ
      · cases hδ
  | ifn lhs rhs body =>
    cases body with
    | other => cases hδ
    | call c =>
      simp only [nodeDelta] at hδ
      split at hδ
      · cases hδ
      · cases hc : callOp self d c with
        | err e => rw [hc] at hδ; cases hδ
        | panic p => rw [hc] at hδ; cases hδ
        | ok o => rw [hc] at hδ; simp only [Res.map, Res.ok.injEq] at hδ; subst hδ; exact U

theorem nodesDelta_congr_full {self d self' d' : Interp R} (h : SameView self d self' d')
    (U : DeclUniq self d) (U' : DeclUniq self' d') (l : List (Node R)) :
    nodesDelta self d l = nodesDelta self' d' l := by
  induction l generalizing d d' with
  | nil => rfl
  | cons n ns ih =>
    simp only [nodesDelta]
    have hn := nodeDelta_congr_full h U U' n
    rw [hn]
    cases hn' : nodeDelta self' d' n with
    | err e => rfl
    | panic p => rfl
    | ok δ =>
      dsimp only []
      rw [ih (h.apply δ) (U.apply (hn.trans hn')) (U'.apply hn')]

theorem nodesDelta_uniq {self d : Interp R} {l : List (Node R)} {δs : List (Delta R)}
    (h : nodesDelta self d l = .ok δs) (U : DeclUniq self d) : DeclUniq self (applyAll d δs) := by
  induction l generalizing d δs with
  | nil =>
    simp only [nodesDelta, Res.ok.injEq] at h
    subst h; exact U
  | cons n ns ih =>
    simp only [nodesDelta] at h
    cases hn : nodeDelta self d n with
    | err e => rw [hn] at h; cases h
    | panic s => rw [hn] at h; cases h
    | ok δ =>
      rw [hn] at h
      dsimp only [] at h
      cases hr : nodesDelta self (δ.apply d) ns with
      | err e => rw [hr] at h; cases h
      | panic s => rw [hr] at h; cases h
      | ok δs' =>
        rw [hr] at h
        simp only [Res.map, Res.ok.injEq] at h
        subst h
        exact ih (d := δ.apply d) hr (U.apply hn)

theorem Res.fail?_map {α β : Type} (f : α → β) (r : Res α) : (r.map f).fail? = r.fail? := by
  cases r <;> rfl

theorem nodesDelta_append_full (self d : Interp R) (a b : List (Node R)) :
    nodesDelta self d (a ++ b) =
      match nodesDelta self d a with
      | .ok δa => (nodesDelta self (applyAll d δa) b).map (δa ++ ·)
      | .err e => .err e
      | .panic s => .panic s := by
  induction a generalizing d with
  | nil =>
    simp only [List.nil_append, nodesDelta, applyAll, List.foldl_nil]
    cases nodesDelta self d b <;> rfl
  | cons n ns ih =>
    simp only [List.cons_append, nodesDelta]
    cases nodeDelta self d n with
    | err e => rfl
    | panic s => rfl
    | ok δ =>
      dsimp only []
      rw [ih]
      cases nodesDelta self (δ.apply d) ns with
      | err e => rfl
      | panic s => rfl
      | ok δa =>
        simp only [Res.map, applyAll_cons]
        cases nodesDelta self (applyAll (δ.apply d) δa) b <;> rfl

theorem addAst_fail (s : Interp R) (l : List (Node R)) :
    (addAst s l).fail? = (nodesDelta s {} l).fail? := by
  simp only [addAst, astChanges, processNodes_eq]
  cases nodesDelta s {} l <;> rfl

/-- `add_ast` on a `&mut self` session: the new session, and the error if the chunk was
refused (a panic leaves the session as it was and reports nothing) -/
def Session.add (s : Interp R) (c : List (Node R)) : Interp R × Option IntError :=
  match s.addAst c with
  | .ok s' => (s', none)
  | .err e => (s, some e)
  | .panic _ => (s, none)

theorem astChanges_ok_iff (s ch : Interp R) (c : List (Node R)) :
    astChanges s {} c = .ok ch ↔ ∃ δs, nodesDelta s {} c = .ok δs ∧ ch = chunkOf δs c.length := by
  simp only [astChanges]
  constructor
  · intro h
    cases hp : processNodes s {} c with
    | err e => rw [hp] at h; cases h
    | panic p => rw [hp] at h; cases h
    | ok ch' =>
      rw [hp] at h
      simp only [Res.ok.injEq] at h
      obtain ⟨δs, hδ, rfl⟩ := (processNodes_ok_iff _ _ _ _).mp hp
      refine ⟨δs, hδ, ?_⟩
      rw [← h, chunkOf, applyAll_asts]; rfl
  · rintro ⟨δs, hδ, rfl⟩
    rw [(processNodes_ok_iff _ _ _ _).mpr ⟨δs, hδ, rfl⟩]
    simp only [chunkOf, applyAll_asts]; rfl

/-- the changes of a chunk depend on the session only through its registers and gates -/
theorem astChanges_congr (s s' ch : Interp R) (c : List (Node R)) (hq : s.qReg = s'.qReg)
    (hc : s.cReg = s'.cReg) (hm : s.macros = s'.macros) (h : astChanges s {} c = .ok ch) :
    astChanges s' {} c = .ok ch := by
  obtain ⟨δs, hδ, rfl⟩ := (astChanges_ok_iff _ _ _).mp h
  exact (astChanges_ok_iff _ _ _).mpr
    ⟨δs, nodesDelta_congr_ok ⟨by rw [hq], by rw [hc], by rw [hm]⟩ c δs hδ, rfl⟩

end Interp
end chunks

/-! ### D. events of statements, equivalence of interpreters, chunked sessions -/

section both
variable {R : Type} [Add R] [Sub R] [Mul R] [Neg R] [Zero R] [One R] [Div R] [Consts R]
  [LE R] [DecidableLE R] [LT R] [DecidableLT R] [HasSqrt R] [RegConsts R] [ExprFns R] [AngleFns R]

/-- `process_if`: the guarded operator becomes a conditional block of its own, after
everything queued so far -/
theorem ExtOp.events_guard (e : ExtOp R) (c v : Nat) (o : MultiOp R) :
    (e.guard c v o).events ≃ₑ e.events ++ [Ev.cond c v o] := by
  unfold ExtOp.guard
  split
  next =>
    simp only [ExtOp.events, List.flatMap_append, List.flatMap_cons, List.flatMap_nil,
      List.append_nil, Ev.ofBlock, ExtOp.branch_nop_tail]
    have h1 : (e.branch .nop).events ≃ₑ e.events := ExtOp.events_branch_nop e
    simp only [ExtOp.events, ExtOp.branch_nop_tail] at h1
    refine EvEquiv.trans (EvEquiv.append_app_nil _) ?_
    refine EvEquiv.append_left (EvEquiv.trans (EvEquiv.symm (EvEquiv.append_app_nil _)) h1) _
  next ho =>
    rw [List.eq_nil_of_not_isEmpty_not ho]
    refine EvEquiv.trans (ExtOp.events_branch_nop e) ?_
    simpa only [List.append_nil] using
      EvEquiv.append_right e.events (EvEquiv.symm (EvEquiv.cond_nil (R := R) c v))

namespace Interp

/-- **a statement appends its events to the queue** -/
theorem Delta.apply_events (d : Interp R) (δ : Delta R) :
    (δ.apply d).qOps.events ≃ₑ d.qOps.events ++ δ.events := by
  cases δ with
  | push o => exact ExtOp.events_push _ _
  | meas q c => exact ExtOp.events_branchWithId_measure _ _ _
  | reset q => exact ExtOp.events_branchWithId_reset _ _
  | guard c v o => exact ExtOp.events_guard _ _ _ _
  | none => simp only [Delta.apply, Delta.events, List.append_nil]; exact EvEquiv.refl _
  | qreg l => simp only [Delta.apply, Delta.events, List.append_nil]; exact EvEquiv.refl _
  | creg l => simp only [Delta.apply, Delta.events, List.append_nil]; exact EvEquiv.refl _
  | «macro» n m => simp only [Delta.apply, Delta.events, List.append_nil]; exact EvEquiv.refl _

theorem applyAll_events (d : Interp R) (δs : List (Delta R)) :
    (applyAll d δs).qOps.events ≃ₑ d.qOps.events ++ δs.flatMap Delta.events := by
  induction δs generalizing d with
  | nil => simp only [applyAll, List.foldl_nil, List.flatMap_nil, List.append_nil]; exact EvEquiv.refl _
  | cons δ δs ih =>
    rw [applyAll_cons, List.flatMap_cons, ← List.append_assoc]
    exact EvEquiv.trans (ih _) (EvEquiv.append_left (Delta.apply_events d δ) _)

/-- two interpreters that declare the same registers and gates and whose queues act alike
(the record of accepted chunks `asts` is not compared) -/
structure Equiv (s₁ s₂ : Interp R) : Prop where
  mOp : s₁.mOp = s₂.mOp
  qReg : s₁.qReg = s₂.qReg
  cReg : s₁.cReg = s₂.cReg
  macros : s₁.macros = s₂.macros
  ev : s₁.qOps.events ≃ₑ s₂.qOps.events

theorem Equiv.refl (s : Interp R) : Equiv s s := ⟨rfl, rfl, rfl, rfl, EvEquiv.refl _⟩
theorem Equiv.symm {s₁ s₂ : Interp R} (h : Equiv s₁ s₂) : Equiv s₂ s₁ :=
  ⟨h.mOp.symm, h.qReg.symm, h.cReg.symm, h.macros.symm, h.ev.symm⟩
theorem Equiv.trans {s₁ s₂ s₃ : Interp R} (h : Equiv s₁ s₂) (h' : Equiv s₂ s₃) : Equiv s₁ s₃ :=
  ⟨h.mOp.trans h'.mOp, h.qReg.trans h'.qReg, h.cReg.trans h'.cReg, h.macros.trans h'.macros,
    h.ev.trans h'.ev⟩

/-- appending nothing changes nothing observable -/
theorem appendInt_empty_equiv (s e : Interp R) (hq : e.qReg = []) (hc : e.cReg = [])
    (hm : e.macros = []) (hev : e.qOps.events ≃ₑ []) : Equiv (appendInt s e) s := by
  refine ⟨rfl, ?_, ?_, ?_, ?_⟩
  · simp only [appendInt, hq, List.append_nil]
  · simp only [appendInt, hc, List.append_nil]
  · have : Fresh s e.macros := hm ▸ Fresh.nil s
    rw [appendInt_macros_of_fresh this, hm, List.append_nil]
  · refine EvEquiv.trans (ExtOp.events_append _ _) ?_
    simpa only [List.append_nil] using EvEquiv.append_right s.qOps.events hev

/-- `append_int` is associative up to `Equiv`, when no gate is defined twice -/
theorem appendInt_assoc_equiv (s d e r : Interp R)
    (hq : r.qReg = d.qReg ++ e.qReg) (hc : r.cReg = d.cReg ++ e.cReg)
    (hm : r.macros = d.macros ++ e.macros)
    (hev : r.qOps.events ≃ₑ d.qOps.events ++ e.qOps.events)
    (hd : Fresh s d.macros) (he : Fresh s e.macros) (hde : Fresh d e.macros) :
    Equiv (appendInt (appendInt s d) e) (appendInt s r) := by
  have hsd : (appendInt s d).macros = s.macros ++ d.macros := appendInt_macros_of_fresh hd
  have he' : Fresh (appendInt s d) e.macros := by
    intro q hq
    rw [hsd, List.any_append, he q hq, hde q hq]; rfl
  have hr : Fresh s r.macros := hm ▸ Fresh.append hd he
  refine ⟨rfl, ?_, ?_, ?_, ?_⟩
  · simp only [appendInt, hq, List.append_assoc]
  · simp only [appendInt, hc, List.append_assoc]
  · rw [appendInt_macros_of_fresh he', hsd, appendInt_macros_of_fresh hr, hm, List.append_assoc]
  · refine EvEquiv.trans (ExtOp.events_append _ _) ?_
    refine EvEquiv.trans (EvEquiv.append_left (ExtOp.events_append _ _) _) ?_
    refine EvEquiv.trans ?_ (EvEquiv.symm (ExtOp.events_append _ _))
    rw [List.append_assoc]
    exact EvEquiv.append_right _ (EvEquiv.symm hev)

theorem chunkOf_qReg (δs : List (Delta R)) (n : Nat) :
    (chunkOf δs n).qReg = δs.flatMap Delta.qregs := by
  simp [chunkOf, applyAll_qReg]
theorem chunkOf_cReg (δs : List (Delta R)) (n : Nat) :
    (chunkOf δs n).cReg = δs.flatMap Delta.cregs := by
  simp [chunkOf, applyAll_cReg]
theorem chunkOf_macros (δs : List (Delta R)) (n : Nat) :
    (chunkOf δs n).macros = δs.flatMap Delta.macros := by
  simp [chunkOf, applyAll_macros]
theorem chunkOf_events (δs : List (Delta R)) (n : Nat) :
    (chunkOf δs n).qOps.events ≃ₑ δs.flatMap Delta.events := by
  refine EvEquiv.trans (applyAll_events {} δs) ?_
  exact EvEquiv.append_left (ExtOp.events_empty (R := R)) _

/-- after a chunk is accepted, the rest of the text sees what it would have seen had it
followed in the same chunk -/
theorem sameView_chunk (s : Interp R) (δs : List (Delta R)) (n : Nat)
    (h : Fresh s (δs.flatMap Delta.macros)) :
    SameView s (applyAll {} δs) (appendInt s (chunkOf δs n)) {} := by
  have hm : Fresh s (chunkOf δs n).macros := by rw [chunkOf_macros]; exact h
  refine ⟨?_, ?_, ?_⟩
  · simp only [appendInt, chunkOf, List.append_nil]
  · simp only [appendInt, chunkOf, List.append_nil]
  · rw [appendInt_macros_of_fresh hm, List.append_nil]; rfl

/-- gate names defined later in a text are not defined earlier in it -/
theorem nodesDelta_fresh_changes {self d : Interp R} {l : List (Node R)} {δs : List (Delta R)}
    (h : nodesDelta self d l = .ok δs) : Fresh d (δs.flatMap Delta.macros) := by
  induction l generalizing d δs with
  | nil =>
    simp only [nodesDelta, Res.ok.injEq] at h
    subst h; exact Fresh.nil _
  | cons n ns ih =>
    simp only [nodesDelta] at h
    cases hn : nodeDelta self d n with
    | err e => rw [hn] at h; cases h
    | panic s => rw [hn] at h; cases h
    | ok δ =>
      rw [hn] at h
      dsimp only [] at h
      cases hr : nodesDelta self (δ.apply d) ns with
      | err e => rw [hr] at h; cases h
      | panic s => rw [hr] at h; cases h
      | ok δs' =>
        rw [hr] at h
        simp only [Res.map, Res.ok.injEq] at h
        subst h
        simp only [List.flatMap_cons]
        refine Fresh.append (nodeDelta_fresh hn).2 ?_
        intro q hq
        have := ih hr q hq
        have hmac : (δ.apply d).macros = d.macros ++ δ.macros := by
          cases δ <;> simp [Delta.apply, Delta.macros]
        rw [hmac, List.any_append] at this
        simp only [Bool.or_eq_false_iff] at this
        exact this.1

/-- one chunk, then the rest as one more chunk ≈ everything as one chunk -/
theorem addAst_split (s : Interp R) (a b : List (Node R)) (s₂ : Interp R)
    (h : addAst s (a ++ b) = .ok s₂) :
    ∃ s' s₂', addAst s a = .ok s' ∧ addAst s' b = .ok s₂' ∧ Equiv s₂' s₂ := by
  obtain ⟨δw, hw, rfl⟩ := (addAst_ok_iff _ _ _).mp h
  obtain ⟨δa, δb, ha, hb, rfl⟩ := (nodesDelta_append _ _ _ _ _).mp hw
  have hfa := nodesDelta_fresh ha
  have hb' := nodesDelta_congr_ok (sameView_chunk s δa a.length hfa) b δb hb
  refine ⟨_, _, (addAst_ok_iff _ _ _).mpr ⟨δa, ha, rfl⟩, (addAst_ok_iff _ _ _).mpr ⟨δb, hb', rfl⟩, ?_⟩
  have hfw := nodesDelta_fresh hw
  have hfb := nodesDelta_fresh_changes hb
  apply appendInt_assoc_equiv
  · simp only [chunkOf_qReg, List.flatMap_append]
  · simp only [chunkOf_cReg, List.flatMap_append]
  · simp only [chunkOf_macros, List.flatMap_append]
  · refine EvEquiv.trans (chunkOf_events _ _) ?_
    rw [List.flatMap_append]
    exact EvEquiv.symm (EvEquiv.append (chunkOf_events _ _) (chunkOf_events _ _))
  · rw [chunkOf_macros]; exact hfa
  · rw [chunkOf_macros]
    intro q hq
    exact hfw q (by rw [List.flatMap_append]; exact List.mem_append_right _ hq)
  · rw [chunkOf_macros]
    intro q hq
    have := hfb q hq
    rw [applyAll_macros] at this
    rw [chunkOf_macros]
    simpa using this

/-- the converse: if the first chunk and then the rest are accepted, so is the whole -/
theorem addAst_join (s s' s₂' : Interp R) (a b : List (Node R))
    (hsa : addAst s a = .ok s') (hsb : addAst s' b = .ok s₂') :
    ∃ s₂, addAst s (a ++ b) = .ok s₂ := by
  obtain ⟨δa, ha, rfl⟩ := (addAst_ok_iff _ _ _).mp hsa
  obtain ⟨δb, hb, rfl⟩ := (addAst_ok_iff _ _ _).mp hsb
  have hfa := nodesDelta_fresh ha
  have hb' := nodesDelta_congr_ok (sameView_chunk s δa a.length hfa).symm b δb hb
  exact ⟨_, (addAst_ok_iff _ _ _).mpr
    ⟨δa ++ δb, (nodesDelta_append _ _ _ _ _).mpr ⟨δa, δb, ha, hb', rfl⟩, rfl⟩⟩

theorem addAst_nil (s : Interp R) : ∃ s₂, addAst s [] = .ok s₂ ∧ Equiv s₂ s := by
  refine ⟨_, (addAst_ok_iff _ _ _).mpr ⟨[], rfl, rfl⟩, ?_⟩
  exact appendInt_empty_equiv s _ rfl rfl rfl (ExtOp.events_empty (R := R))

/-- chunked = whole, up to `Equiv` -/
theorem addAll_equiv {s s₁ s₂ : Interp R} {chunks : List (List (Node R))}
    (h₁ : addAll s chunks = .ok s₁) (h₂ : addAst s chunks.flatten = .ok s₂) : Equiv s₁ s₂ := by
  induction chunks generalizing s s₂ with
  | nil =>
    simp only [addAll, Res.ok.injEq] at h₁
    subst h₁
    obtain ⟨s₂', h, he⟩ := addAst_nil s
    rw [List.flatten_nil, h, Res.ok.injEq] at h₂
    subst h₂
    exact he.symm
  | cons c cs ih =>
    rw [List.flatten_cons] at h₂
    obtain ⟨s', s₂', ha, hb, he⟩ := addAst_split s c cs.flatten s₂ h₂
    simp only [addAll, ha] at h₁
    exact (ih h₁ hb).trans he

/-- the chunked session is accepted exactly when the whole text is -/
theorem addAll_accept_iff (s : Interp R) (chunks : List (List (Node R))) :
    (∃ s₁, addAll s chunks = .ok s₁) ↔ (∃ s₂, addAst s chunks.flatten = .ok s₂) := by
  induction chunks generalizing s with
  | nil =>
    constructor
    · intro _
      obtain ⟨s₂, h, _⟩ := addAst_nil s
      exact ⟨s₂, h⟩
    · intro _; exact ⟨s, rfl⟩
  | cons c cs ih =>
    rw [List.flatten_cons]
    constructor
    · rintro ⟨s₁, h⟩
      simp only [addAll] at h
      cases hc : addAst s c with
      | err e => rw [hc] at h; cases h
      | panic p => rw [hc] at h; cases h
      | ok s' =>
        rw [hc] at h
        obtain ⟨s₂', hb⟩ := (ih s').mp ⟨s₁, h⟩
        exact addAst_join s s' s₂' c cs.flatten hc hb
    · rintro ⟨s₂, h⟩
      obtain ⟨s', s₂', ha, hb, _⟩ := addAst_split s c cs.flatten s₂ h
      obtain ⟨s₁, h₁⟩ := (ih s').mpr ⟨s₂', hb⟩
      exact ⟨s₁, by simp only [addAll, ha]; exact h₁⟩

/-- **the chunked session and the whole text fail alike**: same error value (payload
included) or same panic -/
theorem addAll_fail (s : Interp R) (chunks : List (List (Node R))) :
    (addAll s chunks).fail? = (addAst s chunks.flatten).fail? := by
  induction chunks generalizing s with
  | nil => rw [List.flatten_nil, addAst_fail]; rfl
  | cons c cs ih =>
    rw [List.flatten_cons, addAst_fail, nodesDelta_append_full]
    simp only [addAll]
    cases hc : nodesDelta s {} c with
    | err e =>
      have : addAst s c = .err e := by
        simp only [addAst, astChanges, processNodes_eq, hc, Res.map]
      rw [this]; rfl
    | panic p =>
      have : addAst s c = .panic p := by
        simp only [addAst, astChanges, processNodes_eq, hc, Res.map]
      rw [this]; rfl
    | ok δa =>
      rw [(addAst_ok_iff _ _ _).mpr ⟨δa, hc, rfl⟩]
      dsimp only []
      have U := nodesDelta_uniq hc (DeclUniq.empty s)
      rw [ih, addAst_fail, Res.fail?_map]
      have hv := sameView_chunk s δa c.length (nodesDelta_fresh hc)
      rw [nodesDelta_congr_full hv U (DeclUniq.empty _)]

theorem addAll_err_iff (s : Interp R) (chunks : List (List (Node R))) (e : IntError) :
    addAll s chunks = .err e ↔ addAst s chunks.flatten = .err e := by
  have h := addAll_fail s chunks
  constructor
  · intro h1
    rw [h1] at h
    cases hr : addAst s chunks.flatten with
    | ok x => rw [hr] at h; cases h
    | err e' => rw [hr] at h; simp only [Res.fail?, Option.some.injEq, Sum.inl.injEq] at h; rw [h]
    | panic p => rw [hr] at h; simp [Res.fail?] at h
  · intro h1
    rw [h1] at h
    cases hr : addAll s chunks with
    | ok x => rw [hr] at h; cases h
    | err e' => rw [hr] at h; simp only [Res.fail?, Option.some.injEq, Sum.inl.injEq] at h; rw [h]
    | panic p => rw [hr] at h; simp [Res.fail?] at h

end Interp
end both

/-! ### E. running equivalent interpreters; re-running -/

section exec
variable {R : Type} [Add R] [Sub R] [Mul R] [Neg R] [Zero R] [One R] [Div R] [Consts R]
  [LE R] [DecidableLE R] [LT R] [DecidableLT R] [HasSqrt R] [RegConsts R]

/-- what a finished run leaves: the quantum state, the classical register, the unused
outcomes -/
def Sym.final (r : Sym R × List Nat) : QReg R × CReg × List Nat := (r.1.qReg, r.1.cReg, r.2)

def RunSt.final (st : RunSt R) : QReg R × CReg × List Nat := (st.qReg, st.cReg, st.drawn)

theorem Sym.finish_final (s : Sym R) (drawn : List Nat) :
    (Sym.finish s drawn).map Sym.final = (runEvs s.qOps.events (s.toRun drawn)).map RunSt.final := by
  rw [Sym.finish_eq_events, Option.map_map]; rfl

/-- the shape of the registers: buffer length, widths, masks, measurement mode -/
structure SameShape (a b : RunSt R) : Prop where
  mOp : b.mOp = a.mOp
  size : b.qReg.psi.size = a.qReg.psi.size
  qNum : b.qReg.qNum = a.qReg.qNum
  qMask : b.qReg.qMask = a.qReg.qMask
  cNum : b.cReg.qNum = a.cReg.qNum
  cMask : b.cReg.qMask = a.cReg.qMask

theorem SameShape.refl (a : RunSt R) : SameShape a a := ⟨rfl, rfl, rfl, rfl, rfl, rfl⟩
theorem SameShape.trans {a b c : RunSt R} (h : SameShape a b) (h' : SameShape b c) : SameShape a c :=
  ⟨h'.mOp.trans h.mOp, h'.size.trans h.size, h'.qNum.trans h.qNum, h'.qMask.trans h.qMask,
    h'.cNum.trans h.cNum, h'.cMask.trans h.cMask⟩

/-- shape of a quantum register only -/
def QShape (a b : QReg R) : Prop := b.psi.size = a.psi.size ∧ b.qNum = a.qNum ∧ b.qMask = a.qMask

theorem QShape.rfl' (a : QReg R) : QShape a a := ⟨rfl, rfl, rfl⟩
theorem QShape.trans' {a b c : QReg R} (h : QShape a b) (h' : QShape b c) : QShape a c :=
  ⟨h'.1.trans h.1, h'.2.1.trans h.2.1, h'.2.2.trans h.2.2⟩

theorem QReg.apply_shape (r : QReg R) (o : MultiOp R) : QShape r (r.apply o) :=
  ⟨QReg.apply_psi_size r o, rfl, rfl⟩

theorem QReg.reset_shape (r : QReg R) (i : Nat) : QShape r (r.reset i) :=
  ⟨by simp [QReg.reset, QReg.basisBuf], rfl, rfl⟩

theorem QReg.collapseMask_shape (r : QReg R) (i m : Nat) : QShape r (r.collapseMask i m) :=
  ⟨by simp [QReg.collapseMask], rfl, rfl⟩

theorem QReg.normalize_shape (r : QReg R) : QShape r r.normalize := by
  unfold QReg.normalize
  dsimp only []
  split
  · exact QReg.reset_shape r 0
  · split
    · exact QShape.rfl' r
    · exact ⟨by simp, rfl, rfl⟩

theorem QReg.rescale_shape (r : QReg R) : QShape r r.rescale := by
  unfold QReg.rescale
  dsimp only []
  split
  · exact ⟨by simp, rfl, rfl⟩
  · exact QShape.rfl' r

theorem QReg.measureMask_shape (r : QReg R) (m d : Nat) : QShape r (r.measureMask m d).1 := by
  unfold QReg.measureMask
  dsimp only []
  split
  · exact QShape.rfl' r
  · exact QShape.trans' (QReg.collapseMask_shape r _ _) (QReg.rescale_shape _)

theorem QReg.resetByMask_shape (r : QReg R) (m d : Nat) : QShape r (r.resetByMask m d) := by
  unfold QReg.resetByMask
  split
  · exact QReg.reset_shape r 0
  · have h := QReg.measureMask_shape r m d
    generalize r.measureMask m d = p at h
    obtain ⟨r', c⟩ := p
    dsimp only []
    split
    · exact QShape.trans' h (QReg.apply_shape _ _)
    · exact h

theorem foldl_creg_shape {α : Type} (f : CReg → α → CReg)
    (hf : ∀ c p, (f c p).qNum = c.qNum ∧ (f c p).qMask = c.qMask) (l : List α) (c : CReg) :
    (l.foldl f c).qNum = c.qNum ∧ (l.foldl f c).qMask = c.qMask := by
  induction l generalizing c with
  | nil => exact ⟨rfl, rfl⟩
  | cons p l ih =>
    rw [List.foldl_cons]
    exact ⟨(ih _).1.trans (hf c p).1, (ih _).2.trans (hf c p).2⟩

theorem storeBits_shape (mOp : MeasureOp) (c : CReg) (v q m : Nat) :
    (Sym.storeBits mOp c v q m).qNum = c.qNum ∧ (Sym.storeBits mOp c v q m).qMask = c.qMask := by
  unfold Sym.storeBits
  apply foldl_creg_shape
  intro c p
  cases mOp <;> simp only [CReg.set, CReg.xor] <;> split <;> exact ⟨rfl, rfl⟩

theorem Ev.run_shape {st st' : RunSt R} {e : Ev R} (h : Ev.run st e = some st') : SameShape st st' := by
  cases e with
  | app o =>
    simp only [Ev.run, Option.some.injEq] at h
    subst h
    have := QReg.apply_shape st.qReg o
    exact ⟨rfl, this.1, this.2.1, this.2.2, rfl, rfl⟩
  | cond c v o =>
    simp only [Ev.run] at h
    split at h
    · simp only [Option.some.injEq] at h
      subst h
      have := QReg.apply_shape st.qReg o
      exact ⟨rfl, this.1, this.2.1, this.2.2, rfl, rfl⟩
    · simp only [Option.some.injEq] at h
      subst h; exact SameShape.refl _
  | meas qa ca =>
    simp only [Ev.run] at h
    split at h
    · split at h
      · cases h
      · rename_i d ds hd
        simp only [Option.some.injEq] at h
        subst h
        have := QReg.measureMask_shape st.qReg qa d
        have hs := storeBits_shape st.mOp st.cReg (st.qReg.measureMask qa d).2.value qa ca
        exact ⟨rfl, this.1, this.2.1, this.2.2, hs.1, hs.2⟩
    · simp only [Option.some.injEq] at h
      subst h
      have := QReg.measureMask_shape st.qReg qa 0
      have hs := storeBits_shape st.mOp st.cReg (st.qReg.measureMask qa 0).2.value qa ca
      exact ⟨rfl, this.1, this.2.1, this.2.2, hs.1, hs.2⟩
  | reset qm =>
    simp only [Ev.run] at h
    split at h
    · simp only [Option.some.injEq] at h
      subst h
      have := QReg.resetByMask_shape st.qReg qm 0
      exact ⟨rfl, this.1, this.2.1, this.2.2, rfl, rfl⟩
    · split at h
      · split at h
        · cases h
        · rename_i d ds hd
          simp only [Option.some.injEq] at h
          subst h
          have := QReg.resetByMask_shape st.qReg qm d
          exact ⟨rfl, this.1, this.2.1, this.2.2, rfl, rfl⟩
      · simp only [Option.some.injEq] at h
        subst h
        have := QReg.resetByMask_shape st.qReg qm 0
        exact ⟨rfl, this.1, this.2.1, this.2.2, rfl, rfl⟩

theorem runEvs_shape {l : List (Ev R)} {st st' : RunSt R} (h : runEvs l st = some st') :
    SameShape st st' := by
  induction l generalizing st with
  | nil => simp only [runEvs_nil, Option.some.injEq] at h; subst h; exact SameShape.refl _
  | cons e l ih =>
    rw [runEvs_cons] at h
    cases he : Ev.run st e with
    | none => rw [he] at h; cases h
    | some st₁ =>
      rw [he] at h
      exact SameShape.trans (Ev.run_shape he) (ih h)

/-- `finish` keeps the measurement mode, the queue, the buffer length, the widths and masks -/
theorem Sym.finish_preserves_shape {s s' : Sym R} {drawn rest : List Nat}
    (h : Sym.finish s drawn = some (s', rest)) :
    s'.mOp = s.mOp ∧ s'.qOps = s.qOps ∧ s'.qReg.psi.size = s.qReg.psi.size ∧
      s'.qReg.qNum = s.qReg.qNum ∧ s'.qReg.qMask = s.qReg.qMask ∧
      s'.cReg.qNum = s.cReg.qNum ∧ s'.cReg.qMask = s.cReg.qMask := by
  rw [Sym.finish_eq_events] at h
  cases hr : runEvs s.qOps.events (s.toRun drawn) with
  | none => rw [hr] at h; cases h
  | some st =>
    rw [hr] at h
    simp only [Option.map_some, Option.some.injEq, RunSt.toSym, Prod.mk.injEq] at h
    obtain ⟨rfl, rfl⟩ := h
    have := runEvs_shape hr
    exact ⟨this.mOp, rfl, this.size, this.qNum, this.qMask, this.cNum, this.cMask⟩

/-- a simulator whose registers have the shape `Sym.new int` gives them is put back to
`Sym.new int` by `reset` -/
theorem Sym.reset_eq_new (s : Sym R) (int : Interp R) (hm : s.mOp = int.mOp) (ho : s.qOps = int.qOps)
    (hsz : s.qReg.psi.size = max (2 ^ int.qReg.length) minBufferLen)
    (hn : s.qReg.qNum = int.qReg.length) (hk : s.qReg.qMask = 2 ^ int.qReg.length - 1)
    (hcn : s.cReg.qNum = int.cReg.length) (hck : s.cReg.qMask = CReg.maskOf int.cReg.length) :
    s.reset = Sym.new int := by
  obtain ⟨mOp, ⟨psi, qNum, qMask⟩, ⟨value, cNum, cMask⟩, qOps⟩ := s
  simp only at hm ho hsz hn hk hcn hck
  subst hm ho hn hk hcn hck
  simp only [Sym.reset, Sym.new, QReg.reset, QReg.new, CReg.reset, CReg.new, CReg.withState, hsz,
    Nat.and_zero]

/-- equivalent interpreters run alike, from |0…0> and for every outcome stream -/
theorem Sym.finish_congr {s₁ s₂ : Interp R} (h : Interp.Equiv s₁ s₂) (drawn : List Nat) :
    (Sym.finish (Sym.new s₁) drawn).map Sym.final = (Sym.finish (Sym.new s₂) drawn).map Sym.final := by
  rw [Sym.finish_final, Sym.finish_final]
  have : (Sym.new s₁).toRun drawn = (Sym.new s₂).toRun drawn := by
    simp only [Sym.toRun, Sym.new, h.mOp, h.qReg, h.cReg]
  rw [this]
  exact congrArg _ (h.ev _)

end exec

end Qvnt
