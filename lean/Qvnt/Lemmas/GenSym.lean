/-
`qasm/sym.rs`: reset, measure, finish (execution of the block queue).
(split out of GenRegs3.lean so that an equality that no longer holds blocks only the properties that rely on it)
-/
import Qvnt.Lemmas.GenSym.symOfModel
import Qvnt.Lemmas.GenSym.creg_set_of
import Qvnt.Lemmas.GenSym.creg_xor_of
import Qvnt.Lemmas.GenSym.creg_reset_of
import Qvnt.Lemmas.GenSym.sym_new_eq
import Qvnt.Lemmas.GenSym.sym_get_class_eq
import Qvnt.Lemmas.GenSym.sym_get_probabilities_eq
import Qvnt.Lemmas.GenSym.sym_reset_eq
import Qvnt.Lemmas.GenSym.store_set_eq
import Qvnt.Lemmas.GenSym.store_xor_eq
import Qvnt.Lemmas.GenSym.storeBits_qMask
import Qvnt.Lemmas.GenSym.foldlM_sim
import Qvnt.Lemmas.GenSym.foldlM_inv
import Qvnt.Lemmas.GenSym.foldl_option
import Qvnt.Lemmas.GenSym.mstep
import Qvnt.Lemmas.GenSym.finish_as_foldlM
import Qvnt.Lemmas.GenSym.WordQueue
import Qvnt.Lemmas.GenSym.sym_step_eq
import Qvnt.Lemmas.GenSym.mstep_inv
import Qvnt.Lemmas.GenSym.sym_finish_eq
