/-
`qasm/sym.rs`: reset, measure, finish (execution of the block queue).
(split out of GenRegs3.lean so that an equality that no longer holds blocks only the properties that rely on it)
-/
import Qvnt.Lemmas.GenMeas
import Qvnt.Lemmas.GenExtOp

set_option linter.unusedSectionVars false

namespace Qvnt.Gen2
open Qvnt Qvnt.Gen

variable {R : Type}

/-! ### execution of the block queue (`qasm/sym.rs`) -/
section sym
variable [CommRing R] [Consts R] [Div R] [LE R] [DecidableLE R] [LT R] [DecidableLT R] [HasSqrt R] [RegConsts R]

/-- the model's simulator state as the translated record -/
def symOfModel (s : Sym R) : SymG R := ⟨s.mOp, ofModel s.qReg, cregOfModel s.cReg, s.qOps⟩

theorem creg_set_of (c : CReg) (b : Bool) (m : Nat) : creg_set (cregOfModel c) b m = cregOfModel (c.set b m) :=
  creg_eq_of_toModel _ _ (creg_set_eq _ _ _)
theorem creg_xor_of (c : CReg) (b : Bool) (m : Nat) : creg_xor (cregOfModel c) b m = cregOfModel (c.xor b m) :=
  creg_eq_of_toModel _ _ (creg_xor_eq _ _ _)
theorem creg_reset_of (c : CReg) (i : Nat) : creg_reset (cregOfModel c) i = cregOfModel (c.reset i) :=
  creg_eq_of_toModel _ _ (creg_reset_eq _ _)

/-- `Sym::new`: a register of as many qubits / classical bits as the interpreter declared (fewer than 64, which the
interpreter's declaration checks guarantee), the interpreter's queue and measurement mode -/
theorem sym_new_eq (i : Interp R) (hq : i.qReg.length < 64) : sym_new i = symOfModel (Sym.new i) := by
  simp only [sym_new, symOfModel, Sym.new, quant_new_eq _ hq]
  congr 1
  exact creg_eq_of_toModel _ _ (creg_new_eq _)

theorem sym_get_class_eq (s : Sym R) : sym_get_class (symOfModel s) = cregOfModel s.cReg := rfl

theorem sym_get_probabilities_eq (s : Sym R) (h : s.qReg.qNum < 64) (hs : 2 ^ s.qReg.qNum ≤ s.qReg.psi.size) :
    sym_get_probabilities (symOfModel s) = s.qReg.getProbabilities := by
  simp only [sym_get_probabilities, symOfModel]
  exact quant_get_probabilities_eq s.qReg h hs

theorem sym_reset_eq (s : Sym R) : sym_reset (symOfModel s) = symOfModel s.reset := by
  simp [sym_reset, symOfModel, Sym.reset, quant_reset_eq, creg_reset_of]

theorem store_set_eq (c : CReg) (value qa ca : Nat) :
    List.foldl (fun (st : CRegG) (a : Nat × Nat) => creg_set st ((value &&& a.1) != 0) a.2) (cregOfModel c)
        (List.zip (bitsList qa) (bitsList ca)) = cregOfModel (Sym.storeBits .set c value qa ca) := by
  unfold Sym.storeBits
  rw [bitsList_eq, bitsList_eq]
  generalize (bitsIterList qa).zip (bitsIterList ca) = l
  induction l generalizing c with
  | nil => rfl
  | cons x xs ih =>
    simp only [List.foldl_cons, creg_set_of]
    have : ((value &&& x.1) != 0) = decide (value &&& x.1 ≠ 0) := by
      by_cases h : value &&& x.1 = 0 <;> simp [h]
    rw [this]
    exact ih _

theorem store_xor_eq (c : CReg) (value qa ca : Nat) :
    List.foldl (fun (st : CRegG) (a : Nat × Nat) => creg_xor st ((value &&& a.1) != 0) a.2) (cregOfModel c)
        (List.zip (bitsList qa) (bitsList ca)) = cregOfModel (Sym.storeBits .xor c value qa ca) := by
  unfold Sym.storeBits
  rw [bitsList_eq, bitsList_eq]
  generalize (bitsIterList qa).zip (bitsIterList ca) = l
  induction l generalizing c with
  | nil => rfl
  | cons x xs ih =>
    simp only [List.foldl_cons, creg_xor_of]
    have : ((value &&& x.1) != 0) = decide (value &&& x.1 ≠ 0) := by
      by_cases h : value &&& x.1 = 0 <;> simp [h]
    rw [this]
    exact ih _

theorem storeBits_qMask (m : MeasureOp) (c : CReg) (value qa ca : Nat) :
    (Sym.storeBits m c value qa ca).qMask = c.qMask := by
  unfold Sym.storeBits
  generalize (bitsIterList qa).zip (bitsIterList ca) = l
  induction l generalizing c with
  | nil => rfl
  | cons x xs ih =>
    simp only [List.foldl_cons]
    rw [ih]
    cases m <;> simp [CReg.set, CReg.xor] <;> split <;> rfl

/-- a fold in the `Option` monad simulates another one through a map of the states, under an invariant -/
theorem foldlM_sim {σ τ β : Type} (f : σ → β → Option σ) (g : τ → β → Option τ) (φ : τ → σ) (P : τ → Prop)
    (l : List β)
    (hstep : ∀ t b, P t → b ∈ l → f (φ t) b = (g t b).map φ)
    (hP : ∀ t b t', P t → b ∈ l → g t b = some t' → P t') (t : τ) (h0 : P t) :
    List.foldlM f (φ t) l = (List.foldlM g t l).map φ := by
  induction l generalizing t with
  | nil => simp
  | cons b bs ih =>
    simp only [List.foldlM_cons]
    rw [hstep t b h0 (by simp)]
    cases hg : g t b with
    | none => simp
    | some t' =>
      simp only [Option.map_some, Option.bind_some, Option.bind_eq_bind]
      exact ih (fun t b ht hb => hstep t b ht (by simp [hb])) (fun t b t' ht hb => hP t b t' ht (by simp [hb]))
        t' (hP t b t' h0 (by simp) hg)

theorem foldlM_inv {τ β : Type} (g : τ → β → Option τ) (P : τ → Prop) (l : List β)
    (hP : ∀ t b t', P t → b ∈ l → g t b = some t' → P t') (t t' : τ) (h0 : P t)
    (h : List.foldlM g t l = some t') : P t' := by
  induction l generalizing t with
  | nil => simp at h; subst h; exact h0
  | cons b bs ih =>
    simp only [List.foldlM_cons] at h
    cases hg : g t b with
    | none => simp [hg] at h
    | some t1 =>
      simp only [hg, Option.bind_some, Option.bind_eq_bind] at h
      exact ih (fun t b t' ht hb => hP t b t' ht (by simp [hb])) t1 (hP t b t1 h0 (by simp) hg) h

theorem foldl_option {τ β : Type} (g : τ → β → Option τ) (l : List β) (o : Option τ) :
    List.foldl (fun (st : Option τ) b => st.bind (fun x => g x b)) o l = o.bind (fun t => List.foldlM g t l) := by
  induction l generalizing o with
  | nil => cases o <;> simp
  | cons b bs ih =>
    simp only [List.foldl_cons, ih]
    cases o with
    | none => simp
    | some t => simp [List.foldlM_cons]

/-- one block of `Sym::finish` in the model, as a function of the state pair -/
def mstep (p : Sym R × List Nat) (b : MultiOp R × Sep) : Option (Sym R × List Nat) := Sym.stepBlock (some p) b

theorem finish_as_foldlM (s : Sym R) (ds : List Nat) :
    s.finish ds = (List.foldlM mstep (s, ds) s.qOps.blocks).bind
      (fun p => some ({ p.1 with qReg := p.1.qReg.apply p.1.qOps.tail }, p.2)) := by
  rw [Sym.finish_eq_stepBlock]
  have hF : (Sym.stepBlock (R := R)) = (fun st b => st.bind (fun x => mstep x b)) := by
    funext st b
    cases st <;> rfl
  rw [hF, foldl_option]
  simp only [Option.bind_some]
  cases List.foldlM mstep (s, ds) s.qOps.blocks with
  | none => rfl
  | some p => rfl

/-- control masks of a block queue are machine words (true of every queue the interpreter builds) -/
def WordQueue (e : ExtOp R) : Prop :=
  (∀ b ∈ e.blocks, ∀ g ∈ b.1, g.ctrl < 2 ^ 64) ∧ (∀ g ∈ e.tail, g.ctrl < 2 ^ 64)

theorem sym_step_eq (t : Sym R × List Nat) (b : MultiOp R × Sep) (hb : ∀ g ∈ b.1, g.ctrl < 2 ^ 64)
    (hc : t.1.cReg.qMask < 2 ^ 64) :
    sym_finish_for1 (symOfModel t.1, t.2) b = (mstep t b).map (fun p => (symOfModel p.1, p.2)) := by
  obtain ⟨s, ds⟩ := t
  obtain ⟨op, sep⟩ := b
  unfold sym_finish_for1 mstep Sym.stepBlock
  cases sep with
  | nop =>
    simp [symOfModel, quant_apply_eq _ _ hb]
  | measure qa ca =>
    simp only [symOfModel, quant_apply_eq _ _ hb, quant_measure_mask_eq, Sym.draws]
    by_cases h0 : qa &&& (s.qReg.apply op).qMask = 0
    · simp only [h0, ↓reduceIte, Option.bind_some, ne_eq, not_true_eq_false, decide_false, Bool.false_eq_true]
      have hv : creg_get (cregOfModel (CReg.new (s.qReg.apply op).qNum)) = ((s.qReg.apply op).measureMask qa 0).2.value := by
        simp [QReg.measureMask, h0, creg_get, cregOfModel]
      have hq : ofModel (s.qReg.apply op) = ofModel ((s.qReg.apply op).measureMask qa 0).1 := by
        simp [QReg.measureMask, h0]
      cases hm : s.mOp with
      | set => simp [hv, store_set_eq, hq]
      | xor => simp [hv, store_xor_eq, hq]
    · simp only [h0, ↓reduceIte, ne_eq, not_false_eq_true, decide_true]
      cases ds with
      | nil => rfl
      | cons d rest =>
        simp only [Option.bind_some]
        have hv : creg_get (cregOfModel ((s.qReg.apply op).measureMask qa d).2) = ((s.qReg.apply op).measureMask qa d).2.value := rfl
        cases hm : s.mOp with
        | set => simp [hv, store_set_eq]
        | xor => simp [hv, store_xor_eq]
  | ifBranch c v =>
    have hg : creg_get_by_mask (cregOfModel s.cReg) c = s.cReg.getByMask c :=
      creg_get_by_mask_eq (cregOfModel s.cReg) c hc
    simp only [symOfModel, hg]
    by_cases hv : s.cReg.getByMask c = v
    · simp [hv, quant_apply_eq _ _ hb]
    · simp [hv]
  | reset qm =>
    simp only [symOfModel, quant_apply_eq _ _ hb, quant_reset_by_mask_eq, Sym.draws]
    by_cases h1 : qm &&& (s.qReg.apply op).qMask = (s.qReg.apply op).qMask
    · simp [h1]
    · by_cases h0 : qm &&& (s.qReg.apply op).qMask = 0
      · simp [h1, h0]
      · simp only [h1, h0, ↓reduceIte, ne_eq, not_false_eq_true, decide_true]
        cases ds <;> rfl

theorem mstep_inv (t t' : Sym R × List Nat) (b : MultiOp R × Sep) (h : mstep t b = some t') :
    t'.1.qOps = t.1.qOps ∧ t'.1.cReg.qMask = t.1.cReg.qMask := by
  obtain ⟨s, ds⟩ := t
  obtain ⟨op, sep⟩ := b
  unfold mstep Sym.stepBlock at h
  cases sep with
  | nop => simp at h; subst h; simp
  | measure qa ca =>
    simp only at h
    split at h
    · split at h
      · simp at h
      · simp at h; subst h; simp [storeBits_qMask]
    · simp at h; subst h; simp [storeBits_qMask]
  | ifBranch c v =>
    simp only at h
    split at h <;> (simp at h; subst h; simp)
  | reset qm =>
    simp only at h
    split at h
    · simp at h; subst h; simp
    · split at h
      · split at h
        · simp at h
        · simp at h; subst h; simp
      · simp at h; subst h; simp

/-- `Sym::finish` on the stream of drawn basis indices: the translated function is the model's `finish`
(same final register, classical register and remaining draws), for every simulator whose queue has
machine-word control masks and whose classical register has a machine-word mask -/
theorem sym_finish_eq (s : Sym R) (ds : List Nat) (hw : WordQueue s.qOps) (hc : s.cReg.qMask < 2 ^ 64) :
    sym_finish (symOfModel s) ds = (s.finish ds).map (fun p => (symOfModel p.1, p.2)) := by
  rw [finish_as_foldlM]
  unfold sym_finish
  have key := foldlM_sim (sym_finish_for1 (R := R)) mstep (fun p => (symOfModel p.1, p.2))
    (fun t => t.1.qOps = s.qOps ∧ t.1.cReg.qMask = s.cReg.qMask) s.qOps.blocks
    (fun t b ht hb => sym_step_eq t b (hw.1 b hb) (by rw [ht.2]; exact hc))
    (fun t b t' ht hb hg => by
      have := mstep_inv t t' b hg
      exact ⟨this.1.trans ht.1, this.2.trans ht.2⟩)
    (s, ds) ⟨rfl, rfl⟩
  simp only [symOfModel] at key ⊢
  rw [key]
  cases hres : List.foldlM mstep (s, ds) s.qOps.blocks with
  | none => rfl
  | some p =>
    simp only [Option.map_some, Option.bind_some]
    have hinv := foldlM_inv mstep (fun t => t.1.qOps = s.qOps ∧ t.1.cReg.qMask = s.cReg.qMask) s.qOps.blocks
      (fun t b t' ht hb hg => by
        have := mstep_inv t t' b hg
        exact ⟨this.1.trans ht.1, this.2.trans ht.2⟩) (s, ds) p ⟨rfl, rfl⟩ hres
    have htail : ∀ g ∈ p.1.qOps.tail, g.ctrl < 2 ^ 64 := by rw [hinv.1]; exact hw.2
    have := quant_apply_eq p.1.qReg p.1.qOps.tail htail
    simp only [ofModel] at this
    simp [this, ofModel]

end sym


end Qvnt.Gen2
