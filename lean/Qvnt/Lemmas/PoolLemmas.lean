/-
Helper lemmas for the thread-pool model `Qvnt/Model/Pool.lean` (C08, C19).
-/
import Qvnt.Model.Pool

namespace Qvnt.Pool

/-! ### C08: element-wise fill -/

theorem fillSched_size {α : Type} (f : Nat → α) (σ : List Nat) (out : Array α) :
    (fillSched f σ out).size = out.size := by
  unfold fillSched
  induction σ generalizing out with
  | nil => rfl
  | cons i σ ih => simp only [List.foldl_cons]; rw [ih, Array.size_setIfInBounds]

/-- the cell `j` after the schedule `σ`: `f j` if `j` was visited, else untouched -/
theorem fillSched_getElem {α : Type} (f : Nat → α) (σ : List Nat) (out : Array α) (j : Nat)
    (hj : j < out.size) :
    (fillSched f σ out)[j]'(by rw [fillSched_size]; exact hj) = if j ∈ σ then f j else out[j] := by
  induction σ generalizing out with
  | nil => simp [fillSched]
  | cons i σ ih =>
    have hj' : j < (out.setIfInBounds i (f i)).size := by
      rw [Array.size_setIfInBounds]; exact hj
    have h1 : fillSched f (i :: σ) out = fillSched f σ (out.setIfInBounds i (f i)) := rfl
    have h2 := ih (out.setIfInBounds i (f i)) hj'
    simp only [h1, h2, Array.getElem_setIfInBounds hj, List.mem_cons]
    by_cases hm : j ∈ σ
    · simp [hm]
    · by_cases hij : i = j
      · subst hij; simp
      · have hji : ¬ j = i := fun h => hij h.symm
        simp [hm, hij, hji]

/-- every index below `n` visited at least once (repeats and out-of-range indices allowed) -/
theorem fillSched_cover {α : Type} (f : Nat → α) (n : Nat) (σ : List Nat)
    (hcov : ∀ i, i < n → i ∈ σ) (out : Array α) (hs : out.size = n) :
    fillSched f σ out = Array.ofFn (n := n) (fun i => f i.val) := by
  apply Array.ext
  · rw [fillSched_size, hs, Array.size_ofFn]
  · intro j h1 h2
    have hj : j < out.size := by rw [fillSched_size] at h1; exact h1
    rw [fillSched_getElem f σ out j hj, Array.getElem_ofFn]
    simp [hcov j (hs ▸ hj)]

/-! ### C08: reduction trees -/

section
variable {α : Type} [Add α]

/-- left-to-right sum of a non-empty list, `none` for the empty list -/
def sumNE : List α → Option α
  | [] => none
  | x :: xs => some (xs.foldl (· + ·) x)

theorem foldl_add_assoc (hassoc : ∀ a b c : α, a + b + c = a + (b + c)) (a z : α) (zs : List α) :
    zs.foldl (· + ·) (a + z) = a + zs.foldl (· + ·) z := by
  induction zs generalizing z with
  | nil => rfl
  | cons w zs ih => simp only [List.foldl_cons]; rw [hassoc, ih]

theorem sumNE_append (hassoc : ∀ a b c : α, a + b + c = a + (b + c)) (x y : α) (xs ys : List α) :
    sumNE ((x :: xs) ++ (y :: ys)) = some (xs.foldl (· + ·) x + ys.foldl (· + ·) y) := by
  simp only [sumNE, List.cons_append, List.foldl_append, List.foldl_cons]
  rw [foldl_add_assoc hassoc]

omit [Add α] in
theorem Tree.leaves_ne_nil (t : Tree α) : t.leaves ≠ [] := by
  induction t with
  | leaf x => simp [Tree.leaves]
  | node l r ihl ihr => simp [Tree.leaves, ihl]

theorem Tree.sum_eq_sumNE (hassoc : ∀ a b c : α, a + b + c = a + (b + c)) (t : Tree α) :
    sumNE t.leaves = some t.sum := by
  induction t with
  | leaf x => rfl
  | node l r ihl ihr =>
    simp only [Tree.leaves, Tree.sum]
    match hl : l.leaves, hr : r.leaves with
    | [], _ => exact absurd hl (Tree.leaves_ne_nil l)
    | _ :: _, [] => exact absurd hr (Tree.leaves_ne_nil r)
    | x :: xs, y :: ys =>
      rw [hl] at ihl; rw [hr] at ihr
      simp only [sumNE, Option.some.injEq] at ihl ihr
      rw [sumNE_append hassoc, ihl, ihr]

theorem sumNE_perm (hassoc : ∀ a b c : α, a + b + c = a + (b + c))
    (hcomm : ∀ a b : α, a + b = b + a) {l₁ l₂ : List α} (hp : l₁.Perm l₂) :
    sumNE l₁ = sumNE l₂ := by
  induction hp with
  | nil => rfl
  | cons x hp _ =>
    simp only [sumNE, Option.some.injEq]
    exact hp.foldl_eq' (fun a _ b _ z => by
      show z + a + b = z + b + a
      rw [hassoc, hassoc, hcomm a b]) x
  | swap x y l => simp only [sumNE, List.foldl_cons, hcomm y x]
  | trans _ _ ih1 ih2 => exact ih1.trans ih2

end

/-! ### C19: counting over the stacks -/

/-- a weight summed over all frames, when the stack of thread `t` is replaced -/
theorem sum_flatten_set (g : Frame → Nat) :
    ∀ (L : List (List Frame)) (t : Nat) (a b : List Frame), L[t]? = some a →
      ((L.set t b).flatten.map g).sum + (a.map g).sum = (L.flatten.map g).sum + (b.map g).sum
  | [], t, a, b, h => by simp at h
  | x :: L, 0, a, b, h => by
    simp only [List.getElem?_cons_zero, Option.some.injEq] at h
    subst h
    simp only [List.set_cons_zero, List.flatten_cons, List.map_append, List.sum_append]
    omega
  | x :: L, t + 1, a, b, h => by
    have ih := sum_flatten_set g L t a b (by simpa using h)
    simp only [List.set_cons_succ, List.flatten_cons, List.map_append, List.sum_append]
    omega

/-- the number of frames with a property, when the stack of thread `t` is replaced -/
theorem countP_flatten_set (p : Frame → Bool) :
    ∀ (L : List (List Frame)) (t : Nat) (a b : List Frame), L[t]? = some a →
      (L.set t b).flatten.countP p + a.countP p = L.flatten.countP p + b.countP p
  | [], t, a, b, h => by simp at h
  | x :: L, 0, a, b, h => by
    simp only [List.getElem?_cons_zero, Option.some.injEq] at h
    subst h
    simp only [List.set_cons_zero, List.flatten_cons, List.countP_append]
    omega
  | x :: L, t + 1, a, b, h => by
    have ih := countP_flatten_set p L t a b (by simpa using h)
    simp only [List.set_cons_succ, List.flatten_cons, List.countP_append]
    omega

theorem readers_eq (h : Bool) (s : State) :
    s.readers h = s.threads.flatten.countP (Frame.holdsRead h) := by
  unfold State.readers State.frames; rw [List.countP_eq_length_filter]

theorem writers_eq (s : State) : s.writers = s.threads.flatten.countP Frame.holdsWrite := by
  unfold State.writers State.frames; rw [List.countP_eq_length_filter]

/-! ### C19: what one step of a frame does -/

/-- `stepFrame` in relational form -/
theorem stepFrame_cases {h : Bool} {s : State} {f f' : Frame} {p : Option Nat}
    (hs : stepFrame h s f = some (f', p)) :
    f'.want = f.want ∧ f'.job = f.job ∧
    ((f.pc = .start ∧ canRead h s = true ∧ f'.pc = .reading1 ∧ p = none) ∨
     (f.pc = .reading1 ∧ (f'.pc = .wantPool ∨ f'.pc = .wantWrite) ∧ p = none) ∨
     (f.pc = .wantWrite ∧ canWrite h s = true ∧ f'.pc = .writing ∧ p = none) ∨
     (f.pc = .writing ∧ f'.pc = .wantPool ∧ p = some f.want) ∨
     (f.pc = .wantPool ∧ canRead h s = true ∧ f'.pc = .reading3 ∧ p = none) ∨
     (f.pc = .reading3 ∧ f'.pc = .installing f.job ∧ p = none) ∨
     (f.pc = .installing 0 ∧ f'.pc = .done ∧ p = none) ∨
     (∃ w, f.pc = .installing (w + 1) ∧ f'.pc = .installing w ∧ p = none)) := by
  unfold stepFrame at hs
  split at hs
  · split at hs
    · simp only [Option.some.injEq, Prod.mk.injEq] at hs
      obtain ⟨rfl, rfl⟩ := hs; simp_all
    · simp at hs
  · simp only [Option.some.injEq, Prod.mk.injEq] at hs
    obtain ⟨rfl, rfl⟩ := hs
    by_cases hq : (s.pool == some f.want) = true <;> simp_all
  · split at hs
    · simp only [Option.some.injEq, Prod.mk.injEq] at hs
      obtain ⟨rfl, rfl⟩ := hs; simp_all
    · simp at hs
  · simp only [Option.some.injEq, Prod.mk.injEq] at hs
    obtain ⟨rfl, rfl⟩ := hs; simp_all
  · split at hs
    · simp only [Option.some.injEq, Prod.mk.injEq] at hs
      obtain ⟨rfl, rfl⟩ := hs; simp_all
    · simp at hs
  · simp only [Option.some.injEq, Prod.mk.injEq] at hs
    obtain ⟨rfl, rfl⟩ := hs; simp_all
  · simp only [Option.some.injEq, Prod.mk.injEq] at hs
    obtain ⟨rfl, rfl⟩ := hs; simp_all
  · simp only [Option.some.injEq, Prod.mk.injEq] at hs
    obtain ⟨rfl, rfl⟩ := hs; simp_all
  · simp at hs

/-! ### C19: the lock discipline is kept (either version of the code) -/

theorem lockOK_top {h : Bool} {s : State} {t : Nat} {f f' : Frame} {rest : List Frame}
    {p : Option Nat} (hl : s.LockOK h) (ht : s.threads[t]? = some (f :: rest))
    (hs : stepFrame h s f = some (f', p)) :
    State.LockOK h { s with threads := s.threads.set t (f' :: rest),
                            pool := match p with | some n => some n | none => s.pool } := by
  have hR := countP_flatten_set (Frame.holdsRead h) s.threads t (f :: rest) (f' :: rest) ht
  have hW := countP_flatten_set Frame.holdsWrite s.threads t (f :: rest) (f' :: rest) ht
  unfold State.LockOK at hl ⊢
  rw [readers_eq, writers_eq] at hl ⊢
  dsimp only at ⊢
  simp only [List.countP_cons] at hR hW
  have hc := stepFrame_cases hs
  simp only [canRead, canWrite, Bool.and_eq_true, beq_iff_eq, readers_eq, writers_eq] at hc
  obtain ⟨-, -, hc⟩ := hc
  generalize List.countP (Frame.holdsRead h) (s.threads.set t (f' :: rest)).flatten = R' at *
  generalize List.countP Frame.holdsWrite (s.threads.set t (f' :: rest)).flatten = W' at *
  generalize List.countP (Frame.holdsRead h) s.threads.flatten = R at *
  generalize List.countP Frame.holdsWrite s.threads.flatten = W at *
  generalize List.countP (Frame.holdsRead h) rest = r at *
  generalize List.countP Frame.holdsWrite rest = w at *
  cases h <;>
  rcases hc with ⟨h1, h2, h3, -⟩ | ⟨h1, h3 | h3, -⟩ | ⟨h1, h2, h3, -⟩ | ⟨h1, h3, -⟩ |
      ⟨h1, h2, h3, -⟩ | ⟨h1, h3, -⟩ | ⟨h1, h3, -⟩ | ⟨w, h1, h3, -⟩ <;>
  simp only [Frame.holdsRead, Frame.holdsWrite, h1, h3] at hR hW <;>
  (try simp at hR) <;> (try simp at hW) <;> omega

theorem lockOK_same {h : Bool} {s s' : State}
    (hR : s'.threads.flatten.countP (Frame.holdsRead h) = s.threads.flatten.countP (Frame.holdsRead h))
    (hW : s'.threads.flatten.countP Frame.holdsWrite = s.threads.flatten.countP Frame.holdsWrite)
    (hl : s.LockOK h) : s'.LockOK h := by
  unfold State.LockOK at hl ⊢
  rw [readers_eq, writers_eq] at hl ⊢
  rw [hR, hW]; exact hl

theorem lockOK_step {h : Bool} {s s' : State} (hst : Step h s s') (hl : s.LockOK h) :
    s'.LockOK h := by
  cases hst with
  | top t f f' rest p ht hs => exact lockOK_top hl ht hs
  | pop t f rest ht hd =>
    have hR := countP_flatten_set (Frame.holdsRead h) s.threads t (f :: rest) rest ht
    have hW := countP_flatten_set Frame.holdsWrite s.threads t (f :: rest) rest ht
    simp only [List.countP_cons, Frame.holdsRead, Frame.holdsWrite, hd] at hR hW
    simp at hR hW
    exact lockOK_same (by simpa using hR) (by simpa using hW) hl
  | spawn t want job stack pre post ht hw hp =>
    have hR := countP_flatten_set (Frame.holdsRead h) s.threads t stack
      (⟨want, .start, job⟩ :: stack) ht
    have hW := countP_flatten_set Frame.holdsWrite s.threads t stack
      (⟨want, .start, job⟩ :: stack) ht
    simp only [List.countP_cons, Frame.holdsRead, Frame.holdsWrite] at hR hW
    simp at hR hW
    exact lockOK_same (by simpa using hR) (by simpa using hW) hl

theorem lockOK_init (h : Bool) (pool : Option Nat) (n : Nat) (pending : List (Nat × Nat × Nat)) :
    State.LockOK h ⟨pool, List.replicate n [], pending⟩ := by
  have : (List.replicate n ([] : List Frame)).flatten = [] := by
    rw [List.flatten_eq_nil_iff]; intro l hl; exact (List.mem_replicate.mp hl).2
  unfold State.LockOK State.writers State.readers State.frames
  simp [this]

theorem lockOK_reachable {h : Bool} {s : State} (hr : Reachable h s) : s.LockOK h := by
  induction hr with
  | init pool n pending hp => exact lockOK_init h pool n pending
  | step _ hst ih => exact lockOK_step hst ih

/-! ### C19: shape of the stacks -/

/-- every frame below the top of a stack is waiting inside `install` -/
def StackOK (st : List Frame) : Prop := ∀ f ∈ st.tail, ∃ w, f.pc = .installing w

/-- the invariant: stacks are well-shaped, pending tasks name existing threads -/
def Inv (s : State) : Prop :=
  (∀ st ∈ s.threads, StackOK st) ∧ (∀ p ∈ s.pending, p.1 < s.threads.length)

theorem inv_set {s : State} {t : Nat} {st : List Frame} (hi : Inv s) (hst : StackOK st)
    (pool : Option Nat) :
    Inv { s with threads := s.threads.set t st, pool := pool } := by
  refine ⟨fun st' hm => ?_, fun p hp => ?_⟩
  · rcases List.mem_or_eq_of_mem_set hm with h | h
    · exact hi.1 st' h
    · exact h ▸ hst
  · simp only [List.length_set]; exact hi.2 p hp

theorem inv_step {h : Bool} {s s' : State} (hst : Step h s s') (hi : Inv s) : Inv s' := by
  cases hst with
  | top t f f' rest p ht hs =>
    have h0 : StackOK (f :: rest) := hi.1 _ (List.mem_of_getElem? ht)
    have h1 : StackOK (f' :: rest) := fun g hg => h0 g hg
    exact inv_set hi h1 _
  | pop t f rest ht hd =>
    have h0 := hi.1 _ (List.mem_of_getElem? ht)
    refine inv_set (s := s) hi (fun g hg => h0 g ?_) s.pool
    exact List.mem_of_mem_tail hg
  | spawn t want job stack pre post ht hw hp =>
    have h0 := hi.1 _ (List.mem_of_getElem? ht)
    have hst : StackOK (⟨want, .start, job⟩ :: stack) := by
      intro g hg
      simp only [List.tail_cons] at hg
      rcases hw with rfl | ⟨f, rest, w, rfl, hpc⟩
      · simp at hg
      · rcases List.mem_cons.mp hg with rfl | hg
        · exact ⟨w, hpc⟩
        · exact h0 g hg
    refine ⟨fun st' hm => ?_, fun p hp' => ?_⟩
    · rcases List.mem_or_eq_of_mem_set hm with h | h
      · exact hi.1 st' h
      · exact h ▸ hst
    · simp only [List.length_set]
      refine hi.2 p ?_
      rw [hp]
      rcases List.mem_append.mp hp' with h | h
      · exact List.mem_append_left _ h
      · exact List.mem_append_right _ (List.mem_cons_of_mem _ h)

theorem inv_reachable {h : Bool} {s : State} (hr : Reachable h s) : Inv s := by
  induction hr with
  | init pool n pending hp =>
    refine ⟨fun st hm => ?_, fun p hm => ?_⟩
    · rw [(List.mem_replicate.mp hm).2]; intro f hf; simp at hf
    · simp only [List.length_replicate]; exact hp p hm
  | step _ hst ih => exact inv_step hst ih

/-- a frame that holds a lock (code after the repair) can always make its next step -/
theorem holder_steps {s : State} {f : Frame}
    (hh : (f.holdsRead false || f.holdsWrite) = true) : ∃ r, stepFrame false s f = some r := by
  unfold Frame.holdsRead Frame.holdsWrite at hh
  unfold stepFrame
  cases hpc : f.pc <;> simp_all

/-- in a well-shaped stack (code after the repair) a lock holder is the top frame -/
theorem holder_top {st : List Frame} (hst : StackOK st) {i : Nat} {f : Frame}
    (hf : st[i]? = some f) (hh : (f.holdsRead false || f.holdsWrite) = true) : i = 0 := by
  cases i with
  | zero => rfl
  | succ i =>
    exfalso
    cases st with
    | nil => simp at hf
    | cons x xs =>
      rw [List.getElem?_cons_succ] at hf
      obtain ⟨w, hw⟩ := hst f (by simpa using List.mem_of_getElem? hf)
      simp [Frame.holdsRead, Frame.holdsWrite, hw] at hh

/-- when nobody holds the lock, every frame that has not finished can step -/
theorem free_steps {s : State} (hW : s.writers = 0) (hR : s.readers false = 0) (f : Frame) :
    f.pc = .done ∨ ∃ r, stepFrame false s f = some r := by
  unfold stepFrame canRead canWrite
  cases hpc : f.pc with
  | installing w => cases w <;> simp
  | _ => simp [hW, hR]

theorem progress_of_inv {s : State} (hi : Inv s) : AllDone s ∨ ∃ s', Step false s s' := by
  by_cases hfr : s.frames = []
  · -- nobody is inside `global_install`
    cases hp : s.pending with
    | nil => exact Or.inl ⟨hfr, hp⟩
    | cons p post =>
      right
      obtain ⟨t, want, job⟩ := p
      have ht : t < s.threads.length := hi.2 (t, want, job) (by rw [hp]; simp)
      have hst : s.threads[t]? = some s.threads[t] := List.getElem?_eq_getElem ht
      have hnil : s.threads[t] = [] := by
        have := List.flatten_eq_nil_iff.mp hfr
        exact this _ (List.getElem_mem ht)
      rw [hnil] at hst
      exact ⟨_, Step.spawn s t want job [] [] post hst (Or.inl rfl) (by simpa using hp)⟩
  · right
    by_cases hh : ∃ f ∈ s.frames, (f.holdsRead false || f.holdsWrite) = true
    · -- somebody holds the lock: that frame is on top of its stack and can step
      obtain ⟨f, hf, hh⟩ := hh
      obtain ⟨st, hst, hfst⟩ := List.mem_flatten.mp hf
      obtain ⟨t, ht⟩ := List.getElem?_of_mem hst
      obtain ⟨i, hi'⟩ := List.getElem?_of_mem hfst
      have h0 := holder_top (hi.1 st hst) hi' hh
      subst h0
      obtain ⟨r, hr⟩ := holder_steps (s := s) hh
      cases st with
      | nil => simp at hi'
      | cons x rest =>
        simp only [List.getElem?_cons_zero, Option.some.injEq] at hi'
        subst hi'
        exact ⟨_, Step.top s t x r.1 rest r.2 ht hr⟩
    · -- the lock is free: any top frame can move or return
      have hno : ∀ f ∈ s.frames, f.holdsRead false = false ∧ f.holdsWrite = false := by
        intro f hf
        have := fun hc => hh ⟨f, hf, hc⟩
        simpa using this
      have hW : s.writers = 0 := by
        unfold State.writers
        rw [List.length_eq_zero_iff, List.filter_eq_nil_iff]
        intro f hf; simp [(hno f hf).2]
      have hR : s.readers false = 0 := by
        unfold State.readers
        rw [List.length_eq_zero_iff, List.filter_eq_nil_iff]
        intro f hf; simp [(hno f hf).1]
      obtain ⟨f, hf⟩ := List.exists_mem_of_ne_nil _ hfr
      obtain ⟨st, hst, hfst⟩ := List.mem_flatten.mp hf
      obtain ⟨t, ht⟩ := List.getElem?_of_mem hst
      cases st with
      | nil => simp at hfst
      | cons x rest =>
        rcases free_steps hW hR x with hd | ⟨r, hr⟩
        · exact ⟨_, Step.pop s t x rest ht hd⟩
        · exact ⟨_, Step.top s t x r.1 rest r.2 ht hr⟩

/-! ### C19: a measure that every step decreases -/

/-- number of steps a frame with this program counter can still take, its return included -/
def Pc.rank (job : Nat) : Pc → Nat
  | .start => job + 8
  | .reading1 => job + 7
  | .wantWrite => job + 6
  | .writing => job + 5
  | .wantPool => job + 4
  | .reading3 => job + 3
  | .installing w => w + 2
  | .done => 1

def Frame.rank (f : Frame) : Nat := f.pc.rank f.job

/-- the termination measure: every pending task counts for its start plus a whole call
(`job + 9`), every call in progress for the steps it still has to take -/
def measure (s : State) : Nat :=
  (s.pending.map (fun p => p.2.2 + 9)).sum + (s.frames.map Frame.rank).sum

theorem rank_step {h : Bool} {s : State} {f f' : Frame} {p : Option Nat}
    (hs : stepFrame h s f = some (f', p)) : f'.rank < f.rank := by
  obtain ⟨-, hj, hc⟩ := stepFrame_cases hs
  unfold Frame.rank
  rw [hj]
  rcases hc with ⟨h1, -, h3, -⟩ | ⟨h1, h3 | h3, -⟩ | ⟨h1, -, h3, -⟩ | ⟨h1, h3, -⟩ |
      ⟨h1, -, h3, -⟩ | ⟨h1, h3, -⟩ | ⟨h1, h3, -⟩ | ⟨w, h1, h3, -⟩ <;>
  rw [h1, h3] <;> simp only [Pc.rank] <;> omega

theorem measure_step {h : Bool} {s s' : State} (hst : Step h s s') : measure s' < measure s := by
  cases hst with
  | top t f f' rest p ht hs =>
    have hS := sum_flatten_set Frame.rank s.threads t (f :: rest) (f' :: rest) ht
    have hr := rank_step hs
    simp only [List.map_cons, List.sum_cons] at hS
    unfold measure State.frames
    dsimp only
    omega
  | pop t f rest ht hd =>
    have hS := sum_flatten_set Frame.rank s.threads t (f :: rest) rest ht
    have hr : f.rank = 1 := by unfold Frame.rank; rw [hd]; rfl
    simp only [List.map_cons, List.sum_cons] at hS
    unfold measure State.frames
    dsimp only
    omega
  | spawn t want job stack pre post ht hw hp =>
    have hS := sum_flatten_set Frame.rank s.threads t stack (⟨want, .start, job⟩ :: stack) ht
    have hr : Frame.rank ⟨want, .start, job⟩ = job + 8 := rfl
    simp only [List.map_cons, List.sum_cons] at hS
    unfold measure State.frames
    dsimp only
    rw [hp]
    simp only [List.map_append, List.map_cons, List.sum_append, List.sum_cons]
    omega

/-- along a run the measure drops by at least one per step -/
theorem measure_run {h : Bool} (run : Nat → State) (n : Nat)
    (hrun : ∀ i, i < n → Step h (run i) (run (i + 1))) :
    ∀ i, i ≤ n → measure (run i) + i ≤ measure (run 0) := by
  intro i
  induction i with
  | zero => intro _; exact Nat.le_refl _
  | succ i ih =>
    intro hi
    have h1 := ih (by omega)
    have h2 := measure_step (hrun i (by omega))
    omega

theorem reachable_run {h : Bool} (run : Nat → State) (n : Nat) (h0 : Reachable h (run 0))
    (hrun : ∀ i, i < n → Step h (run i) (run (i + 1))) : ∀ i, i ≤ n → Reachable h (run i) := by
  intro i
  induction i with
  | zero => intro _; exact h0
  | succ i ih => intro hi; exact Reachable.step (ih (by omega)) (hrun i (by omega))

/-- from a state satisfying the invariant some run reaches `AllDone` -/
theorem exists_run_of_inv : ∀ (m : Nat) (s : State), measure s ≤ m → Inv s →
    ∃ n, n ≤ m ∧ ∃ run : Nat → State, run 0 = s ∧
      (∀ i, i < n → Step false (run i) (run (i + 1))) ∧ AllDone (run n)
  | 0, s, hm, hi => by
    rcases progress_of_inv hi with hd | ⟨s', hs'⟩
    · exact ⟨0, Nat.le_refl _, fun _ => s, rfl, fun i hi => absurd hi (Nat.not_lt_zero i), hd⟩
    · have := measure_step hs'; omega
  | m + 1, s, hm, hi => by
    rcases progress_of_inv hi with hd | ⟨s', hs'⟩
    · exact ⟨0, Nat.zero_le _, fun _ => s, rfl, fun i hi => absurd hi (Nat.not_lt_zero i), hd⟩
    · have hlt := measure_step hs'
      obtain ⟨n, hn, run, h0, hrun, hd⟩ := exists_run_of_inv m s' (by omega) (inv_step hs' hi)
      refine ⟨n + 1, by omega, fun i => match i with | 0 => s | i + 1 => run i, rfl, ?_, hd⟩
      intro i hi
      cases i with
      | zero => show Step false s (run 0); rw [h0]; exact hs'
      | succ i => exact hrun i (by omega)

/-! ### C19: the deadlock of the code before the repair -/

/-- one caller thread; its first call (2 threads, matching the stored pool) waits inside
`install` still holding the read guard; on top of it a sibling task asking for 3 threads wants
the write lock -/
def deadlockState : State :=
  ⟨some 2, [[⟨3, .wantWrite, 0⟩, ⟨2, .installing 1, 1⟩]], []⟩

/-- the state is reachable in both versions of the code -/
theorem deadlock_reachable (h : Bool) : Reachable h deadlockState := by
  let s0 : State := ⟨some 2, List.replicate 1 [], [(0, 2, 1), (0, 3, 0)]⟩
  let s1 : State := ⟨some 2, [[⟨2, .start, 1⟩]], [(0, 3, 0)]⟩
  let s2 : State := ⟨some 2, [[⟨2, .reading1, 1⟩]], [(0, 3, 0)]⟩
  let s3 : State := ⟨some 2, [[⟨2, .wantPool, 1⟩]], [(0, 3, 0)]⟩
  let s4 : State := ⟨some 2, [[⟨2, .reading3, 1⟩]], [(0, 3, 0)]⟩
  let s5 : State := ⟨some 2, [[⟨2, .installing 1, 1⟩]], [(0, 3, 0)]⟩
  let s6 : State := ⟨some 2, [[⟨3, .start, 0⟩, ⟨2, .installing 1, 1⟩]], []⟩
  let s7 : State := ⟨some 2, [[⟨3, .reading1, 0⟩, ⟨2, .installing 1, 1⟩]], []⟩
  have r0 : Reachable h s0 :=
    Reachable.init (some 2) 1 [(0, 2, 1), (0, 3, 0)] (by decide)
  have t1 : Step h s0 s1 := Step.spawn s0 0 2 1 [] [] [(0, 3, 0)] rfl (Or.inl rfl) rfl
  have t2 : Step h s1 s2 := Step.top s1 0 ⟨2, .start, 1⟩ ⟨2, .reading1, 1⟩ [] none rfl rfl
  have t3 : Step h s2 s3 := Step.top s2 0 ⟨2, .reading1, 1⟩ ⟨2, .wantPool, 1⟩ [] none rfl rfl
  have t4 : Step h s3 s4 := Step.top s3 0 ⟨2, .wantPool, 1⟩ ⟨2, .reading3, 1⟩ [] none rfl rfl
  have t5 : Step h s4 s5 :=
    Step.top s4 0 ⟨2, .reading3, 1⟩ ⟨2, .installing 1, 1⟩ [] none rfl rfl
  have t6 : Step h s5 s6 :=
    Step.spawn s5 0 3 0 [⟨2, .installing 1, 1⟩] [] [] rfl
      (Or.inr ⟨⟨2, .installing 1, 1⟩, [], 1, rfl, rfl⟩) rfl
  have t7 : Step h s6 s7 :=
    Step.top s6 0 ⟨3, .start, 0⟩ ⟨3, .reading1, 0⟩ [⟨2, .installing 1, 1⟩] none rfl rfl
  have t8 : Step h s7 deadlockState :=
    Step.top s7 0 ⟨3, .reading1, 0⟩ ⟨3, .wantWrite, 0⟩ [⟨2, .installing 1, 1⟩] none rfl rfl
  exact ((((((((r0.step t1).step t2).step t3).step t4).step t5).step t6).step t7).step t8)

theorem deadlock_not_done : ¬ AllDone deadlockState := by
  intro h; exact absurd h.1 (by decide)

theorem deadlock_stuck : ∀ s', ¬ Step true deadlockState s' := by
  intro s' hst
  generalize hs : deadlockState = s at hst
  cases hst with
  | top t f f' rest p ht hsf =>
    subst hs
    cases t with
    | zero =>
      simp only [deadlockState, List.getElem?_cons_zero, Option.some.injEq, List.cons.injEq] at ht
      obtain ⟨rfl, rfl⟩ := ht
      revert hsf
      simp [stepFrame, canWrite, State.writers, State.readers, State.frames, Frame.holdsRead,
        Frame.holdsWrite, deadlockState]
    | succ t => simp [deadlockState] at ht
  | pop t f rest ht hd =>
    subst hs
    cases t with
    | zero =>
      simp only [deadlockState, List.getElem?_cons_zero, Option.some.injEq, List.cons.injEq] at ht
      obtain ⟨rfl, rfl⟩ := ht
      simp at hd
    | succ t => simp [deadlockState] at ht
  | spawn t want job stack pre post ht hw hp =>
    subst hs
    simp [deadlockState] at hp

/-! ### C19: a first-use race, as a non-vacuity witness -/

/-- two OS threads, no pool yet; both have read "no pool" and now both want the write lock to
create it, with different sizes -/
def raceState : State :=
  ⟨none, [[⟨2, .wantWrite, 1⟩], [⟨3, .wantWrite, 1⟩]], []⟩

theorem race_reachable (h : Bool) : Reachable h raceState := by
  let a0 : State := ⟨none, List.replicate 2 [], [(0, 2, 1), (1, 3, 1)]⟩
  let a1 : State := ⟨none, [[⟨2, .start, 1⟩], []], [(1, 3, 1)]⟩
  let a2 : State := ⟨none, [[⟨2, .start, 1⟩], [⟨3, .start, 1⟩]], []⟩
  let a3 : State := ⟨none, [[⟨2, .reading1, 1⟩], [⟨3, .start, 1⟩]], []⟩
  let a4 : State := ⟨none, [[⟨2, .reading1, 1⟩], [⟨3, .reading1, 1⟩]], []⟩
  let a5 : State := ⟨none, [[⟨2, .wantWrite, 1⟩], [⟨3, .reading1, 1⟩]], []⟩
  have r0 : Reachable h a0 := Reachable.init none 2 [(0, 2, 1), (1, 3, 1)] (by decide)
  have t1 : Step h a0 a1 := Step.spawn a0 0 2 1 [] [] [(1, 3, 1)] rfl (Or.inl rfl) rfl
  have t2 : Step h a1 a2 := Step.spawn a1 1 3 1 [] [] [] rfl (Or.inl rfl) rfl
  have t3 : Step h a2 a3 := Step.top a2 0 ⟨2, .start, 1⟩ ⟨2, .reading1, 1⟩ [] none rfl rfl
  have t4 : Step h a3 a4 := Step.top a3 1 ⟨3, .start, 1⟩ ⟨3, .reading1, 1⟩ [] none rfl rfl
  have t5 : Step h a4 a5 := Step.top a4 0 ⟨2, .reading1, 1⟩ ⟨2, .wantWrite, 1⟩ [] none rfl rfl
  have t6 : Step h a5 raceState :=
    Step.top a5 1 ⟨3, .reading1, 1⟩ ⟨3, .wantWrite, 1⟩ [] none rfl rfl
  exact ((((((r0.step t1).step t2).step t3).step t4).step t5).step t6)

end Qvnt.Pool
