/-
`operator/multi/qft.rs`: qft, qft_swapped.
(split out of GenRegs2.lean so that an equality that no longer holds blocks only the properties that rely on it)
-/
import Qvnt.Lemmas.GenQft.genPhase
import Qvnt.Lemmas.GenQft.single_c_eq_p
import Qvnt.Lemmas.GenQft.foldlM_append
import Qvnt.Lemmas.GenQft.vec_eq
import Qvnt.Lemmas.GenQft.qft_qft_eq
import Qvnt.Lemmas.GenQft.swapped_loop_eq
import Qvnt.Lemmas.GenQft.qft_qft_swapped_eq
import Qvnt.Lemmas.GenQft.op_qft_eq
import Qvnt.Lemmas.GenQft.op_qft_swapped_eq
