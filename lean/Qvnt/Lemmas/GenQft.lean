/-
`operator/multi/qft.rs`: qft, qft_swapped.
(split out of GenRegs2.lean so that an equality that no longer holds blocks only the properties that rely on it)
-/
import Qvnt.Lemmas.GenCtors

set_option linter.unusedSectionVars false

namespace Qvnt.Gen2
open Qvnt Qvnt.Gen

variable {R : Type}

/-! ### `multi::qft` (`operator/multi/qft.rs`) -/
section qft
variable [CommRing R] [Consts R] [Div R] [Trig R] [Rs.AngleConsts R]

/-- the half-angle phases of `PI * 0.5^j`, as the translated constructor computes them -/
def genPhase (j : Nat) : Cx R := halfPhaseDiv ((Rs.AngleConsts.pi : R) * Rs.powi Consts.half j)

theorem single_c_eq' (g : SingleOp R) (c : Nat) : single_c g c = g.c c := by
  unfold single_c SingleOp.c single_act_on SingleOp.actOn
  by_cases h : (g.act ||| g.ctrl) &&& c = 0 <;> simp [h]

theorem foldlM_append {α β : Type} (F : α → Option (List β)) (l : List α) (init : List β) :
    List.foldlM (fun res i => Option.bind (F i) (fun x => some (res ++ x))) init l =
      (l.mapM F).map (fun xs => init ++ xs.flatten) := by
  induction l generalizing init with
  | nil => simp
  | cons a l ih =>
    simp only [List.foldlM_cons, List.mapM_cons]
    cases F a with
    | none => simp
    | some x =>
      simp only [Option.bind_some, Option.bind_eq_bind, ih]
      cases l.mapM F <;> simp

theorem vec_eq (a : Nat) :
    List.foldl (fun (vec : List Nat) idx => if (shlW 64 1 idx &&& a != 0) then vec ++ [shlW 64 1 idx] else vec) [] (Rs.range 0 64) =
      Op.qftBits a := by
  unfold Op.qftBits Rs.range W
  have key : ∀ (l : List Nat) (acc : List Nat), (∀ i ∈ l, i < 64) →
      List.foldl (fun (vec : List Nat) idx => if (shlW 64 1 idx &&& a != 0) then vec ++ [shlW 64 1 idx] else vec) acc l =
        acc ++ l.filterMap (fun i => if (2 ^ i) &&& a != 0 then some (2 ^ i) else none) := by
    intro l
    induction l with
    | nil => intro acc _; simp
    | cons x xs ih =>
      intro acc hx
      have hx64 : x < 64 := hx x (by simp)
      have hs : shlW 64 1 x = 2 ^ x := shl_one x hx64
      simp only [List.foldl_cons, List.filterMap_cons, hs]
      rw [ih _ (fun i hi => hx i (by simp [hi]))]
      by_cases hb : (2 ^ x &&& a != 0) = true <;> simp [hb]
  have := key (List.range' 0 (64 - 0)) [] (by intro i hi; simp at hi; omega)
  simpa [List.range_eq_range'] using this

theorem qft_qft_eq (a : Nat) : qft_qft (R := R) a = Op.qft genPhase a := by
  unfold qft_qft Op.qft
  cases hc : popcount a with
  | zero => simp
  | succ k =>
    cases k with
    | zero => simp [h_h_eq]
    | succ k =>
      simp only [beq_iff_eq, Nat.succ_ne_zero, ↓reduceIte, Nat.add_eq_right]
      have hv := vec_eq a
      -- the bit list
      have hvec : (List.foldl (fun (st2 : List Nat) a3 =>
          (if (shlW 64 1 a3 &&& a != 0) = true then st2 ++ [shlW 64 1 a3] else st2)) [] (Rs.range 0 64)) = Op.qftBits a := hv
      simp only [hvec]
      generalize Op.qftBits a = vec
      -- one stage, as a function of i
      have hstage : ∀ i : Nat,
          (Option.bind (h_h (R := R) (vec.getD i 0)) fun u19 =>
            Option.bind (List.mapM (fun j =>
              Option.bind (Option.bind (rotate_rz (vec.getD (i + j) 0) ((Rs.AngleConsts.pi : R) * Rs.powi Consts.half j))
                  fun op => single_c op (vec.getD i 0)) fun u25 =>
                Option.bind (rotate_rz (vec.getD i 0) (Consts.half * ((Rs.AngleConsts.pi : R) * Rs.powi Consts.half j))) fun u26 =>
                  some [u25, u26]) (Rs.range 1 (k + 1 + 1 - i))) fun u27 => some (u19 ++ List.flatten u27)) =
          (do
            let hi ← Op.h (R := R) (vec.getD i 0)
            let rots ← (List.range (k + 1 + 1 - i - 1)).mapM (fun k' =>
              match SingleOp.checked (Atom.rz (vec.getD (i + (k' + 1)) 0) (genPhase (R := R) (k' + 1))),
                    SingleOp.checked (Atom.rz (vec.getD i 0) (genPhase (R := R) (k' + 1 + 1))) with
              | some g, some g' => (g.c (vec.getD i 0)).map (fun cg => [cg, g'])
              | _, _ => none)
            pure (hi ++ rots.flatten)) := by
        intro i
        rw [h_h_eq]
        have hr : Rs.range 1 (k + 1 + 1 - i) = (List.range (k + 1 + 1 - i - 1)).map (· + 1) := by
          unfold Rs.range
          apply List.ext_getElem
          · simp
          · intro n h1 h2
            simp [Nat.add_comm]
        rw [hr, List.mapM_map]
        have hf : ∀ k' : Nat,
            (Option.bind (Option.bind (rotate_rz (vec.getD (i + (k' + 1)) 0) ((Rs.AngleConsts.pi : R) * Rs.powi Consts.half (k' + 1)))
                fun op => single_c op (vec.getD i 0)) fun u25 =>
              Option.bind (rotate_rz (vec.getD i 0) (Consts.half * ((Rs.AngleConsts.pi : R) * Rs.powi Consts.half (k' + 1)))) fun u26 =>
                some [u25, u26]) =
            (match SingleOp.checked (Atom.rz (vec.getD (i + (k' + 1)) 0) (genPhase (R := R) (k' + 1))),
                  SingleOp.checked (Atom.rz (vec.getD i 0) (genPhase (R := R) (k' + 1 + 1))) with
              | some g, some g' => (g.c (vec.getD i 0)).map (fun cg => [cg, g'])
              | _, _ => none) := by
          intro k'
          have hph : (Consts.half : R) * ((Rs.AngleConsts.pi : R) * Rs.powi Consts.half (k' + 1)) =
              (Rs.AngleConsts.pi : R) * Rs.powi Consts.half (k' + 1 + 1) := by
            simp only [Rs.powi]; ring
          rw [rotate_rz_eq, rotate_rz_eq, hph]
          simp only [genPhase]
          generalize SingleOp.checked (Atom.rz (vec.getD (i + (k' + 1)) 0)
              (halfPhaseDiv ((Rs.AngleConsts.pi : R) * Rs.powi Consts.half (k' + 1)))) = o1
          generalize SingleOp.checked (Atom.rz (vec.getD i 0)
              (halfPhaseDiv ((Rs.AngleConsts.pi : R) * Rs.powi Consts.half (k' + 1 + 1)))) = o2
          cases o1 with
          | none => cases o2 <;> rfl
          | some g =>
            cases o2 with
            | none => simp only [Option.bind_some]; rw [single_c_eq']; cases g.c (vec.getD i 0) <;> rfl
            | some g' => simp only [Option.bind_some]; rw [single_c_eq']; cases g.c (vec.getD i 0) <;> rfl
        simp only [Function.comp_def, hf]
        cases Op.h (R := R) (vec.getD i 0) <;> simp
      -- assemble
      have hloop := foldlM_append (fun i =>
          (Option.bind (h_h (R := R) (vec.getD i 0)) fun u19 =>
            Option.bind (List.mapM (fun j =>
              Option.bind (Option.bind (rotate_rz (vec.getD (i + j) 0) ((Rs.AngleConsts.pi : R) * Rs.powi Consts.half j))
                  fun op => single_c op (vec.getD i 0)) fun u25 =>
                Option.bind (rotate_rz (vec.getD i 0) (Consts.half * ((Rs.AngleConsts.pi : R) * Rs.powi Consts.half j))) fun u26 =>
                  some [u25, u26]) (Rs.range 1 (k + 1 + 1 - i))) fun u27 => some (u19 ++ List.flatten u27)))
        (Rs.range 0 (k + 1 + 1 - 1)) []
      have hbody : (fun (st17 : List (SingleOp R)) a18 =>
            (h_h (R := R) (vec.getD a18 0)).bind fun a =>
              (List.mapM (fun a20 =>
                  ((rotate_rz (vec.getD (a18 + a20) 0) ((Rs.AngleConsts.pi : R) * Rs.powi Consts.half a20)).bind fun a =>
                      single_c a (vec.getD a18 0)).bind fun a =>
                    (rotate_rz (vec.getD a18 0) (Consts.half * ((Rs.AngleConsts.pi : R) * Rs.powi Consts.half a20))).bind
                      fun a_1 => some [a, a_1]) (Rs.range 1 (k + 1 + 1 - a18))).bind
                fun a_1 => some (st17 ++ a ++ a_1.flatten)) =
          (fun res i =>
            Option.bind ((Option.bind (h_h (R := R) (vec.getD i 0)) fun u19 =>
              Option.bind (List.mapM (fun j =>
                Option.bind (Option.bind (rotate_rz (vec.getD (i + j) 0) ((Rs.AngleConsts.pi : R) * Rs.powi Consts.half j))
                    fun op => single_c op (vec.getD i 0)) fun u25 =>
                  Option.bind (rotate_rz (vec.getD i 0) (Consts.half * ((Rs.AngleConsts.pi : R) * Rs.powi Consts.half j))) fun u26 =>
                    some [u25, u26]) (Rs.range 1 (k + 1 + 1 - i))) fun u27 => some (u19 ++ List.flatten u27))) (fun x => some (res ++ x))) := by
        funext res i
        cases h_h (R := R) (vec.getD i 0) with
        | none => rfl
        | some u =>
          simp only [Option.bind_some]
          cases List.mapM (fun a20 =>
                  ((rotate_rz (vec.getD (i + a20) 0) ((Rs.AngleConsts.pi : R) * Rs.powi Consts.half a20)).bind fun a =>
                      single_c a (vec.getD i 0)).bind fun a =>
                    (rotate_rz (vec.getD i 0) (Consts.half * ((Rs.AngleConsts.pi : R) * Rs.powi Consts.half a20))).bind
                      fun a_1 => some [a, a_1]) (Rs.range 1 (k + 1 + 1 - i)) with
          | none => rfl
          | some v => simp [List.append_assoc]
      rw [hbody, hloop]
      have hr0 : Rs.range 0 (k + 1 + 1 - 1) = List.range (k + 1 + 1 - 1) := by
        simp [Rs.range, List.range_eq_range']
      rw [hr0]
      simp only [hstage]
      simp only [h_h_eq]
      cases List.mapM (fun i => (do
            let hi ← Op.h (R := R) (vec.getD i 0)
            let rots ← (List.range (k + 1 + 1 - i - 1)).mapM (fun k' =>
              match SingleOp.checked (Atom.rz (vec.getD (i + (k' + 1)) 0) (genPhase (R := R) (k' + 1))),
                    SingleOp.checked (Atom.rz (vec.getD i 0) (genPhase (R := R) (k' + 1 + 1))) with
              | some g, some g' => (g.c (vec.getD i 0)).map (fun cg => [cg, g'])
              | _, _ => none)
            pure (hi ++ rots.flatten))) (List.range (k + 1 + 1 - 1)) with
      | none => rfl
      | some st =>
        simp only [Option.map_some, List.nil_append, Option.bind_some, Option.bind_eq_bind]
        cases Op.h (R := R) (vec.getD (k + 1 + 1 - 1) 0) <;> rfl

theorem swapped_loop_eq (a fuel pos : Nat) (acc : List Nat) (hp : pos < 2 ^ 64) :
    (qft_qft_swapped_loop1 a fuel (acc, pos)).map (fun st => st.1) = Op.maskBitsLoop a fuel pos acc := by
  induction fuel generalizing pos acc with
  | zero => simp [qft_qft_swapped_loop1, Op.maskBitsLoop]
  | succ n ih =>
    have hs : shl1 pos < 2 ^ 64 := by unfold shl1 W; exact Nat.mod_lt _ (by decide)
    unfold qft_qft_swapped_loop1 Op.maskBitsLoop
    by_cases hc : (pos != 0 && decide (pos ≤ a)) = true
    · by_cases hb : (pos &&& a != 0) = true
      · simp [hc, hb, shl_pos pos hp, ← ih _ _ hs]
      · simp [hc, hb, shl_pos pos hp, ← ih _ _ hs]
    · simp [hc]

theorem qft_qft_swapped_eq (a : Nat) : qft_qft_swapped (R := R) a = Op.qftSwapped genPhase a := by
  unfold qft_qft_swapped Op.qftSwapped
  rw [← swapped_loop_eq a (W + 2) 1 [] (by decide)]
  dsimp only
  generalize qft_qft_swapped_loop1 a (W + 2) ([], 1) = o
  cases o with
  | none => rfl
  | some st =>
    obtain ⟨vm, idx⟩ := st
    simp only [Option.bind_some, Option.map_some, Option.bind_eq_bind]
    have hbody : (fun (st6 : List (SingleOp R)) a7 =>
          Option.bind (swapmod_swap (R := R) (vm.getD a7 0 ||| vm.getD (vm.length - a7 - 1) 0)) fun u8 =>
            some (st6 ++ MultiOp.ofSingle u8)) =
        (fun res i => Option.bind ((SingleOp.checked (Atom.swap (R := R) (vm.getD i 0 ||| vm.getD (vm.length - i - 1) 0))).map
          MultiOp.ofSingle) (fun x => some (res ++ x))) := by
      funext res i
      rw [swapmod_swap_eq]
      cases SingleOp.checked (Atom.swap (R := R) (vm.getD i 0 ||| vm.getD (vm.length - i - 1) 0)) <;> rfl
    rw [hbody, foldlM_append]
    have hr0 : Rs.range 0 (vm.length >>> 1) = List.range (vm.length / 2) := by
      simp [Rs.range, List.range_eq_range', Nat.shiftRight_eq_div_pow]
    rw [hr0, qft_qft_eq]
    cases List.mapM (fun i => (SingleOp.checked (Atom.swap (R := R) (vm.getD i 0 ||| vm.getD (vm.length - i - 1) 0))).map
        MultiOp.ofSingle) (List.range (vm.length / 2)) with
    | none => rfl
    | some sw =>
      simp only [Option.map_some, List.nil_append, Option.bind_some]
      cases Op.qft (R := R) genPhase a <;> rfl

theorem op_qft_eq (a : Nat) : op_qft (R := R) a = Op.qft genPhase a := by
  simp [op_qft, qft_qft_eq]
theorem op_qft_swapped_eq (a : Nat) : op_qft_swapped (R := R) a = Op.qftSwapped genPhase a := by
  simp [op_qft_swapped, qft_qft_swapped_eq]

end qft
end Qvnt.Gen2
