/-
LEMMAS — the refinement theorem: what `OpExpr.build` constructs (MODEL) is exactly what
`Spec.denote` prescribes (SPEC), for every construction program whose masks are machine words.

Method: a queue element is related to the short list of spec gates it stands for (`Sim2`: same
action, same action of the daggers, reads/supports inside the element's `act_on`); a queue is
related to a circuit by concatenating such pieces (`Den2`); `Den2` gives `Refines`. `Refines`
carries the operator *and* its dagger, so `.dgr()` just swaps the two fields, and is preserved
by `*`, `.dgr()`, `.c(m)`.
-/
import Qvnt.Lemmas.Local
import Qvnt.Lemmas.Multi
import Qvnt.Lemmas.Ctor

namespace Qvnt
open Qvnt.Spec

variable {R : Type} [CommRing R] [Consts R]

/-! ## 0. the refinement relation -/

/-- every mask occurring in the program is a 64-bit machine word -/
def OpExpr.WordOK : OpExpr R → Prop
  | .id => True
  | .g1 _ m => m < 2 ^ 64
  | .rot1 _ _ a => a < 2 ^ 64
  | .rot2 _ _ ab => ab < 2 ^ 64
  | .two _ ab => ab < 2 ^ 64
  | .u3 _ _ _ a => a < 2 ^ 64
  | .qft m => m < 2 ^ 64
  | .qftSwapped m => m < 2 ^ 64
  | .c m e => m < 2 ^ 64 ∧ e.WordOK
  | .dgr e => e.WordOK
  | .mul a b => a.WordOK ∧ b.WordOK

/-- the queue `o` (MODEL) refines the circuit `gs` with reported support `supp` (SPEC) -/
structure Refines (o : MultiOp R) (gs : List (SGate R)) (supp : Nat) : Prop where
  /-- same action -/
  apply : ∀ ψ : State R, o.apply ψ = actAll gs ψ
  /-- the dagger acts as the conjugate-transposed circuit in reverse order -/
  dagger : ∀ ψ : State R, (MultiOp.dgr o).apply ψ = actAll (adjAll gs) ψ
  /-- `act_on` is the reported support -/
  actOn : MultiOp.actOn o = supp
  /-- the empty product corresponds to the empty circuit -/
  empty : o = [] ↔ gs = []
  /-- spec gates stay inside the reported support -/
  within : ∀ g ∈ gs, ∀ k, g.support.testBit k = true → supp.testBit k = true
  /-- every queue element reads only inside its own `act` mask -/
  valid : MultiOp.Valid o

/-- agreement of the two evaluators on one program -/
def Agree (b : Built R) (d : Denoted R) : Prop :=
  match b, d with
  | .ok o, .ok gs supp => Refines o gs supp
  | .refused, .refused => True
  | .panic, .panic => True
  | _, _ => False

/-! ## 1. element-wise simulation -/

/-- the queue element `g` stands for the spec gates `gs` (in this order) -/
structure Sim2 (g : SingleOp R) (gs : List (SGate R)) : Prop where
  apply : ∀ ψ : State R, g.apply ψ = actAll gs ψ
  dagger : ∀ ψ : State R, g.dgr.apply ψ = actAll (adjAll gs) ψ
  ne : gs ≠ []
  within : ∀ s ∈ gs, ∀ k, s.support.testBit k = true → g.actOn.testBit k = true
  valid : g.Valid

/-- the queue `o` stands for the circuit `gs`, piece by piece -/
inductive Den2 : MultiOp R → List (SGate R) → Prop
  | nil : Den2 [] []
  | cons {g : SingleOp R} {gs : List (SGate R)} {o : MultiOp R} {gs' : List (SGate R)} :
      Sim2 g gs → Den2 o gs' → Den2 (g :: o) (gs ++ gs')

theorem Den2.cons1 {g : SingleOp R} {s : SGate R} {o : MultiOp R} {gs : List (SGate R)}
    (h : Sim2 g [s]) (ho : Den2 o gs) : Den2 (g :: o) (s :: gs) :=
  Den2.cons h ho

theorem Den2.single {g : SingleOp R} {gs : List (SGate R)} (h : Sim2 g gs) : Den2 [g] gs := by
  have := Den2.cons h Den2.nil
  rwa [List.append_nil] at this

theorem Den2.append {a b : MultiOp R} {ga gb : List (SGate R)} (ha : Den2 a ga) (hb : Den2 b gb) :
    Den2 (a ++ b) (ga ++ gb) := by
  induction ha with
  | nil => exact hb
  | cons h _ ih =>
    rw [List.cons_append, List.append_assoc]
    exact Den2.cons h ih

theorem Den2.flatMap {α : Type} (l : List α) (f : α → MultiOp R) (g : α → List (SGate R))
    (h : ∀ x ∈ l, Den2 (f x) (g x)) : Den2 (l.flatMap f) (l.flatMap g) := by
  induction l with
  | nil => exact Den2.nil
  | cons x l ih =>
    rw [List.flatMap_cons, List.flatMap_cons]
    exact Den2.append (h x List.mem_cons_self) (ih (fun y hy => h y (List.mem_cons_of_mem _ hy)))

theorem Den2.map {α : Type} (l : List α) (f : α → SingleOp R) (g : α → SGate R)
    (h : ∀ x ∈ l, Sim2 (f x) [g x]) : Den2 (l.map f) (l.map g) := by
  induction l with
  | nil => exact Den2.nil
  | cons x l ih =>
    rw [List.map_cons, List.map_cons]
    exact Den2.cons1 (h x List.mem_cons_self) (ih (fun y hy => h y (List.mem_cons_of_mem _ hy)))

theorem Den2.apply {o : MultiOp R} {gs : List (SGate R)} (h : Den2 o gs) (ψ : State R) :
    o.apply ψ = actAll gs ψ := by
  induction h generalizing ψ with
  | nil => rfl
  | cons hg _ ih => rw [MultiOp.apply_cons, hg.apply, ih, actAll_append]

theorem Den2.dagger {o : MultiOp R} {gs : List (SGate R)} (h : Den2 o gs) (ψ : State R) :
    (MultiOp.dgr o).apply ψ = actAll (adjAll gs) ψ := by
  induction h generalizing ψ with
  | nil => rfl
  | cons hg _ ih =>
    rw [MultiOp.dgr_cons, MultiOp.apply_append, ih, MultiOp.apply_singleton, hg.dagger,
      adjAll_append, actAll_append]

theorem Den2.empty {o : MultiOp R} {gs : List (SGate R)} (h : Den2 o gs) : o = [] ↔ gs = [] := by
  cases h with
  | nil => simp
  | cons hg _ =>
    constructor
    · intro h; exact absurd h (List.cons_ne_nil _ _)
    · intro h; exact absurd (List.append_eq_nil_iff.1 h).1 hg.ne

theorem Den2.within {o : MultiOp R} {gs : List (SGate R)} (h : Den2 o gs) :
    ∀ s ∈ gs, ∀ k, s.support.testBit k = true → (MultiOp.actOn o).testBit k = true := by
  induction h with
  | nil => intro s hs; simp at hs
  | cons hg _ ih =>
    intro s hs k hk
    rw [MultiOp.actOn_cons, Nat.testBit_or, Bool.or_eq_true]
    rcases List.mem_append.1 hs with h1 | h1
    · exact Or.inl (hg.within s h1 k hk)
    · exact Or.inr (ih s h1 k hk)

theorem Den2.valid {o : MultiOp R} {gs : List (SGate R)} (h : Den2 o gs) : MultiOp.Valid o := by
  induction h with
  | nil => exact MultiOp.Valid.nil
  | cons hg _ ih => exact MultiOp.Valid.cons hg.valid ih

/-- piece-wise simulation gives refinement, with the queue's own `act_on` as support -/
theorem Den2.refines {o : MultiOp R} {gs : List (SGate R)} (h : Den2 o gs) {supp : Nat}
    (hs : MultiOp.actOn o = supp) : Refines o gs supp := by
  subst hs
  exact ⟨h.apply, h.dagger, rfl, h.empty, h.within, h.valid⟩

/-! ## 2. `Refines` is preserved by `*`, `.dgr()`, `.c(m)` -/

theorem Refines.nil : Refines ([] : MultiOp R) [] 0 := Den2.nil.refines rfl

theorem Refines.mul {oa ob : MultiOp R} {ga gb : List (SGate R)} {sa sb : Nat}
    (ha : Refines oa ga sa) (hb : Refines ob gb sb) :
    Refines (MultiOp.mul oa ob) (ga ++ gb) (sa ||| sb) where
  apply ψ := by rw [MultiOp.apply_mul, ha.apply, hb.apply, actAll_append]
  dagger ψ := by
    rw [MultiOp.dgr_mul, MultiOp.apply_mul, hb.dagger, ha.dagger, adjAll_append, actAll_append]
  actOn := by rw [MultiOp.actOn_mul, ha.actOn, hb.actOn]
  empty := by
    unfold MultiOp.mul
    rw [List.append_eq_nil_iff, List.append_eq_nil_iff, ha.empty, hb.empty]
  within g hg k hk := by
    rw [Nat.testBit_or, Bool.or_eq_true]
    rcases List.mem_append.1 hg with h | h
    · exact Or.inl (ha.within g h k hk)
    · exact Or.inr (hb.within g h k hk)
  valid := MultiOp.Valid.mul ha.valid hb.valid

omit [Consts R] in
theorem MultiOp.dgr_eq_nil_iff (o : MultiOp R) : MultiOp.dgr o = [] ↔ o = [] := by
  simp [MultiOp.dgr]

theorem Refines.dgr {o : MultiOp R} {gs : List (SGate R)} {supp : Nat} (h : Refines o gs supp) :
    Refines (MultiOp.dgr o) (adjAll gs) supp where
  apply := h.dagger
  dagger ψ := by
    rw [MultiOp.dgr_dgr (fun x : R => neg_neg x), adjAll_adjAll]
    exact h.apply ψ
  actOn := by rw [MultiOp.dgr_actOn]; exact h.actOn
  empty := by rw [MultiOp.dgr_eq_nil_iff, adjAll_eq_nil_iff]; exact h.empty
  within g hg k hk := by
    obtain ⟨g0, hg0, rfl⟩ := mem_adjAll.1 hg
    rw [SGate.adj_support] at hk
    exact h.within g0 hg0 k hk
  valid := h.valid.dgr

theorem disj_of_within {s supp m : Nat} (hw : ∀ k, s.testBit k = true → supp.testBit k = true)
    (hd : supp &&& m = 0) : s &&& m = 0 := by
  rw [and_eq_zero_iff_testBit] at hd ⊢
  intro i hi
  exact hd i (hw i hi)

/-- `.c(m)` on a non-overlapping mask: add the controls on both sides -/
theorem Refines.ctrl {o : MultiOp R} {gs : List (SGate R)} {supp : Nat} (h : Refines o gs supp)
    (m : Nat) (hd : supp &&& m = 0) (hne : o ≠ []) :
    Refines (o.map (fun g => g.addCtrl m)) (gs.map (fun g => g.addCtrl m)) (supp ||| m) where
  apply ψ := by
    have hc : MultiOp.c o m = some (o.map (fun g => g.addCtrl m)) :=
      MultiOp.c_eq_some o m (by rw [h.actOn]; exact hd)
    rw [MultiOp.c_apply_whole o _ m hc h.valid,
      actAll_map_addCtrl gs m (fun g hg => disj_of_within (h.within g hg) hd)]
    congr 1
    funext φ
    exact h.apply φ
  dagger ψ := by
    have hc : MultiOp.c (MultiOp.dgr o) m = some ((MultiOp.dgr o).map (fun g => g.addCtrl m)) :=
      MultiOp.c_eq_some _ m (by rw [MultiOp.dgr_actOn, h.actOn]; exact hd)
    rw [MultiOp.dgr_map_addCtrl, MultiOp.c_apply_whole _ _ m hc h.valid.dgr, adjAll_map_addCtrl,
      actAll_map_addCtrl (adjAll gs) m (fun g hg => disj_of_within (h.dgr.within g hg) hd)]
    congr 1
    funext φ
    exact h.dagger φ
  actOn := by rw [MultiOp.actOn_map_addCtrl o m hne, h.actOn]
  empty := by rw [List.map_eq_nil_iff, List.map_eq_nil_iff]; exact h.empty
  within g hg k hk := by
    obtain ⟨g0, hg0, rfl⟩ := List.mem_map.1 hg
    rw [SGate.addCtrl_support, Nat.testBit_or, Bool.or_eq_true] at hk
    rw [Nat.testBit_or, Bool.or_eq_true]
    rcases hk with hk | hk
    · exact Or.inl (h.within g0 hg0 k hk)
    · exact Or.inr hk
  valid := h.valid.map_addCtrl m

/-! ## 3. leaves: single kernels -/

omit [Consts R] in
theorem actAll_plain_one (M : Mat2 R) (a : Nat) (ψ : State R) :
    actAll [plain (.one M a)] ψ = act1 M a ψ := Spec.ctrl_zero _ ψ

omit [Consts R] in
theorem actAll_plain_two (M : Mat4 R) (a b : Nat) (ψ : State R) :
    actAll [plain (.two M a b)] ψ = act2 M a b ψ := Spec.ctrl_zero _ ψ

omit [Consts R] in
theorem actAll_plain_idle (ψ : State R) : actAll [(plain .idle : SGate R)] ψ = ψ :=
  Spec.ctrl_zero _ ψ

theorem Sim2.ofAtom (g : Atom R) (gs : List (SGate R))
    (hread : g.readMask = g.actsOn)
    (hop : ∀ ψ idx, g.op ψ idx = actAll gs ψ idx)
    (hdg : ∀ ψ idx, g.dgr.op ψ idx = actAll (adjAll gs) ψ idx)
    (hne : gs ≠ [])
    (hw : ∀ s ∈ gs, ∀ k, s.support.testBit k = true → g.actsOn.testBit k = true) :
    Sim2 (SingleOp.ofAtom g) gs where
  apply ψ := by rw [ofAtom_apply]; exact funext (hop ψ)
  dagger ψ := by
    rw [SingleOp.apply_eq_ctrl]
    exact (Spec.ctrl_zero _ ψ).trans (funext (hdg ψ))
  ne := hne
  within s hs k hk := by
    have := hw s hs k hk
    simpa [SingleOp.actOn, SingleOp.ofAtom] using this
  valid := SingleOp.ofAtom_valid g hread

/-- a kernel that is the 2×2 matrix `M` on the bit `a` -/
theorem sim2_one (g : Atom R) (M : Mat2 R) (a : Nat) (hact : g.actsOn = a)
    (hread : g.readMask = g.actsOn)
    (hop : ∀ ψ idx, g.op ψ idx = act1 M a ψ idx)
    (hdg : ∀ ψ idx, g.dgr.op ψ idx = act1 M.adj a ψ idx) :
    Sim2 (SingleOp.ofAtom g) [plain (.one M a)] := by
  refine Sim2.ofAtom g _ hread ?_ ?_ (List.cons_ne_nil _ _) ?_
  · intro ψ idx; rw [actAll_plain_one]; exact hop ψ idx
  · intro ψ idx
    show _ = actAll [plain (.one M.adj a)] ψ idx
    rw [actAll_plain_one]; exact hdg ψ idx
  · intro s hs k hk
    rw [List.mem_singleton] at hs
    subst hs
    rw [hact]
    simpa [SGate.support, plain] using hk

/-- a kernel that is the 4×4 matrix `M` on the bits `a`, `b` -/
theorem sim2_two (g : Atom R) (M : Mat4 R) (a b : Nat) (hact : g.actsOn = a ||| b)
    (hread : g.readMask = g.actsOn)
    (hop : ∀ ψ idx, g.op ψ idx = act2 M a b ψ idx)
    (hdg : ∀ ψ idx, g.dgr.op ψ idx = act2 (Mat4.adj M) a b ψ idx) :
    Sim2 (SingleOp.ofAtom g) [plain (.two M a b)] := by
  refine Sim2.ofAtom g _ hread ?_ ?_ (List.cons_ne_nil _ _) ?_
  · intro ψ idx; rw [actAll_plain_two]; exact hop ψ idx
  · intro ψ idx
    show _ = actAll [plain (.two (Mat4.adj M) a b)] ψ idx
    rw [actAll_plain_two]; exact hdg ψ idx
  · intro s hs k hk
    rw [List.mem_singleton] at hs
    subst hs
    rw [hact]
    simpa [SGate.support, plain] using hk

/-! ### one-qubit gates on a several-bit mask -/

theorem bitsOf_zero : bitsOf 0 = [] := bitsBelow_eq_nil 0 64 (fun i _ => Nat.zero_testBit i)

theorem bitsOf_ne_nil (m : Nat) (hm : m < 2 ^ 64) (h0 : m ≠ 0) : bitsOf m ≠ [] := by
  intro h
  have := orAll_bitsOf m hm
  rw [h] at this
  exact h0 this.symm

omit [CommRing R] [Consts R] in
theorem onEach_within (M : Mat2 R) (m : Nat) :
    ∀ s ∈ onEach M m, ∀ k, s.support.testBit k = true → m.testBit k = true := by
  intro s hs k hk
  obtain ⟨a, ha, rfl⟩ := List.mem_map.1 hs
  obtain ⟨i, _, rfl, hi⟩ := (mem_bitsOf m a).1 ha
  simp only [SGate.support, Nat.zero_or, Nat.testBit_two_pow, decide_eq_true_eq] at hk
  subst hk; exact hi

/-- the circuit the spec gives to `x y z s t` on the mask `m` -/
def g1Circuit (M : Mat2 R) (m : Nat) : List (SGate R) :=
  if m = 0 then [plain .idle] else onEach M m

theorem sim2_multi (g : Atom R) (M : Mat2 R) (m : Nat) (hm : m < 2 ^ 64)
    (hact : g.actsOn = m) (hread : g.readMask = g.actsOn)
    (hop : ∀ ψ idx, g.op ψ idx = actAll (onEach M m) ψ idx)
    (hdg : ∀ ψ idx, g.dgr.op ψ idx = actAll (onEach M.adj m) ψ idx) :
    Sim2 (SingleOp.ofAtom g) (g1Circuit M m) := by
  unfold g1Circuit
  by_cases h0 : m = 0
  · rw [if_pos h0]
    subst h0
    refine Sim2.ofAtom g _ hread ?_ ?_ (List.cons_ne_nil _ _) ?_
    · intro ψ idx
      rw [hop, actAll_plain_idle]
      simp only [onEach, bitsOf_zero, List.map_nil, actAll_nil]
    · intro ψ idx
      show _ = actAll [(plain .idle : SGate R)] ψ idx
      rw [hdg, actAll_plain_idle]
      simp only [onEach, bitsOf_zero, List.map_nil, actAll_nil]
    · intro s hs k hk
      rw [List.mem_singleton] at hs
      subst hs
      simp [SGate.support, plain] at hk
  · rw [if_neg h0]
    refine Sim2.ofAtom g _ hread hop ?_ ?_ ?_
    · intro ψ idx
      rw [actAll_adjAll_onEach]; exact hdg ψ idx
    · intro h
      unfold onEach at h
      exact bitsOf_ne_nil m hm h0 (List.map_eq_nil_iff.1 h)
    · rw [hact]; exact onEach_within M m

/-! ### Hadamard on a several-bit mask -/

theorem sim2_h1 (a : Nat) :
    Sim2 (SingleOp.ofAtom (Atom.h1 a : Atom R)) [plain (.one matH a)] :=
  sim2_one _ matH a rfl rfl (h1_eq a) (h1_dgr_eq a)

theorem sim2_h2 (hs : 2 * (Consts.invSqrt2 : R) * Consts.invSqrt2 = 1)
    (hh : 2 * (Consts.half : R) = 1) (i j : Nat) (hij : i ≠ j) :
    Sim2 (SingleOp.ofAtom (Atom.h2 (2 ^ j) (2 ^ i) (2 ^ j ||| 2 ^ i) : Atom R))
      [plain (.one matH (2 ^ i)), plain (.one matH (2 ^ j))] := by
  have e : ∀ (M : Mat2 R) (a b : Nat) (ψ : State R),
      actAll [plain (.one M a), plain (.one M b)] ψ = act1 M b (act1 M a ψ) := by
    intro M a b ψ
    show actAll [plain (.one M b)] (actAll [plain (.one M a)] ψ) = _
    rw [actAll_plain_one, actAll_plain_one]
  refine Sim2.ofAtom _ _ (Nat.or_self _) ?_ ?_ (List.cons_ne_nil _ _) ?_
  · intro ψ idx
    rw [e]; exact h2_eq j i hij.symm hs hh ψ idx
  · intro ψ idx
    show (Atom.h2 (2 ^ j) (2 ^ i) (2 ^ j ||| 2 ^ i) : Atom R).op ψ idx
      = actAll [plain (.one (matH : Mat2 R).adj (2 ^ j)), plain (.one (matH : Mat2 R).adj (2 ^ i))] ψ idx
    rw [e, matH_adj, act1_comm matH matH i j hij]
    exact h2_eq j i hij.symm hs hh ψ idx
  · intro s hs k hk
    simp only [List.mem_cons, List.not_mem_nil, or_false] at hs
    show (2 ^ j ||| 2 ^ i).testBit k = true
    rw [Nat.testBit_or, Bool.or_eq_true]
    rcases hs with rfl | rfl
    · right; simpa [SGate.support, plain] using hk
    · left; simpa [SGate.support, plain] using hk

theorem pairUp_den2 (hs : 2 * (Consts.invSqrt2 : R) * Consts.invSqrt2 = 1)
    (hh : 2 * (Consts.half : R) = 1) :
    ∀ l : List Nat, BitList l →
      Den2 (pairUp l : MultiOp R) (l.map (fun a => plain (.one matH a)))
  | [], _ => Den2.nil
  | [a], _ => Den2.single (sim2_h1 a)
  | a :: b :: t, hl => by
    obtain ⟨i, rfl⟩ := hl.pow a (by simp)
    obtain ⟨j, rfl⟩ := hl.pow b (by simp)
    have hij : i ≠ j := by
      rintro rfl
      have := (List.pairwise_cons.1 hl.asc).1 (2 ^ i) (by simp)
      omega
    exact Den2.cons (sim2_h2 hs hh i j hij) (pairUp_den2 hs hh t hl.tail.tail)

/-! ### QFT -/

theorem sim2_rz (a : Nat) (ph : Cx R) :
    Sim2 (SingleOp.ofAtom (Atom.rz a ph)) [plain (.one (matRZ ph.re ph.im) a)] :=
  sim2_one _ _ a rfl rfl (rz_eq a ph) (rz_dgr_eq a ph)

theorem sim2_crz (a c : Nat) (ph : Cx R) :
    Sim2 ((SingleOp.ofAtom (Atom.rz a ph)).addCtrl c) [⟨c, .one (matRZ ph.re ph.im) a⟩] where
  apply ψ := sim_crz a c ph ψ
  dagger ψ := by
    have := sim_crz a c ph.conj ψ
    show ((SingleOp.ofAtom (Atom.rz a ph.conj)).addCtrl c).apply ψ
      = actAll [⟨c, .one (matRZ ph.re ph.im).adj a⟩] ψ
    rw [matRZ_adj]
    exact this
  ne := List.cons_ne_nil _ _
  within s hs k hk := by
    rw [List.mem_singleton] at hs
    subst hs
    simp only [SGate.support, Nat.testBit_or, Bool.or_eq_true] at hk
    simp only [SingleOp.actOn, SingleOp.addCtrl, SingleOp.ofAtom, Atom.actsOn, Nat.zero_or,
      Nat.testBit_or, Bool.or_eq_true]
    exact hk.symm
  valid := (SingleOp.ofAtom_valid (Atom.rz a ph) rfl).addCtrl c

theorem qftOps_den2 (phaseOf : QftPhases R) (v : List Nat) :
    Den2 (qftOps phaseOf v) (qftCircuit phaseOf v) := by
  unfold qftOps qftCircuit
  apply Den2.flatMap
  intro i _
  refine Den2.cons1 (sim2_h1 _) ?_
  apply Den2.flatMap
  intro k _
  exact Den2.cons1 (sim2_crz _ _ _) (Den2.cons1 (sim2_rz _ _) Den2.nil)

theorem sim2_swap (a b : Nat) (hab : a ≠ b) :
    Sim2 (SingleOp.ofAtom (Atom.swap (2 ^ a ||| 2 ^ b) : Atom R))
      [plain (.two matSwap (2 ^ a) (2 ^ b))] :=
  sim2_two _ _ _ _ rfl rfl (swap_eq a b hab) (swap_dgr_eq a b hab)

theorem swapOps_den2 (v : List Nat) (hv : BitList v) :
    Den2 (swapOps v : MultiOp R) (reverseCircuit v) := by
  unfold swapOps reverseCircuit
  apply Den2.map
  intro i hi
  have hi' := List.mem_range.1 hi
  obtain ⟨a, b, hab, ha, hb⟩ :=
    hv.getD_two (i := i) (j := v.length - 1 - i) (by omega) (by omega) (by omega)
  rw [ha, hb]
  exact sim2_swap a b hab

/-! ## 4. the leaves of `build` / `denote` agree -/

omit [CommRing R] [Consts R] in
theorem actOn_ofAtom_singleton (g : Atom R) :
    MultiOp.actOn [SingleOp.ofAtom g] = g.actsOn := by
  rw [MultiOp.actOn_singleton]
  simp [SingleOp.actOn, SingleOp.ofAtom]

theorem refines_single {g : Atom R} {gs : List (SGate R)} (h : Sim2 (SingleOp.ofAtom g) gs) :
    Refines [SingleOp.ofAtom g] gs g.actsOn :=
  (Den2.single h).refines (actOn_ofAtom_singleton g)

theorem denote_g1 (phaseOf : QftPhases R) (k : G1) (hk : k ≠ .h) (m : Nat) :
    denote phaseOf (.g1 k m) = .ok (g1Circuit (mat1 k) m) m := by
  unfold g1Circuit
  by_cases h0 : m = 0
  · subst h0
    cases k <;> first | exact absurd rfl hk | simp [denote]
  · cases k <;> first | exact absurd rfl hk | simp [denote, h0]

theorem agree_g1 (hs : 2 * (Consts.invSqrt2 : R) * Consts.invSqrt2 = 1)
    (phaseOf : QftPhases R) (k : G1) (hk : k ≠ .h) (m : Nat) (hm : m < 2 ^ 64) :
    Agree (OpExpr.build phaseOf (.g1 k m)) (denote phaseOf (.g1 k m)) := by
  rw [denote_g1 phaseOf k hk m]
  cases k with
  | h => exact absurd rfl hk
  | x =>
    exact refines_single (sim2_multi (.x m) matX m hm rfl rfl (x_multi m hm)
      (fun ψ idx => by rw [matX_adj]; exact x_multi m hm ψ idx))
  | y =>
    exact refines_single (sim2_multi (.y m (yIPow m)) matY m hm rfl rfl (y_multi m hm)
      (fun ψ idx => by rw [matY_adj]; exact y_multi m hm ψ idx))
  | z =>
    exact refines_single (sim2_multi (.z m) matZ m hm rfl rfl (z_multi m hm)
      (fun ψ idx => by rw [matZ_adj]; exact z_multi m hm ψ idx))
  | s =>
    exact refines_single (sim2_multi (.s m false) matS m hm rfl rfl (s_multi m hm)
      (fun ψ idx => s_dgr_multi m hm ψ idx))
  | t =>
    exact refines_single (sim2_multi (.t m false) matT m hm rfl rfl (t_multi hs m hm)
      (fun ψ idx => t_dgr_multi hs m hm ψ idx))

theorem agree_h (hs : 2 * (Consts.invSqrt2 : R) * Consts.invSqrt2 = 1)
    (hh : 2 * (Consts.half : R) = 1) (phaseOf : QftPhases R) (m : Nat) (hm : m < 2 ^ 64) :
    Agree (OpExpr.build phaseOf (.g1 .h m)) (denote phaseOf (.g1 .h m)) := by
  have e : onEach (matH : Mat2 R) m = (bitsOf m).map (fun a => plain (.one matH a)) := rfl
  show Agree (OpExpr.ofOpt (Op.h m)) (.ok (onEach matH m) m)
  rw [h_eq m hm, e]
  exact (pairUp_den2 hs hh _ (bitList_bitsOf m)).refines
    (by rw [pairUp_actOn, orAll_bitsOf m hm])

/-! ### constructors that need exactly one / two target bits -/

theorem oneBit_cases (a : Nat) (ha : a < 2 ^ 64) :
    (popcount a = 1 ∧ ∃ i, a = 2 ^ i ∧ oneBit a = some a) ∨ (popcount a ≠ 1 ∧ oneBit a = none) := by
  by_cases hp : popcount a = 1
  · left
    obtain ⟨a', ha'⟩ := (bitsOf_eq_singleton_iff a ha).2 hp
    have e : a' = a := by
      have := orAll_bitsOf a ha
      rw [ha', orAll_cons, orAll_nil, Nat.or_zero] at this
      exact this
    subst e
    obtain ⟨i, _, hi, _⟩ := (mem_bitsOf a' a').1 (by rw [ha']; exact List.mem_singleton_self _)
    exact ⟨hp, i, hi, by simp only [oneBit, ha']⟩
  · right
    refine ⟨hp, ?_⟩
    unfold oneBit
    split
    · rename_i a' h'
      exact absurd ((bitsOf_eq_singleton_iff a ha).1 ⟨a', h'⟩) hp
    · rfl

theorem twoBits_cases (ab : Nat) (h : ab < 2 ^ 64) :
    (popcount ab = 2 ∧ ∃ i j, i ≠ j ∧ ab = 2 ^ i ||| 2 ^ j ∧ twoBits ab = some (2 ^ i, 2 ^ j)) ∨
      (popcount ab ≠ 2 ∧ twoBits ab = none) := by
  by_cases hp : popcount ab = 2
  · left
    obtain ⟨a, b, hab⟩ := (bitsOf_eq_pair_iff ab h).2 hp
    have e : a ||| b = ab := by
      have := orAll_bitsOf ab h
      rw [hab, orAll_cons, orAll_cons, orAll_nil, Nat.or_zero] at this
      exact this
    obtain ⟨i, _, hi, _⟩ := (mem_bitsOf ab a).1 (by rw [hab]; simp)
    obtain ⟨j, _, hj, _⟩ := (mem_bitsOf ab b).1 (by rw [hab]; simp)
    have hlt : a < b := by
      have := bitsOf_pairwise_lt ab
      rw [hab] at this
      exact (List.pairwise_cons.1 this).1 b (by simp)
    subst hi hj
    have hij : i ≠ j := by rintro rfl; exact Nat.lt_irrefl _ hlt
    exact ⟨hp, i, j, hij, e.symm, by simp only [twoBits, hab]⟩
  · right
    refine ⟨hp, ?_⟩
    unfold twoBits
    split
    · rename_i a b h'
      exact absurd ((bitsOf_eq_pair_iff ab h).1 ⟨a, b, h'⟩) hp
    · rfl

omit [CommRing R] [Consts R] in
theorem build_checked (g : Atom R) :
    OpExpr.ofOpt (Op.ofChecked g)
      = if g.isValid then .ok (MultiOp.ofSingle (SingleOp.ofAtom g)) else .panic := by
  unfold Op.ofChecked SingleOp.checked
  split <;> rfl

/-- the kernel `op::rx/ry/rz/u1` wraps -/
def rot1Atom (k : Rot1) (ph : Cx R) (a : Nat) : Atom R :=
  match k with | .rx => .rx a ph | .ry => .ry a ph | .rz => .rz a ph | .u1 => .rz a ph

/-- the kernel `op::rxx/ryy/rzz` wraps -/
def rot2Atom (k : Rot2) (ph : Cx R) (ab : Nat) : Atom R :=
  match k with | .rxx => .rxx ab ph | .ryy => .ryy ab ph | .rzz => .rzz ab ph

/-- the kernel `op::swap/sqrt_swap/i_swap/sqrt_i_swap` wraps -/
def twoAtom (k : Two) (ab : Nat) : Atom R :=
  match k with
  | .swap => .swap ab | .sqrtSwap => .sqrtSwap ab false | .iSwap => .iSwap ab false
  | .sqrtISwap => .sqrtISwap ab false

theorem sim2_rot1 (k : Rot1) (ph : Cx R) (a : Nat) :
    Sim2 (SingleOp.ofAtom (rot1Atom k ph a)) [plain (.one (matRot1 k ph) a)] := by
  cases k
  · exact sim2_one _ _ a rfl rfl (rx_eq a ph) (rx_dgr_eq a ph)
  · exact sim2_one _ _ a rfl rfl (ry_eq a ph) (ry_dgr_eq a ph)
  · exact sim2_one _ _ a rfl rfl (rz_eq a ph) (rz_dgr_eq a ph)
  · exact sim2_one _ _ a rfl rfl (rz_eq a ph) (rz_dgr_eq a ph)

theorem sim2_rot2 (k : Rot2) (ph : Cx R) (i j : Nat) (hij : i ≠ j) :
    Sim2 (SingleOp.ofAtom (rot2Atom k ph (2 ^ i ||| 2 ^ j)))
      [plain (.two (matRot2 k ph) (2 ^ i) (2 ^ j))] := by
  cases k
  · exact sim2_two _ _ _ _ rfl rfl (rxx_eq i j hij ph) (rxx_dgr_eq i j hij ph)
  · exact sim2_two _ _ _ _ rfl rfl (ryy_eq i j hij ph) (ryy_dgr_eq i j hij ph)
  · exact sim2_two _ _ _ _ rfl rfl (rzz_eq i j hij ph) (rzz_dgr_eq i j hij ph)

theorem sim2_twoK (k : Two) (i j : Nat) (hij : i ≠ j) :
    Sim2 (SingleOp.ofAtom (twoAtom k (2 ^ i ||| 2 ^ j) : Atom R))
      [plain (.two (matTwo k) (2 ^ i) (2 ^ j))] := by
  cases k
  · exact sim2_two _ _ _ _ rfl rfl (swap_eq i j hij) (swap_dgr_eq i j hij)
  · exact sim2_two _ _ _ _ rfl rfl (sqrtSwap_eq i j hij) (sqrtSwap_dgr_eq i j hij)
  · exact sim2_two _ _ _ _ rfl rfl (iSwap_eq i j hij) (iSwap_dgr_eq i j hij)
  · exact sim2_two _ _ _ _ rfl rfl (sqrtISwap_eq i j hij) (sqrtISwap_dgr_eq i j hij)

theorem agree_rot1 (phaseOf : QftPhases R) (k : Rot1) (ph : Cx R) (a : Nat) (ha : a < 2 ^ 64) :
    Agree (OpExpr.build phaseOf (.rot1 k ph a)) (denote phaseOf (.rot1 k ph a)) := by
  have hb : OpExpr.build phaseOf (.rot1 k ph a) = OpExpr.ofOpt (Op.ofChecked (rot1Atom k ph a)) := by
    cases k <;> rfl
  have hv : (rot1Atom k ph a).isValid = (popcount a == 1) := by cases k <;> rfl
  rw [hb, build_checked, hv]
  rcases oneBit_cases a ha with ⟨hp, i, rfl, ho⟩ | ⟨hp, ho⟩
  · have hd : denote phaseOf (.rot1 k ph (2 ^ i))
        = .ok [plain (.one (matRot1 k ph) (2 ^ i))] (2 ^ i) := by simp only [denote, ho]
    have hsingle : MultiOp.ofSingle (SingleOp.ofAtom (rot1Atom k ph (2 ^ i)))
        = [SingleOp.ofAtom (rot1Atom k ph (2 ^ i))] := by cases k <;> rfl
    have hact : (rot1Atom k ph (2 ^ i)).actsOn = 2 ^ i := by cases k <;> rfl
    rw [hd, hp, hsingle]
    simp only [beq_self_eq_true, if_true]
    have := refines_single (sim2_rot1 k ph (2 ^ i))
    rwa [hact] at this
  · have hd : denote phaseOf (.rot1 k ph a) = .panic := by simp only [denote, ho]
    rw [hd, if_neg (by simpa using hp)]
    trivial

theorem agree_rot2 (phaseOf : QftPhases R) (k : Rot2) (ph : Cx R) (ab : Nat) (ha : ab < 2 ^ 64) :
    Agree (OpExpr.build phaseOf (.rot2 k ph ab)) (denote phaseOf (.rot2 k ph ab)) := by
  have hb : OpExpr.build phaseOf (.rot2 k ph ab) = OpExpr.ofOpt (Op.ofChecked (rot2Atom k ph ab)) := by
    cases k <;> rfl
  have hv : (rot2Atom k ph ab).isValid = (popcount ab == 2) := by cases k <;> rfl
  rw [hb, build_checked, hv]
  rcases twoBits_cases ab ha with ⟨hp, i, j, hij, rfl, ho⟩ | ⟨hp, ho⟩
  · have hd : denote phaseOf (.rot2 k ph (2 ^ i ||| 2 ^ j))
        = .ok [plain (.two (matRot2 k ph) (2 ^ i) (2 ^ j))] (2 ^ i ||| 2 ^ j) := by
      simp only [denote, ho]
    have hsingle : MultiOp.ofSingle (SingleOp.ofAtom (rot2Atom k ph (2 ^ i ||| 2 ^ j)))
        = [SingleOp.ofAtom (rot2Atom k ph (2 ^ i ||| 2 ^ j))] := by cases k <;> rfl
    have hact : (rot2Atom k ph (2 ^ i ||| 2 ^ j)).actsOn = 2 ^ i ||| 2 ^ j := by cases k <;> rfl
    rw [hd, hp, hsingle]
    simp only [beq_self_eq_true, if_true]
    have := refines_single (sim2_rot2 k ph i j hij)
    rwa [hact] at this
  · have hd : denote phaseOf (.rot2 k ph ab) = .panic := by simp only [denote, ho]
    rw [hd, if_neg (by simpa using hp)]
    trivial

theorem agree_two (phaseOf : QftPhases R) (k : Two) (ab : Nat) (ha : ab < 2 ^ 64) :
    Agree (OpExpr.build phaseOf (.two k ab)) (denote phaseOf (.two k ab)) := by
  have hb : OpExpr.build phaseOf (.two k ab) = OpExpr.ofOpt (Op.ofChecked (twoAtom k ab)) := by
    cases k <;> rfl
  have hv : (twoAtom k ab : Atom R).isValid = (popcount ab == 2) := by cases k <;> rfl
  rw [hb, build_checked, hv]
  rcases twoBits_cases ab ha with ⟨hp, i, j, hij, rfl, ho⟩ | ⟨hp, ho⟩
  · have hd : denote phaseOf (.two k (2 ^ i ||| 2 ^ j) : OpExpr R)
        = .ok [plain (.two (matTwo k) (2 ^ i) (2 ^ j))] (2 ^ i ||| 2 ^ j) := by
      simp only [denote, ho]
    have hsingle : MultiOp.ofSingle (SingleOp.ofAtom (twoAtom k (2 ^ i ||| 2 ^ j) : Atom R))
        = [SingleOp.ofAtom (twoAtom k (2 ^ i ||| 2 ^ j))] := by cases k <;> rfl
    have hact : (twoAtom k (2 ^ i ||| 2 ^ j) : Atom R).actsOn = 2 ^ i ||| 2 ^ j := by
      cases k <;> rfl
    rw [hd, hp, hsingle]
    simp only [beq_self_eq_true, if_true]
    have := refines_single (sim2_twoK (R := R) k i j hij)
    rwa [hact] at this
  · have hd : denote phaseOf (.two k ab : OpExpr R) = .panic := by simp only [denote, ho]
    rw [hd, if_neg (by simpa using hp)]
    trivial

/-! ### `u3`, `qft`, `qft_swapped` -/

omit [CommRing R] [Consts R] in
theorem ofChecked_rz_two_pow (i : Nat) (ph : Cx R) :
    Op.rz ph (2 ^ i) = some [SingleOp.ofAtom (.rz (2 ^ i) ph)] := by
  simp [Op.rz, Op.ofChecked, SingleOp.checked, Atom.isValid, KBits.popcount_two_pow]
  rfl

omit [CommRing R] [Consts R] in
theorem ofChecked_ry_two_pow (i : Nat) (ph : Cx R) :
    Op.ry ph (2 ^ i) = some [SingleOp.ofAtom (.ry (2 ^ i) ph)] := by
  simp [Op.ry, Op.ofChecked, SingleOp.checked, Atom.isValid, KBits.popcount_two_pow]
  rfl

omit [CommRing R] [Consts R] in
theorem ofChecked_rz_invalid (a : Nat) (ph : Cx R) (hp : popcount a ≠ 1) :
    Op.rz ph a = none := by
  simp [Op.rz, Op.ofChecked, SingleOp.checked, Atom.isValid, hp]

theorem sim2_ry (a : Nat) (ph : Cx R) :
    Sim2 (SingleOp.ofAtom (Atom.ry a ph)) [plain (.one (matRY ph.re ph.im) a)] :=
  sim2_one _ _ a rfl rfl (ry_eq a ph) (ry_dgr_eq a ph)

theorem agree_u3 (phaseOf : QftPhases R) (the phi lam : Cx R) (a : Nat) (ha : a < 2 ^ 64) :
    Agree (OpExpr.build phaseOf (.u3 the phi lam a)) (denote phaseOf (.u3 the phi lam a)) := by
  show Agree (OpExpr.ofOpt (Op.u3 the phi lam a)) _
  rcases oneBit_cases a ha with ⟨hp, i, rfl, ho⟩ | ⟨hp, ho⟩
  · have hd : denote phaseOf (.u3 the phi lam (2 ^ i))
        = .ok [plain (.one (matRZ lam.re lam.im) (2 ^ i)), plain (.one (matRY the.re the.im) (2 ^ i)),
            plain (.one (matRZ phi.re phi.im) (2 ^ i))] (2 ^ i) := by simp only [denote, ho]
    have hb : Op.u3 the phi lam (2 ^ i)
        = some [SingleOp.ofAtom (.rz (2 ^ i) lam), SingleOp.ofAtom (.ry (2 ^ i) the),
            SingleOp.ofAtom (.rz (2 ^ i) phi)] := by
      simp [Op.u3, ofChecked_rz_two_pow, ofChecked_ry_two_pow]
    rw [hd, hb]
    refine (Den2.cons1 (sim2_rz _ _) (Den2.cons1 (sim2_ry _ _)
      (Den2.cons1 (sim2_rz _ _) Den2.nil))).refines ?_
    simp [MultiOp.actOn_cons, MultiOp.actOn_nil, SingleOp.actOn, SingleOp.ofAtom, Atom.actsOn]
  · have hd : denote phaseOf (.u3 the phi lam a) = .panic := by simp only [denote, ho]
    have hb : Op.u3 the phi lam a = none := by
      simp [Op.u3, ofChecked_rz_invalid a lam hp]
    rw [hd, hb]
    trivial

theorem agree_qft (phaseOf : QftPhases R) (m : Nat) (hm : m < 2 ^ 64) :
    Agree (OpExpr.build phaseOf (.qft m)) (denote phaseOf (.qft m)) := by
  show Agree (OpExpr.ofOpt (Op.qft phaseOf m)) (.ok (qftCircuit phaseOf (bitsOf m)) m)
  rw [qft_eq phaseOf m hm]
  exact (qftOps_den2 phaseOf _).refines (by rw [qftOps_actOn, orAll_bitsOf m hm])

theorem agree_qftSwapped (phaseOf : QftPhases R) (m : Nat) (hm : m < 2 ^ 64) :
    Agree (OpExpr.build phaseOf (.qftSwapped m)) (denote phaseOf (.qftSwapped m)) := by
  show Agree (OpExpr.ofOpt (Op.qftSwapped phaseOf m))
    (.ok (reverseCircuit (bitsOf m) ++ qftCircuit phaseOf (bitsOf m)) m)
  rw [qftSwapped_eq phaseOf m hm]
  exact (Den2.append (swapOps_den2 _ (bitList_bitsOf m)) (qftOps_den2 phaseOf _)).refines
    (by rw [swapped_actOn, orAll_bitsOf m hm])

/-! ## 5. the refinement theorem -/

theorem agree_c {b : Built R} {d : Denoted R} (h : Agree b d) (m : Nat) :
    Agree
      (match (generalizing := false) b with
        | .ok o => (match MultiOp.c o m with | some o' => .ok o' | none => .refused)
        | b => b)
      (match (generalizing := false) d with
        | .ok gs supp =>
          if gs.isEmpty then .ok [] supp
          else if supp &&& m ≠ 0 then .refused
          else .ok (gs.map (fun g => { g with ctrl := g.ctrl ||| m })) (supp ||| m)
        | d => d) := by
  cases b with
  | refused => cases d <;> first | exact h | exact (h : False).elim
  | panic => cases d <;> first | exact h | exact (h : False).elim
  | ok o =>
    cases d with
    | refused => exact (h : False).elim
    | panic => exact (h : False).elim
    | ok gs supp =>
      have hr : Refines o gs supp := h
      by_cases hg : gs = []
      · subst hg
        have ho : o = [] := hr.empty.2 rfl
        subst ho
        simp only [MultiOp.c_nil, List.isEmpty_nil, if_true]
        exact hr
      · have hne : o ≠ [] := fun ho => hg (hr.empty.1 ho)
        have hemp : gs.isEmpty = false := by
          cases gs with
          | nil => exact absurd rfl hg
          | cons _ _ => rfl
        by_cases hd : supp &&& m = 0
        · have hc : MultiOp.c o m = some (o.map (fun g => g.addCtrl m)) :=
            MultiOp.c_eq_some o m (by rw [hr.actOn]; exact hd)
          simp only [hc, hemp, hd, ne_eq, not_true_eq_false, if_false, Bool.false_eq_true]
          exact hr.ctrl m hd hne
        · have hc : MultiOp.c o m = none :=
            MultiOp.c_eq_none o m (by rw [hr.actOn]; exact hd)
          simp only [hc, hemp, hd, ne_eq, not_false_eq_true, if_true, if_false,
            Bool.false_eq_true]
          trivial

theorem agree_dgr {b : Built R} {d : Denoted R} (h : Agree b d) :
    Agree
      (match (generalizing := false) b with
        | .ok o => .ok (MultiOp.dgr o)
        | b => b)
      (match (generalizing := false) d with
        | .ok gs supp => .ok (adjAll gs) supp
        | d => d) := by
  cases b with
  | refused => cases d <;> exact h
  | panic => cases d <;> exact h
  | ok o =>
    cases d with
    | refused => exact (h : False).elim
    | panic => exact (h : False).elim
    | ok gs supp => exact Refines.dgr h

theorem agree_mul {ba bb : Built R} {da db : Denoted R} (ha : Agree ba da) (hb : Agree bb db) :
    Agree
      (match (generalizing := false) ba with
        | .ok oa => (match (generalizing := false) bb with | .ok ob => .ok (MultiOp.mul oa ob) | r => r)
        | r => r)
      (match (generalizing := false) da with
        | .ok ga sa => (match (generalizing := false) db with | .ok gb sb => .ok (ga ++ gb) (sa ||| sb) | d => d)
        | d => d) := by
  cases ba with
  | refused => cases da <;> first | exact ha | exact (ha : False).elim
  | panic => cases da <;> first | exact ha | exact (ha : False).elim
  | ok oa =>
    cases da with
    | refused => exact (ha : False).elim
    | panic => exact (ha : False).elim
    | ok ga sa =>
      cases bb with
      | refused => cases db <;> exact hb
      | panic => cases db <;> exact hb
      | ok ob =>
        cases db with
        | refused => exact (hb : False).elim
        | panic => exact (hb : False).elim
        | ok gb sb => exact Refines.mul ha hb

/-- **Refinement.** For every construction program over 64-bit masks, the model's evaluator
and the reference semantics agree: both panic, both refuse, or the built queue refines the
prescribed circuit (same action, same dagger, same support). -/
theorem build_agree (hs : 2 * (Consts.invSqrt2 : R) * Consts.invSqrt2 = 1)
    (hh : 2 * (Consts.half : R) = 1) (phaseOf : QftPhases R) (e : OpExpr R) (hw : e.WordOK) :
    Agree (OpExpr.build phaseOf e) (denote phaseOf e) := by
  induction e with
  | id => exact Refines.nil
  | g1 k m =>
    by_cases hk : k = .h
    · subst hk; exact agree_h hs hh phaseOf m hw
    · exact agree_g1 hs phaseOf k hk m hw
  | rot1 k ph a => exact agree_rot1 phaseOf k ph a hw
  | rot2 k ph ab => exact agree_rot2 phaseOf k ph ab hw
  | two k ab => exact agree_two phaseOf k ab hw
  | u3 the phi lam a => exact agree_u3 phaseOf the phi lam a hw
  | qft m => exact agree_qft phaseOf m hw
  | qftSwapped m => exact agree_qftSwapped phaseOf m hw
  | c m e ih =>
    rw [OpExpr.build, denote]
    exact agree_c (ih hw.2) m
  | dgr e ih =>
    rw [OpExpr.build, denote]
    exact agree_dgr (ih hw)
  | mul a b iha ihb =>
    rw [OpExpr.build, denote]
    exact agree_mul (iha hw.1) (ihb hw.2)

/-- the same, with the case analysis spelled out -/
theorem build_refines (hs : 2 * (Consts.invSqrt2 : R) * Consts.invSqrt2 = 1)
    (hh : 2 * (Consts.half : R) = 1) (phaseOf : QftPhases R) (e : OpExpr R) (hw : e.WordOK) :
    match OpExpr.build phaseOf e, Spec.denote phaseOf e with
    | .ok o, .ok gs supp => Refines o gs supp
    | .refused, .refused => True
    | .panic, .panic => True
    | _, _ => False :=
  build_agree hs hh phaseOf e hw

/-- both evaluators succeed together, and then the queue refines the circuit -/
theorem build_ok_iff (hs : 2 * (Consts.invSqrt2 : R) * Consts.invSqrt2 = 1)
    (hh : 2 * (Consts.half : R) = 1) (phaseOf : QftPhases R) (e : OpExpr R) (hw : e.WordOK)
    (o : MultiOp R) (hb : OpExpr.build phaseOf e = .ok o) :
    ∃ gs supp, denote phaseOf e = .ok gs supp ∧ Refines o gs supp := by
  have h := build_agree hs hh phaseOf e hw
  rw [hb] at h
  cases hd : denote phaseOf e with
  | ok gs supp => rw [hd] at h; exact ⟨gs, supp, rfl, h⟩
  | refused => rw [hd] at h; exact (h : False).elim
  | panic => rw [hd] at h; exact (h : False).elim

theorem denote_ok_iff (hs : 2 * (Consts.invSqrt2 : R) * Consts.invSqrt2 = 1)
    (hh : 2 * (Consts.half : R) = 1) (phaseOf : QftPhases R) (e : OpExpr R) (hw : e.WordOK)
    (gs : List (SGate R)) (supp : Nat) (hd : denote phaseOf e = .ok gs supp) :
    ∃ o, OpExpr.build phaseOf e = .ok o ∧ Refines o gs supp := by
  have h := build_agree hs hh phaseOf e hw
  rw [hd] at h
  cases hb : OpExpr.build phaseOf e with
  | ok o => rw [hb] at h; exact ⟨o, rfl, h⟩
  | refused => rw [hb] at h; exact (h : False).elim
  | panic => rw [hb] at h; exact (h : False).elim

/-! ## 6. corollaries used by the property files -/

theorem Agree.panic_iff {b : Built R} {d : Denoted R} (h : Agree b d) :
    b = .panic ↔ d = .panic := by
  cases b <;> cases d <;> first | exact (h : False).elim | simp

theorem Agree.refused_iff {b : Built R} {d : Denoted R} (h : Agree b d) :
    b = .refused ↔ d = .refused := by
  cases b <;> cases d <;> first | exact (h : False).elim | simp

/-- a program without `.c`, `.dgr`, `*`: one call of a public constructor -/
def OpExpr.IsLeaf : OpExpr R → Prop
  | .c _ _ => False
  | .dgr _ => False
  | .mul _ _ => False
  | _ => True

omit [CommRing R] [Consts R] in
/-- MODEL side, any mask: `rx/ry/rz/u1` build one element iff exactly one bit is set -/
theorem build_rot1 [Neg R] (phaseOf : QftPhases R) (k : Rot1) (ph : Cx R) (a : Nat) :
    OpExpr.build phaseOf (.rot1 k ph a)
      = if popcount a = 1 then .ok [SingleOp.ofAtom (rot1Atom k ph a)] else .panic := by
  have hb : OpExpr.build phaseOf (.rot1 k ph a) = OpExpr.ofOpt (Op.ofChecked (rot1Atom k ph a)) := by
    cases k <;> rfl
  have hv : (rot1Atom k ph a).isValid = (popcount a == 1) := by cases k <;> rfl
  have hsingle : MultiOp.ofSingle (SingleOp.ofAtom (rot1Atom k ph a))
      = [SingleOp.ofAtom (rot1Atom k ph a)] := by cases k <;> rfl
  rw [hb, build_checked, hv, hsingle]
  by_cases hp : popcount a = 1 <;> simp [hp]

omit [CommRing R] [Consts R] in
theorem build_rot2 [Neg R] (phaseOf : QftPhases R) (k : Rot2) (ph : Cx R) (ab : Nat) :
    OpExpr.build phaseOf (.rot2 k ph ab)
      = if popcount ab = 2 then .ok [SingleOp.ofAtom (rot2Atom k ph ab)] else .panic := by
  have hb : OpExpr.build phaseOf (.rot2 k ph ab) = OpExpr.ofOpt (Op.ofChecked (rot2Atom k ph ab)) := by
    cases k <;> rfl
  have hv : (rot2Atom k ph ab).isValid = (popcount ab == 2) := by cases k <;> rfl
  have hsingle : MultiOp.ofSingle (SingleOp.ofAtom (rot2Atom k ph ab))
      = [SingleOp.ofAtom (rot2Atom k ph ab)] := by cases k <;> rfl
  rw [hb, build_checked, hv, hsingle]
  by_cases hp : popcount ab = 2 <;> simp [hp]

omit [CommRing R] [Consts R] in
theorem build_two [Neg R] (phaseOf : QftPhases R) (k : Two) (ab : Nat) :
    OpExpr.build phaseOf (.two k ab : OpExpr R)
      = if popcount ab = 2 then .ok [SingleOp.ofAtom (twoAtom k ab)] else .panic := by
  have hb : OpExpr.build phaseOf (.two k ab : OpExpr R)
      = OpExpr.ofOpt (Op.ofChecked (twoAtom k ab)) := by
    cases k <;> rfl
  have hv : (twoAtom k ab : Atom R).isValid = (popcount ab == 2) := by cases k <;> rfl
  have hsingle : MultiOp.ofSingle (SingleOp.ofAtom (twoAtom k ab : Atom R))
      = [SingleOp.ofAtom (twoAtom k ab)] := by cases k <;> rfl
  rw [hb, build_checked, hv, hsingle]
  by_cases hp : popcount ab = 2 <;> simp [hp]

omit [CommRing R] [Consts R] in
/-- MODEL side, any mask: `u3` builds its three elements iff exactly one bit is set -/
theorem u3_eq (the phi lam : Cx R) (a : Nat) :
    Op.u3 the phi lam a
      = if popcount a = 1 then
          some [SingleOp.ofAtom (.rz a lam), SingleOp.ofAtom (.ry a the), SingleOp.ofAtom (.rz a phi)]
        else none := by
  by_cases hp : popcount a = 1
  · have e1 : ∀ ph : Cx R, Op.rz ph a = some [SingleOp.ofAtom (.rz a ph)] := by
      intro ph
      simp [Op.rz, Op.ofChecked, SingleOp.checked, Atom.isValid, hp]
      rfl
    have e2 : Op.ry the a = some [SingleOp.ofAtom (.ry a the)] := by
      simp [Op.ry, Op.ofChecked, SingleOp.checked, Atom.isValid, hp]
      rfl
    simp [Op.u3, e1, e2, hp]
  · simp [Op.u3, ofChecked_rz_invalid a lam hp, hp]

theorem u3_den2 (the phi lam : Cx R) (a : Nat) :
    Den2 [SingleOp.ofAtom (.rz a lam), SingleOp.ofAtom (.ry a the), SingleOp.ofAtom (.rz a phi)]
      [plain (.one (matRZ lam.re lam.im) a), plain (.one (matRY the.re the.im) a),
        plain (.one (matRZ phi.re phi.im) a)] :=
  Den2.cons1 (sim2_rz _ _) (Den2.cons1 (sim2_ry _ _) (Den2.cons1 (sim2_rz _ _) Den2.nil))

/-- `u3` acts as `RZ(λ)`, then `RY(θ)`, then `RZ(φ)` on its qubit -/
theorem u3_apply (the phi lam : Cx R) (a : Nat) (ψ : State R) :
    MultiOp.apply [SingleOp.ofAtom (.rz a lam), SingleOp.ofAtom (.ry a the),
        SingleOp.ofAtom (.rz a phi)] ψ
      = act1 (matRZ phi.re phi.im) a (act1 (matRY the.re the.im) a
          (act1 (matRZ lam.re lam.im) a ψ)) := by
  rw [(u3_den2 the phi lam a).apply ψ]
  show actAll [plain (.one (matRZ phi.re phi.im) a)]
    (actAll [plain (.one (matRY the.re the.im) a)]
      (actAll [plain (.one (matRZ lam.re lam.im) a)] ψ)) = _
  rw [actAll_plain_one, actAll_plain_one, actAll_plain_one]

end Qvnt

/-! ### axiom audit -/
#print axioms Qvnt.Refines.mul
#print axioms Qvnt.Refines.dgr
#print axioms Qvnt.Refines.ctrl
#print axioms Qvnt.build_agree
#print axioms Qvnt.build_refines
#print axioms Qvnt.build_ok_iff
#print axioms Qvnt.denote_ok_iff
