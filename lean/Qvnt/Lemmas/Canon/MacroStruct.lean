/- Canonical-text tie (tools/canon.py): one module per hand-mirrored item, so that an edited item concerns only the
properties that rely on it. -/
import Qvnt.Generated.Canon

namespace Qvnt.GenCanon
open Qvnt.Generated

theorem macro_struct_canon : canon_macro_struct = true := by decide

end Qvnt.GenCanon
