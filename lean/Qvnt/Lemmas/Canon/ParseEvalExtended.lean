/- Canonical-text tie (tools/canon.py): one module per hand-mirrored item, so that an edited item concerns only the
properties that rely on it. -/
import Qvnt.Generated.Canon

namespace Qvnt.GenCanon
open Qvnt.Generated

theorem parse_eval_extended_canon : canon_parse_eval_extended = true := by decide

end Qvnt.GenCanon
