/- Canonical-text tie (tools/canon.py): one module per hand-mirrored item, so that an edited item concerns only the
properties that rely on it. -/
import Qvnt.Generated.Canon

namespace Qvnt.GenCanon
open Qvnt.Generated

theorem sym_new_canon : canon_sym_new = true := by decide

end Qvnt.GenCanon
