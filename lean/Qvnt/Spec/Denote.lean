/-
SPEC — reference meaning of an operator-construction program (`OpExpr`): a circuit of
spec gates (`SGate`), or the refusal the property prescribes.

* a one-qubit gate with a several-bit mask means that gate on each selected qubit (C01);
* rotation / two-qubit constructors need exactly one / two target bits, otherwise they
  refuse (`panic` = "Mask should contain k bit!") (C01);
* `.c(m)` adds the control mask to every gate and is refused exactly when `m` overlaps the
  qubits the operator acts on or is controlled by (C02);
* `.dgr()` is the conjugate-transposed circuit in reverse order (C03);
* `*` is concatenation (C04);
* `qft` is the textbook circuit: for the selected bits `v₀ < v₁ < …`, stage `i` is `H` on
  `vᵢ` followed by the phase `π/2^j` on `v_{i+j}` controlled by `vᵢ` (C15 relates it to the
  DFT matrix); `qft_swapped` reverses the order of the selected qubits first.
-/
import Qvnt.Model.OpExpr
import Qvnt.Spec.Gates

namespace Qvnt.Spec
open Qvnt

/-- outcome prescribed by the spec -/
inductive Denoted (R : Type) where
  | ok (gs : List (SGate R)) (support : Nat)
  | refused
  | panic

section
variable {R : Type} [Add R] [Sub R] [Mul R] [Neg R] [Zero R] [One R] [Consts R]

/-- exactly one bit set below the word size: returns it -/
def oneBit (m : Nat) : Option Nat := match bitsOf m with | [a] => some a | _ => none
/-- exactly two bits set: returns them, low first -/
def twoBits (m : Nat) : Option (Nat × Nat) := match bitsOf m with | [a, b] => some (a, b) | _ => none

def plain (p : Prim R) : SGate R := ⟨0, p⟩

def mat1 (k : G1) : Mat2 R :=
  match k with | .x => matX | .y => matY | .z => matZ | .s => matS | .t => matT | .h => matH

def matRot1 (k : Rot1) (ph : Cx R) : Mat2 R :=
  match k with
  | .rx => matRX ph.re ph.im | .ry => matRY ph.re ph.im
  | .rz => matRZ ph.re ph.im | .u1 => matRZ ph.re ph.im   -- "U1(λ): equivalent to RZ(λ)"

def matRot2 (k : Rot2) (ph : Cx R) : Mat4 R :=
  match k with
  | .rxx => matRXX ph.re ph.im | .ryy => matRYY ph.re ph.im | .rzz => matRZZ ph.re ph.im

def matTwo (k : Two) : Mat4 R :=
  match k with
  | .swap => matSwap | .sqrtSwap => matSqrtSwap | .iSwap => matISwap | .sqrtISwap => matSqrtISwap

/-- `diag(1, e^{iθ})` with `e^{iθ/2} = half` -/
def matPhase (half : Cx R) : Mat2 R := ⟨1, 0, 0, half * half⟩

/-- The QFT circuit on the ascending bit list `v`: stage `i` is `H` on `vᵢ`, then for each
later bit `v_{i+j}` the controlled phase shift `π/2^j`, written — so that the operator has a
definite overall phase, which matters once it is itself controlled — as `RZ(π/2^j)` on
`v_{i+j}` controlled by `vᵢ` followed by `RZ(π/2^{j+1})` on `vᵢ`
(= `e^{-iπ/2^{j+2}} · diag(1,1,1,e^{iπ/2^j})`). `Props/C15` relates the whole circuit to the
DFT matrix up to one global phase. -/
def qftCircuit (phaseOf : QftPhases R) (v : List Nat) : List (SGate R) :=
  (List.range v.length).flatMap (fun i =>
    plain (.one matH (v.getD i 0)) ::
      (List.range (v.length - i - 1)).flatMap (fun k =>
        let θ := phaseOf (k + 1)
        let θ2 := phaseOf (k + 2)
        [(⟨v.getD i 0, .one (matRZ θ.re θ.im) (v.getD (i + k + 1) 0)⟩ : SGate R),
         plain (.one (matRZ θ2.re θ2.im) (v.getD i 0))]))

/-- reverse the order of the qubits in `v`: swap `vᵢ` with `v_{len-1-i}` -/
def reverseCircuit (v : List Nat) : List (SGate R) :=
  (List.range (v.length / 2)).map (fun i =>
    plain (.two matSwap (v.getD i 0) (v.getD (v.length - 1 - i) 0)))

def denote (phaseOf : QftPhases R) : OpExpr R → Denoted R
  | .id => .ok [] 0
  | .g1 .h m => .ok (onEach matH m) m
  | .g1 k m => if m = 0 then .ok [plain .idle] 0 else .ok (onEach (mat1 k) m) m
  | .rot1 k ph a =>
    match oneBit a with
    | some a => .ok [plain (.one (matRot1 k ph) a)] a
    | none => .panic
  | .rot2 k ph ab =>
    match twoBits ab with
    | some (a, b) => .ok [plain (.two (matRot2 k ph) a b)] ab
    | none => .panic
  | .two k ab =>
    match twoBits ab with
    | some (a, b) => .ok [plain (.two (matTwo k) a b)] ab
    | none => .panic
  | .u3 the phi lam a =>
    match oneBit a with
    | some a => .ok [plain (.one (matRZ lam.re lam.im) a), plain (.one (matRY the.re the.im) a),
                     plain (.one (matRZ phi.re phi.im) a)] a
    | none => .panic
  | .qft m => .ok (qftCircuit phaseOf (bitsOf m)) m
  | .qftSwapped m => .ok (reverseCircuit (bitsOf m) ++ qftCircuit phaseOf (bitsOf m)) m
  | .c m e =>
    match denote phaseOf e with
    | .ok gs supp =>
      if gs.isEmpty then .ok [] supp      -- the empty product has nothing to control
      else if supp &&& m ≠ 0 then .refused
      else .ok (gs.map (fun g => { g with ctrl := g.ctrl ||| m })) (supp ||| m)
    | d => d
  | .dgr e =>
    match denote phaseOf e with
    | .ok gs supp => .ok (adjAll gs) supp
    | d => d
  | .mul a b =>
    match denote phaseOf a with
    | .ok ga sa =>
      (match denote phaseOf b with
       | .ok gb sb => .ok (ga ++ gb) (sa ||| sb)
       | d => d)
    | d => d

end
end Qvnt.Spec
