/-
SPEC — what the properties C01–C04 say an operator *means*, written independently of how
`src/operator` computes it: the documented 2×2 / 4×4 matrix of each gate (transcribed from
the doc comments of `src/operator/mod.rs`), acting on the selected qubit(s) and as the
identity elsewhere; "controlled" = act only where all control bits are 1; "dagger" =
conjugate transpose, factors reversed; "product" = one after the other.

Core-only imports: the same definitions are evaluated at `Float` by the driver (the
failing-input oracle) and reasoned about in `Qvnt/Props`.
-/
import Qvnt.Model.Cx
import Qvnt.Model.Bits

namespace Qvnt.Spec
open Qvnt

/-- a 2×2 complex matrix, row-major -/
structure Mat2 (R : Type) where
  m00 : Cx R
  m01 : Cx R
  m10 : Cx R
  m11 : Cx R
deriving Repr, Inhabited

/-- a 4×4 complex matrix; row / column index = `2 * (bit b) + (bit a)` -/
abbrev Mat4 (R : Type) := Nat → Nat → Cx R

section
variable {R : Type} [Add R] [Sub R] [Mul R] [Neg R] [Zero R] [One R]

/-- conjugate transpose -/
def Mat2.adj (M : Mat2 R) : Mat2 R := ⟨M.m00.conj, M.m10.conj, M.m01.conj, M.m11.conj⟩
def Mat4.adj (M : Mat4 R) : Mat4 R := fun i j => (M j i).conj

/-- "`M` on the qubit with single-bit mask `a`, identity on all other qubits". -/
def act1 (M : Mat2 R) (a : Nat) (ψ : State R) : State R := fun idx =>
  if idx &&& a = 0 then M.m00 * ψ idx + M.m01 * ψ (idx ^^^ a)
  else M.m10 * ψ (idx ^^^ a) + M.m11 * ψ idx

/-- bit of `idx` under the single-bit mask `a`, as 0/1 -/
def bitAt (idx a : Nat) : Nat := if idx &&& a = 0 then 0 else 1

/-- "`M` on the qubits with single-bit masks `a`, `b`, identity elsewhere". The basis state
of column `c` differs from `idx` exactly in the bits where `c` differs from the row. -/
def act2 (M : Mat4 R) (a b : Nat) (ψ : State R) : State R := fun idx =>
  let ra := bitAt idx a
  let rb := bitAt idx b
  let row := 2 * rb + ra
  let col (ca cb : Nat) : Cx R :=
    M row (2 * cb + ca) * ψ (idx ^^^ (if ca = ra then 0 else a) ^^^ (if cb = rb then 0 else b))
  col 0 0 + col 1 0 + col 0 1 + col 1 1

/-- "apply `A` where every bit of `c` is 1, leave every other basis state untouched". -/
def ctrl (c : Nat) (A : State R → State R) (ψ : State R) : State R := fun idx =>
  if idx &&& c = c then A ψ idx else ψ idx

/-! ### the documented matrices (`src/operator/mod.rs` doc comments) -/

variable [Consts R]

def cI : Cx R := ⟨0, 1⟩
def cNegI : Cx R := ⟨0, -1⟩
def cR (r : R) : Cx R := ⟨r, 0⟩

def matX : Mat2 R := ⟨0, 1, 1, 0⟩
def matY : Mat2 R := ⟨0, cNegI, cI, 0⟩
def matZ : Mat2 R := ⟨1, 0, 0, -1⟩
def matS : Mat2 R := ⟨1, 0, 0, cI⟩
/-- `(1 + i)/√2` -/
def matT : Mat2 R := ⟨1, 0, 0, ⟨Consts.invSqrt2, Consts.invSqrt2⟩⟩
def matH : Mat2 R :=
  ⟨cR Consts.invSqrt2, cR Consts.invSqrt2, cR Consts.invSqrt2, cR (-Consts.invSqrt2)⟩
/-- `RX(λ)` with `c = cos(λ/2)`, `s = sin(λ/2)` -/
def matRX (c s : R) : Mat2 R := ⟨cR c, ⟨0, -s⟩, ⟨0, -s⟩, cR c⟩
def matRY (c s : R) : Mat2 R := ⟨cR c, cR (-s), cR s, cR c⟩
/-- `diag(e^{-iλ/2}, e^{iλ/2})` -/
def matRZ (c s : R) : Mat2 R := ⟨⟨c, -s⟩, 0, 0, ⟨c, s⟩⟩

def mat4 (rows : List (List (Cx R))) : Mat4 R := fun i j => (rows.getD i []).getD j 0

def matRXX (c s : R) : Mat4 R :=
  let C := cR c; let m : Cx R := ⟨0, -s⟩
  mat4 [[C, 0, 0, m], [0, C, m, 0], [0, m, C, 0], [m, 0, 0, C]]
def matRYY (c s : R) : Mat4 R :=
  let C := cR c; let m : Cx R := ⟨0, -s⟩; let p : Cx R := ⟨0, s⟩
  mat4 [[C, 0, 0, p], [0, C, m, 0], [0, m, C, 0], [p, 0, 0, C]]
def matRZZ (c s : R) : Mat4 R :=
  let e : Cx R := ⟨c, -s⟩; let f : Cx R := ⟨c, s⟩
  mat4 [[e, 0, 0, 0], [0, f, 0, 0], [0, 0, f, 0], [0, 0, 0, e]]
def matSwap : Mat4 R := mat4 [[1, 0, 0, 0], [0, 0, 1, 0], [0, 1, 0, 0], [0, 0, 0, 1]]
def matSqrtSwap : Mat4 R :=
  let p : Cx R := ⟨Consts.half, Consts.half⟩; let m : Cx R := ⟨Consts.half, -Consts.half⟩
  mat4 [[1, 0, 0, 0], [0, p, m, 0], [0, m, p, 0], [0, 0, 0, 1]]
def matISwap : Mat4 R := mat4 [[1, 0, 0, 0], [0, 0, cI, 0], [0, cI, 0, 0], [0, 0, 0, 1]]
def matSqrtISwap : Mat4 R :=
  let r : Cx R := cR Consts.invSqrt2; let i : Cx R := ⟨0, Consts.invSqrt2⟩
  mat4 [[1, 0, 0, 0], [0, r, i, 0], [0, i, r, 0], [0, 0, 0, 1]]

/-! ### spec gates and their action -/

/-- one primitive of the reference semantics -/
inductive Prim (R : Type) where
  /-- a gate object on no qubit at all (e.g. `x(0)`): the identity -/
  | idle
  | one (M : Mat2 R) (a : Nat)
  | two (M : Mat4 R) (a b : Nat)

structure SGate (R : Type) where
  ctrl : Nat
  prim : Prim R

def Prim.act : Prim R → State R → State R
  | .idle => fun ψ => ψ
  | .one M a => act1 M a
  | .two M a b => act2 M a b

def Prim.adj : Prim R → Prim R
  | .idle => .idle
  | .one M a => .one M.adj a
  | .two M a b => .two (Mat4.adj M) a b

def SGate.act (g : SGate R) : State R → State R := Spec.ctrl g.ctrl g.prim.act
def SGate.adj (g : SGate R) : SGate R := ⟨g.ctrl, g.prim.adj⟩

/-- qubits a spec gate touches -/
def SGate.support (g : SGate R) : Nat :=
  g.ctrl ||| (match g.prim with | .idle => 0 | .one _ a => a | .two _ a b => a ||| b)

/-- a circuit acts gate by gate, first element first -/
def actAll (gs : List (SGate R)) (ψ : State R) : State R := gs.foldl (fun ψ g => g.act ψ) ψ

/-- dagger of a circuit -/
def adjAll (gs : List (SGate R)) : List (SGate R) := (gs.map SGate.adj).reverse

/-- "the one-qubit gate `M` on each selected qubit" -/
def onEach (M : Mat2 R) (m : Nat) : List (SGate R) := (bitsOf m).map (fun a => ⟨0, .one M a⟩)

end
end Qvnt.Spec
