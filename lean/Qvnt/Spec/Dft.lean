/-
SPEC — the discrete Fourier transform on the sub-register selected by a mask (C15).

`F[j][k] = ω^{jk} / √N`, `ω = exp(2πi/N)`, `N = 2^(selected bits)`, acting on the selected
qubits (lowest selected bit least significant) and as the identity on the others. The
roots of unity enter as a table `root t = ω^t` (cos/sin at `Float` in the driver, `Real`
in the proofs).
-/
import Qvnt.Model.Cx
import Qvnt.Model.Bits

namespace Qvnt.Spec
open Qvnt

/-- value of the sub-register `v` (ascending single-bit masks) in the basis index `idx` -/
def subVal (v : List Nat) (idx : Nat) : Nat :=
  (v.zipIdx).foldl (fun acc (p : Nat × Nat) => if idx &&& p.1 ≠ 0 then acc + 2 ^ p.2 else acc) 0

/-- union of the bits of `v` -/
def maskOfBits (v : List Nat) : Nat := v.foldl (· ||| ·) 0

/-- spread the low bits of `k` over the positions `v` -/
def spread (v : List Nat) (k : Nat) : Nat :=
  (v.zipIdx).foldl (fun acc (p : Nat × Nat) => if k.testBit p.2 then acc ||| p.1 else acc) 0

/-- `idx` with the sub-register `v` replaced by the value `k` -/
def withSubVal (v : List Nat) (idx k : Nat) : Nat :=
  (idx ^^^ (idx &&& maskOfBits v)) ||| spread v k

section
variable {R : Type} [Add R] [Sub R] [Mul R] [Zero R]

/-- DFT on the sub-register `v`, identity elsewhere -/
def dftAct (root : Nat → Cx R) (invSqrtN : R) (v : List Nat) (ψ : State R) : State R := fun idx =>
  let N := 2 ^ v.length
  let j := subVal v idx
  ((List.range N).foldl (fun acc k => acc + root ((j * k) % N) * ψ (withSubVal v idx k)) 0).scale
    invSqrtN

/-- reverse the order of the selected qubits: value bits `b₀…b_{m-1}` become `b_{m-1}…b₀` -/
def reverseSel (v : List Nat) (ψ : State R) : State R := fun idx =>
  let m := v.length
  let j := subVal v idx
  let rev := (List.range m).foldl (fun acc t => if j.testBit t then acc + 2 ^ (m - 1 - t) else acc) 0
  ψ (withSubVal v idx rev)

end
end Qvnt.Spec
