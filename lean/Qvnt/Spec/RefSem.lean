/-
SPEC — reference semantics of the interpreter-level properties.

* `Qelib`: what OpenQASM 2.0 / qelib1.inc assign to the standard gate names (C09). The
  primitive is the paper's `U(θ,φ,λ) := Rz(φ)·Ry(θ)·Rz(λ)` and `CX`; every standard gate is
  given by the body of its qelib1.inc definition (transcribed by hand: the copy of
  qelib1.inc in this repository is an empty stub).
* `RefSem`: big-step, statement-by-statement execution of an accepted program (C10, C11):
  the k-th declared qubit is bit k, a gate statement applies its operator when it is
  reached, `measure` stores the outcome bits, `if (c==v)` executes its statement exactly
  when the register currently equals `v`, `reset` measures and flips, `barrier` does
  nothing. There is no block queue here; the theorem of Props/C11 is that the model's
  queue-then-run pipeline computes the same thing.
-/
import Qvnt.Model.Interp
import Qvnt.Spec.Gates

namespace Qvnt.Spec
open Qvnt

/-! ### qelib1.inc -/

section qelib
variable {R : Type} [Add R] [Sub R] [Mul R] [Neg R] [Div R] [Zero R] [One R] [Consts R]
  [ExprFns R] [AngleFns R]

/-- `U(θ,φ,λ) q` of the OpenQASM 2.0 paper: `Rz(φ)·Ry(θ)·Rz(λ)` (first `Rz(λ)`) -/
def gateU (θ φ l : R) (q : Nat) : List (SGate R) :=
  let h (x : R) := (AngleFns.halfPhase x : Cx R)
  [⟨0, .one (matRZ (h l).re (h l).im) q⟩, ⟨0, .one (matRY (h θ).re (h θ).im) q⟩,
   ⟨0, .one (matRZ (h φ).re (h φ).im) q⟩]

/-- `CX c,t` -/
def gateCX (c t : Nat) : List (SGate R) := [⟨c, .one matX t⟩]

/-- numeric literal helpers -/
def two : R := 1 + 1
def four : R := two + two

/-- The standard gates, each by the body of its qelib1.inc definition. `qs` are single-bit
masks in argument order, `ps` the parameter values. `none` = not a qelib1.inc name (with
this arity). -/
def qelib (name : String) (ps : List R) (qs : List Nat) : Option (List (SGate R)) :=
  let pi : R := ExprFns.pi
  let u3 (θ φ l : R) (q : Nat) := gateU θ φ l q
  let u2 (φ l : R) (q : Nat) := gateU (pi / two) φ l q
  let u1 (l : R) (q : Nat) := gateU (0 : R) 0 l q
  let cx (a b : Nat) : List (SGate R) := gateCX a b
  let h (q : Nat) := u2 0 pi q
  let s (q : Nat) := u1 (pi / two) q
  let sdg (q : Nat) := u1 (-(pi / two)) q
  let t (q : Nat) := u1 (pi / four) q
  let tdg (q : Nat) := u1 (-(pi / four)) q
  let x (q : Nat) := u3 pi 0 pi q
  let ccx (a b c : Nat) : List (SGate R) :=
    h c ++ cx b c ++ tdg c ++ cx a c ++ t c ++ cx b c ++ tdg c ++ cx a c ++ t b ++ t c ++ h c
      ++ cx a b ++ t a ++ tdg b ++ cx a b
  match name, ps, qs with
  | "u3", [θ, φ, l], [q] => some (u3 θ φ l q)
  | "u2", [φ, l], [q] => some (u2 φ l q)
  | "u1", [l], [q] => some (u1 l q)
  | "cx", [], [a, b] => some (cx a b)
  | "x", [], [q] => some (x q)
  | "y", [], [q] => some (u3 pi (pi / two) (pi / two) q)
  | "z", [], [q] => some (u1 pi q)
  | "h", [], [q] => some (h q)
  | "s", [], [q] => some (s q)
  | "sdg", [], [q] => some (sdg q)
  | "t", [], [q] => some (t q)
  | "tdg", [], [q] => some (tdg q)
  | "rx", [θ], [q] => some (u3 θ (-(pi / two)) (pi / two) q)
  | "ry", [θ], [q] => some (u3 θ 0 0 q)
  | "rz", [φ], [q] => some (u1 φ q)
  | "cz", [], [a, b] => some (h b ++ cx a b ++ h b)
  | "cy", [], [a, b] => some (sdg b ++ cx a b ++ s b)
  | "swap", [], [a, b] => some (cx a b ++ cx b a ++ cx a b)
  | "ch", [], [a, b] =>
    some (h b ++ sdg b ++ cx a b ++ h b ++ t b ++ cx a b ++ t b ++ h b ++ s b ++ x b ++ s a)
  | "ccx", [], [a, b, c] => some (ccx a b c)
  | "cswap", [], [a, b, c] => some (cx c b ++ ccx a b c ++ cx c b)
  | "crz", [l], [a, b] => some (u1 (l / two) b ++ cx a b ++ u1 (-(l / two)) b ++ cx a b)
  | "cu1", [l], [a, b] =>
    some (u1 (l / two) a ++ cx a b ++ u1 (-(l / two)) b ++ cx a b ++ u1 (l / two) b)
  | "cu3", [θ, φ, l], [c, t] =>
    some (u1 ((l - φ) / two) t ++ cx c t ++ u3 (-(θ / two)) 0 (-((φ + l) / two)) t ++ cx c t
      ++ u3 (θ / two) φ 0 t)
  | _, _, _ => none

end qelib

/-! ### big-step reference execution -/

section refsem
variable {R : Type} [Add R] [Sub R] [Mul R] [Neg R] [Zero R] [One R] [Div R] [Consts R]
  [LE R] [DecidableLE R] [LT R] [DecidableLT R] [HasSqrt R] [RegConsts R] [ExprFns R] [AngleFns R]

/-- declared registers: name, offset of its first bit, size -/
structure Decl where
  name : String
  offset : Nat
  size : Nat
deriving Repr

structure RefState (R : Type) where
  qdecls : List Decl := []
  cdecls : List Decl := []
  macros : List (String × Macro R) := []
  q : QReg R
  c : CReg
  mOp : MeasureOp := .set
  drawn : List Nat := []

def declsTotal (l : List Decl) : Nat := l.foldl (fun a d => a + d.size) 0

/-- the mask of an argument: bit `offset + i` for `r[i]`, all bits of the register for `r` -/
def argMask (l : List Decl) (a : Arg) : Option Nat :=
  match a with
  | .qubit n i =>
    (l.find? (·.name == n)).bind (fun d => if i < d.size then some (2 ^ (d.offset + i)) else none)
  | .register n =>
    (l.find? (·.name == n)).bind (fun d => if d.size = 0 then none else some ((2 ^ d.size - 1) * 2 ^ d.offset))

/-- the operator a gate statement denotes (user-defined gates first, then built-ins) -/
def callOp (s : RefState R) (c : Call R) : Option (MultiOp R) := do
  let regs ← c.regs.mapM (argMask s.qdecls)
  let args ← c.args.mapM (fun a => match evalExtended (R := R) a [] with | .ok v => some v | .error _ => none)
  let res : Res (MultiOp R) :=
    match lookupLast s.macros c.name with
    | some m => Macro.process s.macros (s.macros.length + 2) m c.name regs args [c.name]
    | none => Gates.process c.name regs args
  match res with
  | .ok o => some o
  | _ => none

/-- bits of `mask`, ascending (spec-side enumeration) -/
def maskBits (mask : Nat) : List Nat := bitsOf mask

/-- take one measurement of the qubits `mask` (drawn index from the stream when a draw is
needed), returning the outcome bits -/
def measureStep (s : RefState R) (mask : Nat) : Option (RefState R × Nat) :=
  if mask &&& s.q.qMask = 0 then some (s, 0)
  else match s.drawn with
    | [] => none
    | d :: ds =>
      let (q', c) := s.q.measureMask mask d
      some ({ s with q := q', drawn := ds }, c.value)

/-- one statement. `none` = the program is not executable (rejected by the interpreter) or
the outcome stream ran out. Declarations enlarge the registers in |0…0> / 0. -/
def stepNode (s : RefState R) : Node R → Option (RefState R)
  | .qreg n k =>
    some { s with qdecls := s.qdecls ++ [⟨n, declsTotal s.qdecls, k⟩] }
  | .creg n k =>
    some { s with cdecls := s.cdecls ++ [⟨n, declsTotal s.cdecls, k⟩] }
  | .barrier => some s
  | .opaque => some s
  | .gate name regs args body =>
    match Macro.new regs args body with
    | .ok m => some { s with macros := s.macros ++ [(name, m)] }
    | .error _ => none
  | .apply c => (callOp s c).map (fun o => { s with q := s.q.apply o })
  | .measure qa ca => do
    let qm ← argMask s.qdecls qa
    let cm ← argMask s.cdecls ca
    let (s, v) ← measureStep s qm
    let pairs := (maskBits qm).zip (maskBits cm)
    let c := pairs.foldl (fun c (p : Nat × Nat) =>
      match s.mOp with
      | .set => c.set (v &&& p.1 ≠ 0) p.2
      | .xor => c.xor (v &&& p.1 ≠ 0) p.2) s.c
    some { s with c := c }
  | .ifn lhs rhs body =>
    match body with
    | .call c => do
      let cm ← argMask s.cdecls (.register lhs)
      let o ← callOp s c
      -- the value of the register: its bits gathered into the low positions
      let v := (List.range (maskBits cm).length).foldl (fun acc i =>
        if s.c.value &&& (maskBits cm).getD i 0 ≠ 0 then acc + 2 ^ i else acc) 0
      if v = rhs then some { s with q := s.q.apply o } else some s
    | .other => none
  | .reset a => do
    let qm ← argMask s.qdecls a
    if qm &&& s.q.qMask = s.q.qMask then some { s with q := s.q.reset 0 }
    else
      let (s, v) ← measureStep s qm
      some (if v ≠ 0 then { s with q := s.q.apply (Op.x v) } else s)

end refsem

section run
variable {R : Type} [Add R] [Sub R] [Mul R] [Neg R] [Zero R] [One R] [Div R] [Consts R]
  [LE R] [DecidableLE R] [LT R] [DecidableLT R] [HasSqrt R] [RegConsts R] [ExprFns R] [AngleFns R]

/-- Run a whole program from |0…0>: the registers are sized by the declarations (all of
them, wherever they stand: the interpreter sizes the registers before it runs anything). -/
def refRun (prog : List (Node R)) (mOp : MeasureOp) (drawn : List Nat) : Option (RefState R) :=
  let nq := prog.foldl (fun a n => match n with | .qreg _ k => a + k | _ => a) 0
  let nc := prog.foldl (fun a n => match n with | .creg _ k => a + k | _ => a) 0
  let s0 : RefState R := { q := QReg.new nq, c := CReg.new nc, mOp := mOp, drawn := drawn }
  prog.foldl (fun s n => s.bind (fun s => stepNode s n)) (some s0)

end run
end Qvnt.Spec
