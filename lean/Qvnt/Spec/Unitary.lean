/-
SPEC — well-formedness and unitarity predicates for spec gates, and the norm of a state.
(Definitions only; the theorems are in `Qvnt/Lemmas/SpecAlg.lean`, `Qvnt/Lemmas/Norm.lean`.)
-/
import Qvnt.Spec.Gates

namespace Qvnt.Spec
open Qvnt

section
variable {R : Type} [Add R] [Sub R] [Mul R] [Neg R] [Zero R] [One R]

/-- `M† M = 1` and `M M† = 1`, entry by entry -/
structure Mat2.IsUnitary (M : Mat2 R) : Prop where
  l00 : M.m00.conj * M.m00 + M.m10.conj * M.m10 = 1
  l01 : M.m00.conj * M.m01 + M.m10.conj * M.m11 = 0
  l10 : M.m01.conj * M.m00 + M.m11.conj * M.m10 = 0
  l11 : M.m01.conj * M.m01 + M.m11.conj * M.m11 = 1
  r00 : M.m00 * M.m00.conj + M.m01 * M.m01.conj = 1
  r01 : M.m00 * M.m10.conj + M.m01 * M.m11.conj = 0
  r10 : M.m10 * M.m00.conj + M.m11 * M.m01.conj = 0
  r11 : M.m10 * M.m10.conj + M.m11 * M.m11.conj = 1

/-- `M† M = 1` and `M M† = 1` for a 4×4 matrix (indices below 4) -/
structure Mat4.IsUnitary (M : Mat4 R) : Prop where
  left : ∀ i j, i < 4 → j < 4 →
    (M 0 i).conj * M 0 j + (M 1 i).conj * M 1 j + (M 2 i).conj * M 2 j + (M 3 i).conj * M 3 j
      = if i = j then 1 else 0
  right : ∀ i j, i < 4 → j < 4 →
    M i 0 * (M j 0).conj + M i 1 * (M j 1).conj + M i 2 * (M j 2).conj + M i 3 * (M j 3).conj
      = if i = j then 1 else 0

/-- targets are distinct single bits, disjoint from the controls -/
def SGate.WF (g : SGate R) : Prop :=
  match g.prim with
  | .idle => True
  | .one _ a => (∃ k, a = 2 ^ k) ∧ g.ctrl &&& a = 0
  | .two _ a b => (∃ i j, i ≠ j ∧ a = 2 ^ i ∧ b = 2 ^ j) ∧ g.ctrl &&& (a ||| b) = 0

def Prim.IsUnitary : Prim R → Prop
  | .idle => True
  | .one M _ => M.IsUnitary
  | .two M _ _ => Mat4.IsUnitary M

def SGate.IsUnitary (g : SGate R) : Prop := g.prim.IsUnitary

/-- squared norm of the first `2^n` amplitudes -/
def normSqSum (n : Nat) (ψ : State R) : R :=
  (List.range (2 ^ n)).foldl (fun acc i => acc + (ψ i).normSq) 0

end
end Qvnt.Spec
