/-
MODEL — fixed-width integer operations of Rust (`!x`, `wrapping_add`, `wrapping_sub`, `<<`) on
`Nat`s, as emitted by the translator `tools/rs2lean.py`, and the scalar operations the gate
constructors use (`/ 2.`, `cos`, `sin`).
-/
import Qvnt.Model.Cx

namespace Qvnt

/-- `!x` on a `w`-bit unsigned integer -/
def notW (w x : Nat) : Nat := 2 ^ w - 1 - x % 2 ^ w
/-- `a.wrapping_add(b)` on `w` bits -/
def wrapAdd (w a b : Nat) : Nat := (a + b) % 2 ^ w
/-- `a.wrapping_sub(b)` on `w` bits -/
def wrapSub (w a b : Nat) : Nat := (a % 2 ^ w + 2 ^ w - b % 2 ^ w) % 2 ^ w
/-- `a << b` on `w` bits (release-mode semantics: the count is taken modulo the width; a count
of `w` or more is an overflow panic in debug builds) -/
def shlW (w a b : Nat) : Nat := (a * 2 ^ (b % w)) % 2 ^ w

/-- the real-number operations of the rotation-gate constructors -/
class Trig (R : Type) where
  /-- the literal `2.` -/
  two : R
  cos : R → R
  sin : R → R

end Qvnt

namespace Qvnt
/-- `phase /= 2.; C::new(phase.cos(), phase.sin())` (rx ry rz ryy rzz) -/
def halfPhaseDiv {R : Type} [Div R] [Trig R] (θ : R) : Cx R := ⟨Trig.cos (θ / Trig.two), Trig.sin (θ / Trig.two)⟩
/-- `phase *= 0.5; C::new(phase.cos(), phase.sin())` (rxx) -/
def halfPhaseMul {R : Type} [Mul R] [Consts R] [Trig R] (θ : R) : Cx R := ⟨Trig.cos (θ * Consts.half), Trig.sin (θ * Consts.half)⟩
end Qvnt
