/-
MODEL — complex amplitudes as (re, im) pairs over an arbitrary scalar `R`.

Mirrors `num_complex::Complex<f64>` as used by qvnt (`src/math/mod.rs`): the kernels in
`src/operator/atomic/*.rs` manipulate `re` / `im` separately, so the model does too.
Only core type classes are used, so the same definitions run at `Float` in the driver and
are reasoned about over any commutative ring (or ℝ) in the proof files.
-/
namespace Qvnt

structure Cx (R : Type) where
  re : R
  im : R
deriving Repr, Inhabited

/-- Constants the Rust code takes from `std::f64::consts` / literals. -/
class Consts (R : Type) where
  /-- `0.5` -/
  half : R
  /-- `FRAC_1_SQRT_2` -/
  invSqrt2 : R

namespace Cx
variable {R : Type}

@[ext] theorem ext' {a b : Cx R} (h1 : a.re = b.re) (h2 : a.im = b.im) : a = b := by
  cases a; cases b; simp_all

instance [Zero R] : Zero (Cx R) := ⟨⟨0, 0⟩⟩
instance [Zero R] [One R] : One (Cx R) := ⟨⟨1, 0⟩⟩
instance [Add R] : Add (Cx R) := ⟨fun a b => ⟨a.re + b.re, a.im + b.im⟩⟩
instance [Sub R] : Sub (Cx R) := ⟨fun a b => ⟨a.re - b.re, a.im - b.im⟩⟩
instance [Neg R] : Neg (Cx R) := ⟨fun a => ⟨-a.re, -a.im⟩⟩
/-- `num_complex` multiplication: `(ac - bd) + (ad + bc) i`. -/
instance [Add R] [Sub R] [Mul R] : Mul (Cx R) :=
  ⟨fun a b => ⟨a.re * b.re - a.im * b.im, a.re * b.im + a.im * b.re⟩⟩

/-- `Complex::conj`. -/
def conj [Neg R] (a : Cx R) : Cx R := ⟨a.re, -a.im⟩
/-- `Complex::scale`. -/
def scale [Mul R] (a : Cx R) (t : R) : Cx R := ⟨a.re * t, a.im * t⟩
/-- `Complex::norm_sqr`. -/
def normSq [Add R] [Mul R] (a : Cx R) : R := a.re * a.re + a.im * a.im
/-- the imaginary unit, `C_IMAG`. -/
def I [Zero R] [One R] : Cx R := ⟨0, 1⟩
/-- embedding of a real scalar -/
def ofReal [Zero R] (r : R) : Cx R := ⟨r, 0⟩

@[simp] theorem zero_re [Zero R] : (0 : Cx R).re = 0 := rfl
@[simp] theorem zero_im [Zero R] : (0 : Cx R).im = 0 := rfl
@[simp] theorem one_re [Zero R] [One R] : (1 : Cx R).re = 1 := rfl
@[simp] theorem one_im [Zero R] [One R] : (1 : Cx R).im = 0 := rfl
@[simp] theorem add_re [Add R] (a b : Cx R) : (a + b).re = a.re + b.re := rfl
@[simp] theorem add_im [Add R] (a b : Cx R) : (a + b).im = a.im + b.im := rfl
@[simp] theorem sub_re [Sub R] (a b : Cx R) : (a - b).re = a.re - b.re := rfl
@[simp] theorem sub_im [Sub R] (a b : Cx R) : (a - b).im = a.im - b.im := rfl
@[simp] theorem neg_re [Neg R] (a : Cx R) : (-a).re = -a.re := rfl
@[simp] theorem neg_im [Neg R] (a : Cx R) : (-a).im = -a.im := rfl
@[simp] theorem mul_re [Add R] [Sub R] [Mul R] (a b : Cx R) :
    (a * b).re = a.re * b.re - a.im * b.im := rfl
@[simp] theorem mul_im [Add R] [Sub R] [Mul R] (a b : Cx R) :
    (a * b).im = a.re * b.im + a.im * b.re := rfl
@[simp] theorem conj_re [Neg R] (a : Cx R) : a.conj.re = a.re := rfl
@[simp] theorem conj_im [Neg R] (a : Cx R) : a.conj.im = -a.im := rfl
@[simp] theorem scale_re [Mul R] (a : Cx R) (t : R) : (a.scale t).re = a.re * t := rfl
@[simp] theorem scale_im [Mul R] (a : Cx R) (t : R) : (a.scale t).im = a.im * t := rfl
@[simp] theorem I_re [Zero R] [One R] : (I : Cx R).re = 0 := rfl
@[simp] theorem I_im [Zero R] [One R] : (I : Cx R).im = 1 := rfl
@[simp] theorem ofReal_re [Zero R] (r : R) : (ofReal r).re = r := rfl
@[simp] theorem ofReal_im [Zero R] (r : R) : (ofReal r).im = 0 := rfl
@[simp] theorem mk_re (a b : R) : (Cx.mk a b).re = a := rfl
@[simp] theorem mk_im (a b : R) : (Cx.mk a b).im = b := rfl

end Cx

/-- A state vector: total function from basis index to amplitude (the executable form wraps
an `Array`; out-of-range reads, which panic in Rust, are outside the model — every theorem
that needs it assumes the operator's mask lies inside the buffer). -/
abbrev State (R : Type) := Nat → Cx R

end Qvnt
