/-
MODEL — machine-word bit utilities (`src/math/mod.rs`, `src/math/bits_iter.rs`).

Machine words are `Nat`s below `2^64`; where the Rust code can wrap (`pos <<= 1`,
`wrapping_add`, `!x`) the model reduces modulo `2^64` (resp. `2^32` for `count_ones`)
explicitly, because property C20 is about exactly that wrap-around.
-/
namespace Qvnt

/-- word size of `usize` on the supported targets -/
def W : Nat := 64

/-- `x.count_ones()` -/
def popcount : Nat → Nat
  | 0 => 0
  | n + 1 => (n + 1) % 2 + popcount ((n + 1) / 2)
decreasing_by omega

/-- `pos << 1` on a 64-bit word -/
def shl1 (pos : Nat) : Nat := (pos * 2) % 2 ^ W

/-- State of `BitsIter`. -/
structure BitsIter where
  bits : Nat
  pos : Nat
deriving Repr, DecidableEq

/-- `BitsIter::from` -/
def BitsIter.ofMask (bits : Nat) : BitsIter := ⟨bits, 1⟩

/-- One call of `BitsIter::next`, with explicit fuel for the inner `loop`.
`none` = fuel exhausted (the Rust loop would still be running),
`some (none, it)` = `None`, `some (some p, it)` = `Some(p)`. -/
def BitsIter.next : Nat → BitsIter → Option (Option Nat × BitsIter)
  | 0, _ => none
  | fuel + 1, it =>
    if it.pos &&& it.bits ≠ 0 then
      some (some it.pos, { it with pos := shl1 it.pos })
    else if it.pos > it.bits || it.pos == 0 then
      some (none, it)
    else
      BitsIter.next fuel { it with pos := shl1 it.pos }

/-- `iter.collect::<Vec<_>>()`, fuel bounds the total number of loop iterations. -/
def BitsIter.collect : Nat → BitsIter → Option (List Nat)
  | 0, _ => none
  | fuel + 1, it =>
    match it.next (fuel + 1) with
    | none => none
    | some (none, _) => some []
    | some (some p, it') =>
      match BitsIter.collect fuel it' with
      | none => none
      | some l => some (p :: l)

/-- enough fuel for every 64-bit mask: each loop iteration advances `pos` -/
def bitsFuel : Nat := 2 * W + 4

/-- The ascending list of single-bit masks of `m` as produced by `BitsIter` (empty when the
iterator would not terminate — never the case, see `Props/C20`). -/
def bitsIterList (m : Nat) : List Nat := ((BitsIter.ofMask m).collect bitsFuel).getD []

/-- SPEC-side reference: the set bits of `m` below bit `k`, ascending, as single-bit masks. -/
def bitsBelow (m : Nat) : Nat → List Nat
  | 0 => []
  | k + 1 => bitsBelow m k ++ (if m.testBit k then [2 ^ k] else [])

/-- SPEC-side reference: the set bits of a 64-bit word. -/
def bitsOf (m : Nat) : List Nat := bitsBelow m W

/-- `crate::math::count_bits` -/
def countBits (n : Nat) : Nat := popcount n

end Qvnt
