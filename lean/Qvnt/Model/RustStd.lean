/-
MODEL — the handful of Rust standard-library operations the second translator
(`tools/rs2lean2.py`) maps collection-level code onto. `Vec<T>`, `VecDeque<T>` and slices are
`List T`; the definitions below are the meaning given to `enumerate`, `iter_mut().enumerate()
.for_each`, `sum`, `resize` and integer ranges. They are part of the trusted base of the
translation (a dozen one-line definitions over core `List`).
-/
import Qvnt.Model.Reg

namespace Qvnt.Rs

/-- `iter().enumerate()`: `(index, element)` pairs -/
def enumerate {α : Type} (l : List α) : List (Nat × α) := l.zipIdx.map (fun p => (p.2, p.1))

/-- `iter_mut().enumerate().for_each(|(idx, x)| *x = f idx x)` -/
def mapIdx {α : Type} (l : List α) (f : Nat → α → α) : List α := (enumerate l).map (fun p => f p.1 p.2)

/-- `iter().sum()` (left to right from zero) -/
def sum {α : Type} [Add α] [Zero α] (l : List α) : α := l.foldl (· + ·) 0

/-- `Vec::resize(n, x)` -/
def resize {α : Type} (l : List α) (n : Nat) (x : α) : List α := l.take n ++ List.replicate (n - l.length) x

/-- the iterator `a..b` -/
def range (a b : Nat) : List Nat := List.range' a (b - a)

/-- `for (k, x) in v.iter_mut().zip(y.iter()).filter(|(_, y)| pred y).map(|(x, _)| x).enumerate() { *x = f k x }`:
the elements whose partner satisfies `pred` are updated, `k` counts the selected elements; `zip` stops at
the shorter list, the rest of `v` is untouched -/
def updateSelectedAux {α β : Type} (pred : β → Bool) (f : Nat → α → α) : List α → List β → Nat → List α
  | x :: xs, y :: ys, k =>
    if pred y then f k x :: updateSelectedAux pred f xs ys (k + 1) else x :: updateSelectedAux pred f xs ys k
  | xs, [], _ => xs
  | [], _, _ => []

def updateSelected {α β : Type} (v : List α) (y : List β) (pred : β → Bool) (f : Nat → α → α) : List α :=
  updateSelectedAux pred f v y 0

/-- `HashMap::extend` on association lists: entries of `b` replace the entries of `a` with the same key -/
def mapExtend {α : Type} (a b : List (String × α)) : List (String × α) :=
  a.filter (fun p => !(b.any (·.1 == p.1))) ++ b

/-- `HashMap::contains_key` -/
def mapContains {α : Type} (m : List (String × α)) (k : String) : Bool := m.any (·.1 == k)

/-- `HashMap::insert`: replaces an entry with the same key -/
def mapInsert {α : Type} (m : List (String × α)) (k : String) (v : α) : List (String × α) :=
  m.filter (fun p => !(p.1 == k)) ++ [(k, v)]

/-- `HashMap::get` (keys are unique in a `HashMap`; on an association list the last entry wins) -/
def mapGet {α : Type} (m : List (String × α)) (k : String) : Option α :=
  (m.reverse.find? (fun p => p.1 == k)).map (·.2)

/-- `x.powi(n)` for a non-negative exponent -/
def powi {R : Type} [One R] [Mul R] (x : R) : Nat → R
  | 0 => 1
  | n + 1 => powi x n * x

/-- `std::f64::consts` used by the public constructors -/
class AngleConsts (R : Type) where
  /-- `FRAC_PI_2` -/
  fracPi2 : R
  /-- `PI` -/
  pi : R

end Qvnt.Rs
