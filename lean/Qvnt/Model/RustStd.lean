/-
MODEL — the handful of Rust standard-library operations the second translator
(`tools/rs2lean2.py`) maps collection-level code onto. `Vec<T>`, `VecDeque<T>` and slices are
`List T`; the definitions below are the meaning given to `enumerate`, `iter_mut().enumerate()
.for_each`, `sum`, `resize` and integer ranges. They are part of the trusted base of the
translation (a dozen one-line definitions over core `List`).
-/
import Qvnt.Model.Reg

namespace Qvnt.Rs

/-- `iter().enumerate()`: `(index, element)` pairs -/
def enumerate {α : Type} (l : List α) : List (Nat × α) := l.zipIdx.map (fun p => (p.2, p.1))

/-- `iter_mut().enumerate().for_each(|(idx, x)| *x = f idx x)` -/
def mapIdx {α : Type} (l : List α) (f : Nat → α → α) : List α := (enumerate l).map (fun p => f p.1 p.2)

/-- `iter().sum()` (left to right from zero) -/
def sum {α : Type} [Add α] [Zero α] (l : List α) : α := l.foldl (· + ·) 0

/-- `Vec::resize(n, x)` -/
def resize {α : Type} (l : List α) (n : Nat) (x : α) : List α := l.take n ++ List.replicate (n - l.length) x

/-- the iterator `a..b` -/
def range (a b : Nat) : List Nat := List.range' a (b - a)

end Qvnt.Rs
