/-
Operator-construction programs: the deep embedding both the harness and the theorems talk
about. `OpExpr.build` evaluates a program with the MODEL constructors (mirroring what the
harness does with the real crate's public API); `OpExpr.denote` (in `Spec/Denote.lean`) is
its reference meaning.
-/
import Qvnt.Model.Op

namespace Qvnt

inductive G1 | x | y | z | s | t | h
deriving Repr, DecidableEq
inductive Rot1 | rx | ry | rz | u1
deriving Repr, DecidableEq
inductive Rot2 | rxx | ryy | rzz
deriving Repr, DecidableEq
inductive Two | swap | sqrtSwap | iSwap | sqrtISwap
deriving Repr, DecidableEq

/-- Programs over the public operator API. Angles are carried as half-angle phases
`(cos(θ/2), sin(θ/2))`. -/
inductive OpExpr (R : Type) where
  | id
  | g1 (k : G1) (m : Nat)
  | rot1 (k : Rot1) (ph : Cx R) (a : Nat)
  | rot2 (k : Rot2) (ph : Cx R) (ab : Nat)
  | two (k : Two) (ab : Nat)
  /-- `op::u3(the, phi, lam, a)`; `op::u2(phi, lam, a)` is `u3` with `the = π/2` -/
  | u3 (the phi lam : Cx R) (a : Nat)
  | qft (m : Nat)
  | qftSwapped (m : Nat)
  /-- `.c(mask)` -/
  | c (m : Nat) (e : OpExpr R)
  /-- `.dgr()` -/
  | dgr (e : OpExpr R)
  /-- `a * b`, `a *= b`, `a.append(&mut b)`, pushing `b`'s elements onto `a` -/
  | mul (a b : OpExpr R)
deriving Repr, Inhabited

/-- outcome of running a construction program -/
inductive Built (R : Type) where
  | ok (o : MultiOp R)
  /-- `.c()` returned `None` -/
  | refused
  /-- a constructor panicked: "Mask should contain k bit!" -/
  | panic
deriving Repr

namespace OpExpr
variable {R : Type} [Neg R]

def ofOpt : Option (MultiOp R) → Built R
  | some o => .ok o
  | none => .panic

/-- Evaluate with the model's constructors, left to right (the first failure wins, as in
the harness where evaluation stops at the first panic / `None`). -/
def build (phaseOf : QftPhases R) : OpExpr R → Built R
  | .id => .ok Op.id
  | .g1 .x m => .ok (Op.x m)
  | .g1 .y m => .ok (Op.y m)
  | .g1 .z m => .ok (Op.z m)
  | .g1 .s m => .ok (Op.s m)
  | .g1 .t m => .ok (Op.t m)
  | .g1 .h m => ofOpt (Op.h m)
  | .rot1 .rx ph a => ofOpt (Op.rx ph a)
  | .rot1 .ry ph a => ofOpt (Op.ry ph a)
  | .rot1 .rz ph a => ofOpt (Op.rz ph a)
  | .rot1 .u1 ph a => ofOpt (Op.u1 ph a)
  | .rot2 .rxx ph ab => ofOpt (Op.rxx ph ab)
  | .rot2 .ryy ph ab => ofOpt (Op.ryy ph ab)
  | .rot2 .rzz ph ab => ofOpt (Op.rzz ph ab)
  | .two .swap ab => ofOpt (Op.swap ab)
  | .two .sqrtSwap ab => ofOpt (Op.sqrtSwap ab)
  | .two .iSwap ab => ofOpt (Op.iSwap ab)
  | .two .sqrtISwap ab => ofOpt (Op.sqrtISwap ab)
  | .u3 the phi lam a => ofOpt (Op.u3 the phi lam a)
  | .qft m => ofOpt (Op.qft phaseOf m)
  | .qftSwapped m => ofOpt (Op.qftSwapped phaseOf m)
  | .c m e =>
    match build phaseOf e with
    | .ok o => (match MultiOp.c o m with | some o' => .ok o' | none => .refused)
    | b => b
  | .dgr e =>
    match build phaseOf e with
    | .ok o => .ok (MultiOp.dgr o)
    | b => b
  | .mul a b =>
    match build phaseOf a with
    | .ok oa => (match build phaseOf b with | .ok ob => .ok (MultiOp.mul oa ob) | r => r)
    | r => r

end OpExpr
end Qvnt
