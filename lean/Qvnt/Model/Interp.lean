/-
MODEL — the OpenQASM interpreter: `src/qasm/int/{mod,gates,macros,parse,ext_op,error}.rs`
and the runner `src/qasm/sym.rs`.

The model starts from the AST the real parser (`qvnt-qasm`, external) produced, and from
the RPN form of every parameter expression as produced by `meval`'s tokenizer and
shunting-yard (external): text → AST and text → RPN are not modelled (trusted base); the
evaluation of the RPN, everything the interpreter does with the AST, and the execution of
the resulting block queue are.

The gate-name table comes from `Qvnt/Generated/GateTable.lean`, regenerated from
`gates.rs` on every run.
-/
import Qvnt.Model.Reg
import Qvnt.Generated.GateTable
import Qvnt.Generated.Consts

namespace Qvnt

/-! ### parameter expressions (meval) -/

inductive BinOp | plus | minus | times | div | rem | pow
deriving Repr, DecidableEq
inductive UnOp | plus | minus
deriving Repr, DecidableEq

/-- `meval::tokenizer::Token` as it occurs in RPN output -/
inductive RpnTok (R : Type) where
  | num (x : R)
  | var (name : String)
  | bin (op : BinOp)
  | un (op : UnOp)
  | func (name : String) (nargs : Nat)
deriving Repr

/-- functions of the scalar type the evaluator needs (`f64` methods) -/
class ExprFns (R : Type) where
  pi : R
  pow : R → R → R
  rem : R → R → R
  sqrt : R → R
  exp : R → R
  ln : R → R
  abs : R → R
  floor : R → R
  ceil : R → R
  round : R → R
  atan2 : R → R → R
  max : R → R → R
  min : R → R → R
  negInf : R
  posInf : R

/-- `meval::FuncEvalError` -/
inductive FuncErr | tooFew | tooMany | numberArgs (n : Nat) | unknownFunction
deriving Repr, DecidableEq

/-- `meval::Error` (payloads of the parser errors are not modelled) -/
inductive EvalErr where
  | unknownVariable (name : String)
  | function (name : String) (e : FuncErr)
  | parseError
  | rpnError
deriving Repr, DecidableEq

/-- a parameter expression: its source text and what `expr.parse::<Expr>()` made of it -/
structure PExpr (R : Type) where
  text : String
  /-- `ok rpn`, or the parse / shunting-yard error -/
  rpn : Except EvalErr (List (RpnTok R))

section eval
variable {R : Type} [Add R] [Sub R] [Mul R] [Neg R] [Div R] [ExprFns R]

/-- `Context::eval_func` for the context installed by `parse.rs` -/
def evalFunc (name : String) (args : List R) : Except FuncErr R :=
  let one (f : R → R) : Except FuncErr R :=
    match args with | [x] => .ok (f x) | _ => .error (.numberArgs 1)
  match name with
  | "sqrt" => one ExprFns.sqrt
  | "exp" => one ExprFns.exp
  | "ln" => one ExprFns.ln
  | "abs" => one ExprFns.abs
  | "floor" => one ExprFns.floor
  | "ceil" => one ExprFns.ceil
  | "round" => one ExprFns.round
  | "atan2" => (match args with | [y, x] => .ok (ExprFns.atan2 y x) | _ => .error (.numberArgs 2))
  | "max" => (match args with | [] => .error .tooFew | _ => .ok (args.foldl ExprFns.max ExprFns.negInf))
  | "min" => (match args with | [] => .error .tooFew | _ => .ok (args.foldl ExprFns.min ExprFns.posInf))
  | _ => .error .unknownFunction

/-- variables: `pi` plus the bindings `ctx.var(var, value)` (later bindings win) -/
def lookupVar (vars : List (String × R)) (name : String) : Option R :=
  match (vars.reverse.find? (fun p => p.1 == name)) with
  | some p => some p.2
  | none => if name == "pi" then some ExprFns.pi else none

/-- `Expr::eval_with_context`; `none` in the stack discipline = a Rust panic, which the
shunting-yard's final verification rules out (returned as `rpnError` here) -/
def evalRpn (vars : List (String × R)) : List (RpnTok R) → List R → Except EvalErr R
  | [], [r] => .ok r
  | [], _ => .error .rpnError
  | .num x :: ts, st => evalRpn vars ts (x :: st)
  | .var n :: ts, st =>
    (match lookupVar vars n with
     | some v => evalRpn vars ts (v :: st)
     | none => .error (.unknownVariable n))
  | .bin op :: ts, right :: left :: st =>
    let r : R := match op with
      | .plus => left + right | .minus => left - right | .times => left * right
      | .div => left / right | .rem => ExprFns.rem left right | .pow => ExprFns.pow left right
    evalRpn vars ts (r :: st)
  | .bin _ :: _, _ => .error .rpnError
  | .un op :: ts, x :: st =>
    evalRpn vars ts ((match op with | .plus => x | .minus => -x) :: st)
  | .un _ :: _, _ => .error .rpnError
  | .func n k :: ts, st =>
    if st.length < k then .error .rpnError
    else
      match evalFunc n (st.take k).reverse with
      | .ok r => evalRpn vars ts (r :: st.drop k)
      | .error e => .error (.function n e)

/-- `parse::eval_extended(expr, vars)` -/
def evalExtended (e : PExpr R) (vars : List (String × R)) : Except EvalErr R :=
  match e.rpn with
  | .error err => .error err
  | .ok rpn => evalRpn vars rpn []

end eval

/-! ### AST (`qvnt-qasm`) -/

inductive Arg where
  | qubit (name : String) (idx : Nat)
  | register (name : String)
deriving Repr, DecidableEq

def Arg.name : Arg → String
  | .qubit n _ => n
  | .register n => n

/-- `ApplyGate(name, regs, args)` -/
structure Call (R : Type) where
  name : String
  regs : List Arg
  args : List (PExpr R)

/-- what can stand in a gate body or under `if`: a gate application, or anything else -/
inductive Inner (R : Type) where
  | call (c : Call R)
  | other

inductive Node (R : Type) where
  | qreg (name : String) (size : Nat)
  | creg (name : String) (size : Nat)
  | barrier
  | reset (a : Arg)
  | measure (q c : Arg)
  | apply (c : Call R)
  | opaque
  | gate (name : String) (regs : List String) (args : List String) (body : List (Inner R))
  | ifn (lhs : String) (rhs : Nat) (body : Inner R)

/-! ### errors -/

inductive MacroErr where
  | disallowedNodeInMacro
  | disallowedRegister (name : String) (idx : Nat)
  | unknownReg (name : String)
  | unknownArg (name : String)
  | recursiveMacro (name : String)
deriving Repr, DecidableEq

inductive IntError where
  | noQReg (name : String)
  | noCReg (name : String)
  | dupQReg (name : String) (n : Nat)
  | dupCReg (name : String) (n : Nat)
  | idxOutOfRange (name : String) (idx : Nat)
  | unknownGate (name : String)
  | invalidControlMask (ctrl act : Nat)
  | unevaluatedArgument (what : String) (e : EvalErr)
  | wrongRegNumber (name : String) (n : Nat)
  | wrongArgNumber (name : String) (n : Nat)
  | unmatchedRegSize (q c : Nat)
  | macroError (e : MacroErr)
  | macroAlreadyDefined (name : String)
  | disallowedNodeInIf
  | identIsTooLarge (name : String) (n : Nat)
  | registerIsTooLarge (name : String) (n : Nat)
deriving Repr, DecidableEq

/-! ### the block queue (`ext_op.rs`) -/

inductive Sep where
  | nop
  | measure (q c : Nat)
  | ifBranch (c v : Nat)
  | reset (q : Nat)
deriving Repr, DecidableEq

structure ExtOp (R : Type) where
  blocks : List (MultiOp R × Sep) := []
  tail : MultiOp R := []

namespace ExtOp
variable {R : Type}

/-- `Op::push` -/
def push (e : ExtOp R) (o : MultiOp R) : ExtOp R :=
  if e.tail.isEmpty then
    match e.blocks.getLast? with
    | some (last, .nop) => { e with blocks := e.blocks.dropLast ++ [(last ++ o, .nop)] }
    | _ => { e with tail := o }
  else { e with tail := e.tail ++ o }

/-- `Op::append` -/
def append (e other : ExtOp R) : ExtOp R :=
  let last := e.tail
  let blocks :=
    if !last.isEmpty then
      match e.blocks.getLast? with
      | some (l0, .nop) => e.blocks.dropLast ++ [(l0 ++ last, .nop)]
      | _ => e.blocks ++ [(last, .nop)]
    else e.blocks
  { blocks := blocks ++ other.blocks, tail := other.tail }

/-- `Int::branch` -/
def branch (e : ExtOp R) (sep : Sep) : ExtOp R :=
  if !e.tail.isEmpty then { blocks := e.blocks ++ [(e.tail, sep)], tail := [] } else { e with tail := [] }

/-- `Int::branch_with_id` -/
def branchWithId (e : ExtOp R) (sep : Sep) : ExtOp R :=
  { blocks := e.blocks ++ [(e.tail, sep)], tail := [] }

end ExtOp

/-! ### built-in gates (`gates.rs`) -/

/-- angle → half-angle phase, and the constants the constructors use -/
class AngleFns (R : Type) where
  /-- `(cos(θ/2), sin(θ/2))` -/
  halfPhase : R → Cx R
  /-- half-angle phase of `FRAC_PI_2` -/
  quarter : Cx R
  /-- half-angle phases of `PI * 0.5^j` -/
  qftPhase : Nat → Cx R

section gates
variable {R : Type} [Neg R] [AngleFns R]

open Generated in
/-- the constructor a table row is bound to; `none` models `expect`/`unwrap` panics -/
def ctorApply (ctor : String) (args : List R) (regs : Nat) : Option (MultiOp R) :=
  -- the arity of `args` was checked by the arm before the constructor is called
  let ph (i : Nat) : Cx R :=
    match args[i]? with
    | some a => AngleFns.halfPhase a
    | none => AngleFns.quarter
  match ctor with
  | "x" => some (Op.x regs)
  | "y" => some (Op.y regs)
  | "z" => some (Op.z regs)
  | "s" => some (Op.s regs)
  | "t" => some (Op.t regs)
  | "h" => Op.h regs
  | "qft" => Op.qft AngleFns.qftPhase regs
  | "rx" => Op.rx (ph 0) regs
  | "ry" => Op.ry (ph 0) regs
  | "rz" => Op.rz (ph 0) regs
  | "rxx" => Op.rxx (ph 0) regs
  | "ryy" => Op.ryy (ph 0) regs
  | "rzz" => Op.rzz (ph 0) regs
  | "swap" => Op.swap regs
  | "sqrt_swap" => Op.sqrtSwap regs
  | "i_swap" => Op.iSwap regs
  | "sqrt_i_swap" => Op.sqrtISwap regs
  | "u1" => Op.u1 (ph 0) regs
  | "u2" => Op.u2 AngleFns.quarter (ph 0) (ph 1) regs
  | "u3" => Op.u3 (ph 0) (ph 1) (ph 2) regs
  | _ => none

/-- outcome of `gates::process`: a value, an error value, or a panic -/
inductive Res (α : Type) where
  | ok (a : α)
  | err (e : IntError)
  | panic (site : String)

open Generated in
/-- one expanded `gate!` arm -/
def runArm (name : String) (row : Row) (regsL : List Nat) (args : List R) : Res (MultiOp R) :=
  let regs := regsL.foldl (· ||| ·) 0
  let build (o : Option (MultiOp R)) : Res (MultiOp R) :=
    match o with | some o => .ok o | none => .panic ("constructor " ++ row.ctor)
  match row.arm with
  | .any =>
    if regs = 0 then .err (.wrongRegNumber name 0)
    else if args.length ≠ 0 then .err (.wrongArgNumber name args.length)
    else build (ctorApply row.ctor args regs)
  | .dgr =>
    if regs = 0 then .err (.wrongRegNumber name 0)
    else if args.length ≠ 0 then .err (.wrongArgNumber name args.length)
    else match ctorApply row.ctor args regs with
      | some o => .ok (MultiOp.dgr o)
      | none => .panic ("constructor " ++ row.ctor)
  | .two =>
    if popcount regs ≠ 2 then .err (.wrongRegNumber name (popcount regs))
    else if args.length ≠ 0 then .err (.wrongArgNumber name args.length)
    else build (ctorApply row.ctor args regs)
  | .r n =>
    if popcount regs ≠ n then .err (.wrongRegNumber name (popcount regs))
    else if args.length ≠ 1 then .err (.wrongArgNumber name args.length)
    else build (ctorApply row.ctor args regs)
  | .u1 =>
    if popcount regs ≠ 1 then .err (.wrongRegNumber name (popcount regs))
    else if args.length ≠ 1 then .err (.wrongArgNumber name args.length)
    else build (ctorApply "u1" args regs)
  | .u2 =>
    if popcount regs ≠ 1 then .err (.wrongRegNumber name (popcount regs))
    else if args.length ≠ 2 then .err (.wrongArgNumber name args.length)
    else build (ctorApply "u2" args regs)
  | .u3 =>
    if popcount regs ≠ 1 then .err (.wrongRegNumber name (popcount regs))
    else if args.length ≠ 3 then .err (.wrongArgNumber name args.length)
    else build (ctorApply "u3" args regs)

/-- the characters of the name after the first (`&name[1..]`, the first being ASCII c/C) -/
def dropFirst (s : String) : String := String.ofList (s.toList.drop 1)

/-- `gates::process`; recursion on the length of the name -/
def Gates.process (name : String) (regs : List Nat) (args : List R) : Res (MultiOp R) :=
  go name.length name regs
where
  go : Nat → String → List Nat → Res (MultiOp R)
  | fuel, name, regs =>
    let first := name.toList.head?
    if name.utf8ByteSize > 1 && (first == some 'c' || first == some 'C') then
      match fuel, regs with
      | 0, _ => .panic "name-recursion"
      | _, [] => .err (.wrongRegNumber name 0)
      | fuel + 1, ctrl :: rest =>
        match go fuel (dropFirst name) rest with
        | .ok op =>
          let act := MultiOp.actOn op
          (match MultiOp.c op ctrl with
           | some o => .ok o
           | none => .err (.invalidControlMask ctrl act))
        | .err (.wrongRegNumber _ n) => .err (.wrongRegNumber name (1 + n))
        | .err (.wrongArgNumber _ n) => .err (.wrongArgNumber name n)
        | .err (.unknownGate _) => .err (.unknownGate name)
        | r => r
    else
      match Generated.gateTable.find? (fun row => row.lower == name || row.upper == name) with
      | some row => runArm name row regs args
      | none => .err (.unknownGate name)

end gates

/-! ### user-defined gates (`macros.rs`) -/

structure Macro (R : Type) where
  regs : List String
  args : List String
  nodes : List (Call R)

section macros
variable {R : Type} [Add R] [Sub R] [Mul R] [Neg R] [Div R] [ExprFns R] [AngleFns R]

/-- `Macro::new` -/
def Macro.new (regs args : List String) (body : List (Inner R)) : Except IntError (Macro R) :=
  let checkCall (c : Call R) : Except IntError Unit := do
    for ra in c.regs do
      match ra with
      | .qubit n i => throw (.macroError (.disallowedRegister n i))
      | .register n => if !regs.contains n then throw (.macroError (.unknownReg n))
    for a in c.args do
      match evalExtended a [] with
      | .error (.unknownVariable v) =>
        if !args.contains v then throw (.macroError (.unknownArg v))
      | .error (.function n e) => throw (.unevaluatedArgument a.text (.function n e))
      | .error .parseError => throw (.unevaluatedArgument a.text .parseError)
      | .error .rpnError => throw (.unevaluatedArgument a.text .rpnError)
      | .ok _ => pure ()
  let rec go : List (Inner R) → List (Call R) → Except IntError (List (Call R))
    | [], acc => .ok acc.reverse
    | .call c :: rest, acc =>
      match checkCall c with
      | .ok () => go rest (c :: acc)
      | .error e => .error e
    | .other :: _, _ => .error (.macroError .disallowedNodeInMacro)
  match go body [] with
  | .ok nodes => .ok ⟨regs, args, nodes⟩
  | .error e => .error e

/-- last binding of a formal wins (`HashMap` collected from a zip) -/
def lookupLast {α : Type} (l : List (String × α)) (k : String) : Option α :=
  (l.reverse.find? (fun p => p.1 == k)).map (·.2)

/-- `Macro::process_nested` (after the D14 repair). `fuel` bounds the nesting depth; with
the call stack check the depth never exceeds the number of defined gates, see Props/C12. -/
def Macro.process (macros : List (String × Macro R)) :
    Nat → Macro R → String → List Nat → List R → List String → Res (MultiOp R)
  | 0, _, _, _, _, _ => .panic "macro-depth"
  | fuel + 1, m, name, regs, args, stack =>
    if regs.length ≠ m.regs.length then .err (.wrongRegNumber name regs.length)
    else if args.length ≠ m.args.length then .err (.wrongArgNumber name args.length)
    else
      let regMap := m.regs.zip regs
      let argMap := m.args.zip args
      let step (acc : Res (MultiOp R)) (c : Call R) : Res (MultiOp R) :=
        match acc with
        | .ok op =>
          let regsI? := c.regs.mapM (fun a => lookupLast regMap a.name)
          match regsI? with
          | none => .panic "regs[&name]"
          | some regsI =>
            let rec evalArgs : List (PExpr R) → List R → Except EvalErr (List R)
              | [], acc => .ok acc.reverse
              | a :: as, acc =>
                match evalExtended a argMap with
                | .ok v => evalArgs as (v :: acc)
                | .error e => .error e
            match evalArgs c.args [] with
            | .error e => .err (.unevaluatedArgument c.name e)
            | .ok argsI =>
              let res : Res (MultiOp R) :=
                match macros.find? (fun p => p.1 == c.name) with
                | some (_, m') =>
                  if stack.contains c.name then .err (.macroError (.recursiveMacro c.name))
                  else Macro.process macros fuel m' c.name regsI argsI (stack ++ [c.name])
                | none => Gates.process c.name regsI argsI
              (match res with
               | .ok o => .ok (op ++ o)
               | r => r)
        | r => r
      m.nodes.foldl step (.ok [])

end macros

/-! ### the interpreter state (`int/mod.rs`) -/

inductive MeasureOp | set | xor
deriving Repr, DecidableEq

structure Interp (R : Type) where
  mOp : MeasureOp := .set
  /-- one entry per declared qubit: the alias of its register -/
  qReg : List String := []
  cReg : List String := []
  qOps : ExtOp R := {}
  macros : List (String × Macro R) := []
  /-- accepted source chunks, as node counts (the chunk texts are not state of the model) -/
  asts : List Nat := []

namespace Interp
variable {R : Type}

/-- `check_ident` -/
def checkIdent (alias : String) : Except IntError Unit :=
  if alias.utf8ByteSize ≥ Generated.identLimit then .error (.identIsTooLarge alias alias.utf8ByteSize)
  else .ok ()

/-- `check_reg_size` -/
def checkRegSize (alias : String) (n : Nat) : Except IntError Unit :=
  if n ≥ Generated.regSizeLimit then .error (.registerIsTooLarge alias n) else .ok ()

/-- `check_dup` -/
def checkDup (self changes : Interp R) (alias : String) : Except IntError Unit :=
  let cnt (l : List String) := (l.filter (· == alias)).length
  if cnt self.qReg > 0 then .error (.dupQReg alias (cnt self.qReg))
  else if cnt self.cReg > 0 then .error (.dupCReg alias (cnt self.cReg))
  else if cnt changes.qReg > 0 then .error (.dupQReg alias (cnt changes.qReg))
  else if cnt changes.cReg > 0 then .error (.dupCReg alias (cnt changes.cReg))
  else .ok ()

/-- `fold_idx_by_alias`: bit `idx` (shift amount taken modulo the word size) for every
position holding `alias` -/
def maskByAlias (l : List String) (alias : String) : Nat :=
  (l.zipIdx).foldl (fun acc (p : String × Nat) =>
    if p.1 == alias then acc ||| (1 <<< (p.2 % W)) else acc) 0

/-- `get_q_idx_with_context` / `get_c_idx_with_context` (`quantum` selects which) -/
def getIdx (self changes : Interp R) (quantum : Bool) (arg : Arg) : Except IntError Nat :=
  let l := if quantum then self.qReg ++ changes.qReg else self.cReg ++ changes.cReg
  let noReg (a : String) : IntError := if quantum then .noQReg a else .noCReg a
  match arg with
  | .qubit alias idx =>
    let mask := maskByAlias l alias
    if mask ≠ 0 then
      match (bitsIterList mask)[idx]? with
      | some b => .ok b
      | none => .error (.idxOutOfRange alias idx)
    else .error (noReg alias)
  | .register alias =>
    let mask := maskByAlias l alias
    if mask ≠ 0 then .ok mask else .error (noReg alias)

section proc
variable [Add R] [Sub R] [Mul R] [Neg R] [Div R] [ExprFns R] [AngleFns R]

/-- result of processing: new `changes`, an error value, or a panic -/
abbrev PRes (R : Type) := Res (Interp R)

/-- `process_apply_gate` -/
def processApply (self changes : Interp R) (c : Call R) : PRes R :=
  let rec regsOf : List Arg → List Nat → Except IntError (List Nat)
    | [], acc => .ok acc.reverse
    | a :: as, acc =>
      match getIdx self changes true a with
      | .ok m => regsOf as (m :: acc)
      | .error e => .error e
  match regsOf c.regs [] with
  | .error e => .err e
  | .ok regs =>
    let rec argsOf : List (PExpr R) → List R → Except IntError (List R)
      | [], acc => .ok acc.reverse
      | a :: as, acc =>
        match evalExtended a [] with
        | .ok v => argsOf as (v :: acc)
        | .error e => .error (.unevaluatedArgument a.text e)
    match argsOf c.args [] with
    | .error e => .err e
    | .ok args =>
      -- `macros = self.macros.clone(); macros.extend(changes.macros.clone())`
      let macros := self.macros ++ changes.macros
      let res : Res (MultiOp R) :=
        match lookupLast macros c.name with
        | some m => Macro.process macros (macros.length + 2) m c.name regs args [c.name]
        | none => Gates.process c.name regs args
      match res with
      | .ok o => .ok { changes with qOps := changes.qOps.push o }
      | .err e => .err e
      | .panic s => .panic s

/-- `process_node` -/
def processNode (self changes : Interp R) : Node R → PRes R
  | .qreg alias n =>
    match (do checkIdent alias; checkRegSize alias n
              checkRegSize alias (self.qReg.length + changes.qReg.length + n)
              checkDup self changes alias : Except IntError Unit) with
    | .ok () => .ok { changes with qReg := changes.qReg ++ List.replicate n alias }
    | .error e => .err e
  | .creg alias n =>
    match (do checkIdent alias; checkRegSize alias n
              checkRegSize alias (self.cReg.length + changes.cReg.length + n)
              checkDup self changes alias : Except IntError Unit) with
    | .ok () => .ok { changes with cReg := changes.cReg ++ List.replicate n alias }
    | .error e => .err e
  | .barrier => .ok changes
  | .opaque => .ok changes
  | .reset a =>
    match getIdx self changes true a with
    | .ok idx => .ok { changes with qOps := changes.qOps.branchWithId (.reset idx) }
    | .error e => .err e
  | .measure q c =>
    match getIdx self changes true q with
    | .error e => .err e
    | .ok qa =>
      match getIdx self changes false c with
      | .error e => .err e
      | .ok ca =>
        if popcount qa ≠ popcount ca then .err (.unmatchedRegSize (popcount qa) (popcount ca))
        else .ok { changes with qOps := changes.qOps.branchWithId (.measure qa ca) }
  | .apply c => processApply self changes c
  | .gate name regs args body =>
    match Macro.new regs args body with
    | .error e => .err e
    | .ok m =>
      if !(self.macros.any (·.1 == name)) && !(changes.macros.any (·.1 == name)) then
        match checkIdent name with
        | .ok () => .ok { changes with macros := changes.macros ++ [(name, m)] }
        | .error e => .err e
      else .err (.macroAlreadyDefined name)
  | .ifn lhs rhs body =>
    match body with
    | .call c =>
      -- process_if (after the D11 repair)
      let changes := { changes with qOps := changes.qOps.branch .nop }
      match getIdx self changes false (.register lhs) with
      | .error e => .err e
      | .ok val =>
        let before := changes.qOps
        match processApply self { changes with qOps := {} } c with
        | .ok ch' =>
          let guarded := ch'.qOps
          let q := if !guarded.tail.isEmpty then
                     { before with blocks := before.blocks ++ [(guarded.tail, .ifBranch val rhs)] }
                   else before
          .ok { ch' with qOps := q }
        | .err e => .err e
        | .panic s => .panic s
    | .other => .err .disallowedNodeInIf

/-! glue for the functions of `int/mod.rs` that tools/rs2lean2.py translates: the statements they hand on to
(`process_apply_gate`, `process_gate`, `process_if`, as long as those are mirrored by hand) with the Rust
parameter lists, and `Result` as `Except` (a panic outcome of the model, which Props/C12 shows unreachable, is
carried along as an error value that no Rust error maps to) -/

def _root_.Qvnt.Res.toE {α : Type} : Res α → Except IntError α
  | .ok a => .ok a
  | .err e => .error e
  | .panic s => .error (.unknownGate ("<panic> " ++ s))

/-- `gates::process` (mirrored by hand above, table and arms tied by tools/extract.py) as a `Result` -/
def _root_.Qvnt.Gates.processE (name : String) (regs : List Nat) (args : List R) : Except IntError (MultiOp R) :=
  (Gates.process name regs args).toE

/-- `Macro::process(&self, name, regs, args, &macros)` (mirrored by hand above, text tied by tools/canon.py) as a
`Result`: the expansion starts with the call stack `[name]`; the model's fuel is the number of definitions + 2 -/
def _root_.Qvnt.Macro.processE (m : Macro R) (name : String) (regs : List Nat) (args : List R)
    (macros : List (String × Macro R)) : Except IntError (MultiOp R) :=
  (Macro.process macros (macros.length + 2) m name regs args [name]).toE

/-- `parse::eval_extended(arg, None).map_err(|e| Error::UnevaluatedArgument(arg, e))` -/
def evalArg (arg : PExpr R) : Except IntError R :=
  match evalExtended arg [] with
  | .ok v => .ok v
  | .error e => .error (.unevaluatedArgument arg.text e)

/-- a Rust panic inside a function that returns `Result` (slice / map indexing): carried like `Res.toE` carries the
model's `panic` outcome -/
def panicErr (site : String) : IntError := .unknownGate ("<panic> " ++ site)

def orPanic {α : Type} (site : String) : Option α → Except IntError α
  | some a => .ok a
  | none => .error (panicErr site)

/-- `args_i.iter().cloned().map(|a| parse::eval_extended(a, vars.clone())).collect::<parse::Result<Vec<_>>>()
.map_err(|e| Error::UnevaluatedArgument(name, e))`: the first failing expression decides -/
def evalArgsWith (name : String) (vars : List (String × R)) (l : List (PExpr R)) : Except IntError (List R) :=
  match l.mapM (fun a => evalExtended a vars) with
  | .ok v => .ok v
  | .error e => .error (.unevaluatedArgument name e)

def extApplyGate (self changes : Interp R) (name : String) (regs : List Arg) (args : List (PExpr R)) :
    Except IntError (Interp R) := (processApply self changes ⟨name, regs, args⟩).toE

def extGate (self changes : Interp R) (name : String) (regs args : List String) (nodes : List (Inner R)) :
    Except IntError (Interp R) := (processNode self changes (.gate name regs args nodes)).toE

def extIf (self changes : Interp R) (lhs : String) (rhs : Nat) (ifBlock : Inner R) :
    Except IntError (Interp R) := (processNode self changes (.ifn lhs rhs ifBlock)).toE

/-- `process_nodes`: stops at the first error -/
def processNodes (self changes : Interp R) : List (Node R) → PRes R
  | [] => .ok changes
  | n :: ns =>
    match processNode self changes n with
    | .ok ch => processNodes self ch ns
    | r => r

/-- `ast_changes` -/
def astChanges (self changes : Interp R) (ast : List (Node R)) : PRes R :=
  match processNodes self changes ast with
  | .ok ch => .ok { ch with asts := ch.asts ++ [ast.length] }
  | r => r

/-- `append_int` (after the D18 repair) -/
def appendInt (self int : Interp R) : Interp R :=
  { mOp := self.mOp,
    qReg := self.qReg ++ int.qReg,
    cReg := self.cReg ++ int.cReg,
    qOps := self.qOps.append int.qOps,
    -- `HashMap::extend`: later entries replace earlier ones with the same key
    macros := (self.macros.filter (fun p => !(int.macros.any (·.1 == p.1)))) ++ int.macros,
    asts := self.asts ++ int.asts }

/-- `prepend_int` -/
def prependInt (self int : Interp R) : Interp R := appendInt int self

/-- `add_ast` (after the D19 repair): `ok` carries the new session, an error leaves the
session as it was -/
def addAst (self : Interp R) (ast : List (Node R)) : PRes R :=
  match astChanges self {} ast with
  | .ok ch => .ok (appendInt self ch)
  | r => r

/-- `Int::new` -/
def new (ast : List (Node R)) : PRes R := addAst {} ast

/-- `Int::xor` -/
def xor (self : Interp R) : Interp R := { self with mOp := .xor }

end proc
end Interp

/-! ### execution (`sym.rs`) -/

structure Sym (R : Type) where
  mOp : MeasureOp
  qReg : QReg R
  cReg : CReg
  qOps : ExtOp R

namespace Sym
variable {R : Type}

section basic
variable [Zero R] [One R]

/-- `Sym::new` -/
def new (int : Interp R) : Sym R :=
  ⟨int.mOp, QReg.new int.qReg.length, CReg.new int.cReg.length, int.qOps⟩

/-- `Sym::reset` -/
def reset (s : Sym R) : Sym R := { s with qReg := s.qReg.reset 0, cReg := s.cReg.reset 0 }

end basic

/-- the classical update of a measurement: pair the bits of `qArg` with those of `cArg` -/
def storeBits (mOp : MeasureOp) (c : CReg) (value qArg cArg : Nat) : CReg :=
  ((bitsIterList qArg).zip (bitsIterList cArg)).foldl (fun c (p : Nat × Nat) =>
    match mOp with
    | .set => c.set (value &&& p.1 ≠ 0) p.2
    | .xor => c.xor (value &&& p.1 ≠ 0) p.2) c

section run
variable [Add R] [Sub R] [Mul R] [Neg R] [Zero R] [One R] [Div R] [Consts R]
  [LE R] [DecidableLE R] [LT R] [DecidableLT R] [HasSqrt R] [RegConsts R]

/-- does `measure_mask(mask)` draw? -/
def draws (q : QReg R) (mask : Nat) : Bool := mask &&& q.qMask ≠ 0

/-- `Sym::finish`. `draws` is the stream of basis indices drawn by the measurements, in
order; `none` = the stream ran out (cannot happen when it is the implementation's log). -/
def finish (s : Sym R) (drawn : List Nat) : Option (Sym R × List Nat) :=
  let stepBlock (st : Option (Sym R × List Nat)) (b : MultiOp R × Sep) : Option (Sym R × List Nat) :=
    match st with
    | none => none
    | some (s, drawn) =>
      match b.2 with
      | .nop => some ({ s with qReg := s.qReg.apply b.1 }, drawn)
      | .measure qa ca =>
        let q := s.qReg.apply b.1
        if Sym.draws q qa then
          match drawn with
          | [] => none
          | d :: ds =>
            let (q', c) := q.measureMask qa d
            some ({ s with qReg := q', cReg := storeBits s.mOp s.cReg c.value qa ca }, ds)
        else
          let (q', c) := q.measureMask qa 0
          some ({ s with qReg := q', cReg := storeBits s.mOp s.cReg c.value qa ca }, drawn)
      | .ifBranch c v =>
        if s.cReg.getByMask c = v then some ({ s with qReg := s.qReg.apply b.1 }, drawn)
        else some (s, drawn)
      | .reset qm =>
        let q := s.qReg.apply b.1
        if qm &&& q.qMask = q.qMask then some ({ s with qReg := q.resetByMask qm 0 }, drawn)
        else if Sym.draws q qm then
          match drawn with
          | [] => none
          | d :: ds => some ({ s with qReg := q.resetByMask qm d }, ds)
        else some ({ s with qReg := q.resetByMask qm 0 }, drawn)
  match s.qOps.blocks.foldl stepBlock (some (s, drawn)) with
  | none => none
  | some (s', rest) => some ({ s' with qReg := s'.qReg.apply s'.qOps.tail }, rest)

end run
end Sym

end Qvnt
