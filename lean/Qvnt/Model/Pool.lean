/-
MODEL — the shared thread pool of `src/threads.rs` as a transition system (C19), and the
schedule-independence of an element-wise parallel fill (C08).

`global_install(n, op)` after the D20 repair:

    1. size  := { read-lock;  read the stored size;          unlock }
    2. if size ≠ Some n: { write-lock; replace the pool by a fresh one of size n; unlock }
    3. pool  := { read-lock;  clone the Arc<ThreadPool>;     unlock }
    4. pool.install(op)            -- no lock held; returns when `op` has run

A caller may be a worker of the user's own rayon pool. While such a worker waits inside
`install` it may pick up another pending task of its own pool, i.e. start a new
`global_install` *on the same OS thread* before the first returns: modelled as a stack of
frames per thread (only a frame waiting in `install` can have a frame pushed on top).
`std::sync::RwLock`: any number of readers xor one writer, not re-entrant; which waiting
acquirer gets the lock is arbitrary (the step relation allows any enabled step).

`holdAcross := true` models the code BEFORE the repair (the read guard of step 3 is kept
until `install` returns); it is used only to show that the model can express the deadlock.
-/
namespace Qvnt.Pool

/-- program counter of one `global_install` call -/
inductive Pc where
  /-- about to take the read lock for step 1 -/
  | start
  /-- holds the read lock of step 1 -/
  | reading1
  /-- step 1 done, stored size differed: about to take the write lock -/
  | wantWrite
  /-- holds the write lock of step 2 -/
  | writing
  /-- about to take the read lock of step 3 -/
  | wantPool
  /-- holds the read lock of step 3 -/
  | reading3
  /-- inside `install`, `work` units of the job still to run; no lock held (after the repair) -/
  | installing (work : Nat)
  | done
deriving Repr, DecidableEq

structure Frame where
  /-- requested thread count -/
  want : Nat
  pc : Pc
  /-- units of work of the job `op` -/
  job : Nat
deriving Repr, DecidableEq

/-- does this frame hold the read lock / the write lock? -/
def Frame.holdsRead (holdAcross : Bool) (f : Frame) : Bool :=
  match f.pc with
  | .reading1 | .reading3 => true
  | .installing _ => holdAcross
  | _ => false

def Frame.holdsWrite (f : Frame) : Bool :=
  match f.pc with
  | .writing => true
  | _ => false

structure State where
  /-- size of the stored pool, `none` before first use -/
  pool : Option Nat
  /-- per caller thread: its stack of frames, innermost (top) first -/
  threads : List (List Frame)
  /-- tasks of the callers' own pools not yet started: (thread that may run it, want, job) -/
  pending : List (Nat × Nat × Nat)
deriving Repr, DecidableEq

def State.frames (s : State) : List Frame := s.threads.flatten

def State.readers (h : Bool) (s : State) : Nat := (s.frames.filter (Frame.holdsRead h)).length
def State.writers (s : State) : Nat := (s.frames.filter Frame.holdsWrite).length

/-- the lock discipline of `RwLock` -/
def State.LockOK (h : Bool) (s : State) : Prop :=
  s.writers ≤ 1 ∧ (s.writers = 1 → s.readers h = 0)

def canRead (h : Bool) (s : State) : Bool := s.writers == 0
def canWrite (h : Bool) (s : State) : Bool := s.writers == 0 && s.readers h == 0

/-- one step of the top frame of a thread; `none` = this frame cannot move now -/
def stepFrame (h : Bool) (s : State) (f : Frame) : Option (Frame × Option Nat) :=
  -- result: new frame, and possibly a new stored pool size
  match f.pc with
  | .start => if canRead h s then some ({ f with pc := .reading1 }, none) else none
  | .reading1 =>
    some ({ f with pc := if s.pool == some f.want then .wantPool else .wantWrite }, none)
  | .wantWrite => if canWrite h s then some ({ f with pc := .writing }, none) else none
  | .writing => some ({ f with pc := .wantPool }, some f.want)
  | .wantPool => if canRead h s then some ({ f with pc := .reading3 }, none) else none
  | .reading3 => some ({ f with pc := .installing f.job }, none)
  | .installing 0 => some ({ f with pc := .done }, none)
  | .installing (w + 1) => some ({ f with pc := .installing w }, none)
  | .done => none

def setAt {α : Type} (l : List α) (i : Nat) (x : α) : List α := l.set i x

/-- the labelled step relation -/
inductive Step (h : Bool) : State → State → Prop where
  /-- the top frame of thread `t` moves -/
  | top (s : State) (t : Nat) (f f' : Frame) (rest : List Frame) (p : Option Nat)
      (ht : s.threads[t]? = some (f :: rest))
      (hs : stepFrame h s f = some (f', p)) :
      Step h s { s with threads := s.threads.set t (f' :: rest),
                         pool := match p with | some n => some n | none => s.pool }
  /-- a finished frame returns -/
  | pop (s : State) (t : Nat) (f : Frame) (rest : List Frame)
      (ht : s.threads[t]? = some (f :: rest)) (hd : f.pc = .done) :
      Step h s { s with threads := s.threads.set t rest }
  /-- a thread that is idle, or waiting inside `install`, starts a pending task of its pool -/
  | spawn (s : State) (t want job : Nat) (stack : List Frame) (pre post : List (Nat × Nat × Nat))
      (ht : s.threads[t]? = some stack)
      (hw : stack = [] ∨ ∃ f rest w, stack = f :: rest ∧ f.pc = .installing w)
      (hp : s.pending = pre ++ (t, want, job) :: post) :
      Step h s { s with threads := s.threads.set t (⟨want, .start, job⟩ :: stack),
                         pending := pre ++ post }

/-- reachable from a state where nobody is inside `global_install` -/
inductive Reachable (h : Bool) : State → Prop where
  | init (pool : Option Nat) (n : Nat) (pending : List (Nat × Nat × Nat))
      (hp : ∀ p ∈ pending, p.1 < n) :
      Reachable h ⟨pool, List.replicate n [], pending⟩
  | step {s s' : State} : Reachable h s → Step h s s' → Reachable h s'

/-- everything has returned and nothing is pending -/
def AllDone (s : State) : Prop := s.frames = [] ∧ s.pending = []

/-! ### Trace conformance: the event log of `threads.rs` replayed through the transition system

Under `--cfg qvnt_verif` the lock and the pool of `src/threads.rs` are logging stand-ins
(`verif::pool` in /repo): every acquisition / release of the `RwLock`, every entry of
`global_install` and every `install` is recorded, with the thread it happened on, in the order
it happened. `replay` checks that such a log is a run of `Step false` from an initial state in
which nobody is inside `global_install` (`replay_sound`, Lemmas/PoolTrace.lean), i.e. that the
implementation was only ever seen in states the C19 theorems speak about. -/

/-- one logged event -/
inductive Ev where
  /-- `global_install(want, ..)` entered -/
  | call (want : Nat)
  /-- read lock acquired -/
  | readAcq
  /-- read lock released; `seen` = size of the stored pool while it was held -/
  | readRel (seen : Option Nat)
  /-- write lock acquired -/
  | writeAcq
  /-- write lock released; `size` = size of the pool stored now -/
  | writeRel (size : Option Nat)
  /-- `pool.install(op)` entered -/
  | installBegin
  /-- `pool.install(op)` returned -/
  | installEnd
deriving Repr, DecidableEq

/-- zero or more steps -/
inductive Steps (h : Bool) : State → State → Prop where
  | refl (s : State) : Steps h s s
  | tail {s s' s'' : State} : Steps h s s' → Step h s' s'' → Steps h s s''

/-- does the event explain the move `pc → pc'` of a frame? -/
def evMatches : Ev → Pc → Pc → Bool
  | .readAcq, .start, .reading1 => true
  | .readAcq, .wantPool, .reading3 => true
  | .readRel _, .reading1, .wantPool => true
  | .readRel _, .reading1, .wantWrite => true
  | .readRel _, .reading3, .installing _ => true
  | .writeAcq, .wantWrite, .writing => true
  | .writeRel _, .writing, .wantPool => true
  | _, _, _ => false

/-- what the event shows of the stored pool agrees with the model's -/
def evPayloadOK (s : State) (f : Frame) : Ev → Bool
  | .readRel seen => seen == s.pool
  | .writeRel size => size == some f.want
  | _ => true

/-- remove the first occurrence -/
def removeFirst (x : Nat × Nat × Nat) : List (Nat × Nat × Nat) → Option (List (Nat × Nat × Nat) × List (Nat × Nat × Nat))
  | [] => none
  | y :: ys => if y = x then some ([], ys) else
      match removeFirst x ys with
      | some (pre, post) => some (y :: pre, post)
      | none => none

def isInstalling : Pc → Bool
  | .installing _ => true
  | _ => false

/-- replay one event of thread `t`; `none` = the transition system cannot do that here -/
def applyEv (s : State) (t : Nat) (e : Ev) : Option State :=
  match e with
  | .call want =>
    match s.threads[t]? with
    | none => none
    | some stack =>
      let free := match stack with
        | [] => true
        | f :: _ => isInstalling f.pc
      if free then
        match removeFirst (t, want, 0) s.pending with
        | some (pre, post) =>
          some { s with threads := s.threads.set t (⟨want, .start, 0⟩ :: stack), pending := pre ++ post }
        | none => none
      else none
  | .installBegin =>
    match s.threads[t]? with
    | some (f :: _) => if isInstalling f.pc then some s else none
    | _ => none
  | .installEnd =>
    match s.threads[t]? with
    | some (f :: rest) =>
      if f.pc = .installing 0 then some { s with threads := s.threads.set t rest } else none
    | _ => none
  | e =>
    match s.threads[t]? with
    | some (f :: rest) =>
      match stepFrame false s f with
      | some (f', p) =>
        if evMatches e f.pc f'.pc && evPayloadOK s f e then
          some { s with threads := s.threads.set t (f' :: rest),
                         pool := match p with | some n => some n | none => s.pool }
        else none
      | none => none
    | _ => none

/-- replay a log; `.error i` = event number `i` is not a move of the transition system -/
def replay (s : State) : List (Nat × Ev) → Nat → Except Nat State
  | [], _ => .ok s
  | (t, e) :: rest, i =>
    match applyEv s t e with
    | some s' => replay s' rest (i + 1)
    | none => .error i

/-- the calls of a log, as the pending tasks of the initial state -/
def pendingOf : List (Nat × Ev) → List (Nat × Nat × Nat)
  | [] => []
  | (t, .call want) :: rest => (t, want, 0) :: pendingOf rest
  | _ :: rest => pendingOf rest

/-- the initial state a log is replayed from: `n` idle threads, the stored pool as it was,
every call of the log pending -/
def initOf (pool : Option Nat) (n : Nat) (log : List (Nat × Ev)) : State :=
  ⟨pool, List.replicate n [], pendingOf log⟩

/-- the whole check: every thread index is below `n`, the log is a run, and at its end every
call has returned -/
def conforms (pool : Option Nat) (n : Nat) (log : List (Nat × Ev)) : Bool :=
  log.all (fun p => p.1 < n) &&
  match replay (initOf pool n log) log 0 with
  | .ok s => s.threads.flatten.isEmpty && s.pending.isEmpty
  | .error _ => false

/-! ### C08: an element-wise fill does not depend on the schedule -/

/-- run the closure for the indices in the order `σ` (any split / steal order) -/
def fillSched {α : Type} (f : Nat → α) (σ : List Nat) (out : Array α) : Array α :=
  σ.foldl (fun out i => out.setIfInBounds i (f i)) out

/-- a reduction tree over the leaves of a sum -/
inductive Tree (α : Type) where
  | leaf (x : α)
  | node (l r : Tree α)

def Tree.leaves {α : Type} : Tree α → List α
  | .leaf x => [x]
  | .node l r => l.leaves ++ r.leaves

def Tree.sum {α : Type} [Add α] : Tree α → α
  | .leaf x => x
  | .node l r => l.sum + r.sum

/-- `QReg::num_threads`: `none` = refused; `some 0` = Single, `some k` = Multi(k) -/
def numThreads (k avail : Nat) : Option Nat :=
  if k = 0 || k > avail then none else if k = 1 then some 0 else some k

/-- `threading::Model::and` on that encoding -/
def modelAnd (a b : Nat) : Nat := if a = 0 then b else if b = 0 then a else max a b

end Qvnt.Pool
