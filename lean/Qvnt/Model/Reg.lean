/-
MODEL — registers: `src/register/quant.rs` (QReg), `src/register/class.rs` (CReg),
`src/register/virtl.rs` (VReg).

The amplitude buffer is an `Array`; its length is `max (2^n) 8` (`MIN_BUFFER_LEN`). The
threading model field `th` is not part of the state: by the rayon contract every parallel
loop computes the same element-wise function as its sequential twin (property C08).
Random draws are *inputs*: `measureMask` takes the drawn basis index, `sampleAll` the
standard-normal draws.
-/
import Qvnt.Model.Op

namespace Qvnt

/-- `MIN_BUFFER_LEN` -/
def minBufferLen : Nat := 8

class HasSqrt (R : Type) where
  sqrt : R → R

/-- literals of `normalize` -/
class RegConsts (R : Type) where
  /-- `1e-15` -/
  tiny : R
  /-- `1e-9` -/
  close : R

/-- read view of a buffer: out-of-range reads (a Rust panic) give 0 -/
def bufFn {R : Type} [Zero R] (a : Array (Cx R)) : State R := fun i => a.getD i 0

section arr
variable {R : Type} [Add R] [Sub R] [Mul R] [Neg R] [Zero R] [Consts R]

/-- `SingleOp::apply(&psi_i, &mut psi_o)`: fills an output buffer of the same length. -/
def SingleOp.applyArr (g : SingleOp R) (a : Array (Cx R)) : Array (Cx R) :=
  Array.ofFn (n := a.size) (fun i => g.apply (bufFn a) i.val)

/-- `MultiOp::apply` on buffers: one full sweep per queue element, in queue order. -/
def MultiOp.applyArr (o : MultiOp R) (a : Array (Cx R)) : Array (Cx R) :=
  o.foldl (fun a g => g.applyArr a) a

end arr

structure QReg (R : Type) where
  psi : Array (Cx R)
  qNum : Nat
  qMask : Nat
deriving Repr

structure CReg where
  value : Nat
  qNum : Nat
  qMask : Nat
deriving Repr, DecidableEq

namespace CReg

/-- `mask_of` (after the D7 repair) -/
def maskOf (n : Nat) : Nat := if n ≥ W then 2 ^ W - 1 else 2 ^ n - 1

/-- `CReg::with_state` -/
def withState (n s : Nat) : CReg := ⟨s &&& maskOf n, n, maskOf n⟩
/-- `CReg::new` -/
def new (n : Nat) : CReg := withState n 0
/-- `CReg::set_num` -/
def setNum (c : CReg) (n : Nat) : CReg := ⟨c.value &&& maskOf n, n, maskOf n⟩
/-- `CReg::reset` -/
def reset (c : CReg) (i : Nat) : CReg := { c with value := i &&& c.qMask }
/-- `!mask` on a machine word -/
def notW (m : Nat) : Nat := (2 ^ W - 1) ^^^ (m % 2 ^ W)
/-- `CReg::set` -/
def set (c : CReg) (bit : Bool) (mask : Nat) : CReg :=
  if bit then { c with value := c.value ||| mask } else { c with value := c.value &&& notW mask }
/-- `CReg::xor` -/
def xor (c : CReg) (bit : Bool) (mask : Nat) : CReg :=
  if bit then { c with value := c.value ^^^ mask } else c
/-- `CReg::tensor_prod` (`<<` on a machine word; shifts of 64 or more panic in Rust and are
outside the model) -/
def tensorProd (a b : CReg) : CReg :=
  withState (a.qNum + b.qNum) (a.value ||| ((b.value <<< a.qNum) % 2 ^ W))
/-- `CReg::get` -/
def get (c : CReg) : Nat := c.value
/-- `CReg::get_by_mask`: gather the bits selected by `mask` into the low positions -/
def getByMask (c : CReg) (mask : Nat) : Nat :=
  let bits := bitsIterList (mask &&& c.qMask)
  (bits.zipIdx).foldl (fun acc (p : Nat × Nat) =>
    if c.value &&& p.1 ≠ 0 then acc ||| (1 <<< p.2) else acc) 0
/-- `impl Debug for CReg` -/
def debug (c : CReg) : String :=
  let digits := (bitsIterList c.qMask).foldl (fun s i =>
    (if i &&& c.value = 0 then "0" else "1") ++ s) ""
  "(" ++ digits ++ ")"

end CReg

/-- `VReg(Ptr<N>, Vec<N>)`: only the vector of single-bit masks is state. -/
structure VReg where
  bits : List Nat
deriving Repr, DecidableEq

namespace VReg
/-- `VReg::new_with_mask` / `From<N>` -/
def ofMask (m : Nat) : VReg := ⟨bitsIterList m⟩
/-- `VReg::new` (after the D7 repair) -/
def new (n : Nat) : VReg := ofMask (CReg.maskOf n)
/-- `Index<N>`: `none` = index out of bounds (panic) -/
def idx (v : VReg) (i : Nat) : Option Nat := v.bits[i]?
/-- `Index<F: Fn(N) -> bool>` -/
def idxBy (v : VReg) (f : Nat → Bool) : Nat :=
  (v.bits.zipIdx).foldl (fun acc (p : Nat × Nat) => if f p.2 then acc ||| p.1 else acc) 0
/-- `Index<[N; X]>` -/
def idxList (v : VReg) (l : List Nat) : Nat := v.idxBy (fun i => l.contains i)
/-- `Index<RangeFull>` -/
def idxAll (v : VReg) : Nat := v.idxBy (fun _ => true)
end VReg

namespace QReg
variable {R : Type}

section basic
variable [Zero R] [One R]

/-- buffer with a single 1 -/
def basisBuf (len s : Nat) : Array (Cx R) :=
  Array.ofFn (n := len) (fun i => if i.val = s then 1 else 0)

/-- `QReg::new` -/
def new (n : Nat) : QReg R := ⟨basisBuf (max (2 ^ n) minBufferLen) 0, n, 2 ^ n - 1⟩

/-- `QReg::with_state` -/
def withState (n s : Nat) : QReg R :=
  ⟨basisBuf (max (2 ^ n) minBufferLen) (s &&& (2 ^ n - 1)), n, 2 ^ n - 1⟩

/-- `QReg::reset` -/
def reset (r : QReg R) (i : Nat) : QReg R :=
  { r with psi := basisBuf r.psi.size (r.qMask &&& i) }

/-- `Vec::resize(len, C_ZERO)` -/
def resizeBuf (a : Array (Cx R)) (len : Nat) : Array (Cx R) :=
  Array.ofFn (n := len) (fun i => a.getD i.val 0)

/-- `QReg::set_num` (after the D3 repair) -/
def setNum (r : QReg R) (n : Nat) : QReg R :=
  let shrink := decide (n < r.qNum)
  let r' : QReg R := ⟨resizeBuf r.psi (max (2 ^ n) minBufferLen), n, 2 ^ n - 1⟩
  if shrink then r'.reset 0 else r'

/-- `QReg::get_vreg` -/
def getVReg (r : QReg R) : VReg := VReg.ofMask r.qMask

/-- `QReg::get_vreg_by` -/
def getVRegBy (r : QReg R) (mask : Nat) : Option VReg :=
  if mask &&& CReg.notW r.qMask ≠ 0 then none else some (VReg.ofMask mask)

/-- `QReg::collapse_mask` -/
def collapseMask (r : QReg R) (idy mask : Nat) : QReg R :=
  { r with psi := Array.ofFn (n := r.psi.size) (fun i =>
      if (i.val ^^^ idy) &&& mask ≠ 0 then 0 else r.psi.getD i.val 0) }

end basic

section arith
variable [Add R] [Sub R] [Mul R] [Neg R] [Zero R] [One R] [Consts R]

/-- `QReg::apply` with a product operator -/
def apply (r : QReg R) (o : MultiOp R) : QReg R := { r with psi := o.applyArr r.psi }

/-- `QReg::tensor_prod` / `Mul` -/
def tensorProd (a b : QReg R) : QReg R :=
  let n := a.qNum + b.qNum
  let size := 2 ^ n
  ⟨Array.ofFn (n := max size minBufferLen) (fun i =>
      if i.val < size then
        a.psi.getD (i.val &&& a.qMask) 0 * b.psi.getD ((i.val >>> a.qNum) &&& b.qMask) 0
      else 0),
   n, size - 1⟩

/-- `QReg::get_absolute`: sum of `norm_sqr` over the whole buffer -/
def getAbsolute (r : QReg R) : R := r.psi.foldl (fun acc z => acc + z.normSq) 0

variable [Div R]

/-- `QReg::get_probabilities` -/
def getProbabilities (r : QReg R) : List R :=
  let inv : R := 1 / r.getAbsolute
  (List.range (2 ^ r.qNum)).map (fun i => (r.psi.getD i 0).normSq * inv)

variable [LE R] [DecidableLE R] [LT R] [DecidableLT R] [HasSqrt R] [RegConsts R]

/-- `QReg::normalize` -/
def normalize (r : QReg R) : QReg R :=
  let norm := HasSqrt.sqrt r.getAbsolute
  if norm ≤ RegConsts.tiny then r.reset 0
  else if (1 : R) - norm ≤ RegConsts.close then r
  else
    let inv : R := 1 / norm
    { r with psi := r.psi.map (fun v => v.scale inv) }

/-- `QReg::rescale`: divide by the norm; a zero vector (or a NaN norm) is left alone -/
def rescale (r : QReg R) : QReg R :=
  let norm := HasSqrt.sqrt r.getAbsolute
  if (0 : R) < norm then
    let inv : R := 1 / norm
    { r with psi := r.psi.map (fun v => v.scale inv) }
  else r

/-- `QReg::measure_mask` (after the D2 repair); `randIdx` is the basis index drawn by
`WeightedIndex` (an input of the model). Returns the new register and the classical one. -/
def measureMask (r : QReg R) (mask randIdx : Nat) : QReg R × CReg :=
  let mask := mask &&& r.qMask
  if mask = 0 then (r, CReg.new r.qNum)
  else ((r.collapseMask randIdx mask).rescale, CReg.withState r.qNum (randIdx &&& mask))

/-- `QReg::reset_by_mask` (after the D12 repair): measure the named qubits (`randIdx` is the
drawn basis index) and flip those found in `|1>`; naming every qubit resets the register. -/
def resetByMask (r : QReg R) (mask randIdx : Nat) : QReg R :=
  if mask &&& r.qMask = r.qMask then r.reset 0
  else
    let (r', c) := r.measureMask mask randIdx
    if c.value ≠ 0 then r'.apply (Op.x c.value) else r'

end arith

/-! ### `sample_all`

Split in two stages. Stage 1 (floating point): the rounded Gaussian proposal
`n₀[idx] = max(round(c·p + √c·(g − (Σg)·p)), 0)`. Stage 2 (integers only): the correction
pass that makes the total exact. Stage 2 is what C16 is about and is modelled exactly;
stage 1 is executed at `Float` by the driver. -/

/-- `Ordering::Less` branch (after the D4/D5 repair): `deficit` missing shots go to the
cells with non-zero probability (`pos[i]`), `deficit / support` each and one more to the
first `deficit % support` of them. -/
def addDeficit (n : List Nat) (pos : List Bool) (deficit : Nat) : List Nat :=
  let support := max (pos.filter id).length 1
  let each := deficit / support
  let extra := deficit % support
  let rec go : List Nat → List Bool → Nat → List Nat
    | x :: xs, true :: ps, k => (x + each + (if k < extra then 1 else 0)) :: go xs ps (k + 1)
    | x :: xs, false :: ps, k => x :: go xs ps k
    | xs, [], _ => xs
    | [], _, _ => []
  go n pos 0

/-- `Ordering::Greater` branch: walk `idx = 0, 1, 2, …`, cell `idx & q_mask`, skipping
empty cells, until `surplus` shots are removed. Fuel bounds the walk. -/
def removeSurplus (qMask : Nat) : Nat → Nat → Nat → List Nat → Option (List Nat)
  | _, _, 0, n => some n
  | 0, _, _ + 1, _ => none
  | fuel + 1, idx, surplus + 1, n =>
    let cell := idx &&& qMask
    match n[cell]? with
    | none => none                      -- index out of bounds: panic
    | some 0 => removeSurplus qMask fuel (idx + 1) (surplus + 1) n
    | some (v + 1) => removeSurplus qMask fuel (idx + 1) surplus (n.set cell v)

/-- stage 2 of `sample_all`: `n0` the rounded proposal, `pos[i] = (p[i] > 0)`. -/
def sampleFix (qMask : Nat) (n0 : List Nat) (pos : List Bool) (count : Nat) : Option (List Nat) :=
  let total := n0.sum
  if total < count then some (addDeficit n0 pos (count - total))
  else if total > count then
    removeSurplus qMask ((total - count) * (n0.length + 1) + n0.length + 1) 0 (total - count) n0
  else some n0

/-- numeric conversions used by stage 1 of `sample_all` -/
class HasRound (R : Type) where
  /-- `count as R` -/
  ofNat : Nat → R
  /-- `x.round() as Z` (half away from zero, saturating) -/
  roundInt : R → Int

section proposal
variable {R : Type} [Add R] [Sub R] [Mul R] [Neg R] [Zero R] [One R] [Div R] [HasSqrt R] [HasRound R]
  [LT R] [DecidableLT R]

/-- stage 1 of `sample_all`: `p` the reported probabilities, `g` the standard-normal draws -/
def sampleProposal (p : List R) (count : Nat) (g : List R) : List Nat :=
  let c : R := HasRound.ofNat count
  let cSqrt := HasSqrt.sqrt c
  let n : List R := (p.zip g).map (fun pg => HasSqrt.sqrt pg.1 * pg.2)
  let nSum : R := n.foldl (· + ·) 0
  (p.zip n).map (fun pn =>
    (max (HasRound.roundInt (c * pn.1 + cSqrt * (pn.2 - nSum * pn.1))) 0).toNat)

/-- `QReg::sample_all` (after the D4/D5 repair) with the normal draws as input -/
def sampleAll (r : QReg R) (count : Nat) (g : List R) : Option (List Nat) :=
  let p := r.getProbabilities
  sampleFix r.qMask (sampleProposal p count g) (p.map (fun x => decide (0 < x))) count

end proposal

end QReg
end Qvnt
