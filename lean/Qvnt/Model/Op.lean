/-
MODEL — `SingleOp` (`src/operator/single/mod.rs`), `MultiOp` (`src/operator/multi/mod.rs`),
the public constructors of `src/operator/mod.rs`, `multi/h.rs`, `multi/qft.rs` and
`Applicable::matrix` (`src/operator/applicable.rs`).
-/
import Qvnt.Model.Atom

namespace Qvnt

structure SingleOp (R : Type) where
  act : Nat
  ctrl : Nat
  func : Atom R
deriving Repr, Inhabited

namespace SingleOp
variable {R : Type}

/-- `impl<Op: AtomicOp> From<Op> for SingleOp` -/
def ofAtom (g : Atom R) : SingleOp R := ⟨g.actsOn, 0, g⟩

/-- `single_op_checked!` -/
def checked (g : Atom R) : Option (SingleOp R) := if g.isValid then some (ofAtom g) else none

/-- `Applicable::act_on` -/
def actOn (g : SingleOp R) : Nat := g.act ||| g.ctrl

/-- `Applicable::dgr` -/
def dgr [Neg R] (g : SingleOp R) : SingleOp R := { g with func := g.func.dgr }

/-- `Applicable::c` -/
def c (g : SingleOp R) (cm : Nat) : Option (SingleOp R) :=
  if g.actOn &&& cm ≠ 0 then none else some { g with ctrl := g.ctrl ||| cm }

/-- `AtomicOp::for_each` (and, by the rayon contract, `for_each_par`): the output buffer
as a function of the input buffer. `!idx & ctrl == 0` is "all control bits are set". -/
def apply [Add R] [Sub R] [Mul R] [Neg R] [Consts R] (g : SingleOp R) (ψ : State R) : State R :=
  fun idx =>
    if g.ctrl ≠ 0 then
      if idx &&& g.ctrl = g.ctrl then g.func.op ψ idx else ψ idx
    else g.func.op ψ idx

/-- "Id" name test used by `From<SingleOp> for MultiOp`. -/
def isId (g : SingleOp R) : Bool :=
  g.ctrl == 0 && (match g.func with | .id => true | _ => false)

end SingleOp

/-- `MultiOp(VecDeque<SingleOp>)`, front of the queue first. -/
abbrev MultiOp (R : Type) := List (SingleOp R)

namespace MultiOp
variable {R : Type}

/-- `From<SingleOp> for MultiOp` -/
def ofSingle (g : SingleOp R) : MultiOp R := if g.isId then [] else [g]

/-- `Mul` / `MulAssign` / `append`: queue concatenation -/
def mul (a b : MultiOp R) : MultiOp R := a ++ b

/-- `Applicable::act_on` -/
def actOn (o : MultiOp R) : Nat := o.foldl (fun acc g => acc ||| g.actOn) 0

/-- `Applicable::dgr` -/
def dgr [Neg R] (o : MultiOp R) : MultiOp R := (o.map SingleOp.dgr).reverse

/-- `Applicable::c`. The `unwrap` cannot fail: every element's `act_on` is inside the
product's. The model returns `none` there too, `Props/C02` shows it does not happen. -/
def c (o : MultiOp R) (cm : Nat) : Option (MultiOp R) :=
  if o.actOn &&& cm ≠ 0 then none else o.mapM (fun g => g.c cm)

section apply
variable [Add R] [Sub R] [Mul R] [Neg R] [Consts R]

/-- `Applicable::apply` for a product, *with* the buffer ping-pong: the pair is
`(psi_i, psi_o)`; each element writes `psi_o` from `psi_i`, then the two are swapped; a
final swap leaves the result in `psi_o`. `junk` is the uninitialised output buffer. -/
def applyBuffers (o : MultiOp R) (ψ junk : State R) : State R × State R :=
  let st := o.foldl (fun (st : State R × State R) g =>
      let out := g.apply st.1   -- op.apply(&psi_i, psi_o)
      (out, st.1))              -- swap(psi_i, psi_o)
    (ψ, junk)
  (st.2, st.1)                  -- final swap

/-- what the caller finds in `psi_o` -/
def apply (o : MultiOp R) (ψ : State R) : State R := (applyBuffers o ψ (fun _ => ψ 0)).2

end apply
end MultiOp

/-! ### public constructors (`src/operator/mod.rs`)

`none` models the `expect("Mask should contain k bit!")` panic. Rotation gates receive the
half-angle phase `(cos(θ/2), sin(θ/2))` instead of the angle: the conversion is one libm
call in the harness/driver and a unit-circle hypothesis in the proofs. -/
namespace Op
variable {R : Type}

def id : MultiOp R := []
def x (a : Nat) : MultiOp R := MultiOp.ofSingle (.ofAtom (.x a))
def y (a : Nat) : MultiOp R := MultiOp.ofSingle (.ofAtom (.y a (yIPow a)))
def z (a : Nat) : MultiOp R := MultiOp.ofSingle (.ofAtom (.z a))
def s (a : Nat) : MultiOp R := MultiOp.ofSingle (.ofAtom (.s a false))
def t (a : Nat) : MultiOp R := MultiOp.ofSingle (.ofAtom (.t a false))

def ofChecked (g : Atom R) : Option (MultiOp R) := (SingleOp.checked g).map MultiOp.ofSingle

def rx (ph : Cx R) (a : Nat) : Option (MultiOp R) := ofChecked (.rx a ph)
def ry (ph : Cx R) (a : Nat) : Option (MultiOp R) := ofChecked (.ry a ph)
def rz (ph : Cx R) (a : Nat) : Option (MultiOp R) := ofChecked (.rz a ph)
def rxx (ph : Cx R) (ab : Nat) : Option (MultiOp R) := ofChecked (.rxx ab ph)
def ryy (ph : Cx R) (ab : Nat) : Option (MultiOp R) := ofChecked (.ryy ab ph)
def rzz (ph : Cx R) (ab : Nat) : Option (MultiOp R) := ofChecked (.rzz ab ph)
def swap (ab : Nat) : Option (MultiOp R) := ofChecked (.swap ab)
def sqrtSwap (ab : Nat) : Option (MultiOp R) := ofChecked (.sqrtSwap ab false)
def iSwap (ab : Nat) : Option (MultiOp R) := ofChecked (.iSwap ab false)
def sqrtISwap (ab : Nat) : Option (MultiOp R) := ofChecked (.sqrtISwap ab false)

/-- `op::u1(lam, a) = rz(lam, a)` -/
def u1 (lam : Cx R) (a : Nat) : Option (MultiOp R) := rz lam a

/-- `op::u3(the, phi, lam, a) = rz(lam, a) * ry(the, a) * rz(phi, a)` -/
def u3 (the phi lam : Cx R) (a : Nat) : Option (MultiOp R) := do
  let l ← rz lam a
  let t ← ry the a
  let p ← rz phi a
  pure (l ++ t ++ p)

/-- `op::u2(phi, lam, a) = rz(lam, a) * ry(FRAC_PI_2, a) * rz(phi, a)`; `quarter` is the
half-angle phase of `π/2`. -/
def u2 (quarter phi lam : Cx R) (a : Nat) : Option (MultiOp R) := u3 quarter phi lam a

/-- the `while idx.0 != 0 && idx.0 <= a_mask` loop of `multi::h::h`; state
`(pos, first, isFirst, acc)`; fuel = number of remaining iterations allowed. -/
def hLoop (aMask : Nat) : Nat → Nat → Nat → Bool → MultiOp R → Option (Nat × Bool × MultiOp R)
  | 0, _, _, _, _ => none
  | fuel + 1, pos, first, isFirst, acc =>
    if pos != 0 && pos ≤ aMask then
      if pos &&& aMask != 0 then
        if isFirst then hLoop aMask fuel (shl1 pos) pos false acc
        else hLoop aMask fuel (shl1 pos) first true
          (acc ++ [SingleOp.ofAtom (.h2 pos first (pos ||| first))])
      else hLoop aMask fuel (shl1 pos) first isFirst acc
    else some (first, isFirst, acc)

/-- `multi::h::h` -/
def h (aMask : Nat) : Option (MultiOp R) :=
  match popcount aMask with
  | 0 => some []
  | 1 => some (MultiOp.ofSingle (.ofAtom (.h1 aMask)))
  | _ =>
    match hLoop aMask (W + 2) 1 0 true [] with
    | none => none
    | some (first, isFirst, acc) =>
      some (if !isFirst then acc ++ [SingleOp.ofAtom (.h1 first)] else acc)

/-- `for idx in 0..64 { if (1 << idx) & a_mask != 0 { vec.push(1 << idx) } }` -/
def qftBits (aMask : Nat) : List Nat :=
  (List.range W).filterMap (fun i => if (2 ^ i) &&& aMask != 0 then some (2 ^ i) else none)

end Op

/-- The half-angle phases `π * 0.5^j / 2` that `qft` asks of `rz`: supplied by the caller
(`phaseOf j = (cos(π/2^(j+1)), sin(π/2^(j+1)))`). -/
abbrev QftPhases (R : Type) := Nat → Cx R

namespace Op
variable {R : Type}

/-- `multi::qft::qft`. `none` models a failed `unwrap`. -/
def qft (phaseOf : QftPhases R) (aMask : Nat) : Option (MultiOp R) :=
  let count := popcount aMask
  match count with
  | 0 => some []
  | 1 => h aMask
  | _ =>
    let vec := qftBits aMask
    let stage (i : Nat) : Option (MultiOp R) := do
      let hi ← h (vec.getD i 0)
      let rots ← (List.range (count - i - 1)).mapM (fun k =>
        let j := k + 1
        -- controlled RZ(phase) on v_{i+j}, then RZ(phase / 2) on the control (D10 repair)
        match SingleOp.checked (Atom.rz (vec.getD (i + j) 0) (phaseOf j)),
              SingleOp.checked (Atom.rz (vec.getD i 0) (phaseOf (j + 1))) with
        | some g, some g' => (g.c (vec.getD i 0)).map (fun cg => [cg, g'])
        | _, _ => none)
      pure (hi ++ rots.flatten)
    do
      let stages ← (List.range (count - 1)).mapM stage
      let last ← h (vec.getD (count - 1) 0)
      pure (stages.flatten ++ last)

/-- the `while idx != 0 && idx <= a_mask` loop of `qft_swapped` -/
def maskBitsLoop (aMask : Nat) : Nat → Nat → List Nat → Option (List Nat)
  | 0, _, _ => none
  | fuel + 1, pos, acc =>
    if pos != 0 && pos ≤ aMask then
      maskBitsLoop aMask fuel (shl1 pos) (if pos &&& aMask != 0 then acc ++ [pos] else acc)
    else some acc

/-- `multi::qft::qft_swapped` -/
def qftSwapped (phaseOf : QftPhases R) (aMask : Nat) : Option (MultiOp R) := do
  let vecMask ← maskBitsLoop aMask (W + 2) 1 []
  let len := vecMask.length
  let swaps ← (List.range (len / 2)).mapM (fun i =>
    (SingleOp.checked (Atom.swap (vecMask.getD i 0 ||| vecMask.getD (len - i - 1) 0))).map
      MultiOp.ofSingle)
  let q ← qft phaseOf aMask
  pure (swaps.flatten ++ q)

end Op

/-- `Applicable::matrix(size)`: column `j` is the image of basis state `j`; the Rust code
builds the rows `apply(e_idx)` and transposes. Entry `(i, j)`. -/
def MultiOp.matrix {R : Type} [Add R] [Sub R] [Mul R] [Neg R] [Consts R] [Zero R] [One R]
    (o : MultiOp R) (i j : Nat) : Cx R :=
  o.apply (fun k => if k = j then 1 else 0) i

end Qvnt
