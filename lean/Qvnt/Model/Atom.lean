/-
MODEL — the per-amplitude kernels of `src/operator/atomic/*.rs` and their dispatch
(`src/operator/atomic/dispatch.rs`).

Each constructor of `Atom` mirrors one `Op` struct (same fields); `Atom.op` mirrors
`AtomicOp::atomic_op`, statement by statement, reading the input state `ψ` at the same
indices and combining the real / imaginary parts with the same formulas.
The crate-private matrix gates `atomic::u1` / `atomic::u2` are not reachable through the
public API (`mod single` is private and `op::u1/u2/u3` are products of `rz`/`ry`) and are
not modelled.
-/
import Qvnt.Model.Cx
import Qvnt.Model.Bits

namespace Qvnt

/-- `crate::math::rotate(z, q)`: multiply by `i^q` (only the two low bits of `q` matter). -/
def rotate {R : Type} [Neg R] (z : Cx R) (q : Nat) : Cx R :=
  let z := if q &&& 2 ≠ 0 then -z else z
  if q &&& 1 ≠ 0 then ⟨-z.im, z.re⟩ else z

/-- `(!count).wrapping_add(1)` on a `usize` -/
def negWord (count : Nat) : Nat := ((2 ^ W - 1 - count % 2 ^ W) + 1) % 2 ^ W

/-- `!a_mask.count_ones().wrapping_add(1) as N` (`u32` arithmetic, then widened) -/
def yIPow (aMask : Nat) : Nat := 2 ^ 32 - 1 - (popcount aMask + 1) % 2 ^ 32

/-- One variant per `AtomicOpDispatch` arm that is reachable from the public API. -/
inductive Atom (R : Type) where
  | id
  | x (a : Nat)
  | y (a : Nat) (iPow : Nat)
  | z (a : Nat)
  | s (a : Nat) (dagger : Bool)
  | t (a : Nat) (dagger : Bool)
  | rx (a : Nat) (phase : Cx R)
  | ry (a : Nat) (phase : Cx R)
  | rz (a : Nat) (phase : Cx R)
  | rxx (ab : Nat) (phase : Cx R)
  | ryy (ab : Nat) (phase : Cx R)
  | rzz (ab : Nat) (phase : Cx R)
  | h1 (a : Nat)
  | h2 (a b ab : Nat)
  | swap (ab : Nat)
  | iSwap (ab : Nat) (dagger : Bool)
  | sqrtSwap (ab : Nat) (dagger : Bool)
  | sqrtISwap (ab : Nat) (dagger : Bool)
deriving Repr, Inhabited

namespace Atom
variable {R : Type}

/-- `(idx & mask).count_ones() & 1 == 1` -/
def oddParity (idx mask : Nat) : Bool := popcount (idx &&& mask) % 2 == 1

section kernel
variable [Add R] [Sub R] [Mul R] [Neg R] [Consts R]

/-- `AtomicOp::atomic_op(&self, psi, idx)` -/
def op (g : Atom R) (ψ : State R) (idx : Nat) : Cx R :=
  match g with
  | .id => ψ idx
  | .x a => ψ (idx ^^^ a)
  | .y a iPow =>
    let iPow := if popcount (idx &&& a) % 2 == 0 then iPow ^^^ 2 else iPow
    rotate (ψ (idx ^^^ a)) iPow
  | .z a => if oddParity idx a then -(ψ idx) else ψ idx
  | .s a dagger =>
    let count := popcount (idx &&& a)
    let count := if dagger then negWord count else count
    rotate (ψ idx) count
  | .t a dagger =>
    let count := popcount (idx &&& a)
    let count := if dagger then negWord count else count
    let p := rotate (ψ idx) (count >>> 1)
    if count &&& 1 == 1 then (⟨Consts.invSqrt2, Consts.invSqrt2⟩ : Cx R) * p else p
  | .rx a ph =>
    let p0 := ψ idx
    let p1 := ψ (idx ^^^ a)
    ⟨p0.re * ph.re + p1.im * ph.im, p0.im * ph.re - p1.re * ph.im⟩
  | .ry a ph =>
    let p0 := ψ idx
    let p1 := ψ (idx ^^^ a)
    let ph : Cx R := if idx &&& a == 0 then ⟨ph.re, -ph.im⟩ else ph
    ⟨p0.re * ph.re + p1.re * ph.im, p0.im * ph.re + p1.im * ph.im⟩
  | .rz a ph =>
    let ph : Cx R := if idx &&& a == 0 then ⟨ph.re, -ph.im⟩ else ph
    ph * ψ idx
  | .rxx ab ph =>
    let p0 := ψ idx
    let p1 := ψ (idx ^^^ ab)
    ⟨p0.re * ph.re + p1.im * ph.im, p0.im * ph.re - p1.re * ph.im⟩
  | .ryy ab ph =>
    let p0 := ψ idx
    let p1 := ψ (idx ^^^ ab)
    let ph : Cx R := if popcount (idx &&& ab) % 2 == 0 then ⟨ph.re, -ph.im⟩ else ph
    ⟨p0.re * ph.re + p1.im * ph.im, p0.im * ph.re - p1.re * ph.im⟩
  | .rzz ab ph =>
    let ph : Cx R := if popcount (idx &&& ab) % 2 == 0 then ⟨ph.re, -ph.im⟩ else ph
    ph * ψ idx
  | .h1 a =>
    let p0 := ψ idx
    let p1 := ψ (idx ^^^ a)
    let p0 := if idx &&& a != 0 then -p0 else p0
    (p0 + p1).scale Consts.invSqrt2
  | .h2 a b ab =>
    let p0 := ψ idx
    let p1 := ψ (idx ^^^ a)
    let p2 := ψ (idx ^^^ b)
    let p3 := ψ (idx ^^^ ab)
    let (p0, p2) := if idx &&& a != 0 then (-p0, -p2) else (p0, p2)
    let (p0, p1) := if idx &&& b != 0 then (-p0, -p1) else (p0, p1)
    (p0 + p1 + p2 + p3).scale Consts.half
  | .swap ab => if oddParity idx ab then ψ (idx ^^^ ab) else ψ idx
  | .iSwap ab dagger =>
    if oddParity idx ab then
      let p := ψ (idx ^^^ ab)
      if dagger then ⟨p.im, -p.re⟩ else ⟨-p.im, p.re⟩
    else ψ idx
  | .sqrtSwap ab dagger =>
    if oddParity idx ab then
      let p0 := ψ idx
      let p1 := ψ (idx ^^^ ab)
      if dagger then
        ⟨Consts.half * (p0.re + p0.im + p1.re - p1.im), Consts.half * (p0.im - p0.re + p1.im + p1.re)⟩
      else
        ⟨Consts.half * (p0.re - p0.im + p1.re + p1.im), Consts.half * (p0.im + p0.re + p1.im - p1.re)⟩
    else ψ idx
  | .sqrtISwap ab dagger =>
    if oddParity idx ab then
      let p0 := ψ idx
      let p1 := ψ (idx ^^^ ab)
      if dagger then
        ⟨Consts.invSqrt2 * (p0.re + p1.im), Consts.invSqrt2 * (p0.im - p1.re)⟩
      else
        ⟨Consts.invSqrt2 * (p0.re - p1.im), Consts.invSqrt2 * (p0.im + p1.re)⟩
    else ψ idx

end kernel

/-- `AtomicOp::is_valid` -/
def isValid (g : Atom R) : Bool :=
  match g with
  | .rx a _ | .ry a _ | .rz a _ | .h1 a => popcount a == 1
  | .rxx ab _ | .ryy ab _ | .rzz ab _ | .swap ab | .iSwap ab _ | .sqrtSwap ab _
  | .sqrtISwap ab _ => popcount ab == 2
  | .h2 a b ab => popcount a == 1 && popcount b == 1 && popcount ab == 2
  | _ => true

/-- `AtomicOp::acts_on` -/
def actsOn (g : Atom R) : Nat :=
  match g with
  | .id => 0
  | .x a | .y a _ | .z a | .s a _ | .t a _ | .rx a _ | .ry a _ | .rz a _ | .h1 a => a
  | .rxx ab _ | .ryy ab _ | .rzz ab _ | .swap ab | .iSwap ab _ | .sqrtSwap ab _
  | .sqrtISwap ab _ => ab
  | .h2 _ _ ab => ab

/-- `AtomicOp::dgr` (after the D1 repair: rotations conjugate their half-angle phase). -/
def dgr [Neg R] (g : Atom R) : Atom R :=
  match g with
  | .s a d => .s a (!d)
  | .t a d => .t a (!d)
  | .rx a ph => .rx a ph.conj
  | .ry a ph => .ry a ph.conj
  | .rz a ph => .rz a ph.conj
  | .rxx a ph => .rxx a ph.conj
  | .ryy a ph => .ryy a ph.conj
  | .rzz a ph => .rzz a ph.conj
  | .iSwap ab d => .iSwap ab (!d)
  | .sqrtSwap ab d => .sqrtSwap ab (!d)
  | .sqrtISwap ab d => .sqrtISwap ab (!d)
  | g => g

end Atom
end Qvnt
