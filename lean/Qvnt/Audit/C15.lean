import Qvnt.Props.C15
import Qvnt.Props.Code.C15
open Qvnt
#print axioms C15_plain
#print axioms C15_swapped
#print axioms C15_qft
#print axioms C15_qft_swapped
#print axioms C15_identity_elsewhere
#print axioms C15_withSubVal_outside
#print axioms C15_reverse
#print axioms C15_reverse_involutive
#print axioms C15_phase_gate
#print axioms C15_inverse
#print axioms C15_inverse_swapped
#print axioms genPhase_real
#print axioms C15_code_qft
#print axioms C15_code_qft_swapped
#print axioms C15_code_inverse
#print axioms powi_half
