import Qvnt.Props.C17
import Qvnt.Props.Code.C18
import Qvnt.Props.Code.C17
open Qvnt
#print axioms C17_process_append
#print axioms C17_delta_eq
#print axioms C17_asts
#print axioms C17_add_ast
#print axioms C17_new
#print axioms C17_accept_iff
#print axioms C17_err_iff
#print axioms C17_fail_alike
#print axioms C17_delta
#print axioms C17_split
#print axioms C17_join
#print axioms C17_run
#print axioms C17_finish_shape
#print axioms C17_rerun
#print axioms C17_reset_new
#print axioms C18_code_error_exits_first
#print axioms C18_code_add_ast
#print axioms C18_code_new
#print axioms addAllG_eq
#print axioms C17_code_add_ast
#print axioms C17_code_accept_iff
#print axioms C17_code_err
#print axioms processNodes_macrosInv
#print axioms addAst_keysNodup
#print axioms session_keysNodup
#print axioms C12_code_session_total
#print axioms C12_code_new_total
#print axioms C12_code_run_total
