import Qvnt.Props.C11
import Qvnt.Props.Code.C11
open Qvnt
#print axioms C11_finish_events
#print axioms C11_cond_run
#print axioms C11_barrier
#print axioms C11_getByMask
#print axioms C11_measure_bits
#print axioms C11_statement_events
#print axioms C11_if_event
#print axioms C11_measure_event
#print axioms C11_reset_event
#print axioms C11_masks
#print axioms C11_refine_partial
#print axioms C11_refine_xor
#print axioms C11_code_refine
