import Qvnt.Props.C06
import Qvnt.Props.Code.C06
open Qvnt
#print axioms C06_value
#print axioms C06_value_inside
#print axioms C06_possible
#print axioms C06_empty
#print axioms C06_beyond
#print axioms C06_zero
#print axioms C06_impossible_draw
#print axioms C06_ratio
#print axioms C06_ratio_exact
#print axioms C06_support
#print axioms C06_drawn_survives
#print axioms C06_repeat
#print axioms C06_code_measure
#print axioms C06_code_empty
#print axioms C06_code_repeat
