import Qvnt.Props.C18
open Qvnt
#print axioms C18_rollback
#print axioms C18_error_iff
#print axioms C18_continue
#print axioms C18_accept
#print axioms C18_prefix_discarded
#print axioms C18_delta_untouched
