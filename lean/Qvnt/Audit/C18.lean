import Qvnt.Props.C18
import Qvnt.Props.Code.C18
open Qvnt
#print axioms C18_rollback
#print axioms C18_error_iff
#print axioms C18_continue
#print axioms C18_accept
#print axioms C18_prefix_discarded
#print axioms C18_delta_untouched
#print axioms C18_code_error_exits_first
#print axioms C18_code_add_ast
#print axioms C18_code_new
