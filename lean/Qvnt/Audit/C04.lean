import Qvnt.Props.C04
import Qvnt.Props.Code.C04
open Qvnt
#print axioms C04_apply
#print axioms C04_junk_irrelevant
#print axioms C04_mul
#print axioms C04_assoc
#print axioms C04_prod
#print axioms C04_id
#print axioms C04_reg
#print axioms C04_reg_size
#print axioms C04_commute
#print axioms C04_code_apply
#print axioms C04_code_mul
#print axioms C04_code_reg
