import Qvnt.Props.C12
import Qvnt.Props.Code.C12
open Qvnt
#print axioms C12_gates_no_panic
#print axioms C12_gates_total
#print axioms C12_arm_no_panic
#print axioms C12_prefix_guard
#print axioms C12_macro_new_ok
#print axioms C12_macro_no_panic
#print axioms C12_macro_apply_no_panic
#print axioms C12_terminates
#print axioms C12_idx_word
#print axioms C12_inv_init
#print axioms C12_inv_preserved
#print axioms C12_inv_session
#print axioms C12_no_panic_node
#print axioms C12_no_panic_int
#print axioms C12_new_total
#print axioms C12_session_total
#print axioms C12_run_total
#print axioms C12_run_total_unitary
#print axioms processNodes_macrosInv
#print axioms addAst_keysNodup
#print axioms session_keysNodup
#print axioms C12_code_session_total
#print axioms C12_code_new_total
#print axioms C12_code_run_total
