import Qvnt.Props.C19
open Qvnt
#print axioms C19_lock_ok
#print axioms C19_holder_on_top
#print axioms C19_nested_calls_wait
#print axioms C19_progress
#print axioms C19_terminates
#print axioms C19_measure_decreases
#print axioms C19_every_call_returns
#print axioms C19_no_infinite_run
#print axioms C19_can_return
#print axioms C19_old_code_deadlocks
#print axioms C19_old_code_lock_ok
#print axioms C19_trace_sound
#print axioms C19_trace_prefix
