import Qvnt.Props.C16
import Qvnt.Props.Code.C16
open Qvnt
#print axioms C16_fix_isSome
#print axioms C16_fix_length
#print axioms C16_fix_total
#print axioms C16_fix_zero
#print axioms C16_len
#print axioms C16_total
#print axioms C16_zero
#print axioms C16_code_sample
#print axioms C16_code_zero
