import Qvnt.Props.C02
import Qvnt.Props.Code.C02
open Qvnt
#print axioms C02_refuse
#print axioms C02_single_refuse
#print axioms C02_elements
#print axioms C02_support
#print axioms C02_empty
#print axioms C02_single_support
#print axioms C02_nested_single
#print axioms C02_nested
#print axioms C02_single_apply
#print axioms C02_block
#print axioms C02_block_idx
#print axioms C02_untouched
#print axioms C02_block_closed
#print axioms C02_spec
#print axioms C02_spec_apply
#print axioms C02_code_refuse
#print axioms C02_code_block
