import Qvnt.Props.C01
import Qvnt.Props.Code.C01
open Qvnt
#print axioms C01_one_qubit_kernels
#print axioms C01_two_qubit_kernels
#print axioms C01_multi_bit
#print axioms C01_h
#print axioms C01_u3
#print axioms C01_leaf
#print axioms C01_refuse_one
#print axioms C01_refuse_two
#print axioms C01_refuse_spec
#print axioms C01_matrix_column
#print axioms C01_apply_add
#print axioms C01_apply_smul
#print axioms C01_matrix_linear
#print axioms C01_unitary
#print axioms C01_norm
#print axioms C01_code_one_qubit
#print axioms C01_code_two_qubit
#print axioms C01_code_multi_bit
#print axioms C01_code_rot1
#print axioms C01_code_two
#print axioms C01_code_h
#print axioms C01_code_u3
#print axioms C01_code_matrix
