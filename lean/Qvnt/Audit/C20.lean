import Qvnt.Props.C20
import Qvnt.Props.Code.C20
open Qvnt
#print axioms C20_bitsIter
#print axioms C20_bits_exact
#print axioms C20_bits_ascending
#print axioms C20_vreg
#print axioms C20_vreg_new
#print axioms C20_vreg_new_length
#print axioms C20_idx
#print axioms C20_idxBy
#print axioms C20_idxList
#print axioms C20_idxAll
#print axioms C20_view
#print axioms C20_view_bits
#print axioms C20_view_all
#print axioms C20_creg_new
#print axioms C20_creg_inv_new
#print axioms C20_creg_inv_set
#print axioms C20_creg_inv_xor
#print axioms C20_creg_inv_reset
#print axioms C20_creg_inv_setNum
#print axioms C20_creg_inv_tensorProd
#print axioms C20_creg_value_lt
#print axioms C20_creg_set
#print axioms C20_creg_set_word
#print axioms C20_creg_xor
#print axioms C20_creg_tensor
#print axioms C20_getByMask
#print axioms C20_debug_length
#print axioms C20_debug_digits
#print axioms C20_maskBitsLoop
#print axioms C20_qftBits
#print axioms C20_hLoop_terminates
#print axioms C20_code_bits
#print axioms C20_code_vreg
#print axioms C20_code_view
#print axioms C20_code_index
