import Qvnt.Props.C10
import Qvnt.Props.Code.C11
import Qvnt.Props.Code.C10
open Qvnt
#print axioms C10_position_is_bit
#print axioms C10_bits
#print axioms C10_qubit_index
#print axioms C10_single_bit
#print axioms C10_disjoint
#print axioms C10_disjoint_positions
#print axioms C10_disjoint_bits
#print axioms C10_decl_shape
#print axioms C10_decl_shape_classical
#print axioms C10_new_register
#print axioms C10_apply_once
#print axioms C10_apply_operator
#print axioms C10_frame
#print axioms C10_once_in_order
#print axioms C10_compose
#print axioms C10_macro_subst
#print axioms C10_macro_body_order
#print axioms C10_macro_call_builtin
#print axioms C10_macro_call_nested
#print axioms C10_macro_call_bad_parameter
#print axioms C11_code_refine
#print axioms C10_code_qubit_index
#print axioms C10_code_disjoint_bits
#print axioms C10_code_once_in_order
#print axioms C10_code_macro_subst
