import Qvnt.Lemmas.GenInt

#print axioms Qvnt.Gen2.int_check_ident_eq
#print axioms Qvnt.Gen2.int_check_reg_size_eq
#print axioms Qvnt.Gen2.int_check_dup_eq
#print axioms Qvnt.Gen2.int_branch_eq
#print axioms Qvnt.Gen2.int_branch_with_id_eq
#print axioms Qvnt.Gen2.int_xor_eq
#print axioms Qvnt.Gen2.fold_idx_eq
#print axioms Qvnt.Gen2.int_get_q_idx_eq
#print axioms Qvnt.Gen2.int_get_c_idx_eq
#print axioms Qvnt.Gen2.int_append_int_eq
#print axioms Qvnt.Gen2.int_prepend_int_eq
#print axioms Qvnt.Gen2.int_process_qreg_eq
#print axioms Qvnt.Gen2.int_process_creg_eq
#print axioms Qvnt.Gen2.int_process_barrier_eq
#print axioms Qvnt.Gen2.int_process_opaque_eq
#print axioms Qvnt.Gen2.int_process_reset_eq
#print axioms Qvnt.Gen2.int_process_measure_eq
