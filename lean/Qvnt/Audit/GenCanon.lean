import Qvnt.Lemmas.GenCanon
open Qvnt.GenCanon
#print axioms int_struct_canon
#print axioms macro_struct_canon
#print axioms macro_argument_name_canon
#print axioms macro_new_canon
#print axioms macro_process_canon
#print axioms macro_process_nested_canon
#print axioms parse_context_canon
#print axioms parse_eval_extended_canon
#print axioms sym_struct_canon
#print axioms sym_new_canon
#print axioms sym_init_canon
#print axioms sym_get_class_canon
#print axioms sym_get_probabilities_canon
