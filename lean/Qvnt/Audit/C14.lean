import Qvnt.Props.C14
import Qvnt.Props.Code.C14
open Qvnt
#print axioms C14_new
#print axioms C14_new_zero
#print axioms C14_tensor
#print axioms C14_neutral_left
#print axioms C14_neutral_right
#print axioms C14_creg_tensor
#print axioms C14_creg_neutral
#print axioms C14_probs_length
#print axioms C14_vreg_length
#print axioms C14_grow
#print axioms C14_shrink
#print axioms C14_code_with_state
#print axioms C14_code_shrink
#print axioms C14_code_tensor
#print axioms C14_code_grow
