import Qvnt.Props.C07
import Qvnt.Props.Code.C07
open Qvnt
#print axioms C07_reported
#print axioms C07_born
#print axioms C07_pushforward
#print axioms C07_born_total
#print axioms C07_drawn_positive
#print axioms C07_scale_invariant
#print axioms C07_possible
#print axioms C07_conditional
#print axioms C07_chain
#print axioms C07_order
#print axioms C07_linear_map
#print axioms C07_cov
#print axioms C07_code_weights
#print axioms C07_code_weights_empty
#print axioms C07_code_born
