import Qvnt.Lemmas.GenRegs3

#print axioms Qvnt.Gen2.creg_new_eq
#print axioms Qvnt.Gen2.creg_eq_of_toModel
#print axioms Qvnt.Gen2.quant_measure_mask_eq
#print axioms Qvnt.Gen2.quant_measure_eq
#print axioms Qvnt.Gen2.quant_reset_by_mask_eq
#print axioms Qvnt.Gen2.quant_get_vreg_by_eq
#print axioms Qvnt.Gen2.foldl_ext_mem
#print axioms Qvnt.Gen2.creg_get_by_mask_eq
#print axioms Qvnt.Gen2.creg_fmt_eq
#print axioms Qvnt.Gen2.creg_mul_eq
#print axioms Qvnt.Gen2.creg_mul_assign_eq
#print axioms Qvnt.Gen2.creg_set_of
#print axioms Qvnt.Gen2.creg_xor_of
#print axioms Qvnt.Gen2.creg_reset_of
#print axioms Qvnt.Gen2.sym_reset_eq
#print axioms Qvnt.Gen2.store_set_eq
#print axioms Qvnt.Gen2.store_xor_eq
#print axioms Qvnt.Gen2.storeBits_qMask
#print axioms Qvnt.Gen2.foldlM_sim
#print axioms Qvnt.Gen2.foldlM_inv
#print axioms Qvnt.Gen2.foldl_option
#print axioms Qvnt.Gen2.finish_as_foldlM
#print axioms Qvnt.Gen2.sym_step_eq
#print axioms Qvnt.Gen2.mstep_inv
#print axioms Qvnt.Gen2.sym_finish_eq
