import Qvnt.Props.C08
import Qvnt.Props.Code.C08
open Qvnt
#print axioms C08_fill
#print axioms C08_fill_repeats
#print axioms C08_fill_two_schedules
#print axioms C08_fill_frame
#print axioms C08_reduce_assoc
#print axioms C08_reduce_same_leaves
#print axioms C08_reduce_comm
#print axioms C08_threads
#print axioms C08_threads_single
#print axioms C08_threads_multi
#print axioms C08_and_comm
#print axioms C08_and_assoc
#print axioms C08_and_single
#print axioms C08_code_twins
#print axioms C08_code_sweep
#print axioms C08_code_threads
#print axioms C08_code_and
