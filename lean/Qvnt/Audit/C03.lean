import Qvnt.Props.C03
import Qvnt.Props.Code.C03
open Qvnt
#print axioms C03_product
#print axioms C03_involutive
#print axioms C03_support
#print axioms C03_dgr_c
#print axioms C03_spec
#print axioms C03_dagger_apply
#print axioms C03_inverse
#print axioms C03_mul_dgr
#print axioms C03_adjoint_matrix
#print axioms C03_code_dgr
#print axioms C03_code_inverse
