import Qvnt.Props.C05
import Qvnt.Props.Code.C05
open Qvnt
#print axioms C05_norm_eq
#print axioms C05_normalize
#print axioms C05_normalize_above_one
#print axioms C05_collapse
#print axioms C05_new
#print axioms C05_possible
#print axioms C05_measure
#print axioms C05_measure_floor
#print axioms C05_reset
#print axioms C05_setNum
#print axioms C05_apply
#print axioms C05_apply_arr
#print axioms C05_apply_x
#print axioms C05_resetByMask
#print axioms C05_tensor
#print axioms C05_tensor_inv
#print axioms C05_reachable
#print axioms C05_reachable_unit
#print axioms C05_inside
#print axioms C05_reachable_tensor
#print axioms C05_reachable_tensor_unit
#print axioms C05_probs
#print axioms C05_probs_of_pos
#print axioms C05_code_refines
#print axioms C05_code_reachable
