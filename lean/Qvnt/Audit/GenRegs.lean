import Qvnt.Lemmas.GenRegs

#print axioms Qvnt.Gen.notW_eq
#print axioms Qvnt.Gen.creg_mask_of_eq
#print axioms Qvnt.Gen.creg_with_state_eq
#print axioms Qvnt.Gen.creg_set_num_eq
#print axioms Qvnt.Gen.creg_reset_eq
#print axioms Qvnt.Gen.creg_set_eq
#print axioms Qvnt.Gen.creg_xor_eq
#print axioms Qvnt.Gen.creg_get_eq
#print axioms Qvnt.Gen.creg_num_eq
#print axioms Qvnt.Gen.creg_tensor_prod_eq
