/-
C03 — the dagger of every operator is its inverse; the dagger's matrix is the conjugate
transpose; the dagger of a product is the daggers in reverse order.

MODEL objects: `Atom.dgr` (`AtomicOp::dgr`, after the D1 repair: rotations conjugate their
half-angle phase), `SingleOp.dgr`, `MultiOp.dgr` (`Applicable::dgr`: every element daggered,
queue reversed), `MultiOp.apply`, `MultiOp.matrix`, `OpExpr.build`. SPEC objects: `adjAll`
(conjugate-transposed gates in reverse order), the `.dgr` case of `Spec.denote`.
Hypotheses `hs`, `hh` say that the constants are `1/√2` and `1/2`; `UnitPhases` / `hp` say that
every half-angle phase is `(cos t, sin t)`.
Proofs: `Qvnt/Lemmas/Structure.lean`, `SpecAlg.lean`, `Refine.lean`, `DenoteUnitary.lean`,
`Matrix.lean`.
-/
import Qvnt.Lemmas.Matrix

namespace Qvnt
open Qvnt.Spec

variable {R : Type} [CommRing R] [Consts R]

omit [Consts R] in
/-- **Dagger of a product = daggers of the factors in reverse order.** -/
theorem C03_product (a b : MultiOp R) :
    MultiOp.dgr (MultiOp.mul a b) = MultiOp.mul (MultiOp.dgr b) (MultiOp.dgr a) :=
  MultiOp.dgr_mul a b

omit [Consts R] in
/-- Dagger twice gives back the same queue, element by element. -/
theorem C03_involutive (o : MultiOp R) : MultiOp.dgr (MultiOp.dgr o) = o :=
  MultiOp.dgr_dgr (fun x : R => neg_neg x) o

omit [Consts R] in
/-- The dagger acts on, and is controlled by, the same qubits. -/
theorem C03_support (o : MultiOp R) : MultiOp.actOn (MultiOp.dgr o) = MultiOp.actOn o :=
  MultiOp.dgr_actOn o

omit [Consts R] in
/-- Dagger and `.c(mask)` commute (same refusals, same result). -/
theorem C03_dgr_c (o : MultiOp R) (m : Nat) :
    MultiOp.c (MultiOp.dgr o) m = (MultiOp.c o m).map MultiOp.dgr := MultiOp.dgr_c o m

/-- **Agreement with the reference semantics for `.dgr()`**: the daggered queue refines the
conjugate-transposed circuit in reverse order (or both evaluators panic / refuse). -/
theorem C03_spec (hs : 2 * (Consts.invSqrt2 : R) * Consts.invSqrt2 = 1)
    (hh : 2 * (Consts.half : R) = 1) (phaseOf : QftPhases R) (e : OpExpr R) (hw : e.WordOK) :
    match OpExpr.build phaseOf (.dgr e), Spec.denote phaseOf (.dgr e) with
    | .ok o, .ok gs supp => Refines o gs supp
    | .refused, .refused => True
    | .panic, .panic => True
    | _, _ => False :=
  build_refines hs hh phaseOf (.dgr e) hw

/-- The dagger of a built operator acts as the conjugate-transposed reference circuit. -/
theorem C03_dagger_apply (hs : 2 * (Consts.invSqrt2 : R) * Consts.invSqrt2 = 1)
    (hh : 2 * (Consts.half : R) = 1) (phaseOf : QftPhases R) (e : OpExpr R) (hw : e.WordOK)
    (o : MultiOp R) (hb : OpExpr.build phaseOf e = .ok o) :
    ∃ gs supp, Spec.denote phaseOf e = .ok gs supp ∧
      ∀ ψ : State R, (MultiOp.dgr o).apply ψ = actAll (adjAll gs) ψ := by
  obtain ⟨gs, supp, hd, hr⟩ := build_ok_iff hs hh phaseOf e hw o hb
  exact ⟨gs, supp, hd, hr.dagger⟩

/-- **The dagger is the inverse**, on both sides, for every operator built by a construction
program over 64-bit masks with unit-circle phases. -/
theorem C03_inverse (hs : 2 * (Consts.invSqrt2 : R) * Consts.invSqrt2 = 1)
    (hh : 2 * (Consts.half : R) = 1) (phaseOf : QftPhases R)
    (hp : ∀ j, Cx.IsUnitPhase (phaseOf j)) (e : OpExpr R) (hw : e.WordOK) (hu : e.UnitPhases)
    (o : MultiOp R) (hb : OpExpr.build phaseOf e = .ok o) (ψ : State R) :
    (MultiOp.dgr o).apply (o.apply ψ) = ψ ∧ o.apply ((MultiOp.dgr o).apply ψ) = ψ := by
  obtain ⟨gs, supp, hd, hr⟩ := build_ok_iff hs hh phaseOf e hw o hb
  exact hr.inverse (denote_good hs hh phaseOf hp e hw hu gs supp hd) ψ

/-- `o * o.dgr()` and `o.dgr() * o` apply as the identity. -/
theorem C03_mul_dgr (hs : 2 * (Consts.invSqrt2 : R) * Consts.invSqrt2 = 1)
    (hh : 2 * (Consts.half : R) = 1) (phaseOf : QftPhases R)
    (hp : ∀ j, Cx.IsUnitPhase (phaseOf j)) (e : OpExpr R) (hw : e.WordOK) (hu : e.UnitPhases)
    (o : MultiOp R) (hb : OpExpr.build phaseOf e = .ok o) (ψ : State R) :
    (MultiOp.mul o (MultiOp.dgr o)).apply ψ = ψ ∧ (MultiOp.mul (MultiOp.dgr o) o).apply ψ = ψ := by
  rw [MultiOp.apply_mul, MultiOp.apply_mul]
  exact C03_inverse hs hh phaseOf hp e hw hu o hb ψ

/-- **The dagger's reported matrix is the conjugate transpose** of the operator's reported
matrix, on every `n`-qubit register that contains the qubits the operator acts on. -/
theorem C03_adjoint_matrix (hs : 2 * (Consts.invSqrt2 : R) * Consts.invSqrt2 = 1)
    (hh : 2 * (Consts.half : R) = 1) (phaseOf : QftPhases R)
    (hp : ∀ j, Cx.IsUnitPhase (phaseOf j)) (e : OpExpr R) (hw : e.WordOK) (hu : e.UnitPhases)
    (o : MultiOp R) (hb : OpExpr.build phaseOf e = .ok o) (n : Nat)
    (hn : MultiOp.actOn o < 2 ^ n) (i j : Nat) (hi : i < 2 ^ n) (hj : j < 2 ^ n) :
    MultiOp.matrix (MultiOp.dgr o) i j = (MultiOp.matrix o j i).conj := by
  obtain ⟨gs, supp, hd, hr⟩ := build_ok_iff hs hh phaseOf e hw o hb
  exact hr.adjoint_matrix (denote_good hs hh phaseOf hp e hw hu gs supp hd) n
    (by rw [← hr.actOn]; exact hn) i j hi hj

/-- non-vacuity: the dagger of `s(1) * x(2)` is `x(2) * s†(1)` -/
example : MultiOp.dgr (MultiOp.mul (Op.s 1) (Op.x 2) : MultiOp Int)
    = [SingleOp.ofAtom (.x 2), SingleOp.ofAtom (.s 1 true)] := rfl

end Qvnt
