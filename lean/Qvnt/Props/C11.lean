/-
C11 (block-queue part) — a statement guarded by `if` is executed exactly when the classical
register currently equals `v`, wherever it stands; `measure` stores the outcome bits; `reset`
measures and flips; `barrier` changes nothing: the model's queue-then-run pipeline equals
statement-by-statement execution.

MODEL objects: `Interp.processNode` (`process_node`, `process_if` after the D11 repair,
`branch`, `branch_with_id`), `ExtOp` (`ext_op.rs`), `Sym.finish`, `Sym.storeBits`,
`CReg.getByMask`, `Interp.getIdx`. SPEC objects: `Spec.stepNode`, `Spec.refRun`,
`Spec.argMask` (Spec/RefSem.lean).

`Ev` / `ExtOp.events` / `runEvs` (Lemmas/Queue.lean) present the block queue as the list of
things `Sym.finish` does, in order; `≃ₑ` is equality of action on every register state and
every stream of measurement outcomes. `Interp.nodeDelta self d n` is the change statement `n`
makes (`Delta`), `Delta.events` the events it contributes.
-/
import Qvnt.Lemmas.QueueRefine

namespace Qvnt
open Interp Spec

section
variable {R : Type} [Add R] [Sub R] [Mul R] [Neg R] [Zero R] [One R] [Div R] [Consts R]
  [LE R] [DecidableLE R] [LT R] [DecidableLT R] [HasSqrt R] [RegConsts R]

/-- `Sym.finish` does what the event list of its queue says, in order -/
theorem C11_finish_events (s : Sym R) (drawn : List Nat) :
    (Sym.finish s drawn).map Sym.final = (runEvs s.qOps.events (s.toRun drawn)).map RunSt.final :=
  Sym.finish_final s drawn

omit [LE R] [DecidableLE R] [RegConsts R] in
/-- a conditional block applies its operator iff the classical register, read through the
mask `c`, currently equals `v`; otherwise nothing happens (no outcome is consumed either way) -/
theorem C11_cond_run (st : RunSt R) (c v : Nat) (o : MultiOp R) :
    Ev.run st (.cond c v o) =
      if st.cReg.getByMask c = v then some { st with qReg := st.qReg.apply o } else some st := rfl

end

section
variable {R : Type} [Add R] [Sub R] [Mul R] [Neg R] [Div R] [ExprFns R] [AngleFns R]

/-- `barrier` (and `opaque`) leave `changes` unchanged -/
theorem C11_barrier (self d : Interp R) :
    processNode self d .barrier = .ok d ∧ processNode self d .opaque = .ok d := ⟨rfl, rfl⟩

end

/-- the value `get_by_mask` reads is the register's bits gathered into the low positions (the
reference value of `Spec.stepNode`), for a mask inside the register -/
theorem C11_getByMask (c : CReg) (mask : Nat) (hm : mask &&& c.qMask = mask) (hlt : mask < 2 ^ 64) :
    c.getByMask mask
      = (List.range (maskBits mask).length).foldl (fun acc i =>
          if c.value &&& (maskBits mask).getD i 0 ≠ 0 then acc + 2 ^ i else acc) 0 :=
  getByMask_spec c mask hm hlt

/-- **measure stores outcomes, and only there.** For 64-bit masks: a bit of the classical
word that is not in `cArg` keeps its value; in `set` mode the bit paired with a measured
qubit takes that qubit's outcome; in `xor` mode it is flipped by it. The pairing is the
i-th set bit of `qArg` with the i-th set bit of `cArg`. -/
theorem C11_measure_bits (mOp : MeasureOp) (c : CReg) (v qArg cArg : Nat)
    (hq : qArg < 2 ^ 64) (hc : cArg < 2 ^ 64) :
    (∀ k, k < 64 → cArg.testBit k = false →
      (Sym.storeBits mOp c v qArg cArg).value.testBit k = c.value.testBit k) ∧
    (∀ a b, (2 ^ a, 2 ^ b) ∈ (bitsOf qArg).zip (bitsOf cArg) →
      (mOp = .set → (Sym.storeBits mOp c v qArg cArg).value.testBit b = v.testBit a) ∧
      (mOp = .xor → (Sym.storeBits mOp c v qArg cArg).value.testBit b
        = (c.value.testBit b ^^ v.testBit a))) :=
  storeBits_bits mOp c v qArg cArg hq hc

section
variable {R : Type} [Add R] [Sub R] [Mul R] [Neg R] [Zero R] [One R] [Div R] [Consts R]
  [LE R] [DecidableLE R] [LT R] [DecidableLT R] [HasSqrt R] [RegConsts R] [ExprFns R] [AngleFns R]

/-- **every accepted statement appends its own events to the queue**: nothing for a
declaration, a gate definition or a barrier; `app o` for a gate; `meas q c`; `reset q`;
`cond c v o` for `if (c==v) gate` -/
theorem C11_statement_events (self d r : Interp R) (n : Node R) (h : processNode self d n = .ok r) :
    ∃ δ, nodeDelta self d n = .ok δ ∧ r = δ.apply d ∧
      r.qOps.events ≃ₑ d.qOps.events ++ δ.events := processNode_events self d r n h

/-- **An `if` statement always contributes its own conditional event**, after everything
queued before it: the guarded operator is never merged into a preceding unconditional block,
and the preceding unconditional tail is closed into a block of its own. With a non-empty
operator the block `(o, ifBranch val rhs)` is literally the last block of the queue. -/
theorem C11_if_event (self d r : Interp R) (lhs : String) (rhs : Nat) (c : Call R)
    (h : processNode self d (.ifn lhs rhs (.call c)) = .ok r) :
    ∃ val o, getIdx self d false (.register lhs) = .ok val ∧ Interp.callOp self d c = .ok o ∧
      r = { d with qOps := d.qOps.guard val rhs o } ∧
      r.qOps.events ≃ₑ d.qOps.events ++ [Ev.cond val rhs o] ∧
      (o ≠ [] → r.qOps.blocks = (d.qOps.branch .nop).blocks ++ [(o, .ifBranch val rhs)] ∧
        r.qOps.tail = []) ∧
      (d.qOps.branch .nop).blocks =
        (if !d.qOps.tail.isEmpty then d.qOps.blocks ++ [(d.qOps.tail, .nop)] else d.qOps.blocks) :=
  processNode_if self d r lhs rhs c h

/-- `measure` contributes one measurement event with the masks `get_q_idx` / `get_c_idx`
computed, of equal bit counts -/
theorem C11_measure_event (self d r : Interp R) (q c : Arg)
    (h : processNode self d (.measure q c) = .ok r) :
    ∃ qa ca, getIdx self d true q = .ok qa ∧ getIdx self d false c = .ok ca ∧
      popcount qa = popcount ca ∧ r.qOps.events ≃ₑ d.qOps.events ++ [Ev.meas qa ca] := by
  obtain ⟨δ, hδ, rfl, hev⟩ := C11_statement_events self d r _ h
  obtain ⟨qa, ca, h1, h2, h3, rfl⟩ := nodeDelta_inv hδ
  exact ⟨qa, ca, h1, h2, h3, hev⟩

/-- `reset` contributes one reset event -/
theorem C11_reset_event (self d r : Interp R) (a : Arg)
    (h : processNode self d (.reset a) = .ok r) :
    ∃ idx, getIdx self d true a = .ok idx ∧ r.qOps.events ≃ₑ d.qOps.events ++ [Ev.reset idx] := by
  obtain ⟨δ, hδ, rfl, hev⟩ := C11_statement_events self d r _ h
  obtain ⟨idx, h1, rfl⟩ := nodeDelta_inv hδ
  exact ⟨idx, h1, hev⟩

/-- **the masks are the reference masks** (ingredient (i)): when the interpreter's register
list is laid out as the declarations say, `get_q_idx`/`get_c_idx` return `Spec.argMask` -/
theorem C11_masks (l : List String) (decls : List Decl) (h : Layout l decls) (q : Bool)
    (arg : Arg) (m : Nat) (hm : getIdxL l q arg = .ok m) :
    argMask decls arg = some m ∧ m < 2 ^ l.length ∧ m ≠ 0 := h.getIdxL q arg m hm

/-
The full statement (no condition on the declared sizes):

  theorem C11_refine (p) (int) (m) (drawn) (hacc : Interp.new p = .ok int) :
      (Sym.finish (Sym.new { int with mOp := m }) drawn).map Sym.final
        = (refRun p m drawn).map RefState.final

is FALSE. Counterexample: `qreg a[0]; qreg a[1]; reset a;`. The interpreter's `check_dup`
counts the bits registered under an alias, so a zero-size declaration does not reserve its
name; the second `qreg a` is accepted, `reset a` gets mask 1 and the program runs. In the
reference semantics the first declaration of `a` (size 0) is the one `a` names, so `reset a`
is not executable (`refRun = none`). See the two `example`s at the end of this file.
-/

/-- **Queue-then-run = statement-by-statement.** For every accepted program whose declared
register sizes are positive (declarations may stand anywhere: both sides size the registers
by all of them and compute masks from those declared so far), in either measurement mode
(`set` is `int` itself, `xor` is `int.xor`), for every stream of measurement outcomes:
`Sym.finish` on the interpreter's block queue and `Spec.refRun` end with the same quantum
register (whole buffer), the same classical register and the same unused outcomes, or both
run out of outcomes. User-defined gates are covered. -/
theorem C11_refine_partial (p : List (Node R)) (int : Interp R) (m : MeasureOp) (drawn : List Nat)
    (hacc : Interp.new p = .ok int) (hpos : ∀ n ∈ p, PosDecl n) :
    (Sym.finish (Sym.new { int with mOp := m }) drawn).map Sym.final
      = (refRun p m drawn).map RefState.final := refine_main p int m drawn hacc hpos

/-- the `xor` mode is `Int::xor` -/
theorem C11_refine_xor (p : List (Node R)) (int : Interp R) (drawn : List Nat)
    (hacc : Interp.new p = .ok int) (hpos : ∀ n ∈ p, PosDecl n) :
    (Sym.finish (Sym.new int.xor) drawn).map Sym.final
      = (refRun p .xor drawn).map RefState.final := refine_main p int .xor drawn hacc hpos

/-! ### non-vacuity and the counterexample -/

/-- the hypotheses of `C11_refine_partial` hold for a program with declarations, a reset, a
barrier and a gate definition -/
example : (match Interp.new (R := R) [.qreg "q" 2, .creg "c" 2, .reset (.register "q"), .barrier,
      .gate "foo" ["a"] [] []] with
    | .ok s => s.qOps.blocks.map (·.2) | _ => []) = [.reset 3] := rfl

example : ∀ n ∈ ([.qreg "q" 2, .creg "c" 2, .reset (.register "q"), .barrier,
    .gate "foo" ["a"] [] []] : List (Node R)), PosDecl n := by
  intro n hn
  simp only [List.mem_cons, List.mem_nil_iff, or_false] at hn
  rcases hn with rfl | rfl | rfl | rfl | rfl <;> simp [PosDecl]

/-- the counterexample to the unrestricted statement: accepted by the interpreter
(`reset a` gets the mask of the second declaration) … -/
example : (match Interp.new (R := R) [.qreg "a" 0, .qreg "a" 1, .reset (.register "a")] with
    | .ok s => s.qOps.blocks.map (·.2) | _ => []) = [.reset 1] := rfl

/-- … but not executable in the reference semantics (the first declaration of `a` is empty) -/
example : (refRun (R := R) [.qreg "a" 0, .qreg "a" 1, .reset (.register "a")] .set []).isNone
    = true := rfl

end
end Qvnt
