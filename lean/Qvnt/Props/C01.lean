/-
C01 — every built-in gate acts as its documented unitary on exactly the masked qubits; a
several-bit mask given to a one-qubit gate means that gate on each selected qubit; the reported
matrix is the same linear map; constructors needing exactly one / two target qubits refuse
every other mask.

MODEL objects: the kernels `Atom.op` (`src/operator/atomic/*.rs`), the public constructors
`Op.*` (`src/operator/mod.rs`, `multi/h.rs`, `multi/qft.rs`), `OpExpr.build`, `MultiOp.apply`,
`MultiOp.matrix` (`Applicable::matrix`). SPEC objects: the documented matrices `mat*`
(`Qvnt/Spec/Gates.lean`), `act1` / `act2` ("`M` on the selected qubit(s), identity elsewhere"),
`onEach`, `Spec.denote`. Rotation angles are carried as half-angle phases `(cos θ/2, sin θ/2)`.
Proofs: `Qvnt/Lemmas/Kernels.lean`, `Multi.lean`, `Ctor.lean`, `Refine.lean`,
`DenoteUnitary.lean`, `Matrix.lean`.
-/
import Qvnt.Lemmas.Matrix

namespace Qvnt
open Qvnt.Spec

variable {R : Type} [CommRing R] [Consts R]

/-! ### kernels -/

/-- The one-qubit kernels `rx ry rz h` are the documented 2×2 matrices on the masked qubit
(any mask `a`; the constructors only accept single-bit masks). -/
theorem C01_one_qubit_kernels (a : Nat) (ph : Cx R) (ψ : State R) (idx : Nat) :
    (Atom.rx a ph).op ψ idx = act1 (matRX ph.re ph.im) a ψ idx ∧
    (Atom.ry a ph).op ψ idx = act1 (matRY ph.re ph.im) a ψ idx ∧
    (Atom.rz a ph).op ψ idx = act1 (matRZ ph.re ph.im) a ψ idx ∧
    (Atom.h1 a : Atom R).op ψ idx = act1 matH a ψ idx :=
  ⟨rx_eq a ph ψ idx, ry_eq a ph ψ idx, rz_eq a ph ψ idx, h1_eq a ψ idx⟩

/-- The two-qubit kernels are the documented 4×4 matrices on the two masked qubits `i ≠ j`. -/
theorem C01_two_qubit_kernels (i j : Nat) (h : i ≠ j) (ph : Cx R) (ψ : State R) (idx : Nat) :
    (Atom.rxx (2 ^ i ||| 2 ^ j) ph).op ψ idx = act2 (matRXX ph.re ph.im) (2 ^ i) (2 ^ j) ψ idx ∧
    (Atom.ryy (2 ^ i ||| 2 ^ j) ph).op ψ idx = act2 (matRYY ph.re ph.im) (2 ^ i) (2 ^ j) ψ idx ∧
    (Atom.rzz (2 ^ i ||| 2 ^ j) ph).op ψ idx = act2 (matRZZ ph.re ph.im) (2 ^ i) (2 ^ j) ψ idx ∧
    (Atom.swap (2 ^ i ||| 2 ^ j) : Atom R).op ψ idx = act2 matSwap (2 ^ i) (2 ^ j) ψ idx ∧
    (Atom.iSwap (2 ^ i ||| 2 ^ j) false : Atom R).op ψ idx
      = act2 matISwap (2 ^ i) (2 ^ j) ψ idx ∧
    (Atom.sqrtSwap (2 ^ i ||| 2 ^ j) false : Atom R).op ψ idx
      = act2 matSqrtSwap (2 ^ i) (2 ^ j) ψ idx ∧
    (Atom.sqrtISwap (2 ^ i ||| 2 ^ j) false : Atom R).op ψ idx
      = act2 matSqrtISwap (2 ^ i) (2 ^ j) ψ idx :=
  ⟨rxx_eq i j h ph ψ idx, ryy_eq i j h ph ψ idx, rzz_eq i j h ph ψ idx, swap_eq i j h ψ idx,
    iSwap_eq i j h ψ idx, sqrtSwap_eq i j h ψ idx, sqrtISwap_eq i j h ψ idx⟩

/-- `x y z s t` with a several-bit mask `m` (any 64-bit word): the single kernel acts as the
documented one-qubit matrix on each selected qubit. -/
theorem C01_multi_bit (hs : 2 * (Consts.invSqrt2 : R) * Consts.invSqrt2 = 1) (m : Nat)
    (hm : m < 2 ^ 64) (ψ : State R) (idx : Nat) :
    (Atom.x m).op ψ idx = actAll (onEach matX m) ψ idx ∧
    (Atom.y m (yIPow m)).op ψ idx = actAll (onEach matY m) ψ idx ∧
    (Atom.z m).op ψ idx = actAll (onEach matZ m) ψ idx ∧
    (Atom.s m false).op ψ idx = actAll (onEach matS m) ψ idx ∧
    (Atom.t m false).op ψ idx = actAll (onEach matT m) ψ idx :=
  ⟨x_multi m hm ψ idx, y_multi m hm ψ idx, z_multi m hm ψ idx, s_multi m hm ψ idx,
    t_multi hs m hm ψ idx⟩

/-- `h(mask)` never fails on a 64-bit mask and acts as `H` on each selected qubit (the queue
pairs the bits into `H⊗H` kernels). -/
theorem C01_h (hs : 2 * (Consts.invSqrt2 : R) * Consts.invSqrt2 = 1)
    (hh : 2 * (Consts.half : R) = 1) (m : Nat) (hm : m < 2 ^ 64) :
    ∃ o : MultiOp R, Op.h m = some o ∧ MultiOp.actOn o = m ∧
      ∀ ψ : State R, o.apply ψ = actAll (onEach matH m) ψ :=
  ⟨_, h_eq m hm, h_actOn m hm _ (h_eq m hm), fun ψ => h_apply m hm hs hh _ (h_eq m hm) ψ⟩

/-- `u3(θ, φ, λ, a)` on one qubit is `RZ(λ)`, then `RY(θ)`, then `RZ(φ)`; on any other mask it
panics. -/
theorem C01_u3 (the phi lam : Cx R) (a : Nat) :
    (popcount a = 1 → ∃ o : MultiOp R, Op.u3 the phi lam a = some o ∧ ∀ ψ : State R,
      o.apply ψ = act1 (matRZ phi.re phi.im) a (act1 (matRY the.re the.im) a
        (act1 (matRZ lam.re lam.im) a ψ))) ∧
    (popcount a ≠ 1 → Op.u3 the phi lam a = none) := by
  constructor
  · intro hp
    exact ⟨_, by rw [u3_eq, if_pos hp], u3_apply the phi lam a⟩
  · intro hp
    rw [u3_eq, if_neg hp]

/-- Every single constructor call (no `.c`, `.dgr`, `*`) agrees with the reference semantics:
both panic, or the built queue refines the documented circuit. -/
theorem C01_leaf (hs : 2 * (Consts.invSqrt2 : R) * Consts.invSqrt2 = 1)
    (hh : 2 * (Consts.half : R) = 1) (phaseOf : QftPhases R) (e : OpExpr R) (_hl : e.IsLeaf)
    (hw : e.WordOK) :
    match OpExpr.build phaseOf e, Spec.denote phaseOf e with
    | .ok o, .ok gs supp => Refines o gs supp
    | .refused, .refused => True
    | .panic, .panic => True
    | _, _ => False :=
  build_refines hs hh phaseOf e hw

/-! ### constructors that need exactly one / two target qubits -/

omit [Consts R] in
/-- `rx ry rz u1` panic ("Mask should contain 1 bit!") exactly when the mask does not have
exactly one bit. MODEL side, any mask. -/
theorem C01_refuse_one (phaseOf : QftPhases R) (k : Rot1) (ph : Cx R) (a : Nat) :
    OpExpr.build phaseOf (.rot1 k ph a) = .panic ↔ popcount a ≠ 1 := by
  rw [build_rot1]
  by_cases hp : popcount a = 1 <;> simp [hp]

omit [Consts R] in
/-- `rxx ryy rzz` and `swap sqrt_swap i_swap sqrt_i_swap` panic exactly when the mask does not
have exactly two bits. MODEL side, any mask. -/
theorem C01_refuse_two (phaseOf : QftPhases R) (ab : Nat) :
    (∀ (k : Rot2) (ph : Cx R), OpExpr.build phaseOf (.rot2 k ph ab) = .panic ↔ popcount ab ≠ 2) ∧
    (∀ k : Two, OpExpr.build phaseOf (.two k ab : OpExpr R) = .panic ↔ popcount ab ≠ 2) := by
  constructor
  · intro k ph
    rw [build_rot2]
    by_cases hp : popcount ab = 2 <;> simp [hp]
  · intro k
    rw [build_two]
    by_cases hp : popcount ab = 2 <;> simp [hp]

/-- The reference semantics prescribes a panic for exactly the same programs (64-bit masks). -/
theorem C01_refuse_spec (hs : 2 * (Consts.invSqrt2 : R) * Consts.invSqrt2 = 1)
    (hh : 2 * (Consts.half : R) = 1) (phaseOf : QftPhases R) (e : OpExpr R) (hw : e.WordOK) :
    OpExpr.build phaseOf e = .panic ↔ Spec.denote phaseOf e = .panic :=
  (build_agree hs hh phaseOf e hw).panic_iff

/-! ### the reported matrix -/

/-- Entry `(i, j)` of the reported matrix is amplitude `i` of the image of basis state `j`. -/
theorem C01_matrix_column (o : MultiOp R) (i j : Nat) :
    MultiOp.matrix o i j = o.apply (fun k => if k = j then 1 else 0) i := rfl

/-- A built operator is additive. -/
theorem C01_apply_add (hs : 2 * (Consts.invSqrt2 : R) * Consts.invSqrt2 = 1)
    (hh : 2 * (Consts.half : R) = 1) (phaseOf : QftPhases R) (e : OpExpr R) (hw : e.WordOK)
    (o : MultiOp R) (hb : OpExpr.build phaseOf e = .ok o) (ψ φ : State R) :
    o.apply (fun i => ψ i + φ i) = fun i => o.apply ψ i + o.apply φ i := by
  obtain ⟨gs, supp, _, hr⟩ := build_ok_iff hs hh phaseOf e hw o hb
  exact hr.isLinear.add ψ φ

/-- A built operator is homogeneous. -/
theorem C01_apply_smul (hs : 2 * (Consts.invSqrt2 : R) * Consts.invSqrt2 = 1)
    (hh : 2 * (Consts.half : R) = 1) (phaseOf : QftPhases R) (e : OpExpr R) (hw : e.WordOK)
    (o : MultiOp R) (hb : OpExpr.build phaseOf e = .ok o) (z : Cx R) (ψ : State R) :
    o.apply (fun i => z * ψ i) = fun i => z * o.apply ψ i := by
  obtain ⟨gs, supp, _, hr⟩ := build_ok_iff hs hh phaseOf e hw o hb
  exact hr.isLinear.smul z ψ

/-- **The reported matrix is the linear map performed**: for a state of an `n`-qubit register
(zero from index `2^n` on), `apply` is the matrix–vector product with `Applicable::matrix`. -/
theorem C01_matrix_linear (hs : 2 * (Consts.invSqrt2 : R) * Consts.invSqrt2 = 1)
    (hh : 2 * (Consts.half : R) = 1) (phaseOf : QftPhases R) (e : OpExpr R) (hw : e.WordOK)
    (o : MultiOp R) (hb : OpExpr.build phaseOf e = .ok o) (n : Nat) (ψ : State R)
    (hψ : ∀ i, 2 ^ n ≤ i → ψ i = 0) (i : Nat) :
    o.apply ψ i = ∑ j ∈ Finset.range (2 ^ n), MultiOp.matrix o i j * ψ j := by
  obtain ⟨gs, supp, _, hr⟩ := build_ok_iff hs hh phaseOf e hw o hb
  exact hr.matrix_linear (2 ^ n) ψ hψ i

/-! ### unitarity -/

/-- Every gate of the prescribed circuit is a documented unitary (or a controlled one) on
distinct single qubits disjoint from its controls, provided all half-angle phases lie on the
unit circle. -/
theorem C01_unitary (hs : 2 * (Consts.invSqrt2 : R) * Consts.invSqrt2 = 1)
    (hh : 2 * (Consts.half : R) = 1) (phaseOf : QftPhases R)
    (hp : ∀ j, Cx.IsUnitPhase (phaseOf j)) (e : OpExpr R) (hw : e.WordOK) (hu : e.UnitPhases)
    (gs : List (SGate R)) (supp : Nat) (hd : Spec.denote phaseOf e = .ok gs supp) :
    ∀ g ∈ gs, g.WF ∧ g.IsUnitary :=
  denote_good hs hh phaseOf hp e hw hu gs supp hd

/-- Hence a built operator preserves the squared norm of every `n`-qubit register that contains
the qubits it acts on. -/
theorem C01_norm (hs : 2 * (Consts.invSqrt2 : R) * Consts.invSqrt2 = 1)
    (hh : 2 * (Consts.half : R) = 1) (phaseOf : QftPhases R)
    (hp : ∀ j, Cx.IsUnitPhase (phaseOf j)) (e : OpExpr R) (hw : e.WordOK) (hu : e.UnitPhases)
    (o : MultiOp R) (hb : OpExpr.build phaseOf e = .ok o) (n : Nat)
    (hn : MultiOp.actOn o < 2 ^ n) (ψ : State R) :
    normSqSum n (o.apply ψ) = normSqSum n ψ := by
  obtain ⟨gs, supp, hd, hr⟩ := build_ok_iff hs hh phaseOf e hw o hb
  exact hr.normSq (denote_good hs hh phaseOf hp e hw hu gs supp hd) n (by rw [← hr.actOn]; exact hn) ψ

end Qvnt
