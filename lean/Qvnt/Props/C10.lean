/-
C10 (static part) — the k-th declared qubit (counting across all quantum registers in
declaration order) is bit k of the state index, likewise for classical bits; distinct
declared (qu)bits never share a bit; every gate statement contributes its operator exactly
once and in program order.

MODEL objects: `Interp.maskByAlias` (`fold_idx_by_alias`), `getIdx`, `processNode`,
`processNodes`, `processApply`, `ExtOp.push`, `ExtOp.branchWithId`, `Macro.process`
(`process_nested`). `regList self ch true/false` is the alias list (one entry per declared
qubit / bit, in declaration order) of the session plus the chunk being processed. The
dynamic part of C10 (what the queue does to a state) is `Spec/RefSem` + `Props/C09`.
-/
import Qvnt.Lemmas.IntLogic

namespace Qvnt
open Interp

/-! ### the k-th declared (qu)bit is bit k -/
section
variable {R : Type}

/-- bit `k` of a register's mask is set iff the `k`-th declared (qu)bit belongs to it -/
theorem C10_position_is_bit (l : List String) (a : String) (hl : l.length ≤ 64) (k : Nat) :
    (maskByAlias l a).testBit k = decide (l[k]? = some a) :=
  maskByAlias_testBit l a hl k

/-- a register declared as `n` consecutive positions after `pre.length` earlier ones occupies
exactly the bits `pre.length, …, pre.length + n - 1`, and its `i`-th element is bit
`pre.length + i` -/
theorem C10_bits (pre post : List String) (a : String) (n : Nat)
    (hl : (pre ++ List.replicate n a ++ post).length ≤ 64) (hpre : a ∉ pre) (hpost : a ∉ post) :
    maskByAlias (pre ++ List.replicate n a ++ post) a = (2 ^ n - 1) * 2 ^ pre.length ∧
    ∀ i, i < n →
      (bitsIterList (maskByAlias (pre ++ List.replicate n a ++ post) a))[i]? =
        some (2 ^ (pre.length + i)) :=
  ⟨maskByAlias_block pre post a n hl hpre hpost,
   fun i hi => bitsIterList_block pre post a n i hl hpre hpost hi⟩

/-- … so `a[i]` resolves to the single bit `pre.length + i` -/
theorem C10_qubit_index (self ch : Interp R) (quantum : Bool) (pre post : List String)
    (a : String) (n i : Nat)
    (hshape : regList self ch quantum = pre ++ List.replicate n a ++ post)
    (hl : (regList self ch quantum).length ≤ 64) (hpre : a ∉ pre) (hpost : a ∉ post)
    (hi : i < n) :
    getIdx self ch quantum (.qubit a i) = .ok (2 ^ (pre.length + i)) :=
  getIdx_block self ch quantum pre post a n i hshape hl hpre hpost hi

/-- a resolved `a[i]` is always one bit at a position that holds `a` -/
theorem C10_single_bit (self ch : Interp R) (quantum : Bool) (a : String) (i b : Nat)
    (hl : (regList self ch quantum).length ≤ 64)
    (h : getIdx self ch quantum (.qubit a i) = .ok b) :
    ∃ k, k < (regList self ch quantum).length ∧ (regList self ch quantum)[k]? = some a ∧
      b = 2 ^ k := by
  rcases getIdx_qubit_cases self ch quantum a i hl with ⟨_, h2⟩ | ⟨_, _, h2⟩ |
    ⟨_, _, k, hk, hka, _, h2⟩
  · rw [h2] at h; cases h
  · rw [h2] at h; cases h
  · rw [h2] at h; cases h; exact ⟨k, hk, hka, rfl⟩

/-! ### distinct declared (qu)bits never share a bit -/

/-- different registers have disjoint masks -/
theorem C10_disjoint (l : List String) (a b : String) (hl : l.length ≤ 64) (hab : a ≠ b) :
    maskByAlias l a &&& maskByAlias l b = 0 :=
  maskByAlias_disjoint l a b hl hab

/-- different positions are different bits -/
theorem C10_disjoint_positions (k k' : Nat) (h : k ≠ k') : 2 ^ k &&& 2 ^ k' = 0 ∧ 2 ^ k ≠ 2 ^ k' :=
  ⟨two_pow_and_two_pow_of_ne k k' h, fun e => h (Nat.pow_right_injective (Nat.le_refl 2) e)⟩

/-- two different declared (qu)bits `a[i]`, `b[j]` resolve to different, disjoint bits -/
theorem C10_disjoint_bits (self ch : Interp R) (quantum : Bool) (a b : String) (i j m1 m2 : Nat)
    (hl : (regList self ch quantum).length ≤ 64) (hne : a ≠ b ∨ i ≠ j)
    (h1 : getIdx self ch quantum (.qubit a i) = .ok m1)
    (h2 : getIdx self ch quantum (.qubit b j) = .ok m2) :
    m1 &&& m2 = 0 ∧ m1 ≠ m2 :=
  getIdx_qubit_disjoint self ch quantum a b i j m1 m2 hl hne h1 h2

end

section
variable {R : Type} [Add R] [Sub R] [Mul R] [Neg R] [Div R] [ExprFns R] [AngleFns R]

/-- an accepted `qreg a[n]` appends `n` positions under a name not used before (by either
kind of register), so the alias list always has the block shape `C10_bits` asks for -/
theorem C10_decl_shape (self ch ch' : Interp R) (a : String) (n : Nat)
    (h : processNode self ch (.qreg a n) = .ok ch') :
    regList self ch' true = regList self ch true ++ List.replicate n a ∧
    regList self ch' false = regList self ch false ∧
    a ∉ regList self ch true ∧ a ∉ regList self ch false ∧
    (regList self ch true).length + n < 64 :=
  qreg_shape self ch ch' a n h

theorem C10_decl_shape_classical (self ch ch' : Interp R) (a : String) (n : Nat)
    (h : processNode self ch (.creg a n) = .ok ch') :
    regList self ch' false = regList self ch false ++ List.replicate n a ∧
    regList self ch' true = regList self ch true ∧
    a ∉ regList self ch true ∧ a ∉ regList self ch false ∧
    (regList self ch false).length + n < 64 :=
  creg_shape self ch ch' a n h

/-- with `k` qubits declared before it, the `i`-th qubit of a freshly declared register is
the `(k+i)`-th declared qubit and resolves to bit `k + i` -/
theorem C10_new_register (self ch ch' : Interp R) (a : String) (n i : Nat)
    (h : processNode self ch (.qreg a n) = .ok ch') (hi : i < n) :
    getIdx self ch' true (.qubit a i) = .ok (2 ^ ((regList self ch true).length + i)) := by
  obtain ⟨hs, _, hpre, _, hlen⟩ := qreg_shape self ch ch' a n h
  refine getIdx_block self ch' true (regList self ch true) [] a n i (by rw [hs]; simp) ?_ hpre
    (by simp) hi
  rw [hs, List.length_append, List.length_replicate]; omega

/-! ### every statement contributes exactly once, in program order -/

/-- an accepted gate application pushes exactly one operator and changes nothing else -/
theorem C10_apply_once (self ch ch' : Interp R) (c : Call R)
    (h : processApply self ch c = .ok ch') : ∃ o, ch' = { ch with qOps := ch.qOps.push o } :=
  processApply_ok self ch ch' c h

/-- … namely the operator the gate dispatch returned for the resolved arguments -/
theorem C10_apply_operator (self ch ch' : Interp R) (c : Call R)
    (hl : (regList self ch true).length ≤ 64) (h : processApply self ch c = .ok ch') :
    ∃ args o, evalArgs0 c.args = .ok args ∧
      callGate (self.macros ++ ch.macros) c.name
        (c.regs.map (argMask (regList self ch true))) args = .ok o ∧
      ch' = { ch with qOps := ch.qOps.push o } := by
  rw [processApply_eq self ch c hl] at h
  split at h
  · cases h
  · split at h
    · cases h
    · rename_i args hargs
      split at h
      · rename_i o ho
        cases h; exact ⟨args, o, hargs, ho, rfl⟩
      · cases h
      · cases h

/-- what an accepted statement changes, kind by kind: declarations touch only the alias
lists, barrier / opaque nothing, reset / measure close exactly one block, a gate application
pushes exactly one operator, a gate definition only extends the gate table, an `if` closes
the pending block and adds the guarded operator as one block of its own -/
theorem C10_frame (self ch ch' : Interp R) (n : Node R) (h : processNode self ch n = .ok ch') :
    ch'.mOp = ch.mOp ∧ ch'.asts = ch.asts ∧
    (match n with
     | .qreg a k => ch' = { ch with qReg := ch.qReg ++ List.replicate k a }
     | .creg a k => ch' = { ch with cReg := ch.cReg ++ List.replicate k a }
     | .barrier => ch' = ch
     | .opaque => ch' = ch
     | .reset _ => ∃ m, ch' = { ch with qOps := ch.qOps.branchWithId (.reset m) }
     | .measure _ _ => ∃ qa ca, ch' = { ch with qOps := ch.qOps.branchWithId (.measure qa ca) }
     | .apply _ => ∃ o, ch' = { ch with qOps := ch.qOps.push o }
     | .gate name _ _ _ => ∃ m, ch' = { ch with macros := ch.macros ++ [(name, m)] }
     | .ifn _ rhs _ => ∃ o val, ch' = { ch with
         qOps := ifQueue (ch.qOps.branch .nop) (({} : ExtOp R).push o) val rhs }) :=
  processNode_frame self ch ch' n h

/-- an accepted program is one step per statement (`stepKind`: gate application ↦ one
`push`, measure / reset ↦ one `branchWithId`, `if` ↦ one guarded block, everything else ↦
nothing), and the queue is these steps folded in program order -/
theorem C10_once_in_order (self ch ch' : Interp R) (ns : List (Node R))
    (h : processNodes self ch ns = .ok ch') :
    ∃ sts : List (Step R), List.Forall₂ stepKind ns sts ∧
      ch'.qOps = sts.foldl Step.run ch.qOps :=
  processNodes_steps self ch ch' ns h

/-- composition in list order: running `a ++ b` is running `a`, then `b` on its result -/
theorem C10_compose (self ch ch' : Interp R) (a b : List (Node R))
    (h : processNodes self ch a = .ok ch') :
    processNodes self ch (a ++ b) = processNodes self ch' b :=
  processNodes_ok_append self ch ch' a b h

/-! ### user-defined gates: substitution, body order -/

/-- one level of a user-defined gate: arity checks, then the body's calls in body order, their
operators concatenated; the first failing call's outcome is the result (`seqCalls`) -/
theorem C10_macro_subst (macros : List (String × Macro R)) (fuel : Nat) (m : Macro R)
    (name : String) (regs : List Nat) (args : List R) (stack : List String) :
    Macro.process macros (fuel + 1) m name regs args stack =
      if regs.length ≠ m.regs.length then .err (.wrongRegNumber name regs.length)
      else if args.length ≠ m.args.length then .err (.wrongArgNumber name args.length)
      else seqCalls (callOne macros fuel m regs args stack) m.nodes :=
  Macro.process_succ macros fuel m name regs args stack

omit [Add R] [Sub R] [Mul R] [Neg R] [Div R] [ExprFns R] [AngleFns R] in
/-- the concatenation, spelled out -/
theorem C10_macro_body_order (f : Call R → Res (MultiOp R)) (c : Call R) (cs : List (Call R)) :
    seqCalls f [] = .ok [] ∧
    seqCalls f (c :: cs) =
      match f c with
      | .ok o =>
        (match seqCalls f cs with
         | .ok os => .ok (o ++ os)
         | r => r)
      | r => r := ⟨rfl, rfl⟩

/-- a body statement that calls a built-in gate is `Gates.process` of that name on the actual
masks substituted for the formal qubit names and the parameter expressions evaluated with
the formal parameters bound to the actual values -/
theorem C10_macro_call_builtin (macros : List (String × Macro R)) (fuel : Nat) (m : Macro R)
    (regs : List Nat) (args : List R) (stack : List String) (c : Call R) (regsI : List Nat)
    (argsI : List R)
    (hr : c.regs.mapM (fun a => lookupLast (m.regs.zip regs) a.name) = some regsI)
    (ha : evalArgsWith (m.args.zip args) c.args = .ok argsI)
    (hb : macros.find? (fun p => p.1 == c.name) = none) :
    callOne macros fuel m regs args stack c = Gates.process c.name regsI argsI := by
  simp only [callOne, hr, ha, hb]

/-- a body statement that calls a defined gate is `Macro.process` of that gate with the
substituted arguments, one level deeper, unless the name is already on the call stack (true
by definition of the model; recorded here for the nested case) -/
theorem C10_macro_call_nested (macros : List (String × Macro R)) (fuel : Nat) (m m' : Macro R)
    (regs : List Nat) (args : List R) (stack : List String) (c : Call R) (regsI : List Nat)
    (argsI : List R) (key : String)
    (hr : c.regs.mapM (fun a => lookupLast (m.regs.zip regs) a.name) = some regsI)
    (ha : evalArgsWith (m.args.zip args) c.args = .ok argsI)
    (hb : macros.find? (fun p => p.1 == c.name) = some (key, m')) :
    callOne macros fuel m regs args stack c =
      if stack.contains c.name then .err (.macroError (.recursiveMacro c.name))
      else Macro.process macros fuel m' c.name regsI argsI (stack ++ [c.name]) := by
  simp only [callOne, hr, ha, hb]

/-- a parameter expression of a body statement that fails under the bindings is reported with
the called gate's name -/
theorem C10_macro_call_bad_parameter (macros : List (String × Macro R)) (fuel : Nat) (m : Macro R)
    (regs : List Nat) (args : List R) (stack : List String) (c : Call R) (regsI : List Nat)
    (e : EvalErr)
    (hr : c.regs.mapM (fun a => lookupLast (m.regs.zip regs) a.name) = some regsI)
    (ha : evalArgsWith (m.args.zip args) c.args = .error e) :
    callOne macros fuel m regs args stack c = .err (.unevaluatedArgument c.name e) := by
  simp only [callOne, hr, ha]

end

/-! ### non-vacuity: concrete programs over `Int` (dummy function instances) -/

namespace C10Ex
scoped instance : ExprFns Int where
  pi := 3
  pow a b := a ^ b.toNat
  rem a b := a % b
  sqrt a := a
  exp a := a
  ln a := a
  abs a := a.natAbs
  floor a := a
  ceil a := a
  round a := a
  atan2 a _ := a
  max a b := max a b
  min a b := min a b
  negInf := -1000000
  posInf := 1000000

scoped instance : AngleFns Int where
  halfPhase a := ⟨a, 0⟩
  quarter := ⟨0, 1⟩
  qftPhase k := ⟨k, 0⟩

/-- `qreg a[2]; qreg b[3]; qreg c[1];` — `b` occupies bits 2, 3, 4 -/
example : maskByAlias ["a", "a", "b", "b", "b", "c"] "b" = 28
    ∧ bitsIterList (maskByAlias ["a", "a", "b", "b", "b", "c"] "b") = [4, 8, 16] := by decide

/-- after `qreg q[2]; qreg r[3];` the qubit `r[1]` is the 4th declared qubit: bit 3 -/
example : getIdx ({} : Interp Int) { qReg := ["q", "q", "r", "r", "r"] } true (.qubit "r" 1)
    = .ok 8 := by decide

def q (i : Nat) : Arg := .qubit "q" i

/-- `qreg q[2]; creg c[2]; h q[0]; cx q[0],q[1]; x q[1]; measure q -> c; x q[0];`
three gate statements = three operators (act / ctrl masks, in program order) in one block
closed by the measurement; the last gate waits in the tail -/
example :
    (match processNodes ({} : Interp Int) {}
        [.qreg "q" 2, .creg "c" 2, .apply ⟨"h", [q 0], []⟩, .apply ⟨"cx", [q 0, q 1], []⟩,
         .apply ⟨"x", [q 1], []⟩, .measure (.register "q") (.register "c"),
         .apply ⟨"x", [q 0], []⟩] with
     | .ok ch => (ch.qOps.blocks.map (fun b => (b.1.map (fun g => (g.act, g.ctrl)), b.2)),
                  ch.qOps.tail.map (fun g => (g.act, g.ctrl)))
     | _ => ([], []))
    = ([([(1, 0), (2, 1), (2, 0)], .measure 3 3)], [(1, 0)]) := by decide +kernel

/-- `gate bell a, b { h a; cx a, b; }` called on the masks `2, 1`: `h` on 2, then `x` on 1
controlled by 2 — body order, actuals substituted for the formals -/
example :
    (match callGate (R := Int)
        [("bell", ⟨["a", "b"], [], [⟨"h", [.register "a"], []⟩,
          ⟨"cx", [.register "a", .register "b"], []⟩]⟩)] "bell" [2, 1] [] with
     | .ok o => o.map (fun g => (g.act, g.ctrl))
     | _ => [])
    = [(2, 0), (1, 2)] := by decide +kernel
end C10Ex

end Qvnt
