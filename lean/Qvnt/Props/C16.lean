/-
C16 — histograms: `2^n` cells, exact shot total, no shots on impossible outcomes.

MODEL objects: stage 2 of `sample_all`, `QReg.sampleFix qMask n0 pos count` (`n0` the rounded
Gaussian proposal, `pos[i] = (p[i] > 0)`), with its two branches `QReg.addDeficit` and
`QReg.removeSurplus`, and the whole `QReg.sampleAll` (stage 1 `QReg.sampleProposal` is floating
point: what it must satisfy on a zero-probability cell is an explicit hypothesis of `C16_zero`).
`none` = a Rust panic (index out of bounds) or a walk that does not terminate within its fuel.
-/
import Qvnt.Lemmas.Regs14

namespace Qvnt

/-! ### stage 2 (integers only) -/

/-- no panic, and the surplus walk terminates within its fuel: for every register size
(`n = 0, 1, 2, …`), every proposal and every shot count (0 and 1 included) -/
theorem C16_fix_isSome (n : Nat) (n0 : List Nat) (pos : List Bool) (hl : n0.length = 2 ^ n)
    (hp : pos.length = 2 ^ n) (count : Nat) :
    (QReg.sampleFix (2 ^ n - 1) n0 pos count).isSome := by
  obtain ⟨hist, h, _⟩ := QReg.sampleFix_spec n n0 pos hl hp count
  rw [h]; rfl

/-- the histogram has `2^n` cells -/
theorem C16_fix_length (n : Nat) (n0 : List Nat) (pos : List Bool) (hl : n0.length = 2 ^ n)
    (hp : pos.length = 2 ^ n) (count : Nat) (hist : List Nat)
    (h : QReg.sampleFix (2 ^ n - 1) n0 pos count = some hist) : hist.length = 2 ^ n := by
  obtain ⟨hist', h', hlen, _⟩ := QReg.sampleFix_spec n n0 pos hl hp count
  rw [h] at h'; cases h'; exact hlen

/-- the cells sum to exactly the requested number of shots (missing shots need a cell of
positive probability to go to) -/
theorem C16_fix_total (n : Nat) (n0 : List Nat) (pos : List Bool) (hl : n0.length = 2 ^ n)
    (hp : pos.length = 2 ^ n) (count : Nat) (hist : List Nat)
    (hsupp : n0.sum < count → ∃ i : Nat, pos[i]? = some true)
    (h : QReg.sampleFix (2 ^ n - 1) n0 pos count = some hist) : hist.sum = count := by
  obtain ⟨hist', h', _, hsum, _⟩ := QReg.sampleFix_spec n n0 pos hl hp count
  rw [h] at h'; cases h'; exact hsum hsupp

/-- a cell of probability zero that the proposal left empty stays empty -/
theorem C16_fix_zero (n : Nat) (n0 : List Nat) (pos : List Bool) (hl : n0.length = 2 ^ n)
    (hp : pos.length = 2 ^ n) (count : Nat) (hist : List Nat)
    (hz : ∀ i : Nat, pos[i]? = some false → n0[i]? = some 0)
    (h : QReg.sampleFix (2 ^ n - 1) n0 pos count = some hist) :
    ∀ i : Nat, pos[i]? = some false → hist[i]? = some 0 := by
  obtain ⟨hist', h', _, _, hzero⟩ := QReg.sampleFix_spec n n0 pos hl hp count
  rw [h] at h'; cases h'
  exact fun i hi => hzero i hi (hz i hi)

/-- deficit branch: 3 missing shots, 2 possible cells -/
example : QReg.sampleFix (2 ^ 2 - 1) [5, 0, 2, 0] [true, false, true, false] 10
    = some [7, 0, 3, 0] := by decide
/-- surplus branch: 3 shots too many, the walk wraps around and skips the empty cells -/
example : QReg.sampleFix (2 ^ 2 - 1) [5, 0, 2, 0] [true, false, true, false] 4
    = some [3, 0, 1, 0] := by decide
/-- 0 qubits (one cell), 0 and 1 shots -/
example : QReg.sampleFix (2 ^ 0 - 1) [3] [true] 0 = some [0]
    ∧ QReg.sampleFix (2 ^ 0 - 1) [0] [true] 1 = some [1]
    ∧ QReg.sampleFix (2 ^ 1 - 1) [0, 0] [false, true] 1 = some [0, 1] := by decide

/-- the hypothesis `hsupp` of `C16_fix_total` cannot be dropped: with no cell of positive
probability (an all-zero, i.e. non-normalisable, buffer) the missing shot is lost -/
example : QReg.sampleFix (2 ^ 0 - 1) [0] [false] 1 = some [0] := by decide
/-- the hypothesis `hz` of `C16_fix_zero` cannot be dropped: stage 2 never empties a cell that
stage 1 filled unless there is a surplus -/
example : QReg.sampleFix (2 ^ 1 - 1) [2, 0] [false, true] 2 = some [2, 0] := by decide

/-! ### the whole `sample_all` -/

section sampleAll
variable {R : Type} [Add R] [Sub R] [Mul R] [Zero R] [One R] [Div R] [HasSqrt R]
  [QReg.HasRound R] [LT R] [DecidableLT R]

/-- `sample_all` returns (no panic, terminating walk) a histogram of `2^n` cells -/
theorem C16_len (r : QReg R) (count : Nat) (g : List R) (hq : r.qMask = 2 ^ r.qNum - 1)
    (hg : g.length ≥ 2 ^ r.qNum) :
    ∃ hist, r.sampleAll count g = some hist ∧ hist.length = 2 ^ r.qNum := by
  obtain ⟨hist, h, hlen, _⟩ := QReg.sampleAll_spec r count g hq hg
  exact ⟨hist, h, hlen⟩

/-- the cells sum to exactly `count` as soon as some reported probability is positive -/
theorem C16_total (r : QReg R) (count : Nat) (g : List R) (hq : r.qMask = 2 ^ r.qNum - 1)
    (hg : g.length ≥ 2 ^ r.qNum) (hpos : ∃ x ∈ r.getProbabilities, 0 < x)
    (hist : List Nat) (h : r.sampleAll count g = some hist) : hist.sum = count := by
  obtain ⟨hist', h', _, hsum, _⟩ := QReg.sampleAll_spec r count g hq hg
  rw [h] at h'; cases h'; exact hsum hpos

/-- a basis state whose reported probability is exactly `0` receives no shots, provided the
scalar arithmetic of stage 1 sends such a cell to a non-positive integer: `0 < 0` is false and
`round (c·0 + √c·(√0·g − s·0)) ≤ 0` (true of IEEE doubles for finite `c`, `g`, `s`) -/
theorem C16_zero (r : QReg R) (count : Nat) (g : List R) (hq : r.qMask = 2 ^ r.qNum - 1)
    (hg : g.length ≥ 2 ^ r.qNum) (hlt : ¬ (0 : R) < 0)
    (hround : ∀ c cs s x : R,
      QReg.HasRound.roundInt (c * 0 + cs * (HasSqrt.sqrt 0 * x - s * 0)) ≤ 0)
    (hist : List Nat) (h : r.sampleAll count g = some hist) :
    ∀ i : Nat, r.getProbabilities[i]? = some 0 → hist[i]? = some 0 := by
  obtain ⟨hist', h', _, _, hzero⟩ := QReg.sampleAll_spec r count g hq hg
  rw [h] at h'; cases h'
  intro i hi
  have hpl := QReg.getProbabilities_length r
  exact hzero i ⟨0, hi, hlt⟩
    (QReg.sampleProposal_zero r.getProbabilities count g (by omega) hround i hi)

end sampleAll

/-! non-vacuity over `Int` (exact arithmetic, `√` the integer square root, `round` the identity):
`|1>` on one qubit has probabilities `[0, 1]`; 5 shots with draws `[3, -2]` -/
section nonvacuous

local instance : HasSqrt Int := ⟨fun x => (Nat.sqrt x.toNat : Int)⟩
local instance : QReg.HasRound Int := ⟨fun n => (n : Int), fun x => x⟩

example : (QReg.withState (R := Int) 1 1).getProbabilities = [0, 1] := by decide

example : ∃ hist, (QReg.withState (R := Int) 1 1).sampleAll 5 [3, -2] = some hist
    ∧ hist.length = 2 ∧ hist.sum = 5 ∧ hist[0]? = some 0 := by
  obtain ⟨hist, h, hlen⟩ := C16_len (QReg.withState (R := Int) 1 1) 5 [3, -2] rfl (by decide)
  refine ⟨hist, h, hlen, ?_, ?_⟩
  · exact C16_total _ 5 _ rfl (by decide) ⟨1, by decide, by decide⟩ hist h
  · refine C16_zero _ 5 _ rfl (by decide) (by decide) ?_ hist h 0 (by decide)
    intro c cs s x
    show c * 0 + cs * (((Nat.sqrt (0 : Int).toNat : Nat) : Int) * x - s * 0) ≤ 0
    simp

end nonvacuous

end Qvnt
