/-
C12 — the OpenQASM interpreter is total: a result or an error value, never a crash or hang.

MODEL objects (`Qvnt/Model/Interp.lean`): `Res α = ok | err | panic site`, where `panic site`
marks every place where the Rust code could panic (`unwrap`, `expect`, slice / `HashMap`
indexing) or loop / recurse without bound (fuel exhausted: `"name-recursion"`,
`"macro-depth"`). The theorems say that no `panic` value is reachable:

* `gates::process` (built-in gates, `c`/`C` prefixes included): every gate name — empty,
  one letter, multi-byte — every register list of machine words, every parameter list;
* `Macro::process_nested` (user-defined gates): every table of gates accepted by
  `Macro::new`, (mutually) recursive definitions included — expansion terminates;
* `Int::add_ast` / `Int::new`: every AST, in every session state reachable from the empty one;
* `Sym::finish`: every accepted program runs to completion.

Outside the model (trusted base): text → AST (`qvnt-qasm`) and text → RPN (`meval`).

Auxiliary definitions used in the statements (all in `Qvnt/Lemmas/Total.lean`):
`MacroOK m` : every register argument of every call in the body of `m` is `.register name`
  with `name` a formal of `m` (what `Macro::new` checks);
`MacrosOK macros` : every entry of the table is `MacroOK`;
`Interp.Inv s` : `MacrosOK s.macros ∧ s.qReg.length < 64 ∧ s.cReg.length < 64`;
`Interp.ChInv s ch` : the same for the pending changes `ch` of a chunk on top of `s`;
`ExtOp.drawCount` : the number of `measure` / `reset` separators of a block queue.
-/
import Qvnt.Lemmas.Total

namespace Qvnt

/-! ### 1. built-in gates -/

section
variable {R : Type} [Neg R] [AngleFns R]

/-- `gates::process` returns a value or an error value for every name, every list of
machine-word masks and every parameter list: the recursion on `c`/`C` prefixes ends (the
model's fuel, the number of characters of the name, never runs out) and no constructor is
called with a mask its `expect` would reject. A rejected control mask (`MultiOp::c`) is the
error value `invalidControlMask`. -/
theorem C12_gates_no_panic (name : String) (regs : List Nat) (args : List R)
    (hr : ∀ m ∈ regs, m < 2 ^ 64) : ∀ s, Gates.process name regs args ≠ .panic s :=
  Gates.process_noPanic name regs args hr

/-- the same, as a disjunction -/
theorem C12_gates_total (name : String) (regs : List Nat) (args : List R)
    (hr : ∀ m ∈ regs, m < 2 ^ 64) :
    (∃ o, Gates.process name regs args = .ok o) ∨ (∃ e, Gates.process name regs args = .err e) :=
  (Res.noPanic_iff _).mp (Gates.process_noPanic name regs args hr)

/-- every `gate!` arm of the generated table: the popcount test of the arm is the validity
test of the constructor the row is bound to -/
theorem C12_arm_no_panic (name : String) (row : Generated.Row) (hrow : row ∈ Generated.gateTable)
    (regs : List Nat) (hr : ∀ m ∈ regs, m < 2 ^ 64) (args : List R) :
    ∀ s, runArm name row regs args ≠ .panic s :=
  runArm_noPanic name row hrow regs hr args

end

/-- The prefix test of `gates::process` is on BYTES (`name.len() > 1`), the fuel of the model
counts CHARACTERS: when the test succeeds the name has at least two characters, so the fuel
is positive at every level at which the recursion happens. -/
theorem C12_prefix_guard (name : String)
    (h : (decide (name.utf8ByteSize > 1) &&
      (name.toList.head? == some 'c' || name.toList.head? == some 'C')) = true) :
    2 ≤ name.length := guard_length_two name h

/-! ### 2. user-defined gates -/

section
variable {R : Type} [Add R] [Sub R] [Mul R] [Neg R] [Div R] [ExprFns R] [AngleFns R]

omit [AngleFns R] in
/-- `Macro::new` only accepts bodies all of whose register arguments are formals -/
theorem C12_macro_new_ok (regs args : List String) (body : List (Inner R)) (m : Macro R)
    (h : Macro.new regs args body = .ok m) : MacroOK m := Macro.new_ok regs args body m h

/-- Expansion of a user-defined gate never panics: neither `"macro-depth"` (the call stack
is duplicate-free and made of keys of the table, a repeated name is reported as
`recursiveMacro`, so the nesting depth is at most the number of distinct keys) nor
`"regs[&name]"` (every body argument is a formal and the arity was checked). -/
theorem C12_macro_no_panic (macros : List (String × Macro R)) (hM : MacrosOK macros)
    (fuel : Nat) (m : Macro R) (hm : MacroOK m) (name : String) (regs : List Nat) (args : List R)
    (hr : ∀ x ∈ regs, x < 2 ^ 64) (stack : List String) (hnd : stack.Nodup)
    (hst : ∀ n ∈ stack, n ∈ macros.map (·.1))
    (hfuel : (macros.map (·.1)).eraseDups.length - stack.length + 1 ≤ fuel) :
    ∀ s, Macro.process macros fuel m name regs args stack ≠ .panic s :=
  Macro.process_noPanic macros hM (macros.map (·.1)).eraseDups
    (fun p hp => List.mem_eraseDups.mpr (List.mem_map.mpr ⟨p, hp, rfl⟩))
    fuel m name regs args stack hm hr hnd (fun n hn => List.mem_eraseDups.mpr (hst n hn))
    (by omega)

/-- the call `process_apply_gate` makes: fuel `macros.length + 2`, stack `[name]` -/
theorem C12_macro_apply_no_panic (macros : List (String × Macro R)) (hM : MacrosOK macros)
    (m : Macro R) (name : String) (regs : List Nat) (args : List R)
    (hlook : lookupLast macros name = some m) (hr : ∀ x ∈ regs, x < 2 ^ 64) :
    ∀ s, Macro.process macros (macros.length + 2) m name regs args [name] ≠ .panic s :=
  Macro.process_top_noPanic macros hM m name regs args hlook hr

/-- Macro expansion terminates with a value or an error value for every table of accepted
gates, mutually recursive definitions included. -/
theorem C12_terminates (macros : List (String × Macro R)) (hM : MacrosOK macros)
    (m : Macro R) (name : String) (regs : List Nat) (args : List R)
    (hlook : lookupLast macros name = some m) (hr : ∀ x ∈ regs, x < 2 ^ 64) :
    (∃ o, Macro.process macros (macros.length + 2) m name regs args [name] = .ok o) ∨
    (∃ e, Macro.process macros (macros.length + 2) m name regs args [name] = .err e) :=
  (Res.noPanic_iff _).mp (Macro.process_top_noPanic macros hM m name regs args hlook hr)

/-! ### 3. the interpreter -/

omit [Add R] [Sub R] [Mul R] [Neg R] [Div R] [ExprFns R] [AngleFns R] in
/-- the masks `get_q_idx` / `get_c_idx` produce are machine words -/
theorem C12_idx_word (s ch : Interp R) (quantum : Bool) (a : Arg) (m : Nat)
    (h : Interp.getIdx s ch quantum a = .ok m) : m < 2 ^ 64 := Interp.getIdx_lt s ch quantum a m h

omit [Add R] [Sub R] [Mul R] [Neg R] [Div R] [ExprFns R] [AngleFns R] in
/-- the empty session satisfies the invariant -/
theorem C12_inv_init : Interp.Inv ({} : Interp R) := Interp.inv_empty

/-- an accepted chunk leaves a session that satisfies the invariant -/
theorem C12_inv_preserved (s s' : Interp R) (hs : Interp.Inv s) (nodes : List (Node R))
    (h : Interp.addAst s nodes = .ok s') : Interp.Inv s' := Interp.addAst_inv s s' hs nodes h

/-- every state of a session (chunks added one after the other, refused chunks leaving the
session unchanged) satisfies the invariant -/
theorem C12_inv_session (chunks : List (List (Node R))) :
    Interp.Inv (Interp.session ({} : Interp R) chunks) :=
  Interp.session_inv _ Interp.inv_empty chunks

/-- processing one node never panics -/
theorem C12_no_panic_node (s ch : Interp R) (hs : Interp.Inv s) (hc : Interp.ChInv s ch)
    (n : Node R) : ∀ site, Interp.processNode s ch n ≠ .panic site :=
  Interp.processNode_noPanic s ch hs.1 hc.1 n

/-- adding a chunk to a session never panics -/
theorem C12_no_panic_int (s : Interp R) (hs : Interp.Inv s) (nodes : List (Node R)) :
    ∀ site, Interp.addAst s nodes ≠ .panic site := Interp.addAst_noPanic s hs nodes

/-- `Int::new` is total: an interpreter or an error value, for every AST -/
theorem C12_new_total (nodes : List (Node R)) :
    (∃ i, Interp.new nodes = .ok i) ∨ (∃ e, Interp.new nodes = .err e) :=
  (Res.noPanic_iff _).mp (Interp.addAst_noPanic {} Interp.inv_empty nodes)

/-- `add_ast` is total in every state of a session -/
theorem C12_session_total (chunks : List (List (Node R))) (nodes : List (Node R)) :
    (∃ i, Interp.addAst (Interp.session ({} : Interp R) chunks) nodes = .ok i) ∨
    (∃ e, Interp.addAst (Interp.session ({} : Interp R) chunks) nodes = .err e) :=
  (Res.noPanic_iff _).mp
    (Interp.addAst_noPanic _ (Interp.session_inv _ Interp.inv_empty chunks) nodes)

end

/-! ### 4. execution -/

section
variable {R : Type} [Add R] [Sub R] [Mul R] [Neg R] [Zero R] [One R] [Div R] [Consts R]
  [LT R] [DecidableLT R] [HasSqrt R]

/-- An accepted program can always be executed: `Sym::finish` completes whenever the outcome
stream has one entry per `measure` / `reset` separator of the block queue (each block draws
at most once). All `Sym` / `QReg` functions of the model are total definitions, so this is a
statement about the stream only. NOT in the model: the `WeightedIndex::new(..).unwrap()` of
`measure_mask`, which panics on a state whose weights are all NaN / zero; parameter values
are not constrained to be finite (`rx(1/0) q[0]` is accepted), so that panic is reachable in
the Rust code and is recorded separately as a known finding. -/
theorem C12_run_total (i : Interp R) (drawn : List Nat)
    (h : i.qOps.drawCount ≤ drawn.length) : (Sym.finish (Sym.new i) drawn).isSome = true :=
  Sym.finish_isSome (Sym.new i) drawn h

/-- in particular a program without `measure` / `reset` needs no outcome at all -/
theorem C12_run_total_unitary (i : Interp R) (h : i.qOps.drawCount = 0) :
    (Sym.finish (Sym.new i) []).isSome = true :=
  Sym.finish_isSome (Sym.new i) [] (Nat.le_of_eq h)

end

/-! ### non-vacuity: concrete programs over `Int`-valued parameters -/

namespace C12Examples
open Interp

local instance : ExprFns Int where
  pi := 3
  pow a _ := a
  rem a b := a % b
  sqrt a := a
  exp a := a
  ln a := a
  abs a := a.natAbs
  floor a := a
  ceil a := a
  round a := a
  atan2 a _ := a
  max a b := if a ≤ b then b else a
  min a b := if a ≤ b then a else b
  negInf := -1000
  posInf := 1000

local instance : AngleFns Int where
  halfPhase a := ⟨a, 0⟩
  quarter := ⟨0, 1⟩
  qftPhase j := ⟨j, 0⟩

private def q (i : Nat) : Arg := .qubit "q" i
private def call (name : String) (regs : List Arg) : Call Int := ⟨name, regs, []⟩
private def gate1 (name callee : String) : Node Int :=
  .gate name ["x"] [] [.call (call callee [.register "x"])]

private def isErr (r : PRes Int) (e : IntError) : Bool :=
  match r with
  | .err e' => e' == e
  | _ => false

private def isOkWith (r : PRes Int) (p : Interp Int → Bool) : Bool :=
  match r with
  | .ok i => p i
  | _ => false

/-- `gate a x { b x; } gate b x { a x; } qreg q[1]; a q[0];` — mutual recursion is an
error value -/
example : isErr (Interp.new [gate1 "a" "b", gate1 "b" "a", .qreg "q" 1, .apply (call "a" [q 0])])
    (.macroError (.recursiveMacro "a")) = true := by decide

/-- `gate a x { a x; } qreg q[1]; a q[0];` — direct recursion -/
example : isErr (Interp.new [gate1 "a" "a", .qreg "q" 1, .apply (call "a" [q 0])])
    (.macroError (.recursiveMacro "a")) = true := by decide

/-- a chain `a → b → c → x` as deep as the table is accepted and expands to one `x` -/
example : isOkWith (Interp.new [gate1 "c" "x", gate1 "b" "c", gate1 "a" "b", .qreg "q" 1,
    .apply (call "a" [q 0])]) (fun i => i.qOps.tail.length == 1) = true := by decide

/-- a body argument that is not a formal is refused when the gate is defined -/
example : isErr (Interp.new [.gate "g" ["x"] [] [.call (call "h" [.register "y"])]])
    (.macroError (.unknownReg "y")) = true := by decide

/-- one-letter stem `c`, the empty name, a stem that is only prefixes -/
example : isErr (Interp.new [.qreg "q" 1, .apply (call "c" [q 0])]) (.unknownGate "c") = true := by
  decide
example : isErr (Interp.new [.qreg "q" 1, .apply (call "" [q 0])]) (.unknownGate "") = true := by
  decide
example : isErr (Interp.new [.qreg "q" 2, .apply (call "cc" [q 0, q 1])]) (.unknownGate "cc") = true := by
  decide

/-- `cx q[0];` — too few registers -/
example : isErr (Interp.new [.qreg "q" 1, .apply (call "cx" [q 0])]) (.wrongRegNumber "cx" 1) = true := by
  decide

/-- `cx q[0], q[0];` — control on the target -/
example : isErr (Interp.new [.qreg "q" 1, .apply (call "cx" [q 0, q 0])])
    (.invalidControlMask 1 1) = true := by decide

/-- `rx(foo) q[0];` — a parameter that does not evaluate -/
example : isErr (Interp.new [.qreg "q" 1, .apply ⟨"rx", [q 0], [⟨"foo", .ok [.var "foo"]⟩]⟩])
    (.unevaluatedArgument "foo" (.unknownVariable "foo")) = true := by decide

/-- `qreg q[2]; cx q[0], q[1];` is accepted -/
example : isOkWith (Interp.new [.qreg "q" 2, .apply (call "cx" [q 0, q 1])])
    (fun i => i.qOps.tail.length == 1 && i.qReg.length == 2) = true := by decide

/-- the hypothesis of `C12_run_total` on a concrete program:
`qreg q[1]; creg c[1]; x q[0]; measure q[0] -> c[0];` has one separator -/
example : isOkWith (Interp.new [.qreg "q" 1, .creg "c" 1, .apply (call "x" [q 0]),
    .measure (q 0) (.qubit "c" 0)]) (fun i => i.qOps.drawCount == 1) = true := by decide +kernel

end C12Examples

end Qvnt
