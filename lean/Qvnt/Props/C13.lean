/-
C13 — ill-formed programs are rejected with the matching error, never executed; programs that
respect every rule (and use built-in gate names only) are accepted.

MODEL objects: `Interp.processNode`, `processNodes`, `processApply`, `getIdx`, `maskByAlias`,
`checkDup`, `Interp.new` (`int/mod.rs`); `Gates.process`, `runArm` over the generated
`Generated.gateTable` (`gates.rs`); `Macro.new` (`macros.rs`); `evalExtended` (`parse.rs`).

Notation used in the statements (all defined in `Lemmas/IntLogic`):
* `regList self ch true` / `… false`: the alias list `self.qReg ++ ch.qReg` / `self.cReg ++
  ch.cReg` (one entry per declared (qu)bit) the current statement is checked against;
* `argErr l q arg`: the error a register argument raises against the list `l` (`none` = it
  resolves), `argBits`: how many (qu)bits it denotes, `argMask`: the mask it resolves to;
* `gateErr nargs name masks`: the error a built-in gate call raises; `isCtl name`: "the name
  is `c`/`C` followed by at least one more byte"; `tableRow name`: its row of the gate table;
* `bodyErr`, `bodyRegErr`, `bodyArgErr`: the first rule a gate body breaks;
* `nodeErr self ch n`: the static rule statement `n` breaks in context, `progErr` the first
  one a program breaks.
The hypothesis `… .length ≤ 64` / `lenOk` (fewer than 64 declared qubits and bits) is the
invariant the total-size rule maintains (`C13_size_invariant`); without it the shift amount of
`fold_idx_by_alias` would wrap.
The acceptance theorems are stated for statements that call built-in gates (`builtinOnly`);
a call of a user-defined gate is `Macro.process`, unfolded one level in `Props/C10`.
-/
import Qvnt.Lemmas.IntLogic

namespace Qvnt
open Interp

section
variable {R : Type} [Add R] [Sub R] [Mul R] [Neg R] [Div R] [ExprFns R] [AngleFns R]

/-! ### A. the first error wins; what follows it is never looked at -/

/-- if a prefix of the program is refused, the whole program is refused with the same error -/
theorem C13_first_error_wins (self ch : Interp R) (a b : List (Node R)) (e : IntError)
    (h : processNodes self ch a = .err e) : processNodes self ch (a ++ b) = .err e :=
  processNodes_err_prefix self ch a b e h

/-- an accepted prefix only hands its result to the rest -/
theorem C13_ok_append (self ch ch' : Interp R) (a b : List (Node R))
    (h : processNodes self ch a = .ok ch') :
    processNodes self ch (a ++ b) = processNodes self ch' b :=
  processNodes_ok_append self ch ch' a b h

/-- a violation planted at any position is reported, whatever follows it -/
theorem C13_plant (self ch ch' : Interp R) (good rest : List (Node R)) (bad : Node R)
    (e : IntError) (hg : processNodes self ch good = .ok ch')
    (hb : processNode self ch' bad = .err e) :
    processNodes self ch (good ++ bad :: rest) = .err e :=
  processNodes_plant self ch ch' good rest bad e hg hb

/-- a refused program leaves no session: `Int::new` returns the error of `process_nodes` -/
theorem C13_new (ast : List (Node R)) (e : IntError) :
    Interp.new ast = .err e ↔ processNodes {} {} ast = .err e := by
  rw [new_eq]; cases processNodes ({} : Interp R) {} ast <;> simp

end

/-! ### B1. registers: undeclared names and indices out of range -/
section
variable {R : Type}

/-- `q[i]` / `c[i]` is refused as "no such register" exactly when the name was not declared -/
theorem C13_undeclared_indexed (self ch : Interp R) (quantum : Bool) (a : String) (i : Nat)
    (hl : (regList self ch quantum).length ≤ 64) :
    getIdx self ch quantum (.qubit a i) = .error (if quantum then .noQReg a else .noCReg a) ↔
      a ∉ regList self ch quantum :=
  getIdx_qubit_noReg_iff self ch quantum a i hl

/-- … as "index out of range" exactly when the name is declared with at most `i` (qu)bits -/
theorem C13_index_out_of_range (self ch : Interp R) (quantum : Bool) (a : String) (i : Nat)
    (hl : (regList self ch quantum).length ≤ 64) :
    getIdx self ch quantum (.qubit a i) = .error (.idxOutOfRange a i) ↔
      a ∈ regList self ch quantum ∧ (regList self ch quantum).count a ≤ i :=
  getIdx_qubit_range_iff self ch quantum a i hl

/-- … and resolves (to one bit `2^k`, `k` a position holding the name) exactly when `i` is
below the declared size -/
theorem C13_indexed_ok (self ch : Interp R) (quantum : Bool) (a : String) (i : Nat)
    (hl : (regList self ch quantum).length ≤ 64) :
    (∃ b, getIdx self ch quantum (.qubit a i) = .ok b) ↔
      i < (regList self ch quantum).count a :=
  getIdx_qubit_ok_iff self ch quantum a i hl

theorem C13_indexed_ok_bit (self ch : Interp R) (quantum : Bool) (a : String) (i b : Nat)
    (hl : (regList self ch quantum).length ≤ 64)
    (h : getIdx self ch quantum (.qubit a i) = .ok b) :
    ∃ k, k < (regList self ch quantum).length ∧ (regList self ch quantum)[k]? = some a ∧
      b = 2 ^ k := by
  rcases getIdx_qubit_cases self ch quantum a i hl with ⟨_, h2⟩ | ⟨_, _, h2⟩ |
    ⟨_, _, k, hk, hka, _, h2⟩
  · rw [h2] at h; cases h
  · rw [h2] at h; cases h
  · rw [h2] at h; cases h; exact ⟨k, hk, hka, rfl⟩

/-- a whole register resolves to its (non-zero) mask exactly when it is declared, and is
"no such register" otherwise -/
theorem C13_whole_register (self ch : Interp R) (quantum : Bool) (a : String)
    (hl : (regList self ch quantum).length ≤ 64) :
    getIdx self ch quantum (.register a) =
      if a ∈ regList self ch quantum then .ok (maskByAlias (regList self ch quantum) a)
      else .error (if quantum then .noQReg a else .noCReg a) :=
  getIdx_register self ch quantum a hl

theorem C13_mask_ne_zero_iff (l : List String) (a : String) (hl : l.length ≤ 64) :
    maskByAlias l a ≠ 0 ↔ a ∈ l := by
  rw [ne_eq, maskByAlias_eq_zero_iff l a hl, Decidable.not_not]

/-- the number of bits of a register's mask is its declared size -/
theorem C13_mask_popcount (l : List String) (a : String) (hl : l.length ≤ 64) :
    popcount (maskByAlias l a) = l.count a := popcount_maskByAlias l a hl

/-- every register argument, in one decision list -/
theorem C13_argument (self ch : Interp R) (quantum : Bool) (arg : Arg)
    (hl : (regList self ch quantum).length ≤ 64) :
    getIdx self ch quantum arg =
      match argErr (regList self ch quantum) quantum arg with
      | some e => .error e
      | none => .ok (argMask (regList self ch quantum) arg) :=
  getIdx_eq self ch quantum arg hl

end

section
variable {R : Type} [Add R] [Sub R] [Mul R] [Neg R] [Div R] [ExprFns R] [AngleFns R]

/-! ### B2. declarations: over-long identifier, size limits, duplicates — in this order -/

/-- `qreg a[n]`: the complete decision list -/
theorem C13_decl_qreg (self ch : Interp R) (a : String) (n : Nat) :
    processNode self ch (.qreg a n) =
      if a.utf8ByteSize ≥ 32 then .err (.identIsTooLarge a a.utf8ByteSize)
      else if n ≥ 64 then .err (.registerIsTooLarge a n)
      else if self.qReg.length + ch.qReg.length + n ≥ 64 then
        .err (.registerIsTooLarge a (self.qReg.length + ch.qReg.length + n))
      else if a ∈ self.qReg then .err (.dupQReg a (self.qReg.count a))
      else if a ∈ self.cReg then .err (.dupCReg a (self.cReg.count a))
      else if a ∈ ch.qReg then .err (.dupQReg a (ch.qReg.count a))
      else if a ∈ ch.cReg then .err (.dupCReg a (ch.cReg.count a))
      else .ok { ch with qReg := ch.qReg ++ List.replicate n a } :=
  processNode_qreg self ch a n

/-- `creg a[n]`: the same list against the classical total -/
theorem C13_decl_creg (self ch : Interp R) (a : String) (n : Nat) :
    processNode self ch (.creg a n) =
      if a.utf8ByteSize ≥ 32 then .err (.identIsTooLarge a a.utf8ByteSize)
      else if n ≥ 64 then .err (.registerIsTooLarge a n)
      else if self.cReg.length + ch.cReg.length + n ≥ 64 then
        .err (.registerIsTooLarge a (self.cReg.length + ch.cReg.length + n))
      else if a ∈ self.qReg then .err (.dupQReg a (self.qReg.count a))
      else if a ∈ self.cReg then .err (.dupCReg a (self.cReg.count a))
      else if a ∈ ch.qReg then .err (.dupQReg a (ch.qReg.count a))
      else if a ∈ ch.cReg then .err (.dupCReg a (ch.cReg.count a))
      else .ok { ch with cReg := ch.cReg ++ List.replicate n a } :=
  processNode_creg self ch a n

/-- the total-size rule keeps the number of declared qubits and bits below the word size, so
the `≤ 64` hypotheses of this file hold along every accepted program -/
theorem C13_size_invariant (self ch ch' : Interp R) (ns : List (Node R)) (hl : lenOk self ch)
    (h : processNodes self ch ns = .ok ch') : lenOk self ch' :=
  processNodes_lenOk self ch ch' ns hl h

/-! ### B3. measure, reset, if -/

/-- `measure q -> c`: the quantum argument is checked first, then the classical one, then the
sizes must agree; an accepted measurement closes exactly one `measure` block -/
theorem C13_measure (self ch : Interp R) (q c : Arg)
    (hq : (regList self ch true).length ≤ 64) (hc : (regList self ch false).length ≤ 64) :
    processNode self ch (.measure q c) =
      match argErr (regList self ch true) true q with
      | some e => .err e
      | none =>
        match argErr (regList self ch false) false c with
        | some e => .err e
        | none =>
          if argBits (regList self ch true) q ≠ argBits (regList self ch false) c then
            .err (.unmatchedRegSize (argBits (regList self ch true) q)
              (argBits (regList self ch false) c))
          else .ok { ch with
            qOps := ch.qOps.branchWithId
              (.measure (argMask (regList self ch true) q) (argMask (regList self ch false) c)) } :=
  processNode_measure self ch q c hq hc

/-- whole registers of different sizes: `unmatchedRegSize` with the two sizes -/
theorem C13_measure_sizes (self ch : Interp R) (a b : String)
    (hq : (regList self ch true).length ≤ 64) (hc : (regList self ch false).length ≤ 64)
    (ha : a ∈ regList self ch true) (hb : b ∈ regList self ch false) :
    processNode self ch (.measure (.register a) (.register b)) =
        .err (.unmatchedRegSize ((regList self ch true).count a) ((regList self ch false).count b))
      ↔ (regList self ch true).count a ≠ (regList self ch false).count b := by
  rw [processNode_measure self ch _ _ hq hc]
  simp only [argErr, argBits, ha, hb, not_true_eq_false, if_false]
  by_cases h : (regList self ch true).count a ≠ (regList self ch false).count b
  · simp [h]
  · simp [h]

theorem C13_reset (self ch : Interp R) (a : Arg) (hq : (regList self ch true).length ≤ 64) :
    processNode self ch (.reset a) =
      match argErr (regList self ch true) true a with
      | some e => .err e
      | none => .ok { ch with
          qOps := ch.qOps.branchWithId (.reset (argMask (regList self ch true) a)) } :=
  processNode_reset self ch a hq

/-- anything but a gate application under `if` is refused -/
theorem C13_if_nongate (self ch : Interp R) (lhs : String) (rhs : Nat) :
    processNode self ch (.ifn lhs rhs .other) = .err .disallowedNodeInIf := rfl

/-- `if (c == v) gate …`: the condition register must be declared; then the errors are those
of the guarded gate application -/
theorem C13_if (self ch : Interp R) (lhs : String) (rhs : Nat) (c : Call R)
    (hc : (regList self ch false).length ≤ 64) :
    processNode self ch (.ifn lhs rhs (.call c)) =
      if lhs ∉ regList self ch false then .err (.noCReg lhs)
      else
        match processApply self { ch with qOps := {} } c with
        | .ok ch' => .ok { ch' with
            qOps := ifQueue (ch.qOps.branch .nop) ch'.qOps
              (maskByAlias (regList self ch false) lhs) rhs }
        | .err e => .err e
        | .panic s => .panic s :=
  processNode_ifn_call self ch lhs rhs c hc

/-! ### B4. gate applications: qubit arguments, then parameters, then the gate -/

/-- the order of the checks of a gate application -/
theorem C13_apply (self ch : Interp R) (c : Call R) (hl : (regList self ch true).length ≤ 64) :
    processApply self ch c =
      match regsErr (regList self ch true) c.regs with
      | some e => .err e
      | none =>
        match evalArgs0 c.args with
        | .error e => .err e
        | .ok args =>
          match callGate (self.macros ++ ch.macros) c.name
              (c.regs.map (argMask (regList self ch true))) args with
          | .ok o => .ok { ch with qOps := ch.qOps.push o }
          | .err e => .err e
          | .panic s => .panic s :=
  processApply_eq self ch c hl

/-- the qubit-argument error is that of the first argument (in order) that does not resolve -/
theorem C13_first_bad_qubit_argument (l : List String) (regs : List Arg) (e : IntError) :
    regsErr l regs = some e ↔
      ∃ pre a post, regs = pre ++ a :: post ∧ (∀ b ∈ pre, argErr l true b = none) ∧
        argErr l true a = some e :=
  regsErr_eq_some_iff l regs e

omit [AngleFns R] in
/-- the parameter error is `unevaluatedArgument text e` for the first parameter (in order)
whose evaluation fails -/
theorem C13_first_bad_parameter (l : List (PExpr R)) (e : IntError) :
    evalArgs0 l = .error e ↔
      ∃ pre a post ee, l = pre ++ a :: post ∧ (∀ b ∈ pre, ∃ v, evalExtended b [] = .ok v) ∧
        evalExtended a [] = .error ee ∧ e = .unevaluatedArgument a.text ee :=
  evalArgs0_error_iff l e

omit [AngleFns R] in
/-- an unbound name in a parameter expression: evaluation stops at the first variable token
(RPN order) that is neither bound nor `pi` -/
theorem C13_unbound_name (a : PExpr R) (vars : List (String × R)) (v : String)
    (h : evalExtended a vars = .error (.unknownVariable v)) :
    (a.rpn = .error (.unknownVariable v)) ∨
    ∃ pre post, a.rpn = .ok (pre ++ RpnTok.var v :: post) ∧ lookupVar vars v = none ∧
      ∀ w, RpnTok.var w ∈ pre → (lookupVar vars w).isSome = true :=
  evalExtended_unknownVariable a vars v h

end

/-! ### B5. built-in gates -/
section
variable {R : Type} [Neg R] [AngleFns R]
open Generated

/-- a plain table name (`x`, `rx`, `swap`, `u3`, …): wrong number of qubits, then wrong number
of parameters, else accepted. `armRegsOk`: `any`/`dgr` want a non-empty union of the qubit
arguments, `two` exactly 2 bits, `r n` exactly `n`, `u1/u2/u3` exactly 1. -/
theorem C13_gate_plain (name : String) (row : Row) (regs : List Nat) (args : List R)
    (hn : isCtl name = false) (hrow : tableRow name = some row) (hregs : ∀ m ∈ regs, m < 2 ^ 64) :
    Gates.process name regs args =
      if armRegsOk row.arm (orAll regs) = false then
        .err (.wrongRegNumber name (armRegNumber row.arm (orAll regs)))
      else if args.length ≠ armArity row.arm then .err (.wrongArgNumber name args.length)
      else .ok (armOp row args (orAll regs)) := by
  rw [process_plain name regs args hn, hrow]
  exact runArm_eq name row (tableRow_mem name row hrow) regs args hregs

/-- the register tests, arm by arm -/
theorem C13_arm_tests (regs n : Nat) :
    (armRegsOk .any regs = true ↔ regs ≠ 0) ∧ (armRegsOk .dgr regs = true ↔ regs ≠ 0) ∧
    (armRegsOk .two regs = true ↔ popcount regs = 2) ∧
    (armRegsOk (.r n) regs = true ↔ popcount regs = n) ∧
    (armRegsOk .u1 regs = true ↔ popcount regs = 1) ∧
    (armRegsOk .u2 regs = true ↔ popcount regs = 1) ∧
    (armRegsOk .u3 regs = true ↔ popcount regs = 1) ∧
    armArity .any = 0 ∧ armArity .dgr = 0 ∧ armArity .two = 0 ∧ armArity (.r n) = 1 ∧
    armArity .u1 = 1 ∧ armArity .u2 = 2 ∧ armArity .u3 = 3 := by
  simp [armRegsOk, armArity]

/-- a name that is neither in the table nor `c`/`C` + something is an unknown gate -/
theorem C13_unknown_gate (name : String) (regs : List Nat) (args : List R)
    (hn : isCtl name = false) (hrow : tableRow name = none) :
    Gates.process name regs args = .err (.unknownGate name) := by
  rw [process_plain name regs args hn, hrow]

/-- … and a plain name is reported unknown only then -/
theorem C13_unknown_gate_iff (name : String) (regs : List Nat) (args : List R)
    (hn : isCtl name = false) (hregs : ∀ m ∈ regs, m < 2 ^ 64) :
    Gates.process name regs args = .err (.unknownGate name) ↔ tableRow name = none := by
  constructor
  · intro h
    cases hrow : tableRow name with
    | none => rfl
    | some row =>
      rw [C13_gate_plain name row regs args hn hrow hregs] at h
      split at h
      · cases h
      · split at h <;> cases h
  · exact C13_unknown_gate name regs args hn

/-- a controlled name without any qubit argument -/
theorem C13_ctl_no_argument (name : String) (args : List R) (hn : isCtl name = true) :
    Gates.process name [] args = .err (.wrongRegNumber name 0) :=
  process_ctl_nil name args hn

/-- a controlled name strips its first letter and its first qubit argument; the inner errors
are re-labelled with the full name (`1 + n` registers), an inner operator is controlled, and
`invalidControlMask ctrl act` is raised iff the control overlaps what the inner operator
acts on -/
theorem C13_ctl (name : String) (ctrl : Nat) (rest : List Nat) (args : List R)
    (hn : isCtl name = true) :
    Gates.process name (ctrl :: rest) args =
      match Gates.process (dropFirst name) rest args with
      | .ok op =>
        if MultiOp.actOn op &&& ctrl ≠ 0 then .err (.invalidControlMask ctrl (MultiOp.actOn op))
        else .ok (op.map (fun g => g.addCtrl ctrl))
      | .err (.wrongRegNumber _ n) => .err (.wrongRegNumber name (1 + n))
      | .err (.wrongArgNumber _ n) => .err (.wrongArgNumber name n)
      | .err (.unknownGate _) => .err (.unknownGate name)
      | r => r := by
  rw [process_ctl_cons name ctrl rest args hn]
  cases h : Gates.process (dropFirst name) rest args with
  | ok op =>
    simp only [relabel]
    by_cases hov : MultiOp.actOn op &&& ctrl ≠ 0
    · rw [if_pos hov, MultiOp.c_eq_none op ctrl hov]
    · rw [if_neg hov, MultiOp.c_eq_some op ctrl (by simpa using hov)]
  | err e => cases e <;> rfl
  | panic s => rfl

/-- the complete decision of a built-in gate call from the name, the masks and the number of
parameters; an accepted call yields an operator acting on exactly the given qubits (so the
control test above compares the control with the union of the remaining arguments) -/
theorem C13_gate_decided (args : List R) (name : String) (regs : List Nat)
    (hregs : ∀ m ∈ regs, m < 2 ^ 64) :
    match gateErr args.length name regs with
    | some e => Gates.process name regs args = .err e
    | none => ∃ o, Gates.process name regs args = .ok o ∧ MultiOp.actOn o = orAll regs ∧
        orAll regs ≠ 0 :=
  process_spec args name regs hregs

theorem C13_gate_err_iff (args : List R) (name : String) (regs : List Nat)
    (hregs : ∀ m ∈ regs, m < 2 ^ 64) (e : IntError) :
    Gates.process name regs args = .err e ↔ gateErr args.length name regs = some e :=
  process_err_iff args name regs hregs e

/-- a control overlapping its target (or another control further right) -/
theorem C13_control_overlap (nargs : Nat) (name : String) (ctrl : Nat) (rest : List Nat)
    (hn : isCtl name = true) (hin : gateErr nargs (dropFirst name) rest = none) :
    gateErr nargs name (ctrl :: rest) =
      if orAll rest &&& ctrl ≠ 0 then some (.invalidControlMask ctrl (orAll rest)) else none := by
  rw [gateErr]; simp only [hn, if_true, hin]

/-- for masks that fit the machine word `gates::process` never panics: the constructors'
`expect`s are unreachable behind the arity tests, the name recursion has enough fuel -/
theorem Gates.process_no_panic (args : List R) (name : String) (regs : List Nat)
    (hregs : ∀ m ∈ regs, m < 2 ^ 64) (s : String) :
    Gates.process name regs args ≠ .panic s :=
  _root_.Qvnt.process_no_panic args name regs hregs s

end

/-! ### B6. gate definitions -/
section
variable {R : Type} [Add R] [Sub R] [Mul R] [Neg R] [Div R] [ExprFns R] [AngleFns R]

/-- `gate name(args) regs { body }`: the body rules first, then "already defined" (iff the
name is a key of the session's or the chunk's gate table), then the identifier length -/
theorem C13_gate_def (self ch : Interp R) (name : String) (regs args : List String)
    (body : List (Inner R)) :
    processNode self ch (.gate name regs args body) =
      match bodyErr regs args body with
      | some e => .err e
      | none =>
        if name ∈ self.macros.map (·.1) ∨ name ∈ ch.macros.map (·.1) then
          .err (.macroAlreadyDefined name)
        else if name.utf8ByteSize ≥ 32 then .err (.identIsTooLarge name name.utf8ByteSize)
        else .ok { ch with macros := ch.macros ++ [(name, ⟨regs, args, bodyCalls body⟩)] } :=
  processNode_gate self ch name regs args body

omit [AngleFns R] in
/-- a non-gate statement in a body -/
theorem C13_body_nongate (regs args : List String) (rest : List (Inner R)) :
    bodyErr regs args (.other :: rest) = some (.macroError .disallowedNodeInMacro) := rfl

omit [AngleFns R] in
/-- a gate statement in a body: its qubit arguments, then its parameters, then the rest -/
theorem C13_body_call (regs args : List String) (c : Call R) (rest : List (Inner R)) :
    bodyErr regs args (.call c :: rest) =
      match bodyRegErr regs c.regs with
      | some e => some e
      | none =>
        match bodyArgErr args c.args with
        | some e => some e
        | none => bodyErr regs args rest := by
  simp only [bodyErr, callErr]
  cases bodyRegErr regs c.regs <;> rfl

/-- an indexed argument in a body -/
theorem C13_body_indexed (regs : List String) (a : String) (i : Nat) (rest : List Arg) :
    bodyRegErr regs (.qubit a i :: rest) = some (.macroError (.disallowedRegister a i)) := rfl

/-- a name that is not a formal qubit argument -/
theorem C13_body_unknown_reg (regs : List String) (a : String) (rest : List Arg) :
    bodyRegErr regs (.register a :: rest) =
      if a ∉ regs then some (.macroError (.unknownReg a)) else bodyRegErr regs rest := by
  simp only [bodyRegErr]
  by_cases h : a ∈ regs <;> simp [h]

omit [AngleFns R] in
/-- a parameter expression in a body is evaluated with NO binding: if that stops at an
unbound variable `v`, only `v` is compared with the formal parameters. Hence the documented
weakening: an unbound name behind a formal one (`a + b`, `a` formal, `b` not) passes the
definition and is only reported when the gate is called (`C13_weakening_*` below). -/
theorem C13_body_unknown_arg (args : List String) (e : PExpr R) (rest : List (PExpr R)) (v : String)
    (h : evalExtended e [] = .error (.unknownVariable v)) :
    bodyArgErr args (e :: rest) =
      if v ∉ args then some (.macroError (.unknownArg v)) else bodyArgErr args rest := by
  simp only [bodyArgErr, h]
  by_cases hv : v ∈ args <;> simp [hv]

omit [AngleFns R] in
/-- any other evaluation failure in a body is reported as `unevaluatedArgument` -/
theorem C13_body_bad_expr (args : List String) (e : PExpr R) (rest : List (PExpr R)) (ee : EvalErr)
    (h : evalExtended e [] = .error ee) (hv : ∀ v, ee ≠ .unknownVariable v) :
    bodyArgErr args (e :: rest) = some (.unevaluatedArgument e.text ee) := by
  cases ee with
  | unknownVariable v => exact absurd rfl (hv v)
  | _ => simp only [bodyArgErr, h]

/-! ### C. acceptance -/

/-- a statement is well-formed in its context when it breaks no static rule -/
def WFNode (self ch : Interp R) (n : Node R) : Prop := nodeErr self ch n = none

instance (self ch : Interp R) (n : Node R) : Decidable (WFNode self ch n) :=
  inferInstanceAs (Decidable (nodeErr self ch n = none))

/-- the interpreter's verdict on a statement is exactly the static rule it breaks -/
theorem C13_statement_decided (self ch : Interp R) (n : Node R) (hl : lenOk self ch)
    (hb : builtinOnly self ch n) :
    match nodeErr self ch n with
    | some e => processNode self ch n = .err e
    | none => ∃ ch', processNode self ch n = .ok ch' :=
  processNode_spec self ch n hl hb

/-- a statement that respects every rule is accepted -/
theorem C13_accept_sound (self ch : Interp R) (n : Node R) (hl : lenOk self ch)
    (hb : builtinOnly self ch n) (h : WFNode self ch n) :
    ∃ ch', processNode self ch n = .ok ch' := by
  have := processNode_spec self ch n hl hb
  rw [show nodeErr self ch n = none from h] at this; exact this

/-- a refused statement breaks a rule, and the error names that rule -/
theorem C13_reject_complete (self ch : Interp R) (n : Node R) (e : IntError) (hl : lenOk self ch)
    (hb : builtinOnly self ch n) (h : processNode self ch n = .err e) :
    nodeErr self ch n = some e ∧ ¬ WFNode self ch n := by
  have := processNode_spec self ch n hl hb
  cases hn : nodeErr self ch n with
  | some e' =>
    rw [hn] at this; simp only [] at this
    rw [this] at h; cases h
    exact ⟨rfl, by simp [WFNode, hn]⟩
  | none =>
    rw [hn] at this; obtain ⟨ch', hc⟩ := this
    rw [hc] at h; cases h

/-- no statement that calls built-in gates only can make the interpreter panic -/
theorem C13_no_panic (self ch : Interp R) (n : Node R) (hl : lenOk self ch)
    (hb : builtinOnly self ch n) (s : String) : processNode self ch n ≠ .panic s := by
  have := processNode_spec self ch n hl hb
  cases hn : nodeErr self ch n with
  | some e' => rw [hn] at this; simp only [] at this; rw [this]; simp
  | none => rw [hn] at this; obtain ⟨ch', hc⟩ := this; rw [hc]; simp

/-- whole programs: the verdict is the first static rule broken, computed by a purely static
pass (`progErr` threads only the declared names and the defined gates) -/
theorem C13_program_decided (self ch st : Interp R) (ns : List (Node R)) (hl : lenOk self ch)
    (hs : sameStatic ch st) (hb : progBuiltin self st ns) :
    match progErr self st ns with
    | some e => processNodes self ch ns = .err e
    | none => ∃ ch', processNodes self ch ns = .ok ch' :=
  processNodes_spec self ch st ns hl hs hb

/-- a fresh session: `Int::new` refuses with the first broken rule … -/
theorem C13_new_rejects (ast : List (Node R)) (e : IntError) (hb : progBuiltin {} {} ast)
    (h : progErr ({} : Interp R) {} ast = some e) : Interp.new ast = .err e := by
  have := processNodes_spec ({} : Interp R) {} {} ast lenOk_empty ⟨rfl, rfl, rfl⟩ hb
  rw [h] at this
  rw [new_eq, this]

/-- … and accepts a program that breaks none -/
theorem C13_new_accepts (ast : List (Node R)) (hb : progBuiltin {} {} ast)
    (h : progErr ({} : Interp R) {} ast = none) : ∃ int, Interp.new ast = .ok int := by
  have := processNodes_spec ({} : Interp R) {} {} ast lenOk_empty ⟨rfl, rfl, rfl⟩ hb
  rw [h] at this
  obtain ⟨ch', hc⟩ := this
  rw [new_eq, hc]; exact ⟨_, rfl⟩

/-- every session reachable through `Int::new` / `add_ast` keeps the size invariant the
statements of this file assume -/
theorem C13_session_invariant (self self' : Interp R) (ast : List (Node R)) (hl : lenOk self {})
    (h : addAst self ast = .ok self') : lenOk self' {} :=
  addAst_lenOk self self' ast hl h

/-- a gate definition that passed `Macro::new` only names formal, un-indexed qubit arguments
in its body, so the substitution `regs[&name]` cannot fail at call time; a gate whose body
calls built-in gates only therefore never panics on word-sized masks (nested definitions:
the recursion guard is `Props/C12`) -/
theorem C13_user_gate_no_panic (macros : List (String × Macro R)) (fuel : Nat)
    (regsF argsF : List String) (body : List (Inner R)) (hbody : bodyErr regsF argsF body = none)
    (name : String) (regs : List Nat) (args : List R) (stack : List String)
    (hregs : ∀ x ∈ regs, x < 2 ^ 64)
    (hb : ∀ c ∈ bodyCalls body, macros.find? (fun p => p.1 == c.name) = none) (s : String) :
    Macro.process macros (fuel + 1) ⟨regsF, argsF, bodyCalls body⟩ name regs args stack
      ≠ .panic s :=
  Macro.process_one_level_no_panic macros fuel _ (bodyErr_none_wellBody regsF argsF body hbody)
    name regs args stack hregs hb s

end

/-! ### non-vacuity: concrete programs over `Int` (dummy function instances) -/

namespace C13Ex
scoped instance : ExprFns Int where
  pi := 3
  pow a b := a ^ b.toNat
  rem a b := a % b
  sqrt a := a
  exp a := a
  ln a := a
  abs a := a.natAbs
  floor a := a
  ceil a := a
  round a := a
  atan2 a _ := a
  max a b := max a b
  min a b := min a b
  negInf := -1000000
  posInf := 1000000

scoped instance : AngleFns Int where
  halfPhase a := ⟨a, 0⟩
  quarter := ⟨0, 1⟩
  qftPhase k := ⟨k, 0⟩

def pi : PExpr Int := ⟨"pi", .ok [.var "pi"]⟩
def theta : PExpr Int := ⟨"theta", .ok [.var "theta"]⟩
def aPlusB : PExpr Int := ⟨"a+b", .ok [.var "a", .var "b", .bin .plus]⟩
def q (i : Nat) : Arg := .qubit "q" i

/-- qreg q[2]; creg c[2]; h q[0]; cx q[0],q[1]; rx(pi) q[1]; measure q -> c; -/
def good : List (Node Int) :=
  [.qreg "q" 2, .creg "c" 2, .apply ⟨"h", [q 0], []⟩, .apply ⟨"cx", [q 0, q 1], []⟩,
   .apply ⟨"rx", [q 1], [pi]⟩, .measure (.register "q") (.register "c")]

def rejects (prog : List (Node Int)) (e : IntError) : Prop := Interp.new prog = .err e

theorem rejects_of (prog : List (Node Int)) (e : IntError) (hb : progBuiltin {} {} prog)
    (h : progErr ({} : Interp Int) {} prog = some e) : rejects prog e :=
  C13_new_rejects prog e hb h

/-- the well-formed program is accepted -/
example : ∃ int, Interp.new good = .ok int := C13_new_accepts good (by decide) (by decide +kernel)

/-- `bad` planted after the well-formed prefix and followed by more statements is refused
with `e` -/
def planted (bad : Node Int) (e : IntError) : Prop :=
  rejects (good ++ [bad, .barrier, .apply ⟨"x", [q 0], []⟩]) e

theorem planted_of (bad : Node Int) (e : IntError)
    (hb : progBuiltin {} {} (good ++ [bad, .barrier, .apply ⟨"x", [q 0], []⟩]))
    (h : progErr ({} : Interp Int) {} (good ++ [bad, .barrier, .apply ⟨"x", [q 0], []⟩]) = some e) :
    planted bad e := rejects_of _ _ hb h

-- undeclared registers: gate application, measurement, reset, condition
example : planted (.apply ⟨"x", [.qubit "r" 0], []⟩) (.noQReg "r") :=
  planted_of _ _ (by decide) (by decide +kernel)
example : planted (.measure (q 0) (.qubit "d" 0)) (.noCReg "d") :=
  planted_of _ _ (by decide) (by decide +kernel)
example : planted (.measure (.register "r") (.register "c")) (.noQReg "r") :=
  planted_of _ _ (by decide) (by decide +kernel)
example : planted (.reset (.register "r")) (.noQReg "r") :=
  planted_of _ _ (by decide) (by decide +kernel)
example : planted (.ifn "d" 1 (.call ⟨"x", [q 0], []⟩)) (.noCReg "d") :=
  planted_of _ _ (by decide) (by decide +kernel)
-- index beyond the register's size
example : planted (.apply ⟨"h", [q 2], []⟩) (.idxOutOfRange "q" 2) :=
  planted_of _ _ (by decide) (by decide +kernel)
example : planted (.measure (q 1) (.qubit "c" 5)) (.idxOutOfRange "c" 5) :=
  planted_of _ _ (by decide) (by decide +kernel)
-- duplicate register names (also across the two kinds), duplicate gate name
example : planted (.qreg "q" 1) (.dupQReg "q" 2) := planted_of _ _ (by decide) (by decide +kernel)
example : planted (.qreg "c" 1) (.dupCReg "c" 2) := planted_of _ _ (by decide) (by decide +kernel)
example : planted (.creg "q" 1) (.dupQReg "q" 2) := planted_of _ _ (by decide) (by decide +kernel)
example : rejects [.gate "g" ["a"] [] [], .gate "g" ["b"] [] []] (.macroAlreadyDefined "g") :=
  rejects_of _ _ (by decide) (by decide +kernel)
-- unknown gate; `c` alone is not a controlled gate; `cfoo` is relabelled
example : planted (.apply ⟨"foo", [q 0], []⟩) (.unknownGate "foo") :=
  planted_of _ _ (by decide) (by decide +kernel)
example : planted (.apply ⟨"c", [q 0], []⟩) (.unknownGate "c") :=
  planted_of _ _ (by decide) (by decide +kernel)
example : planted (.apply ⟨"cfoo", [q 0, q 1], []⟩) (.unknownGate "cfoo") :=
  planted_of _ _ (by decide) (by decide +kernel)
-- wrong number of qubit / parameter arguments
example : planted (.apply ⟨"swap", [q 0], []⟩) (.wrongRegNumber "swap" 1) :=
  planted_of _ _ (by decide) (by decide +kernel)
example : planted (.apply ⟨"rx", [.register "q"], [pi]⟩) (.wrongRegNumber "rx" 2) :=
  planted_of _ _ (by decide) (by decide +kernel)
example : planted (.apply ⟨"x", [], []⟩) (.wrongRegNumber "x" 0) :=
  planted_of _ _ (by decide) (by decide +kernel)
example : planted (.apply ⟨"cx", [q 0], []⟩) (.wrongRegNumber "cx" 1) :=
  planted_of _ _ (by decide) (by decide +kernel)
example : planted (.apply ⟨"cx", [], []⟩) (.wrongRegNumber "cx" 0) :=
  planted_of _ _ (by decide) (by decide +kernel)
example : planted (.apply ⟨"rx", [q 0], []⟩) (.wrongArgNumber "rx" 0) :=
  planted_of _ _ (by decide) (by decide +kernel)
example : planted (.apply ⟨"u3", [q 0], [pi, pi]⟩) (.wrongArgNumber "u3" 2) :=
  planted_of _ _ (by decide) (by decide +kernel)
example : planted (.apply ⟨"ch", [q 0, q 1], [pi]⟩) (.wrongArgNumber "ch" 1) :=
  planted_of _ _ (by decide) (by decide +kernel)
-- a control overlapping its target
example : planted (.apply ⟨"cx", [q 0, q 0], []⟩) (.invalidControlMask 1 1) :=
  planted_of _ _ (by decide) (by decide +kernel)
example : planted (.apply ⟨"ccx", [q 1, q 0, .register "q"], []⟩) (.invalidControlMask 1 3) :=
  planted_of _ _ (by decide) (by decide +kernel)
-- measuring between registers of different sizes
example : rejects [.qreg "q" 2, .creg "c" 1, .measure (.register "q") (.register "c")]
    (.unmatchedRegSize 2 1) := rejects_of _ _ (by decide) (by decide +kernel)
example : planted (.measure (.register "q") (.qubit "c" 0)) (.unmatchedRegSize 2 1) :=
  planted_of _ _ (by decide) (by decide +kernel)
-- an unbound name in a parameter expression; qubit-argument errors come first
example : planted (.apply ⟨"rx", [q 0], [theta]⟩)
    (.unevaluatedArgument "theta" (.unknownVariable "theta")) :=
  planted_of _ _ (by decide) (by decide +kernel)
example : planted (.apply ⟨"rx", [q 7], [theta]⟩) (.idxOutOfRange "q" 7) :=
  planted_of _ _ (by decide) (by decide +kernel)
-- gate bodies: indexing, undeclared qubit name, unbound parameter name, non-gate statement
example : planted (.gate "g" ["a"] [] [.call ⟨"x", [.qubit "a" 0], []⟩])
    (.macroError (.disallowedRegister "a" 0)) := planted_of _ _ (by decide) (by decide +kernel)
example : planted (.gate "g" ["a"] [] [.call ⟨"x", [.register "q"], []⟩])
    (.macroError (.unknownReg "q")) := planted_of _ _ (by decide) (by decide +kernel)
example : planted (.gate "g" ["a"] ["t"] [.call ⟨"rx", [.register "a"], [theta]⟩])
    (.macroError (.unknownArg "theta")) := planted_of _ _ (by decide) (by decide +kernel)
example : planted (.gate "g" ["a"] [] [.call ⟨"x", [.register "a"], []⟩, .other])
    (.macroError .disallowedNodeInMacro) := planted_of _ _ (by decide) (by decide +kernel)
-- a non-gate statement under `if`
example : planted (.ifn "c" 1 .other) .disallowedNodeInIf :=
  planted_of _ _ (by decide) (by decide +kernel)
-- an over-long identifier (32 bytes): register and gate names
example : planted (.qreg "abcdefghijklmnopqrstuvwxyz012345" 1)
    (.identIsTooLarge "abcdefghijklmnopqrstuvwxyz012345" 32) :=
  planted_of _ _ (by decide) (by decide +kernel)
example : planted (.gate "abcdefghijklmnopqrstuvwxyz012345" ["a"] [] [])
    (.identIsTooLarge "abcdefghijklmnopqrstuvwxyz012345" 32) :=
  planted_of _ _ (by decide) (by decide +kernel)
-- more qubits than the state index can address: one register, or in total
example : planted (.qreg "r" 64) (.registerIsTooLarge "r" 64) :=
  planted_of _ _ (by decide) (by decide +kernel)
example : planted (.qreg "r" 62) (.registerIsTooLarge "r" 64) :=
  planted_of _ _ (by decide) (by decide +kernel)
example : planted (.creg "d" 62) (.registerIsTooLarge "d" 64) :=
  planted_of _ _ (by decide) (by decide +kernel)
-- the largest accepted total is 63
example : ∃ int, Interp.new (good ++ [.qreg "r" 61]) = .ok int :=
  C13_new_accepts _ (by decide) (by decide +kernel)

/-- the documented weakening: `gate g(a) t { rx(a+b) t; }` passes the definition although `b`
is unbound (only the first unbound name, `a`, is compared with the formals) … -/
example : ∃ int, Interp.new (good ++ [.gate "g" ["t"] ["a"] [.call ⟨"rx", [.register "t"], [aPlusB]⟩]])
    = .ok int := C13_new_accepts _ (by decide) (by decide +kernel)

/-- … and the unbound `b` is reported when the gate is called -/
example : callGate (R := Int) [("g", ⟨["t"], ["a"], [⟨"rx", [.register "t"], [aPlusB]⟩]⟩)] "g" [1] [5]
    = .err (.unevaluatedArgument "rx" (.unknownVariable "b")) := by
  rfl
/-- the same verdicts obtained by running the model itself (no theorem of this file involved):
a planted violation in the middle, an accepted program -/
example : (match Interp.new (good ++ [.apply ⟨"cx", [q 0, q 0], []⟩, .barrier]) with
    | .err e => some e | _ => none) = some (.invalidControlMask 1 1) := by decide +kernel
example : (match Interp.new good with
    | .ok int => some (int.qReg, int.cReg, int.qOps.blocks.length, int.asts) | _ => none)
    = some (["q", "q"], ["c", "c"], 1, [6]) := by decide +kernel
end C13Ex

end Qvnt
