/-
C07 — measurement outcomes follow the Born rule.

MODEL objects: `QReg.getProbabilities` (the weights handed to `WeightedIndex`),
`QReg.measureMask r mask d` (`d` the drawn basis index), `QReg.rescale`, and the linear part of
`QReg.sampleProposal`. Scalars are the reals.

The random draw is an input of the model. `measure_mask` draws the basis index `d < 2^n` with the
reported probability `getProbabilities[d] = |ψ_d|² / nrm` (`C07_reported`) and returns
`d &&& mask`. `outcomeProb r m v` is the push-forward of that distribution along `d ↦ d &&& m`
(`C07_pushforward`): the probability that measuring the qubits `m` returns `v`.
`weight r m v = Σ_{i < 2^n, i &&& m = v} |ψ_i|²`.

The chain rule (`C07_chain`) needs the post-measurement state to be the projected one. While
`measure_mask` renormalised with `normalize` that required the collapsed norm to exceed `1e-15`
(hypothesis `hbig`, see the history in `Props/C06`). With the `rescale` repair the
post-measurement state is a positive multiple of the projected one for EVERY draw, and
`C07_conditional`, `C07_chain`, `C07_order` carry no hypothesis on the draw any more. The natural
positivity condition — the draw is possible, `0 < nrm (r.collapseMask d₁ m₁)`, equivalently
`0 < weight r m₁ (d₁ &&& m₁)` (`C07_possible`), which holds for every index of non-zero amplitude
(`C07_drawn_positive`) — is what makes the quotient in `C07_conditional` a genuine conditional
probability; for an impossible draw (never produced by `WeightedIndex`) the register is the zero
vector, `C07_conditional` reads `0 / 0 = 0 / 0` (`= 0` in Lean) and `C07_chain` reads `0 = 0`
(an impossible first outcome makes the joint outcome impossible).
-/
import Qvnt.Lemmas.Born

namespace Qvnt

/-! ### the reported probabilities -/

/-- cell `i` of the reported probabilities is `|ψ_i|²` over the squared norm -/
theorem C07_reported (r : QReg ℝ) (i : Nat) (hi : i < 2 ^ r.qNum) :
    r.getProbabilities[i]? = some ((bufFn r.psi i).normSq / nrm r) :=
  getProbabilities_getElem? r i hi

/-! ### the Born rule for a set of qubits -/

/-- the probability that the qubits `m` read `v` is the sum of the squared moduli of the
consistent basis states over the squared norm -/
theorem C07_born (r : QReg ℝ) (m v : Nat) :
    outcomeProb r m v
      = (∑ i ∈ (Finset.range (2 ^ r.qNum)).filter (fun i => i &&& m = v), (bufFn r.psi i).normSq)
        / nrm r :=
  outcomeProb_eq r m v

/-- … and it is the total reported probability of the draws `d` for which `measure_mask`
returns the value `v` -/
theorem C07_pushforward (r : QReg ℝ) (hq : r.qMask = 2 ^ r.qNum - 1) (hn : r.qNum ≤ 64)
    (m v : Nat) :
    outcomeProb r m v = ∑ d ∈ (Finset.range (2 ^ r.qNum)).filter
      (fun d => (r.measureMask m d).2.value = v), r.getProbabilities.getD d 0 :=
  outcomeProb_pushforward r hq hn m v

/-- the outcome probabilities are non-negative and sum to 1 over the possible values -/
theorem C07_born_total (r : QReg ℝ) (hwf : WF r) (hpos : nrm r ≠ 0) (m : Nat) :
    (∀ v, 0 ≤ outcomeProb r m v) ∧
    ∑ v ∈ (Finset.range (2 ^ r.qNum)).image (fun i => i &&& m), outcomeProb r m v = 1 ∧
    ∑ v ∈ Finset.range (2 ^ r.qNum), outcomeProb r m v = 1 :=
  ⟨outcomeProb_nonneg r m, outcomeProb_total_image r hwf hpos m, outcomeProb_total r hwf hpos m⟩

/-- the value returned for a drawn index of non-zero amplitude has positive probability -/
theorem C07_drawn_positive (r : QReg ℝ) (hwf : WF r) (m d : Nat) (hd : d < 2 ^ r.qNum)
    (hp : bufFn r.psi d ≠ 0) : 0 < outcomeProb r m (d &&& m) :=
  outcomeProb_pos_of_drawn r hwf m d hd hp

/-- multiplying the state by a non-zero real changes neither the outcome probabilities nor the
reported ones (so the factor applied by `rescale` does not matter) -/
theorem C07_scale_invariant (r r' : QReg ℝ) (lam : ℝ) (hlam : lam ≠ 0) (hwf : WF r)
    (hwf' : WF r') (hq : r'.qNum = r.qNum)
    (h : ∀ i, bufFn r'.psi i = (bufFn r.psi i).scale lam) :
    (∀ m v, outcomeProb r' m v = outcomeProb r m v) ∧ r'.getProbabilities = r.getProbabilities :=
  ⟨outcomeProb_of_scaled r r' lam hlam hwf hwf' hq h,
   getProbabilities_of_scaled r r' lam hlam hwf hwf' hq h⟩

/-! ### sequential measurements -/

/-- the draw `d₁` is possible for the qubits `m₁` exactly when the value it yields has positive
weight (the denominator of `C07_conditional`) -/
theorem C07_possible (r : QReg ℝ) (hwf : WF r) (m₁ d₁ : Nat) :
    nrm (r.collapseMask d₁ m₁) = weight r m₁ (d₁ &&& m₁) ∧
    (0 < nrm (r.collapseMask d₁ m₁) ↔ 0 < outcomeProb r m₁ (d₁ &&& m₁)) := by
  have he := nrm_collapse_eq_weight r hwf d₁ m₁
  refine ⟨he, ?_⟩
  rw [outcomeProb_eq, ← he]
  constructor
  · intro h
    exact div_pos h (lt_of_lt_of_le h (nrm_collapse_le r d₁ m₁))
  · intro h
    rcases (nrm_nonneg (r.collapseMask d₁ m₁)).eq_or_lt with h0 | h0
    · rw [← h0, zero_div] at h
      exact absurd h (lt_irrefl 0)
    · exact h0

/-- after measuring `m₁` with draw `d₁`, the probability that the disjoint set `m₂` reads `v₂` is
the conditional probability (for every draw; the denominator is positive iff the draw is possible,
`C07_possible`) -/
theorem C07_conditional (r : QReg ℝ) (hwf : WF r) (m₁ d₁ m₂ v₂ : Nat)
    (hin : m₁ &&& r.qMask = m₁) (hd : m₁ &&& m₂ = 0) (h2 : v₂ &&& m₂ = v₂) :
    outcomeProb (r.measureMask m₁ d₁).1 m₂ v₂
      = weight r (m₁ ||| m₂) (d₁ &&& m₁ ||| v₂) / weight r m₁ (d₁ &&& m₁) :=
  outcomeProb_measure r hwf m₁ d₁ m₂ v₂ hin hd h2

/-- chain rule: measuring `m₁` (result `v₁`) and then the disjoint `m₂` (result `v₂`) has the
probability of reading `v₁ ||| v₂` on `m₁ ||| m₂` in one measurement -/
theorem C07_chain (r : QReg ℝ) (hwf : WF r) (m₁ m₂ d₁ v₁ v₂ : Nat)
    (hin : m₁ &&& r.qMask = m₁) (hd : m₁ &&& m₂ = 0) (hv₁ : d₁ &&& m₁ = v₁)
    (hv₂ : v₂ &&& m₂ = v₂) :
    outcomeProb r m₁ v₁ * outcomeProb (r.measureMask m₁ d₁).1 m₂ v₂
      = outcomeProb r (m₁ ||| m₂) (v₁ ||| v₂) := by
  subst hv₁
  exact outcomeProb_chain r hwf m₁ d₁ m₂ v₂ hin hd hv₂

/-- the joint distribution does not depend on the order in which the two sets are measured -/
theorem C07_order (r : QReg ℝ) (hwf : WF r) (m₁ m₂ d₁ d₂ : Nat)
    (hin₁ : m₁ &&& r.qMask = m₁) (hin₂ : m₂ &&& r.qMask = m₂) (hd : m₁ &&& m₂ = 0) :
    outcomeProb r m₁ (d₁ &&& m₁) * outcomeProb (r.measureMask m₁ d₁).1 m₂ (d₂ &&& m₂)
      = outcomeProb r m₂ (d₂ &&& m₂) * outcomeProb (r.measureMask m₂ d₂).1 m₁ (d₁ &&& m₁) := by
  have a1 : (d₁ &&& m₁) &&& m₁ = d₁ &&& m₁ := by rw [Nat.and_assoc, Nat.and_self]
  have a2 : (d₂ &&& m₂) &&& m₂ = d₂ &&& m₂ := by rw [Nat.and_assoc, Nat.and_self]
  rw [C07_chain r hwf m₁ m₂ d₁ _ _ hin₁ hd rfl a2,
    C07_chain r hwf m₂ m₁ d₂ _ _ hin₂ (by rw [Nat.and_comm]; exact hd) rfl a1,
    Nat.or_comm m₂ m₁, Nat.or_comm (d₂ &&& m₂)]

/-! ### the histogram sampler -/

/-- the linear map `g ↦ √p ⊙ g − p · Σ (√p ⊙ g)` that `sample_all` applies to independent
standard-normal draws has the matrix `A i l = δ_il √p_i − p_i √p_l` … -/
theorem C07_linear_map {k : Nat} (p g : Fin k → ℝ) (i : Fin k) :
    Real.sqrt (p i) * g i - (∑ l, Real.sqrt (p l) * g l) * p i
      = ∑ l, ((if i = l then Real.sqrt (p i) else 0) - p i * Real.sqrt (p l)) * g l :=
  linear_map_identity p g i

/-- … and `A Aᵀ` is the covariance of a multinomial: `δ_ij p_i − p_i p_j` -/
theorem C07_cov {k : Nat} (p : Fin k → ℝ) (hp : ∀ i, 0 ≤ p i) (hs : ∑ i, p i = 1) :
    let A : Fin k → Fin k → ℝ :=
      fun i l => (if i = l then Real.sqrt (p i) else 0) - p i * Real.sqrt (p l)
    ∀ i j, ∑ l, A i l * A j l = (if i = j then p i else 0) - p i * p j := by
  intro A i j
  exact cov_identity p hp hs i j

/-! ### the hypotheses can be met -/

/-- `(3/5, 4/5)`: the qubit reads 1 with probability 16/25 and 0 with probability 9/25 -/
example : outcomeProb demoReg 1 1 = 16 / 25 ∧ outcomeProb demoReg 1 0 = 9 / 25 := by
  have hn : nrm demoReg = 1 := by rw [demoReg, qubitReg_nrm]; norm_num
  have h2 : 2 ^ demoReg.qNum = 2 := rfl
  constructor
  · rw [C07_born, hn, Finset.sum_filter, h2, div_one]
    simp only [Finset.sum_range_succ, Finset.sum_range_zero, demoReg, qubitReg_bufFn, Cx.normSq]
    norm_num
  · rw [C07_born, hn, Finset.sum_filter, h2, div_one]
    simp only [Finset.sum_range_succ, Finset.sum_range_zero, demoReg, qubitReg_bufFn, Cx.normSq]
    norm_num

example : demoReg.getProbabilities[1]? = some (16 / 25) := by
  rw [C07_reported demoReg 1 (by decide), demoReg, qubitReg_nrm, qubitReg_bufFn]
  simp only [Cx.normSq]
  norm_num

/-- the hypotheses of `C07_chain` for `(3/5, 4/5)`, `m₁ = 1`, draw `1` (a possible one), `m₂ = 0` -/
example : 0 < outcomeProb demoReg 1 (1 &&& 1) ∧
    outcomeProb demoReg 1 1 * outcomeProb (demoReg.measureMask 1 1).1 0 0
      = outcomeProb demoReg (1 ||| 0) (1 ||| 0) :=
  ⟨(C07_possible demoReg (qubitReg_wf _ _) 1 1).2.1 demoReg_pos_one,
   C07_chain demoReg (qubitReg_wf _ _) 1 0 1 1 0 rfl rfl rfl rfl⟩

/-- two qubits, `(3/5, 4/5) ⊗ (3/5, 4/5)`: measure qubit 0 (draw `|11>`, result 1, of positive
probability: the identity is not `0 = 0`), then qubit 1 -/
example : 0 < outcomeProb pairReg 1 (3 &&& 1) ∧
    outcomeProb pairReg 1 1 * outcomeProb (pairReg.measureMask 1 3).1 2 2
      = outcomeProb pairReg (1 ||| 2) (1 ||| 2) :=
  ⟨(C07_possible pairReg pairReg_wf 1 3).2.1 pairReg_pos,
   C07_chain pairReg pairReg_wf 1 2 3 1 2 rfl rfl rfl rfl⟩

/-- … and the conditional probability of `C07_conditional` has a positive denominator there -/
example : 0 < weight pairReg 1 (3 &&& 1) ∧ outcomeProb (pairReg.measureMask 1 3).1 2 2
    = weight pairReg (1 ||| 2) (3 &&& 1 ||| 2) / weight pairReg 1 (3 &&& 1) :=
  ⟨by rw [← (C07_possible pairReg pairReg_wf 1 3).1]; exact pairReg_pos,
   C07_conditional pairReg pairReg_wf 1 3 2 2 rfl rfl rfl⟩

/-- a fair coin: `p = (1/2, 1/2)` gives the covariance `[[1/4, −1/4], [−1/4, 1/4]]` -/
example : let p : Fin 2 → ℝ := fun _ => 1 / 2
    let A : Fin 2 → Fin 2 → ℝ :=
      fun i l => (if i = l then Real.sqrt (p i) else 0) - p i * Real.sqrt (p l)
    ∑ l, A 0 l * A 1 l = -(1 / 4) := by
  intro p A
  have := C07_cov p (fun _ => by norm_num) (by simp [p]) 0 1
  rw [this]
  norm_num [p]

end Qvnt
