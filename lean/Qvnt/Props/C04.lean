/-
C04 — a product of operators acts as its factors applied in queue order.

MODEL objects: `MultiOp.apply` (with the `(psi_i, psi_o)` ping-pong of
`src/operator/multi/mod.rs`), `MultiOp.mul` (`*`, `*=`, `append`, `push_back`),
`MultiOp.ofSingle`, `QReg.apply`. The statements hold for every queue (any length), every
state and every scalar type: no ring axiom is used, so they also cover the `Float` instance
the driver executes. The one exception is the last statement, `C04_commute` (operators on
disjoint qubits commute), which goes through the reference semantics (`Qvnt/Lemmas/Refine.lean`)
and is stated over a commutative ring.
-/
import Qvnt.Lemmas.Structure
import Qvnt.Lemmas.Refine

namespace Qvnt
section
variable {R : Type} [Add R] [Sub R] [Mul R] [Neg R] [Consts R]

/-- Applying a product = applying its elements one after another, front of the queue first.
(The buffer ping-pong of `MultiOp::apply`, final swap included, computes the left fold.) -/
theorem C04_apply (o : MultiOp R) (ψ : State R) :
    o.apply ψ = o.foldl (fun ψ g => g.apply ψ) ψ := MultiOp.apply_eq_foldl o ψ

/-- Whatever is found in the output buffer does not depend on its previous (uninitialised)
content. -/
theorem C04_junk_irrelevant (o : MultiOp R) (ψ junk junk' : State R) :
    (MultiOp.applyBuffers o ψ junk).2 = (MultiOp.applyBuffers o ψ junk').2 := by
  rw [MultiOp.applyBuffers_fst_snd, MultiOp.applyBuffers_fst_snd]

/-- `a * b` (also `*=`, `append`, pushing `b`'s elements) acts as `a`, then `b`. -/
theorem C04_mul (a b : MultiOp R) (ψ : State R) :
    (MultiOp.mul a b).apply ψ = b.apply (a.apply ψ) := MultiOp.apply_mul a b ψ

/-- every grouping of the same sequence is the same operator -/
theorem C04_assoc (a b c : MultiOp R) :
    MultiOp.mul (MultiOp.mul a b) c = MultiOp.mul a (MultiOp.mul b c) := MultiOp.mul_assoc a b c

/-- a product of any number of factors acts as the factors in order -/
theorem C04_prod (l : List (MultiOp R)) (ψ : State R) :
    (l.foldl MultiOp.mul []).apply ψ = l.foldl (fun ψ o => o.apply ψ) ψ := by
  suffices h : ∀ (acc : MultiOp R), (l.foldl MultiOp.mul acc).apply ψ
      = l.foldl (fun ψ o => o.apply ψ) (acc.apply ψ) by
    simpa [MultiOp.apply_nil] using h []
  induction l with
  | nil => intro acc; rfl
  | cons o l ih => intro acc; simp only [List.foldl_cons]; rw [ih, MultiOp.apply_mul]

/-- the identity operator is neutral and applies as the identity -/
theorem C04_id (a : MultiOp R) (ψ : State R) :
    MultiOp.mul Op.id a = a ∧ MultiOp.mul a Op.id = a ∧ (Op.id : MultiOp R).apply ψ = ψ :=
  ⟨MultiOp.nil_mul a, MultiOp.mul_nil a, MultiOp.apply_nil ψ⟩

end

section
variable {R : Type} [Add R] [Sub R] [Mul R] [Neg R] [Zero R] [Consts R]

/-- on a register: applying `a * b` is applying `a`, then `b` (one full buffer sweep per
queue element) -/
theorem C04_reg (r : QReg R) (a b : MultiOp R) :
    r.apply (MultiOp.mul a b) = (r.apply a).apply b := QReg.apply_mul r a b

/-- applying a product leaves the buffer length unchanged -/
theorem C04_reg_size (r : QReg R) (o : MultiOp R) : (r.apply o).psi.size = r.psi.size :=
  QReg.apply_psi_size r o

end

section
variable {R : Type} [CommRing R] [Consts R]
open Qvnt.Spec

/-- **Operators on disjoint qubits commute**: if two built operators act on (and are controlled
by) disjoint sets of qubits, their product applies the same in either order. (`hs`, `hh`: the
constants are `1/√2`, `1/2`; the programs use 64-bit masks.) -/
theorem C04_commute (hs : 2 * (Consts.invSqrt2 : R) * Consts.invSqrt2 = 1)
    (hh : 2 * (Consts.half : R) = 1) (phaseOf : QftPhases R) (e1 e2 : OpExpr R)
    (hw1 : e1.WordOK) (hw2 : e2.WordOK) (o1 o2 : MultiOp R)
    (hb1 : OpExpr.build phaseOf e1 = .ok o1) (hb2 : OpExpr.build phaseOf e2 = .ok o2)
    (hd : MultiOp.actOn o1 &&& MultiOp.actOn o2 = 0) (ψ : State R) :
    (MultiOp.mul o1 o2).apply ψ = (MultiOp.mul o2 o1).apply ψ := by
  obtain ⟨g1, s1, _, hr1⟩ := build_ok_iff hs hh phaseOf e1 hw1 o1 hb1
  obtain ⟨g2, s2, _, hr2⟩ := build_ok_iff hs hh phaseOf e2 hw2 o2 hb2
  rw [MultiOp.apply_mul, MultiOp.apply_mul, hr1.apply, hr2.apply, hr2.apply, hr1.apply]
  rw [hr1.actOn, hr2.actOn] at hd
  refine actAll_comm' g1 g2 (fun a ha b hb => ?_) ψ
  have hb' : b.support &&& s1 = 0 :=
    disj_of_within (hr2.within b hb) (by rw [Nat.and_comm]; exact hd)
  exact disj_of_within (hr1.within a ha) (by rw [Nat.and_comm]; exact hb')

end

/-- non-vacuity: a concrete three-element product over `Int`-valued amplitudes -/
example : (MultiOp.mul (Op.x 1) (MultiOp.mul (Op.z 3) (Op.x 2)) : MultiOp Int).length = 3 := by
  decide

end Qvnt
