/-
C04 — a product of operators acts as its factors applied in queue order.

MODEL objects: `MultiOp.apply` (with the `(psi_i, psi_o)` ping-pong of
`src/operator/multi/mod.rs`), `MultiOp.mul` (`*`, `*=`, `append`, `push_back`),
`MultiOp.ofSingle`, `QReg.apply`. The statements hold for every queue (any length), every
state and every scalar type: no ring axiom is used, so they also cover the `Float` instance
the driver executes.
-/
import Qvnt.Lemmas.Structure

namespace Qvnt
section
variable {R : Type} [Add R] [Sub R] [Mul R] [Neg R] [Consts R]

/-- Applying a product = applying its elements one after another, front of the queue first.
(The buffer ping-pong of `MultiOp::apply`, final swap included, computes the left fold.) -/
theorem C04_apply (o : MultiOp R) (ψ : State R) :
    o.apply ψ = o.foldl (fun ψ g => g.apply ψ) ψ := MultiOp.apply_eq_foldl o ψ

/-- Whatever is found in the output buffer does not depend on its previous (uninitialised)
content. -/
theorem C04_junk_irrelevant (o : MultiOp R) (ψ junk junk' : State R) :
    (MultiOp.applyBuffers o ψ junk).2 = (MultiOp.applyBuffers o ψ junk').2 := by
  rw [MultiOp.applyBuffers_fst_snd, MultiOp.applyBuffers_fst_snd]

/-- `a * b` (also `*=`, `append`, pushing `b`'s elements) acts as `a`, then `b`. -/
theorem C04_mul (a b : MultiOp R) (ψ : State R) :
    (MultiOp.mul a b).apply ψ = b.apply (a.apply ψ) := MultiOp.apply_mul a b ψ

/-- every grouping of the same sequence is the same operator -/
theorem C04_assoc (a b c : MultiOp R) :
    MultiOp.mul (MultiOp.mul a b) c = MultiOp.mul a (MultiOp.mul b c) := MultiOp.mul_assoc a b c

/-- a product of any number of factors acts as the factors in order -/
theorem C04_prod (l : List (MultiOp R)) (ψ : State R) :
    (l.foldl MultiOp.mul []).apply ψ = l.foldl (fun ψ o => o.apply ψ) ψ := by
  suffices h : ∀ (acc : MultiOp R), (l.foldl MultiOp.mul acc).apply ψ
      = l.foldl (fun ψ o => o.apply ψ) (acc.apply ψ) by
    simpa [MultiOp.apply_nil] using h []
  induction l with
  | nil => intro acc; rfl
  | cons o l ih => intro acc; simp only [List.foldl_cons]; rw [ih, MultiOp.apply_mul]

/-- the identity operator is neutral and applies as the identity -/
theorem C04_id (a : MultiOp R) (ψ : State R) :
    MultiOp.mul Op.id a = a ∧ MultiOp.mul a Op.id = a ∧ (Op.id : MultiOp R).apply ψ = ψ :=
  ⟨MultiOp.nil_mul a, MultiOp.mul_nil a, MultiOp.apply_nil ψ⟩

end

section
variable {R : Type} [Add R] [Sub R] [Mul R] [Neg R] [Zero R] [Consts R]

/-- on a register: applying `a * b` is applying `a`, then `b` (one full buffer sweep per
queue element) -/
theorem C04_reg (r : QReg R) (a b : MultiOp R) :
    r.apply (MultiOp.mul a b) = (r.apply a).apply b := QReg.apply_mul r a b

/-- applying a product leaves the buffer length unchanged -/
theorem C04_reg_size (r : QReg R) (o : MultiOp R) : (r.apply o).psi.size = r.psi.size :=
  QReg.apply_psi_size r o

end

/-- non-vacuity: a concrete three-element product over `Int`-valued amplitudes -/
example : (MultiOp.mul (Op.x 1) (MultiOp.mul (Op.z 3) (Op.x 2)) : MultiOp Int).length = 3 := by
  decide

end Qvnt
