/-
C02 — a controlled operator acts only where all control qubits are 1; `.c(mask)` is refused
exactly when the mask overlaps the qubits the operator already acts on or is controlled by;
the reported support is targets ∪ controls.

MODEL objects: `SingleOp.c`, `MultiOp.c`, `SingleOp.apply` (the `!idx & ctrl == 0` test of
`AtomicOp::for_each`), `MultiOp.apply`, `MultiOp.actOn`. SPEC objects: `Spec.ctrl` ("apply `A`
where every bit of the mask is 1, leave every other basis state untouched") and the `.c` case
of `Spec.denote`. Proofs: `Qvnt/Lemmas/Structure.lean`, `Local.lean`, `Refine.lean`.
-/
import Qvnt.Lemmas.Refine

namespace Qvnt
open Qvnt.Spec

section structural
variable {R : Type}

/-- A product accepts the control mask `m` exactly when `m` avoids every qubit the product
acts on or is already controlled by (then the inner `unwrap` cannot fail either). -/
theorem C02_refuse (o : MultiOp R) (m : Nat) :
    (MultiOp.c o m).isSome ↔ MultiOp.actOn o &&& m = 0 := MultiOp.c_isSome_iff o m

/-- The same for one queue element. -/
theorem C02_single_refuse (g : SingleOp R) (m : Nat) :
    (g.c m).isSome ↔ g.actOn &&& m = 0 := SingleOp.c_isSome_iff g m

/-- An accepted `.c(m)` only adds `m` to the control mask of every element: same length, same
targets, same kernels. -/
theorem C02_elements (o o' : MultiOp R) (m : Nat) (h : MultiOp.c o m = some o') :
    o' = o.map (fun g => { g with ctrl := g.ctrl ||| m }) :=
  ((MultiOp.c_eq_some_iff o o' m).1 h).2

/-- Reported support of a controlled non-empty product = old support ∪ control mask. -/
theorem C02_support (o o' : MultiOp R) (m : Nat) (h : MultiOp.c o m = some o') (hne : o ≠ []) :
    MultiOp.actOn o' = MultiOp.actOn o ||| m := (MultiOp.c_spec o o' m h).2.2.1 hne

/-- The empty product stays empty (and is never refused): it has nothing to control. -/
theorem C02_empty (m : Nat) : MultiOp.c ([] : MultiOp R) m = some [] := MultiOp.c_nil m

/-- Reported support of one controlled element = targets ∪ old controls ∪ new controls. -/
theorem C02_single_support (g g' : SingleOp R) (m : Nat) (h : g.c m = some g') :
    g'.actOn = g.actOn ||| m := (SingleOp.c_spec g g' m h).2.2.2

/-- Two successive `.c` calls with disjoint masks = one call with the union (one element). -/
theorem C02_nested_single (g : SingleOp R) (c1 c2 : Nat) (h : c1 &&& c2 = 0) :
    (g.c c1).bind (fun g' => g'.c c2) = g.c (c1 ||| c2) := SingleOp.c_c_of_disjoint g c1 c2 h

/-- Two successive `.c` calls with disjoint masks = one call with the union (a product). -/
theorem C02_nested (o : MultiOp R) (c1 c2 : Nat) (h : c1 &&& c2 = 0) :
    (MultiOp.c o c1).bind (fun o' => MultiOp.c o' c2) = MultiOp.c o (c1 ||| c2) := by
  by_cases ho : o = []
  · subst ho
    simp only [MultiOp.c_nil, Option.bind_some]
  by_cases h1 : MultiOp.actOn o &&& c1 = 0
  · rw [MultiOp.c_eq_some o c1 h1, Option.bind_some]
    by_cases h2 : MultiOp.actOn o &&& c2 = 0
    · rw [MultiOp.c_eq_some _ c2, MultiOp.c_eq_some o (c1 ||| c2), List.map_map]
      · congr 1
        apply List.map_congr_left
        intro g _
        exact SingleOp.addCtrl_addCtrl g c1 c2
      · exact (and_or_eq_zero_iff _ _ _).2 ⟨h1, h2⟩
      · rw [MultiOp.actOn_map_addCtrl o c1 ho]
        exact (or_and_eq_zero_iff _ _ _).2 ⟨h2, h⟩
    · rw [MultiOp.c_eq_none _ c2, MultiOp.c_eq_none o (c1 ||| c2)]
      · intro h'; exact h2 ((and_or_eq_zero_iff _ _ _).1 h').2
      · rw [MultiOp.actOn_map_addCtrl o c1 ho]
        intro h'; exact h2 ((or_and_eq_zero_iff _ _ _).1 h').1
  · rw [MultiOp.c_eq_none o c1 h1, Option.bind_none, MultiOp.c_eq_none]
    intro h'; exact h1 ((and_or_eq_zero_iff _ _ _).1 h').1

end structural

section semantic
variable {R : Type} [CommRing R] [Consts R]

/-- One controlled element: the kernel runs at the basis states whose control bits are all 1,
every other amplitude is copied. -/
theorem C02_single_apply (g g' : SingleOp R) (m : Nat) (h : g.c m = some g') (ψ : State R)
    (idx : Nat) :
    g'.apply ψ idx = if idx &&& m = m then g.apply ψ idx else ψ idx := by
  obtain ⟨_, rfl⟩ := (SingleOp.c_eq_some_iff g g' m).1 h
  rw [SingleOp.addCtrl_apply_eq_ctrl_apply]
  rfl

/-- **Controlled product = the whole product, on the block where all control bits are 1.**
`o` is any operator built by a construction program over 64-bit masks. -/
theorem C02_block (hs : 2 * (Consts.invSqrt2 : R) * Consts.invSqrt2 = 1)
    (hh : 2 * (Consts.half : R) = 1) (phaseOf : QftPhases R) (e : OpExpr R) (hw : e.WordOK)
    (o : MultiOp R) (hb : OpExpr.build phaseOf e = .ok o) (m : Nat) (o' : MultiOp R)
    (hc : MultiOp.c o m = some o') (ψ : State R) :
    o'.apply ψ = Spec.ctrl m (fun φ => o.apply φ) ψ := by
  obtain ⟨gs, supp, _, hr⟩ := build_ok_iff hs hh phaseOf e hw o hb
  exact MultiOp.c_apply_whole o o' m hc hr.valid ψ

/-- The same, amplitude by amplitude. -/
theorem C02_block_idx (hs : 2 * (Consts.invSqrt2 : R) * Consts.invSqrt2 = 1)
    (hh : 2 * (Consts.half : R) = 1) (phaseOf : QftPhases R) (e : OpExpr R) (hw : e.WordOK)
    (o : MultiOp R) (hb : OpExpr.build phaseOf e = .ok o) (m : Nat) (o' : MultiOp R)
    (hc : MultiOp.c o m = some o') (ψ : State R) (idx : Nat) :
    o'.apply ψ idx = if idx &&& m = m then o.apply ψ idx else ψ idx := by
  rw [C02_block hs hh phaseOf e hw o hb m o' hc ψ]
  rfl

/-- Basis states with some control bit 0 are left untouched. -/
theorem C02_untouched (hs : 2 * (Consts.invSqrt2 : R) * Consts.invSqrt2 = 1)
    (hh : 2 * (Consts.half : R) = 1) (phaseOf : QftPhases R) (e : OpExpr R) (hw : e.WordOK)
    (o : MultiOp R) (hb : OpExpr.build phaseOf e = .ok o) (m : Nat) (o' : MultiOp R)
    (hc : MultiOp.c o m = some o') (ψ : State R) (idx : Nat) (hidx : idx &&& m ≠ m) :
    o'.apply ψ idx = ψ idx := by
  rw [C02_block_idx hs hh phaseOf e hw o hb m o' hc ψ idx, if_neg hidx]

/-- On the block where all control bits are 1 the operator only combines amplitudes of that
block: what `o` writes at `idx` depends only on the amplitudes whose bits under `m` agree with
`idx`. (So "apply `o` where all bits of `m` are 1" is a map of that block to itself.) -/
theorem C02_block_closed (hs : 2 * (Consts.invSqrt2 : R) * Consts.invSqrt2 = 1)
    (hh : 2 * (Consts.half : R) = 1) (phaseOf : QftPhases R) (e : OpExpr R) (hw : e.WordOK)
    (o : MultiOp R) (hb : OpExpr.build phaseOf e = .ok o) (m : Nat)
    (hd : MultiOp.actOn o &&& m = 0) (ψ φ : State R) (idx : Nat)
    (hag : ∀ j, j &&& m = idx &&& m → ψ j = φ j) : o.apply ψ idx = o.apply φ idx := by
  obtain ⟨gs, supp, _, hr⟩ := build_ok_iff hs hh phaseOf e hw o hb
  exact MultiOp.apply_readsWithin o m hd hr.valid ψ φ idx hag

/-- **Agreement with the reference semantics for `.c(mask)`.** Both evaluators panic, both
refuse (exactly when the mask overlaps the support of a non-empty operator), or the controlled
queue refines the circuit with `mask` added to every gate, and reports support ∪ mask. -/
theorem C02_spec (hs : 2 * (Consts.invSqrt2 : R) * Consts.invSqrt2 = 1)
    (hh : 2 * (Consts.half : R) = 1) (phaseOf : QftPhases R) (e : OpExpr R) (hw : e.WordOK)
    (m : Nat) (hm : m < 2 ^ 64) :
    match OpExpr.build phaseOf (.c m e), Spec.denote phaseOf (.c m e) with
    | .ok o, .ok gs supp => Refines o gs supp
    | .refused, .refused => True
    | .panic, .panic => True
    | _, _ => False :=
  build_refines hs hh phaseOf (.c m e) ⟨hm, hw⟩

omit [Consts R] in
/-- In terms of the spec: controlling the refined circuit means running it where all bits of
`m` are 1. -/
theorem C02_spec_apply (gs : List (SGate R)) (m : Nat) (h : ∀ g ∈ gs, g.support &&& m = 0)
    (ψ : State R) :
    actAll (gs.map (fun g => { g with ctrl := g.ctrl ||| m })) ψ = Spec.ctrl m (actAll gs) ψ :=
  actAll_map_addCtrl gs m h ψ

end semantic

/-- non-vacuity: `x(1).c(2)` is accepted and reports support `3`; `x(1).c(1)` is refused -/
example : (MultiOp.c (Op.x 1 : MultiOp Int) 2).map MultiOp.actOn = some 3
    ∧ (MultiOp.c (Op.x 1 : MultiOp Int) 1).isSome = false := by decide

end Qvnt
