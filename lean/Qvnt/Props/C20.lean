/-
C20 — bit-mask bookkeeping of virtual and classical registers is exact for every mask.

MODEL objects: `BitsIter` (`src/math/bits_iter.rs`, with the wrap-around of `pos <<= 1` on a
64-bit word), `VReg` (`src/register/virtl.rs`), `QReg.getVReg`/`QReg.getVRegBy`
(`src/register/quant.rs`), `CReg` (`src/register/class.rs`) and the mask scans of
`multi::h::h`, `multi::qft::qft`, `multi::qft::qft_swapped`.
SPEC objects: `bitsOf m` (the set bits of the word `m`, ascending, as single-bit masks),
`Nat.testBit`, `%`, `+`, `*`.

Machine words are `Nat`s below `2^64`. The classical-register statements use the
representation invariant (defined in `Lemmas/Regs20`)

  `CReg.Inv c := c.qNum ≤ 64 ∧ c.qMask = 2 ^ c.qNum - 1 ∧ c.value < 2 ^ c.qNum`.

Every statement holds for every word, in particular for masks with bit 63 set, where the
iterator's cursor is shifted out of the word and becomes `0`.
-/
import Qvnt.Lemmas.Bits
import Qvnt.Lemmas.Regs20

namespace Qvnt

/-! ### the bit iterator -/

/-- `BitsIter` never runs out of fuel (the Rust loop terminates) and yields exactly the set
bits of the mask, ascending — also when bit 63 is set. -/
theorem C20_bitsIter (m : Nat) (h : m < 2 ^ 64) :
    (BitsIter.ofMask m).collect bitsFuel = some (bitsOf m) := bitsIter_collect_eq m h

example : (BitsIter.ofMask (2 ^ 63 + 5)).collect bitsFuel = some [1, 4, 2 ^ 63] := by decide
example : (BitsIter.ofMask (2 ^ 64 - 1)).collect bitsFuel = some (bitsOf (2 ^ 64 - 1)) := by decide

/-- `bitsOf m` is exactly the set of single-bit masks of the set bits of `m` -/
theorem C20_bits_exact (m a : Nat) :
    a ∈ bitsOf m ↔ ∃ i, i < 64 ∧ a = 2 ^ i ∧ m.testBit i = true := mem_bitsOf m a

/-- … in strictly ascending order (so without repetition) -/
theorem C20_bits_ascending (m : Nat) : (bitsOf m).Pairwise (· < ·) := bitsOf_pairwise_lt m

example : bitsOf (2 ^ 63 + 5) = [1, 4, 2 ^ 63] := by decide

/-! ### virtual registers -/

/-- a virtual register built from a mask lists exactly the set bits of the mask, ascending -/
theorem C20_vreg (m : Nat) (h : m < 2 ^ 64) : (VReg.ofMask m).bits = bitsOf m :=
  VReg.ofMask_bits m h

example : (VReg.ofMask (2 ^ 63 + 5)).bits = [1, 4, 2 ^ 63] := by decide

/-- `VReg::new(n)`: the `n` lowest qubits, saturating at the word size -/
theorem C20_vreg_new (n : Nat) : (VReg.new n).bits = bitsOf (2 ^ (min n 64) - 1) :=
  VReg.new_bits n

theorem C20_vreg_new_length (n : Nat) : (VReg.new n).bits.length = min n 64 :=
  VReg.new_length n

example : (VReg.new 3).bits = [1, 2, 4] := by decide
example : (VReg.new 70).bits.length = 64 := by decide

/-- `v[i]` is the `i`-th set bit of the mask (`none` = out of bounds) -/
theorem C20_idx (m : Nat) (h : m < 2 ^ 64) (i : Nat) :
    (VReg.ofMask m).idx i = (bitsOf m)[i]? := by
  rw [VReg.idx, VReg.ofMask_bits m h]

example : (VReg.ofMask (2 ^ 63 + 5)).idx 2 = some (2 ^ 63) := by decide
example : (VReg.ofMask (2 ^ 63 + 5)).idx 3 = none := by decide

/-- indexing by a predicate returns the union of the selected entries -/
theorem C20_idxBy (v : VReg) (f : Nat → Bool) (k : Nat) :
    (v.idxBy f).testBit k = true
      ↔ ∃ i b, v.bits[i]? = some b ∧ f i = true ∧ b.testBit k = true :=
  VReg.idxBy_testBit v f k

example : (VReg.ofMask (2 ^ 63 + 5)).idxBy (fun i => i != 1) = 2 ^ 63 + 1 := by decide

/-- indexing by a list of positions returns the union of the listed entries -/
theorem C20_idxList (v : VReg) (l : List Nat) (k : Nat) :
    (v.idxList l).testBit k = true
      ↔ ∃ i b, v.bits[i]? = some b ∧ l.contains i = true ∧ b.testBit k = true :=
  VReg.idxBy_testBit v _ k

example : (VReg.ofMask (2 ^ 63 + 5)).idxList [2, 1] = 2 ^ 63 + 4 := by decide

/-- indexing by the full range returns the mask the register was built from -/
theorem C20_idxAll (m : Nat) (h : m < 2 ^ 64) : (VReg.ofMask m).idxAll = m :=
  VReg.idxAll_ofMask m h

example : (VReg.ofMask (2 ^ 63 + 5)).idxAll = 2 ^ 63 + 5 := by decide

/-! ### views of a quantum register -/

/-- a view exists exactly when the mask lies inside the register (no assumption on the
register is needed) -/
theorem C20_view {R : Type} (r : QReg R) (mask : Nat) (hm : mask < 2 ^ 64) :
    (r.getVRegBy mask).isSome ↔ mask &&& r.qMask = mask :=
  QReg.getVRegBy_isSome_iff r mask hm

/-- … and when it exists it lists the set bits of the mask -/
theorem C20_view_bits {R : Type} (r : QReg R) (mask : Nat) (hm : mask < 2 ^ 64) (v : VReg)
    (hv : r.getVRegBy mask = some v) : v.bits = bitsOf mask :=
  QReg.getVRegBy_bits r mask hm v hv

/-- the full view lists all qubits of the register -/
theorem C20_view_all {R : Type} (r : QReg R) (hq : r.qMask < 2 ^ 64) :
    r.getVReg.bits = bitsOf r.qMask := QReg.getVReg_bits r hq

example : ((⟨#[], 64, 2 ^ 64 - 1⟩ : QReg Nat).getVRegBy (2 ^ 63 + 5)).isSome = true := by decide
example : ((⟨#[], 3, 7⟩ : QReg Nat).getVRegBy 9).isSome = false := by decide
example : ((⟨#[], 3, 7⟩ : QReg Nat).getVRegBy 5) = some ⟨[1, 4]⟩ := by decide

/-! ### classical registers -/

/-- a new classical register holds the initial value truncated to `n` bits -/
theorem C20_creg_new (n s : Nat) (hn : n ≤ 64) :
    (CReg.withState n s).value = s % 2 ^ n ∧ (CReg.withState n s).value < 2 ^ n :=
  ⟨CReg.withState_value n s hn, (CReg.withState_inv n s hn).2.2⟩

example : (CReg.withState 64 (2 ^ 64 + 2 ^ 63 + 5)).value = 2 ^ 63 + 5 := by decide

theorem C20_creg_inv_new (n s : Nat) (hn : n ≤ 64) : (CReg.withState n s).Inv :=
  CReg.withState_inv n s hn

theorem C20_creg_inv_set (c : CReg) (hc : c.Inv) (b : Bool) (mask : Nat)
    (hm : mask &&& c.qMask = mask) : (c.set b mask).Inv := CReg.set_inv c hc b mask hm

theorem C20_creg_inv_xor (c : CReg) (hc : c.Inv) (b : Bool) (mask : Nat)
    (hm : mask &&& c.qMask = mask) : (c.xor b mask).Inv := CReg.xor_inv c hc b mask hm

theorem C20_creg_inv_reset (c : CReg) (hc : c.Inv) (i : Nat) : (c.reset i).Inv :=
  CReg.reset_inv c hc i

theorem C20_creg_inv_setNum (c : CReg) (n : Nat) (hn : n ≤ 64) : (c.setNum n).Inv :=
  CReg.setNum_inv c n hn

theorem C20_creg_inv_tensorProd (a b : CReg) (h : a.qNum + b.qNum ≤ 64) :
    (a.tensorProd b).Inv := CReg.tensorProd_inv a b h

/-- the value of a register that satisfies the invariant is below `2^n` -/
theorem C20_creg_value_lt (c : CReg) (hc : c.Inv) : c.value < 2 ^ c.qNum := hc.2.2

example : (CReg.withState 64 (2 ^ 63 + 5)).Inv := by unfold CReg.Inv; decide
/-- the side condition of `C20_creg_inv_set`/`_xor` is necessary: `CReg::set`/`xor` do not clip
the mask to the register, a mask outside it takes the value out of range -/
example : ¬ ((CReg.withState 2 0).set true 4).Inv := by unfold CReg.Inv; decide
example : ¬ ((CReg.withState 2 0).xor true 4).Inv := by unfold CReg.Inv; decide

/-- `set` writes `b` into exactly the bits of the mask (every bit position `k`) -/
theorem C20_creg_set (c : CReg) (hc : c.Inv) (b : Bool) (mask k : Nat) (hm : mask < 2 ^ 64) :
    (c.set b mask).value.testBit k = if mask.testBit k then b else c.value.testBit k :=
  CReg.set_value_testBit' c hc b mask k hm

/-- the same inside the word, for any register and mask -/
theorem C20_creg_set_word (c : CReg) (b : Bool) (mask k : Nat) (hk : k < 64) :
    (c.set b mask).value.testBit k = if mask.testBit k then b else c.value.testBit k :=
  CReg.set_value_testBit c b mask k hk

/-- `xor` flips exactly the bits of the mask when `b` is set and nothing otherwise -/
theorem C20_creg_xor (c : CReg) (b : Bool) (mask k : Nat) :
    (c.xor b mask).value.testBit k = (c.value.testBit k != (b && mask.testBit k)) :=
  CReg.xor_value_testBit c b mask k

example : ((CReg.withState 64 5).set true (2 ^ 63)).value = 2 ^ 63 + 5 := by decide
example : ((CReg.withState 64 (2 ^ 63 + 5)).set false (2 ^ 63 + 1)).value = 4 := by decide
example : ((CReg.withState 64 (2 ^ 63 + 5)).xor true (2 ^ 63 + 2)).value = 7 := by decide

/-- the product concatenates the bits, left factor low -/
theorem C20_creg_tensor (a b : CReg) (ha : a.Inv) (hb : b.Inv) (h : a.qNum + b.qNum ≤ 64) :
    (a.tensorProd b).value = a.value + b.value * 2 ^ a.qNum
      ∧ (a.tensorProd b).qNum = a.qNum + b.qNum :=
  ⟨CReg.tensorProd_value a b ha hb h, CReg.tensorProd_qNum a b⟩

example : (CReg.withState 2 1).tensorProd (CReg.withState 62 (2 ^ 61 + 1))
    = ⟨2 ^ 63 + 5, 64, 2 ^ 64 - 1⟩ := by decide

/-- bit `j` of `get_by_mask` is the `j`-th selected bit of the value -/
theorem C20_getByMask (c : CReg) (hc : c.Inv) (mask j : Nat) :
    (c.getByMask mask).testBit j = true
      ↔ ∃ b, (bitsOf (mask &&& c.qMask))[j]? = some b ∧ c.value &&& b ≠ 0 :=
  CReg.getByMask_testBit c hc mask j

example : (CReg.withState 64 (2 ^ 63 + 5)).getByMask (2 ^ 63 + 6) = 6 := by decide

/-- the printed form has `n` binary digits between the parentheses … -/
theorem C20_debug_length (c : CReg) (hc : c.Inv) : c.debug.length = c.qNum + 2 :=
  CReg.debug_length c hc

/-- … namely the bits of the value, most significant first -/
theorem C20_debug_digits (c : CReg) (hc : c.Inv) :
    c.debug.toList
      = '(' :: ((List.range c.qNum).reverse.map
          (fun i => if c.value.testBit i then '1' else '0')) ++ [')'] :=
  CReg.debug_toList c hc

example : (CReg.withState 4 5).debug = "(0101)" := by decide

/-! ### the mask scans of the multi-qubit constructors -/

/-- `qft_swapped`'s scan terminates on every mask (its cursor wraps to `0` after bit 63)
and yields the set bits -/
theorem C20_maskBitsLoop (m : Nat) : Op.maskBitsLoop m (W + 2) 1 [] = some (bitsOf m) :=
  maskBitsLoop_eq' m

theorem C20_qftBits (m : Nat) : Op.qftBits m = bitsOf m := qftBits_eq_bitsOf m

/-- the scan of `multi::h::h` terminates on every mask -/
theorem C20_hLoop_terminates {R : Type} (m : Nat) :
    (Op.hLoop (R := R) m (W + 2) 1 0 true []).isSome = true := hLoop_terminates m

example : Op.maskBitsLoop (2 ^ 63 + 5) (W + 2) 1 [] = some [1, 4, 2 ^ 63] := by decide
example : (Op.hLoop (R := Nat) (2 ^ 64 - 1) (W + 2) 1 0 true []).isSome = true := by decide

end Qvnt
